(* Theory/StateSpaceGenThm.v — the state_space_model.py part of Gen/MatrixGen.v (regenerated from the Python source by
   tools/gen_matrix.py on every run) is equal to the hand-written model Model/StateSpace.v:
   state_space_matrices (element incidence, source / inductance incidence, value matrix, the block algebra A, B, C, D),
   the output rows of NodalStateSpaceModel and its `sources`. *)
From Coq Require Import List Bool NArith Arith Lia Permutation.
From CC Require Import Theory.Field Theory.Labels Model.Network Model.Transformers Model.NetworkPrims Model.StateSpace
  Model.Port Model.MatrixPrims Gen.NetworkGen Gen.MatrixGen Theory.Mna Theory.Api Theory.Gauss Theory.Matrix Theory.NetworkGenThm
  Theory.MatrixGenThm.
Import ListNotations.

Lemma for_res_err {S A} (l : list A) (body : S -> A -> res S) e s :
  (forall s x, In x l -> (exists s', body s x = Ok s') \/ body s x = Err e) ->
  (exists x, In x l /\ forall s, body s x = Err e) -> for_res l body s = Err e.
Proof. revert s. induction l as [|a l IH]; intros s H1 [x [Hx Hall]]; [destruct Hx|]. simpl.
  destruct (H1 s a (or_introl eq_refl)) as [[s' E]|E]; rewrite E; simpl; [|reflexivity].
  apply IH; [intros; apply H1; right; assumption|]. destruct Hx as [->|Hx]; [rewrite Hall in E; discriminate|].
  exists x. split; assumption. Qed.

Lemma in_enumerate {A} (l : list A) k x d : In (k, x) (enumerate l) -> k < length l /\ x = nth k l d.
Proof. unfold enumerate. intros H.
  assert (G : forall s, In (k, x) (combine (seq s (length l)) l) -> s <= k < s + length l /\ x = nth (k - s) l d).
  { clear H. induction l as [|a l IH]; intros s H; simpl in *; [destruct H|]. destruct H as [H|H].
    - injection H as <- <-. rewrite Nat.sub_diag. split; [lia|reflexivity].
    - destruct (IH (S s) H) as [H1 H2]. split; [lia|]. replace (k - s) with (S (k - S s)) by lia. exact H2. }
  destruct (G 0 H) as [H1 H2]. rewrite Nat.sub_0_r in H2. split; [lia|exact H2]. Qed.

Lemma enumerate_nth {A} (l : list A) k d : k < length l -> In (k, nth k l d) (enumerate l).
Proof. unfold enumerate. intros H.
  assert (G : forall s, In (s + k, nth k l d) (combine (seq s (length l)) l)).
  { revert k H. induction l as [|a l IH]; intros k H s; simpl in *; [lia|]. destruct k as [|k].
    - left. rewrite Nat.add_0_r. reflexivity.
    - right. replace (s + S k) with (S s + k) by lia. apply IH. lia. }
  exact (G 0). Qed.

Lemma enumerate_length {A} (l : list A) : length (enumerate l) = length l.
Proof. unfold enumerate. rewrite combine_length, seq_length. lia. Qed.

Lemma enum_filter_fst {A} (P : A -> bool) (L : list A) d :
  map fst (filter (fun il => P (snd il)) (enumerate L)) = filter (fun p => P (nth p L d)) (seq 0 (length L)).
Proof. unfold enumerate.
  assert (G : forall s, map fst (filter (fun il => P (snd il)) (combine (seq s (length L)) L))
                        = filter (fun p => P (nth (p - s) L d)) (seq s (length L))).
  { induction L as [|a L IH]; intros s; [reflexivity|].
    assert (E : filter (fun p => P (nth (p - s) (a :: L) d)) (seq (S s) (length L))
                = filter (fun p => P (nth (p - S s) L d)) (seq (S s) (length L))).
    { apply filter_ext_in. intros p Hp. apply in_seq in Hp. replace (p - s) with (S (p - S s)) by lia. reflexivity. }
    change (length (a :: L)) with (S (length L)). change (seq s (S (length L))) with (s :: seq (S s) (length L)).
    change (combine (s :: seq (S s) (length L)) (a :: L)) with ((s, a) :: combine (seq (S s) (length L)) L).
    cbn [filter snd]. rewrite Nat.sub_diag, E, <- IH. change (nth 0 (a :: L) d) with a. destruct (P a); reflexivity. }
  rewrite (G 0). apply filter_ext. intros p. rewrite Nat.sub_0_r. reflexivity. Qed.

(* private helpers (module-level _name, methods _name) are registered in the hint database py_private by the translator: the
   proofs about their callers look through them, whatever their names ([unfold_private], Theory/NetworkGenThm.v) *)

Section SSGen.
Variable K : fops.
Hypothesis KOK : fops_ok K.
Add Field Kssg : (Kth K KOK).
Notation "0" := (f0 K). Notation "1" := (f1 K).
Infix "+" := (fadd K). Infix "*" := (fmul K). Infix "-" := (fsub K). Notation "- x" := (fopp K x).
Infix "/" := (fdiv K).
Notation write := (write K).

(* ---------- the exact value of an entry after a sequence of writes: the last write that hits it ---------- *)
Definition val_after (i j : nat) (ws : list write) (v : K) : K :=
  fold_left (fun v w => if hits i j w then snd w else v) ws v.

Lemma writes_val r c ws (M : arr2 K) i j : wfa r c M -> i < r -> j < c ->
  ent2 (fold_left do_write ws M) i j = val_after i j ws (ent2 M i j).
Proof. intros W Hi Hj. revert M W. induction ws as [|w ws IH]; intros M W; simpl; [reflexivity|].
  assert (W' : wfa r c (do_write M w)) by (apply (writes_wfa K r c [w] M W)).
  rewrite (IH _ W'). f_equal. destruct W as [_ [WL WR]].
  destruct w as [[[en i'] j'] v]; simpl. destruct en; simpl; [|reflexivity].
  rewrite (ent2_set K); [reflexivity|rewrite WL; exact Hi|rewrite (wfm_row K r c _ i (conj WL WR) Hi); exact Hj]. Qed.

Lemma val_after_app i j a b v : val_after i j (a ++ b) v = val_after i j b (val_after i j a v).
Proof. unfold val_after. apply fold_left_app. Qed.

Lemma val_nohit i j ws v : (forall w, In w ws -> hits i j w = false) -> val_after i j ws v = v.
Proof. revert v. induction ws as [|w ws IH]; intros v H; simpl; [reflexivity|].
  unfold val_after in *; simpl. rewrite (H w (or_introl eq_refl)). apply IH. intros; apply H; right; assumption. Qed.

Lemma val_flat_local {A} (l : list A) (g : A -> list write) i j t v :
  (forall x, In x l -> (forall w, In w (g x) -> hits i j w = false) \/ (forall v, val_after i j (g x) v = t)) ->
  (v = t \/ exists x, In x l /\ forall v, val_after i j (g x) v = t) -> val_after i j (flat_map g l) v = t.
Proof. revert v. induction l as [|a l IH]; intros v H1 H2; simpl.
  - destruct H2 as [->|[x [[] _]]]. reflexivity.
  - rewrite val_after_app. apply IH; [intros; apply H1; right; assumption|].
    destruct (H1 a (or_introl eq_refl)) as [Hn|Hs].
    + rewrite (val_nohit _ _ _ _ Hn). destruct H2 as [->|[x [[->|Hx] Hset]]]; [left; reflexivity| |right; exists x; split; assumption].
      left. rewrite <- (Hset v). symmetry. apply (val_nohit _ _ _ _ Hn).
    + left. apply Hs. Qed.

(* each loop iteration x performs the writes g x; for every entry, an iteration either never hits it or sets it to
   the target whatever it was before *)
Lemma fill_local {A} r c (l : list A) (g : A -> list write) (target : list (list K)) : wfm r c target ->
  (forall i j, i < r -> j < c ->
     (forall x, In x l -> (forall w, In w (g x) -> hits i j w = false) \/ (forall v, val_after i j (g x) v = ent target i j)) /\
     ((exists x, In x l /\ forall v, val_after i j (g x) v = ent target i j) \/ ent target i j = 0)) ->
  fold_left do_write (flat_map g l) (np_zeros2 r c) = {| a_cols := c; a_rows := target |}.
Proof. intros WT H. apply (arr_ext K r c); [apply writes_wfa, wfa_zeros|exact WT|].
  intros i j Hi Hj. destruct (H i j Hi Hj) as [H1 H2].
  rewrite (writes_val r c _ _ i j (wfa_zeros K r c) Hi Hj), ent2_zeros.
  apply val_flat_local; [exact H1|]. destruct H2 as [H2|H2]; [right; exact H2|left; symmetry; exact H2]. Qed.

(* ====================== state_space_matrices ====================== *)
Section Matrices.
Variable n : network K.
Notation ns := (node_index n).
Notation vs := (vs_index n).
Notation cs := (cs_index n).
Notation bs := (branches n).

(* the writes of one iteration ((k, id), i) of the element-incidence loop: +1 at node1, then -1 at node2 *)
Definition delta_writes (x : nat * label * label) : list write :=
  let '((k, id), i) := x in
  match get_branch bs id with
  | Some b => [ (label_eqb i (node1 b), k, lindex ns i, 1); (label_eqb i (node2 b), k, lindex ns i, - (1)) ]
  | None => []
  end.

Lemma delta_fill (values : list label) :
  fold_left do_write (flat_map delta_writes (list_prod (enumerate values) ns)) (np_zeros2 (length values) (length ns))
  = {| a_cols := length ns; a_rows := map (fun id => map (delta_ent K n id) ns) values |}.
Proof. pose proof (node_index_NoDup K n) as NDn.
  apply fill_local; [apply wfm_map_map|]. intros p q Hp Hq.
  rewrite (ent_map_map K (delta_ent K n) values ns p q [] []) by assumption.
  set (id0 := nth p values []). set (i0 := nth q ns []).
  assert (Hi0 : In i0 ns) by (apply nth_In; exact Hq).
  assert (Hq0 : lindex ns i0 = q) by (apply lindex_nth; assumption).
  (* what the iteration ((p, id0), i0) does to the entry (p, q) *)
  assert (Hx0 : (forall w, In w (delta_writes ((p, id0), i0)) -> hits p q w = false) /\ delta_ent K n id0 i0 = 0
                \/ (forall v, val_after p q (delta_writes ((p, id0), i0)) v = delta_ent K n id0 i0)).
  { unfold delta_writes, delta_ent. destruct (get_branch bs id0) as [b|]; [|left; split; [intros w []|reflexivity]].
    rewrite (label_eqb_sym (node2 b) i0), (label_eqb_sym (node1 b) i0).
    destruct (label_eqb i0 (node2 b)) eqn:E2; [right; intros v; unfold val_after; simpl; rewrite Hq0, !Nat.eqb_refl, ?andb_true_r; simpl; reflexivity|].
    destruct (label_eqb i0 (node1 b)) eqn:E1; [right; intros v; unfold val_after; simpl; rewrite Hq0, !Nat.eqb_refl, ?andb_true_r; simpl; reflexivity|].
    left. split; [|reflexivity]. intros w [<-|[<-|[]]]; simpl; rewrite ?E1, ?E2; reflexivity. }
  split.
  - intros [[k id] i] Hin. apply in_prod_iff in Hin. destruct Hin as [Hk Hi].
    destruct (Nat.eqb k p && Nat.eqb (lindex ns i) q) eqn:E.
    + apply andb_true_iff in E. destruct E as [E1 E2]. apply Nat.eqb_eq in E1, E2. subst k.
      destruct (in_enumerate values p id [] Hk) as [_ ->]. fold id0.
      assert (Ei : i = i0) by (unfold i0; rewrite <- E2; symmetry; apply nth_lindex, Hi). rewrite Ei.
      destruct Hx0 as [[H _]|H]; [left|right]; exact H.
    + left. intros w Hw. unfold delta_writes in Hw. destruct (get_branch bs id) as [b|]; [|destruct Hw].
      destruct Hw as [<-|[<-|[]]]; simpl; rewrite <- andb_assoc, E; apply andb_false_r.
  - destruct Hx0 as [[_ H]|H]; [right; exact H|left]. exists ((p, id0), i0). split; [|exact H].
    apply in_prod_iff. split; [apply enumerate_nth; exact Hp|exact Hi0]. Qed.

(* for i in range(m): Q[i][i] = 1 *)
Lemma ident_fill m :
  fold_left (fun (Q : arr2 K) i => arr_set Q i i 1) (seq 0 m) (np_zeros2 m m) = {| a_cols := m; a_rows := ident m |}.
Proof. rewrite (fold_left_ext_in _ (fun Q i => do_write Q (true, i, i, 1))) by reflexivity.
  rewrite <- (fold_left_map do_write (fun i => (true, i, i, 1))).
  apply (fill_entries K); [apply (wfm_ident K)|]. intros i j Hi Hj. rewrite (ent_ident K m i j Hi Hj). split.
  - intros w Hw Hh. apply in_map_iff in Hw. destruct Hw as [k [<- _]]. simpl in *.
    apply andb_true_iff in Hh. destruct Hh as [H1 H2]. apply Nat.eqb_eq in H1, H2. subst. rewrite Nat.eqb_refl. reflexivity.
  - destruct (Nat.eqb_spec j i) as [->|Ne]; [left|right; reflexivity].
    exists (true, i, i, 1). split; [apply in_map_iff; exists i; split; [reflexivity|apply in_seq; lia]|].
    simpl. rewrite Nat.eqb_refl. reflexivity. Qed.

Lemma list_prod_nil_r {A B} (l : list A) : list_prod l (@nil B) = [].
Proof. induction l as [|a l IH]; simpl; [reflexivity|exact IH]. Qed.

(* element_incidence_matrix: any loop body that performs [delta_writes] (KeyError for an unknown id) *)
Lemma element_incidence_generic (body : arr2 K -> nat * label * label -> res (arr2 K)) (values : list label) nv :
  nv = length values ->
  (forall M k id i, body M ((k, id), i) = match get_branch bs id with
                                          | Some b => Ok (fold_left do_write (delta_writes ((k, id), i)) M)
                                          | None => Err EKeyError end) ->
  bind (for_res (list_prod (enumerate values) ns) body (np_zeros2 nv (length ns)))
       (fun D => Ok (np_hstack2 D (np_zeros2 (np_shape0 D) (length vs))))
  = bind (element_incidence_matrix K n values) (fun D => Ok {| a_cols := ss_dim K n; a_rows := D |}).
Proof. intros -> Hb. unfold element_incidence_matrix, ss_N.
  destruct (negb (Nat.eqb (length ns) 0) && negb (forallb (has_branch K n) values)) eqn:E.
  - apply andb_true_iff in E. destruct E as [E1 E2]. apply negb_true_iff in E1, E2. apply Nat.eqb_neq in E1.
    rewrite (for_res_err _ _ EKeyError); [reflexivity| |].
    + intros M [[k id] i] _. rewrite Hb. destruct (get_branch bs id); [left; eexists; reflexivity|right; reflexivity].
    + assert (Hex : exists id, In id values /\ has_branch K n id = false).
      { clear -E2. induction values as [|a l IH]; simpl in E2; [discriminate|]. apply andb_false_iff in E2.
        destruct E2 as [E|E]; [exists a; split; [left; reflexivity|exact E]|].
        destruct (IH E) as [id [H1 H2]]. exists id. split; [right; exact H1|exact H2]. }
      destruct Hex as [id [Hid Hno]]. destruct (In_nth _ _ [] Hid) as [k [Hk Ek]].
      destruct ns as [|i0 r] eqn:En; [simpl in E1; congruence|].
      exists ((k, id), i0). split.
      * apply in_prod_iff. split; [rewrite <- Ek; apply enumerate_nth; exact Hk|left; reflexivity].
      * intros M. rewrite Hb. unfold has_branch in Hno. destruct (get_branch bs id); [discriminate|reflexivity].
  - rewrite (for_res_pure _ _ (fun M x => fold_left do_write (delta_writes x) M)).
    + cbv beta iota delta [bind]. rewrite <- fold_left_flat_map, delta_fill. f_equal.
      unfold np_hstack2, np_zeros2, np_shape0, ss_dim, ss_N, ss_M; simpl. f_equal.
      rewrite map_length.
      rewrite (map_const_len (zero_row K (length vs)) (seq 0 (length values)) values) by apply seq_length.
      rewrite (hstack_map K). apply map_ext. intros id. rewrite (zero_row_as_map K). reflexivity.
    + intros M [[k id] i] Hin. rewrite Hb. apply in_prod_iff in Hin. destruct Hin as [Hk Hi].
      assert (Hne : Nat.eqb (length ns) 0 = false) by (destruct ns; [destruct Hi|reflexivity]).
      rewrite Hne in E. simpl in E. apply negb_false_iff in E.
      destruct (in_enumerate values k id [] Hk) as [Hk1 ->].
      assert (Hhb : has_branch K n (nth k values []) = true) by (apply (proj1 (forallb_forall _ _) E), nth_In, Hk1).
      unfold has_branch in Hhb. destruct (get_branch bs (nth k values [])); [reflexivity|discriminate]. Qed.

(* np.vstack((np.hstack((Qi, 0)), np.hstack((0, I)))) *)
Lemma Qmat_blocks :
  np_vstack2 (np_hstack2 {| a_cols := length cs; a_rows := map (fun i => map (Qent n i) cs) ns |}
                         (np_zeros2 (length ns) (length vs)))
             (np_hstack2 (np_zeros2 (length vs) (length cs)) {| a_cols := length vs; a_rows := ident (length vs) |})
  = {| a_cols := (length cs + length vs)%nat; a_rows := Qmat K n |}.
Proof. unfold np_vstack2, np_hstack2, np_zeros2, Qmat, ss_M; simpl. f_equal. f_equal.
  - rewrite (map_const_len (zero_row K (length vs)) (seq 0 (length ns)) ns) by apply seq_length.
    rewrite (hstack_map K). apply map_ext. intros i. rewrite (zero_row_as_map K). reflexivity.
  - unfold ident. rewrite (hstack_map K). apply map_ext. intros k. rewrite (zero_row_as_map K). reflexivity. Qed.

Lemma list_index_all (cols keys : list label) :
  map_res (fun l => bind (list_index cols l) (fun t => Ok t)) keys
  = if forallb (fun l => lmem l cols) keys then Ok (map (lindex cols) keys) else Err EValue.
Proof. induction keys as [|a l IH]; simpl; [reflexivity|]. unfold list_index at 1.
  destruct (lmem a cols); simpl; [|reflexivity]. rewrite IH. destruct (forallb _ l); reflexivity. Qed.

(* np.diag of [[diag(d1), 0], [0, diag(d2)]] *)
Lemma diag_blocks (d1 d2 : list K) n1 n2 : n1 = length d1 -> n2 = length d2 ->
  np_diag_of_arr (np_vstack2 (np_hstack2 (np_diag_of_list d1) (np_zeros2 n1 n2))
                             (np_hstack2 (np_zeros2 n2 n1) (np_diag_of_list d2))) = d1 ++ d2.
Proof. intros -> ->. unfold np_diag_of_arr, np_vstack2, np_hstack2, np_diag_of_list, np_zeros2, diag; simpl.
  rewrite !(hstack_map K). rewrite app_length, !map_length, !seq_length, Nat.min_id.
  apply (nth_ext _ _ 0 0); [rewrite map_length, seq_length, app_length; reflexivity|].
  intros k Hk. rewrite map_length, seq_length in Hk.
  rewrite (nth_map_lt (fun k0 => entry (nth k0 _ []) k0) _ k 0%nat 0) by (rewrite seq_length; exact Hk).
  rewrite seq_nth by exact Hk. simpl. unfold entry.
  destruct (Nat.lt_ge_cases k (length d1)) as [H1|H1].
  - rewrite app_nth1 by (rewrite map_length, seq_length; exact H1).
    rewrite (nth_map_lt _ (seq 0 (length d1)) k 0%nat []) by (rewrite seq_length; exact H1).
    rewrite seq_nth by exact H1. simpl.
    rewrite app_nth1 by (rewrite map_length, seq_length; exact H1).
    rewrite (nth_map_lt _ (seq 0 (length d1)) k 0%nat 0) by (rewrite seq_length; exact H1).
    rewrite seq_nth by exact H1. simpl. rewrite Nat.eqb_refl. rewrite app_nth1 by exact H1. reflexivity.
  - rewrite app_nth2 by (rewrite map_length, seq_length; exact H1). rewrite map_length, seq_length.
    assert (H2 : k - length d1 < length d2) by lia.
    rewrite (nth_map_lt _ (seq 0 (length d2)) (k - length d1) 0%nat []) by (rewrite seq_length; exact H2).
    rewrite seq_nth by exact H2. simpl.
    rewrite app_nth2 by (rewrite zero_row_length; exact H1). rewrite zero_row_length.
    rewrite (nth_map_lt _ (seq 0 (length d2)) (k - length d1) 0%nat 0) by (rewrite seq_length; exact H2).
    rewrite seq_nth by exact H2. simpl. rewrite Nat.eqb_refl. rewrite app_nth2 by exact H1. reflexivity. Qed.

Variables cvals lvals : list (label * K).
Hypothesis ND : NoDup (branch_ids n).

(* the four matrices as numpy arrays *)
Definition ssm_arrays (m : ssm K) : arr2 K * arr2 K * arr2 K * arr2 K :=
  ({| a_cols := ss_nst K cvals lvals; a_rows := ss_A m |}, {| a_cols := ss_nS K n lvals; a_rows := ss_B m |},
   {| a_cols := ss_nst K cvals lvals; a_rows := ss_C m |}, {| a_cols := ss_nS K n lvals; a_rows := ss_D m |}).

Theorem state_space_matrices_eq :
  py_state_space.state_space_matrices K n cvals lvals (py_label_mapping.default_node_mapper K)
    (py_label_mapping.alphabetic_current_source_mapper K) (py_label_mapping.alphabetic_voltage_source_mapper K)
  = bind (state_space_matrices K n cvals lvals) (fun m => Ok (ssm_arrays m)).
Proof. unfold py_state_space.state_space_matrices, state_space_matrices. cbv zeta. cbv beta.
  unfold py_node_analysis.nodal_analysis_coefficient_matrix__default_node_mapper,
    py_node_analysis.nodal_analysis_coefficient_matrix__default_source_mapper,
    py_node_analysis.source_incidence_matrix__default_node_mapper,
    py_node_analysis.source_incidence_matrix__default_source_mapper.
  rewrite !(proj1 (default_mappers_eq K n)), !alphabetic_voltage_source_mapper_eq, !alphabetic_current_source_mapper_eq.
  unfold mapping_N, mapping_keys, mapping_index, mapping_values, dict_keys, dict_values.
  try (erewrite for_res_nested_pair; [|intros s a1 a2; reflexivity]).     (* nested loops = the loop over the product *)
  rewrite (element_incidence_generic _ (map fst cvals) (length cvals)); [|symmetry; apply map_length|].
  2:{ intros M k id i. cbv beta iota zeta. cbn [fst snd]. rewrite getitem_eq. unfold delta_writes. destruct (get_branch bs id) as [b|]; [|reflexivity].
      cbv beta iota delta [bind]. cbn [fold_left do_write].
      destruct (label_eqb i (node1 b)), (label_eqb i (node2 b)); reflexivity. }
  change (ckeys K cvals) with (map fst cvals).
  destruct (element_incidence_matrix K n (map fst cvals)) as [Delta|e] eqn:ED; cbn [bind]; [|reflexivity].
  rewrite (nodal_analysis_coefficient_matrix_eq K KOK n ND), (source_incidence_matrix_eq_ K n ND). cbn [bind].
  rewrite ident_fill. unfold np_shape0, np_shape1. cbn [a_rows a_cols].
  assert (Li : length (@ident K (length vs)) = length vs) by (unfold ident; rewrite map_length, seq_length; reflexivity).
  rewrite Li, map_length, Qmat_blocks, list_index_all.
  unfold QL. change (columns K n) with (cs ++ vs). change (lkeys K lvals) with (map fst lvals).
  destruct (forallb (fun l => lmem l (cs ++ vs)) (map fst lvals)); cbn [bind]; [|reflexivity].
  unfold np_linalg_inv at 1. unfold np_real. cbn [a_rows a_cols].
  destruct (inverse (mna_matrix n)) as [iA|]; cbn [bind]; [|reflexivity].
  assert (LD : length Delta = length cvals).
  { unfold element_incidence_matrix in ED. destruct (_ && _); [discriminate|]. injection ED as <-. rewrite !map_length. reflexivity. }
  assert (EQS : map (fun '(i', _) => i') (filter (fun '(_, l') => negb (dict_mem l' lvals)) (enumerate (cs ++ vs)))
                = QS_idx K n lvals).
  { rewrite (map_ext _ fst) by (intros [? ?]; reflexivity).
    rewrite (filter_ext _ (fun il => negb (lmem (snd il) (map fst lvals)))) by (intros [? ?]; reflexivity).
    rewrite (enum_filter_fst (fun l => negb (lmem l (map fst lvals))) (cs ++ vs) []). reflexivity. }
  rewrite EQS.
  rewrite (diag_blocks (map (fun C' => - C') (map snd cvals)) (map snd lvals) (length cvals) (length lvals))
    by (rewrite ?map_length; reflexivity).
  rewrite (map_map snd (fun C' : K => - C')). fold (lam K cvals lvals).
  assert (EDQ : np_hstack2 (np_T {| a_cols := ss_dim K n; a_rows := Delta |})
                  (arr_cols {| a_cols := (length cs + length vs)%nat; a_rows := Qmat K n |} (map (lindex (cs ++ vs)) (map fst lvals)))
                = {| a_cols := ss_nst K cvals lvals;
                     a_rows := DQ_of K n Delta (select_cols K (map (lindex (cs ++ vs)) (map fst lvals)) (Qmat K n)) |}).
  { unfold np_hstack2, np_T, arr_cols, DQ_of, ss_nst, ss_nC, ss_nL. cbn [a_rows a_cols]. rewrite LD, !map_length. reflexivity. }
  rewrite EDQ.
  unfold np_matmul at 1 2 3. unfold np_T at 1. cbn [a_rows a_cols]. unfold np_linalg_inv.  cbn [a_rows a_cols].
  change (length ns + length vs)%nat with (ss_dim K n).
  destruct (inverse _) as [sA|]; cbn [bind]; [|reflexivity].
  assert (len_mm : forall c (A B : list (list K)), length (mat_mul c A B) = length A) by (intros; apply map_length).
  assert (len_tr : forall c (M : list (list K)), length (transpose c M) = c)
    by (intros; unfold transpose; rewrite map_length, seq_length; reflexivity).
  unfold ssm_arrays, np_matmul, np_T, np_neg, np_sub, np_diag_of_list, arr_cols, invLambda, QS, ss_nS.
  cbn [a_rows a_cols ss_A ss_B ss_C ss_D]. rewrite !len_mm, !len_tr. reflexivity. Qed.

(* ====================== NodalStateSpaceModel ====================== *)
(* the Python object built from the model's matrices *)
Definition nssm_of (m : ssm K) : nssm K :=
  {| m_A := {| a_cols := ss_nst K cvals lvals; a_rows := ss_A m |}; m_B := {| a_cols := ss_nS K n lvals; a_rows := ss_B m |};
     m_C := {| a_cols := ss_nst K cvals lvals; a_rows := ss_C m |}; m_D := {| a_cols := ss_nS K n lvals; a_rows := ss_D m |};
     m_network := n; m_c_values := cvals; m_l_values := lvals;
     m_node_index_mapping := ns; m_voltage_source_index_mapping := vs; m_current_source_index_mapping := cs |}.

Theorem nodal_state_space_model_eq :
  py_state_space.nodal_state_space_model K n cvals lvals (py_label_mapping.default_node_mapper K)
    (py_label_mapping.alphabetic_voltage_source_mapper K) (py_label_mapping.alphabetic_current_source_mapper K)
  = bind (nodal_state_space_model K n cvals lvals) (fun m => Ok (nssm_of m)).
Proof. unfold py_state_space.nodal_state_space_model, nodal_state_space_model. rewrite state_space_matrices_eq.
  rewrite (proj1 (default_mappers_eq K n)), alphabetic_voltage_source_mapper_eq, alphabetic_current_source_mapper_eq.
  destruct (state_space_matrices K n cvals lvals) as [m|e]; reflexivity. Qed.

(* the C and D matrices the model computes have one row per node and per voltage source *)
Lemma ssm_rows m : state_space_matrices K n cvals lvals = Ok m ->
  length (ss_C m) = ss_dim K n /\ length (ss_D m) = ss_dim K n.
Proof. unfold state_space_matrices. destruct (element_incidence_matrix _ _ _); [|discriminate]. cbn [bind].
  destruct (QL K n lvals); [|discriminate]. cbn [bind]. destruct (inverse (mna_matrix n)) as [iA|] eqn:EI; [|discriminate].
  destruct (inverse (mat_mul _ _ _)) as [sA|]; [|discriminate]. intros H. injection H as <-. cbn [ss_C ss_D].
  unfold mat_mul at 1. rewrite map_length. unfold transpose at 1. rewrite map_length, seq_length. split; [reflexivity|].
  unfold mat_mul at 1. rewrite map_length. unfold mat_sub. rewrite map_length, combine_length.
  destruct (inverse_spec K KOK (ss_dim K n) (mna_matrix n) iA (proj1 (wfm_square K _ _) (mna_square K n)) EI) as [[L _] _].
  rewrite L. unfold mat_mul at 1. rewrite map_length. unfold transpose at 1. rewrite map_length, seq_length. lia. Qed.

Section Rows.
Variable m : ssm K.
Hypothesis HC : length (ss_C m) = ss_dim K n.
Hypothesis HD : length (ss_D m) = ss_dim K n.
Hypothesis NDc : NoDup (map fst cvals).
Notation self := (nssm_of m).

Lemma firstn1_skipn {A} (l : list A) a d : a < length l -> firstn 1 (skipn a l) = [nth a l d].
Proof. revert a. induction l as [|x l IH]; intros a H; simpl in H; [lia|]. destruct a as [|a]; simpl; [reflexivity|]. apply IH. lia. Qed.

Lemma row_for_potential_gen (node : label) (c : nat) (Mx : list (list K)) : length Mx = ss_dim K n ->
  py_state_space.NodalStateSpaceModel__row_for_potential K self node {| a_cols := c; a_rows := Mx |}
  = bind (row_for_potential K n node c Mx) (fun r => Ok {| a_cols := c; a_rows := [r] |}).
Proof. intros HL. unfold py_state_space.NodalStateSpaceModel__row_for_potential, row_for_potential. cbn [m_network m_node_index_mapping nssm_of].
  destruct (label_eqb node (zero n)); [reflexivity|]. unfold mapping_item.
  destruct (lmem node ns) eqn:E; cbn [bind]; [|reflexivity].
  unfold arr_row_slice. cbn [a_rows a_cols]. replace (Nat.sub (Nat.add (lindex ns node) 1%nat) (lindex ns node)) with 1%nat by lia.
  rewrite (firstn1_skipn Mx (lindex ns node) []); [reflexivity|].
  apply lmem_spec, lindex_lt in E. rewrite HL. unfold ss_dim, ss_N. lia. Qed.

Theorem c_row_for_potential_eq node :
  py_state_space.NodalStateSpaceModel_c_row_for_potential K self node
  = bind (c_row_for_potential K n cvals lvals m node) (fun r => Ok {| a_cols := ss_nst K cvals lvals; a_rows := [r] |}).
Proof. apply (row_for_potential_gen node _ (ss_C m) HC). Qed.
Theorem d_row_for_potential_eq node :
  py_state_space.NodalStateSpaceModel_d_row_for_potential K self node
  = bind (d_row_for_potential K n lvals m node) (fun r => Ok {| a_cols := ss_nS K n lvals; a_rows := [r] |}).
Proof. apply (row_for_potential_gen node _ (ss_D m) HD). Qed.

Theorem c_row_voltage_eq id :
  py_state_space.NodalStateSpaceModel_c_row_voltage K self id
  = bind (c_row_voltage K n cvals lvals m id) (fun r => Ok {| a_cols := ss_nst K cvals lvals; a_rows := [r] |}).
Proof. unfold py_state_space.NodalStateSpaceModel_c_row_voltage, c_row_voltage, row_voltage. unfold_private. cbn [m_network nssm_of].
  rewrite getitem_eq. destruct (get_branch bs id) as [b|]; cbn [bind]; [|reflexivity].
  rewrite !c_row_for_potential_eq. unfold c_row_for_potential.
  destruct (row_for_potential K n (node1 b) _ _) as [r1|]; cbn [bind]; [|reflexivity].
  destruct (row_for_potential K n (node2 b) _ _) as [r2|]; cbn [bind]; reflexivity. Qed.
Theorem d_row_voltage_eq id :
  py_state_space.NodalStateSpaceModel_d_row_voltage K self id
  = bind (d_row_voltage K n lvals m id) (fun r => Ok {| a_cols := ss_nS K n lvals; a_rows := [r] |}).
Proof. unfold py_state_space.NodalStateSpaceModel_d_row_voltage, d_row_voltage, row_voltage. unfold_private. cbn [m_network nssm_of].
  rewrite getitem_eq. destruct (get_branch bs id) as [b|]; cbn [bind]; [|reflexivity].
  rewrite !d_row_for_potential_eq. unfold d_row_for_potential.
  destruct (row_for_potential K n (node1 b) _ _) as [r1|]; cbn [bind]; [|reflexivity].
  destruct (row_for_potential K n (node2 b) _ _) as [r2|]; cbn [bind]; reflexivity. Qed.

(* dict lookups (dict_get_absent, dict_item_enum: Theory/MatrixGenThm.v) *)
Lemma dict_item_vlookup (d : list (label * K)) k : NoDup (map fst d) -> In k (map fst d) -> dict_item d k = Ok (vlookup K d k).
Proof. unfold dict_item. induction d as [|[k' v] d IH]; simpl; intros NDd H; [destruct H|].
  inversion NDd as [|? ? Hn NDd']; subst. destruct (label_eqb_spec k' k) as [->|Ne].
  - rewrite (dict_get_absent d k Hn). reflexivity.
  - destruct H as [H|H]; [congruence|]. specialize (IH NDd' H). destruct (dict_get d k); [exact IH|discriminate]. Qed.
Lemma vs_filter_ok :
  mapping_filter_res vs (fun x => bind (py_network.Network___getitem__ K n x) (fun t1 => Ok (py_elements.is_ideal_voltage_source K (el t1))))
  = Ok (combine vs (seq 0%nat (length vs))).
Proof. unfold mapping_filter_res. rewrite (filter_res_pure _ (fun _ => true)).
  - rewrite (filter_all_true (fun _ => true)) by reflexivity. reflexivity.
  - intros [v k] Hin. apply in_combine_l in Hin. cbn [fst]. unfold vs_index in Hin.
    apply lsort_In, in_map_iff in Hin. destruct Hin as [b [<- Hb]]. apply filter_In in Hb. destruct Hb as [Hb Hv].
    rewrite (getitem_Some K n (bid b) b (get_branch_In K bs b ND Hb)). cbn [bind].
    rewrite is_ideal_voltage_source_eq, Hv. reflexivity. Qed.

Lemma set_unit (k mm : nat) : vec_set (np_zeros1 mm) k 1 = unit_vec mm k.
Proof. unfold vec_set, np_zeros1, unit_vec, zero_row.
  apply (nth_ext _ _ 0 0); [rewrite set_nth_length, !map_length; reflexivity|].
  intros j Hj. rewrite set_nth_length, map_length, seq_length in Hj. rewrite nth_set_nth, map_length, seq_length.
  rewrite (nth_map_lt (fun _ => 0) (seq 0 mm) j 0%nat 0) by (rewrite seq_length; exact Hj).
  rewrite (nth_map_lt (fun j0 => if Nat.eqb j0 k then 1 else 0) (seq 0 mm) j 0%nat 0) by (rewrite seq_length; exact Hj).
  rewrite seq_nth by exact Hj. simpl. destruct (Nat.eqb_spec j k) as [->|Ne]; simpl; [|reflexivity].
  replace (k <? mm) with true by (symmetry; apply Nat.ltb_lt; exact Hj). reflexivity. Qed.

(* which kind of array the current rows are: 1-D for capacitors and sources, a 1 x n matrix otherwise *)
Definition current_row (id : label) (c : nat) (r : list K) : ndarr K :=
  if lmem id (ckeys K cvals) || lmem id vs || lmem id cs then A1 r else A2 {| a_cols := c; a_rows := [r] |}.

Theorem c_row_current_eq id :
  py_state_space.NodalStateSpaceModel_c_row_current K self id
  = bind (c_row_current K n cvals lvals m id) (fun r => Ok (current_row id (ss_nst K cvals lvals) r)).
Proof. unfold py_state_space.NodalStateSpaceModel_c_row_current, c_row_current, current_row. unfold_private.
  cbn [m_network m_node_index_mapping m_voltage_source_index_mapping m_current_source_index_mapping m_c_values m_A m_C nssm_of].
  rewrite vs_filter_ok. cbn [bind]. unfold dict_mem, dict_keys, mapping_keys, mapping_N. change (map fst cvals) with (ckeys K cvals).
  destruct (lmem id (ckeys K cvals)) eqn:E1.
  - unfold list_index. rewrite E1. cbn [bind]. rewrite (dict_item_vlookup cvals id NDc (proj1 (lmem_spec _ _) E1)). reflexivity.
  - destruct (lmem id vs) eqn:E2.
    + unfold fmapping_item. rewrite (dict_item_enum vs id (vs_index_NoDup K n ND) (proj1 (lmem_spec _ _) E2)). reflexivity.
    + destruct (lmem id cs) eqn:E3; [reflexivity|]. cbn [orb].
      rewrite getitem_eq. unfold row_voltage. destruct (get_branch bs id) as [b|]; cbn [bind]; [|reflexivity].
      rewrite !c_row_for_potential_eq. unfold c_row_for_potential.
      destruct (row_for_potential K n (node1 b) _ _) as [r1|]; cbn [bind]; [|reflexivity].
      destruct (row_for_potential K n (node2 b) _ _) as [r2|]; cbn [bind]; [|reflexivity].
      rewrite get_Z_eq. unfold row_over_Z, np_div_opt, vec_div_opt. cbn. destruct (eZ (el b)); reflexivity. Qed.

Theorem d_row_current_eq id :
  py_state_space.NodalStateSpaceModel_d_row_current K self id
  = bind (d_row_current K n cvals lvals m id) (fun r => Ok (current_row id (ss_nS K n lvals) r)).
Proof. unfold py_state_space.NodalStateSpaceModel_d_row_current, d_row_current, current_row. unfold_private.
  cbn [m_network m_node_index_mapping m_voltage_source_index_mapping m_current_source_index_mapping m_c_values m_B m_D nssm_of].
  unfold dict_mem, dict_keys, mapping_keys, mapping_N, mapping_index. change (map fst cvals) with (ckeys K cvals).
  destruct (lmem id (ckeys K cvals)) eqn:E1.
  - unfold list_index. rewrite E1. cbn [bind]. rewrite (dict_item_vlookup cvals id NDc (proj1 (lmem_spec _ _) E1)). reflexivity.
  - destruct (lmem id vs) eqn:E2; [reflexivity|].
    destruct (lmem id cs) eqn:E3.
    + cbn [bind orb]. unfold np_shape1. cbn [a_cols]. rewrite set_unit. reflexivity.
    + cbn [orb]. rewrite getitem_eq. unfold row_voltage. destruct (get_branch bs id) as [b|]; cbn [bind]; [|reflexivity].
      rewrite !d_row_for_potential_eq. unfold d_row_for_potential.
      destruct (row_for_potential K n (node1 b) _ _) as [r1|]; cbn [bind]; [|reflexivity].
      destruct (row_for_potential K n (node2 b) _ _) as [r2|]; cbn [bind]; [|reflexivity].
      rewrite get_Z_eq. unfold row_over_Z, np_div_opt, vec_div_opt. cbn. destruct (eZ (el b)); reflexivity. Qed.

Theorem sources_eq : py_state_space.NodalStateSpaceModel_sources K self = sources K n lvals.
Proof. reflexivity. Qed.
End Rows.

Lemma state_space_defaults :
  py_state_space.state_space_matrices__default_c_values K = [] /\ py_state_space.state_space_matrices__default_l_values K = [] /\
  py_state_space.state_space_matrices__default_node_mapper K = py_label_mapping.default_node_mapper K /\
  py_state_space.state_space_matrices__default_current_source_mapper K = py_label_mapping.alphabetic_current_source_mapper K /\
  py_state_space.state_space_matrices__default_voltage_source_mapper K = py_label_mapping.alphabetic_voltage_source_mapper K /\
  py_state_space.nodal_state_space_model__default_c_values K = [] /\ py_state_space.nodal_state_space_model__default_l_values K = [] /\
  py_state_space.nodal_state_space_model__default_node_index_mapper K = py_label_mapping.default_node_mapper K /\
  py_state_space.nodal_state_space_model__default_voltage_source_index_mapper K = py_label_mapping.alphabetic_voltage_source_mapper K /\
  py_state_space.nodal_state_space_model__default_current_source_index_mapper K = py_label_mapping.alphabetic_current_source_mapper K.
Proof. repeat split; reflexivity. Qed.

End Matrices.
End SSGen.
