(* Theory/FormatSig.v — the accuracy bound in terms of the value's OWN p-th significant digit:
   s is the decimal exponent of the p-th significant digit of x  iff  10^(s+p-1) <= |x| < 10^(s+p).
   [exponent x p] equals s, except when rounding carries into the next decade below 1 (0.0099996 -> 1.00e-2),
   where it is s+1 and the mantissa is exactly 10^(p-1); the error is at most 10^s / 2 in both cases. *)
From Coq Require Import List Bool ZArith NArith QArith Qabs Qpower PosExtra Lia Psatz.
From CC Require Import Model.Network Theory.Labels Model.Format Theory.FormatThm Theory.FormatText.
Import ListNotations.
Open Scope Z_scope.

Definition sig_exp (x : Q) (p s : Z) : Prop := (Qpow10 (s + p - 1) <= Qabs x)%Q /\ (Qabs x < Qpow10 (s + p))%Q.

Lemma lt1_fine a b p : 0 < a -> a < b -> 1 <= p -> ~ (2 <= p /\ carry_region a b p) ->
  let z := zeros a b in let e := exponent_ab a b p in let s := - (z + p) in
  0 <= z /\ 10 ^ z * a < b <= 10 ^ (z + 1) * a /\
  (e = s \/ (e = s + 1 /\ mant_abs a b e = 10 ^ (p - 1) /\ 2 * Z.abs (10 ^ p * b - a * 10 ^ (z + p)) <= b)).
Proof.
  intros A AB P ND. destruct (exponent_lt1 a b p A AB P) as [Z0 [[ZL ZU] [[RL RU] C]]]. cbv zeta in *.
  set (z := zeros a b) in *. set (R := rhe (a * 10 ^ (z + p)) b) in *.
  split; [exact Z0|]. split; [split; assumption|].
  assert (B : 0 < b) by lia.
  pose proof (mant_range_lt1 a b p A AB P ND) as MR.
  pose proof (rhe_spec (a * 10 ^ (z + p)) b B) as S. fold R in S.
  pose proof (p10_pos (p - 1) ltac:(lia)) as Pp1.
  destruct C as [[ER [EZ E]]|[[ER [NZ E]]|[LR E]]].
  - (* exponent-0 exit, only reachable here for p = 1 *)
    assert (CR : carry_region a b p).
    { apply exponent_lt1_zero; try assumption. unfold R in ER. rewrite EZ in ER. exact ER. }
    assert (P1 : p = 1) by (destruct (Z.eq_dec p 1); [assumption|exfalso; apply ND; split; [lia|exact CR]]).
    right. rewrite E in *. split; [rewrite EZ, P1; reflexivity|]. split.
    + destruct (mant_carry a b p A P CR) as [_ M]. rewrite M. subst p. reflexivity.
    + rewrite ER in S. exact S.
  - right. rewrite E in *. split; [lia|]. split.
    + (* the mantissa is exactly 10^(p-1) *)
      apply Z.le_antisymm; [|lia].
      unfold mant_abs. destruct (- (z - 1 + p) <? 0) eqn:EE; [|apply Z.ltb_ge in EE; lia].
      replace (- - (z - 1 + p)) with (z - 1 + p) by lia.
      apply rhe_le; [exact B|].
      assert (Ezp1 : 10 ^ (z - 1 + p) = 10 ^ (z - 1) * 10 ^ p) by (apply p10_add; lia).
      assert (Ez : 10 ^ z = 10 * 10 ^ (z - 1)).
      { replace z with ((z - 1) + 1) at 1 by lia. apply p10_S. lia. }
      assert (Ep : 10 ^ p = 10 * 10 ^ (p - 1)).
      { replace p with ((p - 1) + 1) at 1 by lia. apply p10_S. lia. }
      pose proof (p10_pos (z - 1) ltac:(lia)). rewrite Ezp1. nia.
    + rewrite ER in S. exact S.
  - left. exact E.
Qed.

(* a value with |m| = 10^(p-1) one decade up, compared on the finer grid *)
Lemma acc_Q_fine (m e s : Z) (x : Q) : s < 0 -> s <= e ->
  2 * Z.abs (m * 10 ^ (e - s) * Zpos (Qden x) - Qnum x * 10 ^ (- s)) <= Zpos (Qden x) ->
  (Qabs (inject_Z m * Qpow10 e - x) <= Qpow10 s / 2)%Q.
Proof.
  intros S SE H.
  assert (E : (inject_Z m * Qpow10 e == inject_Z (m * 10 ^ (e - s)) * Qpow10 s)%Q).
  { symmetry. replace s with (e - (e - s)) at 2 by lia. apply Qpow10_shift. lia. }
  rewrite E. apply acc_Q. destruct (s <? 0) eqn:E0; [exact H|apply Z.ltb_ge in E0; lia].
Qed.

Lemma Qpow10_neg k : 0 < k -> Qpow10 (- k) = (1 # Z.to_pos (10 ^ k))%Q.
Proof. intros K. unfold Qpow10. destruct (- k <? 0) eqn:E; [|apply Z.ltb_ge in E; lia].
  replace (- - k) with k by lia. reflexivity. Qed.

Theorem accuracy_sig x p : ~ (x == 0)%Q -> 1 <= p -> ~ (2 <= p /\ carry_region_Q x p) ->
  exists s, sig_exp x p s /\
    (Qabs (inject_Z (mantissa x p) * Qpow10 (exponent x p) - x) <= Qpow10 s / 2)%Q /\
    (exponent x p = s \/ (exponent x p = s + 1 /\ Z.abs (mantissa x p) = 10 ^ (p - 1))).
Proof.
  intros X P ND. pose proof (Qnum_zero x X) as A.
  assert (ND' : ~ (2 <= p /\ carry_region (Z.abs (Qnum x)) (Zpos (Qden x)) p)).
  { intros [P2 CR]. apply ND. split; [exact P2|]. apply carry_region_Q_iff; assumption. }
  destruct (Z_le_gt_dec (Zpos (Qden x)) (Z.abs (Qnum x))) as [C|C].
  - (* |x| >= 1 *)
    destruct (exponent_ge1 (Z.abs (Qnum x)) (Zpos (Qden x)) p ltac:(lia) C) as [E [K [KL KU]]].
    fold (exponent x p) in E. set (N := ndigits (Z.abs (Qnum x) / Zpos (Qden x))) in *.
    exists (N - p). split; [|split; [rewrite <- E; apply exponent_mantissa_accurate|left; exact E]].
    unfold sig_exp. replace (N - p + p - 1) with (N - 1) by lia. replace (N - p + p) with N by lia.
    rewrite !Qpow10_nonneg by lia. destruct x as [n d]. unfold Qle, Qlt, Qabs, inject_Z. cbn [Qnum Qden] in *.
    split; lia.
  - (* |x| < 1 *)
    destruct (lt1_fine (Z.abs (Qnum x)) (Zpos (Qden x)) p A ltac:(lia) P ND') as [Z0 [[ZL ZU] F]].
    cbv zeta in F. fold (exponent x p) in F. set (z := zeros (Z.abs (Qnum x)) (Zpos (Qden x))) in *.
    exists (- (z + p)).
    assert (SE : sig_exp x p (- (z + p))).
    { unfold sig_exp. replace (- (z + p) + p - 1) with (- (z + 1)) by lia. replace (- (z + p) + p) with (- z) by lia.
      pose proof (p10_pos (z + 1) ltac:(lia)) as P1. pose proof (p10_pos z Z0) as P0.
      rewrite (Qpow10_neg (z + 1)) by lia.
      destruct x as [n d]. cbn [Qnum Qden] in *. unfold Qabs. split.
      - unfold Qle. cbn [Qnum Qden]. rewrite Z2Pos.id by lia. lia.
      - destruct (Z.eq_dec z 0) as [EZ|NZ].
        + rewrite EZ in *. change (Qpow10 (- 0)) with 1%Q. unfold Qlt. cbn [Qnum Qden].
          change (10 ^ 0) with 1 in ZL. lia.
        + rewrite (Qpow10_neg z) by lia. unfold Qlt. cbn [Qnum Qden]. rewrite Z2Pos.id by lia. lia. }
    split; [exact SE|].
    destruct F as [E|[E [M ACC]]].
    + split; [rewrite <- E; apply exponent_mantissa_accurate|left; exact E].
    + split; [|right; split; [exact E|unfold mantissa; rewrite mantissa_e_abs; exact M]].
      apply acc_Q_fine; [lia|lia|]. rewrite E.
      replace (- (z + p) + 1 - - (z + p)) with 1 by lia. replace (- - (z + p)) with (z + p) by lia.
      change (10 ^ 1) with 10.
      (* mantissa = sign(x) * 10^(p-1) *)
      assert (MA : Z.abs (mantissa x p) = 10 ^ (p - 1)).
      { unfold mantissa. rewrite mantissa_e_abs. exact M. }
      destruct (mantissa_e_sign x (exponent x p)) as [S1 S2]. fold (mantissa x p) in S1, S2.
      assert (Ep : 10 ^ p = 10 * 10 ^ (p - 1)).
      { replace p with ((p - 1) + 1) at 1 by lia. apply p10_S. lia. }
      pose proof (p10_pos (p - 1) ltac:(lia)) as Pp1.
      pose proof (p10_pos (z + p) ltac:(lia)) as Pzp.
      destruct (Z_lt_le_dec (Qnum x) 0) as [NN|NN].
      * specialize (S2 ltac:(lia)). assert (mantissa x p = - 10 ^ (p - 1)) as -> by lia.
        rewrite (Z.abs_neq (Qnum x)) in ACC by lia.
        replace (- 10 ^ (p - 1) * 10 * Z.pos (Qden x) - Qnum x * 10 ^ (z + p))
          with (- (10 ^ p * Z.pos (Qden x) - - Qnum x * 10 ^ (z + p))) by lia.
        rewrite Z.abs_opp. exact ACC.
      * specialize (S1 NN). assert (mantissa x p = 10 ^ (p - 1)) as -> by lia.
        rewrite (Z.abs_eq (Qnum x)) in ACC by lia.
        replace (10 ^ (p - 1) * 10 * Z.pos (Qden x) - Qnum x * 10 ^ (z + p))
          with (10 ^ p * Z.pos (Qden x) - Qnum x * 10 ^ (z + p)) by lia.
        exact ACC.
Qed.

(* value -> text -> value, error measured on the value's own p-th significant digit *)
Theorem sci_text_accurate_sig x p up t un :
  ~ (x == 0)%Q -> 1 <= p -> ~ (2 <= p /\ carry_region_Q x p) -> exponent x p <= max_exp up t ->
  (up = true -> table_ok t) -> suffix_clean up t un ->
  exists r s, parse up t un (sci_text x p up t un) = Some r /\
    p_inf r = false /\ (p_neg r = true <-> (x < 0)%Q) /\
    sig_exp x p s /\ (Qabs (pvalue r - x) <= Qpow10 s / 2)%Q /\
    shown_exponent r mod 3 = 0 /\
    10 ^ p_nfrac r <= shown_mantissa_scaled r <= 1000 * 10 ^ p_nfrac r.
Proof.
  intros X P ND EM OK CL.
  destruct (sci_text_accurate x p up t un X P ND EM OK CL) as [r [PAR [I [NG [_ [E3 BD]]]]]].
  destruct (accuracy_sig x p X P ND) as [s [SE [ACC _]]].
  exists r, s. split; [exact PAR|]. split; [exact I|]. split; [exact NG|]. split; [exact SE|].
  split; [|split; [exact E3|exact BD]].
  pose proof (mantissa_range x p X P ND) as MR.
  unfold sci_text in PAR.
  destruct (float_text_exact (mantissa x p) (exponent x p) p up t un P MR EM OK CL)
    as [r' [PAR' [_ [_ [PV _]]]]].
  rewrite PAR in PAR'. injection PAR' as <-. rewrite PV. exact ACC.
Qed.

(* saturation at the level of values *)
Theorem sci_text_saturates x p up t un :
  ~ (x == 0)%Q -> 1 <= p -> ~ (2 <= p /\ carry_region_Q x p) -> max_exp up t < exponent x p ->
  sci_text x p up t un = if Qneg x then [45%N; INF] else [INF].
Proof.
  intros X P ND H. unfold sci_text. rewrite float_text_inf by exact H.
  destruct (mantissa_sign x p X P ND) as [S1 S2]. unfold Qneg.
  destruct (Z.ltb_spec (Qnum x) 0) as [N|N].
  - assert (x < 0)%Q by (apply Qneg_spec; unfold Qneg; apply Z.ltb_lt; exact N).
    specialize (S2 H0). destruct (Z.geb_spec (mantissa x p) 0); [lia|reflexivity].
  - destruct (mantissa_e_sign x (exponent x p)) as [T1 _]. fold (mantissa x p) in T1. specialize (T1 N).
    destruct (Z.geb_spec (mantissa x p) 0); [reflexivity|lia].
Qed.

(* ---------- the statements of Properties/C18.v ---------- *)
Theorem accuracy_full x p : ~ (x == 0)%Q -> 1 <= p -> ~ (2 <= p /\ carry_region_Q x p) ->
  (Qabs (inject_Z (mantissa x p) * Qpow10 (exponent x p) - x) <= Qpow10 (exponent x p) / 2)%Q /\
  10 ^ (p - 1) <= Z.abs (mantissa x p) <= 10 ^ p /\
  ((0 < x)%Q -> 0 < mantissa x p) /\ ((x < 0)%Q -> mantissa x p < 0).
Proof.
  intros X P ND. split; [apply exponent_mantissa_accurate|].
  split; [apply mantissa_range; assumption|apply mantissa_sign; assumption].
Qed.

(* the statement without the exclusion is false *)
Definition accuracy_unrestricted : Prop := forall x p, ~ (x == 0)%Q -> 1 <= p ->
  (Qabs (inject_Z (mantissa x p) * Qpow10 (exponent x p) - x) <= Qpow10 (exponent x p) / 2)%Q /\
  10 ^ (p - 1) <= Z.abs (mantissa x p) <= 10 ^ p.

Theorem carry_defect_range x p : 2 <= p -> carry_region_Q x p ->
  exponent x p = 0 /\ Z.abs (mantissa x p) = 1 /\ ~ (10 ^ (p - 1) <= Z.abs (mantissa x p)).
Proof.
  intros P CR. destruct (carry_defect x p ltac:(lia) CR) as [E M]. split; [exact E|]. split; [exact M|].
  rewrite M. pose proof (p10_lt 0 (p - 1) ltac:(lia)). change (10 ^ 0) with 1 in H. lia.
Qed.

Theorem accuracy_unrestricted_false : ~ accuracy_unrestricted.
Proof.
  intros H. destruct (H (-99996 # 100000)%Q 4 ltac:(discriminate) ltac:(lia)) as [_ [L _]].
  vm_compute in L. apply L. reflexivity.
Qed.

(* the near-tie variants of the model coincide with the model when both arguments are the value itself *)
Lemma sci_text2_same x p up t un : sci_text2 x x p up t un = sci_text x p up t un.
Proof. reflexivity. Qed.
Lemma complex_text2_same re im p up t un compact :
  complex_text2 re re im im p up t un compact = complex_text re im p up t un compact.
Proof. reflexivity. Qed.
