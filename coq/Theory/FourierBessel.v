(* Theory/FourierBessel.v — Bessel's inequality and the exact mean-square error of the truncated Fourier series
   (the part of the "mean-square / Parseval" clause of C08 that needs no summation of an infinite series).
   Generic part: for any f whose mean, harmonics (Fourier.v: [mean_of], [harmonic_of]) and mean square
   (is_RInt (f^2) 0 T (T * MS)) are known,
       int_0^T (f - S_N)^2 = T * (MS - (amp 0 ^2 + sum_{n=1..N} amp n ^2 / 2))
   where S_N = [partial_sum T amp ph N] is the library's synthesis formula (HarmonicsTh.v).  Only is_RInt is used
   (no separate integrability argument): the proof is an induction on N carrying, next to the squared error, the
   harmonics of the error f - S_N of every order m > N (orthogonality: [cc_int], [int_cos_harm]).
   Wave part: the mean squares of the six translated time functions (Gen/Periodic.v at R), in closed form. *)
From Coq Require Import Reals ZArith NArith List Bool Lra Lia.
Set Warnings "-ambiguous-paths".
From Coquelicot Require Import Coquelicot.
From CC Require Import Model.Network Model.Rops Theory.RopsR Gen.Periodic Model.Harmonics
  Theory.Fourier Theory.FourierWaves Theory.HarmonicsTh.
Import ListNotations.
Open Scope R_scope.

(* ---------------------------------------------------------------- small toolkit *)
Lemma is_RInt_lin3 (f g h : R -> R) (a b c1 c2 c3 I1 I2 I3 : R) :
  is_RInt f a b I1 -> is_RInt g a b I2 -> is_RInt h a b I3 ->
  is_RInt (fun t => c1 * f t + c2 * g t + c3 * h t) a b (c1 * I1 + c2 * I2 + c3 * I3).
Proof.
  intros H1 H2 H3.
  apply (is_RInt_extR (fun t => 1 * (c1 * f t + c2 * g t) + c3 * h t)).
  - intros t. ring.
  - apply (is_RInt_val _ _ _ _ _ (is_RInt_lin2 _ _ a b 1 c3 _ _ (is_RInt_lin2 _ _ a b c1 c2 _ _ H1 H2) H3)). ring.
Qed.

Lemma is_RInt_constR (a b c : R) : is_RInt (fun _ => c) a b ((b - a) * c).
Proof.
  apply (is_RInt_val _ _ _ _ _ (is_RInt_const (V:=R_NormedModule) a b c)).
  unfold scal; simpl; unfold mult; simpl. ring.
Qed.

Lemma sum_1_0 (a : nat -> R) : sum_n_m a 1 0 = 0.
Proof. apply (sum_n_m_zero (G:=R_AbelianGroup) a 1 0). lia. Qed.

Lemma sum_1_S (a : nat -> R) (N : nat) : sum_n_m a 1 (S N) = sum_n_m a 1 N + a (S N).
Proof. apply (sum_n_Sm (G:=R_AbelianGroup) a 1 N). lia. Qed.

Lemma sum_1_nonneg (a : nat -> R) (N : nat) : (forall n, 0 <= a n) -> 0 <= sum_n_m a 1 N.
Proof.
  intros H. induction N as [|N IH].
  - rewrite sum_1_0. lra.
  - rewrite sum_1_S. specialize (H (S N)). lra.
Qed.

(* ---------------------------------------------------------------- orthogonality over one period *)
Section Orthogonality.
Variable T : R.
Hypothesis HT : 0 < T.

(* cos / cos with arbitrary phases is [cc_int] of Fourier.v; the other three follow by a quarter-period phase *)
Lemma sin_as_cos (x : R) : sin x = cos (x + - (PI / 2)).
Proof. rewrite <- (cos_shift_PI2 x). f_equal. Qed.

Lemma sc_int (m n : Z) (phi psi : R) : (m + n <> 0)%Z ->
  is_RInt (fun t => sin (IZR m * w0 T * t + phi) * cos (IZR n * w0 T * t + psi)) 0 T
    (if (m =? n)%Z then T / 2 * sin (phi - psi) else 0).
Proof.
  intros Hmn.
  apply (is_RInt_extR (fun t => cos (IZR m * w0 T * t + (phi - PI / 2)) * cos (IZR n * w0 T * t + psi))).
  - intros t. rewrite (sin_as_cos (IZR m * w0 T * t + phi)). f_equal. f_equal. ring.
  - apply (is_RInt_val _ _ _ _ _ (cc_int T HT m n (phi - PI / 2) psi Hmn)).
    destruct (m =? n)%Z; [|reflexivity].
    replace (phi - PI / 2 - psi) with ((phi - psi) - PI / 2) by ring. rewrite cos_shift_PI2. reflexivity.
Qed.

Lemma ss_int (m n : Z) (phi psi : R) : (m + n <> 0)%Z ->
  is_RInt (fun t => sin (IZR m * w0 T * t + phi) * sin (IZR n * w0 T * t + psi)) 0 T
    (if (m =? n)%Z then T / 2 * cos (phi - psi) else 0).
Proof.
  intros Hmn.
  apply (is_RInt_extR (fun t => cos (IZR m * w0 T * t + (phi - PI / 2)) * cos (IZR n * w0 T * t + (psi - PI / 2)))).
  - intros t. rewrite (sin_as_cos (IZR m * w0 T * t + phi)), (sin_as_cos (IZR n * w0 T * t + psi)).
    f_equal; f_equal; ring.
  - apply (is_RInt_val _ _ _ _ _ (cc_int T HT m n (phi - PI / 2) (psi - PI / 2) Hmn)).
    destruct (m =? n)%Z; [|reflexivity]. f_equal. f_equal. ring.
Qed.
End Orthogonality.

(* ---------------------------------------------------------------- the error of the truncated series *)
Definition energy (amp : Z -> R) (N : nat) : R :=
  amp 0%Z ^ 2 + sum_n_m (fun n => amp (Z.of_nat n) ^ 2 / 2) 1 N.

Lemma energy_S (amp : Z -> R) (N : nat) :
  energy amp (S N) = energy amp N + amp (Z.of_nat (S N)) ^ 2 / 2.
Proof. unfold energy. rewrite sum_1_S. ring. Qed.

Lemma energy_nonneg (amp : Z -> R) (N : nat) : 0 <= energy amp N.
Proof.
  unfold energy.
  assert (H0 : 0 <= amp 0%Z ^ 2) by apply pow2_ge_0.
  assert (H1 : 0 <= sum_n_m (fun n => amp (Z.of_nat n) ^ 2 / 2) 1 N).
  { apply sum_1_nonneg. intros n. pose proof (pow2_ge_0 (amp (Z.of_nat n))). lra. }
  lra.
Qed.

Lemma energy_mono (amp : Z -> R) (N M : nat) : (N <= M)%nat -> energy amp N <= energy amp M.
Proof.
  intros H. induction H as [|M H IH].
  - lra.
  - rewrite energy_S. pose proof (pow2_ge_0 (amp (Z.of_nat (S M)))). lra.
Qed.

Lemma partial_sum_0 (T : R) (amp ph : Z -> R) (t : R) : partial_sum T amp ph 0 t = amp 0%Z.
Proof. unfold partial_sum. rewrite sum_1_0. ring. Qed.

Lemma partial_sum_S (T : R) (amp ph : Z -> R) (N : nat) (t : R) :
  partial_sum T amp ph (S N) t
  = partial_sum T amp ph N t
    + amp (Z.of_nat (S N)) * cos (IZR (Z.of_nat (S N)) * w0 T * t + ph (Z.of_nat (S N))).
Proof. unfold partial_sum. rewrite sum_1_S, <- INR_IZR_INZ. unfold w0. ring. Qed.

Section Bessel.
Variable T : R.
Hypothesis HT : 0 < T.
Variables (f : R -> R) (amp ph : Z -> R) (MS : R).
Hypothesis Hmean : mean_of T f (amp 0%Z).
Hypothesis Hharm : forall n : Z, (1 <= n)%Z -> harmonic_of T f n (amp n) (ph n).
Hypothesis Hsq : is_RInt (fun t => f t ^ 2) 0 T (T * MS).

Let S_ (N : nat) (t : R) : R := partial_sum T amp ph N t.

(* the harmonics of order m > N of the error f - S_N are those of f: S_N is orthogonal to them *)
Lemma error_harmonic (N : nat) : forall (m : Z) (psi : R), (Z.of_nat N < m)%Z ->
  is_RInt (fun t => (f t - S_ N t) * cos (IZR m * w0 T * t + psi)) 0 T (T / 2 * amp m * cos (ph m - psi)).
Proof.
  induction N as [|N IH]; intros m psi Hm.
  - apply (is_RInt_extR (fun t => 1 * (f t * cos (IZR m * w0 T * t + psi)) + (- amp 0%Z) * cos (IZR m * w0 T * t + psi))).
    + intros t. unfold S_. rewrite partial_sum_0. ring.
    + apply (is_RInt_val _ _ _ _ _
               (is_RInt_lin2 _ _ 0 T 1 (- amp 0%Z) _ _ (Hharm m ltac:(lia) psi) (int_cos_harm T HT m psi))).
      destruct (Z.eqb_spec m 0) as [E|E]; [lia|]. ring.
  - set (k := Z.of_nat (S N)).
    apply (is_RInt_extR (fun t => 1 * ((f t - S_ N t) * cos (IZR m * w0 T * t + psi))
                                  + (- amp k) * (cos (IZR k * w0 T * t + ph k) * cos (IZR m * w0 T * t + psi)))).
    + intros t. unfold S_. rewrite partial_sum_S. fold k. ring.
    + apply (is_RInt_val _ _ _ _ _
               (is_RInt_lin2 _ _ 0 T 1 (- amp k) _ _ (IH m psi ltac:(lia)) (cc_int T HT k m (ph k) psi ltac:(lia)))).
      destruct (Z.eqb_spec k m) as [E|E]; [lia|]. ring.
Qed.

(* ERROR IDENTITY *)
Theorem truncation_error (N : nat) :
  is_RInt (fun t => (f t - S_ N t) ^ 2) 0 T (T * (MS - energy amp N)).
Proof.
  induction N as [|N IH].
  - apply (is_RInt_extR (fun t => 1 * f t ^ 2 + (- 2 * amp 0%Z) * f t + amp 0%Z ^ 2 * 1)).
    + intros t. unfold S_. rewrite partial_sum_0. ring.
    + apply (is_RInt_val _ _ _ _ _
               (is_RInt_lin3 _ _ _ 0 T 1 (- 2 * amp 0%Z) (amp 0%Z ^ 2) _ _ _ Hsq Hmean (is_RInt_constR 0 T 1))).
      unfold energy. rewrite sum_1_0. ring.
  - set (k := Z.of_nat (S N)).
    apply (is_RInt_extR (fun t => 1 * (f t - S_ N t) ^ 2
                                  + (- 2 * amp k) * ((f t - S_ N t) * cos (IZR k * w0 T * t + ph k))
                                  + amp k ^ 2 * (cos (IZR k * w0 T * t + ph k) * cos (IZR k * w0 T * t + ph k)))).
    + intros t. unfold S_. rewrite partial_sum_S. fold k. ring.
    + apply (is_RInt_val _ _ _ _ _
               (is_RInt_lin3 _ _ _ 0 T 1 (- 2 * amp k) (amp k ^ 2) _ _ _ IH
                  (error_harmonic N k (ph k) ltac:(lia)) (cc_int T HT k k (ph k) (ph k) ltac:(lia)))).
      rewrite Z.eqb_refl, energy_S. fold k. rewrite Rminus_eq_0, cos_0. field.
Qed.

(* BESSEL *)
Theorem bessel (N : nat) : energy amp N <= MS.
Proof.
  assert (H : 0 <= T * (MS - energy amp N)).
  { apply (is_RInt_ge_0 (fun t => (f t - S_ N t) ^ 2) 0 T _ (Rlt_le _ _ HT) (truncation_error N)).
    intros x _. apply pow2_ge_0. }
  assert (H' : 0 <= MS - energy amp N).
  { apply (Rmult_le_reg_l T); [exact HT|]. rewrite Rmult_0_r. exact H. }
  lra.
Qed.

Theorem error_nonneg (N : nat) : 0 <= T * (MS - energy amp N).
Proof. pose proof (bessel N). apply Rmult_le_pos; lra. Qed.

Theorem error_monotone (N M : nat) : (N <= M)%nat ->
  T * (MS - energy amp M) <= T * (MS - energy amp N).
Proof.
  intros H. pose proof (energy_mono amp N M H). apply Rmult_le_compat_l; lra.
Qed.

(* the same facts phrased with RInt, i.e. on the very terms of [mean_square_series] *)
Lemma truncation_error_RInt (N : nat) :
  ex_RInt (fun t => (f t - partial_sum T amp ph N t) ^ 2) 0 T /\
  RInt (fun t => (f t - partial_sum T amp ph N t) ^ 2) 0 T = T * (MS - energy amp N).
Proof.
  split.
  - exists (T * (MS - energy amp N)). exact (truncation_error N).
  - apply is_RInt_unique. exact (truncation_error N).
Qed.

Lemma mean_square_RInt : ex_RInt (fun t => f t ^ 2) 0 T /\ RInt (fun t => f t ^ 2) 0 T / T = MS.
Proof.
  split.
  - exists (T * MS). exact Hsq.
  - rewrite (is_RInt_unique _ _ _ _ Hsq). field. lra.
Qed.

(* what is left of [mean_square_series] is exactly ONE limit: the two limit clauses are equivalent *)
Theorem mean_square_series_iff :
  mean_square_series T f amp ph <-> is_lim_seq (fun N => energy amp N) MS.
Proof.
  destruct mean_square_RInt as [Ex EMS].
  assert (L : is_lim_seq (fun N => RInt (fun t => (f t - partial_sum T amp ph N t) ^ 2) 0 T) 0
              <-> is_lim_seq (fun N => energy amp N) MS).
  { split; intros H.
    - apply (is_lim_seq_ext (fun N => MS + (- / T) * RInt (fun t => (f t - partial_sum T amp ph N t) ^ 2) 0 T)).
      + intros N. rewrite (proj2 (truncation_error_RInt N)). field. lra.
      + pose proof (is_lim_seq_scal_l _ (- / T) _ H) as H1. simpl in H1.
        pose proof (is_lim_seq_plus' _ _ MS (- / T * 0) (is_lim_seq_const MS) H1) as H2.
        replace (MS + - / T * 0) with MS in H2 by ring. exact H2.
    - apply (is_lim_seq_ext (fun N => T * MS + (- T) * energy amp N)).
      + intros N. rewrite (proj2 (truncation_error_RInt N)). ring.
      + pose proof (is_lim_seq_scal_l _ (- T) _ H) as H1. simpl in H1.
        pose proof (is_lim_seq_plus' _ _ (T * MS) (- T * MS) (is_lim_seq_const (T * MS)) H1) as H2.
        replace (T * MS + - T * MS) with 0 in H2 by ring. exact H2. }
  unfold mean_square_series. rewrite EMS. fold (energy amp). split.
  - intros [_ [_ [_ H]]]. exact H.
  - intros H. split; [intros N; exact (proj1 (truncation_error_RInt N))|].
    split; [apply L; exact H|]. split; [exact Ex|exact H].
Qed.
End Bessel.

(* ---------------------------------------------------------------- mean squares: pure harmonic f = A cos (w0 t + phi) + off *)
Lemma cos_wave_sq (T : R) (f : R -> R) (A phi off : R) : 0 < T ->
  (forall t, f t = A * cos (w0 T * t + phi) + off) ->
  is_RInt (fun t => f t ^ 2) 0 T (T * (A ^ 2 / 2 + off ^ 2)).
Proof.
  intros HT Ef.
  apply (is_RInt_extR (fun t => A ^ 2 * (cos (IZR 1 * w0 T * t + phi) * cos (IZR 1 * w0 T * t + phi))
                                + (2 * A * off) * cos (IZR 1 * w0 T * t + phi) + off ^ 2 * 1)).
  - intros t. rewrite Ef. replace (IZR 1 * w0 T * t) with (w0 T * t) by ring. ring.
  - apply (is_RInt_val _ _ _ _ _
             (is_RInt_lin3 _ _ _ 0 T (A ^ 2) (2 * A * off) (off ^ 2) _ _ _
                (cc_int T HT 1 1 phi phi ltac:(lia)) (int_cos_harm T HT 1 phi) (is_RInt_constR 0 T 1))).
    simpl. rewrite Rminus_eq_0, cos_0. field.
Qed.

(* ---------------------------------------------------------------- mean squares: piecewise affine on (0,T/2), (T/2,T) *)
Lemma RInt_affine_sq (al be a b : R) :
  is_RInt (fun u => (al + be * u) ^ 2) a b
    ((al ^ 2 * b + al * be * b ^ 2 + be ^ 2 * b ^ 3 / 3) - (al ^ 2 * a + al * be * a ^ 2 + be ^ 2 * a ^ 3 / 3)).
Proof.
  apply (is_RInt_derive (fun u => al ^ 2 * u + al * be * u ^ 2 + be ^ 2 * u ^ 3 / 3) (fun u => (al + be * u) ^ 2)).
  - intros x _. auto_derive; [exact I|]. field.
  - intros x _. apply (ex_derive_continuous (fun u => (al + be * u) ^ 2)). auto_derive. exact I.
Qed.

Section PWSq.
Variable T : R.
Hypothesis HT : 0 < T.
Variables (G : R -> R) (al1 be1 al2 be2 t0 : R) (f : R -> R).
Hypothesis G1 : forall u, 0 < u < T / 2 -> G u = al1 + be1 * u.
Hypothesis G2 : forall u, T / 2 < u < T -> G u = al2 + be2 * u.
Hypothesis Ef : forall t, f t = G (rmodR (t + t0) T).

Let g (x : R) : R := G (rmodR x T).

Lemma pw_affine_sq :
  is_RInt (fun t => g t ^ 2) 0 T
    (((al1 ^ 2 * (T / 2) + al1 * be1 * (T / 2) ^ 2 + be1 ^ 2 * (T / 2) ^ 3 / 3)
      - (al1 ^ 2 * 0 + al1 * be1 * 0 ^ 2 + be1 ^ 2 * 0 ^ 3 / 3))
     + ((al2 ^ 2 * T + al2 * be2 * T ^ 2 + be2 ^ 2 * T ^ 3 / 3)
        - (al2 ^ 2 * (T / 2) + al2 * be2 * (T / 2) ^ 2 + be2 ^ 2 * (T / 2) ^ 3 / 3))).
Proof.
  pose proof (RInt_affine_sq al1 be1 0 (T / 2)) as H1.
  pose proof (RInt_affine_sq al2 be2 (T / 2) T) as H2.
  apply (is_RInt_ext _ (fun t => g t ^ 2)) in H1.
  2:{ intros x. rewrite Rmin_left, Rmax_right by lra. intros Hx. unfold g.
      rewrite rmodR_small by lra. rewrite G1 by lra. reflexivity. }
  apply (is_RInt_ext _ (fun t => g t ^ 2)) in H2.
  2:{ intros x. rewrite Rmin_left, Rmax_right by lra. intros Hx. unfold g.
      rewrite rmodR_small by lra. rewrite G2 by lra. reflexivity. }
  exact (is_RInt_Chasles _ _ _ _ _ _ H1 H2).
Qed.

Lemma pw_wave_sq (m : R) :
  ((al1 ^ 2 * (T / 2) + al1 * be1 * (T / 2) ^ 2 + be1 ^ 2 * (T / 2) ^ 3 / 3)
   - (al1 ^ 2 * 0 + al1 * be1 * 0 ^ 2 + be1 ^ 2 * 0 ^ 3 / 3))
  + ((al2 ^ 2 * T + al2 * be2 * T ^ 2 + be2 ^ 2 * T ^ 3 / 3)
     - (al2 ^ 2 * (T / 2) + al2 * be2 * (T / 2) ^ 2 + be2 ^ 2 * (T / 2) ^ 3 / 3)) = T * m ->
  is_RInt (fun t => f t ^ 2) 0 T (T * m).
Proof.
  intros Hv. rewrite <- Hv.
  assert (P : periodic T (fun x => g x ^ 2)).
  { intros x. unfold g. rewrite rmodR_period by exact HT. reflexivity. }
  pose proof (RInt_periodic_translate T HT (fun x => g x ^ 2) t0 _ P pw_affine_sq) as H.
  apply (is_RInt_extR (fun t => g (t + t0) ^ 2)); [|exact H].
  intros t. rewrite Ef. reflexivity.
Qed.
End PWSq.

(* ---------------------------------------------------------------- mean squares of the six waveforms *)
Definition ms_const (A phi off : R) : R := A ^ 2.
Definition ms_cos (A phi off : R) : R := A ^ 2 / 2 + off ^ 2.
Definition ms_sin (A phi off : R) : R := A ^ 2 / 2 + off ^ 2.
Definition ms_rect (A phi off : R) : R := A ^ 2 + off ^ 2.
Definition ms_tri (A phi off : R) : R := A ^ 2 / 3 + off ^ 2.
Definition ms_saw (A phi off : R) : R := A ^ 2 / 3 + off ^ 2.

Section WaveSq.
Variables T A phi off : R.
Hypothesis HT : 0 < T.

Lemma const_sq : is_RInt (fun t => const_time ROps T A phi off t ^ 2) 0 T (T * ms_const A phi off).
Proof.
  apply (is_RInt_val _ _ _ _ _ (cos_wave_sq T _ 0 0 A HT (const_time_canon T A phi off))).
  unfold ms_const. field.
Qed.

Lemma cos_sq : is_RInt (fun t => cos_time ROps T A phi off t ^ 2) 0 T (T * ms_cos A phi off).
Proof. exact (cos_wave_sq T _ A phi off HT (cos_time_canon T A phi off HT)). Qed.

Lemma sin_sq : is_RInt (fun t => sin_time ROps T A phi off t ^ 2) 0 T (T * ms_sin A phi off).
Proof. exact (cos_wave_sq T _ A (phi - PI / 2) off HT (sin_time_canon T A phi off HT)). Qed.

Lemma rect_sq : is_RInt (fun t => rect_time ROps T A phi off t ^ 2) 0 T (T * ms_rect A phi off).
Proof.
  apply (pw_wave_sq T HT (fun u => if Rlt_dec u (T / 2) then A + off else - A + off)
           (A + off) 0 (- A + off) 0 (phi / (2 * PI) * T) _).
  - intros u Hu. destruct (Rlt_dec u (T / 2)); lra.
  - intros u Hu. destruct (Rlt_dec u (T / 2)); lra.
  - exact (rect_time_canon T A phi off).
  - unfold ms_rect. field.
Qed.

Lemma tri_sq : is_RInt (fun t => tri_time ROps T A phi off t ^ 2) 0 T (T * ms_tri A phi off).
Proof.
  apply (pw_wave_sq T HT (fun u => if Rlt_dec u (T / 2) then (A + off) + (- 4 * A / T) * u else (- 3 * A + off) + 4 * A / T * u)
           (A + off) (- 4 * A / T) (- 3 * A + off) (4 * A / T) (phi / (2 * PI) * T) _).
  - intros u Hu. destruct (Rlt_dec u (T / 2)); lra.
  - intros u Hu. destruct (Rlt_dec u (T / 2)); lra.
  - exact (tri_time_canon T A phi off).
  - unfold ms_tri. field. lra.
Qed.

Lemma saw_sq : is_RInt (fun t => saw_time ROps T A phi off t ^ 2) 0 T (T * ms_saw A phi off).
Proof.
  apply (pw_wave_sq T HT (fun u => (- A + off) + 2 * A / T * u)
           (- A + off) (2 * A / T) (- A + off) (2 * A / T) (phi / (2 * PI) * T) _).
  - reflexivity.
  - reflexivity.
  - exact (saw_time_canon T A phi off HT).
  - unfold ms_saw. field. lra.
Qed.
End WaveSq.

(* ---------------------------------------------------------------- from the cosine and sine integrals (the conclusions of C08) *)
Lemma harmonic_of_intro (T : R) (f : R -> R) (n : Z) (a p : R) :
  is_RInt (fun t => f t * cos (IZR n * (2 * PI / T) * t)) 0 T (T / 2 * a * cos p) ->
  is_RInt (fun t => f t * sin (IZR n * (2 * PI / T) * t)) 0 T (- T / 2 * a * sin p) ->
  harmonic_of T f n a p.
Proof.
  intros Hc Hs psi.
  apply (is_RInt_extR (fun t => cos psi * (f t * cos (IZR n * (2 * PI / T) * t))
                                + (- sin psi) * (f t * sin (IZR n * (2 * PI / T) * t)))).
  - intros t. unfold w0. rewrite cos_plus. ring.
  - apply (is_RInt_val _ _ _ _ _ (is_RInt_lin2 _ _ 0 T (cos psi) (- sin psi) _ _ Hc Hs)).
    rewrite cos_minus. field.
Qed.

Section FromCoefficients.
Variable T : R.
Hypothesis HT : 0 < T.
Variables (f : R -> R) (amp ph : Z -> R) (MS : R).
Hypothesis HF : fourier_coefficients T f amp ph.
Hypothesis Hsq : is_RInt (fun t => f t ^ 2) 0 T (T * MS).

Lemma fc_mean : mean_of T f (amp 0%Z).
Proof. exact (proj1 HF). Qed.

Lemma fc_harm (n : Z) : (1 <= n)%Z -> harmonic_of T f n (amp n) (ph n).
Proof. intros Hn. destruct (proj2 HF n Hn) as [Hc Hs]. exact (harmonic_of_intro T f n _ _ Hc Hs). Qed.

Theorem fc_truncation_error (N : nat) :
  is_RInt (fun t => (f t - partial_sum T amp ph N t) ^ 2) 0 T
    (T * MS - T * (amp 0%Z ^ 2 + sum_n_m (fun n => amp (Z.of_nat n) ^ 2 / 2) 1 N)).
Proof.
  apply (is_RInt_val _ _ _ _ _ (truncation_error T HT f amp ph MS fc_mean fc_harm Hsq N)).
  unfold energy. ring.
Qed.

Theorem fc_bessel (N : nat) : amp 0%Z ^ 2 + sum_n_m (fun n => amp (Z.of_nat n) ^ 2 / 2) 1 N <= MS.
Proof. exact (bessel T HT f amp ph MS fc_mean fc_harm Hsq N). Qed.

Theorem fc_error_nonneg (N : nat) :
  0 <= T * MS - T * (amp 0%Z ^ 2 + sum_n_m (fun n => amp (Z.of_nat n) ^ 2 / 2) 1 N).
Proof. pose proof (error_nonneg T HT f amp ph MS fc_mean fc_harm Hsq N) as H. unfold energy in H. lra. Qed.

Theorem fc_error_monotone (N M : nat) : (N <= M)%nat ->
  T * MS - T * (amp 0%Z ^ 2 + sum_n_m (fun n => amp (Z.of_nat n) ^ 2 / 2) 1 M)
  <= T * MS - T * (amp 0%Z ^ 2 + sum_n_m (fun n => amp (Z.of_nat n) ^ 2 / 2) 1 N).
Proof. intros H. pose proof (error_monotone T HT amp MS N M H) as H'. unfold energy in H'. lra. Qed.

(* one more harmonic lowers the error by exactly T * amp^2 / 2 *)
Theorem fc_error_step (N : nat) :
  T * MS - T * (amp 0%Z ^ 2 + sum_n_m (fun n => amp (Z.of_nat n) ^ 2 / 2) 1 (S N))
  = T * MS - T * (amp 0%Z ^ 2 + sum_n_m (fun n => amp (Z.of_nat n) ^ 2 / 2) 1 N)
    - T * amp (Z.of_nat (S N)) ^ 2 / 2.
Proof. rewrite sum_1_S. field. Qed.

Theorem fc_mean_square_series_iff :
  mean_square_series T f amp ph
  <-> is_lim_seq (fun N => amp 0%Z ^ 2 + sum_n_m (fun n => amp (Z.of_nat n) ^ 2 / 2) 1 N) MS.
Proof. exact (mean_square_series_iff T HT f amp ph MS fc_mean fc_harm Hsq). Qed.
End FromCoefficients.

(* ---------------------------------------------------------------- every listed wave, through the tables *)
Definition wave_ms (i : N) (A phi off : R) : R :=
  match i with
  | 0%N => ms_const A phi off | 1%N => ms_cos A phi off | 2%N => ms_sin A phi off
  | 3%N => ms_rect A phi off | 4%N => ms_tri A phi off | 5%N => ms_saw A phi off
  | _ => 0
  end.

Theorem mean_square_all (i : N) (T A phi off : R) (f : R -> R -> R -> R -> R -> R) :
  0 < T -> time_function ROps i = Some f ->
  is_RInt (fun t => f T A phi off t ^ 2) 0 T (T * wave_ms i A phi off).
Proof.
  intros HT Hf.
  destruct i as [|p]; [|do 3 (try destruct p as [p|p|])]; unfold time_function in Hf; try discriminate Hf;
    injection Hf as Hf; subst f; unfold wave_ms.
  - exact (const_sq T A phi off HT).
  - exact (saw_sq T A phi off HT).
  - exact (rect_sq T A phi off HT).
  - exact (tri_sq T A phi off HT).
  - exact (sin_sq T A phi off HT).
  - exact (cos_sq T A phi off HT).
Qed.

Section Api.
Variables (i : N) (T A phi off : R) (f : R -> R -> R -> R -> R -> R) (h : harmonics ROps).
Hypothesis HT : 0 < T.
Hypothesis Hf : time_function ROps i = Some f.
Hypothesis Hs : fourier_series ROps i T A phi off = POk h.

Let HF : fourier_coefficients T (f T A phi off) (amplitude ROps h) (phase ROps h)
  := coefficients_all i T A phi off f h HT Hf Hs.
Let Hsq := mean_square_all i T A phi off f HT Hf.

Theorem api_truncation_error (N : nat) :
  is_RInt (fun t => (f T A phi off t - partial_sum T (amplitude ROps h) (phase ROps h) N t) ^ 2) 0 T
    (T * wave_ms i A phi off
     - T * (amplitude ROps h 0 ^ 2 + sum_n_m (fun n => amplitude ROps h (Z.of_nat n) ^ 2 / 2) 1 N)).
Proof. exact (fc_truncation_error T HT _ _ _ _ HF Hsq N). Qed.

Theorem api_bessel (N : nat) :
  amplitude ROps h 0 ^ 2 + sum_n_m (fun n => amplitude ROps h (Z.of_nat n) ^ 2 / 2) 1 N <= wave_ms i A phi off.
Proof. exact (fc_bessel T HT _ _ _ _ HF Hsq N). Qed.

Theorem api_mean_square_series_iff :
  mean_square_series T (f T A phi off) (amplitude ROps h) (phase ROps h)
  <-> is_lim_seq (fun N => amplitude ROps h 0 ^ 2 + sum_n_m (fun n => amplitude ROps h (Z.of_nat n) ^ 2 / 2) 1 N)
        (wave_ms i A phi off).
Proof. exact (fc_mean_square_series_iff T HT _ _ _ _ HF Hsq). Qed.
End Api.

(* ---------------------------------------------------------------- per waveform, mean square in closed form *)
Section PerWave.
Variables T A phi off : R.
Hypothesis HT : 0 < T.

Definition trunc_err (f : R -> R) (amp ph : Z -> R) (MS : R) : Prop :=
  forall N : nat,
    is_RInt (fun t => (f t - partial_sum T amp ph N t) ^ 2) 0 T
      (T * MS - T * (amp 0%Z ^ 2 + sum_n_m (fun n => amp (Z.of_nat n) ^ 2 / 2) 1 N)) /\
    amp 0%Z ^ 2 + sum_n_m (fun n => amp (Z.of_nat n) ^ 2 / 2) 1 N <= MS.

Lemma trunc_err_intro (f : R -> R) (amp ph : Z -> R) (MS : R) :
  fourier_coefficients T f amp ph -> is_RInt (fun t => f t ^ 2) 0 T (T * MS) -> trunc_err f amp ph MS.
Proof.
  intros HF Hsq N. split.
  - exact (fc_truncation_error T HT f amp ph MS HF Hsq N).
  - exact (fc_bessel T HT f amp ph MS HF Hsq N).
Qed.

Lemma const_trunc : trunc_err (const_time ROps T A phi off) (const_amplitude ROps A phi off) (const_phase ROps A phi off) (A ^ 2).
Proof. exact (trunc_err_intro _ _ _ _ (const_fourier T A phi off HT) (const_sq T A phi off HT)). Qed.
Lemma cos_trunc : trunc_err (cos_time ROps T A phi off) (cos_amplitude ROps A phi off) (cos_phase ROps A phi off) (A ^ 2 / 2 + off ^ 2).
Proof. exact (trunc_err_intro _ _ _ _ (cos_fourier T A phi off HT) (cos_sq T A phi off HT)). Qed.
Lemma sin_trunc : trunc_err (sin_time ROps T A phi off) (sin_amplitude ROps A phi off) (sin_phase ROps A phi off) (A ^ 2 / 2 + off ^ 2).
Proof. exact (trunc_err_intro _ _ _ _ (sin_fourier T A phi off HT) (sin_sq T A phi off HT)). Qed.
Lemma rect_trunc : trunc_err (rect_time ROps T A phi off) (rect_amplitude ROps A phi off) (rect_phase ROps A phi off) (A ^ 2 + off ^ 2).
Proof. exact (trunc_err_intro _ _ _ _ (rect_fourier T A phi off HT) (rect_sq T A phi off HT)). Qed.
Lemma tri_trunc : trunc_err (tri_time ROps T A phi off) (tri_amplitude ROps A phi off) (tri_phase ROps A phi off) (A ^ 2 / 3 + off ^ 2).
Proof. exact (trunc_err_intro _ _ _ _ (tri_fourier T A phi off HT) (tri_sq T A phi off HT)). Qed.
Lemma saw_trunc : trunc_err (saw_time ROps T A phi off) (saw_amplitude ROps A phi off) (saw_phase ROps A phi off) (A ^ 2 / 3 + off ^ 2).
Proof. exact (trunc_err_intro _ _ _ _ (saw_fourier T A phi off HT) (saw_sq T A phi off HT)). Qed.
End PerWave.

(* evaluation of the finite sums / translated coefficient functions in concrete examples *)
Ltac eval_sums :=
  unfold partial_sum; repeat rewrite sum_1_S; rewrite ?sum_1_0;
  cbv beta iota zeta delta [rect_amplitude rect_phase tri_amplitude tri_phase saw_amplitude saw_phase
    cos_amplitude cos_phase sin_amplitude sin_phase const_amplitude const_phase
    ROps RT radd rsub rmul rdiv ropp rofZ rpi rcos rsin
    Z.of_nat Pos.of_succ_nat Pos.succ Z.eqb Z.modulo Z.div_eucl Z.pos_div_eucl Pos.eqb Z.leb Z.ltb Z.compare
    Pos.compare Pos.compare_cont Z.add Z.mul Z.sub Z.opp Z.pos_sub Pos.add Pos.mul Z.succ_double Z.double
    Z.pred_double Pos.pred_double fst snd INR].

(* ---------------------------------------------------------------- plain forms used by Properties/C08d.v *)
Lemma error_monotone_plain (T MS : R) (amp : Z -> R) : 0 < T -> forall N M : nat, (N <= M)%nat ->
  T * MS - T * (amp 0%Z ^ 2 + sum_n_m (fun n => amp (Z.of_nat n) ^ 2 / 2) 1 M)
  <= T * MS - T * (amp 0%Z ^ 2 + sum_n_m (fun n => amp (Z.of_nat n) ^ 2 / 2) 1 N).
Proof.
  intros HT N M H. pose proof (energy_mono amp N M H) as H'. unfold energy in H'.
  assert (H2 : T * (amp 0%Z ^ 2 + sum_n_m (fun n => amp (Z.of_nat n) ^ 2 / 2) 1 N)
               <= T * (amp 0%Z ^ 2 + sum_n_m (fun n => amp (Z.of_nat n) ^ 2 / 2) 1 M))
    by (apply Rmult_le_compat_l; lra).
  lra.
Qed.

Lemma error_step_plain (T MS : R) (amp : Z -> R) (N : nat) :
  T * MS - T * (amp 0%Z ^ 2 + sum_n_m (fun n => amp (Z.of_nat n) ^ 2 / 2) 1 (S N))
  = T * MS - T * (amp 0%Z ^ 2 + sum_n_m (fun n => amp (Z.of_nat n) ^ 2 / 2) 1 N) - T * amp (Z.of_nat (S N)) ^ 2 / 2.
Proof. rewrite sum_1_S. field. Qed.

Theorem api_error_nonneg (i : N) (T A phi off : R) (f : R -> R -> R -> R -> R -> R) (h : harmonics ROps) :
  0 < T -> time_function ROps i = Some f -> fourier_series ROps i T A phi off = POk h ->
  forall N : nat,
    0 <= T * wave_ms i A phi off
         - T * (amplitude ROps h 0 ^ 2 + sum_n_m (fun n => amplitude ROps h (Z.of_nat n) ^ 2 / 2) 1 N).
Proof.
  intros HT Hf Hs N. pose proof (api_bessel i T A phi off f h HT Hf Hs N) as H.
  assert (H2 : T * (amplitude ROps h 0 ^ 2 + sum_n_m (fun n => amplitude ROps h (Z.of_nat n) ^ 2 / 2) 1 N)
               <= T * wave_ms i A phi off) by (apply Rmult_le_compat_l; lra).
  lra.
Qed.

(* ---------------------------------------------------------------- concrete instances *)
Lemma ex_rect_S1 (t : R) : partial_sum 2 (rect_amplitude ROps 1 0 0) (rect_phase ROps 1 0 0) 1 t = 4 / PI * sin (PI * t).
Proof.
  eval_sums.
  replace (1 * (2 * PI / 2) * t + (- PI / 2 + 1 * 0)) with (PI * t - PI / 2) by field.
  rewrite cos_shift_PI2. field. apply PI_neq0.
Qed.

Lemma ex_rect_S3 (t : R) :
  partial_sum 2 (rect_amplitude ROps 1 0 0) (rect_phase ROps 1 0 0) 3 t
  = 4 / PI * sin (PI * t) + 4 / (3 * PI) * sin (3 * PI * t).
Proof.
  eval_sums.
  replace (1 * (2 * PI / 2) * t + (- PI / 2 + 1 * 0)) with (PI * t - PI / 2) by field.
  replace ((1 + 1 + 1) * (2 * PI / 2) * t + (- PI / 2 + 3 * 0)) with (3 * PI * t - PI / 2) by field.
  rewrite !cos_shift_PI2. field. apply PI_neq0.
Qed.

Lemma ex_rect_N1 :
  is_RInt (fun t => (rect_time ROps 2 1 0 0 t - partial_sum 2 (rect_amplitude ROps 1 0 0) (rect_phase ROps 1 0 0) 1 t) ^ 2)
    0 2 (2 - 16 / PI ^ 2).
Proof.
  apply (is_RInt_val _ _ _ _ _ (proj1 (rect_trunc 2 1 0 0 ltac:(lra) 1%nat))).
  eval_sums. field. apply PI_neq0.
Qed.

Lemma ex_rect_N3 :
  is_RInt (fun t => (rect_time ROps 2 1 0 0 t - partial_sum 2 (rect_amplitude ROps 1 0 0) (rect_phase ROps 1 0 0) 3 t) ^ 2)
    0 2 (2 - 16 / PI ^ 2 - 16 / (9 * PI ^ 2)).
Proof.
  apply (is_RInt_val _ _ _ _ _ (proj1 (rect_trunc 2 1 0 0 ltac:(lra) 3%nat))).
  eval_sums. field. apply PI_neq0.
Qed.

Lemma ex_rect_N3_general :
  is_RInt (fun t => (rect_time ROps 3 2 (1 / 3) (1 / 7) t
                     - partial_sum 3 (rect_amplitude ROps 2 (1 / 3) (1 / 7)) (rect_phase ROps 2 (1 / 3) (1 / 7)) 3 t) ^ 2)
    0 3 (3 * (4 + 1 / 49) - 3 * (1 / 49 + 32 / PI ^ 2 + 32 / (9 * PI ^ 2))).
Proof.
  apply (is_RInt_val _ _ _ _ _ (proj1 (rect_trunc 3 2 (1 / 3) (1 / 7) ltac:(lra) 3%nat))).
  eval_sums. field. apply PI_neq0.
Qed.

Lemma ex_bessel_N1 : 8 / PI ^ 2 <= 1.
Proof.
  pose proof (proj2 (rect_trunc 2 1 0 0 ltac:(lra) 1%nat)) as H. revert H. eval_sums. intros H.
  replace (8 / PI ^ 2) with (0 ^ 2 + (0 + (4 / 1 / PI * 1) ^ 2 / 2)) by (field; apply PI_neq0). lra.
Qed.

Lemma ex_bessel_N3 : 8 / PI ^ 2 + 8 / (9 * PI ^ 2) <= 1.
Proof.
  pose proof (proj2 (rect_trunc 2 1 0 0 ltac:(lra) 3%nat)) as H. revert H. eval_sums. intros H.
  replace (8 / PI ^ 2 + 8 / (9 * PI ^ 2))
    with (0 ^ 2 + (0 + (4 / 1 / PI * 1) ^ 2 / 2 + 0 ^ 2 / 2 + (4 / 3 / PI * 1) ^ 2 / 2)) by (field; apply PI_neq0).
  lra.
Qed.

Lemma ex_saw_N2 :
  is_RInt (fun t => (saw_time ROps 2 1 0 0 t - partial_sum 2 (saw_amplitude ROps 1 0 0) (saw_phase ROps 1 0 0) 2 t) ^ 2)
    0 2 (2 / 3 - 4 / PI ^ 2 - 1 / PI ^ 2).
Proof.
  apply (is_RInt_val _ _ _ _ _ (proj1 (saw_trunc 2 1 0 0 ltac:(lra) 2%nat))).
  eval_sums. field. apply PI_neq0.
Qed.

Lemma ex_api_rect (N : nat) :
  is_RInt (fun t => (rect_time ROps 2 1 (1 / 3) (1 / 7) t
                     - partial_sum 2 (amplitude ROps {| amp_coeff := rect_amplitude ROps 1 (1 / 3) (1 / 7);
                                                       ph_coeff := rect_phase ROps 1 (1 / 3) (1 / 7) |})
                         (phase ROps {| amp_coeff := rect_amplitude ROps 1 (1 / 3) (1 / 7);
                                        ph_coeff := rect_phase ROps 1 (1 / 3) (1 / 7) |}) N t) ^ 2) 0 2
    (2 * wave_ms 3 1 (1 / 3) (1 / 7)
     - 2 * (amplitude ROps {| amp_coeff := rect_amplitude ROps 1 (1 / 3) (1 / 7);
                              ph_coeff := rect_phase ROps 1 (1 / 3) (1 / 7) |} 0 ^ 2
            + sum_n_m (fun n => amplitude ROps {| amp_coeff := rect_amplitude ROps 1 (1 / 3) (1 / 7);
                                                  ph_coeff := rect_phase ROps 1 (1 / 3) (1 / 7) |} (Z.of_nat n) ^ 2 / 2) 1 N)).
Proof.
  exact (api_truncation_error 3 2 1 (1 / 3) (1 / 7) (rect_time ROps) _ ltac:(lra) eq_refl eq_refl N).
Qed.
