(* Theory/PortGenThm.v — the classes regenerated from Network/equivalent_sources.py (Gen/PortGen.v, written by
   tools/gen_loaders.py in the vocabulary of Model/PortPrims.v) in terms of the port functions of Model/Port.v that C06 is
   about.  Statements: Properties/C06d.v. *)
From Coq Require Import List Bool NArith ZArith.
From CC Require Import Theory.Field Model.Network Model.Transformers Model.Port Model.Loaders Model.PortPrims Gen.PortGen.
Import ListNotations.

Section Thm.
Variable K : fops.

(* TheveninEquivalentSource(network, n1, n2): U = open_circuit_voltage first, then Z = open_circuit_impedance *)
Theorem gen_thevenin_eq (n : network K) (a b : label) :
  g_TheveninEquivalentSource_init K n a b
  = bind (open_circuit_voltage n a b) (fun v =>
    bind (open_circuit_impedance n a b) (fun oz =>
    Ok {| TheveninEquivalentSource_U := if label_eqb a b then PyInt 0 else PyNp (Some v);
          TheveninEquivalentSource_Z := if label_eqb a b || ideal_source_between n a b then PyInt 0 else PyNp oz |})).
Proof.
  unfold g_TheveninEquivalentSource_init, port_open_circuit_voltage, port_open_circuit_impedance.
  destruct (open_circuit_voltage n a b) as [v|e]; [|reflexivity]. cbn [bind].
  destruct (open_circuit_impedance n a b) as [oz|e]; reflexivity.
Qed.
(* a genuine port (two different nodes, no ideal voltage source across them): U and Z are the numbers of Model/Port.v *)
Theorem gen_thevenin_port (n : network K) (a b : label) (t : g_TheveninEquivalentSource K) :
  label_eqb a b = false -> ideal_source_between n a b = false -> g_TheveninEquivalentSource_init K n a b = Ok t ->
  exists v oz, open_circuit_voltage n a b = Ok v /\ open_circuit_impedance n a b = Ok oz
               /\ TheveninEquivalentSource_U K t = PyNp (Some v) /\ TheveninEquivalentSource_Z K t = PyNp oz.
Proof.
  intros Hab Hi. rewrite gen_thevenin_eq, Hab, Hi.
  destruct (open_circuit_voltage n a b) as [v|e]; [|discriminate]. cbn [bind].
  destruct (open_circuit_impedance n a b) as [oz|e]; [|discriminate]. cbn. intros H. inversion H. exists v, oz. auto.
Qed.
(* NortenEquivalentSource: I = U / Z, Y = 1 / Z; the Python int 0 that open_circuit_impedance hands out for identical nodes
   and across an ideal voltage source makes 1 / Z (and for identical nodes already U / Z) a ZeroDivisionError *)
Theorem gen_norton_eq (n : network K) (a b : label) (v : K) (oz : option K) :
  open_circuit_voltage n a b = Ok v -> open_circuit_impedance n a b = Ok oz ->
  g_NortenEquivalentSource_init K n a b
  = if label_eqb a b || ideal_source_between n a b then Err EZeroDivision
    else Ok {| NortenEquivalentSource_I := PyNp (np_div K (Some v) oz);
               NortenEquivalentSource_Y := PyNp (np_div K (Some (f1 K)) oz) |}.
Proof.
  intros Hv Hz.
  unfold g_NortenEquivalentSource_init, g_TheveninEquivalentSource_init, port_open_circuit_voltage, port_open_circuit_impedance.
  rewrite ?Hv, ?Hz. cbn [bind]. rewrite ?Hv, ?Hz. cbn [bind].
  destruct (label_eqb a b); [reflexivity|]. cbn [orb].
  destruct (ideal_source_between n a b); reflexivity.
Qed.
(* on a genuine port the Norton current is what short_circuit_current reports (C06_norton_model: the current through a
   short circuit across the port), and Y = 1 / Zth *)
Theorem gen_norton_port (n : network K) (a b : label) (t : g_NortenEquivalentSource K) :
  label_eqb a b = false -> ideal_source_between n a b = false -> g_NortenEquivalentSource_init K n a b = Ok t ->
  exists v oz, open_circuit_voltage n a b = Ok v /\ open_circuit_impedance n a b = Ok oz
    /\ short_circuit_current n a b = Ok (as_np K (NortenEquivalentSource_I K t))
    /\ NortenEquivalentSource_Y K t = PyNp (np_div K (Some (f1 K)) oz).
Proof.
  intros Hab Hi H.
  destruct (open_circuit_voltage n a b) as [v|e] eqn:Hv.
  - destruct (open_circuit_impedance n a b) as [oz|e] eqn:Hz.
    + rewrite (gen_norton_eq n a b v oz Hv Hz), Hab, Hi in H. cbn in H. inversion H. exists v, oz.
      repeat split. unfold short_circuit_current. rewrite Hz, Hv, Hab. cbn.
      destruct oz as [z|]; [|reflexivity]. unfold np_div. destruct (feqb K z (f0 K)); reflexivity.
    + unfold g_NortenEquivalentSource_init, g_TheveninEquivalentSource_init, port_open_circuit_voltage, port_open_circuit_impedance in H.
      rewrite ?Hv, ?Hz in H. cbn [bind] in H. rewrite ?Hv, ?Hz in H. discriminate.
  - unfold g_NortenEquivalentSource_init, g_TheveninEquivalentSource_init, port_open_circuit_voltage, port_open_circuit_impedance in H.
    rewrite ?Hv in H. discriminate.
Qed.
Theorem gen_norton_Y (n : network K) (a b : label) (t : g_NortenEquivalentSource K) (z : K) :
  label_eqb a b = false -> ideal_source_between n a b = false -> g_NortenEquivalentSource_init K n a b = Ok t ->
  open_circuit_impedance n a b = Ok (Some z) -> feqb K z (f0 K) = false ->
  NortenEquivalentSource_Y K t = PyNp (Some (fdiv K (f1 K) z)).
Proof.
  intros Hab Hi H Hz Hnz. destruct (gen_norton_port n a b t Hab Hi H) as [v [oz [_ [Hz' [_ HY]]]]].
  rewrite Hz in Hz'. inversion Hz'. subst oz. rewrite HY. unfold np_div. rewrite Hnz. reflexivity.
Qed.
End Thm.
