(* Theory/StateSpaceLyap.v — C11: over an ordered field, with non-negative admittances of the resistive branches,
   the state matrix A of Model/StateSpace.v satisfies  x^T (W A + A^T W) x <= 0  for W = diag(C..., L...)
   (from the Lyapunov identity  x^T W A x = - sum_resistive Y v^2  of Theory/StateSpaceThm.v), and consequently every
   natural frequency alpha + j beta (real eigen-pair  A a = alpha a - beta b,  A b = beta a + alpha b,  (a, b) <> 0)
   has alpha <= 0 when all capacitances and inductances are positive. *)
From Coq Require Import List Bool NArith Arith Lia Field Ring.
From CC Require Import Theory.Field Theory.Complex Theory.Labels Model.Network Model.StateSpace Theory.Spec Theory.Mna
  Theory.MnaComplete Theory.Api Theory.Gauss Theory.Matrix Theory.Tellegen Theory.Ordered Theory.StateSpaceThm.
Import ListNotations.

Section Lyap.
Variable R : fops.
Hypothesis ROK : fops_ok R.
Variable le : R -> R -> Prop.
Hypothesis OOK : ofield_ok R le.
Add Field Rly : (Kth R ROK).
Notation "0" := (f0 R). Notation "1" := (f1 R).
Infix "+" := (fadd R). Infix "*" := (fmul R). Infix "-" := (fsub R). Notation "- x" := (fopp R x).
Infix "/" := (fdiv R).
Infix "<=" := le.
Notation mat := (list (list R)).

(* ---------------- order facts ---------------- *)
Lemma sum_nonneg {A} (f : A -> R) (l : list A) : (forall a, In a l -> 0 <= f a) -> 0 <= sumF f l.
Proof. induction l as [|a l IH]; simpl; intros H; [apply (ole_refl R le OOK)|].
  apply (ole_0_add R ROK le OOK); [apply H; left; reflexivity|apply IH; intros b Hb; apply H; right; exact Hb]. Qed.

Lemma nonpos_of_opp (a : R) : 0 <= - a -> a <= 0.
Proof. intros H. pose proof (ole_add R le OOK 0 (- a) a H) as H'.
  replace (0 + a) with a in H' by ring. replace (- a + a) with 0 in H' by ring. exact H'. Qed.

Lemma opp_of_nonpos (a : R) : a <= 0 -> 0 <= - a.
Proof. intros H. pose proof (ole_add R le OOK a 0 (- a) H) as H'.
  replace (a + - a) with 0 in H' by ring. replace (0 + - a) with (- a) in H' by ring. exact H'. Qed.

Lemma nonpos_add (a b : R) : a <= 0 -> b <= 0 -> a + b <= 0.
Proof. intros Ha Hb. apply nonpos_of_opp. replace (- (a + b)) with (- a + - b) by ring.
  apply (ole_0_add R ROK le OOK); apply opp_of_nonpos; assumption. Qed.

(* ---------------- quadratic forms ---------------- *)
Lemma dot_adjoint r c (A : mat) (x v : list R) : wfm r c A -> length x = c -> length v = r ->
  dot x (mat_vec (transpose c A) v) = dot (mat_vec A x) v.
Proof. intros WA Lx Lv.
  rewrite !(dot_nth R ROK), Lx, mat_vec_length, (wfm_len R _ _ _ WA).
  rewrite (sumF_ext_in (fun j => nth j x 0 * nth j (mat_vec (transpose c A) v) 0)
             (fun j => sumF (fun i => nth j x 0 * ent A i j * nth i v 0) (seq 0 r))).
  2:{ intros j Hj. apply in_seq in Hj.
      rewrite (nth_mat_vec R ROK c r) by (try apply (wfm_transpose R r c); assumption || lia).
      rewrite <- (sumF_scal_l ROK (fun i => ent (transpose c A) j i * nth i v 0) (nth j x 0)).
      apply sumF_ext. intros i. rewrite (ent_transpose R) by lia. ring. }
  rewrite (sumF_ext_in (fun i => nth i (mat_vec A x) 0 * nth i v 0)
             (fun i => sumF (fun j => nth j x 0 * ent A i j * nth i v 0) (seq 0 c))).
  2:{ intros i Hi. apply in_seq in Hi. rewrite (nth_mat_vec R ROK r c) by (assumption || lia).
      rewrite <- (sumF_scal_r ROK (fun j => ent A i j * nth j x 0) (nth i v 0)).
      apply sumF_ext. intros j. ring. }
  apply (sumF_swap ROK (fun j i => nth j x 0 * ent A i j * nth i v 0)). Qed.

Variable n : network R.
Variables cvals lvals : list (label * R).
Notation nst := (ss_nst R cvals lvals).
Notation W := (Wd R cvals lvals).
Hypothesis lam_nz : forall k, k < nst -> nth k (lam R cvals lvals) 0 <> 0.
Hypothesis RD : rlc_dc R n cvals lvals.
Variable m : ssm R.
Hypothesis Hm : state_space_matrices R n cvals lvals = Ok m.
(* positive resistances: every branch that is neither capacitor, inductor nor source has admittance >= 0 *)
Hypothesis Ypos : forall b, In b (branches n) -> resb R cvals b = true -> 0 <= finY b.

Definition qW (x : list R) : R := sumF (fun k => nth k W 0 * nth k x 0 * nth k (mat_vec (ss_A m) x) 0) (seq 0 nst).
Definition LyapM : mat := mat_add (mat_mul nst (diag R W) (ss_A m)) (mat_mul nst (transpose nst (ss_A m)) (diag R W)).

Lemma len_W : length W = nst.
Proof. unfold Wd, ss_nst, ss_nC, ss_nL. rewrite app_length, !map_length. reflexivity. Qed.

Lemma qW_nonpos (x : list R) : length x = nst -> qW x <= 0.
Proof. intros Lx. unfold qW. rewrite (lyapunov_identity R ROK n cvals lvals lam_nz RD m Hm x Lx).
  apply nonpos_of_opp. replace (- - sumF (eR R n cvals lvals m x) (branches n)) with (sumF (eR R n cvals lvals m x) (branches n)) by ring.
  apply sum_nonneg. intros b Hb. unfold eR. destruct (resb R cvals b) eqn:E; [|apply (ole_refl R le OOK)].
  apply (ole_mul R le OOK); [apply (Ypos b Hb E)|apply (ole_sq R le OOK)]. Qed.

Lemma quad_form (x : list R) : length x = nst -> dot x (mat_vec LyapM x) = qW x + qW x.
Proof. intros Lx. destruct (ss_augmented_mat R ROK n cvals lvals lam_nz m Hm) as [WA _].
  assert (WW : wfm nst nst (diag R W)) by (rewrite <- len_W; apply wfm_diag).
  assert (WAt : wfm nst nst (transpose nst (ss_A m))) by (apply (wfm_transpose R nst nst), WA).
  unfold LyapM. rewrite (mat_vec_add R ROK nst nst) by (apply (wfm_mul R nst nst); assumption).
  rewrite (dot_vadd R ROK) by (rewrite !mat_vec_length; unfold mat_mul; rewrite !map_length; destruct WW, WAt; lia).
  rewrite (mat_vec_mul R ROK nst nst nst (diag R W) (ss_A m) x WW WA).
  rewrite (mat_vec_mul R ROK nst nst nst (transpose nst (ss_A m)) (diag R W) x WAt WW).
  rewrite (dot_adjoint nst nst (ss_A m) x (mat_vec (diag R W) x) WA Lx)
    by (rewrite mat_vec_length; apply WW).
  unfold qW. rewrite (dot_nth R ROK x), Lx. rewrite (dot_nth R ROK (mat_vec (ss_A m) x)), mat_vec_length, (wfm_len R _ _ _ WA).
  f_equal; apply sumF_ext_in; intros k Hk; apply in_seq in Hk;
    rewrite (mat_vec_diag R ROK) by (rewrite len_W; lia); ring. Qed.

(* x^T (W A + A^T W) x <= 0 *)
Theorem lyapunov (x : list R) : length x = nst -> dot x (mat_vec LyapM x) <= 0.
Proof. intros Lx. rewrite (quad_form x Lx). apply nonpos_add; apply qW_nonpos; exact Lx. Qed.

(* every natural frequency alpha + j beta has alpha <= 0 (real and imaginary parts a, b of an eigenvector) *)
Hypothesis Wpos : forall k, k < nst -> 0 <= nth k W 0.

Lemma sum_zero_terms {A} (f : A -> R) (l : list A) : (forall a, In a l -> 0 <= f a) -> sumF f l = 0 ->
  forall a, In a l -> f a = 0.
Proof. induction l as [|a0 l IH]; simpl; intros Hp Hs a Ha; [destruct Ha|].
  assert (P0 : 0 <= f a0) by (apply Hp; left; reflexivity).
  assert (PS : 0 <= sumF f l) by (apply sum_nonneg; intros b Hb; apply Hp; right; exact Hb).
  assert (E0 : f a0 = 0).
  { apply (ole_antisym R le OOK); [|exact P0]. apply nonpos_of_opp.
    replace (- f a0) with (sumF f l) by (replace (sumF f l) with ((f a0 + sumF f l) - f a0) by ring; rewrite Hs; ring).
    exact PS. }
  destruct Ha as [<-|Ha]; [exact E0|]. apply IH; [intros b Hb; apply Hp; right; exact Hb| |exact Ha].
  rewrite E0 in Hs. rewrite <- Hs. ring. Qed.

Theorem natural_frequency_nonpos (a b : list R) (alpha beta : R) : length a = nst -> length b = nst ->
  (forall k, k < nst -> nth k (mat_vec (ss_A m) a) 0 = alpha * nth k a 0 - beta * nth k b 0) ->
  (forall k, k < nst -> nth k (mat_vec (ss_A m) b) 0 = beta * nth k a 0 + alpha * nth k b 0) ->
  (exists k, k < nst /\ (nth k a 0 <> 0 \/ nth k b 0 <> 0)) ->
  alpha <= 0.
Proof. intros La Lb Ea Eb [k0 [Hk0 Hnz]].
  set (S := sumF (fun k => nth k W 0 * (nth k a 0 * nth k a 0 + nth k b 0 * nth k b 0)) (seq 0 nst)).
  assert (E : qW a + qW b = alpha * S).
  { unfold qW, S. rewrite <- (sumF_add ROK), <- (sumF_scal_l ROK). apply sumF_ext_in. intros k Hk. apply in_seq in Hk.
    rewrite Ea, Eb by lia. ring. }
  assert (Hle : alpha * S <= 0) by (rewrite <- E; apply nonpos_add; apply qW_nonpos; assumption).
  assert (Pt : forall k, In k (seq 0 nst) -> 0 <= nth k W 0 * (nth k a 0 * nth k a 0 + nth k b 0 * nth k b 0)).
  { intros k Hk. apply in_seq in Hk. apply (ole_mul R le OOK); [apply Wpos; lia|].
    apply (ole_0_add R ROK le OOK); apply (ole_sq R le OOK). }
  assert (PS : 0 <= S) by (apply sum_nonneg, Pt).
  assert (NS : S <> 0).
  { intros HS. pose proof (sum_zero_terms _ _ Pt HS k0 (proj2 (in_seq nst 0 k0) ltac:(lia))) as H0. cbv beta in H0.
    assert (Wk : nth k0 W 0 <> 0).
    { pose proof (lam_nz k0 Hk0) as L. intros HW. apply L. unfold lam. unfold Wd in HW.
      destruct (Nat.lt_ge_cases k0 (length cvals)) as [Hc|Hc].
      - rewrite app_nth1 in HW |- * by (rewrite map_length; exact Hc).
        rewrite (nth_map_lt (@snd label R) cvals k0 ([], 0) 0 Hc) in HW.
        rewrite (nth_map_lt (fun p : label * R => - snd p) cvals k0 ([], 0) 0 Hc). rewrite HW. ring.
      - rewrite app_nth2 in HW |- * by (rewrite map_length; exact Hc). rewrite map_length in *. exact HW. }
    assert (Hsq : nth k0 a 0 * nth k0 a 0 + nth k0 b 0 * nth k0 b 0 = 0).
    { replace (nth k0 a 0 * nth k0 a 0 + nth k0 b 0 * nth k0 b 0)
        with (nth k0 W 0 * (nth k0 a 0 * nth k0 a 0 + nth k0 b 0 * nth k0 b 0) / nth k0 W 0) by (field; exact Wk).
      rewrite H0. field. exact Wk. }
    destruct (ofield_real R ROK le OOK _ _ Hsq) as [Za Zb]. destruct Hnz; contradiction. }
  (* 1/S >= 0, so alpha = (alpha S) (1/S) <= 0 *)
  assert (PI : 0 <= 1 / S).
  { replace (1 / S) with (S * ((1 / S) * (1 / S))) by (field; exact NS).
    apply (ole_mul R le OOK); [exact PS|apply (ole_sq R le OOK)]. }
  apply nonpos_of_opp. replace (- alpha) with (- (alpha * S) * (1 / S)) by (field; exact NS).
  apply (ole_mul R le OOK); [apply opp_of_nonpos, Hle|exact PI]. Qed.

End Lyap.
