(* Theory/Ordered.v — ordered fields, and the signs of the complex power of passive branches of a network over
   the complex numbers [Cx R] of an ordered field [R]: resistor / conductance dissipate (P real, >= 0),
   inductor Q >= 0, capacitor Q <= 0.  Also the time-domain (instantaneous) power balance of a superposition of
   harmonics. *)
From Coq Require Import List Bool NArith Arith Field Ring ZArith QArith Qcanon.
From CC Require Import Theory.Field Theory.Complex Theory.Labels Model.Network Theory.Spec Theory.Mna
  Theory.MnaComplete Theory.Api Theory.Tellegen.
Import ListNotations.

(* just what is needed of an ordered field (no totality) *)
Record ofield_ok (R : fops) (le : R -> R -> Prop) : Prop := {
  ole_refl : forall x, le x x;
  ole_trans : forall x y z, le x y -> le y z -> le x z;
  ole_antisym : forall x y, le x y -> le y x -> x = y;
  ole_add : forall x y z, le x y -> le (fadd R x z) (fadd R y z);
  ole_mul : forall x y, le (f0 R) x -> le (f0 R) y -> le (f0 R) (fmul R x y);
  ole_sq : forall x, le (f0 R) (fmul R x x)
}.

Section OField.
Variable R : fops.
Hypothesis ROK : fops_ok R.
Variable le : R -> R -> Prop.
Hypothesis OOK : ofield_ok R le.
Add Field Rf6 : (Kth R ROK).
Notation "0" := (f0 R). Notation "1" := (f1 R).
Infix "+" := (fadd R). Infix "*" := (fmul R). Infix "-" := (fsub R). Notation "- x" := (fopp R x).
Infix "/" := (fdiv R).
Infix "<=" := le.
Ltac feqR x y := destruct (feqb_spec ROK x y).

Lemma ole_0_add (a b : R) : 0 <= a -> 0 <= b -> 0 <= a + b.
Proof. intros Ha Hb. apply (ole_trans R le OOK 0 b (a + b)); [exact Hb|].
  assert (H := ole_add R le OOK 0 a b Ha). replace (0 + b) with b in H by ring. exact H. Qed.

Lemma ole_opp (a : R) : 0 <= a -> - a <= 0.
Proof. intros Ha. assert (H := ole_add R le OOK 0 a (- a) Ha).
  replace (0 + - a) with (- a) in H by ring. replace (a + - a) with 0 in H by ring. exact H. Qed.

Lemma sq_zero (a : R) : a * a = 0 -> a = 0.
Proof. intros E. feqR a 0; [assumption|].
  transitivity ((a * a) / a); [field; assumption|]. rewrite E. field. assumption. Qed.

(* an ordered field is formally real: the hypothesis of Theory/Complex.v *)
Lemma ofield_real : forall x y : R, x * x + y * y = 0 -> x = 0 /\ y = 0.
Proof.
  assert (Hx : forall x y : R, x * x + y * y = 0 -> x = 0).
  { intros x y E. apply sq_zero. apply (ole_antisym R le OOK); [|apply (ole_sq R le OOK)].
    assert (H := ole_add R le OOK 0 (y * y) (x * x) (ole_sq R le OOK y)).
    replace (0 + x * x) with (x * x) in H by ring.
    replace (y * y + x * x) with 0 in H by (rewrite <- E; ring). exact H. }
  intros x y E. split; [exact (Hx x y E)|]. apply (Hx y x). rewrite <- E. ring. Qed.

Definition CxR_ok : fops_ok (Cx R) := Cx_ok R ROK ofield_real.

Definition re (a : Cx R) : R := fst a.
Definition im (a : Cx R) : R := snd a.
Definition ofreal (r : R) : Cx R := (r, 0).
Definition oimag (r : R) : Cx R := (0, r).

Lemma cxnorm2_nonneg (a : Cx R) : 0 <= cxnorm2 R a.
Proof. unfold cxnorm2. apply ole_0_add; apply (ole_sq R le OOK). Qed.

Lemma mul_conj_norm (a : Cx R) : fmul (Cx R) a (fconj (Cx R) a) = ofreal (cxnorm2 R a).
Proof. apply cx_eq; simpl; unfold cxnorm2; ring. Qed.

(* ---------------- complex power of the passive branches ---------------- *)
Variable n : network (Cx R).
Variable x : list (Cx R).
Notation P := (bpower n x).
Notation v := (bvolt (phi_of n x)).
Notation i := (reported n x).

(* S = Z |I|^2 *)
Theorem impedance_power (b : branch (Cx R)) nm k z : wf n -> solves n x -> In b (branches n) ->
  el b = ZV nm k z (f0 (Cx R)) -> P b = fmul (Cx R) z (ofreal (cxnorm2 R (i b))).
Proof. intros WF S Hb He. unfold bpower. rewrite (ohm_Z (Cx R) CxR_ok n x b nm k z WF S Hb He).
  rewrite <- mul_conj_norm. generalize (i b). intros c. apply cx_eq; simpl; ring. Qed.

Lemma impedance_power_nz (b : branch (Cx R)) nm k z : z <> f0 (Cx R) ->
  el b = ZV nm k z (f0 (Cx R)) -> P b = fmul (Cx R) z (ofreal (cxnorm2 R (i b))).
Proof. intros Hz He. unfold bpower. rewrite (ohm_Z_nz (Cx R) CxR_ok n x b nm k z Hz He).
  rewrite <- mul_conj_norm. generalize (i b). intros c. apply cx_eq; simpl; ring. Qed.

(* S = conj(Y) |V|^2 *)
Theorem admittance_power (b : branch (Cx R)) nm k y :
  el b = YI nm k y (f0 (Cx R)) -> P b = fmul (Cx R) (fconj (Cx R) y) (ofreal (cxnorm2 R (v b))).
Proof. intros He. unfold bpower. rewrite (ohm_Y (Cx R) CxR_ok n x b nm k y He).
  rewrite <- mul_conj_norm. generalize (v b). intros c. apply cx_eq; simpl; ring. Qed.

Lemma scale_real (r m : R) : fmul (Cx R) (ofreal r) (ofreal m) = ofreal (r * m).
Proof. apply cx_eq; simpl; ring. Qed.
Lemma scale_imag (r m : R) : fmul (Cx R) (oimag r) (ofreal m) = oimag (r * m).
Proof. apply cx_eq; simpl; ring. Qed.
Lemma conj_real (r : R) : fconj (Cx R) (ofreal r) = ofreal r.
Proof. apply cx_eq; simpl; ring. Qed.
Lemma conj_imag (r : R) : fconj (Cx R) (oimag r) = oimag (- r).
Proof. apply cx_eq; simpl; ring. Qed.

(* resistor (Z = R + 0j, R >= 0; R = 0 included): P real, non-negative, = R |I|^2 *)
Theorem resistor_power (b : branch (Cx R)) nm k r : wf n -> solves n x -> In b (branches n) ->
  el b = ZV nm k (ofreal r) (f0 (Cx R)) -> 0 <= r ->
  im (P b) = 0 /\ 0 <= re (P b) /\ re (P b) = r * cxnorm2 R (i b).
Proof. intros WF S Hb He Hr. rewrite (impedance_power b nm k (ofreal r) WF S Hb He), scale_real.
  generalize (cxnorm2_nonneg (i b)). generalize (cxnorm2 R (i b)). intros N HN.
  unfold im, re, ofreal; cbn [fst snd]. split; [reflexivity|]. split; [|reflexivity].
  apply (ole_mul R le OOK); [exact Hr|exact HN]. Qed.

(* inductor (Z = 0 + j wL, wL >= 0; w = 0 included): purely reactive, Q = wL |I|^2 >= 0 *)
Theorem inductor_power (b : branch (Cx R)) nm k wl : wf n -> solves n x -> In b (branches n) ->
  el b = ZV nm k (oimag wl) (f0 (Cx R)) -> 0 <= wl ->
  re (P b) = 0 /\ 0 <= im (P b) /\ im (P b) = wl * cxnorm2 R (i b).
Proof. intros WF S Hb He Hr. rewrite (impedance_power b nm k (oimag wl) WF S Hb He), scale_imag.
  generalize (cxnorm2_nonneg (i b)). generalize (cxnorm2 R (i b)). intros N HN.
  unfold im, re, oimag; cbn [fst snd]. split; [reflexivity|]. split; [|reflexivity].
  apply (ole_mul R le OOK); [exact Hr|exact HN]. Qed.

(* capacitor (Y = 0 + j wC, wC >= 0): purely reactive, Q = - wC |V|^2 <= 0 *)
Theorem capacitor_power (b : branch (Cx R)) nm k wc :
  el b = YI nm k (oimag wc) (f0 (Cx R)) -> 0 <= wc ->
  re (P b) = 0 /\ im (P b) <= 0 /\ im (P b) = - (wc * cxnorm2 R (v b)).
Proof. intros He Hr. rewrite (admittance_power b nm k (oimag wc) He), conj_imag, scale_imag.
  generalize (cxnorm2_nonneg (v b)). generalize (cxnorm2 R (v b)). intros N HN.
  unfold im, re, oimag; cbn [fst snd].
  assert (E : - wc * N = - (wc * N)) by ring.
  split; [reflexivity|]. split; [|exact E].
  rewrite E. apply ole_opp. apply (ole_mul R le OOK); [exact Hr|exact HN]. Qed.

(* conductance (Y = G + 0j, G >= 0): P real, non-negative, = G |V|^2 *)
Theorem conductor_power (b : branch (Cx R)) nm k g :
  el b = YI nm k (ofreal g) (f0 (Cx R)) -> 0 <= g ->
  im (P b) = 0 /\ 0 <= re (P b) /\ re (P b) = g * cxnorm2 R (v b).
Proof. intros He Hr. rewrite (admittance_power b nm k (ofreal g) He), conj_real, scale_real.
  generalize (cxnorm2_nonneg (v b)). generalize (cxnorm2 R (v b)). intros N HN.
  unfold im, re, ofreal; cbn [fst snd]. split; [reflexivity|]. split; [|reflexivity].
  apply (ole_mul R le OOK); [exact Hr|exact HN]. Qed.

(* DC: when voltage and current are real, V*I of the real parts is the (real) complex power *)
Lemma dc_power_real (u c : Cx R) : im u = 0 -> im c = 0 ->
  power_rms u c = ofreal (power_dc (K:=R) (re u) (re c)).
Proof. unfold im, re, power_rms, power_dc. destruct u as [u1 u2], c as [c1 c2]. simpl. intros -> ->.
  apply cx_eq; simpl; ring. Qed.

End OField.

Arguments re {R}. Arguments im {R}. Arguments ofreal {R}. Arguments oimag {R}.

(* ---------------- time domain: a superposition of harmonics ---------------- *)
(* TimeDomainSolution hands out  x(t) = Σ_k |X_k| cos(w_k t + arg X_k) = Σ_k Re (X_k e_k(t)),  e_k(t) = exp(j w_k t);
   here e_k(t) is ANY complex number.  If the per-harmonic flows obey KCL (on a common graph), the instantaneous
   powers v_b(t) * i_b(t) (passive sign convention) sum to zero at every t. *)
Section TimeDomain.
Variable R : fops.
Hypothesis ROK : fops_ok R.
Variable le : R -> R -> Prop.
Hypothesis OOK : ofield_ok R le.
Add Field Rf7 : (Kth R ROK).
Variable A : Type.
Variables n1 n2 : A -> label.
Variable T : Type.
Variable H : Type.                          (* harmonics *)
Variable e : H -> T -> Cx R.                (* carriers *)

Definition td_signal (hs : list H) (X : H -> Cx R) (t : T) : R :=
  sumF (fun k => re (fmul (Cx R) (X k) (e k t))) hs.

Lemma re_mul_additive (c : Cx R) : additive2 (F:=Cx R) (G:=R) (fun z => re (fmul (Cx R) z c)).
Proof. split; [|split]; intros; unfold re; simpl; ring. Qed.

Theorem td_power_balance (es : list A) (hs : list H) (Phi : H -> label -> Cx R) (J : H -> A -> Cx R) :
  (forall k, In k hs -> forall node, gkcl n1 n2 es (J k) node = f0 (Cx R)) ->
  forall t, sumF (fun b => fmul R (td_signal hs (fun k => gvolt n1 n2 (Phi k) b) t)
                                  (td_signal hs (fun k => J k b) t)) es = f0 R.
Proof. intros Hk t.
  set (phit := fun l => td_signal hs (fun k => Phi k l) t).
  set (jt := fun b => td_signal hs (fun k => J k b) t).
  rewrite (sumF_ext_in _ (fun b => fmul R (gvolt n1 n2 phit b) (jt b))).
  2:{ intros b _. f_equal. unfold phit, td_signal.
      rewrite (gvolt_sumF A n1 n2 R ROK (fun k l => re (fmul (Cx R) (Phi k l) (e k t))) hs b).
      apply sumF_ext. intros k.
      symmetry. apply (gvolt_additive2 A n1 n2 (Cx R) R (CxR_ok R ROK le OOK) ROK
                         (fun z => re (fmul (Cx R) z (e k t))) (Phi k) b (re_mul_additive (e k t))). }
  apply (tellegen_graph A n1 n2 R ROK). intros node. unfold jt, td_signal.
  rewrite (gkcl_sumF A n1 n2 R ROK es (fun k b => re (fmul (Cx R) (J k b) (e k t))) hs node).
  apply (sumF_zero_in ROK). intros k Hin.
  rewrite (gkcl_additive2 A n1 n2 (Cx R) R (CxR_ok R ROK le OOK) ROK
             (fun z => re (fmul (Cx R) z (e k t))) es (J k) node (re_mul_additive (e k t))).
  rewrite (Hk k Hin node). unfold re; simpl. ring. Qed.

End TimeDomain.

Arguments td_signal {R T H}.

(* ---------------- the rationals are an instance ---------------- *)
Lemma Qc_ofield_ok : ofield_ok Qcops Qcle.
Proof. constructor; simpl.
  - apply Qcle_refl.
  - apply Qcle_trans.
  - apply Qcle_antisym.
  - intros x y z Hxy. apply Qcplus_le_compat; [exact Hxy|apply Qcle_refl].
  - intros x y Hx Hy. rewrite <- (Qcmult_0_l y). apply Qcmult_le_compat_r; assumption.
  - intros z. unfold Qcle. unfold Qcmult, Q2Qc. cbn [this]. rewrite (Qred_correct (z*z)).
    destruct z as [[nz dz] c]. cbn [this]. unfold Qle, Qmult. cbn [Qnum Qden].
    change (this 0%Qc) with (0#1). cbn [Qnum Qden]. rewrite Z.mul_0_l, Z.mul_1_r. apply Z.square_nonneg.
Qed.
