(* Theory/Complex.v — complex numbers as pairs over a formally real field, packaged as [fops];
   the executable instance CQ = Gaussian rationals over Qc. *)
From Coq Require Import List Bool Field Ring ZArith QArith Qcanon.
From CC Require Import Theory.Field.

Section Cx.
Variable R : fops.
Hypothesis ROK : fops_ok R.
Hypothesis Rreal : forall x y : R, fadd R (fmul R x x) (fmul R y y) = f0 R -> x = f0 R /\ y = f0 R.
Add Field Rfield : (Kth R ROK).
Notation "0" := (f0 R). Notation "1" := (f1 R).
Infix "+" := (fadd R). Infix "*" := (fmul R). Infix "-" := (fsub R). Notation "- x" := (fopp R x).
Infix "/" := (fdiv R).

Definition cx := (R * R)%type.
Definition cx0 : cx := (0, 0).
Definition cx1 : cx := (1, 0).
Definition cxadd (a b : cx) : cx := (fst a + fst b, snd a + snd b).
Definition cxsub (a b : cx) : cx := (fst a - fst b, snd a - snd b).
Definition cxopp (a : cx) : cx := (- fst a, - snd a).
Definition cxmul (a b : cx) : cx := (fst a * fst b - snd a * snd b, fst a * snd b + snd a * fst b).
Definition cxnorm2 (a : cx) : R := fst a * fst a + snd a * snd a.
Definition cxinv (a : cx) : cx := (fst a / cxnorm2 a, - snd a / cxnorm2 a).
Definition cxdiv (a b : cx) : cx := cxmul a (cxinv b).
Definition cxeqb (a b : cx) : bool := feqb R (fst a) (fst b) && feqb R (snd a) (snd b).
Definition cxconj (a : cx) : cx := (fst a, - snd a).

Definition Cx : fops := {| car := cx; f0 := cx0; f1 := cx1; fadd := cxadd; fmul := cxmul; fsub := cxsub;
  fopp := cxopp; fdiv := cxdiv; finv := cxinv; feqb := cxeqb; fconj := cxconj |}.

Lemma cx_eq (a b : cx) : fst a = fst b -> snd a = snd b -> a = b.
Proof. destruct a, b; simpl; intros; subst; reflexivity. Qed.

Lemma cxnorm2_nz (a : cx) : a <> cx0 -> cxnorm2 a <> 0.
Proof. intros H E. apply Rreal in E. destruct E as [E1 E2]. apply H. apply cx_eq; assumption. Qed.

Lemma Cx_ok : fops_ok Cx.
Proof.
  constructor.
  - constructor; [constructor|..]; simpl.
    1-9: intros; apply cx_eq; simpl; ring.
    + intros E. inversion E as [[E1]]. exact (f1_neq_0 ROK E1).
    + reflexivity.
    + intros p H. unfold cxmul, cxinv. assert (N := cxnorm2_nz p H).
      apply cx_eq; simpl; unfold cxnorm2 in *; field; exact N.
  - intros x y; unfold Cx, cxeqb; simpl. rewrite andb_true_iff, !(Keqb R ROK). split.
    + intros [A B]; apply cx_eq; assumption.
    + intros ->; split; reflexivity.
  - intros; apply cx_eq; simpl; ring.
  - intros; apply cx_eq; simpl; ring.
  - intros; apply cx_eq; simpl; ring.
Qed.
End Cx.

(* ---------- executable instance: Qc and Qc-complex ---------- *)
Definition Qcops : fops := {| car := Qc; f0 := 0%Qc; f1 := 1%Qc; fadd := Qcplus; fmul := Qcmult; fsub := Qcminus;
  fopp := Qcopp; fdiv := Qcdiv; finv := Qcinv; feqb := Qc_eq_bool; fconj := fun x => x |}.

Lemma Qcops_ok : fops_ok Qcops.
Proof. constructor; simpl; try reflexivity.
  - exact Qcft.
  - intros x y; split; [apply Qc_eq_bool_correct|]. intros ->. unfold Qc_eq_bool.
    destruct (Qc_eq_dec y y); [reflexivity|congruence]. Qed.

Lemma Qc_real : forall x y : Qcops, fadd Qcops (fmul Qcops x x) (fmul Qcops y y) = f0 Qcops -> x = f0 Qcops /\ y = f0 Qcops.
Proof.
  simpl. intros x y H.
  assert (Hsq : forall z : Qc, (0 <= z * z)%Qc).
  { intros z. unfold Qcle. unfold Qcmult, Q2Qc. cbn [this]. rewrite (Qred_correct (z*z)).
    destruct z as [[n d] c]. cbn [this]. unfold Qle, Qmult. cbn [Qnum Qden].
    change (this 0%Qc) with (0#1). cbn [Qnum Qden]. rewrite Z.mul_0_l, Z.mul_1_r. apply Z.square_nonneg. }
  assert (Hz : forall z : Qc, (z * z = 0 -> z = 0)%Qc).
  { intros z E. destruct (Qcmult_integral _ _ E); assumption. }
  assert (Hx := Hsq x). assert (Hy := Hsq y).
  assert (Ex : (x * x = 0)%Qc).
  { apply Qcle_antisym; [|exact Hx]. rewrite <- H. rewrite <- (Qcplus_0_r (x*x)) at 1.
    apply Qcplus_le_compat; [apply Qcle_refl|exact Hy]. }
  assert (Ey : (y * y = 0)%Qc).
  { rewrite Ex, Qcplus_0_l in H. exact H. }
  split; apply Hz; assumption.
Qed.

Definition CQ : fops := Cx Qcops.
Definition CQ_ok : fops_ok CQ := Cx_ok Qcops Qcops_ok Qc_real.

Definition qc (n : Z) (d : positive) : Qc := Q2Qc (n # d).
Definition cq (rn : Z) (rd : positive) (im_n : Z) (im_d : positive) : CQ := (qc rn rd, qc im_n im_d).
