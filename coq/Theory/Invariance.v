(* Theory/Invariance.v — C03: the results do not depend on how the circuit is written down.
   Four transformations of a network description: renaming (nodes by sigma, elements by tau), permuting the
   branch list, reversing the terminals of selected branches (negating the source value), moving the
   reference node.  Spine of every proof: [mna_sound] on both descriptions, a pull-back of circuit-equation
   solutions from the transformed to the original network, uniqueness ([WellPosed]) on the original.
   Nothing is used about the sorted index maps except what [Theory/Mna.v] already proves from
   [Permutation (lsort l) l]. *)
From Coq Require Import List Bool NArith Arith Permutation Lia Field Ring.
From CC Require Import Theory.Field Theory.Labels Model.Network Theory.Spec Theory.Mna Theory.MnaComplete Theory.Api.
Import ListNotations.

(* ---------- injectivity on the labels actually used ---------- *)
Definition inj_on (ls : list label) (f : label -> label) : Prop :=
  forall a b, In a ls -> In b ls -> f a = f b -> a = b.

Lemma inj_inj_on (f : label -> label) ls : (forall a b, f a = f b -> a = b) -> inj_on ls f.
Proof. intros H a b _ _. apply H. Qed.

Lemma label_eqb_true a b : label_eqb a b = true -> a = b.
Proof. destruct (label_eqb_spec a b); [auto|discriminate]. Qed.

Lemma eqb_inj_on ls f a b : inj_on ls f -> In a ls -> In b ls -> label_eqb (f a) (f b) = label_eqb a b.
Proof. intros H Ha Hb. destruct (label_eqb_spec (f a) (f b)) as [e|e], (label_eqb_spec a b) as [e'|e']; try reflexivity.
  - exfalso. apply e'. apply H; assumption.
  - exfalso. apply e. rewrite e'. reflexivity. Qed.

Lemma NoDup_map_inj_on ls f : inj_on ls f -> NoDup ls -> NoDup (map f ls).
Proof. intros H ND. induction ND as [|a l Ha ND IH]; simpl; [constructor|].
  constructor.
  - intros Hin. apply in_map_iff in Hin. destruct Hin as [c [E Hc]].
    assert (c = a) by (apply H; [right; exact Hc|left; reflexivity|exact E]). subst c. contradiction.
  - apply IH. intros x y Hx Hy. apply H; right; assumption. Qed.

(* a transposition of two labels: an injective renaming that changes sort orders (for examples) *)
Definition swap_label (a b l : label) : label :=
  if label_eqb l a then b else if label_eqb l b then a else l.

Lemma swap_label_inj a b : forall x y, swap_label a b x = swap_label a b y -> x = y.
Proof. intros x y. unfold swap_label.
  destruct (label_eqb_spec x a), (label_eqb_spec x b), (label_eqb_spec y a), (label_eqb_spec y b); congruence. Qed.

Definition label_eq_dec : forall a b : label, {a = b} + {a <> b} := list_eq_dec N.eq_dec.

Section Invariance.
Variable K : fops.
Hypothesis KOK : fops_ok K.
Add Field Kf4 : (Kth K KOK).
Notation "0" := (f0 K). Notation "1" := (f1 K).
Infix "+" := (fadd K). Infix "*" := (fmul K). Infix "-" := (fsub K). Notation "- x" := (fopp K x).
Infix "/" := (fdiv K).
Notation "x == y" := (feqb K x y) (at level 70).
Ltac feq x y := destruct (feqb_spec KOK x y).
Ltac leq a b := destruct (label_eqb_spec a b).
Implicit Types (n : network K) (b : branch K) (e : elem K) (phi psi : label -> K) (j : branch K -> K)
  (x : list K) (sigma tau : label -> label) (r : label -> bool) (g l node : label) (s : solution K).

(* ====================== general facts ====================== *)
Lemma labels_wf (n : network K) : wf n -> forall l, In l (node_labels n) <-> (l = zero n \/ In l (endpoints n)).
Proof. intros [_ [Hz _]] l.
  assert (D : branches n = [] \/ branches n <> []) by (destruct (branches n); [left; reflexivity|right; discriminate]).
  destruct D as [E|E].
  - unfold node_labels, endpoints. rewrite E. simpl.
    split; [intros [H|[]]; left; congruence | intros [H|[]]; left; congruence].
  - rewrite (node_labels_In K n l E). split; [auto|]. intros [->|H]; [apply Hz, E|exact H].
Qed.

Lemma node1_label n b : wf n -> In b (branches n) -> In (node1 b) (node_labels n).
Proof. intros WF Hb. apply (labels_wf n WF). right. apply in_or_app. left. apply in_map. exact Hb. Qed.
Lemma node2_label n b : wf n -> In b (branches n) -> In (node2 b) (node_labels n).
Proof. intros WF Hb. apply (labels_wf n WF). right. apply in_or_app. right. apply in_map. exact Hb. Qed.
Lemma zero_label n : wf n -> In (zero n) (node_labels n).
Proof. intros WF. apply (labels_wf n WF). left. reflexivity. Qed.

Lemma label_cases (n : network K) l : In l (node_labels n) -> l = zero n \/ In l (node_index n).
Proof. intros Hl. leq l (zero n); [left; assumption|right].
  unfold node_index. apply filter_In. split; [apply lsort_In; exact Hl|].
  leq l (zero n); [contradiction|reflexivity]. Qed.

Lemma same_id n (b b' : branch K) : wf n -> In b (branches n) -> In b' (branches n) -> bid b = bid b' -> b = b'.
Proof. intros WF Hb Hb' E.
  pose proof (get_branch_In K (branches n) b (ids_nodup K n WF) Hb) as G1.
  pose proof (get_branch_In K (branches n) b' (ids_nodup K n WF) Hb') as G2.
  rewrite E in G1. congruence. Qed.

Lemma law_ext (phi psi : label -> K) (j i : branch K -> K) b :
  phi (node1 b) = psi (node1 b) -> phi (node2 b) = psi (node2 b) -> j b = i b -> law phi j b -> law psi i b.
Proof. intros E1 E2 E3. unfold law, bvolt. rewrite E1, E2, E3. tauto. Qed.

Definition power_of (n : network K) (x : list K) (b : branch K) : K :=
  bvolt (phi_of n x) b * fconj K (reported n x b).

(* the spine: soundness on both sides, pull-back, uniqueness on the original *)
Lemma transfer (n n' : network K) (x x' : list K)
  (P : (label -> K) -> label -> K) (J : (branch K -> K) -> branch K -> K) :
  wf n -> wf n' -> WellPosed n -> solves n x -> solves n' x' ->
  (forall phi j, CircuitSpec n' phi j -> CircuitSpec n (P phi) (J j)) ->
  agree_on n (phi_of n x) (P (phi_of n' x')) (flow_of n x) (J (flow_of n' x')).
Proof. intros WF WF' [_ U] S S' PB. apply U.
  - apply (mna_sound K KOK n WF x S).
  - apply PB. apply (mna_sound K KOK n' WF' x' S'). Qed.

Lemma solved_unpack (n : network K) s : wf n -> solve_network n = Ok s ->
  exists x, s = {| s_net := n; s_x := x |} /\ solves n x.
Proof. intros WF E. destruct (solve_network_sound K KOK n (proj2 (proj2 WF)) s E) as [E1 [_ S]].
  exists (s_x s). split; [destruct s; simpl in *; subst; reflexivity|exact S]. Qed.

Lemma api_pot (n : network K) x l : In l (node_labels n) ->
  get_potential {| s_net := n; s_x := x |} l = Ok (phi_of n x l).
Proof. intros Hl. apply api_potential. apply label_cases. exact Hl. Qed.

(* ====================== 1. renaming ====================== *)
Definition rename_elem (tau : label -> label) (e : elem K) : elem K :=
  match e with ZV n k z v => ZV (tau n) k z v | YI n k y i => YI (tau n) k y i end.
Definition rename_branch (sigma tau : label -> label) (b : branch K) : branch K :=
  Build_branch (sigma (node1 b)) (sigma (node2 b)) (rename_elem tau (el b)).
Definition rename_net (sigma tau : label -> label) (n : network K) : network K :=
  {| branches := map (rename_branch sigma tau) (branches n); zero := sigma (zero n) |}.

Lemma ren_eY tau e : eY (rename_elem tau e) = eY e. Proof. destruct e; reflexivity. Qed.
Lemma ren_eI tau e : eI (rename_elem tau e) = eI e. Proof. destruct e; reflexivity. Qed.
Lemma ren_eV tau e : eV (rename_elem tau e) = eV e. Proof. destruct e; reflexivity. Qed.
Lemma ren_eZ tau e : eZ (rename_elem tau e) = eZ e. Proof. destruct e; reflexivity. Qed.
Lemma ren_linear tau e : is_linear_source (rename_elem tau e) = is_linear_source e.
Proof. destruct e; reflexivity. Qed.
Lemma ren_ivs tau e : is_ideal_voltage_source (rename_elem tau e) = is_ideal_voltage_source e.
Proof. destruct e; reflexivity. Qed.

Lemma bid_rb sigma tau b : bid (rename_branch sigma tau b) = tau (bid b).
Proof. unfold bid, rename_branch. simpl. destruct (el b); reflexivity. Qed.

Lemma endpoints_rename sigma tau n : endpoints (rename_net sigma tau n) = map sigma (endpoints n).
Proof. unfold endpoints. simpl. rewrite map_app, !map_map. reflexivity. Qed.

Lemma law_rename sigma tau phi' j' b :
  law phi' j' (rename_branch sigma tau b)
  <-> law (fun l => phi' (sigma l)) (fun b => j' (rename_branch sigma tau b)) b.
Proof. unfold law. change (el (rename_branch sigma tau b)) with (rename_elem tau (el b)).
  rewrite ren_eY, ren_eI, ren_eV. unfold bvolt. simpl. tauto. Qed.

Lemma kcl_rename sigma tau n j' node : wf n -> inj_on (node_labels n) sigma -> In node (node_labels n) ->
  kcl_sum (branches (rename_net sigma tau n)) j' (sigma node)
  = kcl_sum (branches n) (fun b => j' (rename_branch sigma tau b)) node.
Proof. intros WF Hs Hn. unfold kcl_sum. simpl. rewrite sumF_map. apply sumF_ext_in. intros b Hb.
  change (node1 (rename_branch sigma tau b)) with (sigma (node1 b)).
  change (node2 (rename_branch sigma tau b)) with (sigma (node2 b)).
  rewrite (eqb_inj_on (node_labels n) sigma (node1 b) node Hs (node1_label n b WF Hb) Hn).
  rewrite (eqb_inj_on (node_labels n) sigma (node2 b) node Hs (node2_label n b WF Hb) Hn).
  reflexivity. Qed.

Lemma wf_rename sigma tau n : wf n -> inj_on (node_labels n) sigma -> inj_on (branch_ids n) tau ->
  wf (rename_net sigma tau n).
Proof. intros WF Hs Ht. pose proof WF as [ND [Hz NL]]. split; [|split].
  - unfold branch_ids. simpl. rewrite map_map.
    rewrite (map_ext _ (fun b => tau (bid b))) by (intros b; apply bid_rb).
    rewrite <- (map_map bid tau). apply NoDup_map_inj_on; assumption.
  - intros Hne. change (In (zero (rename_net sigma tau n)) (endpoints (rename_net sigma tau n))).
    rewrite endpoints_rename. simpl. apply in_map. apply Hz. intros E. apply Hne. simpl. rewrite E. reflexivity.
  - intros b' Hb'. simpl in Hb'. apply in_map_iff in Hb'. destruct Hb' as [b [<- Hb]]. simpl. intros E.
    apply (NL b Hb). apply Hs; [apply node1_label|apply node2_label|]; assumption.
Qed.

Lemma labels_rename sigma tau n l' : wf n -> wf (rename_net sigma tau n) ->
  (In l' (node_labels (rename_net sigma tau n)) <-> exists l, In l (node_labels n) /\ l' = sigma l).
Proof. intros WF WF'. rewrite (labels_wf _ WF'), endpoints_rename, in_map_iff. simpl. split.
  - intros [->|[l [<- Hl]]].
    + exists (zero n). split; [apply zero_label; exact WF|reflexivity].
    + exists l. split; [apply (labels_wf n WF); right; exact Hl|reflexivity].
  - intros [l [Hl ->]]. apply (labels_wf n WF) in Hl. destruct Hl as [->|Hl]; [left; reflexivity|right].
    exists l. split; [reflexivity|exact Hl].
Qed.

(* pull-back: a solution of the renamed circuit, read through the renaming, solves the original *)
Lemma rename_pullback sigma tau n phi' j' : wf n -> inj_on (node_labels n) sigma ->
  CircuitSpec (rename_net sigma tau n) phi' j' ->
  CircuitSpec n (fun l => phi' (sigma l)) (fun b => j' (rename_branch sigma tau b)).
Proof. intros WF Hs [H0 [HK HL]]. split; [exact H0|]. split.
  - intros node. destruct (in_dec label_eq_dec node (endpoints n)) as [Hi|Hi].
    + rewrite <- (kcl_rename sigma tau n j' node WF Hs) by (apply (labels_wf n WF); right; exact Hi). apply HK.
    + apply (kcl_untouched K KOK n _ node Hi).
  - intros b Hb. apply law_rename. apply HL. simpl. apply in_map. exact Hb.
Qed.

(* push-forward: a solution of the original, transported along the renaming, solves the renamed circuit *)
Definition pf_phi (sigma : label -> label) (n : network K) (phi : label -> K) (l' : label) : K :=
  match find (fun l => label_eqb (sigma l) l') (node_labels n) with Some l => phi l | None => 0 end.
Definition pf_j (tau : label -> label) (n : network K) (j : branch K -> K) (b' : branch K) : K :=
  match find (fun b => label_eqb (tau (bid b)) (bid b')) (branches n) with Some b => j b | None => 0 end.

Lemma pf_phi_ok sigma n phi l : inj_on (node_labels n) sigma -> In l (node_labels n) ->
  pf_phi sigma n phi (sigma l) = phi l.
Proof. intros Hs Hl. unfold pf_phi.
  destruct (find (fun l0 => label_eqb (sigma l0) (sigma l)) (node_labels n)) as [l0|] eqn:F.
  - apply find_some in F. destruct F as [H0 E]. apply label_eqb_true in E. rewrite (Hs l0 l H0 Hl E). reflexivity.
  - exfalso. pose proof (find_none _ _ F l Hl) as E. simpl in E. rewrite label_eqb_refl in E. discriminate.
Qed.

Lemma pf_j_ok sigma tau n j b : wf n -> inj_on (branch_ids n) tau -> In b (branches n) ->
  pf_j tau n j (rename_branch sigma tau b) = j b.
Proof. intros WF Ht Hb. unfold pf_j. rewrite bid_rb.
  destruct (find (fun b0 => label_eqb (tau (bid b0)) (tau (bid b))) (branches n)) as [b0|] eqn:F.
  - apply find_some in F. destruct F as [H0 E]. apply label_eqb_true in E.
    assert (Eid : bid b0 = bid b).
    { apply Ht; [apply in_map; exact H0|apply in_map; exact Hb|exact E]. }
    rewrite (same_id n b0 b WF H0 Hb Eid). reflexivity.
  - exfalso. pose proof (find_none _ _ F b Hb) as E. simpl in E. rewrite label_eqb_refl in E. discriminate.
Qed.

Lemma rename_pushforward sigma tau n phi j : wf n -> inj_on (node_labels n) sigma -> inj_on (branch_ids n) tau ->
  CircuitSpec n phi j -> CircuitSpec (rename_net sigma tau n) (pf_phi sigma n phi) (pf_j tau n j).
Proof. intros WF Hs Ht [H0 [HK HL]]. pose proof (wf_rename sigma tau n WF Hs Ht) as WF'. split; [|split].
  - simpl. rewrite pf_phi_ok by (assumption || apply zero_label; assumption). exact H0.
  - intros node'. destruct (in_dec label_eq_dec node' (endpoints (rename_net sigma tau n))) as [Hi|Hi].
    + rewrite endpoints_rename in Hi. apply in_map_iff in Hi. destruct Hi as [node [<- Hn]].
      rewrite (kcl_rename sigma tau n _ node WF Hs) by (apply (labels_wf n WF); right; exact Hn).
      rewrite <- (HK node). unfold kcl_sum. apply sumF_ext_in. intros b Hb.
      rewrite (pf_j_ok sigma tau n j b WF Ht Hb). reflexivity.
    + apply (kcl_untouched K KOK _ _ node' Hi).
  - intros b' Hb'. simpl in Hb'. apply in_map_iff in Hb'. destruct Hb' as [b [<- Hb]].
    apply law_rename. apply (law_ext phi _ j _ b); [| | |exact (HL b Hb)].
    + symmetry. apply pf_phi_ok; [exact Hs|apply node1_label; assumption].
    + symmetry. apply pf_phi_ok; [exact Hs|apply node2_label; assumption].
    + symmetry. apply pf_j_ok; assumption.
Qed.

Theorem wellposed_rename sigma tau n : wf n -> inj_on (node_labels n) sigma -> inj_on (branch_ids n) tau ->
  (WellPosed n <-> WellPosed (rename_net sigma tau n)).
Proof. intros WF Hs Ht. pose proof (wf_rename sigma tau n WF Hs Ht) as WF'. split.
  - intros [[phi [j C]] U]. split.
    + exists (pf_phi sigma n phi), (pf_j tau n j). apply rename_pushforward; assumption.
    + intros phi1 j1 phi2 j2 C1 C2.
      destruct (U _ _ _ _ (rename_pullback sigma tau n phi1 j1 WF Hs C1) (rename_pullback sigma tau n phi2 j2 WF Hs C2))
        as [Hp Hj]. split.
      * intros l' Hl'. apply (labels_rename sigma tau n l' WF WF') in Hl'. destruct Hl' as [l [Hl ->]]. exact (Hp l Hl).
      * intros b' Hb'. simpl in Hb'. apply in_map_iff in Hb'. destruct Hb' as [b [<- Hb]]. exact (Hj b Hb).
  - intros [[phi' [j' C']] U']. split.
    + exists (fun l => phi' (sigma l)), (fun b => j' (rename_branch sigma tau b)). apply rename_pullback; assumption.
    + intros phi1 j1 phi2 j2 C1 C2.
      destruct (U' _ _ _ _ (rename_pushforward sigma tau n phi1 j1 WF Hs Ht C1)
                           (rename_pushforward sigma tau n phi2 j2 WF Hs Ht C2)) as [Hp Hj]. split.
      * intros l Hl. rewrite <- (pf_phi_ok sigma n phi1 l Hs Hl), <- (pf_phi_ok sigma n phi2 l Hs Hl).
        apply Hp. apply (labels_rename sigma tau n _ WF WF'). exists l. split; [exact Hl|reflexivity].
      * intros b Hb. rewrite <- (pf_j_ok sigma tau n j1 b WF Ht Hb), <- (pf_j_ok sigma tau n j2 b WF Ht Hb).
        apply Hj. simpl. apply in_map. exact Hb.
Qed.

Theorem rename_invariant sigma tau n x x' : wf n -> WellPosed n ->
  inj_on (node_labels n) sigma -> inj_on (branch_ids n) tau ->
  solves n x -> solves (rename_net sigma tau n) x' ->
  (forall l, In l (node_labels n) -> phi_of (rename_net sigma tau n) x' (sigma l) = phi_of n x l)
  /\ (forall b, In b (branches n) ->
        flow_of (rename_net sigma tau n) x' (rename_branch sigma tau b) = flow_of n x b
        /\ bvolt (phi_of (rename_net sigma tau n) x') (rename_branch sigma tau b) = bvolt (phi_of n x) b
        /\ reported (rename_net sigma tau n) x' (rename_branch sigma tau b) = reported n x b
        /\ power_of (rename_net sigma tau n) x' (rename_branch sigma tau b) = power_of n x b).
Proof. intros WF WP Hs Ht S S'. pose proof (wf_rename sigma tau n WF Hs Ht) as WF'.
  destruct (transfer n (rename_net sigma tau n) x x'
              (fun phi l => phi (sigma l)) (fun j b => j (rename_branch sigma tau b)) WF WF' WP S S'
              (fun phi j => rename_pullback sigma tau n phi j WF Hs)) as [Hp Hj].
  split; [intros l Hl; symmetry; exact (Hp l Hl)|].
  intros b Hb.
  assert (F : flow_of (rename_net sigma tau n) x' (rename_branch sigma tau b) = flow_of n x b)
    by (symmetry; exact (Hj b Hb)).
  assert (V : bvolt (phi_of (rename_net sigma tau n) x') (rename_branch sigma tau b) = bvolt (phi_of n x) b).
  { unfold bvolt. simpl. rewrite (Hp _ (node1_label n b WF Hb)), (Hp _ (node2_label n b WF Hb)). reflexivity. }
  assert (R : reported (rename_net sigma tau n) x' (rename_branch sigma tau b) = reported n x b).
  { unfold reported. change (el (rename_branch sigma tau b)) with (rename_elem tau (el b)).
    rewrite ren_linear, F. reflexivity. }
  split; [exact F|]. split; [exact V|]. split; [exact R|]. unfold power_of. rewrite V, R. reflexivity.
Qed.

Theorem rename_api sigma tau n s s' : wf n -> WellPosed n ->
  inj_on (node_labels n) sigma -> inj_on (branch_ids n) tau ->
  solve_network n = Ok s -> solve_network (rename_net sigma tau n) = Ok s' ->
  (forall l, In l (node_labels n) -> get_potential s' (sigma l) = get_potential s l)
  /\ (forall b, In b (branches n) ->
        get_voltage s' (tau (bid b)) = get_voltage s (bid b)
        /\ get_current s' (tau (bid b)) = get_current s (bid b)
        /\ get_power s' (tau (bid b)) = get_power s (bid b)).
Proof. intros WF WP Hs Ht E E'. pose proof (wf_rename sigma tau n WF Hs Ht) as WF'.
  destruct (solved_unpack n s WF E) as [x [-> S]]. destruct (solved_unpack _ s' WF' E') as [x' [-> S']].
  destruct (rename_invariant sigma tau n x x' WF WP Hs Ht S S') as [Hp Hb]. split.
  - intros l Hl. rewrite (api_pot n x l Hl).
    rewrite api_pot by (apply (labels_rename sigma tau n _ WF WF'); exists l; split; [exact Hl|reflexivity]).
    rewrite (Hp l Hl). reflexivity.
  - intros b Hin. destruct (Hb b Hin) as [F [V [R P]]].
    assert (Hin' : In (rename_branch sigma tau b) (branches (rename_net sigma tau n))) by (simpl; apply in_map; exact Hin).
    rewrite <- (bid_rb sigma tau b).
    rewrite (api_voltage K _ WF' x' _ Hin'), (api_voltage K n WF x b Hin).
    rewrite (api_current K KOK _ WF' x' _ Hin'), (api_current K KOK n WF x b Hin).
    rewrite (api_power K KOK _ WF' x' _ Hin'), (api_power K KOK n WF x b Hin).
    rewrite V, R. auto.
Qed.

(* the same with globally injective renamings *)
Corollary rename_invariant_inj sigma tau n x x' : wf n -> WellPosed n ->
  (forall a a', sigma a = sigma a' -> a = a') -> (forall a a', tau a = tau a' -> a = a') ->
  solves n x -> solves (rename_net sigma tau n) x' ->
  (forall l, In l (node_labels n) -> phi_of (rename_net sigma tau n) x' (sigma l) = phi_of n x l)
  /\ (forall b, In b (branches n) ->
        flow_of (rename_net sigma tau n) x' (rename_branch sigma tau b) = flow_of n x b
        /\ bvolt (phi_of (rename_net sigma tau n) x') (rename_branch sigma tau b) = bvolt (phi_of n x) b
        /\ reported (rename_net sigma tau n) x' (rename_branch sigma tau b) = reported n x b
        /\ power_of (rename_net sigma tau n) x' (rename_branch sigma tau b) = power_of n x b).
Proof. intros WF WP Hs Ht. apply rename_invariant; try assumption; apply inj_inj_on; assumption. Qed.

Corollary rename_api_inj sigma tau n s s' : wf n -> WellPosed n ->
  (forall a a', sigma a = sigma a' -> a = a') -> (forall a a', tau a = tau a' -> a = a') ->
  solve_network n = Ok s -> solve_network (rename_net sigma tau n) = Ok s' ->
  (forall l, In l (node_labels n) -> get_potential s' (sigma l) = get_potential s l)
  /\ (forall b, In b (branches n) ->
        get_voltage s' (tau (bid b)) = get_voltage s (bid b)
        /\ get_current s' (tau (bid b)) = get_current s (bid b)
        /\ get_power s' (tau (bid b)) = get_power s (bid b)).
Proof. intros WF WP Hs Ht. apply rename_api; try assumption; apply inj_inj_on; assumption. Qed.

Corollary wf_rename_inj sigma tau n : wf n ->
  (forall a a', sigma a = sigma a' -> a = a') -> (forall a a', tau a = tau a' -> a = a') ->
  wf (rename_net sigma tau n).
Proof. intros WF Hs Ht. apply wf_rename; try assumption; apply inj_inj_on; assumption. Qed.

(* ====================== 2. permuting the branch list ====================== *)
Lemma perm_spec (n n' : network K) phi j : Permutation (branches n) (branches n') -> zero n' = zero n ->
  CircuitSpec n' phi j -> CircuitSpec n phi j.
Proof. intros P Z [H0 [HK HL]]. split; [rewrite <- Z; exact H0|]. split.
  - intros node. unfold kcl_sum. rewrite (sumF_perm KOK _ _ _ P). apply HK.
  - intros b Hb. apply HL. apply (Permutation_in _ P). exact Hb. Qed.

Lemma endpoints_perm (n n' : network K) : Permutation (branches n) (branches n') ->
  Permutation (endpoints n) (endpoints n').
Proof. intros P. unfold endpoints. apply Permutation_app; apply Permutation_map; exact P. Qed.

Lemma wf_perm (n n' : network K) : wf n -> Permutation (branches n) (branches n') -> zero n' = zero n -> wf n'.
Proof. intros [ND [Hz NL]] P Z. split; [|split].
  - unfold branch_ids in *. apply (Permutation_NoDup (Permutation_map bid P)). exact ND.
  - intros Hne. rewrite Z. apply (Permutation_in _ (endpoints_perm n n' P)). apply Hz.
    intros E. rewrite E in P. apply Permutation_nil in P. contradiction.
  - intros b Hb. apply NL. apply (Permutation_in _ (Permutation_sym P)). exact Hb. Qed.

Lemma labels_perm (n n' : network K) l : wf n -> Permutation (branches n) (branches n') -> zero n' = zero n ->
  (In l (node_labels n') <-> In l (node_labels n)).
Proof. intros WF P Z. rewrite (labels_wf n WF), (labels_wf n' (wf_perm n n' WF P Z)), Z.
  split; (intros [H|H]; [left; exact H|right]).
  - apply (Permutation_in _ (Permutation_sym (endpoints_perm n n' P))). exact H.
  - apply (Permutation_in _ (endpoints_perm n n' P)). exact H. Qed.

Theorem wellposed_perm (n n' : network K) : wf n -> Permutation (branches n) (branches n') -> zero n' = zero n ->
  WellPosed n -> WellPosed n'.
Proof. intros WF P Z [[phi [j C]] U]. split.
  - exists phi, j. apply (perm_spec n' n phi j (Permutation_sym P) (eq_sym Z) C).
  - intros phi1 j1 phi2 j2 C1 C2.
    destruct (U _ _ _ _ (perm_spec n n' phi1 j1 P Z C1) (perm_spec n n' phi2 j2 P Z C2)) as [Hp Hj]. split.
    + intros l Hl. apply Hp. apply (labels_perm n n' l WF P Z). exact Hl.
    + intros b Hb. apply Hj. apply (Permutation_in _ (Permutation_sym P)). exact Hb. Qed.

Theorem perm_invariant (n n' : network K) x x' : wf n -> WellPosed n ->
  Permutation (branches n) (branches n') -> zero n' = zero n ->
  solves n x -> solves n' x' ->
  (forall l, In l (node_labels n) -> phi_of n' x' l = phi_of n x l)
  /\ (forall b, In b (branches n) ->
        flow_of n' x' b = flow_of n x b
        /\ bvolt (phi_of n' x') b = bvolt (phi_of n x) b
        /\ reported n' x' b = reported n x b
        /\ power_of n' x' b = power_of n x b).
Proof. intros WF WP P Z S S'. pose proof (wf_perm n n' WF P Z) as WF'.
  destruct (transfer n n' x x' (fun phi => phi) (fun j => j) WF WF' WP S S'
              (fun phi j => perm_spec n n' phi j P Z)) as [Hp Hj].
  split; [intros l Hl; symmetry; exact (Hp l Hl)|].
  intros b Hb.
  assert (F : flow_of n' x' b = flow_of n x b) by (symmetry; exact (Hj b Hb)).
  assert (V : bvolt (phi_of n' x') b = bvolt (phi_of n x) b).
  { unfold bvolt. rewrite (Hp _ (node1_label n b WF Hb)), (Hp _ (node2_label n b WF Hb)). reflexivity. }
  assert (R : reported n' x' b = reported n x b) by (unfold reported; rewrite F; reflexivity).
  split; [exact F|]. split; [exact V|]. split; [exact R|]. unfold power_of. rewrite V, R. reflexivity.
Qed.

Theorem perm_api (n n' : network K) s s' : wf n -> WellPosed n ->
  Permutation (branches n) (branches n') -> zero n' = zero n ->
  solve_network n = Ok s -> solve_network n' = Ok s' ->
  (forall l, In l (node_labels n) -> get_potential s' l = get_potential s l)
  /\ (forall b, In b (branches n) ->
        get_voltage s' (bid b) = get_voltage s (bid b)
        /\ get_current s' (bid b) = get_current s (bid b)
        /\ get_power s' (bid b) = get_power s (bid b)).
Proof. intros WF WP P Z E E'. pose proof (wf_perm n n' WF P Z) as WF'.
  destruct (solved_unpack n s WF E) as [x [-> S]]. destruct (solved_unpack n' s' WF' E') as [x' [-> S']].
  destruct (perm_invariant n n' x x' WF WP P Z S S') as [Hp Hb]. split.
  - intros l Hl. rewrite (api_pot n x l Hl).
    rewrite api_pot by (apply (labels_perm n n' l WF P Z); exact Hl).
    rewrite (Hp l Hl). reflexivity.
  - intros b Hin. destruct (Hb b Hin) as [F [V [R Pw]]].
    assert (Hin' : In b (branches n')) by (apply (Permutation_in _ P); exact Hin).
    rewrite (api_voltage K _ WF' x' _ Hin'), (api_voltage K n WF x b Hin).
    rewrite (api_current K KOK _ WF' x' _ Hin'), (api_current K KOK n WF x b Hin).
    rewrite (api_power K KOK _ WF' x' _ Hin'), (api_power K KOK n WF x b Hin).
    rewrite V, R. auto.
Qed.

(* ====================== 3. reversing terminals ====================== *)
Definition rev_elem (e : elem K) : elem K :=
  match e with ZV n k z v => ZV n k z (- v) | YI n k y i => YI n k y (- i) end.
Definition rev_branch (b : branch K) : branch K := Build_branch (node2 b) (node1 b) (rev_elem (el b)).
Definition rev_if (r : label -> bool) (b : branch K) : branch K := if r (bid b) then rev_branch b else b.
Definition reverse_net (r : label -> bool) (n : network K) : network K :=
  {| branches := map (rev_if r) (branches n); zero := zero n |}.
Definition flip (c : bool) (a : K) : K := if c then - a else a.

Lemma opp_eq0 (a : K) : (- a == 0) = (a == 0).
Proof. feq (- a) 0; feq a 0; try reflexivity; exfalso.
  - apply n. replace a with (- - a) by ring. rewrite e. ring.
  - apply n. rewrite e. ring. Qed.

Lemma rev_eY e : eY (rev_elem e) = eY e. Proof. destruct e; reflexivity. Qed.
Lemma rev_eZ e : eZ (rev_elem e) = eZ e. Proof. destruct e; reflexivity. Qed.
Lemma rev_eI e : opt0 (eI (rev_elem e)) = - opt0 (eI e).
Proof. destruct e as [nm k z v|nm k y i]; simpl; [|reflexivity]. feq z 0; simpl; [ring|field; assumption]. Qed.
Lemma rev_eV e : opt0 (eV (rev_elem e)) = - opt0 (eV e).
Proof. destruct e as [nm k z v|nm k y i]; simpl; [reflexivity|]. feq y 0; simpl; [ring|field; assumption]. Qed.
Lemma rev_ivs e : is_ideal_voltage_source (rev_elem e) = is_ideal_voltage_source e.
Proof. unfold is_ideal_voltage_source. destruct e as [nm k z v|nm k y i]; simpl; [reflexivity|].
  feq y 0; reflexivity. Qed.
Lemma rev_ics e : is_ideal_current_source (rev_elem e) = is_ideal_current_source e.
Proof. unfold is_ideal_current_source. destruct e as [nm k z v|nm k y i]; simpl; [|reflexivity].
  feq z 0; reflexivity. Qed.
Lemma rev_cs e : is_current_source (rev_elem e) = is_current_source e.
Proof. unfold is_current_source. destruct e as [nm k z v|nm k y i]; simpl.
  - feq z 0; simpl; [reflexivity|]. replace (- v / z) with (- (v / z)) by (field; assumption).
    rewrite opp_eq0. reflexivity.
  - rewrite opp_eq0. reflexivity. Qed.
Lemma rev_linear e : is_linear_source (rev_elem e) = is_linear_source e.
Proof. unfold is_linear_source. rewrite rev_ivs, rev_ics, rev_cs. reflexivity. Qed.

Lemma bid_rev b : bid (rev_branch b) = bid b.
Proof. unfold bid, rev_branch. simpl. destruct (el b); reflexivity. Qed.
Lemma bid_rev_if r b : bid (rev_if r b) = bid b.
Proof. unfold rev_if. destruct (r (bid b)); [apply bid_rev|reflexivity]. Qed.
Lemma bvolt_rev phi b : bvolt phi (rev_branch b) = - bvolt phi b.
Proof. unfold bvolt. simpl. ring. Qed.
Lemma rev_branch_invol b : rev_branch (rev_branch b) = b.
Proof. destruct b as [n1 n2 e]. unfold rev_branch. simpl. f_equal. destruct e; simpl; f_equal; ring. Qed.
Lemma rev_if_invol r b : rev_if r (rev_if r b) = b.
Proof. unfold rev_if at 1. rewrite bid_rev_if. unfold rev_if. destruct (r (bid b)); [apply rev_branch_invol|reflexivity]. Qed.
Lemma reverse_invol r n : reverse_net r (reverse_net r n) = n.
Proof. destruct n as [bs z]. unfold reverse_net. simpl. f_equal. rewrite map_map.
  rewrite <- (map_id bs) at 2. apply map_ext. intros b. apply rev_if_invol. Qed.
Lemma rev_if_linear r b : is_linear_source (el (rev_if r b)) = is_linear_source (el b).
Proof. unfold rev_if. destruct (r (bid b)); [apply rev_linear|reflexivity]. Qed.

Lemma flip_flip c a : flip c (flip c a) = a.
Proof. destruct c; simpl; [ring|reflexivity]. Qed.
Lemma flip_inj c (a a' : K) : flip c a = flip c a' -> a = a'.
Proof. intros H. rewrite <- (flip_flip c a), H. apply flip_flip. Qed.

Lemma ends_rev_if r b :
  (node1 (rev_if r b) = node1 b /\ node2 (rev_if r b) = node2 b)
  \/ (node1 (rev_if r b) = node2 b /\ node2 (rev_if r b) = node1 b).
Proof. unfold rev_if. destruct (r (bid b)); [right|left]; split; reflexivity. Qed.

Lemma endpoints_reverse r n l : In l (endpoints (reverse_net r n)) <-> In l (endpoints n).
Proof. unfold endpoints. simpl. rewrite !map_map, !in_app_iff, !in_map_iff. split.
  - intros [[b [E Hb]]|[b [E Hb]]]; destruct (ends_rev_if r b) as [[E1 E2]|[E1 E2]].
    + left. exists b. split; [congruence|exact Hb].
    + right. exists b. split; [congruence|exact Hb].
    + right. exists b. split; [congruence|exact Hb].
    + left. exists b. split; [congruence|exact Hb].
  - intros [[b [E Hb]]|[b [E Hb]]]; destruct (ends_rev_if r b) as [[E1 E2]|[E1 E2]].
    + left. exists b. split; [congruence|exact Hb].
    + right. exists b. split; [congruence|exact Hb].
    + right. exists b. split; [congruence|exact Hb].
    + left. exists b. split; [congruence|exact Hb].
Qed.

Lemma wf_reverse r n : wf n -> wf (reverse_net r n).
Proof. intros [ND [Hz NL]]. split; [|split].
  - unfold branch_ids in *. simpl. rewrite map_map. rewrite (map_ext _ bid) by (intros b; apply bid_rev_if). exact ND.
  - intros Hne. change (In (zero n) (endpoints (reverse_net r n))). apply endpoints_reverse. apply Hz.
    intros E. apply Hne. simpl. rewrite E. reflexivity.
  - intros b' Hb'. simpl in Hb'. apply in_map_iff in Hb'. destruct Hb' as [b [<- Hb]].
    pose proof (NL b Hb) as H. destruct (ends_rev_if r b) as [[E1 E2]|[E1 E2]]; congruence.
Qed.

Lemma labels_reverse r n l : wf n -> (In l (node_labels (reverse_net r n)) <-> In l (node_labels n)).
Proof. intros WF. rewrite (labels_wf n WF), (labels_wf _ (wf_reverse r n WF)), endpoints_reverse. simpl. reflexivity. Qed.

Lemma law_reverse r phi j' b :
  law phi j' (rev_if r b) <-> law phi (fun b => flip (r (bid b)) (j' (rev_if r b))) b.
Proof. unfold law. cbv beta. unfold rev_if, flip. destruct (r (bid b)); [|reflexivity].
  change (el (rev_branch b)) with (rev_elem (el b)).
  rewrite rev_eY, rev_eI, rev_eV, bvolt_rev. destruct (eY (el b)) as [y|].
  - split; intros H.
    + rewrite H. ring.
    + replace (j' (rev_branch b)) with (- - j' (rev_branch b)) by ring. rewrite H. ring.
  - split; intros H.
    + replace (bvolt phi b) with (- - bvolt phi b) by ring. rewrite H. ring.
    + rewrite H. reflexivity.
Qed.

Lemma kcl_reverse r n j' node :
  kcl_sum (branches (reverse_net r n)) j' node
  = kcl_sum (branches n) (fun b => flip (r (bid b)) (j' (rev_if r b))) node.
Proof. unfold kcl_sum. simpl. rewrite sumF_map. apply sumF_ext. intros b.
  unfold rev_if. destruct (r (bid b)); simpl; [|reflexivity].
  destruct (label_eqb (node1 b) node), (label_eqb (node2 b) node); ring. Qed.

Lemma reverse_pullback r n phi j' : CircuitSpec (reverse_net r n) phi j' ->
  CircuitSpec n phi (fun b => flip (r (bid b)) (j' (rev_if r b))).
Proof. intros [H0 [HK HL]]. split; [exact H0|]. split.
  - intros node. rewrite <- kcl_reverse. apply HK.
  - intros b Hb. apply law_reverse. apply HL. simpl. apply in_map. exact Hb. Qed.

Theorem wellposed_reverse r n : wf n -> WellPosed n -> WellPosed (reverse_net r n).
Proof. intros WF [[phi [j C]] U]. split.
  - rewrite <- (reverse_invol r n) in C. apply reverse_pullback in C. eauto.
  - intros phi1 j1 phi2 j2 C1 C2.
    destruct (U _ _ _ _ (reverse_pullback r n phi1 j1 C1) (reverse_pullback r n phi2 j2 C2)) as [Hp Hj]. split.
    + intros l Hl. apply Hp. apply (labels_reverse r n l WF). exact Hl.
    + intros b' Hb'. simpl in Hb'. apply in_map_iff in Hb'. destruct Hb' as [b [<- Hb]].
      apply (flip_inj (r (bid b))). exact (Hj b Hb). Qed.

Theorem reverse_invariant r n x x' : wf n -> WellPosed n ->
  solves n x -> solves (reverse_net r n) x' ->
  (forall l, In l (node_labels n) -> phi_of (reverse_net r n) x' l = phi_of n x l)
  /\ (forall b, In b (branches n) ->
        flow_of (reverse_net r n) x' (rev_if r b) = flip (r (bid b)) (flow_of n x b)
        /\ bvolt (phi_of (reverse_net r n) x') (rev_if r b) = flip (r (bid b)) (bvolt (phi_of n x) b)
        /\ reported (reverse_net r n) x' (rev_if r b) = flip (r (bid b)) (reported n x b)
        /\ power_of (reverse_net r n) x' (rev_if r b) = power_of n x b).
Proof. intros WF WP S S'. pose proof (wf_reverse r n WF) as WF'.
  destruct (transfer n (reverse_net r n) x x' (fun phi => phi) (fun j b => flip (r (bid b)) (j (rev_if r b)))
              WF WF' WP S S' (fun phi j => reverse_pullback r n phi j)) as [Hp Hj].
  split; [intros l Hl; symmetry; exact (Hp l Hl)|].
  intros b Hb.
  assert (F : flow_of (reverse_net r n) x' (rev_if r b) = flip (r (bid b)) (flow_of n x b)).
  { rewrite (Hj b Hb). symmetry. apply flip_flip. }
  assert (V : bvolt (phi_of (reverse_net r n) x') (rev_if r b) = flip (r (bid b)) (bvolt (phi_of n x) b)).
  { unfold rev_if, flip. destruct (r (bid b)); [rewrite bvolt_rev|]; unfold bvolt;
      rewrite (Hp _ (node1_label n b WF Hb)), (Hp _ (node2_label n b WF Hb)); reflexivity. }
  assert (R : reported (reverse_net r n) x' (rev_if r b) = flip (r (bid b)) (reported n x b)).
  { unfold reported. rewrite rev_if_linear, F. unfold flip.
    destruct (is_linear_source (el b)), (r (bid b)); reflexivity. }
  split; [exact F|]. split; [exact V|]. split; [exact R|]. unfold power_of. rewrite V, R.
  unfold flip. destruct (r (bid b)); [|reflexivity]. rewrite (conj_opp KOK). ring.
Qed.

(* the same, spelled out: reversed branches / untouched branches *)
Corollary reverse_invariant_explicit r n x x' : wf n -> WellPosed n ->
  solves n x -> solves (reverse_net r n) x' ->
  (forall l, In l (node_labels n) -> phi_of (reverse_net r n) x' l = phi_of n x l)
  /\ (forall b, In b (branches n) -> r (bid b) = true ->
        In (rev_branch b) (branches (reverse_net r n))
        /\ flow_of (reverse_net r n) x' (rev_branch b) = - flow_of n x b
        /\ bvolt (phi_of (reverse_net r n) x') (rev_branch b) = - bvolt (phi_of n x) b
        /\ reported (reverse_net r n) x' (rev_branch b) = - reported n x b
        /\ power_of (reverse_net r n) x' (rev_branch b) = power_of n x b)
  /\ (forall b, In b (branches n) -> r (bid b) = false ->
        In b (branches (reverse_net r n))
        /\ flow_of (reverse_net r n) x' b = flow_of n x b
        /\ bvolt (phi_of (reverse_net r n) x') b = bvolt (phi_of n x) b
        /\ reported (reverse_net r n) x' b = reported n x b
        /\ power_of (reverse_net r n) x' b = power_of n x b).
Proof. intros WF WP S S'. destruct (reverse_invariant r n x x' WF WP S S') as [Hp Hb].
  split; [exact Hp|]. split.
  - intros b Hin Er. pose proof (Hb b Hin) as H.
    assert (Hin' : In (rev_if r b) (branches (reverse_net r n))) by (simpl; apply in_map; exact Hin).
    unfold rev_if in H, Hin'. rewrite Er in H, Hin'. simpl in H. split; [exact Hin'|exact H].
  - intros b Hin Er. pose proof (Hb b Hin) as H.
    assert (Hin' : In (rev_if r b) (branches (reverse_net r n))) by (simpl; apply in_map; exact Hin).
    unfold rev_if in H, Hin'. rewrite Er in H, Hin'. simpl in H. split; [exact Hin'|exact H].
Qed.

Theorem reverse_api r n s s' : wf n -> WellPosed n ->
  solve_network n = Ok s -> solve_network (reverse_net r n) = Ok s' ->
  (forall l, In l (node_labels n) -> get_potential s' l = get_potential s l)
  /\ (forall b, In b (branches n) -> exists v i,
        get_voltage s (bid b) = Ok v /\ get_current s (bid b) = Ok i /\ get_power s (bid b) = Ok (v * fconj K i)
        /\ get_voltage s' (bid b) = Ok (flip (r (bid b)) v)
        /\ get_current s' (bid b) = Ok (flip (r (bid b)) i)
        /\ get_power s' (bid b) = Ok (v * fconj K i)).
Proof. intros WF WP E E'. pose proof (wf_reverse r n WF) as WF'.
  destruct (solved_unpack n s WF E) as [x [-> S]]. destruct (solved_unpack _ s' WF' E') as [x' [-> S']].
  destruct (reverse_invariant r n x x' WF WP S S') as [Hp Hb]. split.
  - intros l Hl. rewrite (api_pot n x l Hl).
    rewrite api_pot by (apply (labels_reverse r n l WF); exact Hl).
    rewrite (Hp l Hl). reflexivity.
  - intros b Hin. destruct (Hb b Hin) as [F [V [R P]]].
    assert (Hin' : In (rev_if r b) (branches (reverse_net r n))) by (simpl; apply in_map; exact Hin).
    exists (bvolt (phi_of n x) b), (reported n x b).
    pose proof (api_voltage K _ WF' x' _ Hin') as A1. pose proof (api_current K KOK _ WF' x' _ Hin') as A2.
    pose proof (api_power K KOK _ WF' x' _ Hin') as A3.
    fold (power_of (reverse_net r n) x' (rev_if r b)) in A3.
    rewrite bid_rev_if in A1, A2, A3. rewrite V in A1. rewrite R in A2. rewrite P in A3.
    split; [exact (api_voltage K n WF x b Hin)|]. split; [exact (api_current K KOK n WF x b Hin)|].
    split; [exact (api_power K KOK n WF x b Hin)|]. split; [exact A1|]. split; [exact A2|exact A3].
Qed.

(* ====================== 4. moving the reference node ====================== *)
Definition reground (g : label) (n : network K) : network K := {| branches := branches n; zero := g |}.

Lemma bvolt_shift (phi : label -> K) c b : bvolt (fun l => phi l - c) b = bvolt phi b.
Proof. unfold bvolt. ring. Qed.

Lemma reground_pullback g n phi' j' : CircuitSpec (reground g n) phi' j' ->
  CircuitSpec n (fun l => phi' l - phi' (zero n)) j'.
Proof. intros [H0 [HK HL]]. split; [ring|]. split; [exact HK|].
  intros b Hb. specialize (HL b Hb). unfold law in *. rewrite bvolt_shift. exact HL. Qed.

Lemma wf_reground g n : wf n -> In g (node_labels n) -> wf (reground g n).
Proof. intros [ND [Hz NL]] Hg. split; [exact ND|]. split; [|exact NL].
  simpl. intros Hne. apply (node_labels_In K n g Hne). exact Hg. Qed.

Lemma labels_reground g n : In g (node_labels n) -> node_labels (reground g n) = node_labels n.
Proof. unfold node_labels. simpl. destruct (branches n); [|reflexivity].
  intros [<-|[]]. reflexivity. Qed.

Lemma reground_back g n : reground (zero n) (reground g n) = n.
Proof. destruct n; reflexivity. Qed.

Theorem wellposed_reground g n : wf n -> In g (node_labels n) -> WellPosed n -> WellPosed (reground g n).
Proof. intros WF Hg [[phi [j C]] U]. split.
  - rewrite <- (reground_back g n) in C. apply reground_pullback in C. eauto.
  - intros phi1 j1 phi2 j2 C1 C2.
    destruct (U _ _ _ _ (reground_pullback g n phi1 j1 C1) (reground_pullback g n phi2 j2 C2)) as [Hp Hj].
    split; [|exact Hj].
    rewrite (labels_reground g n Hg). intros l Hl.
    pose proof (proj1 C1) as G1. pose proof (proj1 C2) as G2. simpl in G1, G2.
    pose proof (Hp g Hg) as Eg. pose proof (Hp l Hl) as El. cbv beta in Eg, El. rewrite G1, G2 in Eg.
    assert (Ez : phi1 (zero n) = phi2 (zero n)).
    { replace (phi1 (zero n)) with (- (0 - phi1 (zero n))) by ring. rewrite Eg. ring. }
    replace (phi1 l) with ((phi1 l - phi1 (zero n)) + phi1 (zero n)) by ring. rewrite El, Ez. ring.
Qed.

Theorem reground_invariant g n x x' : wf n -> WellPosed n -> In g (node_labels n) ->
  solves n x -> solves (reground g n) x' ->
  (forall l, In l (node_labels n) -> phi_of (reground g n) x' l = phi_of n x l - phi_of n x g)
  /\ (forall b, In b (branches n) ->
        flow_of (reground g n) x' b = flow_of n x b
        /\ bvolt (phi_of (reground g n) x') b = bvolt (phi_of n x) b
        /\ reported (reground g n) x' b = reported n x b
        /\ power_of (reground g n) x' b = power_of n x b).
Proof. intros WF WP Hg S S'. pose proof (wf_reground g n WF Hg) as WF'.
  destruct (transfer n (reground g n) x x' (fun phi l => phi l - phi (zero n)) (fun j => j)
              WF WF' WP S S' (fun phi j => reground_pullback g n phi j)) as [Hp Hj].
  cbv beta in Hp, Hj.
  assert (G0 : phi_of (reground g n) x' g = 0) by (apply (phi_zero K (reground g n) x')).
  assert (Hshift : forall l, In l (node_labels n) -> phi_of (reground g n) x' l = phi_of n x l - phi_of n x g).
  { intros l Hl. rewrite (Hp l Hl), (Hp g Hg), G0. ring. }
  split; [exact Hshift|].
  intros b Hb.
  assert (F : flow_of (reground g n) x' b = flow_of n x b) by (symmetry; exact (Hj b Hb)).
  assert (V : bvolt (phi_of (reground g n) x') b = bvolt (phi_of n x) b).
  { unfold bvolt. rewrite (Hshift _ (node1_label n b WF Hb)), (Hshift _ (node2_label n b WF Hb)). ring. }
  assert (R : reported (reground g n) x' b = reported n x b) by (unfold reported; rewrite F; reflexivity).
  split; [exact F|]. split; [exact V|]. split; [exact R|]. unfold power_of. rewrite V, R. reflexivity.
Qed.

Theorem reground_api g n s s' : wf n -> WellPosed n -> In g (node_labels n) ->
  solve_network n = Ok s -> solve_network (reground g n) = Ok s' ->
  (forall l, In l (node_labels n) -> exists p pg,
        get_potential s l = Ok p /\ get_potential s g = Ok pg /\ get_potential s' l = Ok (p - pg))
  /\ (forall b, In b (branches n) ->
        get_voltage s' (bid b) = get_voltage s (bid b)
        /\ get_current s' (bid b) = get_current s (bid b)
        /\ get_power s' (bid b) = get_power s (bid b)).
Proof. intros WF WP Hg E E'. pose proof (wf_reground g n WF Hg) as WF'.
  destruct (solved_unpack n s WF E) as [x [-> S]]. destruct (solved_unpack _ s' WF' E') as [x' [-> S']].
  destruct (reground_invariant g n x x' WF WP Hg S S') as [Hp Hb]. split.
  - intros l Hl. exists (phi_of n x l), (phi_of n x g).
    rewrite (api_pot n x l Hl), (api_pot n x g Hg).
    rewrite api_pot by (rewrite (labels_reground g n Hg); exact Hl).
    rewrite (Hp l Hl). auto.
  - intros b Hin. destruct (Hb b Hin) as [F [V [R P]]].
    assert (Hin' : In b (branches (reground g n))) by exact Hin.
    rewrite (api_voltage K _ WF' x' _ Hin'), (api_voltage K n WF x b Hin).
    rewrite (api_current K KOK _ WF' x' _ Hin'), (api_current K KOK n WF x b Hin).
    rewrite (api_power K KOK _ WF' x' _ Hin'), (api_power K KOK n WF x b Hin).
    rewrite V, R. auto.
Qed.

End Invariance.

Arguments power_of {K}.
Arguments rename_elem {K}. Arguments rename_branch {K}. Arguments rename_net {K}.
Arguments rev_elem {K}. Arguments rev_branch {K}. Arguments rev_if {K}. Arguments reverse_net {K}.
Arguments flip {K}. Arguments reground {K}.
Arguments pf_phi {K}. Arguments pf_j {K}.
