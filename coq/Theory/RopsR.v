(* Theory/RopsR.v — the instance of [rops] at Coq's real numbers, used for the Fourier proofs of C08.
   [rmodR x T = x - T * floor (x / T)] is Python's float [%] / [np.mod] (result has the sign of the divisor). *)
From Coq Require Import Reals ZArith Lra Lia.
From CC Require Import Model.Rops.
Open Scope R_scope.

Definition rmodR (x T : R) : R := x - T * IZR (Int_part (x / T)).
Definition rltbR (x y : R) : bool := if Rlt_dec x y then true else false.

Definition ROps : rops :=
  {| RT := R; radd := Rplus; rsub := Rminus; rmul := Rmult; rdiv := Rdiv; ropp := Ropp; rofZ := IZR;
     rpi := PI; rcos := cos; rsin := sin; rmod := rmodR; rltb := rltbR |}.

Lemma Int_part_unique (x : R) (z : Z) : IZR z <= x -> x < IZR z + 1 -> Int_part x = z.
Proof.
  intros H1 H2. unfold Int_part.
  assert (E : (z + 1)%Z = up x) by (apply up_tech; [exact H1| rewrite plus_IZR; exact H2]).
  rewrite <- E. lia.
Qed.

Lemma Int_part_bounds (x : R) : IZR (Int_part x) <= x < IZR (Int_part x) + 1.
Proof. destruct (base_Int_part x) as [H1 H2]. lra. Qed.

Lemma Int_part_plus_Z (x : R) (k : Z) : Int_part (x + IZR k) = (Int_part x + k)%Z.
Proof.
  apply Int_part_unique; rewrite plus_IZR; destruct (Int_part_bounds x) as [H1 H2]; lra.
Qed.

Lemma rmodR_range (x T : R) : 0 < T -> 0 <= rmodR x T < T.
Proof.
  intros HT. unfold rmodR. destruct (Int_part_bounds (x / T)) as [H1 H2].
  set (q := IZR (Int_part (x / T))) in *.
  assert (E : x = T * (x / T)) by (field; lra).
  assert (L1 : T * q <= T * (x / T)) by (apply Rmult_le_compat_l; lra).
  assert (L2 : T * (x / T) < T * (q + 1)) by (apply Rmult_lt_compat_l; lra).
  rewrite <- E in L1, L2. lra.
Qed.

Lemma rmodR_small (x T : R) : 0 < T -> 0 <= x < T -> rmodR x T = x.
Proof.
  intros HT [H1 H2]. unfold rmodR.
  assert (E : Int_part (x / T) = 0%Z).
  { apply Int_part_unique.
    - apply Rmult_le_pos; [exact H1|]. apply Rlt_le, Rinv_0_lt_compat, HT.
    - rewrite Rplus_0_l. apply (Rmult_lt_reg_r T); [exact HT|]. replace (x / T * T) with x by (field; lra). lra. }
  rewrite E. ring.
Qed.

Lemma rmodR_plus_Z (x T : R) (k : Z) : 0 < T -> rmodR (x + IZR k * T) T = rmodR x T.
Proof.
  intros HT. unfold rmodR.
  replace ((x + IZR k * T) / T) with (x / T + IZR k) by (field; lra).
  rewrite Int_part_plus_Z, plus_IZR. ring.
Qed.

Lemma rmodR_period (x T : R) : 0 < T -> rmodR (x + T) T = rmodR x T.
Proof. intros HT. rewrite <- (rmodR_plus_Z x T 1 HT). f_equal. ring. Qed.

Lemma rmodR_decomp (x T : R) : x = rmodR x T + IZR (Int_part (x / T)) * T.
Proof. unfold rmodR. ring. Qed.
