(* Theory/Field.v — the carrier of all models: a record of field operations with a
   boolean equality and a conjugation, the laws assumed of it (a Prop-record, passed as a
   Section hypothesis — never an Axiom), and finite sums over lists. *)
From Coq Require Import List Bool Field Ring Permutation.
Import ListNotations.

Record fops := {
  car :> Type;
  f0 : car; f1 : car;
  fadd : car -> car -> car; fmul : car -> car -> car; fsub : car -> car -> car;
  fopp : car -> car; fdiv : car -> car -> car; finv : car -> car;
  feqb : car -> car -> bool;
  fconj : car -> car
}.

Record fops_ok (K : fops) : Prop := {
  Kth : field_theory (f0 K) (f1 K) (fadd K) (fmul K) (fsub K) (fopp K) (fdiv K) (finv K) (@eq K);
  Keqb : forall x y : K, feqb K x y = true <-> x = y;
  Kconj_add : forall x y : K, fconj K (fadd K x y) = fadd K (fconj K x) (fconj K y);
  Kconj_mul : forall x y : K, fconj K (fmul K x y) = fmul K (fconj K x) (fconj K y);
  Kconj_inv : forall x : K, fconj K (fconj K x) = x
}.

Declare Scope F_scope.
Delimit Scope F_scope with F.

Section Sums.
Context {K : fops}.
Hypothesis KOK : fops_ok K.
Add Field Kfield : (Kth K KOK).
Notation "0" := (f0 K). Notation "1" := (f1 K).
Infix "+" := (fadd K). Infix "*" := (fmul K). Infix "-" := (fsub K). Notation "- x" := (fopp K x).
Infix "/" := (fdiv K).

Lemma feqb_spec (x y : K) : reflect (x = y) (feqb K x y).
Proof. destruct (feqb K x y) eqn:E; constructor.
  - apply (Keqb K KOK); exact E.
  - intro H. apply (Keqb K KOK) in H. congruence. Qed.

Lemma feqb_refl (x : K) : feqb K x x = true.
Proof. apply (Keqb K KOK). reflexivity. Qed.

Lemma f1_neq_0 : 1 <> 0.
Proof. exact (F_1_neq_0 (Kth K KOK)). Qed.

Lemma conj_0 : fconj K 0 = 0.
Proof. assert (H := Kconj_add K KOK 0 0). replace (0 + 0) with 0 in H by ring.
  assert (fconj K 0 + fconj K 0 - fconj K 0 = fconj K 0 - fconj K 0) by (rewrite <- H; reflexivity).
  ring_simplify in H0. exact H0. Qed.

Lemma conj_opp (x : K) : fconj K (- x) = - fconj K x.
Proof. assert (H := Kconj_add K KOK x (- x)). replace (x + - x) with 0 in H by ring. rewrite conj_0 in H.
  assert (E : - fconj K x + 0 = - fconj K x + (fconj K x + fconj K (- x))) by (rewrite H; reflexivity).
  ring_simplify in E. symmetry. exact E. Qed.

Lemma conj_sub (x y : K) : fconj K (x - y) = fconj K x - fconj K y.
Proof. replace (x - y) with (x + - y) by ring. rewrite (Kconj_add K KOK), conj_opp. ring. Qed.

Fixpoint sumF {A} (f : A -> K) (l : list A) : K :=
  match l with [] => 0 | x :: r => f x + sumF f r end.

Lemma sumF_ext_in {A} (f g : A -> K) l : (forall x, In x l -> f x = g x) -> sumF f l = sumF g l.
Proof. induction l as [|x l IH]; simpl; intros H; [reflexivity|]. rewrite H by auto. rewrite IH; auto. Qed.
Lemma sumF_ext {A} (f g : A -> K) l : (forall x, f x = g x) -> sumF f l = sumF g l.
Proof. intros H; apply sumF_ext_in; auto. Qed.
Lemma sumF_add {A} (f g : A -> K) l : sumF (fun x => f x + g x) l = sumF f l + sumF g l.
Proof. induction l as [|x l IH]; simpl; [ring| rewrite IH; ring]. Qed.
Lemma sumF_sub {A} (f g : A -> K) l : sumF (fun x => f x - g x) l = sumF f l - sumF g l.
Proof. induction l as [|x l IH]; simpl; [ring| rewrite IH; ring]. Qed.
Lemma sumF_opp {A} (f : A -> K) l : sumF (fun x => - f x) l = - sumF f l.
Proof. induction l as [|x l IH]; simpl; [ring| rewrite IH; ring]. Qed.
Lemma sumF_scal_r {A} (f : A -> K) c l : sumF (fun x => f x * c) l = sumF f l * c.
Proof. induction l as [|x l IH]; simpl; [ring| rewrite IH; ring]. Qed.
Lemma sumF_scal_l {A} (f : A -> K) c l : sumF (fun x => c * f x) l = c * sumF f l.
Proof. induction l as [|x l IH]; simpl; [ring| rewrite IH; ring]. Qed.
Lemma sumF_zero {A} (l : list A) : sumF (fun _ => 0) l = 0.
Proof. induction l as [|x l IH]; simpl; [reflexivity| rewrite IH; ring]. Qed.
Lemma sumF_zero_in {A} (f : A -> K) (l : list A) : (forall x, In x l -> f x = 0) -> sumF f l = 0.
Proof. intros H. rewrite (sumF_ext_in f (fun _ => 0)) by exact H. apply sumF_zero. Qed.
Lemma sumF_app {A} (f : A -> K) l1 l2 : sumF f (l1 ++ l2) = sumF f l1 + sumF f l2.
Proof. induction l1 as [|x l IH]; simpl; [ring| rewrite IH; ring]. Qed.
Lemma sumF_map {A B} (g : A -> B) (f : B -> K) l : sumF f (map g l) = sumF (fun x => f (g x)) l.
Proof. induction l as [|x l IH]; simpl; [reflexivity| rewrite IH; reflexivity]. Qed.
Lemma sumF_filter {A} (p : A -> bool) (f : A -> K) l :
  sumF f (filter p l) = sumF (fun x => if p x then f x else 0) l.
Proof. induction l as [|x l IH]; simpl; [reflexivity|]. destruct (p x); simpl; rewrite IH; ring. Qed.
Lemma sumF_swap {A B} (f : A -> B -> K) la lb :
  sumF (fun a => sumF (fun b => f a b) lb) la = sumF (fun b => sumF (fun a => f a b) la) lb.
Proof.
  induction la as [|a la IH]; simpl.
  - rewrite sumF_zero. reflexivity.
  - rewrite IH. rewrite <- sumF_add. reflexivity.
Qed.
Lemma sumF_perm {A} (f : A -> K) l l' : Permutation l l' -> sumF f l = sumF f l'.
Proof. induction 1; simpl; try ring.
  - rewrite IHPermutation; reflexivity.
  - congruence. Qed.
Lemma sumF_conj {A} (f : A -> K) l : fconj K (sumF f l) = sumF (fun x => fconj K (f x)) l.
Proof. induction l as [|x l IH]; simpl; [apply conj_0|]. rewrite (Kconj_add K KOK), IH. reflexivity. Qed.

(* Σ over a duplicate-free list of an indicator picks exactly one term. *)
Lemma sumF_indicator {A} (eqb : A -> A -> bool) (eqb_ok : forall a b, reflect (a = b) (eqb a b))
  (g : A -> K) (o : A) l : NoDup l ->
  sumF (fun j => if eqb j o then g j else 0) l = if existsb (eqb o) l then g o else 0.
Proof.
  induction l as [|x l IH]; simpl; intros ND; [reflexivity|].
  inversion ND as [|? ? Hx ND']; subst. rewrite IH by assumption.
  destruct (eqb_ok x o) as [E|E]; destruct (eqb_ok o x) as [E'|E']; try congruence; simpl.
  - subst x. destruct (existsb (eqb o) l) eqn:E2.
    + apply existsb_exists in E2. destruct E2 as [y [Hy1 Hy2]].
      destruct (eqb_ok o y); [subst; contradiction|discriminate].
    + ring.
  - ring.
Qed.

Definition dot (u v : list K) : K := sumF (fun p => fst p * snd p) (combine u v).

Lemma dot_app (u1 u2 v1 v2 : list K) : length u1 = length v1 ->
  dot (u1 ++ u2) (v1 ++ v2) = dot u1 v1 + dot u2 v2.
Proof. unfold dot. revert v1. induction u1 as [|a u1 IH]; intros [|b v1] H; simpl in *; try discriminate.
  - ring. - injection H as H. rewrite IH by assumption. ring. Qed.

Lemma dot_map_zero {A} (l : list A) (v : list K) : dot (map (fun _ => 0) l) v = 0.
Proof. unfold dot. revert v. induction l as [|a l IH]; intros [|b v]; simpl; try reflexivity.
  rewrite IH. ring. Qed.

End Sums.

