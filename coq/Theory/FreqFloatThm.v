(* Theory/FreqFloatThm.v — what holds of [frequency_components] for ANY carrier and ANY comparison / floor / conversion
   functions (no field or order laws), hence also for its IEEE binary64 instance Model/FreqFloat.v that the harness runs bit for
   bit against circuit.py: the list invents nothing, and drops a contributed frequency only in favour of a listed one that the
   carrier's own `==` identifies with it. *)
From Coq Require Import List Bool ZArith.
From CC Require Import Theory.Field Model.Network Model.Circuit.
Import ListNotations.

Section Any.
Variable R : fops.
Variable leb : R -> R -> bool.
Variable ofZ : Z -> R.
Variable flr : R -> Z.

Lemma rinsert_sub x l w : In w (rinsert R leb x l) -> w = x \/ In w l.
Proof. induction l as [|y r IH]; simpl.
  - intros [H|[]]. left. symmetry. exact H.
  - destruct (feqb R x y) eqn:E; [intros H; right; exact H|].
    destruct (leb x y) eqn:L; simpl.
    + intros [H|H]; [left; symmetry; exact H|right; exact H].
    + intros [H|H]; [right; left; exact H|]. destruct (IH H) as [H'|H']; [left; exact H'|right; right; exact H']. Qed.

(* represented: listed itself, or identified by == with a listed value *)
Definition represented (w : R) (l : list R) : Prop := exists w', In w' l /\ (w' = w \/ feqb R w w' = true).

Lemma rinsert_keeps x l w : In w l -> In w (rinsert R leb x l).
Proof. induction l as [|y r IH]; simpl; [intros []|].
  destruct (feqb R x y) eqn:E; [intros H; exact H|].
  destruct (leb x y) eqn:L; simpl.
  - intros H. right. exact H.
  - intros [H|H]; [left; exact H|right; exact (IH H)]. Qed.

Lemma rinsert_new x l : represented x (rinsert R leb x l).
Proof. induction l as [|y r IH]; simpl.
  - exists x. split; [left; reflexivity|left; reflexivity].
  - destruct (feqb R x y) eqn:E.
    + exists y. split; [left; reflexivity|right; exact E].
    + destruct (leb x y) eqn:L.
      * exists x. split; [left; reflexivity|left; reflexivity].
      * destruct IH as [w' [Hw' Hr]]. exists w'. split; [right; exact Hw'|exact Hr]. Qed.

Lemma rsort_dedup_sub l w : In w (rsort_dedup R leb l) -> In w l.
Proof. unfold rsort_dedup. induction l as [|x l IH]; simpl; [intros []|]. intros H.
  destruct (rinsert_sub _ _ _ H) as [E|H']; [left; symmetry; exact E|right; exact (IH H')]. Qed.

Lemma rsort_dedup_represents l w : In w l -> represented w (rsort_dedup R leb l).
Proof. unfold rsort_dedup. induction l as [|x l IH]; simpl; [intros []|]. intros [E|H].
  - subst x. apply rinsert_new.
  - destruct (IH H) as [w' [Hw' Hr]]. exists w'. split; [apply rinsert_keeps; exact Hw'|exact Hr]. Qed.

Lemma mapM_forall2 {A B} (f : A -> res B) l ls : mapM f l = Ok ls -> Forall2 (fun a b => f a = Ok b) l ls.
Proof. revert ls. induction l as [|a l IH]; simpl; intros ls H.
  - injection H as <-. constructor.
  - destruct (f a) as [b|e] eqn:Fa; simpl in H; [|discriminate].
    destruct (mapM f l) as [bs|e] eqn:M; simpl in H; [|discriminate]. injection H as <-.
    constructor; [exact Fa|apply IH; reflexivity]. Qed.

Theorem freq_members_any (cs : list (comp R)) (wmax : R) (l : list R) :
  frequency_components R leb ofZ flr cs wmax = Ok l ->
  (forall w, In w l -> exists c ws, In c cs /\ comp_frequencies R ofZ flr c wmax = Ok ws /\ In w ws)
  /\ (forall c ws w, In c cs -> comp_frequencies R ofZ flr c wmax = Ok ws -> In w ws -> represented w l).
Proof. unfold frequency_components. intros H.
  destruct (mapM (fun c => comp_frequencies R ofZ flr c wmax) cs) as [ls|e] eqn:M; simpl in H; [|discriminate].
  injection H as <-. apply mapM_forall2 in M. split.
  - intros w Hw. apply rsort_dedup_sub in Hw. apply in_concat in Hw. destruct Hw as [ws [Hws Hw]].
    clear - M Hws Hw. induction M as [|c b cs' ls' Hc M IH]; [destruct Hws|].
    destruct Hws as [E|Hws].
    + subst b. exists c, ws. split; [left; reflexivity|split; assumption].
    + destruct (IH Hws) as [c' [ws' [Hc' [Hf Hw']]]]. exists c', ws'. split; [right; exact Hc'|split; assumption].
  - intros c ws w Hc Hf Hw. apply rsort_dedup_represents. apply in_concat. exists ws. split; [|exact Hw].
    clear - M Hc Hf. induction M as [|c' b cs' ls' Hc' M IH]; [destruct Hc|].
    destruct Hc as [E|Hc].
    + subst c'. rewrite Hf in Hc'. injection Hc' as <-. left. reflexivity.
    + right. exact (IH Hc). Qed.

End Any.
