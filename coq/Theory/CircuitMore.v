(* Theory/CircuitMore.v — hand-written model of the parts of Circuit/circuit.py and Circuit/solution.py that Model/Circuit.v and
   Theory/MultiFreq.v do not spell out, related to the existing definitions and theorems:
     Circuit.__getitem__                       [circuit_getitem]
     transform(circuit, w, w_resolution)       [transform]            (one transform_circuit per frequency)
     TimeDomainSolution                        [td_solutions], [td_terms], [td_voltage] ..., [td_power]; a time function is
                                               the list of its terms (X_k, w_k); its value at an instant is [timefn_eval]
     FrequencyDomainSolution.get_power         [fd_power]
     FrequencyDomainSolution.get_* result      [fd_result]: the pair (frequency axis, values), one- or two-sided
   and the monadic list lemmas used by Theory/CircuitGenThm.v.
   TimeDomainSolution transforms the circuit at every frequency first and solves afterwards, FrequencyDomainSolution
   transforms and solves frequency by frequency ([fd_solutions], Theory/MultiFreq.v): same values, but not always the same
   exception ([td_fd_outcome]). *)
From Coq Require Import List Bool NArith ZArith Arith String Lia.
From CC Require Import Theory.Field Theory.Complex Theory.Labels Model.Network Theory.Spec Model.Circuit Theory.CircuitThm
  Theory.MultiFreq Theory.TransformersGen.
Import ListNotations.

(* ====================================================================================================== *)
(* results and mapM                                                                                        *)
(* ====================================================================================================== *)
Lemma bind_assoc {A B D} (r : res A) (f : A -> res B) (g : B -> res D) :
  bind (bind r f) g = bind r (fun a => bind (f a) g).
Proof. destruct r; reflexivity. Qed.
Lemma bind_Ok_r {A} (r : res A) : bind r (fun a => Ok a) = r.
Proof. destruct r; reflexivity. Qed.
Lemma bind_ext {A B} (r : res A) (f g : A -> res B) : (forall a, f a = g a) -> bind r f = bind r g.
Proof. intros H. destruct r; simpl; auto. Qed.
Lemma map_res_bind {A B} (f : A -> B) (r : res A) : map_res f r = bind r (fun a => Ok (f a)).
Proof. destruct r; reflexivity. Qed.

Lemma same_outcome_trans {A} (r1 r2 r3 : res A) : same_outcome r1 r2 -> same_outcome r2 r3 -> same_outcome r1 r3.
Proof. destruct r1, r2, r3; simpl; try tauto; congruence. Qed.
Lemma same_outcome_bind {A B} (r1 r2 : res A) (f g : A -> res B) :
  same_outcome r1 r2 -> (forall a, same_outcome (f a) (g a)) -> same_outcome (bind r1 f) (bind r2 g).
Proof. destruct r1, r2; simpl; try tauto. intros -> H. apply H. Qed.
Lemma same_outcome_map_res {A B} (f : A -> B) (r1 r2 : res A) :
  same_outcome r1 r2 -> same_outcome (map_res f r1) (map_res f r2).
Proof. destruct r1, r2; simpl; try tauto. intros ->. reflexivity. Qed.

Lemma mapM_cons {A B} (f : A -> res B) a l :
  mapM f (a :: l) = bind (f a) (fun b => bind (mapM f l) (fun bs => Ok (b :: bs))).
Proof. reflexivity. Qed.
Lemma mapM_map {A A' B} (k : A -> A') (g : A' -> res B) l : mapM g (map k l) = mapM (fun a => g (k a)) l.
Proof. induction l as [|a l IH]; [reflexivity|]. cbn [map]. rewrite !mapM_cons, IH. reflexivity. Qed.
Lemma mapM_length {A B} (f : A -> res B) l bs : mapM f l = Ok bs -> List.length l = List.length bs.
Proof. intros H. apply mapM_ok in H. exact (Forall2_length' _ _ _ H). Qed.
Lemma mapM_pure {A B} (f : A -> B) l : mapM (fun a => Ok (f a)) l = Ok (map f l).
Proof. induction l as [|a l IH]; [reflexivity|]. rewrite mapM_cons, IH. reflexivity. Qed.

(* pair every input with its result *)
Definition zipw {A B D} (h : A -> B -> D) (l : list A) (bs : list B) : list D :=
  map (fun p => h (fst p) (snd p)) (combine l bs).
Lemma mapM_ret {A B D} (f : A -> res B) (h : A -> B -> D) l :
  mapM (fun a => bind (f a) (fun b => Ok (h a b))) l = map_res (zipw h l) (mapM f l).
Proof. induction l as [|a l IH]; [reflexivity|]. rewrite !mapM_cons, IH.
  destruct (f a) as [b|e]; [|reflexivity]. cbn [bind]. destruct (mapM f l) as [bs|e]; reflexivity. Qed.
Lemma mapM_snd_combine {A B D} (k : B -> res D) (l : list A) (bs : list B) : List.length l = List.length bs ->
  mapM (fun p => k (snd p)) (combine l bs) = mapM k bs.
Proof. revert bs. induction l as [|a l IH]; intros [|b bs] H; simpl in H; try discriminate; [reflexivity|].
  cbn [combine]. rewrite !mapM_cons. cbn [snd]. rewrite IH by lia. reflexivity. Qed.
Lemma mapM_pair_combine {A B D} (k : B -> res D) (l : list A) (bs : list B) : List.length l = List.length bs ->
  mapM (fun p => bind (k (snd p)) (fun x => Ok (fst p, x))) (combine l bs) = map_res (combine l) (mapM k bs).
Proof. revert bs. induction l as [|a l IH]; intros [|b bs] H; simpl in H; try discriminate; [reflexivity|].
  cbn [combine]. rewrite !mapM_cons. cbn [fst snd]. rewrite IH by lia.
  destruct (k b) as [x|e]; [|reflexivity]. cbn [bind]. destruct (mapM k bs) as [xs|e]; reflexivity. Qed.
Lemma map_fst_combine {A B} (l : list A) (bs : list B) : List.length l = List.length bs -> map fst (combine l bs) = l.
Proof. revert bs. induction l as [|a l IH]; intros [|b bs] H; simpl in H; try discriminate; [reflexivity|].
  cbn [combine map fst]. rewrite IH by lia. reflexivity. Qed.
Lemma map_snd_combine {A B} (l : list A) (bs : list B) : List.length l = List.length bs -> map snd (combine l bs) = bs.
Proof. revert bs. induction l as [|a l IH]; intros [|b bs] H; simpl in H; try discriminate; [reflexivity|].
  cbn [combine map snd]. rewrite IH by lia. reflexivity. Qed.

(* first all f, then all g  versus  element by element: same values, possibly another exception *)
Lemma mapM_fuse_outcome {A B D} (f : A -> res B) (g : B -> res D) l :
  same_outcome (bind (mapM f l) (mapM g)) (mapM (fun a => bind (f a) g) l).
Proof. induction l as [|a l IH]; [simpl; reflexivity|]. rewrite !mapM_cons.
  destruct (f a) as [b|e]; cbn [bind]; [|exact I].
  destruct (mapM f l) as [bs|e]; cbn [bind] in *.
  - rewrite mapM_cons. destruct (g b) as [c|e]; cbn [bind]; [|exact I].
    destruct (mapM g bs) as [cs|e], (mapM (fun a => bind (f a) g) l) as [cs'|e']; simpl in *; try tauto. congruence.
  - destruct (g b) as [c|e']; cbn [bind]; [|exact I].
    destruct (mapM (fun a => bind (f a) g) l) as [cs'|e']; simpl in *; tauto. Qed.

(* ====================================================================================================== *)
(* the hand model                                                                                          *)
(* ====================================================================================================== *)
Section More.
Variable R : fops.
Variable leb : R -> R -> bool.
Variable rnd : R -> Z.
Variable ofZ : Z -> R.
Variable flr : R -> Z.
Variable sqrt2 : R.
Notation C := (Cx R).
Notation comp := (comp R).
Notation "'let*' x ':=' p 'in' q" := (bind p (fun x => q)) (at level 200, x pattern, p at level 100, q at level 200).
Notation transform_circuit := (transform_circuit R leb rnd ofZ).
Notation frequency_components := (frequency_components R leb ofZ flr).
Notation complex_solution := (complex_solution R leb rnd ofZ).
Notation fd_solutions := (fd_solutions R leb rnd ofZ flr).
Notation fd_series := (fd_series R leb rnd ofZ flr).

(* ---- Circuit.__getitem__: the first component with that id (ValueError when there is none) ---- *)
Definition circuit_getitem (cs : list comp) (key : label) : res comp :=
  match find (fun c => label_eqb (cid c) key) cs with Some c => Ok c | None => Err EValue end.

Lemma circuit_getitem_ok cs key c : circuit_getitem cs key = Ok c -> In c cs /\ cid c = key.
Proof. unfold circuit_getitem. destruct (find _ cs) as [c'|] eqn:F; [|discriminate]. intros E. injection E as <-.
  apply find_some in F. destruct F as [Hin Heq]. split; [exact Hin|]. destruct (label_eqb_spec (cid c') key); [assumption|discriminate]. Qed.
(* with the ids pairwise distinct (guaranteed by Circuit.__post_init__, C07_duplicate_ids): THE component with that id *)
Lemma circuit_getitem_unique cs c : NoDup (map cid cs) -> In c cs -> circuit_getitem cs (cid c) = Ok c.
Proof. unfold circuit_getitem. induction cs as [|c0 cs IH]; intros ND Hin; [destruct Hin|].
  cbn [find map] in ND, IH |- *. inversion ND as [|x l Hnot ND' Ex]; clear Ex.
  destruct (label_eqb_spec (cid c0) (cid c)) as [E|NE].
  - destruct Hin as [->|Hin]; [reflexivity|]. exfalso. apply Hnot. rewrite E. apply in_map. exact Hin.
  - destruct Hin as [->|Hin]; [contradiction|]. apply IH; assumption. Qed.
Lemma circuit_getitem_none cs key : ~ In key (map cid cs) -> circuit_getitem cs key = Err EValue.
Proof. unfold circuit_getitem. intros H. destruct (find _ cs) as [c|] eqn:F; [|reflexivity]. exfalso. apply H.
  apply find_some in F. destruct F as [Hin Heq]. destruct (label_eqb_spec (cid c) key); [|discriminate]. subst key.
  apply in_map. exact Hin. Qed.

(* ---- transform(circuit, w, w_resolution) ---- *)
Definition transform (cs : list comp) (ws : list R) (wres : R) : res (list (network C)) :=
  mapM (fun w => transform_circuit cs w wres) ws.
Lemma transform_single cs w wres : transform cs [w] wres = map_res (fun n => [n]) (transform_circuit cs w wres).
Proof. unfold transform. rewrite mapM_cons. destruct (transform_circuit cs w wres); reflexivity. Qed.
Lemma transform_ok cs ws wres ns : transform cs ws wres = Ok ns ->
  Forall2 (fun w n => transform_circuit cs w wres = Ok n) ws ns.
Proof. apply mapM_ok. Qed.

(* ---- the two pipelines over an arbitrary per-frequency network constructor T ---- *)
(* frequency by frequency: network, then solution (FrequencyDomainSolution, through ComplexSolution) *)
Definition fd_nf (T : R -> res (network C)) (obs : solution C -> res C) (fl : res (list R)) : res (list (R * C)) :=
  let* l := fl in let* ss := mapM (fun w => let* n := T w in solve_network n) l in
  let* xs := mapM obs ss in Ok (combine l xs).
(* all networks first, then all solutions (TimeDomainSolution); terms are (phasor, frequency) *)
Definition td_nf (T : R -> res (network C)) (obs : solution C -> res C) (fl : res (list R)) : res (list (C * R)) :=
  let* l := fl in let* ns := mapM T l in let* ss := mapM (@solve_network C) ns in
  let* xs := mapM obs ss in Ok (combine xs l).

Lemma fd_nf_ext T1 T2 obs fl : (forall w, T1 w = T2 w) -> fd_nf T1 obs fl = fd_nf T2 obs fl.
Proof. intros H. unfold fd_nf. apply bind_ext. intros l. f_equal. apply mapM_ext_in. intros w _. rewrite H. reflexivity. Qed.
Lemma td_nf_ext T1 T2 obs fl : (forall w, T1 w = T2 w) -> td_nf T1 obs fl = td_nf T2 obs fl.
Proof. intros H. unfold td_nf. apply bind_ext. intros l. f_equal. apply mapM_ext_in. intros w _. apply H. Qed.
Lemma td_nf_obs_ext cs wmax wres (o1 o2 : solution C -> res C) : (forall s, o1 s = o2 s) ->
  td_nf (fun w => transform_circuit cs w wres) o1 (frequency_components cs wmax)
  = td_nf (fun w => transform_circuit cs w wres) o2 (frequency_components cs wmax).
Proof. intros H. unfold td_nf. apply bind_ext. intros l. apply bind_ext. intros ns. apply bind_ext. intros ss.
  f_equal. apply mapM_ext_in. intros s _. apply H. Qed.
Lemma fd_nf_outcome T1 T2 obs fl : (forall w, same_outcome (T1 w) (T2 w)) -> same_outcome (fd_nf T1 obs fl) (fd_nf T2 obs fl).
Proof. intros H. unfold fd_nf. apply same_outcome_bind; [apply same_outcome_refl|]. intros l.
  apply same_outcome_bind; [|intros ss; apply same_outcome_refl].
  apply mapM_same_outcome. intros w _. apply same_outcome_bind; [apply H|intros n; apply same_outcome_refl]. Qed.
Lemma td_nf_outcome T1 T2 obs fl : (forall w, same_outcome (T1 w) (T2 w)) -> same_outcome (td_nf T1 obs fl) (td_nf T2 obs fl).
Proof. intros H. unfold td_nf. apply same_outcome_bind; [apply same_outcome_refl|]. intros l.
  apply same_outcome_bind; [|intros ss; apply same_outcome_refl].
  apply mapM_same_outcome. intros w _. apply H. Qed.

Definition swap_line (p : R * C) : C * R := (snd p, fst p).
Lemma map_swap_combine (l : list R) (xs : list C) : map swap_line (combine l xs) = combine xs l.
Proof. revert xs. induction l as [|a l IH]; intros [|x xs]; simpl; try reflexivity. rewrite IH. reflexivity. Qed.

(* the two pipelines agree on the values *)
Lemma td_fd_nf_outcome T obs fl : same_outcome (td_nf T obs fl) (map_res (map swap_line) (fd_nf T obs fl)).
Proof. unfold td_nf, fd_nf. destruct fl as [l|e]; cbn [bind map_res]; [|exact I].
  pose proof (mapM_fuse_outcome T (@solve_network C) l) as F.
  destruct (mapM T l) as [ns|e1]; cbn [bind] in F |- *.
  - destruct (mapM (@solve_network C) ns) as [ss|e2], (mapM (fun a => bind (T a) (@solve_network C)) l) as [ss'|e3];
      simpl in F; cbn [bind map_res]; try contradiction; try exact I.
    subst ss'. destruct (mapM obs ss) as [xs|e4]; cbn [bind map_res]; [|exact I]. simpl. rewrite map_swap_combine. reflexivity.
  - destruct (mapM (fun a => bind (T a) (@solve_network C)) l) as [ss'|e3]; simpl in F; [contradiction|exact I]. Qed.

(* ---- FrequencyDomainSolution of Theory/MultiFreq.v in this form ---- *)
Definition peak_of (s : solution C) : csol R := {| cs_sol := s; cs_peak := true |}.

Lemma complex_solution_as_bind cs w wres peak :
  complex_solution cs w wres peak
  = let* s := (let* n := transform_circuit cs w wres in solve_network n) in Ok {| cs_sol := s; cs_peak := peak |}.
Proof. unfold Circuit.complex_solution. rewrite bind_assoc. reflexivity. Qed.

Theorem fd_series_nf (obs : csol R -> res C) cs wmax wres :
  fd_series obs cs wmax wres
  = fd_nf (fun w => transform_circuit cs w wres) (fun s => obs (peak_of s)) (frequency_components cs wmax).
Proof. unfold MultiFreq.fd_series, MultiFreq.fd_solutions, fd_nf. rewrite bind_assoc. apply bind_ext. intros l.
  rewrite (mapM_ext_in _ (fun w => bind (bind (transform_circuit cs w wres) (@solve_network C)) (fun s => Ok (w, peak_of s)))).
  2:{ intros w _. rewrite complex_solution_as_bind, bind_assoc. reflexivity. }
  rewrite (mapM_ret (fun w => bind (transform_circuit cs w wres) (@solve_network C)) (fun w s => (w, peak_of s))).
  destruct (mapM _ l) as [ss|e] eqn:E; cbn [map_res bind]; [|reflexivity].
  unfold zipw. rewrite mapM_map. cbn [fst snd].
  rewrite (mapM_pair_combine (fun s => obs (peak_of s)) l ss (mapM_length _ _ _ E)).
  rewrite map_res_bind. reflexivity. Qed.

(* get_power of the frequency-domain analysis: the peak-value complex power 1/2 V conj(I) per line *)
Definition fd_power (id : label) := fd_series (fun s => c_power R sqrt2 s id).

(* what FrequencyDomainSolution.get_* return: (self.w, self._spectrum(values)) *)
Definition fd_result (one_sided : bool) (lines : list (R * C)) : list R * list C :=
  let l := if one_sided then lines else two_sided leb lines in (map fst l, map snd l).

Lemma fd_result_two_sided lines :
  fd_result false lines
  = (map (fopp R) (rev (filter (posb leb) (map fst lines))) ++ map fst lines,
     map (fun x => chalf (fconj C x)) (rev (map snd (filter (fun p => posb leb (fst p)) lines)))
     ++ map (fun p => if posb leb (fst p) then chalf (snd p) else snd p) lines).
Proof. unfold fd_result. rewrite (two_sided_w R leb), (two_sided_values R leb). reflexivity. Qed.

Lemma fd_result_unfolded lines :
  fd_result true lines = (map fst lines, map snd lines)
  /\ fd_result false lines = (map fst (two_sided leb lines), map snd (two_sided leb lines))
  /\ fd_result false lines
     = (map (fopp R) (rev (filter (posb leb) (map fst lines))) ++ map fst lines,
        map (fun x => chalf (fconj C x)) (rev (map snd (filter (fun p => posb leb (fst p)) lines)))
        ++ map (fun p => if posb leb (fst p) then chalf (snd p) else snd p) lines).
Proof. split; [reflexivity|]. split; [reflexivity|]. apply fd_result_two_sided. Qed.

(* ---- TimeDomainSolution ---- *)
Definition td_solutions (cs : list comp) (wmax wres : R) : res (list (R * solution C)) :=
  let* l := frequency_components cs wmax in
  let* ns := transform cs l wres in
  let* ss := mapM (@solve_network C) ns in Ok (combine l ss).
Definition td_terms (obs : solution C -> res C) (cs : list comp) (wmax wres : R) : res (list (C * R)) :=
  td_nf (fun w => transform_circuit cs w wres) obs (frequency_components cs wmax).
Definition td_voltage (id : label) := td_terms (fun s => get_voltage s id).
Definition td_current (id : label) := td_terms (fun s => get_current s id).
Definition td_potential (l : label) := td_terms (fun s => get_potential s l).
Definition td_power (id : label) (cs : list comp) (wmax wres : R) : res (list (C * R) * list (C * R)) :=
  let* v := td_voltage id cs wmax wres in let* i := td_current id cs wmax wres in Ok (v, i).

Lemma td_terms_solutions obs cs wmax wres :
  td_terms obs cs wmax wres
  = let* sols := td_solutions cs wmax wres in let* xs := mapM (fun p => obs (snd p)) sols in Ok (combine xs (map fst sols)).
Proof. unfold td_terms, td_nf, td_solutions, transform. rewrite bind_assoc. apply bind_ext. intros l.
  rewrite bind_assoc. destruct (mapM (fun w => transform_circuit cs w wres) l) as [ns|e] eqn:En; cbn [bind]; [|reflexivity].
  rewrite bind_assoc. destruct (mapM (@solve_network C) ns) as [ss|e] eqn:Es; cbn [bind]; [|reflexivity].
  assert (L : List.length l = List.length ss) by (rewrite (mapM_length _ _ _ En); exact (mapM_length _ _ _ Es)).
  rewrite (mapM_snd_combine obs l ss L), (map_fst_combine l ss L). reflexivity. Qed.

(* the value of a time function at one instant; [carrier w] = (cos (w t), sin (w t)) *)
Definition timefn_eval (carrier : R -> R * R) (f : list (C * R)) : R :=
  tf (map (fun p => carrier (snd p)) f) (map fst f).
Definition timefn2_eval (carrier : R -> R * R) (fg : list (C * R) * list (C * R)) : R :=
  fmul R (timefn_eval carrier (fst fg)) (timefn_eval carrier (snd fg)).

Lemma timefn_eval_swap carrier (lines : list (R * C)) :
  timefn_eval carrier (map swap_line lines) = tf (map (fun p => carrier (fst p)) lines) (map snd lines).
Proof. unfold timefn_eval. rewrite !map_map. reflexivity. Qed.

(* TimeDomainSolution against the frequency-domain lines of Theory/MultiFreq.v: the same terms (the exception may differ:
   all networks are built before the first one is solved) *)
Theorem td_fd_outcome (obs : csol R -> res C) cs wmax wres :
  same_outcome (td_terms (fun s => obs (peak_of s)) cs wmax wres) (map_res (map swap_line) (fd_series obs cs wmax wres)).
Proof. rewrite fd_series_nf. apply td_fd_nf_outcome. Qed.

(* ... hence the value at an instant is td_value of Theory/MultiFreq.v (to which C09_td, C09_kcl_t_solutions ... apply) *)
Theorem td_value_outcome (obs : csol R -> res C) cs wmax wres carrier :
  same_outcome (map_res (timefn_eval carrier) (td_terms (fun s => obs (peak_of s)) cs wmax wres))
               (td_value R leb rnd ofZ flr obs cs wmax wres carrier).
Proof. pose proof (td_fd_outcome obs cs wmax wres) as H. unfold MultiFreq.td_value.
  destruct (td_terms _ cs wmax wres) as [t|e], (fd_series obs cs wmax wres) as [lines|e']; simpl in H |- *;
    try contradiction; try exact I.
  rewrite H. apply timefn_eval_swap. Qed.

(* the accessors of a peak-value solution *)
Lemma c_voltage_peak (s : solution C) id : c_voltage R sqrt2 (peak_of s) id = get_voltage s id.
Proof. unfold c_voltage, unpeak, peak_of. cbn [cs_sol cs_peak]. apply bind_Ok_r. Qed.
Lemma c_current_peak (s : solution C) id : c_current R sqrt2 (peak_of s) id = get_current s id.
Proof. unfold c_current, unpeak, peak_of. cbn [cs_sol cs_peak]. apply bind_Ok_r. Qed.
Lemma c_potential_peak (s : solution C) l : c_potential R sqrt2 (peak_of s) l = get_potential s l.
Proof. unfold c_potential, unpeak, peak_of. cbn [cs_sol cs_peak]. apply bind_Ok_r. Qed.

Corollary td_voltage_fd id cs wmax wres :
  same_outcome (td_voltage id cs wmax wres) (map_res (map swap_line) (fd_voltage R leb rnd ofZ flr sqrt2 id cs wmax wres)).
Proof. unfold td_voltage, fd_voltage, td_terms.
  rewrite (td_nf_obs_ext cs wmax wres (fun s => get_voltage s id) (fun s => c_voltage R sqrt2 (peak_of s) id)).
  - exact (td_fd_outcome (fun s => c_voltage R sqrt2 s id) cs wmax wres).
  - intros s. symmetry. apply c_voltage_peak. Qed.
Corollary td_current_fd id cs wmax wres :
  same_outcome (td_current id cs wmax wres) (map_res (map swap_line) (fd_current R leb rnd ofZ flr sqrt2 id cs wmax wres)).
Proof. unfold td_current, fd_current, td_terms.
  rewrite (td_nf_obs_ext cs wmax wres (fun s => get_current s id) (fun s => c_current R sqrt2 (peak_of s) id)).
  - exact (td_fd_outcome (fun s => c_current R sqrt2 s id) cs wmax wres).
  - intros s. symmetry. apply c_current_peak. Qed.
Corollary td_potential_fd l cs wmax wres :
  same_outcome (td_potential l cs wmax wres) (map_res (map swap_line) (fd_potential R leb rnd ofZ flr sqrt2 l cs wmax wres)).
Proof. unfold td_potential, fd_potential, td_terms.
  rewrite (td_nf_obs_ext cs wmax wres (fun s => get_potential s l) (fun s => c_potential R sqrt2 (peak_of s) l)).
  - exact (td_fd_outcome (fun s => c_potential R sqrt2 s l) cs wmax wres).
  - intros s. symmetry. apply c_potential_peak. Qed.

End More.
