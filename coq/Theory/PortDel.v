(* Theory/PortDel.v — open_circuit_impedance in full: rows of the MNA matrix without a non-zero entry are deleted
   (with their columns) before solving.  Such rows belong to nodes that no finite admittance and no ideal voltage
   source holds; the matrix being symmetric their columns are zero too, their right-hand side is zero (the only
   source left is the probe), so extending the reduced solution by zeros solves the whole system, and every
   solution of the whole system restricts to the unique solution of the reduced one. *)
From Coq Require Import List Bool NArith Arith Permutation Lia Field Ring.
From CC Require Import Theory.Field Theory.Labels Model.Network Model.Transformers Model.Port Theory.Spec Theory.Mna
  Theory.MnaComplete Theory.Api Theory.Gauss Theory.Linearity Theory.Invariance Theory.PortThm.
Import ListNotations.

Lemma select_nil {A} (mask : list bool) : select mask (@nil A) = [].
Proof. destruct mask; reflexivity. Qed.

Lemma count_true_cons (c : bool) (m : list bool) : count_true (c :: m) = if c then S (count_true m) else count_true m.
Proof. unfold count_true. simpl. destruct c; reflexivity. Qed.

Lemma select_length {A} (mask : list bool) : forall l : list A, length mask = length l -> length (select mask l) = count_true mask.
Proof. induction mask as [|c m IH]; intros [|x l] H; simpl in *; try discriminate; [reflexivity|].
  rewrite count_true_cons. destruct c; simpl; rewrite IH by lia; reflexivity. Qed.

Lemma nth_select {A} (mask : list bool) : forall (l : list A) (i : nat) (d : A),
  nth i mask false = true -> nth (count_true (firstn i mask)) (select mask l) d = nth i l d.
Proof. induction mask as [|c m IH]; intros l i d H.
  - destruct i; discriminate.
  - destruct l as [|x l]; [rewrite select_nil; destruct i, (count_true (firstn _ _)); reflexivity|].
    destruct i as [|i]; simpl in H.
    + subst c. reflexivity.
    + simpl firstn. rewrite count_true_cons. destruct c; simpl; apply IH; exact H. Qed.

Lemma nth_map_lt {A B} (f : A -> B) (l : list A) (k : nat) (d : A) (d' : B) : k < length l ->
  nth k (map f l) d' = f (nth k l d).
Proof. revert k. induction l as [|x l IH]; intros [|k] H; simpl in *; try lia; [reflexivity|]. apply IH. lia. Qed.

Section PortDel.
Variable K : fops.
Hypothesis KOK : fops_ok K.
Add Field Kfd : (Kth K KOK).
Notation "0" := (f0 K). Notation "1" := (f1 K).
Infix "+" := (fadd K). Infix "*" := (fmul K). Infix "-" := (fsub K). Notation "- x" := (fopp K x).
Infix "/" := (fdiv K).
Notation "x == y" := (feqb K x y) (at level 70).
Ltac feq x y := destruct (feqb_spec KOK x y).

(* the reduced solution put back in place, zeros at the deleted positions *)
Fixpoint expand (mask : list bool) (xr : list K) : list K :=
  match mask with
  | [] => []
  | true :: m => hd 0 xr :: expand m (tl xr)
  | false :: m => 0 :: expand m xr
  end.

Lemma expand_length mask : forall xr, length (expand mask xr) = length mask.
Proof. induction mask as [|c m IH]; intros xr; [reflexivity|]. destruct c; simpl; rewrite IH; reflexivity. Qed.

Lemma dot_cons (a b : K) (u v : list K) : dot (a :: u) (b :: v) = a * b + dot u v.
Proof. reflexivity. Qed.
Lemma dot_nil_l (v : list K) : dot [] v = 0. Proof. reflexivity. Qed.

Lemma nth_nil0 (k : nat) : nth k (@nil K) 0 = 0. Proof. destruct k; reflexivity. Qed.

Lemma nth_expand mask : forall (xr : list K) (i : nat), nth i mask false = true ->
  nth i (expand mask xr) 0 = nth (count_true (firstn i mask)) xr 0.
Proof. induction mask as [|c m IH]; intros xr i H; [destruct i; discriminate|].
  destruct i as [|i]; simpl in H.
  - subst c. simpl. destruct xr; reflexivity.
  - simpl firstn. rewrite count_true_cons. destruct c; simpl.
    + rewrite (IH _ _ H). destruct xr as [|x xr]; simpl; [destruct (count_true (firstn i m)); reflexivity|reflexivity].
    + apply IH, H. Qed.

Lemma dot_expand mask : forall (r xr : list K), length r = length mask -> length xr = count_true mask ->
  dot r (expand mask xr) = dot (select mask r) xr.
Proof. induction mask as [|c m IH]; intros [|a r] xr Hr Hx; simpl in *; try discriminate; [reflexivity|].
  rewrite count_true_cons in Hx. destruct c.
  - destruct xr as [|x xr]; [discriminate|]. simpl. rewrite !dot_cons. rewrite IH by (simpl in *; lia). reflexivity.
  - rewrite dot_cons. rewrite IH by lia. ring. Qed.

Lemma dot_select_zero mask : forall (r x : list K), length r = length mask -> length x = length mask ->
  (forall k, nth k mask true = false -> nth k r 0 = 0) -> dot r x = dot (select mask r) (select mask x).
Proof. induction mask as [|c m IH]; intros [|a r] [|b x] Hr Hx H; simpl in *; try discriminate; [reflexivity|].
  rewrite dot_cons. rewrite (IH r x) by (try lia; intros k Hk; apply (H (S k)); exact Hk).
  destruct c.
  - rewrite dot_cons. reflexivity.
  - rewrite (H O eq_refl). ring. Qed.

Lemma zero_row_dot (r y : list K) : row_connected r = false -> dot r y = 0.
Proof. unfold row_connected. revert y. induction r as [|a r IH]; intros y H; [reflexivity|].
  simpl in H. apply orb_false_iff in H. destruct H as [H1 H2].
  destruct y as [|b y]; [reflexivity|]. rewrite dot_cons, (IH y H2).
  feq a 0; [subst; ring|discriminate]. Qed.

Lemma zero_row_nth (r : list K) (k : nat) : row_connected r = false -> nth k r 0 = 0.
Proof. unfold row_connected. revert k. induction r as [|a r IH]; intros k H; [apply nth_nil0|].
  simpl in H. apply orb_false_iff in H. destruct H as [H1 H2].
  destruct k; simpl; [feq a 0; [assumption|discriminate]|apply IH, H2]. Qed.

(* rows: reduced system solved -> expanded vector solves the whole system *)
Lemma rows_expand (cm : list bool) (xr : list K) : length xr = count_true cm ->
  forall (rm : list bool) (A : list (list K)) (rhs : list K),
  length rm = length A -> length rhs = length A -> (forall r, In r A -> length r = length cm) ->
  mat_vec (map (select cm) (select rm A)) xr = select rm rhs ->
  (forall k, nth k rm true = false -> (forall y, dot (nth k A []) y = 0) /\ nth k rhs 0 = 0) ->
  mat_vec A (expand cm xr) = rhs.
Proof. intros Hx. unfold mat_vec. induction rm as [|c rm IH]; intros [|r A] [|beta rhs] LA LR HL HS HZ; simpl in *; try discriminate; [reflexivity|].
  destruct c.
  - simpl in HS. injection HS as H1 H2. f_equal.
    + rewrite dot_expand; [exact H1|apply HL; left; reflexivity|exact Hx].
    + apply IH; try lia; [intros r' Hr'; apply HL; right; exact Hr'|exact H2|intros k Hk; apply (HZ (S k)); exact Hk].
  - destruct (HZ O eq_refl) as [Z1 Z2]. simpl in Z1, Z2. f_equal; [rewrite Z1, Z2; reflexivity|].
    apply IH; try lia; [intros r' Hr'; apply HL; right; exact Hr'|exact HS|intros k Hk; apply (HZ (S k)); exact Hk]. Qed.

(* rows: a solution of the whole system restricts to a solution of the reduced one (deleted columns are zero) *)
Lemma rows_select (cm : list bool) (x : list K) : length x = length cm ->
  forall (rm : list bool) (A : list (list K)) (rhs : list K),
  length rm = length A -> length rhs = length A -> (forall r, In r A -> length r = length cm) ->
  (forall r, In r A -> forall k, nth k cm true = false -> nth k r 0 = 0) ->
  mat_vec A x = rhs -> mat_vec (map (select cm) (select rm A)) (select cm x) = select rm rhs.
Proof. intros Hx. unfold mat_vec. induction rm as [|c rm IH]; intros [|r A] [|beta rhs] LA LR HL HC HS; simpl in *; try discriminate; try reflexivity.
  injection HS as H1 H2. destruct c; simpl.
  - f_equal.
    + rewrite <- (dot_select_zero cm r x); [exact H1|apply HL; left; reflexivity|exact Hx|apply HC; left; reflexivity].
    + apply IH; try lia; [intros r' Hr'; apply HL; right; exact Hr'|intros r' Hr'; apply HC; right; exact Hr'|exact H2].
  - apply IH; try lia; [intros r' Hr'; apply HL; right; exact Hr'|intros r' Hr'; apply HC; right; exact Hr'|exact H2]. Qed.

(* ---------------- structure of the MNA matrix ---------------- *)
Lemma between_comm (i j : label) (br : branch K) : between i j br = between j i br.
Proof. unfold between.
  destruct (label_eqb (node1 br) i), (label_eqb (node1 br) j), (label_eqb (node2 br) i), (label_eqb (node2 br) j),
    (label_eqb i (node1 br)), (label_eqb i (node2 br)), (label_eqb j (node1 br)), (label_eqb j (node2 br)); reflexivity. Qed.

Lemma Yent_sym (n : network K) (i j : label) : Yent n i j = Yent n j i.
Proof. unfold Yent. rewrite (label_eqb_sym j i). destruct (label_eqb_spec i j) as [E|E]; [subst; reflexivity|].
  unfold admittance_between. f_equal. f_equal. f_equal. apply filter_ext. intros br. apply between_comm. Qed.

Section Structure.
Variable n : network K.
Notation ns := (node_index n).
Notation vss := (vs_index n).
Notation N := (length (node_index n)).
Notation A := (mna_matrix n).
Notation conn := (map row_connected (mna_matrix n)).

Lemma row_top_length i : length (row_top n i) = (N + length vss)%nat.
Proof. unfold row_top. rewrite app_length, !map_length. reflexivity. Qed.
Lemma row_bot_length v : length (row_bot n v) = (N + length vss)%nat.
Proof. unfold row_bot. rewrite app_length, !map_length. reflexivity. Qed.

Lemma mna_rows : A = map (row_top n) ns ++ map (row_bot n) vss.
Proof. reflexivity. Qed.

Lemma nth_conn_top k : k < N -> nth k conn true = row_connected (row_top n (nth k ns [])).
Proof. intros H. rewrite mna_rows, map_app, app_nth1 by (rewrite !map_length; exact H).
  rewrite map_map. apply (nth_map_lt (fun i => row_connected (row_top n i))). exact H. Qed.

Lemma nth_conn_bot k : N <= k -> k < (N + length vss)%nat ->
  nth k conn true = row_connected (row_bot n (nth (k - N) vss [])).
Proof. intros H1 H2. rewrite mna_rows, map_app, app_nth2 by (rewrite !map_length; exact H1).
  rewrite !map_length, map_map. apply (nth_map_lt (fun v => row_connected (row_bot n v))). lia. Qed.

Lemma nth_conn_out k : (N + length vss)%nat <= k -> nth k conn true = true.
Proof. intros H. apply nth_overflow. rewrite map_length, mna_rows, app_length, !map_length. exact H. Qed.

Lemma in_row_zero (r : list K) (x : K) : row_connected r = false -> In x r -> x = 0.
Proof. intros H Hx. destruct (In_nth _ _ 0 Hx) as [k [_ <-]]. apply zero_row_nth, H. Qed.

(* a deleted row has a zero column *)
Lemma zero_columns r k : In r A -> nth k conn true = false -> nth k r 0 = 0.
Proof. intros Hr Hk.
  destruct (Nat.lt_ge_cases k N) as [L|L].
  - rewrite (nth_conn_top k L) in Hk. set (l := nth k ns []) in *.
    rewrite mna_rows in Hr. apply in_app_or in Hr. destruct Hr as [Hr|Hr]; apply in_map_iff in Hr; destruct Hr as [i [<- Hi]].
    + unfold row_top at 1. rewrite app_nth1 by (rewrite map_length; exact L).
      rewrite (nth_map_lt (Yent n i) ns k [] 0 L). fold l. rewrite Yent_sym.
      apply (in_row_zero _ _ Hk). unfold row_top. apply in_or_app. left. apply in_map. exact Hi.
    + unfold row_bot at 1. rewrite app_nth1 by (rewrite map_length; exact L).
      rewrite (nth_map_lt (fun i0 => Bent n i0 i) ns k [] 0 L). fold l.
      apply (in_row_zero _ _ Hk). unfold row_top. apply in_or_app. right. apply (in_map (Bent n l)). exact Hi.
  - destruct (Nat.lt_ge_cases k (N + length vss)%nat) as [L2|L2]; [|rewrite (nth_conn_out k L2) in Hk; discriminate].
    rewrite (nth_conn_bot k L L2) in Hk. set (v := nth (k - N) vss []) in *.
    rewrite mna_rows in Hr. apply in_app_or in Hr. destruct Hr as [Hr|Hr]; apply in_map_iff in Hr; destruct Hr as [i [<- Hi]].
    + unfold row_top at 1. rewrite app_nth2 by (rewrite map_length; exact L). rewrite map_length.
      rewrite (nth_map_lt (Bent n i) vss (k - N) [] 0) by lia. fold v.
      apply (in_row_zero _ _ Hk). unfold row_bot. apply in_or_app. left. apply (in_map (fun i0 => Bent n i0 v)). exact Hi.
    + unfold row_bot at 1. rewrite app_nth2 by (rewrite map_length; exact L). rewrite map_length.
      apply nth_map_zero. Qed.

End Structure.

(* ---------------- the right-hand side of the probed network ---------------- *)
Lemma src0_I0 (e : elem K) : src e = 0 -> opt0 (eI e) = 0.
Proof. unfold src. destruct (eY e) as [y|] eqn:E; [tauto|]. intros _. apply (ivs_I0 K KOK).
  rewrite (ivs_noY K KOK), E. reflexivity. Qed.

Section Main.
Variables (n0 : network K) (a b : label).
Hypothesis WF : wf n0.
Hypothesis Hab : a <> b.
Let np := probed n0 a b.
Let WFp : wf np := wf_probed K KOK n0 a b WF Hab.
Notation ns := (node_index np).
Notation vss := (vs_index np).
Notation A := (mna_matrix np).
Notation conn := (map row_connected (mna_matrix np)).

Lemma probed_rhs_node l : In l ns -> l <> a ->
  sumF (fun cs => Qent np l cs * branch_I np cs) (cs_index np) = 0.
Proof. intros Hl Hla. rewrite (rhs_block K KOK np WFp l).
  assert (Hlb : l <> b). { intros E. apply (ns_not_zero K np). subst l. exact Hl. }
  change (branches np) with (map kp0 (branches n0) ++ [probe n0 a b]). rewrite (sumF_app KOK).
  rewrite (sumF_zero_in KOK).
  - simpl. unfold sgn. rewrite (probe_n1 K), (probe_n2 K).
    rewrite (label_eqb_neq b l) by congruence. rewrite (label_eqb_neq a l) by congruence. ring.
  - intros br' Hbr'. apply in_map_iff in Hbr'. destruct Hbr' as [br [<- _]].
    rewrite (src0_I0 _ (kp0_src K KOK br)). ring. Qed.

Lemma probed_rhs_vs v : In v vss -> branch_V np v = 0.
Proof. intros Hv. destruct (vss_in_ivs K np v Hv) as [br' [Hbr' [<- IV]]].
  rewrite (branch_V_In K np WFp br' Hbr').
  change (branches np) with (map kp0 (branches n0) ++ [probe n0 a b]) in Hbr'.
  apply in_app_or in Hbr'. destruct Hbr' as [Hbr'|[<-|[]]].
  - apply in_map_iff in Hbr'. destruct Hbr' as [br [<- _]].
    pose proof (kp0_src K KOK br) as S. unfold src in S. rewrite (ivs_noY K KOK) in IV.
    destruct (eY (el (kp0 br))); [discriminate|exact S].
  - exfalso. revert IV. unfold probe, probe_branch, current_source, is_ideal_voltage_source. simpl.
    rewrite (feqb_refl KOK). discriminate. Qed.

Lemma conn_length : length conn = (length ns + length vss)%nat.
Proof. rewrite map_length. apply (mna_square K np). Qed.

(* right-hand side zero at every deleted row, provided the row of node a is not deleted *)
Lemma rhs_deleted k : nth (lindex ns a) conn false = true -> nth k conn true = false -> nth k (mna_rhs np) 0 = 0.
Proof. intros Ha Hk. unfold mna_rhs.
  destruct (Nat.lt_ge_cases k (length ns)) as [L|L].
  - rewrite app_nth1 by (rewrite map_length; exact L).
    rewrite (nth_map_lt (fun i => sumF (fun cs => Qent np i cs * branch_I np cs) (cs_index np)) ns k [] 0 L).
    apply probed_rhs_node; [apply nth_In; exact L|]. intros E.
    assert (Ek : lindex ns a = k) by (rewrite <- E; apply lindex_nth; [apply (ns_NoDup K np)|exact L]).
    rewrite Ek in Ha.
    assert (Hk' : nth k conn false = false).
    { rewrite (nth_indep conn false true) by (rewrite conn_length; lia). exact Hk. }
    congruence.
  - destruct (Nat.lt_ge_cases k (length ns + length vss)%nat) as [L2|L2].
    + rewrite app_nth2 by (rewrite map_length; exact L). rewrite map_length.
      rewrite (nth_map_lt (branch_V np) vss (k - length ns) [] 0) by lia.
      apply probed_rhs_vs. apply nth_In. lia.
    + rewrite (nth_conn_out np k L2) in Hk. discriminate. Qed.

Theorem port_solve_sound (z : K) : port_solve np a = Ok (Some z) ->
  PortZ n0 a b z /\ (forall z', PortZ n0 a b z' -> z' = z).
Proof. unfold port_solve. destruct (lmem a ns) eqn:Ha; [|discriminate]. apply lmem_spec in Ha.
  set (i1 := lindex ns a). destruct (nth i1 conn false) eqn:C1; [|discriminate].
  set (Ar := map (select conn) (select conn A)). set (br := select conn (mna_rhs np)).
  destruct (solve Ar br) as [xr|] eqn:Hs; [|discriminate]. intros H. injection H as <-.
  destruct (mna_square K np) as [SL SR]. pose proof (mna_rhs_length K np) as RL.
  set (m' := count_true conn).
  assert (LAr : length Ar = m') by (unfold Ar; rewrite map_length; apply select_length; apply map_length).
  assert (Lbr : length br = m') by (unfold br; apply select_length; rewrite map_length, SL, RL; reflexivity).
  assert (RAr : forall r, In r Ar -> length r = m').
  { intros r Hr. unfold Ar in Hr. apply in_map_iff in Hr. destruct Hr as [r0 [<- Hr0]]. apply select_length.
    rewrite conn_length. symmetry. apply SR.
    clear - Hr0. revert Hr0. generalize conn. induction A as [|x l IH]; intros [|c mask] H; simpl in H; try contradiction.
    destruct c; [destruct H as [<-|H]; [left; reflexivity|right; apply (IH mask H)]|right; apply (IH mask H)]. }
  destruct (solve_sound K KOK _ _ _ Hs) as [Lx Mx]. rewrite Lbr in Lx.
  assert (HL : forall r, In r A -> length r = length conn) by (intros r Hr; rewrite conn_length; apply SR, Hr).
  split.
  - (* existence: the reduced solution extended by zeros *)
    set (x := expand conn xr).
    assert (S : solves np x).
    { split; [unfold x; rewrite expand_length; apply conn_length|].
      apply (rows_expand conn xr Lx conn A (mna_rhs np)); [apply map_length|rewrite SL; exact RL|exact HL|exact Mx|].
      intros k Hk. split; [|apply rhs_deleted; [exact C1|exact Hk]].
      intros y. apply zero_row_dot.
      destruct (Nat.lt_ge_cases k (length A)) as [Lk|Lk].
      - rewrite <- Hk. symmetry. apply (nth_map_lt row_connected A k [] true Lk).
      - rewrite nth_overflow in Hk by (rewrite map_length; exact Lk). discriminate. }
    exists (phi_of np x), (flow_of np x). split; [apply (mna_sound K KOK np WFp x S)|].
    unfold phi_of. change (zero np) with b. rewrite (label_eqb_neq a b Hab), label_eqb_refl.
    fold i1. unfold x. rewrite (nth_expand conn xr i1 C1). ring.
  - (* uniqueness: any solution restricts to the reduced system *)
    intros z' [phi [j [C ->]]].
    pose proof (mna_complete K KOK np WFp phi j C) as [Lv Mv]. set (x' := vec np phi j) in *.
    assert (Mr : mat_vec Ar (select conn x') = br).
    { apply (rows_select conn x'); [rewrite conn_length; exact Lv|apply map_length|rewrite SL; exact RL|exact HL| |exact Mv].
      intros r Hr k Hk. apply (zero_columns np r k Hr Hk). }
    assert (Lsx : length (select conn x') = m') by (apply select_length; rewrite conn_length; symmetry; exact Lv).
    pose proof (solve_unique K KOK m' Ar br xr (select conn x') LAr RAr Lbr Hs Lsx Mr) as E.
    assert (Pa : phi a = nth i1 x' 0).
    { rewrite <- (phi_vec K np phi j a (proj1 C) (or_intror Ha)). unfold phi_of.
      change (zero np) with b. rewrite (label_eqb_neq a b Hab). reflexivity. }
    rewrite Pa. rewrite <- (nth_select conn x' i1 0 C1). fold x'. rewrite E.
    replace (phi b) with 0 by (symmetry; exact (proj1 C)). ring. Qed.

End Main.

(* ---------------- the early exits also satisfy the specification ---------------- *)
Lemma kcl_zero (bs : list (branch K)) node : kcl_sum bs (fun _ => 0) node = 0.
Proof. unfold kcl_sum. apply (sumF_zero_in KOK). intros br _. destruct (label_eqb _ _), (label_eqb _ _); ring. Qed.

Lemma PortZ_same_holds (n : network K) a : wf n -> PortZ n a a 0.
Proof. intros WF. apply (PortZ_iff K KOK n a a 0 WF). exists (fun _ => 0), (fun _ => 0). split; [|ring]. split.
  - intros node. rewrite kcl_zero. ring.
  - intros br _. unfold hom_law, bvolt. destruct (eY (el br)); ring. Qed.

(* the shorted source carries the whole test current *)
Lemma PortZ_ideal_holds (n : network K) a b : wf n -> a <> b -> ideal_source_between n a b = true -> PortZ n a b 0.
Proof. intros WF Hab H. unfold ideal_source_between in H. apply existsb_exists in H. destruct H as [b0 [Hb0 IV]].
  apply filter_In in Hb0. destruct Hb0 as [Hb0 BT].
  apply (PortZ_iff K KOK n a b 0 WF).
  set (s := if label_eqb (node1 b0) a then 1 else - (1)).
  exists (fun _ => 0), (fun br => if label_eqb (bid br) (bid b0) then s else 0). split; [|ring]. split.
  - intros node. destruct (in_split _ _ Hb0) as [l1 [l2 E]]. rewrite E.
    assert (ND : NoDup (map bid (l1 ++ b0 :: l2))) by (rewrite <- E; exact (proj1 WF)).
    rewrite map_app in ND. simpl in ND. apply NoDup_remove_2 in ND.
    assert (Z1 : forall l, (forall br, In br l -> In (bid br) (map bid l1 ++ map bid l2)) ->
                 kcl_sum l (fun br => if label_eqb (bid br) (bid b0) then s else 0) node = 0).
    { intros l Hl. rewrite (kcl_ext_in K l _ (fun _ => 0)); [apply kcl_zero|].
      intros br Hbr. destruct (label_eqb_spec (bid br) (bid b0)) as [Eb|Eb]; [|reflexivity].
      exfalso. apply ND. rewrite <- Eb. apply Hl, Hbr. }
    change (b0 :: l2) with ([b0] ++ l2). rewrite !(kcl_app K KOK), (kcl_one K KOK), label_eqb_refl.
    rewrite Z1 by (intros br Hbr; apply in_or_app; left; apply in_map; exact Hbr).
    rewrite Z1 by (intros br Hbr; apply in_or_app; right; apply in_map; exact Hbr).
    unfold s, ind. destruct (between_ends K a b b0 Hab BT) as [[E1 E2]|[E1 E2]]; rewrite E1, E2.
    + rewrite label_eqb_refl. ring.
    + rewrite (label_eqb_neq b a) by congruence. ring.
  - intros br Hbr. unfold hom_law, bvolt. destruct (eY (el br)) as [y|] eqn:EY; [|ring].
    destruct (label_eqb_spec (bid br) (bid b0)) as [Eb|Eb]; [|ring].
    exfalso. assert (br = b0) by (apply (same_id K n br b0 WF Hbr Hb0 Eb)).
    subst br. rewrite (ivs_noY K KOK), EY in IV. discriminate. Qed.

(* C06_port at full strength *)
Theorem port_sound (n : network K) a b (z : K) : wf n -> open_circuit_impedance n a b = Ok (Some z) ->
  PortZ n a b z /\ (forall z', PortZ n a b z' -> z' = z).
Proof. intros WF H. destruct (label_eqb_spec a b) as [E|Hab].
  - subst b. rewrite (oci_same K) in H. injection H as <-. split; [apply PortZ_same_holds, WF|apply (PortZ_same K KOK)].
  - rewrite (oci_unfold K KOK n a b WF Hab) in H. destruct (ideal_source_between n a b) eqn:I.
    + injection H as <-. split; [apply PortZ_ideal_holds; assumption|intros z'; apply (PortZ_ideal K KOK), I].
    + apply (port_solve_sound n a b WF Hab z H). Qed.

(* ---------------- Thevenin and Norton for the values the library reports ---------------- *)
Lemma wf_loaded (n : network K) a b lid (ZL : K) : wf n -> a <> b -> In a (node_labels n) ->
  ~ In lid (branch_ids n) -> wf (loaded n a b lid ZL).
Proof. intros WF Hab La FR. pose proof WF as [ND [HZ NL]]. unfold wf, loaded, branch_ids. simpl. split; [|split].
  - rewrite map_app. simpl. apply NoDup_app_fresh; [exact ND|exact FR].
  - intros _. rewrite !map_app. simpl. destruct (branches n) as [|x r] eqn:E.
    + unfold node_labels in La. rewrite E in La. simpl in La. destruct La as [<-|[]]. simpl. left. reflexivity.
    + assert (H : In (zero n) (map node1 (x :: r) ++ map node2 (x :: r))) by (apply HZ; discriminate).
      apply in_app_or in H. apply in_or_app. destruct H as [H|H]; [left|right]; apply in_or_app; left; exact H.
  - intros br Hbr. apply in_app_or in Hbr. destruct Hbr as [Hbr|[<-|[]]]; [apply NL, Hbr|exact Hab]. Qed.

Theorem thevenin_model (n : network K) a b lid (ZL z v : K) : wf n -> a <> b ->
  open_circuit_impedance n a b = Ok (Some z) -> open_circuit_voltage n a b = Ok v ->
  z + ZL <> 0 -> ~ In lid (branch_ids n) ->
  exists s, solve_network (loaded n a b lid ZL) = Ok s /\ get_voltage s lid = Ok (v * ZL / (z + ZL)).
Proof. intros WF Hab HZ HV NZ FR. destruct (port_sound n a b z WF HZ) as [PZ _].
  destruct (ocv_sound K KOK n a b v WF Hab HV) as [x0 [S0 [WP [C0 [-> [La Lb]]]]]].
  pose proof (wf_loaded n a b lid ZL WF Hab La FR) as WFL.
  pose proof (thevenin_wellposed K KOK n a b lid ZL z _ _ WF WP C0 La Lb PZ NZ FR) as WPL.
  destruct (solve_network_complete K KOK _ WFL WPL) as [s Hs]. exists s. split; [exact Hs|].
  destruct (solved_unpack K KOK _ s WFL Hs) as [x [-> S]].
  pose proof (mna_sound K KOK _ WFL x S) as C.
  destruct (thevenin_load K KOK n a b lid ZL z _ _ WF WP C0 La Lb PZ NZ _ _ C) as [_ V].
  assert (Hl : In (load_branch a b lid ZL) (branches (loaded n a b lid ZL))) by (simpl; apply in_or_app; right; left; reflexivity).
  pose proof (api_voltage K _ WFL x _ Hl) as G. change (bid (load_branch a b lid ZL)) with lid in G.
  rewrite G. unfold bvolt. simpl. rewrite V. reflexivity. Qed.

Theorem norton_model_full (n : network K) a b lid (z i : K) : wf n -> a <> b ->
  open_circuit_impedance n a b = Ok (Some z) -> short_circuit_current n a b = Ok (Some i) ->
  z <> 0 /\ forall phi j, CircuitSpec (loaded n a b lid 0) phi j -> j (load_branch a b lid 0) = i.
Proof. intros WF Hab HZ HI. destruct (port_sound n a b z WF HZ) as [PZ _].
  apply (norton_model K KOK n a b lid z i WF Hab HZ PZ HI). Qed.

(* ---------------- statements as they appear in Properties/C06.v ---------------- *)
Theorem zero_identical (n : network K) a : wf n ->
  open_circuit_impedance n a a = Ok (Some 0) /\ PortZ n a a 0 /\ (forall z, PortZ n a a z -> z = 0).
Proof. intros WF. split; [apply (oci_same K)|]. split; [apply PortZ_same_holds, WF|apply (PortZ_same K KOK)]. Qed.

Theorem zero_ideal_source (n : network K) a b : wf n -> a <> b -> ideal_source_between n a b = true ->
  open_circuit_impedance n a b = Ok (Some 0) /\ PortZ n a b 0 /\ (forall z, PortZ n a b z -> z = 0).
Proof. intros WF Hab H. split; [apply (oci_ideal K), H|]. split; [apply PortZ_ideal_holds; assumption|].
  intros z. apply (PortZ_ideal K KOK), H. Qed.

Theorem oci_sym (n : network K) a b (z z' : K) : wf n ->
  open_circuit_impedance n a b = Ok (Some z) -> open_circuit_impedance n b a = Ok (Some z') -> z' = z.
Proof. intros WF H H'. destruct (port_sound n a b z WF H) as [_ U]. destruct (port_sound n b a z' WF H') as [P' _].
  apply U. apply (PortZ_sym K KOK n b a z' WF P'). Qed.

Theorem oci_scale (c : K) (n : network K) a b (z z' : K) : wf n ->
  open_circuit_impedance n a b = Ok (Some z) -> open_circuit_impedance (scale_net c n) a b = Ok (Some z') -> z' = z.
Proof. intros WF H H'. destruct (port_sound n a b z WF H) as [_ U].
  assert (WF' : wf (scale_net c n)) by (apply (skel_wf K n); [apply skel_scale|exact WF]).
  destruct (port_sound _ a b z' WF' H') as [P' _]. apply U. apply (PortZ_scale K KOK c n a b z' WF). exact P'. Qed.

(* ---------------- the impedance seen by an element ---------------- *)
Lemma remove_first_In (b : branch K) (l : list (branch K)) (x : branch K) : In x (remove_first b l) -> In x l.
Proof. induction l as [|y l IH]; simpl; [tauto|]. destruct (branch_eqb y b); [intros H; right; exact H|].
  intros [H|H]; [left; exact H|right; apply IH, H]. Qed.

Theorem element_sound (n : network K) (id : label) (z : K) : wf n -> element_impedance n id = Ok (Some z) ->
  exists b m, get_branch (branches n) id = Some b /\ remove_element n id = Ok m
    /\ branches m = remove_first b (branches n) /\ zero m = zero n /\ wf m
    /\ open_circuit_impedance m (node1 b) (node2 b) = Ok (Some z)
    /\ PortZ m (node1 b) (node2 b) z /\ (forall z', PortZ m (node1 b) (node2 b) z' -> z' = z).
Proof. intros WF H. unfold element_impedance in H. destruct (remove_element n id) as [m|e] eqn:RM; simpl in H; [|discriminate].
  destruct (get_branch (branches n) id) as [b|] eqn:G; [|discriminate].
  exists b, m. unfold remove_element in RM. rewrite G in RM. unfold mk in RM.
  destruct (validate_ok K _ _ RM) as [-> [ND HZ]].
  assert (WFm : wf {| branches := remove_first b (branches n); zero := zero n |}).
  { split; [exact ND|]. split; [exact HZ|]. intros x Hx. apply (proj2 (proj2 WF)). apply (remove_first_In b _ x Hx). }
  destruct (port_sound _ _ _ z WFm H) as [P U].
  split; [reflexivity|]. split; [reflexivity|]. split; [reflexivity|]. split; [reflexivity|].
  split; [exact WFm|]. split; [exact H|]. split; [exact P|exact U]. Qed.

End PortDel.

Arguments expand {K}.
