(* Theory/HarmonicsTh.v — algebraic consistency of the a/b/c coefficient forms with the (amplitude, phase) pair,
   symmetry under n |-> -n, the lookup tables, and the link between the per-wave theorems of FourierWaves.v
   and the API-level [fourier_series] / [amplitude] / [phase] of Model/Harmonics.v. *)
From Coq Require Import Reals ZArith NArith List Bool Lra Lia.
From Coquelicot Require Import Coquelicot.
From CC Require Import Model.Network Theory.Labels Model.Rops Theory.RopsR Gen.Periodic Model.Harmonics
  Theory.Fourier Theory.FourierWaves.
Import ListNotations.
Open Scope R_scope.

(* ---------------------------------------------------------------- generic in the operations *)
Lemma amplitude_neg (O : rops) (h : harmonics O) (n : Z) : amplitude O h (- n) = amplitude O h n.
Proof.
  unfold amplitude. destruct (Z.ltb_spec (- n) 0) as [H1|H1]; destruct (Z.ltb_spec n 0) as [H2|H2].
  - lia.
  - rewrite Z.opp_involutive. reflexivity.
  - reflexivity.
  - replace n with 0%Z by lia. reflexivity.
Qed.

Lemma phase_neg_pos (O : rops) (h : harmonics O) (n : Z) : (0 < n)%Z ->
  phase O h (- n) = ropp O (phase O h n).
Proof.
  intros Hn. unfold phase. destruct (Z.ltb_spec (- n) 0) as [H1|H1]; [|lia].
  destruct (Z.ltb_spec n 0) as [H2|H2]; [lia|]. rewrite Z.opp_involutive. reflexivity.
Qed.

Lemma amplitude_nonneg (O : rops) (h : harmonics O) (n : Z) : (0 <= n)%Z -> amplitude O h n = amp_coeff O h n.
Proof. intros Hn. unfold amplitude. destruct (Z.ltb_spec n 0); [lia|reflexivity]. Qed.
Lemma phase_nonneg (O : rops) (h : harmonics O) (n : Z) : (0 <= n)%Z -> phase O h n = ph_coeff O h n.
Proof. intros Hn. unfold phase. destruct (Z.ltb_spec n 0); [lia|reflexivity]. Qed.

(* ---------------------------------------------------------------- over R *)
Section OverR.
Variable h : harmonics ROps.
Notation amplitudeR := (amplitude ROps h).
Notation phaseR := (phase ROps h).

Lemma phase_neg (n : Z) : n <> 0%Z -> phaseR (- n) = - phaseR n.
Proof.
  intros Hn. unfold phase. destruct (Z.ltb_spec (- n) 0) as [H1|H1]; destruct (Z.ltb_spec n 0) as [H2|H2];
    try lia; simpl.
  - rewrite Z.opp_involutive. reflexivity.
  - rewrite Ropp_involutive. reflexivity.
Qed.

Lemma coef_a_spec (n : Z) : coef_a ROps h n = amplitudeR n * cos (phaseR n).
Proof. reflexivity. Qed.

Lemma coef_b_spec (n : Z) : coef_b ROps h n = - (amplitudeR n * sin (phaseR n)).
Proof. unfold coef_b. simpl. ring. Qed.

(* c n = (a n - i b n) / 2 for n >= 0 *)
Lemma coef_c_spec (n : Z) : (0 <= n)%Z ->
  coef_c ROps h n = (coef_a ROps h n / 2, - coef_b ROps h n / 2).
Proof.
  intros Hn. unfold coef_c, coef_a, coef_b, cscal, cis. destruct (Z.ltb_spec n 0) as [H|H]; [lia|].
  simpl. f_equal; field.
Qed.

(* c (-n) = conj (c n) *)
Lemma coef_c_conj (n : Z) : n <> 0%Z -> coef_c ROps h (- n) = cconj ROps (coef_c ROps h n).
Proof.
  intros Hn. unfold coef_c, cconj, cscal, cis.
  destruct (Z.ltb_spec (- n) 0) as [H1|H1]; destruct (Z.ltb_spec n 0) as [H2|H2]; try lia; simpl.
  - rewrite Z.opp_involutive, cos_neg, sin_neg. f_equal. ring.
  - rewrite cos_neg, sin_neg. f_equal. ring.
Qed.

Lemma fourier_coefficients_api (T : R) (f : R -> R) :
  fourier_coefficients T f (amp_coeff ROps h) (ph_coeff ROps h) -> fourier_coefficients T f amplitudeR phaseR.
Proof.
  intros [H0 Hn]. split.
  - rewrite amplitude_nonneg by lia. exact H0.
  - intros n Hn1. rewrite amplitude_nonneg, phase_nonneg by lia. exact (Hn n Hn1).
Qed.
End OverR.

(* ---------------------------------------------------------------- every listed wave, through the tables *)
Theorem coefficients_all (i : N) (T A phi off : R) (f : R -> R -> R -> R -> R -> R) (h : harmonics ROps) :
  0 < T -> time_function ROps i = Some f -> fourier_series ROps i T A phi off = POk h ->
  fourier_coefficients T (f T A phi off) (amplitude ROps h) (phase ROps h).
Proof.
  intros HT Hf Hs. apply fourier_coefficients_api.
  unfold fourier_series in Hs. cbn [harmonics_of assocN] in Hs.
  repeat match type of Hs with context [N.eqb ?k i] =>
    let E := fresh "E" in destruct (N.eqb_spec k i) as [E|E]; [subst i|cbn [harmonics_of assocN] in Hs] end;
    try discriminate Hs;
    cbn in Hf, Hs; injection Hf as Hf; injection Hs as Hs; subst f h; cbn [amp_coeff ph_coeff].
  - apply const_fourier; exact HT.
  - apply cos_fourier; exact HT.
  - apply sin_fourier; exact HT.
  - apply rect_fourier; exact HT.
  - apply tri_fourier; exact HT.
  - apply saw_fourier; exact HT.
Qed.

(* fourier_series_mapping is total on the listed classes, for any operations *)
Theorem fourier_series_total (O : rops) (i : N) (p a ph o : RT O) : In i periodic_functions ->
  (exists f, time_function O i = Some f) /\
  (exists fa fp, amplitude_coefficient O i = Some fa /\ phase_coefficient O i = Some fp /\
     fourier_series O i p a ph o = POk {| amp_coeff := fa a ph o; ph_coeff := fp a ph o |}).
Proof.
  intros Hi. cbn in Hi.
  repeat (destruct Hi as [Hi|Hi]; [subst i; split; [eexists; reflexivity| do 2 eexists; repeat split; reflexivity]|]).
  contradiction.
Qed.

(* ---------------------------------------------------------------- lookup by wavetype name *)
Theorem lookup_found (w : label) (i : N) : In (w, i) wavetypes -> periodic_function w = POk i.
Proof.
  intros H. cbn in H.
  repeat (destruct H as [H|H]; [injection H as Hw Hi; subst w i; vm_compute; reflexivity|]).
  contradiction.
Qed.

Theorem lookup_spec (name : label) :
  match periodic_function name with
  | POk i => In (name, i) wavetypes
  | PErr e => e = EUnknownWavetype /\ forall i, ~ In (name, i) wavetypes
  end.
Proof.
  unfold periodic_function. cbn [periodic_functions filter].
  repeat match goal with |- context [wavetype_of ?k] =>
    let w := eval vm_compute in (wavetype_of k) in change (wavetype_of k) with w; cbv beta iota end.
  repeat match goal with |- context [label_eqb ?w name] =>
    let E := fresh "E" in destruct (label_eqb_spec w name) as [E|E]; [subst name; cbn; tauto|] end.
  split; [reflexivity|]. intros i H. cbn in H.
  repeat (destruct H as [H|H]; [injection H as Hw Hi; congruence|]). contradiction.
Qed.

(* ---------------------------------------------------------------- the mean-square / Parseval clause (statement only) *)
Definition partial_sum (T : R) (amp ph : Z -> R) (N : nat) (t : R) : R :=
  amp 0%Z + sum_n_m (fun n => amp (Z.of_nat n) * cos (INR n * (2 * PI / T) * t + ph (Z.of_nat n))) 1 N.

Definition mean_square_series (T : R) (f : R -> R) (amp ph : Z -> R) : Prop :=
  (forall N, ex_RInt (fun t => (f t - partial_sum T amp ph N t) ^ 2) 0 T) /\
  is_lim_seq (fun N => RInt (fun t => (f t - partial_sum T amp ph N t) ^ 2) 0 T) 0 /\
  ex_RInt (fun t => f t ^ 2) 0 T /\
  is_lim_seq (fun N => amp 0%Z ^ 2 + sum_n_m (fun n => amp (Z.of_nat n) ^ 2 / 2) 1 N)
             (RInt (fun t => f t ^ 2) 0 T / T).
