(* Theory/StateSpaceTrajectoryEx.v — the series RC circuit of Theory/StateSpaceEnergyEx.v (Vs -- R1 = 2 -- C1 = 1/2,
   model x' = - x + u) as a concrete instance for Properties/C12d.v:
     the source is switched on at t = 0:  u(t) = 0 for t <= 0, 1 for t > 0  (a discontinuous input), the exact response
     on [0, t1] is x(t) = 1 - exp (- t); it starts from rest; its reports are v_C = 1 - exp (- t), i_C = exp (- t) / 2;
     the equilibrium xs = 1 of the input 1 and the DC network (capacitor = admittance 0 * C), which the library's
     solver solves (certificate: a left inverse of its MNA matrix). *)
From Coq Require Import Reals List Bool ZArith NArith Lra Lia.
From Coq Require String.
From Coquelicot Require Import Coquelicot.
From CC Require Import Theory.Field Theory.Complex Theory.Labels Model.Network Model.StateSpace Model.Circuit Theory.Spec
  Theory.Api Theory.Gauss Theory.Matrix Theory.StateSpaceThm Theory.StateSpacePhasor Theory.StateSpaceLyap
  Theory.StateSpaceEnergy Theory.StateSpaceEnergyEx Theory.StateSpaceTrajectory.
Import ListNotations.

(* a left inverse of the MNA matrix certifies that the checked solver succeeds *)
Section Cert.
Variable K : fops.
Hypothesis KOK : fops_ok K.

Lemma solve_network_of_left_inverse (n : network K) (X : list (list K)) : wf n ->
  wfm (length (node_index n) + length (vs_index n)) (length (node_index n) + length (vs_index n)) X ->
  mat_mul (length (node_index n) + length (vs_index n)) X (mna_matrix n)
    = @ident K (length (node_index n) + length (vs_index n)) ->
  exists s, solve_network n = Ok s.
Proof. intros WF WX XA. set (dim := (length (node_index n) + length (vs_index n))%nat) in *.
  pose proof (mna_square K n) as SQ. fold dim in SQ. pose proof (proj2 (wfm_square K dim (mna_matrix n)) SQ) as WA.
  destruct SQ as [SL SR].
  assert (KA : forall y, length y = dim -> mat_vec (mna_matrix n) y = map (fun _ => f0 K) (mna_matrix n) ->
                         y = map (fun _ => f0 K) y).
  { intros y Ly Hy. rewrite <- (mat_vec_ident K KOK dim y Ly) at 1. rewrite <- XA.
    rewrite (mat_vec_mul K KOK dim dim dim X (mna_matrix n) y WX WA), Hy, (mat_vec_zero K KOK).
    apply (vec_ext K); [rewrite !map_length; destruct WX as [LX _]; lia|].
    intros k _. rewrite !(nth_map_zero K). reflexivity. }
  destruct (solve_complete K KOK dim (mna_matrix n) (mna_rhs n) SL SR (mna_rhs_length K n) KA) as [x Hx].
  unfold solve_network. rewrite (validate_wf K n WF). simpl. rewrite Hx. eexists. reflexivity. Qed.
End Cert.

Local Open Scope R_scope.
Import String.
Local Open Scope string_scope.

Lemma rc_nS : ss_nS Rfops rc_net rc_l = 1%nat.
Proof. reval. reflexivity. Qed.

(* the input: the source is switched on at t = 0 *)
Definition rc_ustep (t : R) : list R := if Rle_dec t 0 then [0] else [1].

Lemma rc_ustep_on (t : R) : 0 < t -> rc_ustep t = rc_u.
Proof. intros Ht. unfold rc_ustep. destruct (Rle_dec t 0) as [H|H]; [lra|reflexivity]. Qed.

Lemma rc_ustep_0 : rc_ustep 0 = [0].
Proof. unfold rc_ustep. destruct (Rle_dec 0 0) as [H|H]; [reflexivity|lra]. Qed.

Lemma rc_ustep_len (t : R) : List.length (rc_ustep t) = ss_nS Rfops rc_net rc_l.
Proof. rewrite rc_nS. unfold rc_ustep. destruct (Rle_dec t 0); reflexivity. Qed.

Lemma rc_xu_len (t : R) : List.length (rc_xu t) = ss_nst Rfops rc_c rc_l.
Proof. reflexivity. Qed.

Lemma rc_step_der (k : nat) (t t1 : R) : (k < ss_nst Rfops rc_c rc_l)%nat -> 0 < t < t1 ->
  is_derive (fun s => nth k (rc_xu s) 0) t (nth k (ss_xdot Rfops rc_m (rc_xu t) (rc_ustep t)) 0).
Proof. intros Hk Ht. rewrite (rc_ustep_on t) by lra. apply rc_xu_der, Hk. Qed.

(* it starts from rest *)
Lemma rc_xu_0 (k : nat) : nth k (rc_xu 0) 0 = 0.
Proof. unfold rc_xu. rewrite Ropp_0, exp_0. destruct k as [|[|k]]; simpl; lra. Qed.

Lemma rc_ustep_0_nth (k : nat) : nth k (rc_ustep 0) 0 = 0.
Proof. rewrite rc_ustep_0. destruct k as [|[|k]]; reflexivity. Qed.

(* the capacitor branch and its value *)
Definition rc_C1 : branch Rfops := Build_branch (lbl "2") (lbl "0") (admittance (lbl "C1") (0 : Rfops)).

Lemma rc_C1_in : In rc_C1 (branches rc_net).
Proof. right. right. left. reflexivity. Qed.
Lemma rc_C1_cap : lmem (bid rc_C1) (ckeys Rfops rc_c) = true.
Proof. reflexivity. Qed.
Lemma rc_C1_id : bid rc_C1 = lbl "C1".
Proof. reflexivity. Qed.
Lemma rc_C1_value : vlookup Rfops rc_c (lbl "C1") = / 2.
Proof. reflexivity. Qed.

(* the reports of the library's rows along the response, in closed form *)
Lemma rc_report_voltage (t : R) : 0 < t ->
  rep_voltage rc_net rc_c rc_l rc_m rc_xu rc_ustep (lbl "C1") t = 1 - exp (- t).
Proof. intros Ht. unfold rep_voltage. rewrite (rc_ustep_on t Ht). reval. lra. Qed.

Lemma rc_report_current (t : R) : 0 < t ->
  rep_current rc_net rc_c rc_l rc_m rc_xu rc_ustep (lbl "C1") t = / 2 * exp (- t).
Proof. intros Ht. unfold rep_current. rewrite (rc_ustep_on t Ht). reval. lra. Qed.

(* ---------------- the DC network of the switched-on source ---------------- *)
Definition rc_dc : network Rfops := pnet Rfops rc_net rc_c rc_l 0 rc_u.

Lemma rc_dc_branches : branches rc_dc =
  [ Build_branch (lbl "1") (lbl "0") (ZV (lbl "Vs") k_voltage_source (0 : Rfops) (1 : Rfops));
    Build_branch (lbl "1") (lbl "2") (resistor (lbl "R1") (2 : Rfops));
    Build_branch (lbl "2") (lbl "0") (YI (lbl "C1") k_admittance (0 * / 2 : Rfops) (0 : Rfops)) ].
Proof. unfold rc_dc. reval. reflexivity. Qed.

Lemma rc_dc_wf : wf rc_dc.
Proof. apply wfb_ok. unfold wfb, branch_ids. rewrite rc_dc_branches. reflexivity. Qed.

Lemma rc_dc_solved : exists sol, solve_network rc_dc = Ok sol.
Proof.
  assert (EN : node_index rc_dc = [lbl "1"; lbl "2"]) by (unfold rc_dc; reval; reflexivity).
  assert (EV : vs_index rc_dc = [lbl "Vs"]) by (unfold rc_dc; reval; reflexivity).
  assert (EM : mna_matrix rc_dc = rc_P) by (unfold rc_dc, rc_P; reval; list_eq; rsolve).
  apply (solve_network_of_left_inverse Rfops Rfops_ok rc_dc rc_X1 rc_dc_wf); rewrite EN, EV; simpl List.length.
  - unfold rc_X1. wfm_list.
  - rewrite EM. unfold rc_P, rc_X1. rcbv. list_eq; rsolve. Qed.

Lemma rc_xs_len : List.length rc_xs = ss_nst Rfops rc_c rc_l.
Proof. reflexivity. Qed.
Lemma rc_u_len : List.length rc_u = ss_nS Rfops rc_net rc_l.
Proof. rewrite rc_nS. reflexivity. Qed.

(* the DC analysis: node 1 and node 2 at 1 V, nothing flows *)
Lemma rc_dc_answer (sol : solution Rfops) : solve_network rc_dc = Ok sol ->
  get_potential sol (lbl "1") = Ok 1 /\ get_potential sol (lbl "2") = Ok 1 /\ get_voltage sol (lbl "C1") = Ok 1.
Proof. intros E.
  destruct (ss_dc_solver Rfops Rfops_ok rc_net rc_c rc_l rc_lam_nz rc_rlc rc_m rc_ssm rc_xs rc_u rc_xs_len rc_u_len
              rc_xs_eq sol E) as [S1 [S2 _]].
  rewrite <- (S1 (lbl "1")) by (reval; tauto). rewrite <- (S1 (lbl "2")) by (reval; tauto).
  rewrite <- rc_C1_id. rewrite <- (proj1 (S2 rc_C1 rc_C1_in)).
  repeat split; reval; f_equal; lra. Qed.
