(* Theory/DrawingGenThm.v — the drawing parser / translator regenerated from the Python source (Gen/DrawingGen.v, produced by
   tools/gen_drawing.py in the vocabulary of Model/DrawingPrims.v) against the hand-written model Model/Drawing.v:
   A. the facts read off Elements.py (subclass lists, classes with a name, get_nodes);
   B. g_<method> = <method of Model/Drawing.v> for every method of SchematicDiagramParser, for DiagramTranslator.__call__,
      circuit_translator and network_translator;
   C. the component translators: class -> function table, terminals, sign bookkeeping and value keys. *)
From Coq Require Import String.
From Coq Require Import List Bool ZArith NArith Arith Lia.
From CC Require Gen.Tables.
From CC Require Import Theory.Field Model.Network Model.Circuit Model.Drawing Model.DrawingPrims Gen.DrawingGen
  Theory.DrawingThm.
Import ListNotations.
Local Open Scope nat_scope.

(* ====================================================================================================== *)
(* 0. the primitives                                                                                       *)
(* ====================================================================================================== *)
Lemma kd_get_eq (m : pdict) k : kd_get m k = dict_get m k.
Proof. induction m as [|[k' v] r IH]; simpl; [reflexivity|]. rewrite IH. reflexivity. Qed.
Lemma kd_set_eq (m : pdict) k v : kd_set m k v = dict_set m k v.
Proof. induction m as [|[k' v'] r IH]; simpl; [reflexivity|]. rewrite IH. reflexivity. Qed.

Lemma kd_set_same {V} (m : kdict V) k v : kd_get (kd_set m k v) k = Some v.
Proof.
  induction m as [|[k' v'] r IH]; simpl.
  - rewrite pt_eqb_refl. reflexivity.
  - destruct (pt_eqb k' k) eqn:E; simpl; rewrite E; [reflexivity|exact IH].
Qed.
Lemma kd_set_other {V} (m : kdict V) k v k' : k' <> k -> kd_get (kd_set m k v) k' = kd_get m k'.
Proof.
  intros Hne. induction m as [|[k0 v0] r IH]; simpl.
  - destruct (pt_eqb_spec k k') as [->|_]; [contradiction Hne; reflexivity|reflexivity].
  - destruct (pt_eqb k0 k) eqn:E; simpl.
    + destruct (pt_eqb_spec k0 k) as [->|]; [|discriminate].
      destruct (pt_eqb_spec k k') as [->|_]; [contradiction Hne; reflexivity|reflexivity].
    + rewrite IH. reflexivity.
Qed.

Lemma filter_true {A} (p : A -> bool) (l : list A) : (forall x, In x l -> p x = true) -> filter p l = l.
Proof.
  induction l as [|a l IH]; simpl; intros H; [reflexivity|].
  rewrite (H a (or_introl eq_refl)). f_equal. apply IH. intros x Hx. apply H. right. exact Hx.
Qed.
Lemma filter_filter {A} (p q : A -> bool) (l : list A) : filter q (filter p l) = filter (fun x => p x && q x) l.
Proof.
  induction l as [|a l IH]; simpl; [reflexivity|].
  destruct (p a); simpl; [destruct (q a); rewrite IH; reflexivity|exact IH].
Qed.
Lemma pmem_cons x a l : pmem x (a :: l) = pt_eqb x a || pmem x l.
Proof. reflexivity. Qed.
Lemma pmem_filter (p : point -> bool) x l : pmem x (filter p l) = pmem x l && p x.
Proof.
  induction l as [|a l IH]; simpl; [reflexivity|].
  destruct (p a) eqn:Pa; simpl; fold (pmem x (filter p l)); fold (pmem x l); rewrite IH.
  - destruct (pt_eqb_spec x a) as [->|]; simpl; [rewrite Pa; destruct (pmem a l); reflexivity|reflexivity].
  - destruct (pt_eqb_spec x a) as [->|]; simpl; [rewrite Pa; destruct (pmem a l); reflexivity|reflexivity].
Qed.
Lemma fold_left_map {A B C} (f : A -> B -> A) (g : C -> B) (l : list C) (a : A) :
  fold_left f (map g l) a = fold_left (fun a c => f a (g c)) l a.
Proof. revert a. induction l as [|c l IH]; simpl; intros a; [reflexivity|apply IH]. Qed.
Lemma fold_left_ext_in {A B} (f g : A -> B -> A) (l : list B) (a : A) :
  (forall a b, In b l -> f a b = g a b) -> fold_left f l a = fold_left g l a.
Proof.
  revert a. induction l as [|b l IH]; simpl; intros a H; [reflexivity|].
  rewrite (H a b (or_introl eq_refl)). apply IH. intros a' b' Hb. apply H. right. exact Hb.
Qed.

(* for_res with a body that always succeeds is fold_left *)
Lemma for_res_ok {A S} (l : list A) (f : S -> A -> res S) (g : S -> A -> S) (s : S) :
  (forall s x, In x l -> f s x = Ok (g s x)) -> for_res l s f = Ok (fold_left g l s).
Proof.
  revert s. induction l as [|a l IH]; simpl; intros s H; [reflexivity|].
  rewrite (H s a (or_introl eq_refl)). simpl. apply IH. intros s' x Hx. apply H. right. exact Hx.
Qed.

(* adding the members of pnub B is adding the members of B *)
Lemma padd_in x l : pmem x l = true -> padd x l = l.
Proof. intros H. unfold padd. rewrite H. reflexivity. Qed.
Lemma padd_notin x l : pmem x l = false -> padd x l = l ++ [x].
Proof. intros H. unfold padd. rewrite H. reflexivity. Qed.
Lemma padd_fold_comm (b : point) (acc Y : list point) :
  fold_left (fun a x => padd x a) (padd b acc) Y = padd b (fold_left (fun a x => padd x a) acc Y).
Proof.
  destruct (pmem b acc) eqn:E.
  - rewrite (padd_in _ _ E). symmetry. apply padd_in. apply pmem_spec. apply pnub_fold_In. right. apply pmem_spec. exact E.
  - rewrite (padd_notin _ _ E). rewrite fold_left_app. reflexivity.
Qed.
Lemma union_fold (B acc Y : list point) :
  fold_left (fun a x => padd x a) (fold_left (fun a x => padd x a) B acc) Y
  = fold_left (fun a x => padd x a) B (fold_left (fun a x => padd x a) acc Y).
Proof.
  revert acc. induction B as [|b B IH]; simpl; intros acc; [reflexivity|].
  rewrite IH. rewrite padd_fold_comm. reflexivity.
Qed.
Lemma set_union_pnub (Y B : list point) : set_union Y (set_of_list B) = fold_left (fun a x => padd x a) B Y.
Proof. unfold set_union, set_of_list, pnub. rewrite union_fold. reflexivity. Qed.

(* ====================================================================================================== *)
(* A. Elements.py                                                                                          *)
(* ====================================================================================================== *)
Ltac class_cases c :=
  destruct c as [|c]; [reflexivity|];
  do 5 (try (destruct c as [c|c|]; try reflexivity)).

Lemma classes_with_name_ok (c : N) : class_in c g_classes_with_name = has_name c.
Proof. class_cases c. Qed.
Lemma subclasses_Node_ok (s : symbol) : isinstance s g_subclasses_Node = is_node s.
Proof. unfold isinstance, is_node. generalize (s_class s) as c. intros c. class_cases c. Qed.
Lemma subclasses_Ground_ok (s : symbol) : isinstance s g_subclasses_Ground = is_ground_sym s.
Proof. unfold isinstance, is_ground_sym. generalize (s_class s) as c. intros c. class_cases c. Qed.
Lemma subclasses_Line_ok : g_subclasses_Line = [c_Line; c_LabeledLine].
Proof. reflexivity. Qed.
Lemma type_is_Line_ok (s : symbol) : type_is s c_Line = is_line s.
Proof. reflexivity. Qed.
Lemma get_nodes_ok (e : symbol) : g_get_nodes e = [s_start e; s_end e].
Proof. reflexivity. Qed.

(* ====================================================================================================== *)
(* B. DiagramParser.py                                                                                     *)
(* ====================================================================================================== *)
Lemma eq_all_elements d : g_all_elements d = d.
Proof. reflexivity. Qed.
Lemma eq_circuit_elements d : g_circuit_elements d = circuit_elements d.
Proof.
  unfold g_circuit_elements, circuit_elements, g_all_elements, drawing_elements. apply filter_ext. intros s.
  unfold has_attribute. apply classes_with_name_ok.
Qed.
Lemma eq_line_elements d : g_line_elements d = line_elements d.
Proof. reflexivity. Qed.
Lemma eq_node_elements d : g_node_elements d = node_elements d.
Proof.
  unfold g_node_elements, node_elements, g_all_elements, drawing_elements. apply filter_ext. exact subclasses_Node_ok.
Qed.

Lemma eq_all_nodes d : g_all_nodes d = all_nodes d.
Proof.
  unfold g_all_nodes, all_nodes. rewrite eq_circuit_elements, eq_line_elements.
  rewrite !set_union_pnub. unfold set_of_list, pnub. rewrite !fold_left_app. reflexivity.
Qed.

(* ------------------------------------------------------------------ _get_equal_electrical_potential_nodes *)
(* the Python loop, with the loop state (old_length, set) *)
Definition closure_cond (st : nat * list point) : bool := let '(old, X) := st in Nat.ltb old (length X).
Definition closure_body (ws : list (point * point)) (st : nat * list point) : nat * list point :=
  let '(old, X) := st in (length X, pass ws X).

Lemma while_iterate ws : forall f X, unsat ws X < f ->
  snd (while_loop f closure_cond (closure_body ws) (length X, pass ws X)) = iterate ws f X.
Proof.
  induction f as [|f IH]; intros X Hf; [lia|].
  simpl. destruct (Nat.ltb (length X) (length (pass ws X))) eqn:E.
  - apply Nat.ltb_lt in E. apply IH. pose proof (pass_unsat ws X E). lia.
  - reflexivity.
Qed.

Lemma python_closure_loop ws p k :
  snd (while_loop (S (S (length ws)) + k) closure_cond (closure_body ws) (0, [p])) = iterate ws (S (length ws) + k) [p].
Proof.
  change (S (S (length ws)) + k) with (S (S (length ws) + k)).
  cbn [while_loop closure_cond]. change (Nat.ltb 0 (length [p])) with true. cbv iota.
  change (closure_body ws (0, [p])) with (length [p], pass ws [p]).
  apply while_iterate. pose proof (unsat_le ws [p]). lia.
Qed.

Lemma gen_body_pass d (X : list point) :
  fold_left (fun (X : list point) (line : symbol) =>
               let n1 := rounded_anchor line A_start in let n2 := rounded_anchor line A_end in
               if set_mem n1 X then set_add n2 X else if set_mem n2 X then set_add n1 X else X) (line_elements d) X
  = pass (wires d) X.
Proof. unfold pass, wires. rewrite fold_left_map. reflexivity. Qed.

Lemma while_loop_ext {S} (cond cond' : S -> bool) (body body' : S -> S) :
  (forall s, cond s = cond' s) -> (forall s, body s = body' s) ->
  forall f s, while_loop f cond body s = while_loop f cond' body' s.
Proof.
  intros Hc Hb. induction f as [|f IH]; intros s; simpl; [reflexivity|].
  rewrite Hc. destruct (cond' s); [|reflexivity]. rewrite Hb. apply IH.
Qed.

(* the source form `old = 0; while len(X) > old: old = len(X); for line in self.line_elements: n1, n2 = get_nodes(line); ..` *)
Lemma closure_form_while d p :
  (let X := set_of_list [p] in
   let old := 0 in
   let '(old, X) := while_loop (loop_bound (g_line_elements d)) (fun '(old, X) => Nat.ltb old (length X))
     (fun '(old, X) =>
        let old := length X in
        let X := fold_left (fun (X : list point) (line : symbol) =>
                   let n1 := rounded_anchor line A_start in let n2 := rounded_anchor line A_end in
                   let X := if set_mem n1 X then let X := set_add n2 X in X
                            else let X := if set_mem n2 X then let X := set_add n1 X in X else X in X in X)
                   (g_line_elements d) X in
        (old, X)) (old, X) in X)
  = equal_potential_nodes d p.
Proof.
  cbv zeta. rewrite eq_line_elements.
  assert (Hlen : length (line_elements d) = length (wires d)) by (unfold wires; rewrite map_length; reflexivity).
  unfold loop_bound. rewrite Hlen.
  pose proof (python_closure_loop (wires d) p 0) as H. rewrite !Nat.add_0_r in H.
  unfold equal_potential_nodes. rewrite <- H. clear H.
  erewrite (while_loop_ext _ closure_cond _ (closure_body (wires d))).
  - change (set_of_list [p]) with [p]. destruct (while_loop _ _ _ _). reflexivity.
  - intros [old X]. reflexivity.
  - intros [old X]. unfold closure_body. rewrite <- gen_body_pass. reflexivity.
Qed.

(* the form `ends = [get_nodes(line) for line in self.line_elements]; while True: old = len(X); for n1, n2 in ends: ..;
   if len(X) == old: return X` *)
Definition until_body (ws : list (point * point)) (X : list point) : nat * list point := (length X, pass ws X).
Definition until_stop (st : nat * list point) : bool := let '(old, X) := st in Nat.eqb (length X) old.
Definition until_next (st : nat * list point) : list point := let '(old, X) := st in X.

Lemma do_until_iterate ws : forall f X,
  snd (do_until f (until_body ws) until_stop until_next X) = iterate ws (S f) X.
Proof.
  induction f as [|f IH]; intros X.
  - cbn [do_until until_body snd iterate]. destruct (Nat.ltb (length X) (length (pass ws X))); reflexivity.
  - cbn [do_until]. change (iterate ws (S (S f)) X)
      with (if Nat.ltb (length X) (length (pass ws X)) then iterate ws (S f) (pass ws X) else pass ws X).
    pose proof (pass_length ws X) as Hle. unfold until_body at 1 3. cbn [until_stop until_next].
    destruct (Nat.eqb_spec (length (pass ws X)) (length X)) as [E|E].
    + destruct (Nat.ltb_spec (length X) (length (pass ws X))) as [L|_]; [lia|reflexivity].
    + destruct (Nat.ltb_spec (length X) (length (pass ws X))) as [_|L]; [apply IH|lia].
Qed.

Lemma do_until_ext {S S'} (body body' : S -> S') (stop stop' : S' -> bool) (next next' : S' -> S) :
  (forall s, body s = body' s) -> (forall s, stop s = stop' s) -> (forall s, next s = next' s) ->
  forall f s, do_until f body stop next s = do_until f body' stop' next' s.
Proof.
  intros Hb Hs Hn. induction f as [|f IH]; intros s; cbn [do_until]; rewrite Hb; [reflexivity|].
  rewrite Hs. destruct (stop' (body' s)); [reflexivity|]. rewrite Hn. apply IH.
Qed.

Lemma gen_body_pass_pairs (ws : list (point * point)) (X : list point) :
  fold_left (fun (X : list point) '(n1, n2) =>
               if set_mem n1 X then set_add n2 X else if set_mem n2 X then set_add n1 X else X) ws X
  = pass ws X.
Proof. unfold pass. apply fold_left_ext_in. intros Y [a b] _. reflexivity. Qed.

Lemma closure_form_until d p :
  (let X := set_of_list [p] in
   let ends := map (fun line => (rounded_anchor line A_start, rounded_anchor line A_end)) (g_line_elements d) in
   let '(old, X) := do_until (loop_bound ends)
     (fun X =>
        let old := length X in
        let X := fold_left (fun (X : list point) '(n1, n2) =>
                   let X := if set_mem n1 X then let X := set_add n2 X in X
                            else let X := if set_mem n2 X then let X := set_add n1 X in X else X in X in X)
                   ends X in
        (old, X))
     (fun '(old, X) => Nat.eqb (length X) old) (fun '(old, X) => X) X in X)
  = equal_potential_nodes d p.
Proof.
  cbv zeta. rewrite eq_line_elements.
  change (map (fun line => (rounded_anchor line A_start, rounded_anchor line A_end)) (line_elements d)) with (wires d).
  change (set_of_list [p]) with [p].
  rewrite (do_until_ext _ (until_body (wires d)) _ until_stop _ until_next).
  - pose proof (do_until_iterate (wires d) (loop_bound (wires d)) [p]) as H.
    destruct (do_until _ _ _ _ _) as [old X]. cbn [snd] in H. rewrite H.
    unfold loop_bound. rewrite <- (closure_fuel d p 2). f_equal. lia.
  - intros X. unfold until_body. rewrite <- gen_body_pass_pairs. reflexivity.
  - intros [old X]. reflexivity.
  - intros [old X]. reflexivity.
Qed.

(* more fuel never changes the result of the `while True` form either *)
Lemma until_loop_fuel d p k :
  snd (do_until (loop_bound (wires d) + k) (until_body (wires d)) until_stop until_next [p]) = equal_potential_nodes d p.
Proof. rewrite do_until_iterate. unfold loop_bound. rewrite <- (closure_fuel d p (2 + k)). f_equal. lia. Qed.

Lemma eq_get_equal_electrical_potential_nodes d p :
  g__get_equal_electrical_potential_nodes d p = equal_potential_nodes d p.
Proof. first [exact (closure_form_while d p) | exact (closure_form_until d p)]. Qed.

(* more fuel never changes the result of the Python loop *)
Lemma closure_loop_fuel d p k :
  snd (while_loop (loop_bound (line_elements d) + k) closure_cond (closure_body (wires d)) (0, [p])) = equal_potential_nodes d p.
Proof.
  assert (Hlen : length (line_elements d) = length (wires d)) by (unfold wires; rewrite map_length; reflexivity).
  unfold loop_bound. rewrite Hlen. rewrite python_closure_loop. apply closure_fuel.
Qed.

(* ------------------------------------------------------------------ unique_nodes *)
Lemma NoDup_snoc {A} (x : A) l : NoDup l -> ~ In x l -> NoDup (l ++ [x]).
Proof.
  induction l as [|a l IH]; simpl; intros H Hx.
  - constructor; [intros []|constructor].
  - inversion H as [|a' l' Ha Hl]; subst. constructor.
    + intros Hin. apply in_app_or in Hin. destruct Hin as [Hin|[Hin|[]]]; [exact (Ha Hin)|]. apply Hx. left. symmetry. exact Hin.
    + apply IH; [exact Hl|]. intros Hin. apply Hx. right. exact Hin.
Qed.
Lemma padd_NoDup x l : NoDup l -> NoDup (padd x l).
Proof.
  intros H. destruct (pmem x l) eqn:E; [rewrite (padd_in _ _ E); exact H|].
  rewrite (padd_notin _ _ E). apply NoDup_snoc; [exact H|]. apply pmem_false. exact E.
Qed.
Lemma visit_NoDup X w : NoDup X -> NoDup (visit X w).
Proof. intros H. unfold visit. destruct (pmem (fst w) X); [apply padd_NoDup; exact H|]. destruct (pmem (snd w) X); [apply padd_NoDup|]; exact H. Qed.
Lemma pass_NoDup ws : forall X, NoDup X -> NoDup (pass ws X).
Proof. unfold pass. induction ws as [|w ws IH]; simpl; intros X H; [exact H|]. apply IH. apply visit_NoDup. exact H. Qed.
Lemma iterate_NoDup ws : forall f X, NoDup X -> NoDup (iterate ws f X).
Proof.
  induction f as [|f IH]; simpl; intros X H; [exact H|].
  destruct (Nat.ltb (length X) (length (pass ws X))); [apply IH|]; apply pass_NoDup; exact H.
Qed.
Lemma closure_NoDup d p : NoDup (equal_potential_nodes d p).
Proof. unfold equal_potential_nodes. apply iterate_NoDup. constructor; [intros []|constructor]. Qed.
Lemma closure_self d p : pmem p (equal_potential_nodes d p) = true.
Proof. apply pmem_spec. unfold equal_potential_nodes. apply iterate_incl. left. reflexivity. Qed.

(* for n in <set l>: nodes.remove(n) *)
Lemma remove_all (l : list point) : forall nodes, NoDup l -> (forall x, In x l -> In x nodes) ->
  for_res l nodes (fun nodes n => bind (set_remove n nodes) (fun nodes => Ok nodes))
  = Ok (filter (fun x => negb (pmem x l)) nodes).
Proof.
  induction l as [|a l IH]; intros nodes Hnd Hin; simpl.
  - rewrite filter_true; [reflexivity|]. intros; reflexivity.
  - unfold set_remove at 1. assert (Ha : pmem a nodes = true) by (apply pmem_spec; apply Hin; left; reflexivity).
    rewrite Ha. simpl. inversion Hnd as [|a' l' Hal Hl]; subst.
    rewrite IH.
    + rewrite filter_filter. f_equal. apply filter_ext. intros x. fold (pmem x l). rewrite negb_orb. reflexivity.
    + exact Hl.
    + intros x Hx. apply filter_In. split; [apply Hin; right; exact Hx|].
      destruct (pt_eqb_spec x a) as [->|]; [contradiction|reflexivity].
Qed.

Definition gen_unique_step d (nodes : list point) (node : point) : res (list point) :=
  bind (if set_mem node nodes
        then bind (for_res (set_iter_any (set_inter (g__get_equal_electrical_potential_nodes d node) nodes)) nodes
                     (fun nodes n => bind (set_remove n nodes) (fun nodes => Ok nodes)))
                  (fun nodes => let nodes := set_add node nodes in Ok nodes)
        else Ok nodes) (fun nodes => Ok nodes).

Lemma gen_unique_step_ok d nodes node : gen_unique_step d nodes node = Ok (unique_step d nodes node).
Proof.
  unfold gen_unique_step, unique_step, set_mem. destruct (pmem node nodes) eqn:E; [|reflexivity].
  rewrite eq_get_equal_electrical_potential_nodes. unfold set_iter_any, set_inter.
  rewrite remove_all.
  - simpl. f_equal. unfold set_add.
    assert (Hf : filter (fun x => negb (pmem x (filter (fun x0 => pmem x0 nodes) (equal_potential_nodes d node)))) nodes
                 = filter (fun x => negb (pmem x (equal_potential_nodes d node))) nodes).
    { apply filter_ext_in. intros x Hx. rewrite pmem_filter. apply pmem_spec in Hx. rewrite Hx, andb_true_r. reflexivity. }
    rewrite Hf. apply padd_notin. apply pmem_false. intros Hin. apply filter_In in Hin. destruct Hin as [_ Hn].
    rewrite closure_self in Hn. discriminate.
  - apply NoDup_filter. apply closure_NoDup.
  - intros x Hx. apply filter_In in Hx. apply pmem_spec. apply Hx.
Qed.

Lemma eq_unique_nodes d oa : g_unique_nodes d oa = Ok (unique_nodes d oa).
Proof.
  unfold g_unique_nodes, unique_nodes, set_iter. rewrite eq_all_nodes.
  change (bind (for_res oa (all_nodes d) (gen_unique_step d)) (fun v => Ok v) = Ok (fold_left (unique_step d) oa (all_nodes d))).
  rewrite (for_res_ok oa (gen_unique_step d) (unique_step d)); [reflexivity|].
  intros s x _. apply gen_unique_step_ok.
Qed.

(* ------------------------------------------------------------------ unique_node_mapping *)
(* the dictionary the Python loop builds: one entry per point of the iteration order, in that order *)
Definition unm_dict (d : drawing) (oa : list point) : kdict point :=
  fold_left (fun m n => kd_set m n (rep d oa n)) oa [].

Definition gen_unm_step d oa (m : kdict point) (n : point) : res (kdict point) :=
  let identical := g__get_equal_electrical_potential_nodes d n in
  bind (set_remove n identical) (fun identical =>
  bind (g_unique_nodes d oa) (fun x1 =>
  let cur := set_inter x1 identical in
  bind (if Nat.ltb 0 (length cur)
        then bind (set_pop cur) (fun '(x2, cur) => let m := kd_set m n x2 in Ok (m, cur))
        else let m := kd_set m n n in Ok (m, cur))
       (fun '(m, cur) => Ok m))).

Lemma gen_unm_step_ok d oa m n : gen_unm_step d oa m n = Ok (kd_set m n (rep d oa n)).
Proof.
  unfold gen_unm_step. rewrite eq_get_equal_electrical_potential_nodes, eq_unique_nodes.
  unfold set_remove. rewrite closure_self. cbn [bind]. unfold set_inter, rep.
  assert (Hf : filter (fun x => pmem x (filter (fun y => negb (pt_eqb y n)) (equal_potential_nodes d n))) (unique_nodes d oa)
               = filter (fun u => pmem u (equal_potential_nodes d n) && negb (pt_eqb u n)) (unique_nodes d oa)).
  { apply filter_ext. intros x. apply pmem_filter. }
  rewrite Hf. clear Hf.
  destruct (filter (fun u => pmem u (equal_potential_nodes d n) && negb (pt_eqb u n)) (unique_nodes d oa)) as [|u r]; reflexivity.
Qed.

(* self.unique_nodes read in every round of the loop, the entry written by `if ..: D.update({n: ..pop()}) else: D.update({n: n})` *)
Lemma unm_form_loop d oa :
  (let m : kdict point := [] in
   bind (for_res (set_iter oa (g_all_nodes d)) m (gen_unm_step d oa)) (fun m => Ok m)) = Ok (unm_dict d oa).
Proof.
  cbv zeta. unfold unm_dict, set_iter.
  rewrite (for_res_ok oa (gen_unm_step d oa) (fun m n => kd_set m n (rep d oa n))); [reflexivity|].
  intros s x _. apply gen_unm_step_ok.
Qed.

(* self.unique_nodes read once before the loop, the entry written by `D[n] = cur.pop() if len(cur) > 0 else n` *)
Definition gen_unm_step_hoisted d (U : list point) (m : kdict point) (n : point) : res (kdict point) :=
  let identical := g__get_equal_electrical_potential_nodes d n in
  bind (set_remove n identical) (fun identical =>
  let cur := set_inter U identical in
  bind (if Nat.ltb 0 (length cur) then bind (set_pop cur) (fun '(x, cur) => Ok (x, cur)) else Ok (n, cur))
       (fun '(x, cur) => let m := kd_set m n x in Ok m)).

Lemma gen_unm_step_hoisted_ok d oa m n : gen_unm_step_hoisted d (unique_nodes d oa) m n = Ok (kd_set m n (rep d oa n)).
Proof.
  unfold gen_unm_step_hoisted. rewrite eq_get_equal_electrical_potential_nodes.
  unfold set_remove. rewrite closure_self. cbn [bind]. unfold set_inter, rep.
  assert (Hf : filter (fun x => pmem x (filter (fun y => negb (pt_eqb y n)) (equal_potential_nodes d n))) (unique_nodes d oa)
               = filter (fun u => pmem u (equal_potential_nodes d n) && negb (pt_eqb u n)) (unique_nodes d oa)).
  { apply filter_ext. intros x. apply pmem_filter. }
  rewrite Hf. clear Hf.
  destruct (filter (fun u => pmem u (equal_potential_nodes d n) && negb (pt_eqb u n)) (unique_nodes d oa)) as [|u r]; reflexivity.
Qed.

Lemma unm_form_hoisted d oa :
  (let m : kdict point := [] in
   bind (g_unique_nodes d oa) (fun U =>
   bind (for_res (set_iter oa (g_all_nodes d)) m (gen_unm_step_hoisted d U)) (fun m => Ok m))) = Ok (unm_dict d oa).
Proof.
  cbv zeta. rewrite eq_unique_nodes. cbn [bind]. unfold unm_dict, set_iter.
  rewrite (for_res_ok oa (gen_unm_step_hoisted d (unique_nodes d oa)) (fun m n => kd_set m n (rep d oa n))); [reflexivity|].
  intros s x _. apply gen_unm_step_hoisted_ok.
Qed.

Lemma eq_unique_node_mapping d oa : g_unique_node_mapping d oa = Ok (unm_dict d oa).
Proof. first [exact (unm_form_loop d oa) | exact (unm_form_hoisted d oa)]. Qed.

Lemma kd_fold_get {V} (f : point -> V) (l : list point) : forall (m : kdict V) p,
  kd_get (fold_left (fun m n => kd_set m n (f n)) l m) p = if pmem p l then Some (f p) else kd_get m p.
Proof.
  induction l as [|a l IH]; intros m p; simpl; [reflexivity|].
  rewrite IH. fold (pmem p l). destruct (pmem p l) eqn:E.
  - rewrite orb_true_r. reflexivity.
  - rewrite orb_false_r. destruct (pt_eqb_spec p a) as [->|Hne]; [apply kd_set_same|apply kd_set_other; exact Hne].
Qed.

Lemma unm_dict_get d oa p : kd_get (unm_dict d oa) p = if pmem p oa then Some (rep d oa p) else None.
Proof. unfold unm_dict. rewrite kd_fold_get. reflexivity. Qed.

Lemma enum_pmem o s p : enum o s -> pmem p o = pmem p s.
Proof.
  intros H. destruct (pmem p s) eqn:E.
  - apply pmem_spec. apply H. apply pmem_spec. exact E.
  - apply pmem_false. intros Hin. apply H in Hin. apply pmem_spec in Hin. congruence.
Qed.

Lemma unm_dict_lookup d oa p : enum oa (all_nodes d) -> kd_get (unm_dict d oa) p = unique_node_mapping d oa p.
Proof. intros H. rewrite unm_dict_get. unfold unique_node_mapping. rewrite (enum_pmem _ _ p H). reflexivity. Qed.

(* ------------------------------------------------------------------ node_label_mapping *)
Lemma while_skip (vals : list label) : forall fuel n,
  while_loop fuel (fun i => lmem (py_str i) vals) (fun i => let i := i + 1 in i) n = skip fuel n vals.
Proof.
  induction fuel as [|f IH]; intros n; simpl; [reflexivity|].
  unfold py_str at 1. destruct (lmem (dec n) vals); [|reflexivity]. rewrite IH. rewrite Nat.add_1_r. reflexivity.
Qed.

Lemma dict_keys_has (m : pdict) p : pmem p (dict_keys m) = dict_has m p.
Proof.
  unfold dict_has, dict_keys. induction m as [|[k v] r IH]; simpl; [reflexivity|].
  fold (pmem p (map fst r)). rewrite IH.
  destruct (pt_eqb_spec p k) as [->|Hne]; [rewrite pt_eqb_refl; reflexivity|].
  destruct (pt_eqb_spec k p) as [->|_]; [contradiction Hne; reflexivity|reflexivity].
Qed.

Definition gen_assign_step : nat * pdict -> point -> nat * pdict := fun '(i, m) p =>
  let i := while_loop (S (length m)) (fun i => lmem (py_str i) (dict_values m)) (fun i => let i := i + 1 in i) i in
  let m := kd_set m p (py_str i) in (i, m).

Lemma gen_assign_step_ok n (m : pdict) p :
  gen_assign_step (n, m) p = (skip (S (length m)) n (map snd m), dict_set m p (dec (skip (S (length m)) n (map snd m)))).
Proof. unfold gen_assign_step. rewrite while_skip. unfold dict_values, py_str. rewrite kd_set_eq. reflexivity. Qed.
Lemma gen_assign_ok : forall ps n m, snd (fold_left gen_assign_step ps (n, m)) = assign ps n m.
Proof.
  induction ps as [|p ps IH]; intros n m; [reflexivity|].
  cbn [fold_left]. rewrite gen_assign_step_ok. rewrite IH. reflexivity.
Qed.

Lemma labelled_comp d oa : enum oa (all_nodes d) ->
  dict_comp_res (g_node_elements d)
    (fun e => bind (g_unique_node_mapping d oa) (fun x1 => bind (kd_lookup x1 (rounded_anchor e A_start))
                                                  (fun x2 => Ok (x2, s_node_id e))))
  = Ok (labelled d oa).
Proof.
  intros Hoa. unfold dict_comp_res, labelled. rewrite eq_node_elements.
  apply for_res_ok. intros m e He. rewrite eq_unique_node_mapping. cbn [bind].
  unfold kd_lookup. rewrite unm_dict_get. simpl rounded_anchor.
  assert (Hin : pmem (s_start e) oa = true).
  { apply pmem_spec. apply Hoa. apply node_elements_in_all. exact He. }
  rewrite Hin. cbn [bind fst snd]. rewrite kd_set_eq. reflexivity.
Qed.

Lemma let_pair_snd {A B C} (w : A * B) (f : B -> C) : (let '(_, b) := w in f b) = f (snd w).
Proof. destruct w; reflexivity. Qed.

Lemma eq_node_label_mapping d oa ou : enum oa (all_nodes d) ->
  g_node_label_mapping d oa ou = Ok (node_label_mapping d oa ou).
Proof.
  intros Hoa. unfold g_node_label_mapping. rewrite (labelled_comp d oa Hoa). cbn [bind].
  rewrite eq_unique_nodes. cbn [bind]. unfold set_iter, node_label_mapping.
  assert (Hf : filter (fun p => negb (pmem p (dict_keys (labelled d oa)))) ou
               = filter (fun p => negb (dict_has (labelled d oa) p)) ou).
  { apply filter_ext. intros p. rewrite dict_keys_has. reflexivity. }
  rewrite Hf. clear Hf.
  pose proof (gen_assign_ok (filter (fun p => negb (dict_has (labelled d oa) p)) ou) (length (labelled d oa) + 1) (labelled d oa)) as H.
  match goal with |- (let '(_, _) := fold_left ?f _ _ in _) = _ => change f with gen_assign_step end.
  rewrite (let_pair_snd _ (fun v => Ok v)). f_equal. exact H.
Qed.

(* ------------------------------------------------------------------ ground, _get_node_index, ground_label, get_element *)
Lemma eq_ground d oa ou : g_ground d oa ou = ground d ou.
Proof.
  unfold g_ground, ground. rewrite eq_node_elements.
  assert (Hf : filter (fun n => isinstance n g_subclasses_Ground) (node_elements d) = filter is_ground_sym (node_elements d))
    by (apply filter_ext; exact subclasses_Ground_ok).
  rewrite Hf. clear Hf. rewrite eq_unique_nodes. unfold set_iter.
  destruct (filter is_ground_sym (node_elements d)) as [|g gs]; [destruct ou; reflexivity|].
  destruct gs; reflexivity.
Qed.

Definition index_res (o : option label) : res label := match o with Some l => Ok l | None => Err EKeyError end.

Lemma eq_get_node_index d oa ou p : enum oa (all_nodes d) ->
  g__get_node_index d oa ou p = index_res (get_node_index d oa ou p).
Proof.
  intros Hoa. unfold g__get_node_index, get_node_index. rewrite (eq_node_label_mapping d oa ou Hoa), eq_unique_node_mapping.
  cbn [bind]. unfold kd_lookup. rewrite (unm_dict_lookup d oa p Hoa).
  destruct (unique_node_mapping d oa p) as [u|]; [|reflexivity]. cbn [bind]. rewrite kd_get_eq. reflexivity.
Qed.

Lemma eq_ground_label d oa ou : enum oa (all_nodes d) -> g_ground_label d oa ou = ground_label d oa ou.
Proof.
  intros Hoa. unfold g_ground_label, ground_label. rewrite eq_ground. destruct (ground d ou) as [g|e]; [|reflexivity].
  cbn [bind]. apply eq_get_node_index. exact Hoa.
Qed.

(* get_element has no counterpart in Model/Drawing.v: the first circuit element carrying the name, UnknownElement
   (rendered EOther) when there is none *)
Definition get_element (d : drawing) (name : label) : res symbol :=
  match find (fun e => label_eqb (s_name e) name) (circuit_elements d) with Some e => Ok e | None => Err EOther end.
Lemma eq_get_element d name : g_get_element d name = get_element d name.
Proof.
  unfold g_get_element, get_element. rewrite eq_circuit_elements.
  (* `for e in ..: if e.name == name: return e` IS the first match; `[e for e in .. if ..]` + `[0]` is its list form *)
  first [reflexivity
        |induction (circuit_elements d) as [|e l IH]; [reflexivity|];
         simpl; destruct (label_eqb (s_name e) name); [reflexivity|exact IH]].
Qed.

(* ====================================================================================================== *)
(* C. CircuitComponentTranslators.py                                                                       *)
(* ====================================================================================================== *)
Local Open Scope string_scope.

(* the hand-written reading of the module: constructor, terminals and keyword values per symbol class *)
Definition plain (x : string) : sval := SArg (lbl x).                                  (* self._x = x *)
Definition stored (rev : bool) (x : string) : sval := if rev then SNeg (SArg (lbl x)) else SArg (lbl x).
                                                                                        (* self._x = x if not reverse else -x *)
Definition handed (rev : bool) (v : sval) : sval := if rev then SNeg v else v.          (* v if not is_reverse else -v *)
Definition phase (phi : sval) : sval :=                                                 (* phi*pi/180 if deg else phi *)
  SIf (CTruth (SArg (lbl "deg"))) (SDiv (SMul phi SPi) (SNum (lbl "180"))) phi.
Definition periodic (rev : bool) (wave amp : string) : list (label * sval) :=
  [(lbl "wavetype", SStr (lbl wave)); (lbl amp, handed rev (stored rev amp)); (lbl "w", plain "w");
   (lbl "phi", phase (plain "phi"))].

Definition expected_ctor (c : N) : option string :=
  match c with
  | 1 => Some "resistor" | 2 => Some "impedance" | 3 => Some "conductance"
  | 4 => Some "dc_voltage_source" | 5 => Some "complex_voltage_source"
  | 6 => Some "dc_current_source" | 7 => Some "complex_current_source"
  | 8 => Some "ac_voltage_source" | 9 => Some "ac_current_source"
  | 10 | 12 | 14 => Some "periodic_voltage_source" | 11 | 13 | 15 => Some "periodic_current_source"
  | 16 => Some "capacitor" | 17 => Some "inductance" | 18 => Some "lamp" | 19 => Some "ground"
  | 21 => Some "short_circuit" | 24 => Some "dc_current_source" | 25 => Some "dc_voltage_source"
  | 26 => Some "resistor"
  | _ => None
  end%N.
Definition expected_nodes (c : N) (rev : bool) (a b : label) : list label :=
  match c with
  | 19 => [a]
  | 1 | 2 | 3 | 16 | 17 | 18 | 26 => [a; b]
  | _ => if rev then [b; a] else [a; b]
  end%N.
Definition expected_values (c : N) (rev : bool) : list (label * sval) :=
  match c with
  | 1 => [(lbl "R", plain "R")] | 2 => [(lbl "Z", plain "Z")] | 3 => [(lbl "G", plain "G")]
  | 4 => [(lbl "V", handed rev (SRealPart (stored rev "V")))]
  | 5 => [(lbl "V", handed rev (stored rev "V"))]
  | 6 => [(lbl "I", handed rev (SRealPart (stored rev "I")))]
  | 7 => [(lbl "I", handed rev (stored rev "I"))]
  | 8 => [(lbl "V", handed rev (stored rev "V")); (lbl "w", plain "w"); (lbl "phi", phase (SAttr (lbl "phi")))]
  | 9 => [(lbl "I", handed rev (stored rev "I")); (lbl "w", plain "w"); (lbl "phi", phase (SAttr (lbl "phi")))]
  | 10 => periodic rev "rect" "V" | 11 => periodic rev "rect" "I"
  | 12 => periodic rev "tri" "V" | 13 => periodic rev "tri" "I"
  | 14 => periodic rev "saw" "V" | 15 => periodic rev "saw" "I"
  | 16 => [(lbl "C", plain "C")] | 17 => [(lbl "L", plain "L")]
  | 18 => [(lbl "P", plain "P_ref"); (lbl "V_ref", plain "V_ref")]
  | 24 => [(lbl "I", handed rev (SRealPart (plain "I"))); (lbl "G", SAttr (lbl "G"))]
  | 25 => [(lbl "V", handed rev (SRealPart (plain "V"))); (lbl "R", plain "R")]
  | 26 => [(lbl "R", SIf (CEq (SAttr (lbl "state")) (SDot (SAttr (lbl "state")) (lbl "OPEN"))) SInf (SNum (lbl "1e-12")))]
  | _ => []
  end%N.
Definition expected_component (s : symbol) (a b : label) : option gcomponent :=
  match expected_ctor (s_class s) with
  | None => None
  | Some f => Some (mk_gcomponent (lbl f) (s_name s) (expected_nodes (s_class s) (s_reverse s) a b)
                                  (expected_values (s_class s) (s_reverse s)))
  end.

Ltac scope_cases c H :=
  destruct c as [|c]; [discriminate H|];
  do 5 (try (destruct c as [c|c|])); try (vm_compute in H; discriminate H).

(* class -> function binding and every function, against the hand-written reading *)
Lemma table_expected (s : symbol) (a b : label) : in_scope (s_class s) = true ->
  match table_get g_circuit_translator_map (s_class s) with
  | Some f => f s [a; b] = Ok (expected_component s a b)
  | None => s_class s = c_Admittance
  end.
Proof.
  destruct s as [c nm r st en id]. cbn [s_class]. intros H.
  scope_cases c H; destruct r; vm_compute; reflexivity.
Qed.

(* ... and against translator_of / apply_translator of Model/Drawing.v *)
Definition erase_opt (o : option gcomponent) : option component :=
  match o with Some g => erase g | None => None end.

Lemma expected_erased (s : symbol) (a b : label) : in_scope (s_class s) = true ->
  match translator_of (s_class s) with
  | Some t => table_get g_circuit_translator_map (s_class s) <> None /\
              erase_opt (expected_component s a b) = apply_translator t s a b
  | None => table_get g_circuit_translator_map (s_class s) = None
  end.
Proof.
  destruct s as [c nm r st en id]. cbn [s_class]. intros H.
  scope_cases c H; destruct r; vm_compute; first [reflexivity | split; [discriminate|reflexivity]].
Qed.

(* the names of the functions the classes are bound to, as in the source *)
Lemma table_names_domain : map fst g_circuit_translator_names = map fst g_circuit_translator_map.
Proof. reflexivity. Qed.

(* ====================================================================================================== *)
(* B (continued). DiagramTranslator.py                                                                     *)
(* ====================================================================================================== *)
Definition res_map {A B} (f : A -> B) (r : res A) : res B := match r with Ok a => Ok (f a) | Err e => Err e end.

(* DiagramTranslator.__call__ for an arbitrary translator map: the dictionary lookup, then the two node lookups, then
   the call, with every KeyError turned into UnknownTranslator *)
Lemma call_unfold {A} (tmap : list (N * translator_fn A)) d oa ou s : enum oa (all_nodes d) ->
  g_DiagramTranslator_call tmap d oa ou s =
  match table_get tmap (s_class s), get_node_index d oa ou (s_start s), get_node_index d oa ou (s_end s) with
  | Some f, Some a, Some b => except_KeyError (f s [a; b]) (Err EUnknownComponent)
  | _, _, _ => Err EUnknownComponent
  end.
Proof.
  intros Hoa. unfold g_DiagramTranslator_call, table_lookup, type_of. simpl rounded_anchor.
  rewrite !(eq_get_node_index d oa ou _ Hoa).
  destruct (table_get tmap (s_class s)) as [f|]; [|reflexivity]. cbn [bind].
  destruct (get_node_index d oa ou (s_start s)) as [a|]; [|reflexivity]. cbn [bind index_res].
  destruct (get_node_index d oa ou (s_end s)) as [b|]; reflexivity.
Qed.

Lemma eq_call d oa ou s : enum oa (all_nodes d) -> in_scope (s_class s) = true ->
  res_map erase_opt (g_DiagramTranslator_call g_circuit_translator_map d oa ou s)
  = translate_symbol (get_node_index d oa ou) s.
Proof.
  intros Hoa Hs. rewrite (call_unfold _ d oa ou s Hoa). unfold translate_symbol.
  destruct (get_node_index d oa ou (s_start s)) as [a|].
  2:{ destruct (table_get _ _), (translator_of _); reflexivity. }
  destruct (get_node_index d oa ou (s_end s)) as [b|].
  2:{ destruct (table_get _ _), (translator_of _); reflexivity. }
  pose proof (table_expected s a b Hs) as HT. pose proof (expected_erased s a b Hs) as HE.
  destruct (table_get g_circuit_translator_map (s_class s)) as [f|].
  - rewrite HT. destruct (translator_of (s_class s)) as [t|]; [|discriminate HE].
    destruct HE as [_ HE]. cbn [except_KeyError res_map]. rewrite HE. reflexivity.
  - destruct (translator_of (s_class s)) as [t|]; [destruct HE as [HE _]; contradiction HE; reflexivity|reflexivity].
Qed.

(* circuit_translator: the components handed to Circuit(...) *)
Lemma omap_filter_not_none (o : option gcomponent) (l : list (option gcomponent)) :
  omap erase (filter_not_none (o :: l)) =
  match erase_opt o with Some x => x :: omap erase (filter_not_none l) | None => omap erase (filter_not_none l) end.
Proof. destruct o as [g|]; simpl; [destruct (erase g); reflexivity|reflexivity]. Qed.

Lemma map_res_translate_all d oa ou : enum oa (all_nodes d) -> forall l, (forall s, In s l -> in_scope (s_class s) = true) ->
  res_map (fun x => omap erase (filter_not_none x)) (map_res (g_DiagramTranslator_call g_circuit_translator_map d oa ou) l)
  = translate_all (get_node_index d oa ou) l.
Proof.
  intros Hoa. induction l as [|s l IH]; intros Hl; [reflexivity|].
  cbn [map_res translate_all]. rewrite <- (eq_call d oa ou s Hoa (Hl s (or_introl eq_refl))).
  rewrite <- IH by (intros s' Hs'; apply Hl; right; exact Hs').
  destruct (g_DiagramTranslator_call g_circuit_translator_map d oa ou s) as [o|e]; [|reflexivity].
  cbn [bind res_map]. destruct (map_res _ l) as [ys|e]; [|reflexivity].
  cbn [bind res_map]. rewrite omap_filter_not_none. destruct (erase_opt o); reflexivity.
Qed.

Lemma eq_components d oa ou : enum oa (all_nodes d) -> (forall s, In s d -> in_scope (s_class s) = true) ->
  res_map (omap erase) (g_circuit_translator d oa ou) = components d oa ou.
Proof.
  intros Hoa Hd. unfold components. rewrite <- (map_res_translate_all d oa ou Hoa d Hd).
  unfold g_circuit_translator, g_all_elements, drawing_elements, g__remove_none, mk_Circuit.
  destruct (map_res _ d); reflexivity.
Qed.

(* network_translator, for an arbitrary network translator map (SimpleCircuit/NetworkBranchTranslators.py is not modelled) *)
Lemma eq_network_translator {A} (tmap : list (N * translator_fn A)) d oa ou : enum oa (all_nodes d) ->
  g_network_translator tmap d oa ou =
  bind (map_res (g_DiagramTranslator_call tmap d oa ou) d) (fun l =>
  bind (ground_label d oa ou) (fun g => Ok (filter_not_none l, g))).
Proof.
  intros Hoa. unfold g_network_translator, g_all_elements, drawing_elements, g__remove_none, mk_Network.
  rewrite (eq_ground_label d oa ou Hoa). reflexivity.
Qed.
Lemma remove_none_ok {A} (l : list (option A)) : g__remove_none l = filter_not_none l.
Proof. reflexivity. Qed.

(* the constructor names used above are constructors of components.py (Gen/Tables.v) whose type string is their own name,
   and that type string is the [kind_name] of the kind [erase] gives the component *)
Definition ctor_known (f : label) : bool :=
  existsb (fun e => label_eqb (CC.Gen.Tables.c_fun e) f && label_eqb (CC.Gen.Tables.c_type e) f) CC.Gen.Tables.component_ctors
  && match kind_of_ctor f with Some k => label_eqb (kind_name k) f | None => false end.
Lemma ctor_names_ok (c : N) (f : string) : expected_ctor c = Some f -> ctor_known (lbl f) = true.
Proof.
  destruct c as [|c]; [discriminate|].
  do 5 (try (destruct c as [c|c|])); cbn [expected_ctor]; intros H; try discriminate H;
    injection H as <-; vm_compute; reflexivity.
Qed.
