(* Theory/Gauss.v — full specification of the executable Gauss-Jordan elimination of Model/Network.v:
   [gauss_jordan] either returns rows in reduced form [I | payload] with the same solution sets (for every
   payload column) as the rows it was given, or the rows it was given have a non-trivial kernel vector.
   Consequences: [solve] and [inverse] succeed on every square system with trivial kernel
   (completeness), a successful [solve] certifies uniqueness, and [solve_network] never fails on a
   well-formed, well-posed network.  Generic in the field. *)
From Coq Require Import List Bool NArith Arith Permutation Lia Field Ring.
From CC Require Import Theory.Field Theory.Labels Model.Network Theory.Spec Theory.Mna
  Theory.MnaComplete Theory.Api.
Import ListNotations.

Section Gauss.
Variable K : fops.
Hypothesis KOK : fops_ok K.
Add Field Kg : (Kth K KOK).
Notation "0" := (f0 K). Notation "1" := (f1 K).
Infix "+" := (fadd K). Infix "*" := (fmul K). Infix "-" := (fsub K). Notation "- x" := (fopp K x).
Infix "/" := (fdiv K).
Notation "x == y" := (feqb K x y) (at level 70).
Ltac feq x y := destruct (feqb_spec KOK x y).

(* ---------------- list facts ---------------- *)
Lemma nth_map_seq {A} (f : nat -> A) (n k : nat) (d : A) : k < n -> nth k (map f (seq 0 n)) d = f k.
Proof. intros H. rewrite (nth_indep _ d (f O)) by (rewrite map_length, seq_length; exact H).
  rewrite map_nth, seq_nth by exact H. reflexivity. Qed.

Lemma nth_error_nth_map {A B} (f : A -> B) (l : list A) (k : nat) (r : A) (d : B) :
  nth_error l k = Some r -> nth k (map f l) d = f r.
Proof. revert k. induction l as [|a l IH]; intros [|k] H; simpl in *; try discriminate.
  - injection H as ->. reflexivity.
  - apply IH, H. Qed.

Lemma nth_skipn' {A} (l : list A) (k j : nat) (d : A) : nth k (skipn j l) d = nth (j + k)%nat l d.
Proof. revert l. induction j as [|j IH]; intros l; simpl; [reflexivity|].
  destruct l as [|a l]; [destruct k; reflexivity|]. apply IH. Qed.

Lemma nth_map_zero {A} (l : list A) (k : nat) : nth k (map (fun _ => 0) l) 0 = 0.
Proof. revert k. induction l as [|a l IH]; intros [|k]; simpl; auto. Qed.

Lemma existsb_seq (k n : nat) : k < n -> existsb (Nat.eqb k) (seq 0 n) = true.
Proof. intros H. apply existsb_exists. exists k. split; [apply in_seq; lia|apply Nat.eqb_refl]. Qed.

Lemma sum_pick_nat (g : nat -> K) (k n : nat) : k < n ->
  sumF (fun j => if Nat.eqb j k then g j else 0) (seq 0 n) = g k.
Proof. intros H. rewrite (sumF_indicator KOK Nat.eqb Nat.eqb_spec g k (seq 0 n) (seq_NoDup n 0)).
  rewrite existsb_seq by exact H. reflexivity. Qed.

Lemma In_combine_ex {A B} (la : list A) (lb : list B) (a : A) :
  length la = length lb -> In a la -> exists b, In (a, b) (combine la lb).
Proof. revert lb. induction la as [|a0 la IH]; intros [|b0 lb] HL Ha; simpl in *; try discriminate; [destruct Ha|].
  destruct Ha as [->|Ha].
  - exists b0. left. reflexivity.
  - injection HL as HL. destruct (IH lb HL Ha) as [b Hb]. exists b. right. exact Hb. Qed.

Lemma in_combine_map {A B} (f : A -> B) (la : list A) (a : A) (b : B) :
  In (a, b) (combine la (map f la)) -> b = f a.
Proof. induction la as [|a0 la IH]; simpl; [tauto|]. intros [H|H]; [|exact (IH H)].
  injection H as -> ->. reflexivity. Qed.

Lemma vec_eqb_refl (u : list K) : vec_eqb u u = true.
Proof. induction u as [|a u IH]; simpl; [reflexivity|]. rewrite (feqb_refl KOK), IH. reflexivity. Qed.

Lemma mat_eqb_refl (M : list (list K)) : mat_eqb M M = true.
Proof. induction M as [|a M IH]; simpl; [reflexivity|]. rewrite vec_eqb_refl, IH. reflexivity. Qed.

(* dot product through indices; holds whatever the length of [v] *)
Lemma dot_nth (u v : list K) : dot u v = sumF (fun k => nth k u 0 * nth k v 0) (seq 0 (length u)).
Proof. revert v. induction u as [|a u IH]; intros v; [reflexivity|].
  destruct v as [|b v].
  - unfold dot. simpl combine. simpl sumF at 1. symmetry. apply (sumF_zero_in KOK).
    intros k _. destruct k; simpl; ring.
  - unfold dot. simpl. fold (dot u v). rewrite IH. f_equal.
    rewrite <- seq_shift, sumF_map. reflexivity. Qed.

(* ---------------- row operations, entry by entry ---------------- *)
Lemma entry_scale (a : K) (r : list K) (k : nat) : entry (row_scale a r) k = a * entry r k.
Proof. unfold entry, row_scale. revert k. induction r as [|x r IH]; intros [|k]; simpl; try ring. apply IH. Qed.

Lemma length_scale (a : K) (r : list K) : length (row_scale a r) = length r.
Proof. apply map_length. Qed.

Lemma entry_sub (r : list K) (a : K) (q : list K) (k : nat) : length q = length r ->
  entry (row_sub r a q) k = entry r k - a * entry q k.
Proof. unfold entry. revert q k. induction r as [|x r IH]; intros [|y q] k H; simpl in *; try discriminate.
  - destruct k; ring.
  - destruct k; [reflexivity|]. apply IH. lia. Qed.

Lemma length_sub (r : list K) (a : K) (q : list K) : length (row_sub r a q) = length r.
Proof. revert q. induction r as [|x r IH]; intros [|y q]; simpl; auto. Qed.

Definition elim1 (c : nat) (p r : list K) : list K := if entry r c == 0 then r else row_sub r (entry r c) p.

Lemma eliminate_map (c : nat) (p : list K) (rows : list (list K)) : eliminate c p rows = map (elim1 c p) rows.
Proof. reflexivity. Qed.

Lemma entry_elim1 (c : nat) (p r : list K) (k : nat) : length p = length r ->
  entry (elim1 c p r) k = entry r k - entry r c * entry p k.
Proof. intros H. unfold elim1. feq (entry r c) 0.
  - rewrite e. ring.
  - apply entry_sub, H. Qed.

Lemma length_elim1 (c : nat) (p r : list K) : length (elim1 c p r) = length r.
Proof. unfold elim1. destruct (entry r c == 0); [reflexivity|apply length_sub]. Qed.

Lemma find_pivot_some (c : nat) (rows : list (list K)) pv others :
  find_pivot c rows = Some (pv, others) -> entry pv c <> 0 /\ Permutation rows (pv :: others).
Proof. revert pv others. induction rows as [|r rest IH]; intros pv others H; simpl in H; [discriminate|].
  feq (entry r c) 0.
  - destruct (find_pivot c rest) as [[p o]|] eqn:E; [|discriminate]. injection H as <- <-.
    destruct (IH p o eq_refl) as [H1 H2]. split; [exact H1|].
    rewrite H2. apply perm_swap.
  - injection H as <- <-. split; [assumption|reflexivity]. Qed.

Lemma find_pivot_none (c : nat) (rows : list (list K)) :
  find_pivot c rows = None -> forall r, In r rows -> entry r c = 0.
Proof. induction rows as [|r0 rest IH]; intros H r Hr; simpl in *; [destruct Hr|].
  feq (entry r0 c) 0; [|discriminate].
  destruct (find_pivot c rest) as [[p o]|] eqn:E; [discriminate|].
  destruct Hr as [<-|Hr]; [assumption|]. apply IH; [reflexivity|exact Hr]. Qed.

(* ---------------- the linear system carried by a list of rows ---------------- *)
Section Sys.
Variable m : nat.   (* number of unknowns: columns 0..m-1 are coefficients, the others payload *)

Definition lin (r x : list K) : K := sumF (fun k => entry r k * nth k x 0) (seq 0 m).

(* x solves every row, the right-hand side being column p *)
Definition sol (p : nat) (x : list K) (rows : list (list K)) : Prop :=
  forall r, In r rows -> lin r x = entry r p.

Lemma lin_scale (a : K) (r x : list K) : lin (row_scale a r) x = a * lin r x.
Proof. unfold lin. rewrite <- (sumF_scal_l KOK (fun k => entry r k * nth k x 0) a).
  apply sumF_ext. intros k. rewrite entry_scale. ring. Qed.

Lemma lin_elim1 (c : nat) (p r x : list K) : length p = length r ->
  lin (elim1 c p r) x = lin r x - entry r c * lin p x.
Proof. intros H. unfold lin.
  rewrite <- (sumF_scal_l KOK (fun k => entry p k * nth k x 0) (entry r c)).
  rewrite <- (sumF_sub KOK (fun k => entry r k * nth k x 0) (fun k => entry r c * (entry p k * nth k x 0))).
  apply sumF_ext. intros k. rewrite entry_elim1 by exact H. ring. Qed.

Lemma lin_app (a t x : list K) : length a = m -> lin (a ++ t) x = dot a x.
Proof. intros H. rewrite dot_nth, H. unfold lin. apply sumF_ext_in. intros k Hk. apply in_seq in Hk.
  unfold entry. rewrite app_nth1 by lia. reflexivity. Qed.

Lemma entry_app (a t : list K) (j : nat) : length a = m -> entry (a ++ t) (m + j) = nth j t 0.
Proof. intros H. unfold entry. rewrite app_nth2 by lia. f_equal. lia. Qed.

Lemma entry_app0 (a : list K) (beta : K) : length a = m -> entry (a ++ [beta]) m = beta.
Proof. intros H. unfold entry. rewrite app_nth2 by lia. rewrite H, Nat.sub_diag. reflexivity. Qed.

Lemma dot_add_seq (r u v : list K) : length r = m ->
  dot r (map (fun i => nth i u 0 + nth i v 0) (seq 0 m)) = dot r u + dot r v.
Proof. intros H. rewrite !dot_nth, H.
  rewrite <- (sumF_add KOK (fun k => nth k r 0 * nth k u 0) (fun k => nth k r 0 * nth k v 0)).
  apply sumF_ext_in. intros k Hk. apply in_seq in Hk.
  rewrite (nth_map_seq (fun i => nth i u 0 + nth i v 0)) by lia. ring. Qed.

Lemma dot_trunc (a x : list K) : length a = m -> dot a (map (fun k => nth k x 0) (seq 0 m)) = dot a x.
Proof. intros H. rewrite !dot_nth, H. apply sumF_ext_in. intros k Hk. apply in_seq in Hk.
  rewrite nth_map_seq by lia. reflexivity. Qed.

Section GJ.
Variable W : nat.   (* common length of all rows *)

(* invariant of [gauss_jordan] at column c *)
Definition Inv (c : nat) (done todo : list (list K)) : Prop :=
  (forall r, In r (done ++ todo) -> length r = W)
  /\ length done = c
  /\ (forall k r, nth_error done k = Some r -> forall j, j < c -> entry r j = if Nat.eqb j k then 1 else 0)
  /\ (forall r, In r todo -> forall j, j < c -> entry r j = 0).

Lemma step_inv (c : nat) (done todo : list (list K)) pv others :
  Inv c done todo -> find_pivot c todo = Some (pv, others) ->
  Inv (S c) (eliminate c (row_scale (1 / entry pv c) pv) done ++ [row_scale (1 / entry pv c) pv])
            (eliminate c (row_scale (1 / entry pv c) pv) others).
Proof. intros [IL [ID [IE IT]]] F. destruct (find_pivot_some _ _ _ _ F) as [Hnz HP].
  set (p' := row_scale (1 / entry pv c) pv). rewrite !eliminate_map.
  assert (Hpv : In pv todo) by (apply (Permutation_in _ (Permutation_sym HP)); left; reflexivity).
  assert (Hoth : forall r, In r others -> In r todo)
    by (intros r Hr; apply (Permutation_in _ (Permutation_sym HP)); right; exact Hr).
  assert (Lp : length p' = W) by (unfold p'; rewrite length_scale; apply IL, in_or_app; right; exact Hpv).
  assert (Ep_lt : forall j, j < c -> entry p' j = 0).
  { intros j Hj. unfold p'. rewrite entry_scale, (IT pv Hpv j Hj). ring. }
  assert (Ep_c : entry p' c = 1) by (unfold p'; rewrite entry_scale; field; exact Hnz).
  split; [|split; [|split]].
  - intros r Hr. rewrite <- app_assoc in Hr. apply in_app_or in Hr. destruct Hr as [Hr|Hr].
    + apply in_map_iff in Hr. destruct Hr as [r0 [<- Hr0]]. rewrite length_elim1. apply IL, in_or_app. left. exact Hr0.
    + apply in_app_or in Hr. destruct Hr as [Hr|Hr].
      * destruct Hr as [<-|[]]. exact Lp.
      * apply in_map_iff in Hr. destruct Hr as [r0 [<- Hr0]]. rewrite length_elim1.
        apply IL, in_or_app. right. apply Hoth, Hr0.
  - rewrite app_length, map_length, ID. simpl. lia.
  - intros k r Hk j Hj.
    destruct (Nat.lt_ge_cases k c) as [Hkc|Hkc].
    + rewrite nth_error_app1 in Hk by (rewrite map_length; lia).
      rewrite nth_error_map in Hk. destruct (nth_error done k) as [r0|] eqn:E0; [|discriminate].
      simpl in Hk. injection Hk as <-.
      assert (L0 : length p' = length r0).
      { rewrite Lp. symmetry. apply IL, in_or_app. left. eapply nth_error_In; exact E0. }
      rewrite entry_elim1 by exact L0.
      destruct (Nat.eq_dec j c) as [->|Hjc].
      * rewrite Ep_c. destruct (Nat.eqb_spec c k) as [Eck|Eck]; [lia|]. ring.
      * rewrite Ep_lt by lia. rewrite (IE k r0 E0 j) by lia. ring.
    + assert (k = c).
      { assert (k < length (map (elim1 c p') done ++ [p'])) by (apply nth_error_Some; congruence).
        rewrite app_length, map_length, ID in H. simpl in H. lia. }
      subst k. rewrite nth_error_app2 in Hk by (rewrite map_length; lia).
      rewrite map_length, ID, Nat.sub_diag in Hk. simpl in Hk. injection Hk as <-.
      destruct (Nat.eqb_spec j c) as [->|Hjc]; [exact Ep_c|]. apply Ep_lt. lia.
  - intros r Hr j Hj. apply in_map_iff in Hr. destruct Hr as [r0 [<- Hr0]].
    assert (L0 : length p' = length r0).
    { rewrite Lp. symmetry. apply IL, in_or_app. right. apply Hoth, Hr0. }
    rewrite entry_elim1 by exact L0.
    destruct (Nat.eq_dec j c) as [->|Hjc].
    + rewrite Ep_c. ring.
    + rewrite Ep_lt by lia. rewrite (IT r0 (Hoth _ Hr0) j) by lia. ring.
Qed.

Lemma step_sol (c : nat) (done todo : list (list K)) pv others (p : nat) (x : list K) :
  Inv c done todo -> find_pivot c todo = Some (pv, others) ->
  (sol p x ((eliminate c (row_scale (1 / entry pv c) pv) done ++ [row_scale (1 / entry pv c) pv])
            ++ eliminate c (row_scale (1 / entry pv c) pv) others)
   <-> sol p x (done ++ todo)).
Proof. intros [IL [ID [IE IT]]] F. destruct (find_pivot_some _ _ _ _ F) as [Hnz HP].
  set (a := entry pv c) in *. set (p' := row_scale (1 / a) pv). rewrite !eliminate_map.
  assert (Hpv : In pv todo) by (apply (Permutation_in _ (Permutation_sym HP)); left; reflexivity).
  assert (Hoth : forall r, In r others -> In r todo)
    by (intros r Hr; apply (Permutation_in _ (Permutation_sym HP)); right; exact Hr).
  assert (Lp : length p' = W) by (unfold p'; rewrite length_scale; apply IL, in_or_app; right; exact Hpv).
  assert (Lin_p : lin p' x = 1 / a * lin pv x) by apply lin_scale.
  assert (Ent_p : entry p' p = 1 / a * entry pv p) by apply entry_scale.
  assert (Lrow : forall r, In r done \/ In r others -> length p' = length r).
  { intros r [Hr|Hr]; rewrite Lp; symmetry; apply IL, in_or_app; [left; exact Hr|right; apply Hoth, Hr]. }
  split.
  - (* new -> old *)
    intros S.
    assert (Sp : lin p' x = entry p' p).
    { apply S. apply in_or_app. left. apply in_or_app. right. left. reflexivity. }
    assert (Sr : forall r, In r done \/ In r others -> lin r x = entry r p).
    { intros r Hr.
      assert (Se : lin (elim1 c p' r) x = entry (elim1 c p' r) p).
      { apply S. destruct Hr as [Hr|Hr].
        - apply in_or_app. left. apply in_or_app. left. apply in_map, Hr.
        - apply in_or_app. right. apply in_map, Hr. }
      rewrite lin_elim1, entry_elim1 in Se by (apply Lrow, Hr). rewrite Sp in Se.
      replace (lin r x) with ((lin r x - entry r c * entry p' p) + entry r c * entry p' p) by ring.
      rewrite Se. ring. }
    intros r Hr. apply in_app_or in Hr. destruct Hr as [Hr|Hr]; [apply Sr; left; exact Hr|].
    apply (Permutation_in _ HP) in Hr. destruct Hr as [<-|Hr]; [|apply Sr; right; exact Hr].
    rewrite Lin_p, Ent_p in Sp.
    replace (lin pv x) with (a * (1 / a * lin pv x)) by (field; exact Hnz).
    rewrite Sp. field. exact Hnz.
  - (* old -> new *)
    intros S.
    assert (Spv : lin pv x = entry pv p) by (apply S, in_or_app; right; exact Hpv).
    assert (Sp : lin p' x = entry p' p) by (rewrite Lin_p, Ent_p, Spv; reflexivity).
    assert (Sr : forall r, In r done \/ In r others -> lin (elim1 c p' r) x = entry (elim1 c p' r) p).
    { intros r Hr. rewrite lin_elim1, entry_elim1 by (apply Lrow, Hr). rewrite Sp.
      rewrite (S r); [reflexivity|]. apply in_or_app. destruct Hr as [Hr|Hr]; [left; exact Hr|right; apply Hoth, Hr]. }
    intros r Hr. apply in_app_or in Hr. destruct Hr as [Hr|Hr].
    + apply in_app_or in Hr. destruct Hr as [Hr|Hr].
      * apply in_map_iff in Hr. destruct Hr as [r0 [<- Hr0]]. apply Sr. left. exact Hr0.
      * destruct Hr as [<-|[]]. exact Sp.
    + apply in_map_iff in Hr. destruct Hr as [r0 [<- Hr0]]. apply Sr. right. exact Hr0.
Qed.

(* no pivot in column c < m: the current rows have a kernel vector with a 1 in position c *)
Lemma no_pivot_kernel (c : nat) (done todo : list (list K)) :
  Inv c done todo -> c < m -> find_pivot c todo = None ->
  exists x, sol W x (done ++ todo) /\ exists k, k < m /\ nth k x 0 <> 0.
Proof. intros [IL [ID [IE IT]]] Hc F. pose proof (find_pivot_none _ _ F) as Z.
  set (x := map (fun r => - entry r c) done ++ [1]).
  assert (Xlt : forall k r, nth_error done k = Some r -> nth k x 0 = - entry r c).
  { intros k r Hk. unfold x.
    assert (k < length done) by (apply nth_error_Some; congruence).
    rewrite app_nth1 by (rewrite map_length; assumption).
    apply (nth_error_nth_map (fun r => - entry r c)). exact Hk. }
  assert (Xc : nth c x 0 = 1).
  { unfold x. rewrite app_nth2 by (rewrite map_length; lia). rewrite map_length, ID, Nat.sub_diag. reflexivity. }
  assert (Xgt : forall k, c < k -> nth k x 0 = 0).
  { intros k Hk. apply nth_overflow. unfold x. rewrite app_length, map_length, ID. simpl. lia. }
  exists x. split.
  - intros r Hr. replace (entry r W) with 0 by (symmetry; apply nth_overflow; rewrite (IL r Hr); lia).
    apply in_app_or in Hr. destruct Hr as [Hr|Hr].
    + destruct (In_nth_error _ _ Hr) as [i Hi].
      assert (Hic : i < c) by (rewrite <- ID; apply nth_error_Some; congruence).
      unfold lin.
      rewrite (sumF_ext_in (fun k => entry r k * nth k x 0)
                 (fun k => (if Nat.eqb k i then (fun _ => - entry r c) k else 0)
                           + (if Nat.eqb k c then (fun _ => entry r c) k else 0))).
      * rewrite (sumF_add KOK), !sum_pick_nat by lia. ring.
      * intros k Hk. apply in_seq in Hk. cbv beta.
        destruct (Nat.eqb_spec k i) as [Hki|Hki]; destruct (Nat.eqb_spec k c) as [Hkc|Hkc]; try lia.
        -- subst k. rewrite (IE i r Hi i Hic), Nat.eqb_refl, (Xlt i r Hi). ring.
        -- subst k. rewrite Xc. ring.
        -- destruct (Nat.lt_ge_cases k c) as [Hlt|Hge].
           ++ rewrite (IE i r Hi k Hlt). destruct (Nat.eqb_spec k i); [contradiction|]. ring.
           ++ rewrite Xgt by lia. ring.
    + unfold lin. apply (sumF_zero_in KOK). intros k Hk. apply in_seq in Hk.
      destruct (Nat.lt_ge_cases k c) as [Hlt|Hge]; [rewrite (IT r Hr k Hlt); ring|].
      destruct (Nat.eq_dec k c) as [->|Hkc]; [rewrite (Z r Hr); ring|].
      rewrite Xgt by lia. ring.
  - exists c. split; [exact Hc|]. rewrite Xc. apply f1_neq_0, KOK.
Qed.

(* full specification of the elimination *)
Theorem gauss_jordan_spec (fuel : nat) : forall (c : nat) (done todo : list (list K)),
  Inv c done todo -> length todo = fuel -> (c + fuel = m)%nat ->
  match gauss_jordan fuel c done todo with
  | Some rows => Inv m rows [] /\ (forall p x, sol p x rows <-> sol p x (done ++ todo))
  | None => exists x, sol W x (done ++ todo) /\ exists k, k < m /\ nth k x 0 <> 0
  end.
Proof. induction fuel as [|fuel IH]; intros c done todo I HL Hc; simpl.
  - destruct todo; [|discriminate]. replace m with c by lia. split; [exact I|].
    intros p x. rewrite app_nil_r. tauto.
  - destruct (find_pivot c todo) as [[pv others]|] eqn:F.
    + destruct (find_pivot_some _ _ _ _ F) as [_ HP].
      pose proof (step_inv c done todo pv others I F) as I'.
      specialize (IH (S c) _ _ I').
      assert (HL' : length (eliminate c (row_scale (1 / entry pv c) pv) others) = fuel).
      { rewrite eliminate_map, map_length. apply Permutation_length in HP. simpl in HP. lia. }
      specialize (IH HL' ltac:(lia)).
      destruct (gauss_jordan fuel (S c) _ _) as [rows|].
      * destruct IH as [IR IS]. split; [exact IR|]. intros p x. rewrite IS. exact (step_sol c done todo pv others p x I F).
      * destruct IH as [x [Sx Hk]]. exists x. split; [|exact Hk].
        apply (step_sol c done todo pv others W x I F). exact Sx.
    + apply (no_pivot_kernel c); [exact I|lia|exact F].
Qed.

(* reading the reduced form *)
Lemma lin_reduced (rows : list (list K)) (k : nat) (r x : list K) :
  Inv m rows [] -> nth_error rows k = Some r -> lin r x = nth k x 0.
Proof. intros [_ [ID [IE _]]] Hk.
  assert (Hkm : k < m) by (rewrite <- ID; apply nth_error_Some; congruence).
  unfold lin.
  rewrite (sumF_ext_in (fun j => entry r j * nth j x 0) (fun j => if Nat.eqb j k then (fun j => nth j x 0) j else 0)).
  - rewrite sum_pick_nat by exact Hkm. reflexivity.
  - intros j Hj. apply in_seq in Hj. rewrite (IE k r Hk j) by lia.
    destruct (Nat.eqb_spec j k); ring. Qed.

Definition read (p : nat) (rows : list (list K)) : list K := map (fun r => entry r p) rows.

Lemma read_sol (p : nat) (rows : list (list K)) : Inv m rows [] -> sol p (read p rows) rows.
Proof. intros I r Hr. destruct (In_nth_error _ _ Hr) as [k Hk].
  rewrite (lin_reduced rows k r _ I Hk). unfold read.
  apply (nth_error_nth_map (fun r => entry r p)). exact Hk. Qed.

Lemma sol_read (p : nat) (rows : list (list K)) (x : list K) :
  Inv m rows [] -> length x = m -> sol p x rows -> x = read p rows.
Proof. intros I HLx S. pose proof I as [_ [ID _]].
  apply (nth_ext _ _ 0 0); [unfold read; rewrite map_length; lia|].
  intros k Hk. assert (Hk' : k < length rows) by lia.
  pose proof (nth_error_nth' rows [] Hk') as E.
  rewrite <- (lin_reduced rows k _ x I E). rewrite (S _ (nth_error_In _ _ E)).
  unfold read. symmetry. apply (nth_error_nth_map (fun r => entry r p)). exact E. Qed.

Lemma read_length (p : nat) (rows : list (list K)) : Inv m rows [] -> length (read p rows) = m.
Proof. intros [_ [ID _]]. unfold read. rewrite map_length. exact ID. Qed.

End GJ.

(* ---------------- square systems ---------------- *)
Definition square (A : list (list K)) : Prop := length A = m /\ forall r, In r A -> length r = m.

Definition kernel_trivial (A : list (list K)) : Prop :=
  forall x, length x = m -> mat_vec A x = map (fun _ => 0) A -> x = map (fun _ => 0) x.

(* a kernel vector of initial rows [a ++ t] (a ranging over the rows of A) is a kernel vector of A *)
Lemma kernel_init (W : nat) (A R : list (list K)) (x : list K) :
  square A -> kernel_trivial A -> (forall r, In r R -> length r = W) ->
  (forall a, In a A -> exists t, In (a ++ t) R) ->
  sol W x R -> forall k, k < m -> nth k x 0 = 0.
Proof. intros [SL SR] KT RL RA S k Hk.
  set (x' := map (fun k => nth k x 0) (seq 0 m)).
  assert (L' : length x' = m) by (unfold x'; rewrite map_length, seq_length; reflexivity).
  assert (E : x' = map (fun _ => 0) x').
  { apply KT; [exact L'|]. unfold mat_vec. apply map_ext_in. intros a Ha.
    destruct (RA a Ha) as [t Ht]. unfold x'. rewrite dot_trunc by (apply SR, Ha).
    rewrite <- (lin_app a t x) by (apply SR, Ha). rewrite (S _ Ht).
    unfold entry. apply nth_overflow. rewrite (RL _ Ht). lia. }
  replace (nth k x 0) with (nth k x' 0) by (unfold x'; apply (nth_map_seq (fun k => nth k x 0)); exact Hk).
  rewrite E. apply nth_map_zero. Qed.

Definition aug (A : list (list K)) (b : list K) : list (list K) := map (fun rb => fst rb ++ [snd rb]) (combine A b).

Lemma aug_inv (A : list (list K)) (b : list K) : square A -> length b = m -> Inv (S m) 0 [] (aug A b) /\ length (aug A b) = m.
Proof. intros [SL SR] Hb. split.
  - split; [|split; [reflexivity|split]].
    + intros r Hr. simpl in Hr. apply in_map_iff in Hr. destruct Hr as [[a beta] [<- Hab]].
      apply in_combine_l in Hab. simpl. rewrite app_length, (SR a Hab). simpl. lia.
    + intros k r Hk. destruct k; discriminate.
    + intros r _ j Hj. lia.
  - unfold aug. rewrite map_length, combine_length. lia. Qed.

Lemma aug_nth (A : list (list K)) (b : list K) (i : nat) : length A = m -> length b = m -> i < m ->
  In (nth i A [] ++ [nth i b 0]) (aug A b).
Proof. intros HA Hb Hi. apply in_map_iff. exists (nth i A [], nth i b 0). split; [reflexivity|].
  rewrite <- combine_nth by lia. apply nth_In. rewrite combine_length. lia. Qed.

Lemma aug_sol (A : list (list K)) (b x : list K) : square A -> length b = m ->
  (sol m x (aug A b) <-> mat_vec A x = b).
Proof. intros [SL SR] Hb. split.
  - intros S. apply (nth_ext _ _ 0 0); [unfold mat_vec; rewrite map_length; lia|].
    unfold mat_vec. rewrite map_length. intros i Hi.
    rewrite (nth_error_nth_map (fun r => dot r x) A i (nth i A []) 0) by (apply nth_error_nth'; exact Hi).
    assert (La : length (nth i A []) = m) by (apply SR, nth_In; exact Hi).
    pose proof (S _ (aug_nth A b i SL Hb ltac:(lia))) as E.
    rewrite lin_app in E by exact La. rewrite E.
    rewrite entry_app0 by exact La. reflexivity.
  - intros <- r Hr. apply in_map_iff in Hr. destruct Hr as [[a beta] [<- Hab]]. simpl.
    pose proof (in_combine_l _ _ _ _ Hab) as Ha. apply in_combine_map in Hab. subst beta.
    rewrite lin_app, entry_app0 by (apply SR, Ha). reflexivity. Qed.

(* ---- completeness of [solve] ---- *)
Theorem solve_complete_m (A : list (list K)) (b : list K) :
  square A -> length b = m -> kernel_trivial A -> exists x, solve A b = Some x.
Proof. intros SQ Hb KT. destruct (aug_inv A b SQ Hb) as [I HL].
  pose proof (gauss_jordan_spec (S m) m 0 [] (aug A b) I HL eq_refl) as G.
  unfold solve. cbv zeta. rewrite Hb. fold (aug A b).
  destruct (gauss_jordan m 0 [] (aug A b)) as [rows|].
  - destruct G as [IR IS]. fold (read m rows). exists (read m rows).
    rewrite (read_length (S m) m rows IR), Nat.eqb_refl.
    assert (E : mat_vec A (read m rows) = b).
    { apply (aug_sol A b _ SQ Hb). apply (IS m (read m rows)). apply (read_sol (S m)), IR. }
    rewrite E, vec_eqb_refl. reflexivity.
  - exfalso. destruct G as [x [Sx [k [Hk Hx]]]]. apply Hx.
    apply (kernel_init (S m) A (aug A b) x SQ KT); [apply I| |exact Sx|exact Hk].
    intros a Ha. destruct SQ as [SL SR]. destruct (In_combine_ex A b a ltac:(lia) Ha) as [beta Hab].
    exists [beta]. apply in_map_iff. exists (a, beta). split; [reflexivity|exact Hab]. Qed.

(* ---- a successful [solve] returns THE solution ---- *)
Theorem solve_unique_m (A : list (list K)) (b x x' : list K) :
  square A -> length b = m -> solve A b = Some x -> length x' = m -> mat_vec A x' = b -> x' = x.
Proof. intros SQ Hb HS HL' HA. destruct (aug_inv A b SQ Hb) as [I HL].
  pose proof (gauss_jordan_spec (S m) m 0 [] (aug A b) I HL eq_refl) as G.
  unfold solve in HS. cbv zeta in HS. rewrite Hb in HS. fold (aug A b) in HS.
  destruct (gauss_jordan m 0 [] (aug A b)) as [rows|]; [|discriminate].
  destruct (_ && _) in HS; [|discriminate]. injection HS as <-.
  destruct G as [IR IS]. apply (sol_read (S m) m rows x' IR HL').
  apply (IS m x'). apply (aug_sol A b x' SQ Hb). exact HA. Qed.

(* ---- completeness of [inverse] ---- *)
Definition augI (A : list (list K)) : list (list K) := map (fun ri => fst ri ++ snd ri) (combine A (@ident K m)).

Lemma ident_length : length (@ident K m) = m.
Proof. unfold ident. rewrite map_length, seq_length. reflexivity. Qed.

Lemma unit_vec_length (i : nat) : length (@unit_vec K m i) = m.
Proof. unfold unit_vec. rewrite map_length, seq_length. reflexivity. Qed.

Lemma augI_inv (A : list (list K)) : square A -> Inv (m + m) 0 [] (augI A) /\ length (augI A) = m.
Proof. intros [SL SR]. split.
  - split; [|split; [reflexivity|split]].
    + intros r Hr. simpl in Hr. apply in_map_iff in Hr. destruct Hr as [[a e] [<- Hab]].
      pose proof (in_combine_l _ _ _ _ Hab) as Ha. apply in_combine_r in Hab.
      unfold ident in Hab. apply in_map_iff in Hab. destruct Hab as [i [<- _]].
      simpl. rewrite app_length, (SR a Ha), unit_vec_length. reflexivity.
    + intros k r Hk. destruct k; discriminate.
    + intros r _ j Hj. lia.
  - unfold augI. rewrite map_length, combine_length, ident_length. lia. Qed.

Lemma augI_nth (A : list (list K)) (i : nat) : length A = m -> i < m ->
  In (nth i A [] ++ @unit_vec K m i) (augI A).
Proof. intros HA Hi. apply in_map_iff. exists (nth i A [], nth i (@ident K m) []). split.
  - simpl. unfold ident. rewrite nth_map_seq by exact Hi. reflexivity.
  - rewrite <- combine_nth by (rewrite ident_length; lia). apply nth_In.
    rewrite combine_length, ident_length. lia. Qed.

Theorem inverse_complete_m (A : list (list K)) :
  square A -> kernel_trivial A -> exists X, inverse A = Some X.
Proof. intros SQ KT. destruct (augI_inv A SQ) as [I HL]. pose proof SQ as [SL SR].
  pose proof (gauss_jordan_spec (m + m) m 0 [] (augI A) I HL eq_refl) as G.
  unfold inverse. cbv zeta. rewrite SL. fold (augI A).
  destruct (gauss_jordan m 0 [] (augI A)) as [rows|].
  - destruct G as [IR IS]. exists (map (skipn m) rows).
    assert (E1 : length (map (skipn m) rows) = m) by (rewrite map_length; apply IR).
    rewrite E1, Nat.eqb_refl.
    assert (E : @mat_mul K m A (map (skipn m) rows) = @ident K m).
    { unfold mat_mul, ident. apply (nth_ext _ _ [] []); [rewrite !map_length, seq_length; exact SL|].
      rewrite map_length, SL. intros i Hi.
      rewrite (nth_error_nth_map _ A i (nth i A []) []) by (apply nth_error_nth'; lia).
      rewrite nth_map_seq by exact Hi. unfold unit_vec. apply map_ext_in. intros j Hj. apply in_seq in Hj.
      assert (Ec : @col K (map (skipn m) rows) j = read (m + j) rows).
      { unfold col, read. rewrite map_map. apply map_ext. intros r. unfold entry. apply nth_skipn'. }
      rewrite Ec.
      assert (La : length (nth i A []) = m) by (apply SR, nth_In; lia).
      pose proof (proj1 (IS (m + j)%nat (read (m + j) rows)) (read_sol (m + m) (m + j) rows IR)
                    _ (augI_nth A i SL Hi)) as S.
      rewrite lin_app, entry_app in S by exact La. rewrite S.
      unfold unit_vec. apply nth_map_seq. lia. }
    rewrite E, mat_eqb_refl. reflexivity.
  - exfalso. destruct G as [x [Sx [k [Hk Hx]]]]. apply Hx.
    apply (kernel_init (m + m) A (augI A) x SQ KT); [apply I| |exact Sx|exact Hk].
    intros a Ha. destruct (In_combine_ex A (@ident K m) a ltac:(rewrite ident_length; lia) Ha) as [e Hae].
    exists e. apply in_map_iff. exists (a, e). split; [reflexivity|exact Hae]. Qed.

End Sys.

(* ---------------- statements with the dimension quantified ---------------- *)
Theorem solve_complete (m : nat) (A : list (list K)) (b : list K) :
  length A = m -> (forall r, In r A -> length r = m) -> length b = m ->
  (forall x, length x = m -> mat_vec A x = map (fun _ => 0) A -> x = map (fun _ => 0) x) ->
  exists x, solve A b = Some x.
Proof. intros H1 H2 H3 H4. apply (solve_complete_m m); [split; assumption|assumption|exact H4]. Qed.

Theorem solve_unique (m : nat) (A : list (list K)) (b x x' : list K) :
  length A = m -> (forall r, In r A -> length r = m) -> length b = m ->
  solve A b = Some x -> length x' = m -> mat_vec A x' = b -> x' = x.
Proof. intros H1 H2 H3. apply (solve_unique_m m); [split; assumption|assumption]. Qed.

Theorem inverse_complete (m : nat) (A : list (list K)) :
  length A = m -> (forall r, In r A -> length r = m) ->
  (forall x, length x = m -> mat_vec A x = map (fun _ => 0) A -> x = map (fun _ => 0) x) ->
  exists X, inverse A = Some X.
Proof. intros H1 H2 H3. apply (inverse_complete_m m); [split; assumption|exact H3]. Qed.

(* ---------------- the network solver ---------------- *)
Section NetSolve.
Variable n : network K.
Hypothesis WF : wf n.
Notation bs := (branches n).
Notation ns := (node_index n).
Notation vss := (vs_index n).
Notation dim := (length ns + length vss)%nat.
Ltac leq a b := destruct (label_eqb_spec a b).

Lemma validate_wf : validate n = Ok n.
Proof. destruct WF as [ND [Hz _]]. unfold validate.
  assert (E1 : lmem (zero n) (node_labels n) = true).
  { apply lmem_spec. unfold node_labels. destruct bs as [|b0 l] eqn:Eb; [left; reflexivity|].
    apply lsort_In, ldedup_In. apply Hz. discriminate. }
  rewrite E1. simpl.
  assert (E2 : Nat.eqb (length (ldedup (branch_ids n))) (length bs) = true).
  { apply Nat.eqb_eq. rewrite (proj2 (ldedup_length_NoDup _) ND). unfold branch_ids. apply map_length. }
  rewrite E2. reflexivity. Qed.

Lemma mna_square : square dim (mna_matrix n).
Proof. unfold mna_matrix. split.
  - rewrite app_length, !map_length. reflexivity.
  - intros r Hr. apply in_app_or in Hr.
    destruct Hr as [Hr|Hr]; apply in_map_iff in Hr; destruct Hr as [i [<- _]];
      rewrite app_length, !map_length; reflexivity. Qed.

Lemma mna_rhs_length : length (mna_rhs n) = dim.
Proof. unfold mna_rhs. rewrite app_length, !map_length. reflexivity. Qed.

(* well-posed => the MNA matrix has a trivial kernel *)
Lemma mna_kernel : WellPosed n -> kernel_trivial dim (mna_matrix n).
Proof. intros WP k Lk Hk. destruct (mna_exists K KOK n WF WP) as [x0 S0]. pose proof S0 as [L0 M0].
  set (y := map (fun i => nth i x0 0 + nth i k 0) (seq 0 dim)).
  assert (Sy : solves n y).
  { split; [unfold y; rewrite map_length, seq_length; reflexivity|].
    rewrite <- M0. unfold mat_vec. apply map_ext_in. intros r Hr.
    unfold y. rewrite (dot_add_seq dim) by (apply mna_square, Hr).
    assert (E : dot r k = 0).
    { unfold mat_vec in Hk.
      exact (proj1 (map_ext_in_iff (f:=fun r => dot r k) (g:=fun _ => 0) (l:=mna_matrix n)) Hk r Hr). }
    rewrite E. ring. }
  pose proof (mna_unique K KOK n WF y x0 WP Sy S0) as Ey.
  apply (nth_ext _ _ 0 0); [rewrite map_length; reflexivity|].
  intros i Hi. rewrite nth_map_zero.
  assert (E : nth i y 0 = nth i x0 0) by (rewrite Ey; reflexivity).
  unfold y in E. rewrite (nth_map_seq (fun i => nth i x0 0 + nth i k 0)) in E by lia.
  replace (nth i k 0) with ((nth i x0 0 + nth i k 0) - nth i x0 0) by ring. rewrite E. ring. Qed.

Theorem solve_network_complete : WellPosed n -> exists s, solve_network n = Ok s.
Proof. intros WP. destruct mna_square as [SL SR].
  destruct (solve_complete dim (mna_matrix n) (mna_rhs n) SL SR mna_rhs_length (mna_kernel WP)) as [x Hx].
  unfold solve_network. rewrite validate_wf. simpl. rewrite Hx. eexists. reflexivity. Qed.

(* conversely, a successful run certifies well-posedness *)
Theorem solved_wellposed (s : solution K) : solve_network n = Ok s -> WellPosed n.
Proof. intros Hs.
  assert (Hx : solve (mna_matrix n) (mna_rhs n) = Some (s_x s)).
  { unfold solve_network in Hs. rewrite validate_wf in Hs. simpl in Hs.
    destruct (solve (mna_matrix n) (mna_rhs n)) as [x|]; [|discriminate]. injection Hs as <-. reflexivity. }
  destruct (solve_network_sound K KOK n (proj2 (proj2 WF)) s Hs) as [_ [_ S]].
  destruct mna_square as [SL SR].
  split.
  - exists (phi_of n (s_x s)), (flow_of n (s_x s)). apply (mna_sound K KOK n WF), S.
  - intros phi j phi' j' C C'.
    destruct (mna_complete K KOK n WF phi j C) as [L1 M1].
    destruct (mna_complete K KOK n WF phi' j' C') as [L2 M2].
    assert (E : vec n phi j = vec n phi' j').
    { rewrite (solve_unique dim _ _ _ (vec n phi j) SL SR mna_rhs_length Hx L1 M1).
      rewrite (solve_unique dim _ _ _ (vec n phi' j') SL SR mna_rhs_length Hx L2 M2). reflexivity. }
    split.
    + intros l Hl.
      assert (H : l = zero n \/ In l ns).
      { unfold node_index. leq l (zero n); [left; assumption|right].
        apply filter_In. split; [apply lsort_In; exact Hl|].
        leq l (zero n); [contradiction|reflexivity]. }
      rewrite <- (phi_vec K n phi j l (proj1 C) H). rewrite E. apply phi_vec; [exact (proj1 C')|exact H].
    + intros b Hb. rewrite <- (flow_vec K KOK n WF phi j b C Hb). rewrite E. apply (flow_vec K KOK n WF); assumption.
Qed.

Theorem solve_network_iff : WellPosed n <-> exists s, solve_network n = Ok s.
Proof. split; [apply solve_network_complete|]. intros [s Hs]. exact (solved_wellposed s Hs). Qed.

End NetSolve.

End Gauss.
