(* Theory/Spec.v — the circuit equations, stated without matrices or indices (DESIGN §5).
   phi : node label -> K (potentials), j : branch -> K (flow from first to second terminal). *)
From Coq Require Import List Bool NArith.
From CC Require Import Theory.Field Model.Network.
Import ListNotations.

Section Spec.
Variable K : fops.
Notation "0" := (f0 K). Notation "1" := (f1 K).
Infix "+" := (fadd K). Infix "*" := (fmul K). Infix "-" := (fsub K). Notation "- x" := (fopp K x).

(* net flow leaving [node] through the branches [bs] *)
Definition kcl_sum (bs : list (branch K)) (j : branch K -> K) (node : label) : K :=
  sumF (fun b => (if label_eqb (node1 b) node then j b else 0) - (if label_eqb (node2 b) node then j b else 0)) bs.

Definition bvolt (phi : label -> K) (b : branch K) : K := phi (node1 b) - phi (node2 b).

(* the element law of a branch.  [eY = None] is exactly the ideal voltage source / short circuit (Z = 0):
   v = V.  Every other branch is a Norton branch  j = I + Y*v  (I = 0 for passive elements; for a linear
   voltage source I = V/Z, Y = 1/Z, i.e.  Z*j = V + v  — the library's convention, DESIGN §5). *)
Definition law (phi : label -> K) (j : branch K -> K) (b : branch K) : Prop :=
  match eY (el b) with
  | None => bvolt phi b = opt0 (eV (el b))
  | Some y => j b = opt0 (eI (el b)) + y * bvolt phi b
  end.

Definition CircuitSpec (n : network K) (phi : label -> K) (j : branch K -> K) : Prop :=
  phi (zero n) = 0
  /\ (forall node, kcl_sum (branches n) j node = 0)
  /\ (forall b, In b (branches n) -> law phi j b).

(* what Network.__post_init__ enforces, plus: no branch from a node to itself *)
Definition wf (n : network K) : Prop :=
  NoDup (branch_ids n)
  /\ (branches n <> [] -> In (zero n) (map node1 (branches n) ++ map node2 (branches n)))
  /\ (forall b, In b (branches n) -> node1 b <> node2 b).

(* the candidate read off a solution vector x = [potentials of node_index ; currents of vs_index] *)
Definition phi_of (n : network K) (x : list K) (l : label) : K :=
  if label_eqb l (zero n) then 0 else nth (lindex (node_index n) l) x 0.

Definition flow_of (n : network K) (x : list K) (b : branch K) : K :=
  if is_ideal_voltage_source (el b) then nth (length (node_index n) + lindex (vs_index n) (bid b)) x 0
  else opt0 (eI (el b)) + finY b * bvolt (phi_of n x) b.

(* uniqueness of the solution, on what is observable: potentials of the network's nodes, flows of its branches *)
Definition agree_on (n : network K) (phi phi' : label -> K) (j j' : branch K -> K) : Prop :=
  (forall l, In l (node_labels n) -> phi l = phi' l) /\ (forall b, In b (branches n) -> j b = j' b).

Definition WellPosed (n : network K) : Prop :=
  (exists phi j, CircuitSpec n phi j)
  /\ (forall phi j phi' j', CircuitSpec n phi j -> CircuitSpec n phi' j' -> agree_on n phi phi' j j').

End Spec.

Arguments kcl_sum {K}. Arguments bvolt {K}. Arguments law {K}. Arguments CircuitSpec {K}. Arguments wf {K}.
Arguments phi_of {K}. Arguments flow_of {K}. Arguments agree_on {K}. Arguments WellPosed {K}.
