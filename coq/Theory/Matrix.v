(* Theory/Matrix.v — algebra of the list matrices of Model/Network.v and Model/StateSpace.v
   (rows = inner lists; [mat_mul ncolsB A B], [transpose ncols M], [ident n], [mat_vec], [inverse], [diag],
   [mat_sub], [mat_opp], [hstack], [select_cols]) on well-shaped matrices [wfm r c M]:
   entry formulas, extensionality, associativity, identity laws, transposes, distributivity, matrix-vector
   product, and: a successful [inverse] of a square matrix is a two-sided inverse, symmetric when the matrix is.
   Generic in the field. *)
From Coq Require Import List Bool NArith Arith Lia Field Ring.
From CC Require Import Theory.Field Theory.Labels Model.Network Model.StateSpace Theory.Spec Theory.Mna
  Theory.MnaComplete Theory.Api Theory.Gauss.
Import ListNotations.

Section Matrix.
Variable K : fops.
Hypothesis KOK : fops_ok K.
Add Field Kmx : (Kth K KOK).
Notation "0" := (f0 K). Notation "1" := (f1 K).
Infix "+" := (fadd K). Infix "*" := (fmul K). Infix "-" := (fsub K). Notation "- x" := (fopp K x).
Infix "/" := (fdiv K).
Notation "x == y" := (feqb K x y) (at level 70).
Notation mat := (list (list K)).
Ltac feq x y := destruct (feqb_spec KOK x y).

Definition ent (M : mat) (i j : nat) : K := entry (nth i M []) j.
Definition wfm (r c : nat) (M : mat) : Prop := length M = r /\ forall row, In row M -> length row = c.

(* ---------------- lists ---------------- *)
Lemma entry_nil (j : nat) : entry (@nil K) j = 0.
Proof. destruct j; reflexivity. Qed.

Lemma ent_over (M : mat) (i j : nat) : length M <= i -> ent M i j = 0.
Proof. intros H. unfold ent. rewrite nth_overflow by exact H. apply entry_nil. Qed.

Lemma nth_map_lt {A B} (f : A -> B) (l : list A) (k : nat) (dA : A) (dB : B) :
  k < length l -> nth k (map f l) dB = f (nth k l dA).
Proof. intros H. apply nth_error_nth_map. apply nth_error_nth'. exact H. Qed.

Lemma vec_ext (u v : list K) : length u = length v -> (forall k, k < length u -> nth k u 0 = nth k v 0) -> u = v.
Proof. intros H1 H2. apply (nth_ext _ _ 0 0); assumption. Qed.

Lemma wfm_len r c M : wfm r c M -> length M = r.
Proof. intros [H _]; exact H. Qed.

Lemma wfm_row r c M i : wfm r c M -> i < r -> length (nth i M []) = c.
Proof. intros [HL HR] Hi. apply HR, nth_In. lia. Qed.

Lemma mat_ext r c (A B : mat) : wfm r c A -> wfm r c B ->
  (forall i j, i < r -> j < c -> ent A i j = ent B i j) -> A = B.
Proof. intros WA WB H. pose proof (wfm_len _ _ _ WA) as LA. pose proof (wfm_len _ _ _ WB) as LB.
  apply (nth_ext _ _ [] []); [lia|]. intros i Hi.
  assert (Hi' : i < r) by lia.
  apply vec_ext.
  - rewrite (wfm_row r c A i WA Hi'), (wfm_row r c B i WB Hi'). reflexivity.
  - intros j Hj. rewrite (wfm_row r c A i WA Hi') in Hj. apply (H i j Hi' Hj). Qed.

Lemma col_nth (M : mat) (j k : nat) : nth k (col M j) 0 = ent M k j.
Proof. unfold col. destruct (Nat.lt_ge_cases k (length M)) as [H|H].
  - rewrite (nth_map_lt (fun r => entry r j) M k [] 0 H). reflexivity.
  - rewrite nth_overflow by (rewrite map_length; exact H). symmetry. apply ent_over, H. Qed.

Lemma col_length (M : mat) (j : nat) : length (col M j) = length M.
Proof. apply map_length. Qed.

(* ---------------- vectors ---------------- *)
Definition vadd (u v : list K) : list K := map (fun p => fst p + snd p) (combine u v).
Definition vscal (a : K) (u : list K) : list K := map (fun x => a * x) u.

Lemma nth_combine_map (g : K * K -> K) (u v : list K) (k : nat) : length u = length v -> k < length u ->
  nth k (map g (combine u v)) 0 = g (nth k u 0, nth k v 0).
Proof. intros HL Hk. rewrite (nth_map_lt g (combine u v) k (0, 0) 0) by (rewrite combine_length; lia).
  rewrite combine_nth by exact HL. reflexivity. Qed.

Lemma vadd_length (u v : list K) : length u = length v -> length (vadd u v) = length u.
Proof. intros H. unfold vadd. rewrite map_length, combine_length. lia. Qed.

Lemma row_minus_length (u v : list K) : length u = length v -> length (row_minus K u v) = length u.
Proof. intros H. unfold row_minus. rewrite map_length, combine_length. lia. Qed.

Lemma nth_vadd (u v : list K) (k : nat) : length u = length v -> nth k (vadd u v) 0 = nth k u 0 + nth k v 0.
Proof. intros HL. destruct (Nat.lt_ge_cases k (length u)) as [H|H].
  - unfold vadd. rewrite nth_combine_map by assumption. reflexivity.
  - rewrite !nth_overflow; [ring|lia|lia|rewrite vadd_length; lia]. Qed.

Lemma nth_row_minus (u v : list K) (k : nat) : length u = length v ->
  nth k (row_minus K u v) 0 = nth k u 0 - nth k v 0.
Proof. intros HL. destruct (Nat.lt_ge_cases k (length u)) as [H|H].
  - unfold row_minus. rewrite nth_combine_map by assumption. reflexivity.
  - rewrite !nth_overflow; [ring|lia|lia|rewrite row_minus_length; lia]. Qed.

Lemma nth_map_any (f : K -> K) (u : list K) (k : nat) : f 0 = 0 -> nth k (map f u) 0 = f (nth k u 0).
Proof. intros H. rewrite <- H at 1. apply map_nth. Qed.

Lemma nth_vscal (a : K) (u : list K) (k : nat) : nth k (vscal a u) 0 = a * nth k u 0.
Proof. unfold vscal. apply (nth_map_any (fun x => a * x)). ring. Qed.

Lemma nth_row_opp (u : list K) (k : nat) : nth k (row_opp K u) 0 = - nth k u 0.
Proof. unfold row_opp. apply (nth_map_any (fun x => - x)). ring. Qed.

Lemma nth_zero_row (m k : nat) : nth k (zero_row K m) 0 = 0.
Proof. unfold zero_row. apply (nth_map_zero K). Qed.

Lemma zero_row_length (m : nat) : length (zero_row K m) = m.
Proof. unfold zero_row. rewrite map_length, seq_length. reflexivity. Qed.

Lemma dot_vadd (r u v : list K) : length u = length v -> dot r (vadd u v) = dot r u + dot r v.
Proof. intros H. rewrite !(dot_nth K KOK).
  rewrite <- (sumF_add KOK (fun k => nth k r 0 * nth k u 0) (fun k => nth k r 0 * nth k v 0)).
  apply sumF_ext. intros k. rewrite nth_vadd by exact H. ring. Qed.

Lemma dot_row_minus_r (r u v : list K) : length u = length v -> dot r (row_minus K u v) = dot r u - dot r v.
Proof. intros H. rewrite !(dot_nth K KOK).
  rewrite <- (sumF_sub KOK (fun k => nth k r 0 * nth k u 0) (fun k => nth k r 0 * nth k v 0)).
  apply sumF_ext. intros k. rewrite nth_row_minus by exact H. ring. Qed.

Lemma dot_vscal_r (r u : list K) (a : K) : dot r (vscal a u) = a * dot r u.
Proof. rewrite !(dot_nth K KOK). rewrite <- (sumF_scal_l KOK (fun k => nth k r 0 * nth k u 0) a).
  apply sumF_ext. intros k. rewrite nth_vscal. ring. Qed.

Lemma dot_comm (u v : list K) : length u = length v -> dot u v = dot v u.
Proof. intros H. rewrite !(dot_nth K KOK), H. apply sumF_ext. intros k. ring. Qed.

Lemma dot_row_minus_l (a b x : list K) : length a = length b ->
  dot (row_minus K a b) x = dot a x - dot b x.
Proof. intros H. rewrite !(dot_nth K KOK), row_minus_length, <- H by exact H.
  rewrite <- (sumF_sub KOK (fun k => nth k a 0 * nth k x 0) (fun k => nth k b 0 * nth k x 0)).
  apply sumF_ext. intros k. rewrite nth_row_minus by exact H. ring. Qed.

Lemma dot_row_scale_l (c : K) (a x : list K) : dot (row_scale c a) x = c * dot a x.
Proof. rewrite !(dot_nth K KOK). unfold row_scale. rewrite map_length.
  rewrite <- (sumF_scal_l KOK (fun k => nth k a 0 * nth k x 0) c).
  apply sumF_ext. intros k. rewrite (nth_map_any (fun y => c * y)) by ring. ring. Qed.

Lemma dot_map_div_l (z : K) (a x : list K) : z <> 0 -> dot (map (fun y => y / z) a) x = dot a x / z.
Proof. intros Hz. rewrite !(dot_nth K KOK). rewrite map_length.
  replace (sumF (fun k => nth k a 0 * nth k x 0) (seq 0 (length a)) / z)
    with (sumF (fun k => nth k a 0 * nth k x 0) (seq 0 (length a)) * (1 / z)) by (field; exact Hz).
  rewrite <- (sumF_scal_r KOK (fun k => nth k a 0 * nth k x 0) (1 / z)).
  apply sumF_ext. intros k. rewrite (nth_map_any (fun y => y / z)) by (field; exact Hz). field. exact Hz. Qed.

Lemma dot_zero_l {A} (l : list A) (x : list K) : dot (map (fun _ => 0) l) x = 0.
Proof. apply (dot_map_zero KOK). Qed.

Lemma dot_zero_r {A} (r : list K) (l : list A) : dot r (map (fun _ => 0) l) = 0.
Proof. rewrite (dot_nth K KOK). apply (sumF_zero_in KOK). intros k _. rewrite (nth_map_zero K). ring. Qed.

Lemma dot_unit_l (m k : nat) (x : list K) : k < m -> dot (unit_vec m k) x = nth k x 0.
Proof. intros H. rewrite (dot_nth K KOK), (unit_vec_length K).
  rewrite (sumF_ext_in (fun j => nth j (unit_vec m k) 0 * nth j x 0)
             (fun j => if Nat.eqb j k then (fun j => nth j x 0) j else 0)).
  - apply (sum_pick_nat K KOK (fun j => nth j x 0) k m H).
  - intros j Hj. apply in_seq in Hj. unfold unit_vec.
    rewrite (nth_map_seq (fun j => if Nat.eqb j k then 1 else 0)) by lia.
    destruct (Nat.eqb j k); ring. Qed.

(* ---------------- shapes ---------------- *)
Lemma wfm_mul r n c (A B : mat) : wfm r n A -> wfm r c (mat_mul c A B).
Proof. intros [HL _]. split; [unfold mat_mul; rewrite map_length; exact HL|].
  intros row Hr. unfold mat_mul in Hr. apply in_map_iff in Hr. destruct Hr as [a [<- _]].
  rewrite map_length, seq_length. reflexivity. Qed.

Lemma wfm_transpose r c (M : mat) : wfm r c M -> wfm c r (transpose c M).
Proof. intros [HL _]. split; [unfold transpose; rewrite map_length, seq_length; reflexivity|].
  intros row Hr. unfold transpose in Hr. apply in_map_iff in Hr. destruct Hr as [j [<- _]].
  rewrite col_length. exact HL. Qed.

Lemma wfm_ident n : wfm n n (@ident K n).
Proof. split; [apply ident_length|]. intros row Hr. unfold ident in Hr. apply in_map_iff in Hr.
  destruct Hr as [j [<- _]]. apply unit_vec_length. Qed.

Lemma wfm_diag (d : list K) : wfm (length d) (length d) (diag K d).
Proof. split; [unfold diag; rewrite map_length, seq_length; reflexivity|].
  intros row Hr. unfold diag in Hr. apply in_map_iff in Hr. destruct Hr as [j [<- _]].
  rewrite map_length, seq_length. reflexivity. Qed.

Lemma wfm_opp r c (M : mat) : wfm r c M -> wfm r c (mat_opp K M).
Proof. intros [HL HR]. split; [unfold mat_opp; rewrite map_length; exact HL|].
  intros row Hr. unfold mat_opp in Hr. apply in_map_iff in Hr. destruct Hr as [a [<- Ha]].
  unfold row_opp. rewrite map_length. apply HR, Ha. Qed.

Lemma wfm_sub r c (A B : mat) : wfm r c A -> wfm r c B -> wfm r c (mat_sub K A B).
Proof. intros [LA RA] [LB RB]. split; [unfold mat_sub; rewrite map_length, combine_length; lia|].
  intros row Hr. unfold mat_sub in Hr. apply in_map_iff in Hr. destruct Hr as [[a b] [<- Hab]]. simpl.
  pose proof (in_combine_l _ _ _ _ Hab) as Ha. pose proof (in_combine_r _ _ _ _ Hab) as Hb.
  rewrite row_minus_length; [apply RA, Ha|]. rewrite (RA a Ha), (RB b Hb). reflexivity. Qed.

Lemma wfm_select r c (idx : list nat) (M : mat) : wfm r c M -> wfm r (length idx) (select_cols K idx M).
Proof. intros [HL _]. split; [unfold select_cols; rewrite map_length; exact HL|].
  intros row Hr. unfold select_cols in Hr. apply in_map_iff in Hr. destruct Hr as [a [<- _]].
  apply map_length. Qed.

Lemma wfm_hstack r c1 c2 (A B : mat) : wfm r c1 A -> wfm r c2 B -> wfm r (c1 + c2) (hstack K A B).
Proof. intros [LA RA] [LB RB]. split; [unfold hstack; rewrite map_length, combine_length; lia|].
  intros row Hr. unfold hstack in Hr. apply in_map_iff in Hr. destruct Hr as [[a b] [<- Hab]]. simpl.
  rewrite app_length, (RA a (in_combine_l _ _ _ _ Hab)), (RB b (in_combine_r _ _ _ _ Hab)). reflexivity. Qed.

(* ---------------- entries ---------------- *)
Lemma ent_mul r n c (A B : mat) i j : wfm r n A -> i < r -> j < c ->
  ent (mat_mul c A B) i j = sumF (fun k => ent A i k * ent B k j) (seq 0 n).
Proof. intros WA Hi Hj. unfold ent at 1. unfold mat_mul.
  rewrite (nth_map_lt _ A i [] []) by (rewrite (wfm_len _ _ _ WA); exact Hi).
  unfold entry. rewrite (nth_map_seq (fun j => dot (nth i A []) (col B j))) by exact Hj.
  rewrite (dot_nth K KOK), (wfm_row r n A i WA Hi).
  apply sumF_ext. intros k. rewrite col_nth. reflexivity. Qed.

Lemma ent_transpose c (M : mat) i j : i < c -> ent (transpose c M) i j = ent M j i.
Proof. intros Hi. unfold ent at 1. unfold transpose. rewrite (nth_map_seq (col M)) by exact Hi.
  unfold entry. apply col_nth. Qed.

Lemma ent_ident n i j : i < n -> j < n -> ent (@ident K n) i j = if Nat.eqb j i then 1 else 0.
Proof. intros Hi Hj. unfold ent, ident. rewrite (nth_map_seq (unit_vec n)) by exact Hi.
  unfold entry, unit_vec. rewrite (nth_map_seq (fun j => if Nat.eqb j i then 1 else 0)) by exact Hj. reflexivity. Qed.

Lemma ent_diag (d : list K) i j : i < length d -> j < length d ->
  ent (diag K d) i j = if Nat.eqb j i then nth i d 0 else 0.
Proof. intros Hi Hj. unfold ent, diag.
  rewrite (nth_map_seq (fun k => map (fun j => if Nat.eqb j k then nth k d 0 else 0) (seq 0 (length d)))) by exact Hi.
  unfold entry. rewrite (nth_map_seq (fun j => if Nat.eqb j i then nth i d 0 else 0)) by exact Hj. reflexivity. Qed.

Lemma ent_opp r c (M : mat) i j : wfm r c M -> i < r -> ent (mat_opp K M) i j = - ent M i j.
Proof. intros WM Hi. unfold ent, mat_opp.
  rewrite (nth_map_lt (row_opp K) M i [] []) by (rewrite (wfm_len _ _ _ WM); exact Hi).
  unfold entry. apply nth_row_opp. Qed.

Lemma ent_sub r c (A B : mat) i j : wfm r c A -> wfm r c B -> i < r ->
  ent (mat_sub K A B) i j = ent A i j - ent B i j.
Proof. intros WA WB Hi. unfold ent, mat_sub.
  pose proof (wfm_len _ _ _ WA) as LA. pose proof (wfm_len _ _ _ WB) as LB.
  rewrite (nth_map_lt _ (combine A B) i ([], []) []) by (rewrite combine_length; lia).
  rewrite combine_nth by lia. simpl. unfold entry. apply nth_row_minus.
  rewrite (wfm_row r c A i WA Hi), (wfm_row r c B i WB Hi). reflexivity. Qed.

Lemma ent_select r c (idx : list nat) (M : mat) i j : wfm r c M -> i < r -> j < length idx ->
  ent (select_cols K idx M) i j = ent M i (nth j idx O).
Proof. intros WM Hi Hj. unfold ent, select_cols.
  rewrite (nth_map_lt _ M i [] []) by (rewrite (wfm_len _ _ _ WM); exact Hi).
  unfold entry at 1. rewrite (nth_map_lt (fun p => entry (nth i M []) p) idx j O 0) by exact Hj. reflexivity. Qed.

Lemma ent_hstack r c1 c2 (A B : mat) i j : wfm r c1 A -> wfm r c2 B -> i < r ->
  ent (hstack K A B) i j = if Nat.ltb j c1 then ent A i j else ent B i (j - c1).
Proof. intros WA WB Hi. unfold ent, hstack.
  pose proof (wfm_len _ _ _ WA) as LA. pose proof (wfm_len _ _ _ WB) as LB.
  rewrite (nth_map_lt _ (combine A B) i ([], []) []) by (rewrite combine_length; lia).
  rewrite combine_nth by lia. simpl. unfold entry.
  pose proof (wfm_row r c1 A i WA Hi) as RA.
  destruct (Nat.ltb_spec j c1) as [H|H].
  - apply app_nth1. lia.
  - rewrite app_nth2 by lia. rewrite RA. reflexivity. Qed.

(* ---------------- products ---------------- *)
Lemma mul_assoc r n p c (A B C : mat) : wfm r n A -> wfm n p B -> wfm p c C ->
  mat_mul c (mat_mul p A B) C = mat_mul c A (mat_mul c B C).
Proof. intros WA WB WC.
  apply (mat_ext r c); [apply (wfm_mul r p), (wfm_mul r n), WA|apply (wfm_mul r n), WA|].
  intros i j Hi Hj.
  rewrite (ent_mul r p c) by (try apply (wfm_mul r n); assumption).
  rewrite (ent_mul r n c) by assumption.
  rewrite (sumF_ext_in (fun l => ent (mat_mul p A B) i l * ent C l j)
             (fun l => sumF (fun k => ent A i k * ent B k l * ent C l j) (seq 0 n))).
  2:{ intros l Hl. apply in_seq in Hl. rewrite (ent_mul r n p) by (assumption || lia).
      rewrite <- (sumF_scal_r KOK (fun k => ent A i k * ent B k l) (ent C l j)). reflexivity. }
  rewrite (sumF_ext_in (fun k => ent A i k * ent (mat_mul c B C) k j)
             (fun k => sumF (fun l => ent A i k * ent B k l * ent C l j) (seq 0 p))).
  2:{ intros k Hk. apply in_seq in Hk. rewrite (ent_mul n p c) by (assumption || lia).
      rewrite <- (sumF_scal_l KOK (fun l => ent B k l * ent C l j) (ent A i k)).
      apply sumF_ext. intros l. ring. }
  apply (sumF_swap KOK (fun l k => ent A i k * ent B k l * ent C l j)). Qed.

Lemma mul_ident_r r n (A : mat) : wfm r n A -> mat_mul n A (@ident K n) = A.
Proof. intros WA. apply (mat_ext r n); [apply (wfm_mul r n), WA|exact WA|].
  intros i j Hi Hj. rewrite (ent_mul r n n) by assumption.
  rewrite (sumF_ext_in (fun k => ent A i k * ent (@ident K n) k j)
             (fun k => if Nat.eqb k j then (fun k => ent A i k) k else 0)).
  - apply (sum_pick_nat K KOK (fun k => ent A i k) j n Hj).
  - intros k Hk. apply in_seq in Hk. rewrite ent_ident by lia. rewrite (Nat.eqb_sym j k).
    destruct (Nat.eqb k j); ring. Qed.

Lemma mul_ident_l r n (A : mat) : wfm r n A -> mat_mul n (@ident K r) A = A.
Proof. intros WA. apply (mat_ext r n); [apply (wfm_mul r r), wfm_ident|exact WA|].
  intros i j Hi Hj. rewrite (ent_mul r r n) by (assumption || apply wfm_ident).
  rewrite (sumF_ext_in (fun k => ent (@ident K r) i k * ent A k j)
             (fun k => if Nat.eqb k i then (fun k => ent A k j) k else 0)).
  - apply (sum_pick_nat K KOK (fun k => ent A k j) i r Hi).
  - intros k Hk. apply in_seq in Hk. rewrite ent_ident by lia.
    destruct (Nat.eqb k i); ring. Qed.

Lemma transpose_mul r n c (A B : mat) : wfm r n A -> wfm n c B ->
  transpose c (mat_mul c A B) = mat_mul r (transpose c B) (transpose n A).
Proof. intros WA WB.
  apply (mat_ext c r); [apply wfm_transpose, (wfm_mul r n), WA|apply (wfm_mul c n), wfm_transpose, WB|].
  intros i j Hi Hj. rewrite ent_transpose by exact Hi.
  rewrite (ent_mul r n c) by assumption.
  rewrite (ent_mul c n r) by (try apply wfm_transpose; assumption).
  apply sumF_ext_in. intros k Hk. apply in_seq in Hk.
  rewrite !ent_transpose by lia. ring. Qed.

Lemma transpose_transpose r c (M : mat) : wfm r c M -> transpose r (transpose c M) = M.
Proof. intros WM. apply (mat_ext r c); [apply wfm_transpose, wfm_transpose, WM|exact WM|].
  intros i j Hi Hj. rewrite !ent_transpose by assumption. reflexivity. Qed.

Lemma transpose_ident n : transpose n (@ident K n) = @ident K n.
Proof. apply (mat_ext n n); [apply wfm_transpose, wfm_ident|apply wfm_ident|].
  intros i j Hi Hj. rewrite ent_transpose by exact Hi. rewrite !ent_ident by assumption.
  rewrite Nat.eqb_sym. reflexivity. Qed.

Lemma transpose_sub r c (A B : mat) : wfm r c A -> wfm r c B ->
  transpose c (mat_sub K A B) = mat_sub K (transpose c A) (transpose c B).
Proof. intros WA WB. apply (mat_ext c r); [apply wfm_transpose, wfm_sub; assumption|apply wfm_sub; apply wfm_transpose; assumption|].
  intros i j Hi Hj. rewrite ent_transpose by exact Hi.
  rewrite (ent_sub r c), (ent_sub c r) by (try apply wfm_transpose; assumption).
  rewrite !ent_transpose by exact Hi. reflexivity. Qed.

Lemma mul_sub_l r n c (A B C : mat) : wfm r n A -> wfm r n B -> wfm n c C ->
  mat_mul c (mat_sub K A B) C = mat_sub K (mat_mul c A C) (mat_mul c B C).
Proof. intros WA WB WC.
  apply (mat_ext r c); [apply (wfm_mul r n), wfm_sub; assumption|apply wfm_sub; apply (wfm_mul r n); assumption|].
  intros i j Hi Hj. rewrite (ent_sub r c) by (try apply (wfm_mul r n); assumption).
  rewrite !(ent_mul r n c) by (try apply wfm_sub; assumption).
  rewrite <- (sumF_sub KOK (fun k => ent A i k * ent C k j) (fun k => ent B i k * ent C k j)).
  apply sumF_ext. intros k. rewrite (ent_sub r n) by assumption. ring. Qed.

Lemma mul_sub_r r n c (A B C : mat) : wfm r n A -> wfm n c B -> wfm n c C ->
  mat_mul c A (mat_sub K B C) = mat_sub K (mat_mul c A B) (mat_mul c A C).
Proof. intros WA WB WC.
  apply (mat_ext r c); [apply (wfm_mul r n), WA|apply wfm_sub; apply (wfm_mul r n); assumption|].
  intros i j Hi Hj. rewrite (ent_sub r c) by (try apply (wfm_mul r n); assumption).
  rewrite !(ent_mul r n c) by assumption.
  rewrite <- (sumF_sub KOK (fun k => ent A i k * ent B k j) (fun k => ent A i k * ent C k j)).
  apply sumF_ext_in. intros k Hk. apply in_seq in Hk. rewrite (ent_sub n c) by (assumption || lia). ring. Qed.

Lemma mul_opp_l r n c (A B : mat) : wfm r n A -> wfm n c B ->
  mat_mul c (mat_opp K A) B = mat_opp K (mat_mul c A B).
Proof. intros WA WB.
  apply (mat_ext r c); [apply (wfm_mul r n), wfm_opp, WA|apply wfm_opp, (wfm_mul r n), WA|].
  intros i j Hi Hj. rewrite (ent_opp r c) by (try apply (wfm_mul r n); assumption).
  rewrite !(ent_mul r n c) by (try apply wfm_opp; assumption).
  rewrite <- (sumF_opp KOK (fun k => ent A i k * ent B k j)).
  apply sumF_ext. intros k. rewrite (ent_opp r n) by assumption. ring. Qed.

Lemma mul_opp_r r n c (A B : mat) : wfm r n A -> wfm n c B ->
  mat_mul c A (mat_opp K B) = mat_opp K (mat_mul c A B).
Proof. intros WA WB.
  apply (mat_ext r c); [apply (wfm_mul r n), WA|apply wfm_opp, (wfm_mul r n), WA|].
  intros i j Hi Hj. rewrite (ent_opp r c) by (try apply (wfm_mul r n); assumption).
  rewrite !(ent_mul r n c) by assumption.
  rewrite <- (sumF_opp KOK (fun k => ent A i k * ent B k j)).
  apply sumF_ext_in. intros k Hk. apply in_seq in Hk. rewrite (ent_opp n c) by (assumption || lia). ring. Qed.

(* diag(d) * diag(1/d) = I *)
Lemma diag_inv (d : list K) : (forall k, k < length d -> nth k d 0 <> 0) ->
  mat_mul (length d) (diag K d) (diag K (map (fun x => 1 / x) d)) = @ident K (length d).
Proof. intros Hd. set (m := length d).
  assert (Lm : length (map (fun x => 1 / x) d) = m) by apply map_length.
  apply (mat_ext m m); [apply (wfm_mul m m), wfm_diag|apply wfm_ident|].
  intros i j Hi Hj. rewrite (ent_mul m m m) by (assumption || apply wfm_diag).
  rewrite (sumF_ext_in (fun k => ent (diag K d) i k * ent (diag K (map (fun x => 1 / x) d)) k j)
             (fun k => if Nat.eqb k i then (fun k => if Nat.eqb j k then 1 else 0) k else 0)).
  - rewrite (sum_pick_nat K KOK (fun k => if Nat.eqb j k then 1 else 0) i m Hi). rewrite ent_ident by assumption. reflexivity.
  - intros k Hk. apply in_seq in Hk. rewrite ent_diag by (fold m; lia).
    rewrite ent_diag by (rewrite Lm; lia).
    destruct (Nat.eqb_spec k i) as [->|Hki]; [|ring].
    destruct (Nat.eqb_spec j i) as [->|Hji]; [|ring].
    rewrite (nth_map_lt (fun x => 1 / x) d i 0 0) by exact Hi. field. apply Hd, Hi. Qed.

(* ---------------- matrix-vector product ---------------- *)
Lemma mat_vec_length (A : mat) (x : list K) : length (mat_vec A x) = length A.
Proof. apply map_length. Qed.

Lemma nth_mat_vec r c (A : mat) (x : list K) i : wfm r c A -> i < r ->
  nth i (mat_vec A x) 0 = sumF (fun k => ent A i k * nth k x 0) (seq 0 c).
Proof. intros WA Hi. unfold mat_vec.
  rewrite (nth_map_lt (fun r => dot r x) A i [] 0) by (rewrite (wfm_len _ _ _ WA); exact Hi).
  rewrite (dot_nth K KOK), (wfm_row r c A i WA Hi). reflexivity. Qed.

Lemma nth_mat_vec_dot (A : mat) (x : list K) i : i < length A -> nth i (mat_vec A x) 0 = dot (nth i A []) x.
Proof. intros Hi. unfold mat_vec. apply (nth_map_lt (fun r => dot r x) A i [] 0 Hi). Qed.

Lemma mat_vec_mul r n c (A B : mat) (x : list K) : wfm r n A -> wfm n c B ->
  mat_vec (mat_mul c A B) x = mat_vec A (mat_vec B x).
Proof. intros WA WB. apply vec_ext.
  - rewrite !mat_vec_length. unfold mat_mul. apply map_length.
  - intros i Hi. rewrite mat_vec_length in Hi. unfold mat_mul in Hi. rewrite map_length, (wfm_len _ _ _ WA) in Hi.
    rewrite (nth_mat_vec r c) by (try apply (wfm_mul r n); assumption).
    rewrite (nth_mat_vec r n) by assumption.
    rewrite (sumF_ext_in (fun j => ent (mat_mul c A B) i j * nth j x 0)
               (fun j => sumF (fun k => ent A i k * ent B k j * nth j x 0) (seq 0 n))).
    2:{ intros j Hj. apply in_seq in Hj. rewrite (ent_mul r n c) by (assumption || lia).
        rewrite <- (sumF_scal_r KOK (fun k => ent A i k * ent B k j) (nth j x 0)). reflexivity. }
    rewrite (sumF_ext_in (fun k => ent A i k * nth k (mat_vec B x) 0)
               (fun k => sumF (fun j => ent A i k * ent B k j * nth j x 0) (seq 0 c))).
    2:{ intros k Hk. apply in_seq in Hk. rewrite (nth_mat_vec n c) by (assumption || lia).
        rewrite <- (sumF_scal_l KOK (fun j => ent B k j * nth j x 0) (ent A i k)).
        apply sumF_ext. intros j. ring. }
    apply (sumF_swap KOK (fun j k => ent A i k * ent B k j * nth j x 0)). Qed.

Lemma mat_vec_ident n (x : list K) : length x = n -> mat_vec (@ident K n) x = x.
Proof. intros HL. apply vec_ext; [rewrite mat_vec_length, ident_length; lia|].
  intros i Hi. rewrite mat_vec_length, ident_length in Hi.
  rewrite nth_mat_vec_dot by (rewrite ident_length; exact Hi).
  unfold ident. rewrite (nth_map_seq (unit_vec n)) by exact Hi. apply dot_unit_l, Hi. Qed.

Lemma mat_vec_vadd (A : mat) (u v : list K) : length u = length v ->
  mat_vec A (vadd u v) = vadd (mat_vec A u) (mat_vec A v).
Proof. intros H. unfold mat_vec, vadd. induction A as [|a A IH]; simpl; [reflexivity|].
  rewrite IH. f_equal. apply dot_vadd, H. Qed.

Lemma mat_vec_row_minus (A : mat) (u v : list K) : length u = length v ->
  mat_vec A (row_minus K u v) = row_minus K (mat_vec A u) (mat_vec A v).
Proof. intros H. apply vec_ext.
  - rewrite mat_vec_length, row_minus_length by (rewrite !mat_vec_length; reflexivity).
    rewrite mat_vec_length. reflexivity.
  - intros i Hi. rewrite mat_vec_length in Hi. rewrite nth_row_minus by (rewrite !mat_vec_length; reflexivity).
    rewrite !nth_mat_vec_dot by exact Hi. apply dot_row_minus_r, H. Qed.

Lemma mat_vec_zero {A} (M : mat) (l : list A) : mat_vec M (map (fun _ => 0) l) = map (fun _ => 0) M.
Proof. unfold mat_vec. apply map_ext. intros r. apply dot_zero_r. Qed.

Lemma mat_vec_sub r c (A B : mat) (x : list K) : wfm r c A -> wfm r c B ->
  mat_vec (mat_sub K A B) x = row_minus K (mat_vec A x) (mat_vec B x).
Proof. intros WA WB. pose proof (wfm_len _ _ _ WA) as LA. pose proof (wfm_len _ _ _ WB) as LB.
  apply vec_ext.
  - rewrite mat_vec_length, row_minus_length by (rewrite !mat_vec_length; lia).
    rewrite mat_vec_length, LA. apply (wfm_len r c), wfm_sub; assumption.
  - intros i Hi. rewrite mat_vec_length, (wfm_len r c _ (wfm_sub r c A B WA WB)) in Hi.
    rewrite nth_row_minus by (rewrite !mat_vec_length; lia).
    rewrite !(nth_mat_vec r c) by (try apply wfm_sub; assumption).
    rewrite <- (sumF_sub KOK (fun k => ent A i k * nth k x 0) (fun k => ent B i k * nth k x 0)).
    apply sumF_ext. intros k. rewrite (ent_sub r c) by assumption. ring. Qed.

Lemma mat_vec_diag (d x : list K) i : i < length d -> nth i (mat_vec (diag K d) x) 0 = nth i d 0 * nth i x 0.
Proof. intros Hi. rewrite (nth_mat_vec (length d) (length d)) by (apply wfm_diag || exact Hi).
  rewrite (sumF_ext_in (fun k => ent (diag K d) i k * nth k x 0)
             (fun k => if Nat.eqb k i then (fun k => nth i d 0 * nth k x 0) k else 0)).
  - apply (sum_pick_nat K KOK (fun k => nth i d 0 * nth k x 0) i (length d) Hi).
  - intros k Hk. apply in_seq in Hk. rewrite ent_diag by lia. destruct (Nat.eqb k i); ring. Qed.

(* ---------------- sums and zero matrices ---------------- *)
Definition mat_add (A B : mat) : mat := map (fun p => vadd (fst p) (snd p)) (combine A B).
Definition zero_mat (r c : nat) : mat := map (fun _ => zero_row K c) (seq 0 r).

Lemma wfm_add r c (A B : mat) : wfm r c A -> wfm r c B -> wfm r c (mat_add A B).
Proof. intros [LA RA] [LB RB]. split; [unfold mat_add; rewrite map_length, combine_length; lia|].
  intros row Hr. unfold mat_add in Hr. apply in_map_iff in Hr. destruct Hr as [[a b] [<- Hab]]. simpl.
  pose proof (in_combine_l _ _ _ _ Hab) as Ha. pose proof (in_combine_r _ _ _ _ Hab) as Hb.
  rewrite vadd_length; [apply RA, Ha|]. rewrite (RA a Ha), (RB b Hb). reflexivity. Qed.

Lemma ent_add r c (A B : mat) i j : wfm r c A -> wfm r c B -> i < r ->
  ent (mat_add A B) i j = ent A i j + ent B i j.
Proof. intros WA WB Hi. unfold ent, mat_add.
  pose proof (wfm_len _ _ _ WA) as LA. pose proof (wfm_len _ _ _ WB) as LB.
  rewrite (nth_map_lt _ (combine A B) i ([], []) []) by (rewrite combine_length; lia).
  rewrite combine_nth by lia. simpl. unfold entry. apply nth_vadd.
  rewrite (wfm_row r c A i WA Hi), (wfm_row r c B i WB Hi). reflexivity. Qed.

Lemma wfm_zero_mat r c : wfm r c (zero_mat r c).
Proof. split; [unfold zero_mat; rewrite map_length, seq_length; reflexivity|].
  intros row Hr. unfold zero_mat in Hr. apply in_map_iff in Hr. destruct Hr as [k [<- _]]. apply zero_row_length. Qed.

Lemma ent_zero_mat r c i j : ent (zero_mat r c) i j = 0.
Proof. destruct (Nat.lt_ge_cases i r) as [H|H].
  - unfold ent, zero_mat. rewrite (nth_map_seq (fun _ => zero_row K c)) by exact H. apply nth_zero_row.
  - apply ent_over. unfold zero_mat. rewrite map_length, seq_length. exact H. Qed.

Lemma mat_sub_self r c (A : mat) : wfm r c A -> mat_sub K A A = zero_mat r c.
Proof. intros WA. apply (mat_ext r c); [apply wfm_sub; exact WA|apply wfm_zero_mat|].
  intros i j Hi Hj. rewrite (ent_sub r c) by assumption. rewrite ent_zero_mat. ring. Qed.

Lemma mul_zero_l r n c (B : mat) : mat_mul c (zero_mat r n) B = zero_mat r c.
Proof. apply (mat_ext r c); [apply (wfm_mul r n), wfm_zero_mat|apply wfm_zero_mat|].
  intros i j Hi Hj. rewrite (ent_mul r n c) by (assumption || apply wfm_zero_mat).
  rewrite ent_zero_mat. apply (sumF_zero_in KOK). intros k _. rewrite ent_zero_mat. ring. Qed.

Lemma mat_vec_add r c (A B : mat) (x : list K) : wfm r c A -> wfm r c B ->
  mat_vec (mat_add A B) x = vadd (mat_vec A x) (mat_vec B x).
Proof. intros WA WB. pose proof (wfm_len _ _ _ WA) as LA. pose proof (wfm_len _ _ _ WB) as LB.
  apply vec_ext.
  - rewrite mat_vec_length, vadd_length by (rewrite !mat_vec_length; lia).
    rewrite mat_vec_length, LA. apply (wfm_len r c), wfm_add; assumption.
  - intros i Hi. rewrite mat_vec_length, (wfm_len r c _ (wfm_add r c A B WA WB)) in Hi.
    rewrite nth_vadd by (rewrite !mat_vec_length; lia).
    rewrite !(nth_mat_vec r c) by (try apply wfm_add; assumption).
    rewrite <- (sumF_add KOK (fun k => ent A i k * nth k x 0) (fun k => ent B i k * nth k x 0)).
    apply sumF_ext. intros k. rewrite (ent_add r c) by assumption. ring. Qed.

Lemma mat_vec_zero_mat r c (x : list K) : mat_vec (zero_mat r c) x = map (fun _ => 0) (seq 0 r).
Proof. unfold mat_vec, zero_mat. rewrite map_map. apply map_ext. intros k. unfold zero_row. apply dot_zero_l. Qed.

Lemma vadd_assoc (a b c : list K) : length a = length b -> length b = length c ->
  vadd (vadd a b) c = vadd a (vadd b c).
Proof. intros H1 H2. apply vec_ext.
  - rewrite !vadd_length; rewrite ?vadd_length; lia.
  - intros k _. rewrite !nth_vadd; rewrite ?vadd_length; try lia. ring. Qed.

Lemma vadd_zero_r {A} (u : list K) (l : list A) : length l = length u -> vadd u (map (fun _ => 0) l) = u.
Proof. intros H. apply vec_ext; [rewrite vadd_length; rewrite ?map_length; lia|].
  intros k _. rewrite nth_vadd by (rewrite map_length; lia). rewrite (nth_map_zero K). ring. Qed.

(* ---------------- boolean matrix equality ---------------- *)
Lemma vec_eqb_eq (u v : list K) : vec_eqb u v = true -> u = v.
Proof. revert v. induction u as [|a u IH]; intros [|b v] H; simpl in H; try discriminate; [reflexivity|].
  apply andb_true_iff in H. destruct H as [H1 H2]. feq a b; [|discriminate]. subst b. f_equal. apply IH, H2. Qed.

Lemma mat_eqb_eq (A B : mat) : mat_eqb A B = true -> A = B.
Proof. revert B. induction A as [|a A IH]; intros [|b B] H; simpl in H; try discriminate; [reflexivity|].
  apply andb_true_iff in H. destruct H as [H1 H2]. apply vec_eqb_eq in H1. subst b. f_equal. apply IH, H2. Qed.

(* ---------------- inverse ---------------- *)
Lemma wfm_square m (A : mat) : wfm m m A <-> square K m A.
Proof. reflexivity. Qed.

Lemma inverse_spec m (A X : mat) : wfm m m A -> inverse A = Some X -> wfm m m X /\ mat_mul m A X = @ident K m.
Proof. intros WA H. pose proof WA as [LA RA].
  destruct (augI_inv K m A WA) as [I HL].
  pose proof (gauss_jordan_spec K KOK m (m + m) m 0 [] (augI K m A) I HL eq_refl) as G.
  unfold inverse in H. cbv zeta in H. rewrite LA in H. fold (augI K m A) in H.
  destruct (gauss_jordan m 0 [] (augI K m A)) as [rows|]; [|discriminate].
  destruct (Nat.eqb (length (map (skipn m) rows)) m && mat_eqb (mat_mul m A (map (skipn m) rows)) (ident m)) eqn:E;
    [|discriminate].
  injection H as <-. apply andb_true_iff in E. destruct E as [E1 E2].
  apply Nat.eqb_eq in E1. apply mat_eqb_eq in E2. split; [|exact E2].
  split; [exact E1|]. intros row Hr. apply in_map_iff in Hr. destruct Hr as [r0 [<- Hr0]].
  destruct G as [[IL _] _]. rewrite skipn_length, (IL r0) by (rewrite app_nil_r; exact Hr0). lia. Qed.

Theorem inverse_two_sided m (A X : mat) : wfm m m A -> inverse A = Some X ->
  wfm m m X /\ mat_mul m A X = @ident K m /\ mat_mul m X A = @ident K m.
Proof. intros WA H. destruct (inverse_spec m A X WA H) as [WX AX]. split; [exact WX|]. split; [exact AX|].
  pose proof WX as [LX RX].
  assert (KT : forall y, length y = m -> mat_vec X y = map (fun _ => 0) X -> y = map (fun _ => 0) y).
  { intros y Ly Hy. rewrite <- (mat_vec_ident m y Ly) at 1. rewrite <- AX.
    rewrite (mat_vec_mul m m m A X y WA WX), Hy, mat_vec_zero.
    apply vec_ext; [rewrite !map_length; destruct WA; lia|].
    intros k _. rewrite !(nth_map_zero K). reflexivity. }
  destruct (inverse_complete K KOK m X LX RX KT) as [Y HY].
  destruct (inverse_spec m X Y WX HY) as [WY XY].
  assert (E : A = Y).
  { rewrite <- (mul_ident_r m m A WA), <- XY.
    rewrite <- (mul_assoc m m m m A X Y WA WX WY), AX. apply (mul_ident_l m m Y WY). }
  rewrite E. exact XY. Qed.

Definition symmetric (m : nat) (A : mat) : Prop := transpose m A = A.

Theorem inverse_symmetric m (A X : mat) : wfm m m A -> symmetric m A -> inverse A = Some X -> symmetric m X.
Proof. intros WA SA H. destruct (inverse_two_sided m A X WA H) as [WX [AX XA]]. unfold symmetric in *.
  pose proof (wfm_transpose m m X WX) as WXt.
  (* X^T = X^T (A X) = (X^T A^T) X = (A X)^T X = X *)
  rewrite <- (mul_ident_r m m (transpose m X) WXt), <- AX.
  rewrite <- (mul_assoc m m m m (transpose m X) A X WXt WA WX).
  rewrite <- SA at 1. rewrite <- (transpose_mul m m m A X WA WX), AX, transpose_ident.
  apply (mul_ident_l m m X WX). Qed.

End Matrix.

Arguments mat_add {K}. Arguments zero_mat {K}.
Arguments ent {K}. Arguments wfm {K}. Arguments vadd {K}. Arguments vscal {K}. Arguments symmetric {K}.
