(* Theory/MnaComplete.v — completeness of the MNA system w.r.t. the circuit equations, the link between
   the solution vector and what the API reports, and soundness of the checked solver. *)
From Coq Require Import List Bool NArith Arith Permutation Lia Field Ring.
From CC Require Import Theory.Field Theory.Labels Model.Network Theory.Spec Theory.Mna.
Import ListNotations.

Section Complete.
Variable K : fops.
Hypothesis KOK : fops_ok K.
Add Field Kf2 : (Kth K KOK).
Notation "0" := (f0 K). Notation "1" := (f1 K).
Infix "+" := (fadd K). Infix "*" := (fmul K). Infix "-" := (fsub K). Notation "- x" := (fopp K x).
Infix "/" := (fdiv K).
Ltac feq x y := destruct (feqb_spec KOK x y).
Ltac leq a b := destruct (label_eqb_spec a b).

Variable n : network K.
Hypothesis WF : wf n.
Notation bs := (branches n).
Notation ns := (node_index n).
Notation vss := (vs_index n).

Definition jv (j : branch K -> K) (v : label) : K :=
  match get_branch bs v with Some b => j b | None => 0 end.
Definition vec (phi : label -> K) (j : branch K -> K) : list K := map phi ns ++ map (jv j) vss.

Lemma vec_length phi j : length (vec phi j) = (length ns + length vss)%nat.
Proof. unfold vec. rewrite app_length, !map_length. reflexivity. Qed.

Lemma nth_map_lindex (f : label -> K) (ls : list label) l : In l ls -> nth (lindex ls l) (map f ls) 0 = f l.
Proof. intros H. rewrite <- (nth_lindex ls l l H) at 2.
  rewrite (nth_indep _ 0 (f l)) by (rewrite map_length; apply lindex_lt; exact H).
  apply map_nth. Qed.

Lemma phi_vec phi j l : phi (zero n) = 0 -> (l = zero n \/ In l ns) -> phi_of n (vec phi j) l = phi l.
Proof. intros H0 H. unfold phi_of. leq l (zero n); [subst; auto|].
  destruct H as [H|H]; [contradiction|]. unfold vec.
  rewrite app_nth1 by (rewrite map_length; apply lindex_lt; exact H). apply nth_map_lindex, H. Qed.

Lemma bvolt_vec phi j b : phi (zero n) = 0 -> In b bs -> bvolt (phi_of n (vec phi j)) b = bvolt phi b.
Proof. intros H0 Hb. unfold bvolt. destruct (endpoint_cases K n b Hb) as [E1 E2].
  rewrite !phi_vec by assumption. reflexivity. Qed.

Lemma ivs_in_vss b : In b bs -> is_ideal_voltage_source (el b) = true -> In (bid b) vss.
Proof. intros Hb E. apply (Permutation_in _ (Permutation_sym (vss_perm K n))). apply in_map, filter_In. auto. Qed.

Lemma vss_in_ivs v : In v vss -> exists b, In b bs /\ bid b = v /\ is_ideal_voltage_source (el b) = true.
Proof. intros H. apply (Permutation_in _ (vss_perm K n)) in H. apply in_map_iff in H.
  destruct H as [b [E Hb]]. apply filter_In in Hb. exists b. tauto. Qed.

Lemma flow_vec phi j b : CircuitSpec n phi j -> In b bs -> flow_of n (vec phi j) b = j b.
Proof. intros [H0 [_ HL]] Hb. unfold flow_of. destruct (is_ideal_voltage_source (el b)) eqn:E.
  - unfold vec. rewrite app_nth2 by (rewrite map_length; lia). rewrite map_length.
    replace (length ns + lindex vss (bid b) - length ns)%nat with (lindex vss (bid b)) by lia.
    rewrite nth_map_lindex by (apply ivs_in_vss; assumption).
    unfold jv. rewrite (get_branch_In K) by (assumption || exact (ids_nodup K n WF)). reflexivity.
  - rewrite bvolt_vec by assumption. specialize (HL b Hb). unfold law in HL.
    rewrite (ivs_noY K KOK) in E. destruct (eY (el b)) as [y|] eqn:EY; [|discriminate].
    rewrite (eY_finY K _ _ EY). symmetry. exact HL. Qed.

Theorem mna_complete phi j : CircuitSpec n phi j -> solves n (vec phi j).
Proof. intros S. pose proof S as [H0 [HK HL]]. split; [apply vec_length|].
  unfold mat_vec, mna_matrix, mna_rhs. rewrite map_app, !map_map. f_equal.
  - apply map_ext_in. intros i Hi.
    pose proof (mna_row_is_kcl K KOK n WF (vec phi j) i Hi (vec_length phi j)) as R.
    unfold row_top in R.
    assert (E : kcl_sum bs (flow_of n (vec phi j)) i = 0).
    { rewrite <- (HK i). unfold kcl_sum. apply sumF_ext_in. intros b Hb. rewrite flow_vec by assumption. reflexivity. }
    rewrite E in R.
    match type of R with ?a - ?b = 0 => assert (E2 : a = b) by (replace a with (a - b + b) by ring; rewrite R; ring) end.
    exact E2.
  - apply map_ext_in. intros v Hv. destruct (vss_in_ivs v Hv) as [b [Hb [<- E]]].
    pose proof (mna_row_is_source_voltage K KOK n WF (vec phi j) b Hb (vec_length phi j)) as R.
    unfold row_bot in R. rewrite R. rewrite bvolt_vec by assumption.
    specialize (HL b Hb). unfold law in HL. rewrite (ivs_noY K KOK) in E.
    destruct (eY (el b)); [discriminate|]. rewrite HL. symmetry. apply (branch_V_In K n WF), Hb. Qed.

(* the solution vector is determined by the potentials and voltage-source flows it encodes *)
Lemma x_reconstruct (x : list K) : length x = (length ns + length vss)%nat ->
  x = vec (phi_of n x) (flow_of n x).
Proof. intros HL. apply (nth_ext _ _ 0 0); [rewrite vec_length; exact HL|].
  intros k Hk. unfold vec. destruct (Nat.lt_ge_cases k (length ns)) as [H|H].
  - rewrite app_nth1 by (rewrite map_length; exact H).
    rewrite (nth_indep (map (phi_of n x) ns) 0 (phi_of n x [])) by (rewrite map_length; exact H).
    rewrite map_nth. symmetry.
    assert (Hin : In (nth k ns []) ns) by (apply nth_In; exact H).
    rewrite <- (phi_ns K n x _ Hin). f_equal.
    apply lindex_nth; [apply (ns_NoDup K n)|exact H].
  - rewrite app_nth2 by (rewrite map_length; exact H). rewrite map_length.
    set (m := (k - length ns)%nat). assert (Hm : m < length vss) by (unfold m; lia).
    rewrite (nth_indep (map (jv (flow_of n x)) vss) 0 (jv (flow_of n x) [])) by (rewrite map_length; exact Hm).
    rewrite map_nth.
    assert (Hin : In (nth m vss []) vss) by (apply nth_In; exact Hm).
    destruct (vss_in_ivs _ Hin) as [b [Hb [Eb E]]].
    unfold jv. rewrite <- Eb. rewrite (get_branch_In K) by (assumption || exact (ids_nodup K n WF)).
    unfold flow_of. rewrite E. rewrite Eb.
    replace k with (length ns + m)%nat at 1 by (unfold m; lia). f_equal. f_equal.
    symmetry. apply lindex_nth; [apply (vss_NoDup K n WF)|exact Hm].
Qed.

(* well-posed => the MNA system has exactly one solution *)
Theorem mna_unique (x x' : list K) : WellPosed n -> solves n x -> solves n x' -> x = x'.
Proof. intros [_ U] S S'.
  pose proof (mna_sound K KOK n WF x S) as C. pose proof (mna_sound K KOK n WF x' S') as C'.
  destruct (U _ _ _ _ C C') as [Hp Hj].
  rewrite (x_reconstruct x (proj1 S)), (x_reconstruct x' (proj1 S')). unfold vec. f_equal.
  - apply map_ext_in. intros l Hl. apply Hp.
    apply (ns_In K n) in Hl. destruct Hl as [_ Hl].
    destruct (branches n) eqn:E; [unfold endpoints in Hl; rewrite E in Hl; destruct Hl|].
    apply (node_labels_In K n); [congruence|]. exact Hl.
  - apply map_ext_in. intros v Hv. destruct (vss_in_ivs v Hv) as [b [Hb [<- _]]].
    unfold jv. rewrite (get_branch_In K) by (assumption || exact (ids_nodup K n WF)). apply Hj, Hb. Qed.

Theorem mna_exists : WellPosed n -> exists x, solves n x.
Proof. intros [[phi [j S]] _]. exists (vec phi j). apply mna_complete, S. Qed.

End Complete.

Arguments vec {K}. Arguments jv {K}.
