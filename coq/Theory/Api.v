(* Theory/Api.v — what the model's API functions (solve_network, get_potential, get_voltage, get_current,
   get_power) return, in terms of the candidate (phi_of, flow_of) of Theory/Spec.v. *)
From Coq Require Import List Bool NArith Arith Permutation Lia Field Ring.
From CC Require Import Theory.Field Theory.Labels Model.Network Theory.Spec Theory.Mna Theory.MnaComplete.
Import ListNotations.

Section Api.
Variable K : fops.
Hypothesis KOK : fops_ok K.
Add Field Kf3 : (Kth K KOK).
Notation "0" := (f0 K). Notation "1" := (f1 K).
Infix "+" := (fadd K). Infix "*" := (fmul K). Infix "-" := (fsub K). Notation "- x" := (fopp K x).
Infix "/" := (fdiv K).
Ltac feq x y := destruct (feqb_spec KOK x y).
Ltac leq a b := destruct (label_eqb_spec a b).

Lemma vec_eqb_eq (u v : list K) : vec_eqb u v = true -> u = v.
Proof. revert v. induction u as [|a u IH]; intros [|b v]; simpl; try discriminate; [reflexivity|].
  intros H. apply andb_true_iff in H. destruct H as [H1 H2]. feq a b; [|discriminate]. subst. f_equal. auto. Qed.

(* the solver is checked a posteriori, hence sound by construction *)
Theorem solve_sound (A : list (list K)) (b x : list K) :
  solve A b = Some x -> length x = length b /\ mat_vec A x = b.
Proof. unfold solve. destruct (gauss_jordan _ _ _ _) as [rows|]; [|discriminate].
  destruct (Nat.eqb _ _ && vec_eqb _ _) eqn:E; [|discriminate]. intros H. injection H as <-.
  apply andb_true_iff in E. destruct E as [E1 E2]. split; [apply Nat.eqb_eq; exact E1|apply vec_eqb_eq; exact E2]. Qed.

Variable n : network K.
Notation bs := (branches n).
Notation ns := (node_index n).
Notation vss := (vs_index n).

Lemma validate_ok n' : validate n = Ok n' ->
  n' = n /\ NoDup (branch_ids n) /\ (bs <> [] -> In (zero n) (map node1 bs ++ map node2 bs)).
Proof. unfold validate.
  destruct (negb (lmem (zero n) (node_labels n)) && negb (Nat.eqb (length (node_labels n)) 0)) eqn:E1; [discriminate|].
  destruct (negb (Nat.eqb (length (ldedup (branch_ids n))) (length bs))) eqn:E2; [discriminate|].
  intros H. injection H as <-. split; [reflexivity|]. split.
  - apply ldedup_length_NoDup. apply negb_false_iff, Nat.eqb_eq in E2. unfold branch_ids in *. rewrite map_length. exact E2.
  - intros Hne. apply andb_false_iff in E1. destruct E1 as [E1|E1].
    + apply negb_false_iff, lmem_spec in E1. unfold node_labels in E1. destruct bs eqn:Eb; [congruence|].
      rewrite lsort_In, ldedup_In in E1. exact E1.
    + exfalso. apply negb_false_iff, Nat.eqb_eq in E1. unfold node_labels in E1. destruct bs eqn:Eb; [congruence|].
      assert (Hin : In (node1 b) (lsort (ldedup (map node1 (b :: l) ++ map node2 (b :: l))))).
      { apply lsort_In, ldedup_In. simpl. left. reflexivity. }
      destruct (lsort _); [destruct Hin|discriminate].
Qed.

Hypothesis noloop : forall b, In b bs -> node1 b <> node2 b.

Theorem solve_network_sound s : solve_network n = Ok s -> s_net s = n /\ wf n /\ solves n (s_x s).
Proof. unfold solve_network, assemble_check. destruct (validate n) as [n'|] eqn:V; simpl; [|discriminate].
  destruct (validate_ok _ V) as [-> [ND Hz]].
  destruct (solve (mna_matrix n) (mna_rhs n)) as [x|] eqn:S; [|discriminate].
  intros H. injection H as <-. simpl. split; [reflexivity|]. split; [split; [exact ND|split; assumption]|].
  apply solve_sound in S. destruct S as [S1 S2]. split; [|exact S2].
  rewrite S1. unfold mna_rhs. rewrite app_length, !map_length. reflexivity. Qed.

Hypothesis WF : wf n.
Variable x : list K.
Let s := {| s_net := n; s_x := x |}.

Definition reported (b : branch K) : K :=
  if is_linear_source (el b) then - flow_of n x b else flow_of n x b.

Lemma api_potential l : (l = zero n \/ In l ns) -> get_potential s l = Ok (phi_of n x l).
Proof. intros H. unfold get_potential, phi_of; simpl. leq l (zero n); [reflexivity|].
  destruct H as [H|H]; [contradiction|]. apply lmem_spec in H. rewrite H. reflexivity. Qed.

Lemma api_potential_unknown l : l <> zero n -> ~ In l ns -> get_potential s l = Err EKeyError.
Proof. intros H1 H2. unfold get_potential; simpl. leq l (zero n); [contradiction|].
  apply lmem_false in H2. rewrite H2. reflexivity. Qed.

Lemma api_voltage b : In b bs -> get_voltage s (bid b) = Ok (bvolt (phi_of n x) b).
Proof. intros Hb. unfold get_voltage; simpl. rewrite (get_branch_In K) by (assumption || exact (ids_nodup K n WF)).
  destruct (endpoint_cases K n b Hb) as [E1 E2].
  fold s. rewrite !api_potential by assumption. reflexivity. Qed.

Lemma api_voltage_unknown id : ~ In id (branch_ids n) -> get_voltage s id = Err EKeyError.
Proof. intros H. unfold get_voltage; simpl. rewrite (get_branch_None K) by exact H. reflexivity. Qed.

Lemma lmem_vss b : In b bs -> lmem (bid b) vss = is_ideal_voltage_source (el b).
Proof. intros Hb. destruct (is_ideal_voltage_source (el b)) eqn:E.
  - apply lmem_spec, (ivs_in_vss K n); assumption.
  - apply lmem_false. intros H. destruct (vss_in_ivs K n _ H) as [b' [Hb' [Eid E']]].
    assert (b' = b).
    { pose proof (get_branch_In K bs b' (ids_nodup K n WF) Hb') as G1.
      pose proof (get_branch_In K bs b (ids_nodup K n WF) Hb) as G2. rewrite Eid in G1. congruence. }
    congruence. Qed.

Lemma ideal_cs_Y0 (e : elem K) : is_ideal_current_source e = true -> eY e = Some 0.
Proof. unfold is_ideal_current_source. destruct e as [nm k z v|nm k y i]; simpl.
  - feq z 0; simpl; [discriminate|]. feq (1 / z) 0; [exfalso; eapply (inv_nz K KOK); eauto|discriminate].
  - feq y 0; [subst; reflexivity|discriminate]. Qed.

Lemma nonivs_YZ (e : elem K) (v : K) : is_ideal_voltage_source e = false -> is_ideal_current_source e = false ->
  exists y, eY e = Some y /\ v / opt0 (eZ e) = y * v.
Proof. unfold is_ideal_voltage_source, is_ideal_current_source. destruct e as [nm k z u|nm k y i]; simpl.
  - feq z 0; simpl; [discriminate|]. intros _ _. exists (1 / z). split; [reflexivity|]. field. assumption.
  - feq y 0; simpl; [discriminate|]. intros _ _. exists y. split; [reflexivity|]. field. split; [assumption|apply f1_neq_0; exact KOK]. Qed.

Theorem api_current b : In b bs -> get_current s (bid b) = Ok (reported b).
Proof. intros Hb. unfold get_current, reported, is_linear_source; simpl. rewrite lmem_vss by assumption.
  unfold flow_of. destruct (is_ideal_voltage_source (el b)) eqn:E1; simpl; [reflexivity|].
  rewrite (get_branch_In K) by (assumption || exact (ids_nodup K n WF)).
  destruct (is_ideal_current_source (el b)) eqn:E2; simpl.
  - f_equal. unfold finY. rewrite (ideal_cs_Y0 _ E2). ring.
  - fold s. rewrite api_voltage by assumption. simpl.
    destruct (nonivs_YZ (el b) (bvolt (phi_of n x) b) E1 E2) as [y [EY EZ]].
    unfold finY. rewrite EY. rewrite EZ.
    destruct (is_current_source (el b)) eqn:E3; simpl; [reflexivity|].
    rewrite (not_cs_I0 K KOK _ E3). f_equal. ring. Qed.

Theorem api_power b : In b bs ->
  get_power s (bid b) = Ok (bvolt (phi_of n x) b * fconj K (reported b)).
Proof. intros Hb. unfold get_power. fold s. rewrite api_voltage, api_current by assumption. reflexivity. Qed.

End Api.

Arguments reported {K}.

(* boolean well-formedness, for concrete examples *)
Definition wfb {K : fops} (n : network K) : bool :=
  Nat.eqb (length (ldedup (branch_ids n))) (length (branch_ids n))
  && (match branches n with [] => true | _ => lmem (zero n) (map node1 (branches n) ++ map node2 (branches n)) end)
  && forallb (fun b => negb (label_eqb (node1 b) (node2 b))) (branches n).

Lemma wfb_ok {K : fops} (n : network K) : wfb n = true -> wf n /\ (forall b, In b (branches n) -> node1 b <> node2 b).
Proof. unfold wfb, wf. intros H. apply andb_true_iff in H. destruct H as [H H3]. apply andb_true_iff in H. destruct H as [H1 H2].
  assert (NL : forall b, In b (branches n) -> node1 b <> node2 b).
  { intros b Hb. rewrite forallb_forall in H3. specialize (H3 b Hb). apply negb_true_iff in H3.
    destruct (label_eqb_spec (node1 b) (node2 b)); congruence. }
  split; [|exact NL]. split; [|split; [|exact NL]].
  - apply ldedup_length_NoDup. apply Nat.eqb_eq. exact H1.
  - intros Hne. destruct (branches n); [congruence|]. apply lmem_spec. exact H2. Qed.

Definition solvedb {K : fops} (n : network K) : bool :=
  match solve_network n with Ok _ => true | Err _ => false end.

Lemma solvedb_ok {K : fops} (KOK : fops_ok K) (n : network K) : wfb n = true -> solvedb n = true ->
  exists s, solve_network n = Ok s /\ wf n /\ solves n (s_x s)
            /\ CircuitSpec n (phi_of n (s_x s)) (flow_of n (s_x s)).
Proof. intros W H. unfold solvedb in H. destruct (solve_network n) as [s|e] eqn:E; [|discriminate].
  destruct (wfb_ok n W) as [WF NL]. exists s. split; [reflexivity|].
  destruct (solve_network_sound K KOK n NL s E) as [_ [_ S]]. split; [exact WF|]. split; [exact S|].
  apply (mna_sound K KOK n WF). exact S. Qed.
