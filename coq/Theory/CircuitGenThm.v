(* Theory/CircuitGenThm.v — the Circuit layer regenerated from Circuit/circuit.py and Circuit/solution.py (Gen/CircuitGen.v, in the
   vocabulary of Model/CircuitGenPrims.v) against the hand-written model (Model/Circuit.v, Theory/MultiFreq.v, Theory/CircuitMore.v):
   A. circuit.py: Circuit.__post_init__ = ground_node; __getitem__; transform_circuit is the regenerated dispatch of
      Theory/TransformersGen.v, hence the model's transform_circuit (equal for circuits whose loads have two terminals, same
      outcome always); transform; frequency_components.
   B. solution.py: DCSolution, ComplexSolution (constructor and getters), TimeDomainSolution, FrequencyDomainSolution
      (constructor, _spectrum, getters) against dc_*, complex_solution / c_*, td_* (Theory/CircuitMore.v), fd_* and two_sided
      (Theory/MultiFreq.v).
   Generic in the reals [R] and in [leb], [rnd], [ofZ], [flr], [sqrt2] and the default frequency resolution; no law of [R] is used. *)
From Coq Require Import List Bool NArith ZArith Arith String Lia.
From CC Require Import Theory.Field Theory.Complex Theory.Labels Model.Network Theory.Spec Gen.Tables Model.Circuit
  Model.CircuitPrims Gen.Transformers Theory.CircuitThm Theory.MultiFreq Theory.TransformersGen Model.CircuitGenPrims
  Gen.CircuitGen Theory.CircuitMore.
Import ListNotations.

(* the instances by field name (the order of the attributes in the generated records follows the source) *)
Notation mkCircuit cs g := {| Circuit_components := cs; Circuit_ground_node := g |}.
Notation mkDC circ s := {| DCSolution_circuit := circ; DCSolution__solution := s |}.
Notation mkCX circ w peak s := {| ComplexSolution_circuit := circ; ComplexSolution_w := w; ComplexSolution_peak_values := peak;
                                 ComplexSolution__solution := s |}.
Notation mkTD circ wmax l ss := {| TimeDomainSolution_circuit := circ; TimeDomainSolution_w_max := wmax; TimeDomainSolution_w := l;
                                  TimeDomainSolution__solutions := ss |}.
Notation mkFD circ wmax os l sols pos := {| FrequencyDomainSolution_circuit := circ; FrequencyDomainSolution_w_max := wmax;
    FrequencyDomainSolution_one_sided := os; FrequencyDomainSolution_w := l; FrequencyDomainSolution__solutions := sols;
    FrequencyDomainSolution__positive := pos |}.

(* ---- list primitives ---- *)
Lemma list_at_cons_S {A} (a : A) l i : list_at (a :: l) (S i) = list_at l i.
Proof. reflexivity. Qed.
Lemma mask_select_map {A} (p : A -> bool) (l : list A) : mask_select l (map p l) = filter p l.
Proof. unfold mask_select. induction l as [|a l IH]; [reflexivity|]. cbn [map combine filter snd]. destruct (p a); cbn [map fst]; rewrite IH; reflexivity. Qed.
Lemma mask_select_combine {A B} (p : A -> bool) (l : list A) (xs : list B) :
  mask_select xs (map p l) = map snd (filter (fun q => p (fst q)) (combine l xs)).
Proof. unfold mask_select. revert xs. induction l as [|a l IH]; intros [|x xs]; try reflexivity.
  cbn [map combine filter snd fst]. destruct (p a); cbn [map fst snd]; rewrite IH; reflexivity. Qed.
Lemma np_where_combine {A B} (p : A -> bool) (f : B -> B) (l : list A) (xs : list B) :
  np_where (map p l) (map f xs) xs = map (fun q => if p (fst q) then f (snd q) else snd q) (combine l xs).
Proof. unfold np_where. revert xs. induction l as [|a l IH]; intros [|x xs]; try reflexivity.
  cbn [map combine fst snd]. rewrite IH. reflexivity. Qed.

Section GenCircuitEq.
Variable R : fops.
Variable leb : R -> R -> bool.
Variable rnd : R -> Z.
Variable ofZ : Z -> R.
Variable flr : R -> Z.
Variable sqrt2 : R.
Variable wres : R.            (* the default 1e-3 of transform's parameter w_resolution *)
Notation C := (Cx R).
Notation comp := (comp R).
Notation gpost := (g_Circuit_post_init R).
Notation gtc := (g_transform_circuit R leb rnd ofZ).
Notation gfreq := (g_frequency_components R leb ofZ flr).
Notation htc := (transform_circuit R leb rnd ofZ).
Notation hfreq := (frequency_components R leb ofZ flr).

(* ====================================================================================================== *)
(* A. circuit.py                                                                                           *)
(* ====================================================================================================== *)
Lemma ctype_ground (c : comp) : label_eqb (ctype R c) (lbl "ground") = is_ground R c.
Proof. unfold ctype, is_ground. destruct (ck c); reflexivity. Qed.
Lemma ctype_periodic (c : comp) :
  (label_eqb (ctype R c) (lbl "periodic_voltage_source") || label_eqb (ctype R c) (lbl "periodic_current_source"))%bool
  = is_periodic R c.
Proof. unfold ctype, is_periodic. destruct (ck c); reflexivity. Qed.

(* Circuit.__post_init__   (the ground-node selection and the list of ids may be written in private module-level helpers:
   Gen/CircuitGen.v lists those in the hint database gen_circuit_helpers) *)
Theorem post_init_eq (cs : list comp) : gpost cs = map_res (fun g => mkCircuit cs g) (ground_node R cs).
Proof. unfold g_Circuit_post_init, ground_node. autounfold with gen_circuit_helpers. destruct cs as [|c0 cs']; [reflexivity|].
  cbn [List.length Nat.eqb].
  rewrite (filter_ext' (fun c => label_eqb (ctype R c) (lbl "ground")) (is_ground R) (c0 :: cs') ctype_ground).
  unfold first_node. destruct (mapM _ (filter (is_ground R) (c0 :: cs'))) as [gn|e]; cbn [bind map_res]; [|reflexivity].
  destruct (Nat.ltb 1 (List.length gn)) eqn:Many; [reflexivity|].
  (* after the check there is no ground node or exactly one: the selection is written `len == 0` or `len == 1` in the source *)
  cbv zeta. rewrite ?map_length.
  destruct gn as [|g [|g' gn']]; [| |cbn [List.length] in Many; discriminate Many];
    cbn [List.length Nat.eqb list_at nth_error bind].
  - destruct (node_at R c0 0) as [g|e]; cbn [bind map_res]; [|reflexivity].
    destruct (negb _); reflexivity.
  - destruct (negb _); reflexivity. Qed.

Lemma post_init_ok cs circ : gpost cs = Ok circ ->
  ground_node R cs = Ok (Circuit_ground_node R circ) /\ Circuit_components R circ = cs.
Proof. rewrite post_init_eq. destruct (ground_node R cs) as [g|e]; cbn [map_res]; [|discriminate].
  intros H. injection H as <-. split; reflexivity. Qed.

(* Circuit.__getitem__ *)
Theorem getitem_eq (circ : Circuit R) (key : label) :
  g_Circuit_getitem R circ key = circuit_getitem R (Circuit_components R circ) key.
Proof. unfold g_Circuit_getitem, circuit_getitem. autounfold with gen_circuit_helpers. cbn [bind]. generalize (Circuit_components R circ) as cs. intros cs.
  induction cs as [|a cs IH]; [reflexivity|]. cbn [map list_index find].
  destruct (label_eqb (cid a) key); [reflexivity|].
  rewrite bind_assoc. cbn [bind]. rewrite <- IH. apply bind_ext. intros i. apply list_at_cons_S. Qed.

(* transform_circuit: the dispatch through the regenerated table to the regenerated translators *)
Lemma gtc_unfold (circ : Circuit R) (w wr : R) :
  gtc circ w wr
  = bind (mapM (fun c => g_translate R leb rnd ofZ c w wr) (filter (g_in_table R) (Circuit_components R circ)))
         (fun bs => validate {| branches := bs; zero := Circuit_ground_node R circ |}).
Proof. reflexivity. Qed.

Theorem gtc_regenerated (cs : list comp) (w wr : R) :
  bind (gpost cs) (fun circ => gtc circ w wr) = TransformersGen.g_transform_circuit R leb rnd ofZ cs w wr.
Proof. rewrite post_init_eq. unfold TransformersGen.g_transform_circuit.
  destruct (ground_node R cs) as [g|e]; reflexivity. Qed.

Definition loads_ok (cs : list comp) : Prop := forall c, In c cs -> is_load R c -> two_terminals R c.

Definition loads_okb (cs : list comp) : bool :=
  forallb (fun c => if (ckind_eqb (ck c) KLamp || ckind_eqb (ck c) KResLoad)%bool then Nat.leb 2 (List.length (cnodes c)) else true) cs.
Lemma loads_okb_ok cs : loads_okb cs = true -> loads_ok cs.
Proof. unfold loads_okb, loads_ok, is_load, two_terminals. rewrite forallb_forall. intros H c Hc K. specialize (H c Hc).
  destruct K as [K|K]; rewrite K in H; simpl in H; apply Nat.leb_le; exact H. Qed.

Theorem gtc_eq cs circ w wr : gpost cs = Ok circ -> loads_ok cs -> gtc circ w wr = htc cs w wr.
Proof. intros H L. rewrite (transform_regenerated R leb rnd ofZ cs w wr L), <- gtc_regenerated, H. reflexivity. Qed.
Theorem gtc_outcome cs circ w wr : gpost cs = Ok circ -> same_outcome (gtc circ w wr) (htc cs w wr).
Proof. intros H. apply same_outcome_sym.
  pose proof (transform_regenerated_outcome R leb rnd ofZ cs w wr) as O. rewrite <- gtc_regenerated, H in O. exact O. Qed.

(* transform *)
Lemma gtransform_unfold (circ : Circuit R) ws wr :
  g_transform R leb rnd ofZ circ ws wr = mapM (fun w => gtc circ w wr) ws.
Proof. reflexivity. Qed.
Theorem gtransform_eq cs circ ws wr : gpost cs = Ok circ -> loads_ok cs ->
  g_transform R leb rnd ofZ circ ws wr = transform R leb rnd ofZ cs ws wr.
Proof. intros H L. unfold g_transform, transform. apply mapM_ext_in. intros w _. apply gtc_eq; assumption. Qed.
Theorem gtransform_outcome cs circ ws wr : gpost cs = Ok circ ->
  same_outcome (g_transform R leb rnd ofZ circ ws wr) (transform R leb rnd ofZ cs ws wr).
Proof. intros H. unfold g_transform, transform. apply mapM_same_outcome. intros w _. apply gtc_outcome. exact H. Qed.

(* frequency_components *)
Theorem gfrequencies_eq (wmax : R) (c : comp) :
  g_frequency_components_frequencies R ofZ flr wmax c = comp_frequencies R ofZ flr c wmax.
Proof. autounfold with gen_circuit_helpers. try unfold g_frequency_components_frequencies. unfold comp_frequencies, vget.
  destruct (vlook R (cvals c) (lbl "w")) as [w|]; cbn [try_except err_eqb]; [|reflexivity].
  rewrite ctype_periodic. destruct (is_periodic R c); [|reflexivity].
  unfold py_div. destruct (feqb R w (f0 R)); cbn [bind]; [reflexivity|].
  unfold np_arange. rewrite map_map. reflexivity. Qed.
Theorem gfreq_eq (circ : Circuit R) (wmax : R) : gfreq circ wmax = hfreq (Circuit_components R circ) wmax.
Proof. unfold g_frequency_components, frequency_components.
  rewrite (mapM_ext_in _ (fun c => comp_frequencies R ofZ flr c wmax)); [reflexivity|].
  intros c _. exact (gfrequencies_eq wmax c). Qed.
Corollary gfreq_eq' cs circ wmax : gpost cs = Ok circ -> gfreq circ wmax = hfreq cs wmax.
Proof. intros H. rewrite gfreq_eq. destruct (post_init_ok cs circ H) as [_ ->]. reflexivity. Qed.

(* ====================================================================================================== *)
(* B. solution.py                                                                                          *)
(* ====================================================================================================== *)
Notation gdc_post := (g_DCSolution_post_init R leb rnd ofZ wres).
Notation gcx_post := (g_ComplexSolution_post_init R leb rnd ofZ wres).
Notation gtd_post := (g_TimeDomainSolution_post_init R leb rnd ofZ flr wres).
Notation gfd_post := (g_FrequencyDomainSolution_post_init R leb rnd ofZ flr wres).
Notation solveT := (fun T : R -> res (network C) => fun w : R => bind (T w) (@solve_network C)).

(* transform(circuit, w=[x])[0] *)
Lemma transform_first (circ : Circuit R) (w : R) :
  bind (g_transform R leb rnd ofZ circ [w] wres) (fun ns => list_at ns 0) = gtc circ w wres.
Proof. unfold g_transform. rewrite mapM_cons. destruct (gtc circ w wres); reflexivity. Qed.

(* ---- DCSolution ---- *)
Lemma dc_post_nf (circ : Circuit R) :
  gdc_post circ = bind (solveT (fun w => gtc circ w wres) (f0 R)) (fun s => Ok (mkDC circ s)).
Proof. unfold g_DCSolution_post_init. rewrite <- transform_first, !bind_assoc. reflexivity. Qed.
Theorem dc_post_eq cs circ : gpost cs = Ok circ -> loads_ok cs ->
  map_res (DCSolution__solution R) (gdc_post circ) = dc_solution R leb rnd ofZ cs wres.
Proof. intros H L. rewrite dc_post_nf, (gtc_eq cs circ _ _ H L). unfold dc_solution.
  destruct (htc cs (f0 R) wres) as [n|e]; cbn [bind map_res]; [|reflexivity].
  unfold solver_call. destruct (solve_network n); reflexivity. Qed.
Theorem dc_post_outcome cs circ : gpost cs = Ok circ ->
  same_outcome (map_res (DCSolution__solution R) (gdc_post circ)) (dc_solution R leb rnd ofZ cs wres).
Proof. intros H. rewrite dc_post_nf. unfold dc_solution. pose proof (gtc_outcome cs circ (f0 R) wres H) as O.
  destruct (gtc circ (f0 R) wres) as [n|e], (htc cs (f0 R) wres) as [n'|e']; simpl in O; try contradiction; cbn [bind map_res]; [|exact I].
  subst n'. destruct (solve_network n); simpl; auto. Qed.
Theorem dc_circuit_kept circ self : gdc_post circ = Ok self -> DCSolution_circuit R self = circ.
Proof. rewrite dc_post_nf. cbv beta. destruct (bind (gtc circ (f0 R) wres) (@solve_network C)) as [s|e]; cbn [bind]; [|discriminate].
  intros E. injection E as <-. reflexivity. Qed.

Theorem dc_get_voltage_eq (self : DCSolution R) id : g_DCSolution_get_voltage R self id = dc_voltage R (DCSolution__solution R self) id.
Proof. reflexivity. Qed.
Theorem dc_get_current_eq (self : DCSolution R) id : g_DCSolution_get_current R self id = dc_current R (DCSolution__solution R self) id.
Proof. reflexivity. Qed.
Theorem dc_get_potential_eq (self : DCSolution R) l : g_DCSolution_get_potential R self l = dc_potential R (DCSolution__solution R self) l.
Proof. reflexivity. Qed.
Theorem dc_get_power_eq (self : DCSolution R) id : g_DCSolution_get_power R self id = dc_power R (DCSolution__solution R self) id.
Proof. reflexivity. Qed.

(* ---- ComplexSolution ---- *)
Definition to_csol (self : ComplexSolution R) : csol R :=
  {| cs_sol := ComplexSolution__solution R self; cs_peak := ComplexSolution_peak_values R self |}.

Lemma cx_post_nf (circ : Circuit R) (w : R) (peak : bool) :
  gcx_post circ w peak = bind (solveT (fun w => gtc circ w wres) w) (fun s => Ok (mkCX circ w peak s)).
Proof. unfold g_ComplexSolution_post_init. rewrite <- transform_first, !bind_assoc. reflexivity. Qed.
Theorem cx_post_eq cs circ w peak : gpost cs = Ok circ -> loads_ok cs ->
  map_res to_csol (gcx_post circ w peak) = complex_solution R leb rnd ofZ cs w wres peak.
Proof. intros H L. rewrite cx_post_nf, (gtc_eq cs circ _ _ H L). unfold complex_solution.
  destruct (htc cs w wres) as [n|e]; cbn [bind map_res]; [|reflexivity].
  unfold solver_call. destruct (solve_network n); reflexivity. Qed.
Theorem cx_post_outcome cs circ w peak : gpost cs = Ok circ ->
  same_outcome (map_res to_csol (gcx_post circ w peak)) (complex_solution R leb rnd ofZ cs w wres peak).
Proof. intros H. rewrite cx_post_nf. unfold complex_solution. pose proof (gtc_outcome cs circ w wres H) as O.
  destruct (gtc circ w wres) as [n|e], (htc cs w wres) as [n'|e']; simpl in O; try contradiction; cbn [bind map_res]; [|exact I].
  subst n'. destruct (solve_network n); simpl; auto. Qed.
Theorem cx_fields_kept circ w peak self : gcx_post circ w peak = Ok self ->
  ComplexSolution_circuit R self = circ /\ ComplexSolution_w R self = w /\ ComplexSolution_peak_values R self = peak.
Proof. rewrite cx_post_nf. cbv beta. destruct (bind (gtc circ w wres) (@solve_network C)) as [s|e]; cbn [bind]; [|discriminate].
  intros E. injection E as <-. auto. Qed.

Theorem cx_get_voltage_eq (self : ComplexSolution R) id :
  g_ComplexSolution_get_voltage R sqrt2 self id = c_voltage R sqrt2 (to_csol self) id.
Proof. unfold g_ComplexSolution_get_voltage, c_voltage, unpeak, to_csol. cbn [cs_sol cs_peak].
  destruct (ComplexSolution_peak_values R self); rewrite ?bind_Ok_r; reflexivity. Qed.
Theorem cx_get_current_eq (self : ComplexSolution R) id :
  g_ComplexSolution_get_current R sqrt2 self id = c_current R sqrt2 (to_csol self) id.
Proof. unfold g_ComplexSolution_get_current, c_current, unpeak, to_csol. cbn [cs_sol cs_peak].
  destruct (ComplexSolution_peak_values R self); rewrite ?bind_Ok_r; reflexivity. Qed.
Theorem cx_get_potential_eq (self : ComplexSolution R) l :
  g_ComplexSolution_get_potential R sqrt2 self l = c_potential R sqrt2 (to_csol self) l.
Proof. unfold g_ComplexSolution_get_potential, c_potential, unpeak, to_csol. cbn [cs_sol cs_peak].
  destruct (ComplexSolution_peak_values R self); rewrite ?bind_Ok_r; reflexivity. Qed.
Theorem cx_get_power_eq (self : ComplexSolution R) id :
  g_ComplexSolution_get_power R sqrt2 self id = c_power R sqrt2 (to_csol self) id.
Proof. unfold g_ComplexSolution_get_power, c_power. rewrite !cx_get_voltage_eq, !cx_get_current_eq.
  destruct self as [ci w p s]. unfold to_csol, half.
  cbn [ComplexSolution_peak_values ComplexSolution__solution cs_peak]. destruct p; reflexivity. Qed.

(* ---- TimeDomainSolution ---- *)
Notation FDS := (FrequencyDomainSolution R).
Notation TDS := (TimeDomainSolution R).
(* what __post_init__ computes: the frequencies and one network solution per frequency *)
Definition td_self (T : R -> res (network C)) (fl : res (list R)) : res (list R * list (solution C)) :=
  bind fl (fun l => bind (mapM T l) (fun ns => bind (mapM (@solve_network C) ns) (fun ss => Ok (l, ss)))).
Lemma td_nf_self T obs fl :
  td_nf R T obs fl = bind (td_self T fl) (fun p => bind (mapM obs (snd p)) (fun xs => Ok (combine xs (fst p)))).
Proof. unfold td_nf, td_self. rewrite !bind_assoc. apply bind_ext; intros l. rewrite !bind_assoc. apply bind_ext; intros ns.
  rewrite !bind_assoc. apply bind_ext. intros ss. reflexivity. Qed.
Lemma td_self_ext T1 T2 fl : (forall w, T1 w = T2 w) -> td_self T1 fl = td_self T2 fl.
Proof. intros H. unfold td_self. apply bind_ext. intros l. f_equal. apply mapM_ext_in. intros w _. apply H. Qed.
Lemma td_self_outcome T1 T2 fl : (forall w, same_outcome (T1 w) (T2 w)) -> same_outcome (td_self T1 fl) (td_self T2 fl).
Proof. intros H. unfold td_self. apply same_outcome_bind; [apply same_outcome_refl|]. intros l.
  apply same_outcome_bind; [|intros ns; apply same_outcome_refl]. apply mapM_same_outcome. intros w _. apply H. Qed.

Lemma td_post_nf (circ : Circuit R) (wmax : R) :
  gtd_post circ wmax
  = map_res (fun p => mkTD circ wmax (fst p) (snd p)) (td_self (fun w => gtc circ w wres) (gfreq circ wmax)).
Proof. unfold g_TimeDomainSolution_post_init, td_self, g_transform, solver_call.
  destruct (gfreq circ wmax) as [l|e]; cbn [bind map_res]; [|reflexivity].
  destruct (mapM _ l) as [ns|e]; cbn [bind map_res]; [|reflexivity].
  destruct (mapM _ ns) as [ss|e]; reflexivity. Qed.

Theorem td_post_eq cs circ wmax : gpost cs = Ok circ -> loads_ok cs ->
  map_res (fun self => combine (TimeDomainSolution_w R self) (TimeDomainSolution__solutions R self)) (gtd_post circ wmax)
  = td_solutions R leb rnd ofZ flr cs wmax wres.
Proof. intros H L. rewrite td_post_nf, (gfreq_eq' _ _ _ H), (td_self_ext _ (fun w => htc cs w wres)) by (intros w; apply gtc_eq; assumption).
  unfold td_self, td_solutions, transform. destruct (hfreq cs wmax) as [l|e]; cbn [bind map_res]; [|reflexivity].
  destruct (mapM _ l) as [ns|e]; cbn [bind map_res]; [|reflexivity].
  destruct (mapM _ ns) as [ss|e]; reflexivity. Qed.

Lemma td_get_nf (circ : Circuit R) (wmax : R) (G : TDS -> res (timefn R)) (obs : solution C -> res C) :
  (forall self, G self = bind (mapM obs (TimeDomainSolution__solutions R self)) (fun xs => Ok (combine xs (TimeDomainSolution_w R self)))) ->
  bind (gtd_post circ wmax) G = td_nf R (fun w => gtc circ w wres) obs (gfreq circ wmax).
Proof. intros HG. rewrite td_post_nf, td_nf_self. destruct (td_self _ _) as [[l ss]|e]; cbn [bind map_res]; [|reflexivity].
  rewrite HG. reflexivity. Qed.

Section TDGetter.
Variable G : TDS -> res (timefn R).
Variable obs : solution C -> res C.
Hypothesis HG : forall self, G self = bind (mapM obs (TimeDomainSolution__solutions R self)) (fun xs => Ok (combine xs (TimeDomainSolution_w R self))).
Lemma td_get_eq cs circ wmax : gpost cs = Ok circ -> loads_ok cs ->
  bind (gtd_post circ wmax) G = td_terms R leb rnd ofZ flr obs cs wmax wres.
Proof. intros H L. rewrite (td_get_nf circ wmax G obs HG), (gfreq_eq' _ _ _ H). unfold td_terms. apply td_nf_ext.
  intros w. apply gtc_eq; assumption. Qed.
Lemma td_get_outcome cs circ wmax : gpost cs = Ok circ ->
  same_outcome (bind (gtd_post circ wmax) G) (td_terms R leb rnd ofZ flr obs cs wmax wres).
Proof. intros H. rewrite (td_get_nf circ wmax G obs HG), (gfreq_eq' _ _ _ H). unfold td_terms. apply td_nf_outcome.
  intros w. apply gtc_outcome; assumption. Qed.
End TDGetter.

Theorem td_get_voltage_eq cs circ wmax id : gpost cs = Ok circ -> loads_ok cs ->
  bind (gtd_post circ wmax) (fun self => g_TimeDomainSolution_get_voltage R self id) = td_voltage R leb rnd ofZ flr id cs wmax wres.
Proof. apply (td_get_eq _ (fun s => get_voltage s id)). reflexivity. Qed.
Theorem td_get_current_eq cs circ wmax id : gpost cs = Ok circ -> loads_ok cs ->
  bind (gtd_post circ wmax) (fun self => g_TimeDomainSolution_get_current R self id) = td_current R leb rnd ofZ flr id cs wmax wres.
Proof. apply (td_get_eq _ (fun s => get_current s id)). reflexivity. Qed.
Theorem td_get_potential_eq cs circ wmax l : gpost cs = Ok circ -> loads_ok cs ->
  bind (gtd_post circ wmax) (fun self => g_TimeDomainSolution_get_potential R self l) = td_potential R leb rnd ofZ flr l cs wmax wres.
Proof. apply (td_get_eq _ (fun s => get_potential s l)). reflexivity. Qed.
Theorem td_get_voltage_outcome cs circ wmax id : gpost cs = Ok circ ->
  same_outcome (bind (gtd_post circ wmax) (fun self => g_TimeDomainSolution_get_voltage R self id)) (td_voltage R leb rnd ofZ flr id cs wmax wres).
Proof. apply (td_get_outcome _ (fun s => get_voltage s id)). reflexivity. Qed.
Theorem td_get_current_outcome cs circ wmax id : gpost cs = Ok circ ->
  same_outcome (bind (gtd_post circ wmax) (fun self => g_TimeDomainSolution_get_current R self id)) (td_current R leb rnd ofZ flr id cs wmax wres).
Proof. apply (td_get_outcome _ (fun s => get_current s id)). reflexivity. Qed.
Theorem td_get_potential_outcome cs circ wmax l : gpost cs = Ok circ ->
  same_outcome (bind (gtd_post circ wmax) (fun self => g_TimeDomainSolution_get_potential R self l)) (td_potential R leb rnd ofZ flr l cs wmax wres).
Proof. apply (td_get_outcome _ (fun s => get_potential s l)). reflexivity. Qed.

(* get_power: the pointwise product of the voltage and current time functions *)
Theorem td_get_power_shape (self : TDS) id :
  g_TimeDomainSolution_get_power R self id
  = bind (g_TimeDomainSolution_get_voltage R self id) (fun v => bind (g_TimeDomainSolution_get_current R self id) (fun i => Ok (v, i))).
Proof. reflexivity. Qed.
Theorem td_get_power_eq cs circ wmax id : gpost cs = Ok circ -> loads_ok cs ->
  bind (gtd_post circ wmax) (fun self => g_TimeDomainSolution_get_power R self id) = td_power R leb rnd ofZ flr id cs wmax wres.
Proof. intros H L. unfold td_power, td_voltage, td_current, td_terms.
  rewrite <- !(td_nf_ext R (fun w => gtc circ w wres) (fun w => htc cs w wres)) by (intros w; apply gtc_eq; assumption).
  rewrite <- (gfreq_eq' _ _ _ H), td_post_nf, !td_nf_self.
  destruct (td_self _ _) as [[l ss]|e]; reflexivity. Qed.
Theorem td_get_power_outcome cs circ wmax id : gpost cs = Ok circ ->
  same_outcome (bind (gtd_post circ wmax) (fun self => g_TimeDomainSolution_get_power R self id)) (td_power R leb rnd ofZ flr id cs wmax wres).
Proof. intros H. unfold td_power, td_voltage, td_current, td_terms.
  rewrite <- (gfreq_eq' _ _ _ H), td_post_nf, !td_nf_self.
  pose proof (td_self_outcome (fun w => gtc circ w wres) (fun w => htc cs w wres) (gfreq circ wmax) (fun w => gtc_outcome cs circ w wres H)) as O.
  destruct (td_self (fun w => gtc circ w wres) _) as [[l ss]|e], (td_self (fun w => htc cs w wres) _) as [[l' ss']|e'];
    simpl in O; try contradiction; [|exact I].
  injection O as <- <-. apply same_outcome_refl. Qed.

(* ---- FrequencyDomainSolution ---- *)
Definition fd_self (T : R -> res (network C)) (fl : res (list R)) : res (list R * list (solution C)) :=
  bind fl (fun l => bind (mapM (solveT T) l) (fun ss => Ok (l, ss))).
Lemma fd_nf_self T obs fl :
  fd_nf R T obs fl = bind (fd_self T fl) (fun p => bind (mapM obs (snd p)) (fun xs => Ok (combine (fst p) xs))).
Proof. unfold fd_nf, fd_self. rewrite !bind_assoc. apply bind_ext; intros l. rewrite !bind_assoc. apply bind_ext; intros ss. reflexivity. Qed.
Lemma fd_self_length T fl l ss : fd_self T fl = Ok (l, ss) -> List.length l = List.length ss.
Proof. unfold fd_self. destruct fl as [l'|e]; cbn [bind]; [|discriminate].
  destruct (mapM _ l') as [ss'|e] eqn:E; cbn [bind]; [|discriminate]. intros H. injection H as <- <-. exact (mapM_length _ _ _ E). Qed.

(* self.w after __post_init__ *)
Definition fd_w (one_sided : bool) (l : list R) : list R :=
  if one_sided then l else map (fopp R) (rev (filter (posb leb) l)) ++ l.
(* the instance __post_init__ builds from the frequencies and the per-frequency network solutions *)
Definition fd_obj (circ : Circuit R) (wmax : R) (one_sided : bool) (p : list R * list (solution C)) : FDS :=
  mkFD circ wmax one_sided (fd_w one_sided (fst p))
    (zipw (fun w s => mkCX circ w true s) (fst p) (snd p)) (map (posb leb) (fst p)).

Lemma fd_post_nf (circ : Circuit R) (wmax : R) (os : bool) :
  gfd_post circ wmax os = map_res (fd_obj circ wmax os) (fd_self (fun w => gtc circ w wres) (gfreq circ wmax)).
Proof. unfold g_FrequencyDomainSolution_post_init, fd_self.
  destruct (gfreq circ wmax) as [l|e]; cbn [bind map_res]; [|reflexivity].
  rewrite (mapM_ext_in _ (fun w => bind (solveT (fun w => gtc circ w wres) w) (fun s => Ok (mkCX circ w true s))))
    by (intros w _; apply cx_post_nf).
  rewrite (mapM_ret (solveT (fun w => gtc circ w wres)) (fun w s => mkCX circ w true s)).
  destruct (mapM _ l) as [ss|e]; cbn [bind map_res]; [|reflexivity].
  unfold fd_obj, fd_w. cbn [fst snd]. destruct os; cbn [negb]; rewrite ?mask_select_map; reflexivity. Qed.

(* every getter: the values of the per-frequency ComplexSolutions through _spectrum, next to self.w *)
Lemma fd_get_generic (circ : Circuit R) (wmax : R) (os : bool) (G : ComplexSolution R -> res C) (obs : csol R -> res C) :
  (forall self, G self = obs (to_csol self)) ->
  bind (gfd_post circ wmax os)
       (fun self => bind (mapM G (FrequencyDomainSolution__solutions R self)) (fun vals =>
                    bind (g_FrequencyDomainSolution__spectrum R self vals) (fun sp =>
                    Ok (FrequencyDomainSolution_w R self, sp))))
  = map_res (fd_result R leb os) (fd_nf R (fun w => gtc circ w wres) (fun s => obs (peak_of R s)) (gfreq circ wmax)).
Proof. intros HG. rewrite fd_post_nf, fd_nf_self.
  destruct (fd_self _ _) as [[l ss]|e] eqn:E; cbn [bind map_res]; [|reflexivity].
  pose proof (fd_self_length _ _ _ _ E) as Len. unfold fd_obj. cbn [FrequencyDomainSolution__solutions fst snd].
  unfold zipw. rewrite mapM_map.
  rewrite (mapM_ext_in _ (fun p => (fun s => obs (peak_of R s)) (snd p))) by (intros p _; rewrite HG; reflexivity).
  rewrite (mapM_snd_combine (fun s => obs (peak_of R s)) l ss Len).
  destruct (mapM _ ss) as [xs|e'] eqn:Ex; cbn [bind map_res]; [|reflexivity].
  pose proof (mapM_length _ _ _ Ex) as Lx.
  unfold g_FrequencyDomainSolution__spectrum.
  cbn [FrequencyDomainSolution_one_sided FrequencyDomainSolution__positive FrequencyDomainSolution_w].
  destruct os; cbn [bind].
  - unfold fd_result, fd_w. rewrite map_fst_combine, map_snd_combine by lia. reflexivity.
  - rewrite fd_result_two_sided. unfold fd_w. rewrite map_fst_combine by lia. f_equal. f_equal.
    rewrite (mask_select_combine (posb leb) l xs), (np_where_combine (posb leb) _ l xs), map_map. reflexivity. Qed.

Section FDGetter.
Variable Gself : FDS -> res (list R * list C).
Variable G : ComplexSolution R -> res C.
Variable obs : csol R -> res C.
Hypothesis HG : forall self, G self = obs (to_csol self).
Hypothesis HGself : forall self, Gself self = bind (mapM G (FrequencyDomainSolution__solutions R self)) (fun vals =>
                    bind (g_FrequencyDomainSolution__spectrum R self vals) (fun sp => Ok (FrequencyDomainSolution_w R self, sp))).
Lemma fd_get_eq cs circ wmax os : gpost cs = Ok circ -> loads_ok cs ->
  bind (gfd_post circ wmax os) Gself = map_res (fd_result R leb os) (fd_series R leb rnd ofZ flr obs cs wmax wres).
Proof. intros H L. rewrite fd_series_nf, <- (gfreq_eq' _ _ _ H).
  rewrite <- (fd_nf_ext R (fun w => gtc circ w wres) (fun w => htc cs w wres)) by (intros w; apply gtc_eq; assumption).
  rewrite <- (fd_get_generic circ wmax os G obs HG). apply bind_ext. exact HGself. Qed.
Lemma fd_get_outcome cs circ wmax os : gpost cs = Ok circ ->
  same_outcome (bind (gfd_post circ wmax os) Gself) (map_res (fd_result R leb os) (fd_series R leb rnd ofZ flr obs cs wmax wres)).
Proof. intros H. rewrite fd_series_nf, <- (gfreq_eq' _ _ _ H).
  rewrite (bind_ext _ _ _ HGself), (fd_get_generic circ wmax os G obs HG).
  apply same_outcome_map_res, fd_nf_outcome. intros w. apply gtc_outcome. exact H. Qed.
End FDGetter.

Theorem fd_get_voltage_eq cs circ wmax os id : gpost cs = Ok circ -> loads_ok cs ->
  bind (gfd_post circ wmax os) (fun self => g_FrequencyDomainSolution_get_voltage R sqrt2 self id)
  = map_res (fd_result R leb os) (fd_voltage R leb rnd ofZ flr sqrt2 id cs wmax wres).
Proof. apply (fd_get_eq _ (fun s => g_ComplexSolution_get_voltage R sqrt2 s id) (fun s => c_voltage R sqrt2 s id));
  [intros self; apply cx_get_voltage_eq|reflexivity]. Qed.
Theorem fd_get_current_eq cs circ wmax os id : gpost cs = Ok circ -> loads_ok cs ->
  bind (gfd_post circ wmax os) (fun self => g_FrequencyDomainSolution_get_current R sqrt2 self id)
  = map_res (fd_result R leb os) (fd_current R leb rnd ofZ flr sqrt2 id cs wmax wres).
Proof. apply (fd_get_eq _ (fun s => g_ComplexSolution_get_current R sqrt2 s id) (fun s => c_current R sqrt2 s id));
  [intros self; apply cx_get_current_eq|reflexivity]. Qed.
Theorem fd_get_potential_eq cs circ wmax os l : gpost cs = Ok circ -> loads_ok cs ->
  bind (gfd_post circ wmax os) (fun self => g_FrequencyDomainSolution_get_potential R sqrt2 self l)
  = map_res (fd_result R leb os) (fd_potential R leb rnd ofZ flr sqrt2 l cs wmax wres).
Proof. apply (fd_get_eq _ (fun s => g_ComplexSolution_get_potential R sqrt2 s l) (fun s => c_potential R sqrt2 s l));
  [intros self; apply cx_get_potential_eq|reflexivity]. Qed.
Theorem fd_get_power_eq cs circ wmax os id : gpost cs = Ok circ -> loads_ok cs ->
  bind (gfd_post circ wmax os) (fun self => g_FrequencyDomainSolution_get_power R sqrt2 self id)
  = map_res (fd_result R leb os) (fd_power R leb rnd ofZ flr sqrt2 id cs wmax wres).
Proof. apply (fd_get_eq _ (fun s => g_ComplexSolution_get_power R sqrt2 s id) (fun s => c_power R sqrt2 s id));
  [intros self; apply cx_get_power_eq|reflexivity]. Qed.
Theorem fd_get_voltage_outcome cs circ wmax os id : gpost cs = Ok circ ->
  same_outcome (bind (gfd_post circ wmax os) (fun self => g_FrequencyDomainSolution_get_voltage R sqrt2 self id))
               (map_res (fd_result R leb os) (fd_voltage R leb rnd ofZ flr sqrt2 id cs wmax wres)).
Proof. apply (fd_get_outcome _ (fun s => g_ComplexSolution_get_voltage R sqrt2 s id) (fun s => c_voltage R sqrt2 s id));
  [intros self; apply cx_get_voltage_eq|reflexivity]. Qed.
Theorem fd_get_current_outcome cs circ wmax os id : gpost cs = Ok circ ->
  same_outcome (bind (gfd_post circ wmax os) (fun self => g_FrequencyDomainSolution_get_current R sqrt2 self id))
               (map_res (fd_result R leb os) (fd_current R leb rnd ofZ flr sqrt2 id cs wmax wres)).
Proof. apply (fd_get_outcome _ (fun s => g_ComplexSolution_get_current R sqrt2 s id) (fun s => c_current R sqrt2 s id));
  [intros self; apply cx_get_current_eq|reflexivity]. Qed.
Theorem fd_get_potential_outcome cs circ wmax os l : gpost cs = Ok circ ->
  same_outcome (bind (gfd_post circ wmax os) (fun self => g_FrequencyDomainSolution_get_potential R sqrt2 self l))
               (map_res (fd_result R leb os) (fd_potential R leb rnd ofZ flr sqrt2 l cs wmax wres)).
Proof. apply (fd_get_outcome _ (fun s => g_ComplexSolution_get_potential R sqrt2 s l) (fun s => c_potential R sqrt2 s l));
  [intros self; apply cx_get_potential_eq|reflexivity]. Qed.
Theorem fd_get_power_outcome cs circ wmax os id : gpost cs = Ok circ ->
  same_outcome (bind (gfd_post circ wmax os) (fun self => g_FrequencyDomainSolution_get_power R sqrt2 self id))
               (map_res (fd_result R leb os) (fd_power R leb rnd ofZ flr sqrt2 id cs wmax wres)).
Proof. apply (fd_get_outcome _ (fun s => g_ComplexSolution_get_power R sqrt2 s id) (fun s => c_power R sqrt2 s id));
  [intros self; apply cx_get_power_eq|reflexivity]. Qed.

(* __post_init__ against fd_solutions of Theory/MultiFreq.v: the frequencies paired with the peak-value solutions *)
Theorem fd_post_eq cs circ wmax os : gpost cs = Ok circ -> loads_ok cs ->
  map_res (fun self => combine (map (ComplexSolution_w R) (FrequencyDomainSolution__solutions R self))
                               (map to_csol (FrequencyDomainSolution__solutions R self))) (gfd_post circ wmax os)
  = fd_solutions R leb rnd ofZ flr cs wmax wres.
Proof. intros H L. rewrite fd_post_nf, (gfreq_eq' _ _ _ H). unfold fd_self, fd_solutions.
  destruct (hfreq cs wmax) as [l|e]; cbn [bind map_res]; [|reflexivity].
  rewrite (mapM_ext_in (fun w => bind (complex_solution R leb rnd ofZ cs w wres true) (fun s => Ok (w, s)))
                       (fun w => bind (solveT (fun w => gtc circ w wres) w) (fun s => Ok (w, peak_of R s)))).
  2:{ intros w _. rewrite complex_solution_as_bind, bind_assoc, (gtc_eq cs circ w wres H L). reflexivity. }
  rewrite (mapM_ret (solveT (fun w => gtc circ w wres)) (fun w s => (w, peak_of R s))).
  destruct (mapM _ l) as [ss|e] eqn:E; cbn [bind map_res]; [|reflexivity]. f_equal.
  pose proof (mapM_length _ _ _ E) as Len. unfold fd_obj. cbn [FrequencyDomainSolution__solutions fst snd]. unfold zipw.
  rewrite !map_map. cbn [ComplexSolution_w]. clear E. revert ss Len.
  induction l as [|a l IH]; intros [|s ss] Len; simpl in Len; try discriminate; [reflexivity|].
  cbn [combine map fst snd]. rewrite IH by lia. reflexivity. Qed.

(* ---- restatements used by Properties/C02c.v, C09c.v ---- *)
Lemma getitem_unique cs circ (c : comp) : gpost cs = Ok circ -> In c cs -> g_Circuit_getitem R circ (cid c) = Ok c.
Proof. intros H Hin. destruct (post_init_ok cs circ H) as [G E]. rewrite getitem_eq, E.
  apply circuit_getitem_unique; [|exact Hin]. pose proof (ground_node_ok R cs _ G) as K.
  destruct cs as [|c0 cs']; [destruct Hin|]. exact (proj1 K). Qed.
Lemma getitem_absent (circ : Circuit R) key :
  ~ In key (map cid (Circuit_components R circ)) -> g_Circuit_getitem R circ key = Err EValue.
Proof. intros H. rewrite getitem_eq. apply circuit_getitem_none. exact H. Qed.
Lemma outcome_map_res {A B} (f : A -> B) (r1 : res A) (r2 : res B) : same_outcome (map_res f r1) r2 ->
  match r1, r2 with Ok a, Ok b => f a = b | Err _, Err _ => True | _, _ => False end.
Proof. destruct r1, r2; simpl; auto. Qed.
Lemma outcome_map_res_r {A B} (f : A -> B) (r1 : res B) (r2 : res A) : same_outcome r1 (map_res f r2) ->
  match r1, r2 with Ok b, Ok a => b = f a | Err _, Err _ => True | _, _ => False end.
Proof. destruct r1, r2; simpl; auto. Qed.
Lemma fd_post_fields (circ : Circuit R) (wmax : R) (os : bool) :
  gfd_post circ wmax os
  = match fd_self (fun w => gtc circ w wres) (gfreq circ wmax) with
    | Ok (l, ss) => Ok (mkFD circ wmax os
                          (if os then l else map (fopp R) (rev (filter (posb leb) l)) ++ l)
                          (map (fun p => mkCX circ (fst p) true (snd p)) (combine l ss))
                          (map (posb leb) l))
    | Err e => Err e end.
Proof. rewrite fd_post_nf. destruct (fd_self _ _) as [[l ss]|e]; reflexivity. Qed.
Lemma spectrum_eq (self : FDS) (l : list R) (xs : list C) :
  FrequencyDomainSolution__positive R self = map (posb leb) l -> List.length l = List.length xs ->
  g_FrequencyDomainSolution__spectrum R self xs = Ok (snd (fd_result R leb (FrequencyDomainSolution_one_sided R self) (combine l xs))).
Proof. intros HP Len. unfold g_FrequencyDomainSolution__spectrum. rewrite HP.
  destruct (FrequencyDomainSolution_one_sided R self).
  - unfold fd_result. cbn [snd]. rewrite map_snd_combine by exact Len. reflexivity.
  - rewrite fd_result_two_sided. cbn [snd]. f_equal.
    rewrite (mask_select_combine (posb leb) l xs), (np_where_combine (posb leb) _ l xs), map_map. reflexivity. Qed.
Lemma dc_post_outcome' cs circ : gpost cs = Ok circ ->
  match gdc_post circ, dc_solution R leb rnd ofZ cs wres with
  | Ok self, Ok s => DCSolution__solution R self = s | Err _, Err _ => True | _, _ => False end.
Proof. intros H. apply outcome_map_res, dc_post_outcome, H. Qed.
Lemma cx_post_outcome' cs circ w peak : gpost cs = Ok circ ->
  match gcx_post circ w peak, complex_solution R leb rnd ofZ cs w wres peak with
  | Ok self, Ok s => to_csol self = s | Err _, Err _ => True | _, _ => False end.
Proof. intros H. apply outcome_map_res, cx_post_outcome, H. Qed.

End GenCircuitEq.


(* ---- the statements of Properties/C09c.v that need a reshaping step ---- *)
Lemma stmt_td_is_fd : forall (R : fops) leb rnd ofZ flr (obs : csol R -> res (Cx R)) (cs : list (comp R)) (wmax wres : R),
  match td_terms R leb rnd ofZ flr (fun s => obs {| cs_sol := s; cs_peak := true |}) cs wmax wres,
        fd_series R leb rnd ofZ flr obs cs wmax wres with
  | Ok terms, Ok lines => terms = map (fun p => (snd p, fst p)) lines
  | Err _, Err _ => True | _, _ => False end.
Proof. intros R leb rnd ofZ flr obs cs wmax wres. apply outcome_map_res_r, td_fd_outcome. Qed.
Lemma stmt_td_value : forall (R : fops) leb rnd ofZ flr (obs : csol R -> res (Cx R)) (cs : list (comp R)) (wmax wres : R) (carrier : R -> R * R),
  match td_terms R leb rnd ofZ flr (fun s => obs {| cs_sol := s; cs_peak := true |}) cs wmax wres,
        td_value R leb rnd ofZ flr obs cs wmax wres carrier with
  | Ok terms, Ok v => timefn_eval R carrier terms = v
  | Err _, Err _ => True | _, _ => False end.
Proof. intros R leb rnd ofZ flr obs cs wmax wres carrier.
  apply (outcome_map_res (timefn_eval R carrier)), td_value_outcome. Qed.
Lemma stmt_td_voltage_is_fd : forall (R : fops) leb rnd ofZ flr (sqrt2 : R) (id : label) (cs : list (comp R)) (wmax wres : R),
  match td_voltage R leb rnd ofZ flr id cs wmax wres, fd_voltage R leb rnd ofZ flr sqrt2 id cs wmax wres with
  | Ok terms, Ok lines => terms = map (fun p => (snd p, fst p)) lines
  | Err _, Err _ => True | _, _ => False end.
Proof. intros R leb rnd ofZ flr sqrt2 id cs wmax wres. apply outcome_map_res_r, td_voltage_fd. Qed.
Lemma stmt_td_current_is_fd : forall (R : fops) leb rnd ofZ flr (sqrt2 : R) (id : label) (cs : list (comp R)) (wmax wres : R),
  match td_current R leb rnd ofZ flr id cs wmax wres, fd_current R leb rnd ofZ flr sqrt2 id cs wmax wres with
  | Ok terms, Ok lines => terms = map (fun p => (snd p, fst p)) lines
  | Err _, Err _ => True | _, _ => False end.
Proof. intros R leb rnd ofZ flr sqrt2 id cs wmax wres. apply outcome_map_res_r, td_current_fd. Qed.
Lemma stmt_td_potential_is_fd : forall (R : fops) leb rnd ofZ flr (sqrt2 : R) (l : label) (cs : list (comp R)) (wmax wres : R),
  match td_potential R leb rnd ofZ flr l cs wmax wres, fd_potential R leb rnd ofZ flr sqrt2 l cs wmax wres with
  | Ok terms, Ok lines => terms = map (fun p => (snd p, fst p)) lines
  | Err _, Err _ => True | _, _ => False end.
Proof. intros R leb rnd ofZ flr sqrt2 l cs wmax wres. apply outcome_map_res_r, td_potential_fd. Qed.
Lemma stmt_fd_get_voltage_outcome : forall (R : fops) leb rnd ofZ flr (sqrt2 wres : R) (cs : list (comp R)) (circ : Circuit R) (wmax : R) (one_sided : bool) (id : label),
  g_Circuit_post_init R cs = Ok circ ->
  match bind (g_FrequencyDomainSolution_post_init R leb rnd ofZ flr wres circ wmax one_sided) (fun self => g_FrequencyDomainSolution_get_voltage R sqrt2 self id),
        fd_voltage R leb rnd ofZ flr sqrt2 id cs wmax wres with
  | Ok r, Ok lines => r = fd_result R leb one_sided lines | Err _, Err _ => True | _, _ => False end.
Proof. intros R leb rnd ofZ flr sqrt2 wres cs circ wmax os id H. apply outcome_map_res_r, fd_get_voltage_outcome, H. Qed.
Lemma stmt_fd_get_current_outcome : forall (R : fops) leb rnd ofZ flr (sqrt2 wres : R) (cs : list (comp R)) (circ : Circuit R) (wmax : R) (one_sided : bool) (id : label),
  g_Circuit_post_init R cs = Ok circ ->
  match bind (g_FrequencyDomainSolution_post_init R leb rnd ofZ flr wres circ wmax one_sided) (fun self => g_FrequencyDomainSolution_get_current R sqrt2 self id),
        fd_current R leb rnd ofZ flr sqrt2 id cs wmax wres with
  | Ok r, Ok lines => r = fd_result R leb one_sided lines | Err _, Err _ => True | _, _ => False end.
Proof. intros R leb rnd ofZ flr sqrt2 wres cs circ wmax os id H. apply outcome_map_res_r, fd_get_current_outcome, H. Qed.
Lemma stmt_fd_get_potential_outcome : forall (R : fops) leb rnd ofZ flr (sqrt2 wres : R) (cs : list (comp R)) (circ : Circuit R) (wmax : R) (one_sided : bool) (l : label),
  g_Circuit_post_init R cs = Ok circ ->
  match bind (g_FrequencyDomainSolution_post_init R leb rnd ofZ flr wres circ wmax one_sided) (fun self => g_FrequencyDomainSolution_get_potential R sqrt2 self l),
        fd_potential R leb rnd ofZ flr sqrt2 l cs wmax wres with
  | Ok r, Ok lines => r = fd_result R leb one_sided lines | Err _, Err _ => True | _, _ => False end.
Proof. intros R leb rnd ofZ flr sqrt2 wres cs circ wmax os l H. apply outcome_map_res_r, fd_get_potential_outcome, H. Qed.
Lemma stmt_fd_get_power_outcome : forall (R : fops) leb rnd ofZ flr (sqrt2 wres : R) (cs : list (comp R)) (circ : Circuit R) (wmax : R) (one_sided : bool) (id : label),
  g_Circuit_post_init R cs = Ok circ ->
  match bind (g_FrequencyDomainSolution_post_init R leb rnd ofZ flr wres circ wmax one_sided) (fun self => g_FrequencyDomainSolution_get_power R sqrt2 self id),
        fd_power R leb rnd ofZ flr sqrt2 id cs wmax wres with
  | Ok r, Ok lines => r = fd_result R leb one_sided lines | Err _, Err _ => True | _, _ => False end.
Proof. intros R leb rnd ofZ flr sqrt2 wres cs circ wmax os id H. apply outcome_map_res_r, fd_get_power_outcome, H. Qed.
