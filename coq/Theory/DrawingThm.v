(* Theory/DrawingThm.v — theorems about the drawing parser model (Model/Drawing.v):
   the wire closure computes the reflexive-symmetric-transitive closure of wire adjacency (with the fuel argument),
   unique_nodes keeps exactly one representative per class whatever the set iteration order, the labelling is
   injective on classes, labels / ground name the class they sit on, polarity of reversed sources, and invariance
   under set order, symbol order, injective point maps and wire subdivision. *)
From Coq Require Import List Bool ZArith NArith Arith Lia Permutation FinFun.
From CC Require Import Theory.Field Model.Network Theory.Labels Model.Circuit Model.Drawing.
Import ListNotations.

(* ------------------------------------------------------------------ points and point sets *)
Lemma pt_eqb_spec a b : reflect (a = b) (pt_eqb a b).
Proof.
  destruct a as [x y], b as [x' y']; unfold pt_eqb; simpl.
  destruct (Z.eqb_spec x x'), (Z.eqb_spec y y'); simpl; constructor; congruence.
Qed.
Ltac peq a b := destruct (pt_eqb_spec a b).

Lemma pt_eqb_refl a : pt_eqb a a = true.
Proof. peq a a; congruence. Qed.

Lemma pmem_spec x l : pmem x l = true <-> In x l.
Proof.
  unfold pmem. rewrite existsb_exists. split.
  - intros [y [H1 H2]]. peq x y; [subst; auto|discriminate].
  - intros H; exists x; split; auto. apply pt_eqb_refl.
Qed.
Lemma pmem_false x l : pmem x l = false <-> ~ In x l.
Proof. rewrite <- pmem_spec. destruct (pmem x l); split; congruence. Qed.

Lemma padd_In x y l : In y (padd x l) <-> y = x \/ In y l.
Proof.
  unfold padd. destruct (pmem x l) eqn:E.
  - apply pmem_spec in E. split; [auto|]. intros [->|H]; auto.
  - rewrite in_app_iff; simpl. split; [intros [H|[H|[]]]; auto|intros [H|H]; auto].
Qed.

Lemma pnub_fold_In x l acc : In x (fold_left (fun a y => padd y a) l acc) <-> In x acc \/ In x l.
Proof.
  revert acc. induction l as [|y l IH]; intros acc; simpl; [tauto|].
  rewrite IH, padd_In. split; [intros [[->|H]|H]; auto|intros [H|[->|H]]; auto].
Qed.
Lemma pnub_In x l : In x (pnub l) <-> In x l.
Proof. unfold pnub. rewrite pnub_fold_In. simpl; tauto. Qed.

Lemma is_line_scope s : is_line s = true -> has_name (s_class s) = true.
Proof. unfold is_line. intros H. apply N.eqb_eq in H. rewrite H. reflexivity. Qed.
Lemma is_node_scope s : is_node s = true -> has_name (s_class s) = true.
Proof.
  unfold is_node. intros H. apply orb_true_iff in H. destruct H as [H|H]; [apply orb_true_iff in H; destruct H as [H|H]|];
    apply N.eqb_eq in H; rewrite H; reflexivity.
Qed.

(* all_nodes = the start and end points of the symbols in scope *)
Lemma all_nodes_In d p :
  In p (all_nodes d) <-> exists s, In s d /\ has_name (s_class s) = true /\ (s_start s = p \/ s_end s = p).
Proof.
  unfold all_nodes. rewrite pnub_In. repeat rewrite in_app_iff. repeat rewrite in_map_iff.
  unfold circuit_elements, line_elements. split.
  - intros [[s [E H]]|[[s [E H]]|[[s [E H]]|[s [E H]]]]]; apply filter_In in H; destruct H as [H1 H2];
      exists s; (split; [exact H1|]); (split; [try exact H2; apply is_line_scope; exact H2|]); auto.
  - intros [s [H1 [H2 [E|E]]]]; [left|right; left]; exists s; (split; [exact E|]); apply filter_In; auto.
Qed.

Lemma node_elements_in_all d e : In e (node_elements d) -> In (s_start e) (all_nodes d).
Proof.
  unfold node_elements. intros H. apply filter_In in H. destruct H as [H1 H2].
  apply all_nodes_In. exists e. split; [exact H1|]. split; [apply is_node_scope; exact H2|auto].
Qed.

Lemma wires_In d a b : In (a, b) (wires d) <-> exists s, In s d /\ is_line s = true /\ s_start s = a /\ s_end s = b.
Proof.
  unfold wires, line_elements. rewrite in_map_iff. split.
  - intros [s [E H]]. apply filter_In in H. exists s. inversion E. tauto.
  - intros [s [H1 [H2 [E1 E2]]]]. exists s. split; [congruence|]. apply filter_In; auto.
Qed.

Lemma wire_ends_in_all d a b : In (a, b) (wires d) -> In a (all_nodes d) /\ In b (all_nodes d).
Proof.
  intros H. apply wires_In in H. destruct H as [s [H1 [H2 [E1 E2]]]].
  split; apply all_nodes_In; exists s; (split; [exact H1|]); (split; [apply is_line_scope; exact H2|]); auto.
Qed.

(* ------------------------------------------------------------------ the wire closure *)
Section Closure.
Variable ws : list (point * point).

(* reflexive-symmetric-transitive closure of "some wire has endpoints {a, b}" *)
Inductive conn : point -> point -> Prop :=
| conn_refl p : conn p p
| conn_wire a b : In (a, b) ws -> conn a b
| conn_sym a b : conn a b -> conn b a
| conn_trans a b c : conn a b -> conn b c -> conn a c.

Definition closed (X : list point) : Prop := forall a b, In (a, b) ws -> (In a X <-> In b X).

Lemma closed_conn X : closed X -> forall p q, conn p q -> (In p X <-> In q X).
Proof.
  intros HX p q H. induction H as [p|a b H|a b H IH|a b c H1 IH1 H2 IH2]; [tauto|apply HX; exact H|tauto|tauto].
Qed.

Lemma padd_cases x l : (padd x l = l /\ In x l) \/ (padd x l = l ++ [x] /\ ~ In x l).
Proof.
  unfold padd. destruct (pmem x l) eqn:E; [left; split; [reflexivity|apply pmem_spec; exact E]|
    right; split; [reflexivity|apply pmem_false; exact E]].
Qed.

(* one visited wire: nothing happens and the wire is already balanced, or exactly one new point is appended and the
   wire, unbalanced before, has both ends in the set afterwards *)
Lemma visit_cases X a b :
  (visit X (a, b) = X /\ (In a X <-> In b X)) \/
  (exists x, visit X (a, b) = X ++ [x] /\ ~ In x X /\ (x = a \/ x = b) /\ (In a X \/ In b X) /\ (~ In a X \/ ~ In b X)).
Proof.
  unfold visit; simpl. destruct (pmem a X) eqn:Ea.
  - apply pmem_spec in Ea. destruct (padd_cases b X) as [[E H]|[E H]].
    + left. split; [exact E|tauto].
    + right. exists b. repeat split; auto.
  - apply pmem_false in Ea. destruct (pmem b X) eqn:Eb.
    + apply pmem_spec in Eb. destruct (padd_cases a X) as [[E H]|[E H]]; [contradiction|].
      right. exists a. repeat split; auto.
    + apply pmem_false in Eb. left. split; [reflexivity|tauto].
Qed.

Lemma pass_cons w l X : pass (w :: l) X = pass l (visit X w).
Proof. reflexivity. Qed.

Lemma visit_incl X w x : In x X -> In x (visit X w).
Proof.
  destruct w as [a b]. intros H. destruct (visit_cases X a b) as [[E _]|[y [E _]]]; rewrite E; [exact H|].
  apply in_or_app; auto.
Qed.
Lemma pass_incl l X x : In x X -> In x (pass l X).
Proof. revert X. induction l as [|w l IH]; intros X H; simpl; [exact H|]. apply IH, visit_incl, H. Qed.

Lemma visit_length X w : length X <= length (visit X w).
Proof.
  destruct w as [a b]. destruct (visit_cases X a b) as [[E _]|[y [E _]]]; rewrite E; [lia|].
  rewrite app_length; simpl; lia.
Qed.
Lemma pass_length l X : length X <= length (pass l X).
Proof.
  revert X. induction l as [|w l IH]; intros X; simpl; [lia|].
  specialize (IH (visit X w)). pose proof (visit_length X w). lia.
Qed.

(* soundness: every point ever added is connected to the points already there *)
Lemma visit_sound p X w : In w ws -> (forall x, In x X -> conn p x) -> forall x, In x (visit X w) -> conn p x.
Proof.
  destruct w as [a b]. intros Hw HX x Hx.
  destruct (visit_cases X a b) as [[E _]|[y [E [Hy [Hyab [Hin _]]]]]]; rewrite E in Hx; [auto|].
  apply in_app_or in Hx. destruct Hx as [Hx|[<-|[]]]; [auto|].
  destruct Hyab as [->| ->]; destruct Hin as [Hin|Hin]; auto.
  - apply conn_trans with b; [auto|apply conn_sym, conn_wire, Hw].
  - apply conn_trans with a; [auto|apply conn_wire, Hw].
Qed.
Lemma pass_sound p l : incl l ws -> forall X, (forall x, In x X -> conn p x) -> forall x, In x (pass l X) -> conn p x.
Proof.
  induction l as [|w l IH]; intros Hl X HX x Hx; simpl in Hx; [auto|].
  apply (IH (fun y Hy => Hl y (or_intror Hy)) (visit X w)); [|exact Hx].
  apply visit_sound; [apply Hl; left; reflexivity|exact HX].
Qed.

(* a pass that does not grow the set leaves it unchanged, and then every wire is balanced *)
Lemma pass_fix l : forall X, length (pass l X) = length X -> pass l X = X /\ forall a b, In (a, b) l -> (In a X <-> In b X).
Proof.
  induction l as [|w l IH]; intros X H; [simpl in *; split; [reflexivity|tauto]|].
  rewrite pass_cons in *.
  pose proof (visit_length X w) as H1. pose proof (pass_length l (visit X w)) as H2.
  destruct w as [a b]. destruct (visit_cases X a b) as [[E Hab]|[y [E _]]].
  - rewrite E in *. destruct (IH X H) as [IH1 IH2]. split; [exact IH1|].
    intros a' b' [Hw|Hw]; [inversion Hw; subst; exact Hab|apply IH2, Hw].
  - rewrite E in *. rewrite app_length in H2. simpl in H2. lia.
Qed.

(* the fuel argument: a productive pass balances at least one more wire *)
Definition satb (X : list point) (w : point * point) : bool := pmem (fst w) X && pmem (snd w) X.
Definition unsat (X : list point) : nat := length (filter (fun w => negb (satb X w)) ws).

Lemma satb_mono X Y w : (forall x, In x X -> In x Y) -> satb X w = true -> satb Y w = true.
Proof.
  unfold satb. intros H H1. apply andb_true_iff in H1. destruct H1 as [H1 H2].
  apply pmem_spec in H1, H2. apply andb_true_iff. split; apply pmem_spec; auto.
Qed.

Lemma pass_grows l : forall X, length X < length (pass l X) ->
  exists w, In w l /\ satb X w = false /\ satb (pass l X) w = true.
Proof.
  induction l as [|w l IH]; intros X H; [simpl in *; lia|].
  rewrite pass_cons in *.
  destruct w as [a b]. destruct (visit_cases X a b) as [[E _]|[y [E [Hy [Hyab [Hin Hnot]]]]]].
  - rewrite E in *. destruct (IH X H) as [w [H1 H2]]. exists w. split; [right; exact H1|exact H2].
  - exists (a, b). split; [left; reflexivity|]. split.
    + unfold satb; simpl. destruct Hnot as [Hn|Hn]; apply pmem_false in Hn; rewrite Hn; [reflexivity|apply andb_false_r].
    + unfold satb; simpl. apply andb_true_iff. split; apply pmem_spec, pass_incl; rewrite E; apply in_or_app;
        destruct Hyab as [->| ->]; destruct Hin as [Hin|Hin]; simpl; auto.
Qed.

Lemma filter_length_lt {A} (p q : A -> bool) (l : list A) :
  (forall x, In x l -> q x = true -> p x = true) -> (exists x, In x l /\ p x = true /\ q x = false) ->
  length (filter q l) < length (filter p l).
Proof.
  induction l as [|y l IH]; intros H [x [Hx [Hp Hq]]]; simpl in *; [contradiction|].
  assert (Hle : forall l', (forall z, In z l' -> q z = true -> p z = true) -> length (filter q l') <= length (filter p l')).
  { induction l' as [|z l' IH']; intros Hl'; simpl; [lia|].
    assert (IHz : length (filter q l') <= length (filter p l')) by (apply IH'; intros z' Hz'; apply Hl'; right; exact Hz').
    destruct (q z) eqn:Eq; [rewrite (Hl' z (or_introl eq_refl) Eq); simpl; lia|destruct (p z); simpl; lia]. }
  destruct Hx as [->|Hx].
  - rewrite Hp, Hq. simpl. assert (length (filter q l) <= length (filter p l)) by (apply Hle; intros z Hz; apply H; right; exact Hz). lia.
  - assert (length (filter q l) < length (filter p l)) by (apply IH; [intros z Hz; apply H; right; exact Hz|exists x; auto]).
    destruct (q y) eqn:Eq; [rewrite (H y (or_introl eq_refl) Eq); simpl; lia|destruct (p y); simpl; lia].
Qed.

Lemma pass_unsat X : length X < length (pass ws X) -> unsat (pass ws X) < unsat X.
Proof.
  intros H. unfold unsat. apply filter_length_lt.
  - intros w _ Hw. destruct (satb X w) eqn:E; [|reflexivity].
    rewrite (satb_mono X (pass ws X) w (pass_incl ws X) E) in Hw. discriminate.
  - destruct (pass_grows ws X H) as [w [H1 [H2 H3]]]. exists w. rewrite H2, H3. auto.
Qed.

Lemma iterate_incl fuel : forall X x, In x X -> In x (iterate ws fuel X).
Proof.
  induction fuel as [|f IH]; intros X x H; simpl; [exact H|].
  destruct (Nat.ltb (length X) (length (pass ws X))); [apply IH|]; apply pass_incl, H.
Qed.

Lemma iterate_sound p fuel : forall X, (forall x, In x X -> conn p x) -> forall x, In x (iterate ws fuel X) -> conn p x.
Proof.
  induction fuel as [|f IH]; intros X HX x Hx; simpl in Hx; [auto|].
  assert (HP : forall y, In y (pass ws X) -> conn p y) by (apply pass_sound; [apply incl_refl|exact HX]).
  destruct (Nat.ltb (length X) (length (pass ws X))); [apply (IH (pass ws X)); assumption|auto].
Qed.

(* with more fuel than unbalanced wires the loop stops on a pass without growth, i.e. on a closed set *)
Lemma iterate_closed fuel : forall X, unsat X < fuel -> closed (iterate ws fuel X).
Proof.
  induction fuel as [|f IH]; intros X H; [lia|]. simpl.
  destruct (Nat.ltb_spec (length X) (length (pass ws X))) as [Hlt|Hge].
  - apply IH. pose proof (pass_unsat X Hlt). lia.
  - pose proof (pass_length ws X) as Hle.
    destruct (pass_fix ws X) as [E Hbal]; [lia|]. rewrite E. intros a b Hab. apply Hbal, Hab.
Qed.

Lemma unsat_le X : unsat X <= length ws.
Proof. unfold unsat. generalize (fun w => negb (satb X w)). intros f. induction ws as [|w l IH]; simpl; [lia|destruct (f w); simpl; lia]. Qed.

(* the Python loop with fuel #wires + 1 *)
Definition closure (p : point) : list point := iterate ws (S (length ws)) [p].

Theorem closure_spec p q : In q (closure p) <-> conn p q.
Proof.
  unfold closure. split.
  - apply iterate_sound. intros x [<-|[]]. apply conn_refl.
  - intros H. assert (Hc : closed (iterate ws (S (length ws)) [p])) by (apply iterate_closed; pose proof (unsat_le [p]); lia).
    apply (closed_conn _ Hc p q H). apply iterate_incl. left; reflexivity.
Qed.

(* more fuel changes nothing: the loop has already stopped *)
Lemma iterate_stable fuel : forall X, unsat X < fuel -> iterate ws (S fuel) X = iterate ws fuel X.
Proof.
  induction fuel as [|f IH]; intros X H; [lia|].
  change (iterate ws (S (S f)) X) with (if Nat.ltb (length X) (length (pass ws X)) then iterate ws (S f) (pass ws X) else pass ws X).
  change (iterate ws (S f) X) with (if Nat.ltb (length X) (length (pass ws X)) then iterate ws f (pass ws X) else pass ws X).
  destruct (Nat.ltb_spec (length X) (length (pass ws X))) as [Hlt|Hge]; [|reflexivity].
  apply IH. pose proof (pass_unsat X Hlt). lia.
Qed.
End Closure.

(* ------------------------------------------------------------------ connected points of a drawing *)
Definition connected (d : drawing) : point -> point -> Prop := conn (wires d).

Lemma connected_refl d p : connected d p p. Proof. apply conn_refl. Qed.
Lemma connected_sym d p q : connected d p q -> connected d q p. Proof. apply conn_sym. Qed.
Lemma connected_trans d p q r : connected d p q -> connected d q r -> connected d p r. Proof. apply conn_trans. Qed.

(* _get_equal_electrical_potential_nodes(p) is the class of p *)
Theorem equal_potential_nodes_spec d p q : In q (equal_potential_nodes d p) <-> connected d p q.
Proof. apply closure_spec. Qed.

Lemma conn_mono ws ws' p q : incl ws ws' -> conn ws p q -> conn ws' p q.
Proof.
  intros Hi H. induction H as [p|a b H|a b H IH|a b c H1 IH1 H2 IH2];
    [apply conn_refl|apply conn_wire, Hi, H|apply conn_sym, IH|apply conn_trans with b; assumption].
Qed.

Definition connectedb (d : drawing) (p q : point) : bool := pmem q (equal_potential_nodes d p).
Lemma connectedb_spec d p q : reflect (connected d p q) (connectedb d p q).
Proof.
  unfold connectedb. destruct (pmem q (equal_potential_nodes d p)) eqn:E; constructor.
  - apply equal_potential_nodes_spec, pmem_spec, E.
  - intros H. apply equal_potential_nodes_spec, pmem_spec in H. congruence.
Qed.

(* a point outside every wire is alone in its class *)
Lemma connected_in_all d p q : connected d p q -> In p (all_nodes d) -> In q (all_nodes d).
Proof.
  intros H. assert (G : In p (all_nodes d) <-> In q (all_nodes d)); [|tauto].
  induction H as [p|a b H|a b H IH|a b c H1 IH1 H2 IH2]; [tauto| |tauto|tauto].
  destruct (wire_ends_in_all d a b H). tauto.
Qed.

(* ------------------------------------------------------------------ unique_nodes: one representative per class *)
Record uinv (d : drawing) (pre nodes : list point) : Prop := {
  ui_sub : forall x, In x nodes -> In x (all_nodes d);
  ui_rep : forall x, In x (all_nodes d) -> exists y, In y nodes /\ connected d x y;
  ui_one : forall v x y, In v pre -> In x nodes -> In y nodes -> connected d v x -> connected d v y -> x = y;
  ui_gone : forall x, In x (all_nodes d) -> ~ In x nodes -> exists v, In v pre /\ connected d v x
}.

Lemma unique_step_In d nodes n x : pmem n nodes = true ->
  (In x (unique_step d nodes n) <-> (In x nodes /\ ~ connected d n x) \/ x = n).
Proof.
  intros Hn. unfold unique_step. rewrite Hn, in_app_iff, filter_In. simpl.
  assert (E : negb (pmem x (equal_potential_nodes d n)) = true <-> ~ connected d n x).
  { rewrite <- equal_potential_nodes_spec, <- pmem_spec. destruct (pmem x (equal_potential_nodes d n)); simpl; split; congruence. }
  rewrite E. split; [intros [H|[H|[]]]; auto|intros [H|H]; auto].
Qed.

Lemma uinv_init d : uinv d [] (all_nodes d).
Proof.
  constructor.
  - auto.
  - intros x H. exists x. split; [exact H|apply connected_refl].
  - intros v x y [].
  - intros x H H'. contradiction.
Qed.

Lemma uinv_step d pre nodes n : uinv d pre nodes -> In n (all_nodes d) -> uinv d (pre ++ [n]) (unique_step d nodes n).
Proof.
  intros [Hsub Hrep Hone Hgone] Hn. destruct (pmem n nodes) eqn:En.
  - pose proof (fun x => unique_step_In d nodes n x En) as HIn. constructor.
    + intros x Hx. apply HIn in Hx. destruct Hx as [[Hx _]| ->]; auto.
    + intros x Hx. destruct (Hrep x Hx) as [y [Hy Hxy]]. destruct (connectedb_spec d n y) as [Hc|Hc].
      * exists n. split; [apply HIn; auto|]. apply connected_trans with y; [exact Hxy|apply connected_sym, Hc].
      * exists y. split; [apply HIn; auto|exact Hxy].
    + intros v x y Hv Hx Hy Hvx Hvy. apply HIn in Hx. apply HIn in Hy.
      destruct Hx as [[Hx Hnx]| ->]; destruct Hy as [[Hy Hny]| ->]; [| | |reflexivity].
      * apply in_app_or in Hv. destruct Hv as [Hv|[<-|[]]]; [apply (Hone v); assumption|contradiction].
      * exfalso. apply Hnx. apply connected_trans with v; [apply connected_sym, Hvy|exact Hvx].
      * exfalso. apply Hny. apply connected_trans with v; [apply connected_sym, Hvx|exact Hvy].
    + intros x Hx Hnx. destruct (pmem x nodes) eqn:Ex.
      * apply pmem_spec in Ex. destruct (connectedb_spec d n x) as [Hc|Hc].
        -- exists n. split; [apply in_or_app; simpl; auto|exact Hc].
        -- exfalso. apply Hnx, HIn. auto.
      * apply pmem_false in Ex. destruct (Hgone x Hx Ex) as [v [Hv Hvx]]. exists v. split; [apply in_or_app; auto|exact Hvx].
  - assert (E : unique_step d nodes n = nodes) by (unfold unique_step; rewrite En; reflexivity). rewrite E.
    apply pmem_false in En. constructor; [exact Hsub|exact Hrep| |].
    + intros v x y Hv Hx Hy Hvx Hvy. apply in_app_or in Hv. destruct Hv as [Hv|[<-|[]]]; [apply (Hone v); assumption|].
      destruct (Hgone n Hn En) as [v' [Hv' Hc]].
      apply (Hone v'); try assumption; apply connected_trans with n; assumption.
    + intros x Hx Hnx. destruct (Hgone x Hx Hnx) as [v [Hv Hvx]]. exists v. split; [apply in_or_app; auto|exact Hvx].
Qed.

Lemma uinv_fold d oa : forall pre nodes, uinv d pre nodes -> (forall x, In x oa -> In x (all_nodes d)) ->
  uinv d (pre ++ oa) (fold_left (unique_step d) oa nodes).
Proof.
  induction oa as [|n oa IH]; intros pre nodes H Hoa; simpl; [rewrite app_nil_r; exact H|].
  replace (pre ++ n :: oa) with ((pre ++ [n]) ++ oa) by (rewrite <- app_assoc; reflexivity).
  apply IH; [apply uinv_step; [exact H|apply Hoa; left; reflexivity]|intros x Hx; apply Hoa; right; exact Hx].
Qed.

(* [oa] enumerates a point set [s] (duplicates are harmless) *)
Definition enum (o s : list point) : Prop := forall x, In x o <-> In x s.

Section Unique.
Variable d : drawing.
Variable oa : list point.
Hypothesis Hoa : enum oa (all_nodes d).

Lemma unique_inv : uinv d oa (unique_nodes d oa).
Proof. apply (uinv_fold d oa [] (all_nodes d) (uinv_init d)). intros x. apply Hoa. Qed.

Lemma unique_sub u : In u (unique_nodes d oa) -> In u (all_nodes d).
Proof. apply (ui_sub _ _ _ unique_inv). Qed.

(* every class has a representative ... *)
Lemma unique_exists p : In p (all_nodes d) -> exists u, In u (unique_nodes d oa) /\ connected d p u.
Proof. apply (ui_rep _ _ _ unique_inv). Qed.

(* ... and only one *)
Lemma unique_one_per_class u v : In u (unique_nodes d oa) -> In v (unique_nodes d oa) -> connected d u v -> u = v.
Proof.
  intros Hu Hv H. apply (ui_one _ _ _ unique_inv u u v); auto.
  - apply Hoa, unique_sub, Hu.
  - apply connected_refl.
Qed.

Lemma rep_spec p : In p (all_nodes d) -> In (rep d oa p) (unique_nodes d oa) /\ connected d p (rep d oa p).
Proof.
  intros Hp. unfold rep.
  destruct (filter (fun u => pmem u (equal_potential_nodes d p) && negb (pt_eqb u p)) (unique_nodes d oa)) as [|u l] eqn:E.
  - destruct (unique_exists p Hp) as [y [Hy Hc]]. peq y p.
    + subst y. split; [exact Hy|apply connected_refl].
    + exfalso. assert (Hin : In y []); [|destruct Hin].
      rewrite <- E. apply filter_In. split; [exact Hy|]. apply andb_true_iff. split.
      * apply pmem_spec, equal_potential_nodes_spec, Hc.
      * peq y p; [contradiction|reflexivity].
  - assert (Hin : In u (u :: l)) by (left; reflexivity). rewrite <- E in Hin. apply filter_In in Hin.
    destruct Hin as [H1 H2]. apply andb_true_iff in H2. destruct H2 as [H2 _].
    split; [exact H1|apply equal_potential_nodes_spec, pmem_spec, H2].
Qed.

(* unique_node_mapping identifies exactly the connected points *)
Theorem rep_eq_iff p q : In p (all_nodes d) -> In q (all_nodes d) -> (rep d oa p = rep d oa q <-> connected d p q).
Proof.
  intros Hp Hq. destruct (rep_spec p Hp) as [Up Cp]. destruct (rep_spec q Hq) as [Uq Cq]. split.
  - intros E. apply connected_trans with (rep d oa p); [exact Cp|]. rewrite E. apply connected_sym, Cq.
  - intros H. apply unique_one_per_class; [exact Up|exact Uq|].
    apply connected_trans with p; [apply connected_sym, Cp|]. apply connected_trans with q; assumption.
Qed.

Lemma rep_of_unique u : In u (unique_nodes d oa) -> rep d oa u = u.
Proof.
  intros Hu. destruct (rep_spec u (unique_sub u Hu)) as [H1 H2]. symmetry. apply unique_one_per_class; assumption.
Qed.

(* the set intersected in unique_node_mapping has at most one member: pop() is deterministic *)
Lemma mapping_candidates_unique p u v : In p (all_nodes d) ->
  In u (unique_nodes d oa) -> In v (unique_nodes d oa) -> connected d p u -> connected d p v -> u = v.
Proof.
  intros Hp Hu Hv Hpu Hpv. apply unique_one_per_class; [exact Hu|exact Hv|].
  apply connected_trans with p; [apply connected_sym, Hpu|exact Hpv].
Qed.
End Unique.

(* ------------------------------------------------------------------ str(n) is injective *)
Definition undec_step (a d : N) : N := (10 * a + (d - 48))%N.
Definition undec (l : label) : N := fold_left undec_step l 0%N.

Lemma dec_aux_undec fuel : forall n acc, (N.to_nat n < fuel)%nat ->
  fold_left undec_step (dec_aux fuel n acc) 0%N = fold_left undec_step acc n.
Proof.
  induction fuel as [|f IH]; intros n acc H; [lia|].
  change (dec_aux (S f) n acc) with (if N.eqb (n / 10) 0 then (48 + n mod 10)%N :: acc
                                     else dec_aux f (n / 10) ((48 + n mod 10)%N :: acc)).
  pose proof (N.div_mod n 10 ltac:(lia)) as Hdm.
  pose proof (N.mod_lt n 10 ltac:(lia)) as Hm.
  assert (Hstep : forall a, fold_left undec_step ((48 + n mod 10)%N :: acc) a = fold_left undec_step acc (10 * a + n mod 10)%N).
  { intros a. cbn [fold_left]. f_equal. unfold undec_step. generalize (n mod 10)%N. intros r. lia. }
  destruct (N.eqb_spec (n / 10) 0) as [E|E].
  - rewrite Hstep. f_equal. rewrite E in Hdm. lia.
  - rewrite IH.
    + rewrite Hstep. f_equal. lia.
    + assert (Hpos : (0 < n)%N) by (destruct (N.eq_dec n 0) as [->|]; [exfalso; apply E; reflexivity|lia]).
      assert (Hlt : (n / 10 < n)%N) by (apply N.div_lt; lia).
      revert Hlt. generalize (n / 10)%N. intros q Hlt. lia.
Qed.

Lemma undec_dec n : undec (dec n) = N.of_nat n.
Proof. unfold undec, dec. rewrite dec_aux_undec; [reflexivity|]. rewrite Nat2N.id. lia. Qed.

Lemma dec_inj : Injective dec.
Proof. intros a b H. apply (f_equal undec) in H. rewrite !undec_dec in H. lia. Qed.

(* ------------------------------------------------------------------ the skip loop finds an unused number *)
Lemma skip_fresh_aux vals fuel : forall n, (exists m, n <= m < n + fuel /\ lmem (dec m) vals = false) ->
  lmem (dec (skip fuel n vals)) vals = false /\ n <= skip fuel n vals.
Proof.
  induction fuel as [|f IH]; intros n [m [Hm Hf]]; [lia|]. simpl.
  destruct (lmem (dec n) vals) eqn:E; [|split; [exact E|lia]].
  assert (m <> n) by (intros ->; congruence).
  destruct (IH (S n)) as [H1 H2]; [exists m; split; [lia|exact Hf]|]. split; [exact H1|lia].
Qed.

Lemma exists_fresh vals k n : length vals < k -> exists m, n <= m < n + k /\ lmem (dec m) vals = false.
Proof.
  intros Hk. destruct (existsb (fun m => negb (lmem (dec m) vals)) (seq n k)) eqn:E.
  - apply existsb_exists in E. destruct E as [m [Hm Hf]]. apply in_seq in Hm. exists m. split; [lia|].
    destruct (lmem (dec m) vals); [discriminate|reflexivity].
  - exfalso. assert (Hall : incl (map dec (seq n k)) vals).
    { intros l Hl. apply in_map_iff in Hl. destruct Hl as [m [<- Hm]]. apply lmem_spec.
      destruct (lmem (dec m) vals) eqn:Em; [reflexivity|]. exfalso.
      assert (existsb (fun m => negb (lmem (dec m) vals)) (seq n k) = true); [|congruence].
      apply existsb_exists. exists m. rewrite Em. auto. }
    assert (HN : NoDup (map dec (seq n k))) by (apply Injective_map_NoDup; [apply dec_inj|apply seq_NoDup]).
    pose proof (NoDup_incl_length HN Hall) as Hlen. rewrite map_length, seq_length in Hlen. lia.
Qed.

Lemma skip_fresh vals fuel n : length vals < fuel -> ~ In (dec (skip fuel n vals)) vals.
Proof.
  intros H. destruct (skip_fresh_aux vals fuel n (exists_fresh vals fuel n H)) as [H1 _].
  apply lmem_false, H1.
Qed.

(* ------------------------------------------------------------------ dictionaries *)
Lemma dict_get_In m k v : dict_get m k = Some v -> In (k, v) m.
Proof.
  induction m as [|[k' v'] m IH]; simpl; [discriminate|].
  peq k' k; [intros H; inversion H; subst; auto|auto].
Qed.
Lemma dict_set_same m k v : dict_get (dict_set m k v) k = Some v.
Proof.
  induction m as [|[k' v'] m IH]; simpl; [rewrite pt_eqb_refl; reflexivity|].
  destruct (pt_eqb k' k) eqn:E; simpl; rewrite E; [reflexivity|exact IH].
Qed.
Lemma dict_set_other m k v k' : k' <> k -> dict_get (dict_set m k v) k' = dict_get m k'.
Proof.
  intros Hk. induction m as [|[k0 v0] m IH]; simpl.
  - peq k k'; [congruence|reflexivity].
  - peq k0 k; simpl.
    + subst k0. peq k k'; [congruence|reflexivity].
    + rewrite IH. reflexivity.
Qed.
Lemma dict_set_In m k v k' v' : In (k', v') (dict_set m k v) -> In (k', v') m \/ (k', v') = (k, v).
Proof.
  induction m as [|[k0 v0] m IH]; simpl; [intros [H|[]]; auto|].
  peq k0 k; simpl.
  - subst k0. intros [H|H]; auto.
  - intros [H|H]; [auto|]. destruct (IH H); auto.
Qed.
Lemma dict_has_spec m k : dict_has m k = true <-> exists v, dict_get m k = Some v.
Proof. unfold dict_has. destruct (dict_get m k) as [v|]; split; [eauto|reflexivity|discriminate|intros [v H]; discriminate]. Qed.
Lemma dict_set_has m k v k' : dict_has m k' = true \/ k' = k -> dict_has (dict_set m k v) k' = true.
Proof.
  intros H. apply dict_has_spec. peq k' k.
  - subst. rewrite dict_set_same. eauto.
  - rewrite dict_set_other by assumption. destruct H as [H|H]; [apply dict_has_spec, H|contradiction].
Qed.

(* distinct keys carry distinct values *)
Definition dict_inj (m : pdict) : Prop := forall k1 k2 v, In (k1, v) m -> In (k2, v) m -> k1 = k2.

Lemma dict_set_inj m k v : dict_inj m -> ~ In v (map snd m) -> dict_inj (dict_set m k v).
Proof.
  intros Hm Hv k1 k2 v' H1 H2. apply dict_set_In in H1. apply dict_set_In in H2.
  destruct H1 as [H1|H1]; destruct H2 as [H2|H2].
  - apply (Hm k1 k2 v'); assumption.
  - inversion H2; subst. exfalso. apply Hv. apply in_map_iff. exists (k1, v). auto.
  - inversion H1; subst. exfalso. apply Hv. apply in_map_iff. exists (k2, v). auto.
  - congruence.
Qed.

(* ------------------------------------------------------------------ the numbering loop *)
Lemma assign_inj ps : forall n m, dict_inj m -> dict_inj (assign ps n m).
Proof.
  induction ps as [|p ps IH]; intros n m H; [exact H|].
  change (assign (p :: ps) n m) with (assign ps (skip (S (length m)) n (map snd m)) (dict_set m p (dec (skip (S (length m)) n (map snd m))))).
  apply IH. apply dict_set_inj; [exact H|]. apply skip_fresh. rewrite map_length. lia.
Qed.

Lemma assign_has ps : forall n m k, In k ps \/ dict_has m k = true -> dict_has (assign ps n m) k = true.
Proof.
  induction ps as [|p ps IH]; intros n m k H; simpl.
  - destruct H as [[]|H]; exact H.
  - apply IH. destruct H as [[->|H]|H]; [right; apply dict_set_has; auto|left; exact H|right; apply dict_set_has; auto].
Qed.

Lemma assign_get_old ps : forall n m k, ~ In k ps -> dict_get (assign ps n m) k = dict_get m k.
Proof.
  induction ps as [|p ps IH]; intros n m k H; simpl; [reflexivity|].
  rewrite IH by (intros H'; apply H; right; exact H').
  apply dict_set_other. intros ->. apply H. left; reflexivity.
Qed.

(* ------------------------------------------------------------------ the labelled part of the dictionary *)
Section FoldSet.
Context {A : Type}.
Variable key : A -> point.
Variable val : A -> label.

Lemma fold_set_In es : forall m k v, In (k, v) (fold_left (fun m e => dict_set m (key e) (val e)) es m) ->
  In (k, v) m \/ exists e, In e es /\ k = key e /\ v = val e.
Proof.
  induction es as [|e es IH]; intros m k v H; simpl in H; [auto|].
  destruct (IH _ _ _ H) as [H1|[e' [H1 H2]]].
  - apply dict_set_In in H1. destruct H1 as [H1|H1]; [auto|]. inversion H1; subst. right. exists e. simpl; auto.
  - right. exists e'. simpl; auto.
Qed.

(* the value found under a key is that of the LAST element with this key *)
Lemma fold_set_get es : forall m k,
  dict_get (fold_left (fun m e => dict_set m (key e) (val e)) es m) k
  = fold_left (fun acc e => if pt_eqb (key e) k then Some (val e) else acc) es (dict_get m k).
Proof.
  induction es as [|e es IH]; intros m k; simpl; [reflexivity|].
  rewrite IH. f_equal. peq (key e) k.
  - subst k. apply dict_set_same.
  - apply dict_set_other. congruence.
Qed.

Lemma fold_last_const es k v : forall acc,
  (acc = Some v \/ exists e, In e es /\ key e = k) -> (forall e, In e es -> key e = k -> val e = v) ->
  fold_left (fun acc e => if pt_eqb (key e) k then Some (val e) else acc) es acc = Some v.
Proof.
  induction es as [|e es IH]; intros acc H Hv; simpl.
  - destruct H as [H|[e [[] _]]]. exact H.
  - apply IH; [|intros e' He'; apply Hv; right; exact He'].
    peq (key e) k.
    + left. f_equal. apply Hv; [left; reflexivity|assumption].
    + destruct H as [H|[e' [[<-|He'] Hk]]]; [left; exact H|contradiction|right; exists e'; auto].
Qed.

(* two key functions that agree on "key e = k" give the same lookup *)
Lemma fold_last_ext (key' : A -> point) es k k' : (forall e, In e es -> pt_eqb (key e) k = pt_eqb (key' e) k') ->
  forall acc, fold_left (fun acc e => if pt_eqb (key e) k then Some (val e) else acc) es acc
            = fold_left (fun acc e => if pt_eqb (key' e) k' then Some (val e) else acc) es acc.
Proof.
  induction es as [|e es IH]; intros H acc; simpl; [reflexivity|].
  rewrite (H e (or_introl eq_refl)). apply IH. intros e' He'. apply H. right; exact He'.
Qed.
End FoldSet.

Lemma fold_test_ext {A} (val : A -> label) (t t' : A -> bool) es : (forall e, In e es -> t e = t' e) ->
  forall acc, fold_left (fun acc e => if t e then Some (val e) else acc) es acc
            = fold_left (fun acc e => if t' e then Some (val e) else acc) es acc.
Proof.
  induction es as [|e es IH]; intros H acc; simpl; [reflexivity|].
  rewrite (H e (or_introl eq_refl)). apply IH. intros e' He'. apply H. right; exact He'.
Qed.

Lemma fold_test_some {A} (val : A -> label) (t : A -> bool) es : forall acc,
  (acc <> None \/ exists e, In e es /\ t e = true) ->
  fold_left (fun acc e => if t e then Some (val e) else acc) es acc <> None.
Proof.
  induction es as [|e es IH]; intros acc H; simpl.
  - destruct H as [H|[e [[] _]]]. exact H.
  - apply IH. destruct (t e) eqn:E; [left; discriminate|].
    destruct H as [H|[e' [[<-|He'] Ht]]]; [left; exact H|congruence|right; exists e'; auto].
Qed.

Lemma fold_test_const {A} (val : A -> label) (t : A -> bool) es v : forall acc,
  (acc = Some v \/ exists e, In e es /\ t e = true) -> (forall e, In e es -> t e = true -> val e = v) ->
  fold_left (fun acc e => if t e then Some (val e) else acc) es acc = Some v.
Proof.
  induction es as [|e es IH]; intros acc H Hv; simpl.
  - destruct H as [H|[e [[] _]]]. exact H.
  - apply IH; [|intros e' He'; apply Hv; right; exact He'].
    destruct (t e) eqn:E.
    + left. f_equal. apply Hv; [left; reflexivity|exact E].
    + destruct H as [H|[e' [[<-|He'] Ht]]]; [left; exact H|congruence|right; exists e'; auto].
Qed.

(* ------------------------------------------------------------------ the labelling *)
(* the label symbols of p's class, last one wins: independent of every iteration order *)
Definition last_label (d : drawing) (p : point) : option label :=
  fold_left (fun acc e => if connectedb d p (s_start e) then Some (s_node_id e) else acc) (node_elements d) None.

(* distinct classes carry distinct label texts *)
Definition labels_consistent (d : drawing) : Prop :=
  forall e1 e2, In e1 (node_elements d) -> In e2 (node_elements d) -> s_node_id e1 = s_node_id e2 ->
                connected d (s_start e1) (s_start e2).
(* at most one label text per class *)
Definition labels_functional (d : drawing) : Prop :=
  forall e1 e2, In e1 (node_elements d) -> In e2 (node_elements d) -> connected d (s_start e1) (s_start e2) ->
                s_node_id e1 = s_node_id e2.

Section Labelling.
Variable d : drawing.
Variables oa ou : list point.
Hypothesis Hoa : enum oa (all_nodes d).
Hypothesis Hou : enum ou (unique_nodes d oa).

Lemma index_unfold p : In p (all_nodes d) ->
  get_node_index d oa ou p = dict_get (node_label_mapping d oa ou) (rep d oa p).
Proof.
  intros Hp. unfold get_node_index, unique_node_mapping. apply pmem_spec in Hp. rewrite Hp. reflexivity.
Qed.

Lemma index_outside p : ~ In p (all_nodes d) -> get_node_index d oa ou p = None.
Proof.
  intros Hp. unfold get_node_index, unique_node_mapping. apply pmem_false in Hp. rewrite Hp. reflexivity.
Qed.

Lemma labelled_lookup p : In p (all_nodes d) -> dict_get (labelled d oa) (rep d oa p) = last_label d p.
Proof.
  intros Hp. unfold labelled, last_label.
  rewrite (fold_set_get (fun e => rep d oa (s_start e)) s_node_id). simpl.
  apply fold_test_ext. intros e He. pose proof (node_elements_in_all d e He) as Hin.
  pose proof (rep_eq_iff d oa Hoa (s_start e) p Hin Hp) as Hiff.
  peq (rep d oa (s_start e)) (rep d oa p); destruct (connectedb_spec d p (s_start e)) as [Hc|Hc]; try reflexivity.
  - exfalso. apply Hc. apply connected_sym. tauto.
  - exfalso. apply connected_sym in Hc. tauto.
Qed.

Lemma mapping_lookup_old k : dict_has (labelled d oa) k = true ->
  dict_get (node_label_mapping d oa ou) k = dict_get (labelled d oa) k.
Proof.
  intros H. unfold node_label_mapping. apply assign_get_old. intros Hin. apply filter_In in Hin.
  destruct Hin as [_ Hin]. rewrite H in Hin. discriminate.
Qed.

(* a class that carries label symbols is named by the last of them *)
Theorem index_labelled p l : In p (all_nodes d) -> last_label d p = Some l -> get_node_index d oa ou p = Some l.
Proof.
  intros Hp Hl. rewrite index_unfold by exact Hp.
  assert (Hg : dict_get (labelled d oa) (rep d oa p) = Some l) by (rewrite labelled_lookup by exact Hp; exact Hl).
  rewrite mapping_lookup_old; [exact Hg|]. apply dict_has_spec. exists l. exact Hg.
Qed.

(* every point of the drawing gets a label *)
Theorem index_total p : In p (all_nodes d) -> exists l, get_node_index d oa ou p = Some l.
Proof.
  intros Hp. rewrite index_unfold by exact Hp. apply dict_has_spec. unfold node_label_mapping.
  destruct (rep_spec d oa Hoa p Hp) as [Hu _]. apply Hou in Hu.
  apply assign_has. destruct (dict_has (labelled d oa) (rep d oa p)) eqn:E; [right; reflexivity|].
  left. apply filter_In. rewrite E. auto.
Qed.

(* connected points get the same label *)
Theorem index_connected p q : In p (all_nodes d) -> In q (all_nodes d) -> connected d p q ->
  get_node_index d oa ou p = get_node_index d oa ou q.
Proof.
  intros Hp Hq H. rewrite !index_unfold by assumption. f_equal. apply rep_eq_iff; assumption.
Qed.

Lemma labelled_inj : labels_consistent d -> dict_inj (labelled d oa).
Proof.
  intros Hc k1 k2 v H1 H2. unfold labelled in *.
  apply (fold_set_In (fun e => rep d oa (s_start e)) s_node_id) in H1, H2.
  destruct H1 as [[]|[e1 [He1 [-> Hv1]]]]. destruct H2 as [[]|[e2 [He2 [-> Hv2]]]].
  apply rep_eq_iff; [exact Hoa|apply node_elements_in_all; exact He1|apply node_elements_in_all; exact He2|].
  apply Hc; [exact He1|exact He2|congruence].
Qed.

Lemma mapping_inj : labels_consistent d -> dict_inj (node_label_mapping d oa ou).
Proof. intros Hc. unfold node_label_mapping. apply assign_inj, labelled_inj, Hc. Qed.

(* distinct classes get distinct labels: the skip loop never reuses a label text *)
Theorem index_injective p q : labels_consistent d -> In p (all_nodes d) -> In q (all_nodes d) ->
  get_node_index d oa ou p = get_node_index d oa ou q -> connected d p q.
Proof.
  intros Hc Hp Hq H. destruct (index_total p Hp) as [l Hl]. rewrite Hl in H. symmetry in H.
  rewrite index_unfold in Hl, H by assumption. apply dict_get_In in Hl, H.
  apply (rep_eq_iff d oa Hoa p q Hp Hq). apply (mapping_inj Hc _ _ l); assumption.
Qed.

(* a label / ground symbol names the class it sits on, provided no other text sits on the same class *)
Theorem index_label e p : In e (node_elements d) ->
  (forall e', In e' (node_elements d) -> connected d (s_start e) (s_start e') -> s_node_id e' = s_node_id e) ->
  In p (all_nodes d) -> connected d p (s_start e) -> get_node_index d oa ou p = Some (s_node_id e).
Proof.
  intros He Hone Hp Hc. apply index_labelled; [exact Hp|]. unfold last_label. apply fold_test_const.
  - right. exists e. split; [exact He|]. destruct (connectedb_spec d p (s_start e)); [reflexivity|contradiction].
  - intros e' He' Ht. apply Hone; [exact He'|]. destruct (connectedb_spec d p (s_start e')) as [H|H]; [|discriminate].
    apply connected_trans with p; [apply connected_sym, Hc|exact H].
Qed.
End Labelling.

Lemma last_label_some d p : (exists e, In e (node_elements d) /\ connected d p (s_start e)) -> last_label d p <> None.
Proof.
  intros [e [He Hc]]. unfold last_label. apply fold_test_some. right. exists e. split; [exact He|].
  destruct (connectedb_spec d p (s_start e)); [reflexivity|contradiction].
Qed.

Lemma fold_test_none {A} (val : A -> label) (t : A -> bool) es : (forall e, In e es -> t e = false) ->
  forall acc, fold_left (fun acc e => if t e then Some (val e) else acc) es acc = acc.
Proof.
  induction es as [|e es IH]; intros H acc; simpl; [reflexivity|].
  rewrite (H e (or_introl eq_refl)). apply IH. intros e' He'. apply H. right; exact He'.
Qed.

Definition labelled_class (d : drawing) (p : point) : Prop :=
  exists e, In e (node_elements d) /\ connected d p (s_start e).

Lemma last_label_none d p : ~ labelled_class d p -> last_label d p = None.
Proof.
  intros H. unfold last_label. apply fold_test_none. intros e He.
  destruct (connectedb_spec d p (s_start e)) as [Hc|Hc]; [|reflexivity]. exfalso. apply H. exists e. auto.
Qed.

Lemma last_label_functional d p e : labels_functional d -> In e (node_elements d) -> connected d p (s_start e) ->
  last_label d p = Some (s_node_id e).
Proof.
  intros Hf He Hc. unfold last_label. apply fold_test_const.
  - right. exists e. split; [exact He|]. destruct (connectedb_spec d p (s_start e)); [reflexivity|contradiction].
  - intros e' He' Ht. destruct (connectedb_spec d p (s_start e')) as [H|H]; [|discriminate].
    apply Hf; [exact He'|exact He|]. apply connected_trans with p; [apply connected_sym, H|exact Hc].
Qed.

(* ------------------------------------------------------------------ ground *)
Theorem ground_label_one d oa ou g : filter is_ground_sym (node_elements d) = [g] ->
  ground_label d oa ou = match get_node_index d oa ou (s_start g) with Some l => Ok l | None => Err EKeyError end.
Proof. intros H. unfold ground_label, ground. rewrite H. reflexivity. Qed.

Theorem ground_label_many d oa ou : 1 < length (filter is_ground_sym (node_elements d)) ->
  ground_label d oa ou = Err EMultipleGround.
Proof. intros H. unfold ground_label, ground. apply Nat.ltb_lt in H. rewrite H. reflexivity. Qed.

(* without a ground symbol the reference is whatever unique_nodes happens to enumerate first *)
Theorem ground_label_none d oa ou : filter is_ground_sym (node_elements d) = [] ->
  ground_label d oa ou = match ou with
                         | [] => Err EIndex
                         | u :: _ => match get_node_index d oa ou u with Some l => Ok l | None => Err EKeyError end
                         end.
Proof. intros H. unfold ground_label, ground. rewrite H. simpl. destruct ou; reflexivity. Qed.

Theorem ground_label_named d oa ou g : enum oa (all_nodes d) -> enum ou (unique_nodes d oa) ->
  filter is_ground_sym (node_elements d) = [g] ->
  (forall e', In e' (node_elements d) -> connected d (s_start g) (s_start e') -> s_node_id e' = s_node_id g) ->
  ground_label d oa ou = Ok (s_node_id g).
Proof.
  intros Hoa Hou Hg Hone. rewrite (ground_label_one d oa ou g Hg).
  assert (Hin : In g (node_elements d)).
  { assert (H : In g (filter is_ground_sym (node_elements d))) by (rewrite Hg; left; reflexivity).
    apply filter_In in H. tauto. }
  rewrite (index_label d oa ou Hoa g (s_start g) Hin Hone (node_elements_in_all d g Hin) (connected_refl d _)).
  reflexivity.
Qed.

(* ------------------------------------------------------------------ translation of one symbol *)
Theorem translate_source idx s k a b : translator_of (s_class s) = Some (TSource k) ->
  idx (s_start s) = Some a -> idx (s_end s) = Some b ->
  translate_symbol idx s = Ok (Some {| c_kind := k; c_id := s_name s;
                                       c_nodes := if s_reverse s then [b; a] else [a; b]; c_neg := false |}).
Proof.
  intros Ht Ha Hb. unfold translate_symbol. rewrite Ht, Ha, Hb. simpl. rewrite xorb_nilpotent. reflexivity.
Qed.

(* Real{Current,Voltage}Source: terminals swapped AND value negated — electrically the unreversed source *)
Theorem translate_real_source idx s k a b : translator_of (s_class s) = Some (TRealSource k) ->
  idx (s_start s) = Some a -> idx (s_end s) = Some b ->
  translate_symbol idx s = Ok (Some {| c_kind := k; c_id := s_name s;
                                       c_nodes := if s_reverse s then [b; a] else [a; b]; c_neg := s_reverse s |}).
Proof. intros Ht Ha Hb. unfold translate_symbol. rewrite Ht, Ha, Hb. simpl. destruct (s_reverse s); reflexivity. Qed.

Theorem translate_passive idx s k a b : translator_of (s_class s) = Some (TPassive k) ->
  idx (s_start s) = Some a -> idx (s_end s) = Some b ->
  translate_symbol idx s = Ok (Some {| c_kind := k; c_id := s_name s; c_nodes := [a; b]; c_neg := false |}).
Proof. intros Ht Ha Hb. unfold translate_symbol. rewrite Ht, Ha, Hb. reflexivity. Qed.

(* the whole list: one component per translatable symbol, in drawing order, terminals named by the labelling *)
Definition component_of (lab : point -> label) (s : symbol) : option component :=
  match translator_of (s_class s) with
  | Some t => apply_translator t s (lab (s_start s)) (lab (s_end s))
  | None => None
  end.
Fixpoint omap {A B} (f : A -> option B) (l : list A) : list B :=
  match l with [] => [] | a :: r => match f a with Some b => b :: omap f r | None => omap f r end end.

Lemma translate_all_ok idx lab d :
  (forall s, In s d -> translator_of (s_class s) <> None /\ idx (s_start s) = Some (lab (s_start s))
                       /\ idx (s_end s) = Some (lab (s_end s))) ->
  translate_all idx d = Ok (omap (component_of lab) d).
Proof.
  induction d as [|s d IH]; intros H; simpl; [reflexivity|].
  destruct (H s (or_introl eq_refl)) as [Ht [Ha Hb]].
  rewrite IH by (intros s' Hs'; apply H; right; exact Hs').
  unfold translate_symbol, component_of. rewrite Ha, Hb.
  destruct (translator_of (s_class s)) as [t|]; [|congruence]. simpl.
  destruct (apply_translator t s (lab (s_start s)) (lab (s_end s))); reflexivity.
Qed.

Definition label_of (d : drawing) (oa ou : list point) (p : point) : label :=
  match get_node_index d oa ou p with Some l => l | None => [] end.

Theorem components_spec d oa ou : enum oa (all_nodes d) -> enum ou (unique_nodes d oa) ->
  (forall s, In s d -> in_scope (s_class s) = true /\ translator_of (s_class s) <> None) ->
  components d oa ou = Ok (omap (component_of (label_of d oa ou)) d).
Proof.
  intros Hoa Hou Hd. unfold components. apply translate_all_ok. intros s Hs. destruct (Hd s Hs) as [H1 H2].
  split; [exact H2|]. unfold label_of.
  assert (Ha : In (s_start s) (all_nodes d)) by (apply all_nodes_In; exists s; auto).
  assert (Hb : In (s_end s) (all_nodes d)) by (apply all_nodes_In; exists s; auto).
  destruct (index_total d oa ou Hoa Hou _ Ha) as [la Hla]. destruct (index_total d oa ou Hoa Hou _ Hb) as [lb Hlb].
  rewrite Hla, Hlb. auto.
Qed.

(* a class without translator makes the whole translation fail *)
Theorem components_unknown idx d s : In s d -> translator_of (s_class s) = None -> translate_all idx d = Err EUnknownComponent.
Proof.
  induction d as [|s' d IH]; intros Hs Ht; [destruct Hs|]. simpl. destruct Hs as [->|Hs].
  - unfold translate_symbol. rewrite Ht. reflexivity.
  - unfold translate_symbol at 1.
    destruct (translator_of (s_class s')), (idx (s_start s')), (idx (s_end s')); simpl; try reflexivity.
    rewrite (IH Hs Ht). reflexivity.
Qed.

(* ------------------------------------------------------------------ transfer between two drawings *)
Section Transfer.
Variables d d' : drawing.
Variable f : point -> point.
Variables oa ou oa' ou' : list point.
Hypothesis Hoa : enum oa (all_nodes d).
Hypothesis Hou : enum ou (unique_nodes d oa).
Hypothesis Hoa' : enum oa' (all_nodes d').
Hypothesis Hou' : enum ou' (unique_nodes d' oa').
Hypothesis Hall : forall p, In p (all_nodes d) -> In (f p) (all_nodes d').
Hypothesis Hconn : forall p q, In p (all_nodes d) -> In q (all_nodes d) -> (connected d' (f p) (f q) <-> connected d p q).
Hypothesis Hlast : forall p, In p (all_nodes d) -> last_label d' (f p) = last_label d p.

(* classes carrying label symbols keep their names *)
Lemma transfer_labelled p : In p (all_nodes d) -> last_label d p <> None ->
  get_node_index d' oa' ou' (f p) = get_node_index d oa ou p.
Proof.
  intros Hp Hl. destruct (last_label d p) as [l|] eqn:E; [|congruence].
  rewrite (index_labelled d oa ou Hoa p l Hp E).
  apply index_labelled; [exact Hoa'|apply Hall, Hp|]. rewrite Hlast by exact Hp. exact E.
Qed.

(* and both labellings identify exactly the same points *)
Lemma transfer_partition p q : labels_consistent d -> labels_consistent d' -> In p (all_nodes d) -> In q (all_nodes d) ->
  (get_node_index d' oa' ou' (f p) = get_node_index d' oa' ou' (f q)
   <-> get_node_index d oa ou p = get_node_index d oa ou q).
Proof.
  intros Hc Hc' Hp Hq. split; intros H.
  - apply index_connected; try assumption. apply Hconn; try assumption.
    apply (index_injective d' oa' ou' Hoa' Hou' _ _ Hc' (Hall p Hp) (Hall q Hq) H).
  - apply index_connected; try assumption; try (apply Hall; assumption). apply Hconn; try assumption.
    apply (index_injective d oa ou Hoa Hou _ _ Hc Hp Hq H).
Qed.
End Transfer.

(* ------------------------------------------------------------------ 1. the set iteration orders *)
Theorem order_independent d oa ou oa' ou' :
  enum oa (all_nodes d) -> enum ou (unique_nodes d oa) -> enum oa' (all_nodes d) -> enum ou' (unique_nodes d oa') ->
  (forall p, In p (all_nodes d) -> labelled_class d p -> get_node_index d oa' ou' p = get_node_index d oa ou p) /\
  (labels_consistent d -> forall p q, In p (all_nodes d) -> In q (all_nodes d) ->
     (get_node_index d oa' ou' p = get_node_index d oa' ou' q <-> get_node_index d oa ou p = get_node_index d oa ou q)).
Proof.
  intros Hoa Hou Hoa' Hou'. split.
  - intros p Hp Hl. apply (transfer_labelled d d (fun x => x) oa ou oa' ou'); auto. apply last_label_some, Hl.
  - intros Hc p q Hp Hq. apply (transfer_partition d d (fun x => x) oa ou oa' ou'); auto; tauto.
Qed.

(* ------------------------------------------------------------------ 2. the insertion order of the symbols *)
Section SameSet.
Variables d d' : drawing.
Hypothesis Hdd : forall s, In s d <-> In s d'.

Lemma sameset_all p : In p (all_nodes d) <-> In p (all_nodes d').
Proof. rewrite !all_nodes_In. split; intros [s [H1 H2]]; exists s; (split; [apply Hdd; exact H1|exact H2]). Qed.

Lemma sameset_wires w : In w (wires d) <-> In w (wires d').
Proof. destruct w as [a b]. rewrite !wires_In. split; intros [s [H1 H2]]; exists s; (split; [apply Hdd; exact H1|exact H2]). Qed.

Lemma sameset_connected p q : connected d p q <-> connected d' p q.
Proof. split; apply conn_mono; intros w Hw; apply sameset_wires, Hw. Qed.

Lemma sameset_nodes e : In e (node_elements d) <-> In e (node_elements d').
Proof. unfold node_elements. rewrite !filter_In. rewrite Hdd. tauto. Qed.

Lemma sameset_consistent : labels_consistent d -> labels_consistent d'.
Proof. intros H e1 e2 H1 H2 E. apply sameset_connected. apply H; [apply sameset_nodes; exact H1|apply sameset_nodes; exact H2|exact E]. Qed.

Lemma sameset_functional : labels_functional d -> labels_functional d'.
Proof. intros H e1 e2 H1 H2 E. apply H; [apply sameset_nodes; exact H1|apply sameset_nodes; exact H2|apply sameset_connected; exact E]. Qed.

Lemma sameset_last p : labels_functional d -> last_label d' p = last_label d p.
Proof.
  intros Hf. destruct (existsb (fun e => connectedb d p (s_start e)) (node_elements d)) eqn:E.
  - apply existsb_exists in E. destruct E as [e [He Hc]].
    destruct (connectedb_spec d p (s_start e)) as [Hc'|]; [|discriminate].
    rewrite (last_label_functional d p e Hf He Hc').
    apply last_label_functional; [apply sameset_functional, Hf|apply sameset_nodes, He|apply sameset_connected, Hc'].
  - assert (Hn : ~ labelled_class d p).
    { intros [e [He Hc]]. assert (existsb (fun e => connectedb d p (s_start e)) (node_elements d) = true); [|congruence].
      apply existsb_exists. exists e. split; [exact He|]. destruct (connectedb_spec d p (s_start e)); [reflexivity|contradiction]. }
    rewrite (last_label_none d p Hn). apply last_label_none. intros [e [He Hc]]. apply Hn. exists e.
    split; [apply sameset_nodes, He|apply sameset_connected, Hc].
Qed.
End SameSet.

Theorem perm_independent d d' oa ou oa' ou' : Permutation d d' ->
  enum oa (all_nodes d) -> enum ou (unique_nodes d oa) -> enum oa' (all_nodes d') -> enum ou' (unique_nodes d' oa') ->
  (forall p, In p (all_nodes d) <-> In p (all_nodes d')) /\
  (forall p q, connected d p q <-> connected d' p q) /\
  (labels_functional d -> forall p, In p (all_nodes d) -> labelled_class d p ->
     get_node_index d' oa' ou' p = get_node_index d oa ou p) /\
  (labels_functional d -> labels_consistent d -> forall p q, In p (all_nodes d) -> In q (all_nodes d) ->
     (get_node_index d' oa' ou' p = get_node_index d' oa' ou' q <-> get_node_index d oa ou p = get_node_index d oa ou q)).
Proof.
  intros HP Hoa Hou Hoa' Hou'.
  assert (Hdd : forall s, In s d <-> In s d') by (intros s; split; apply Permutation_in; [exact HP|symmetry; exact HP]).
  split; [apply sameset_all, Hdd|]. split; [apply sameset_connected, Hdd|]. split.
  - intros Hf p Hp Hl. apply (transfer_labelled d d' (fun x => x) oa ou oa' ou'); auto.
    + intros x Hx. apply (sameset_all d d' Hdd), Hx.
    + intros x Hx. apply sameset_last; assumption.
    + apply last_label_some, Hl.
  - intros Hf Hc p q Hp Hq. apply (transfer_partition d d' (fun x => x) oa ou oa' ou'); auto.
    + intros x Hx. apply (sameset_all d d' Hdd), Hx.
    + intros x y _ _. symmetry. apply sameset_connected, Hdd.
    + apply (sameset_consistent d d' Hdd Hc).
Qed.

(* ------------------------------------------------------------------ 3. maps of the plane *)
Definition map_symbol (f : point -> point) (s : symbol) : symbol :=
  {| s_class := s_class s; s_name := s_name s; s_reverse := s_reverse s;
     s_start := f (s_start s); s_end := f (s_end s); s_node_id := s_node_id s |}.
Definition map_drawing (f : point -> point) (d : drawing) : drawing := map (map_symbol f) d.

Lemma filter_map_comm {A B} (h : A -> B) (P : B -> bool) (Q : A -> bool) l :
  (forall a, P (h a) = Q a) -> filter P (map h l) = map h (filter Q l).
Proof.
  intros H. induction l as [|a l IH]; simpl; [reflexivity|]. rewrite H. destruct (Q a); simpl; rewrite IH; reflexivity.
Qed.

Lemma fold_left_map {A B C} (g : C -> B -> C) (h : A -> B) l : forall acc,
  fold_left g (map h l) acc = fold_left (fun acc a => g acc (h a)) l acc.
Proof. induction l as [|a l IH]; intros acc; simpl; [reflexivity|apply IH]. Qed.

Section PointMap.
Variable f : point -> point.
Variable d : drawing.
Hypothesis Hinj : forall a b, In a (all_nodes d) -> In b (all_nodes d) -> f a = f b -> a = b.

Lemma map_node_elements : node_elements (map_drawing f d) = map (map_symbol f) (node_elements d).
Proof. apply filter_map_comm. reflexivity. Qed.
Lemma map_line_elements : line_elements (map_drawing f d) = map (map_symbol f) (line_elements d).
Proof. apply filter_map_comm. reflexivity. Qed.

Lemma map_wires a' b' : In (a', b') (wires (map_drawing f d)) <-> exists a b, In (a, b) (wires d) /\ a' = f a /\ b' = f b.
Proof.
  unfold wires. rewrite map_line_elements, map_map. simpl. rewrite in_map_iff. split.
  - intros [s [E Hs]]. inversion E. exists (s_start s), (s_end s). split; [|auto]. apply in_map_iff. exists s. auto.
  - intros [a [b [H [-> ->]]]]. apply in_map_iff in H. destruct H as [s [E Hs]]. inversion E. exists s. auto.
Qed.

Lemma map_all p : In p (all_nodes d) -> In (f p) (all_nodes (map_drawing f d)).
Proof.
  rewrite !all_nodes_In. intros [s [H1 [H2 H3]]]. exists (map_symbol f s). split; [apply in_map, H1|]. split; [exact H2|].
  simpl. destruct H3 as [<-|<-]; auto.
Qed.

Lemma map_connected_fwd p q : connected d p q -> connected (map_drawing f d) (f p) (f q).
Proof.
  intros H. induction H as [p|a b H|a b H IH|a b c H1 IH1 H2 IH2];
    [apply conn_refl| |apply conn_sym, IH|apply conn_trans with (f b); assumption].
  apply conn_wire, map_wires. exists a, b. auto.
Qed.

Lemma map_connected_bwd x y : connected (map_drawing f d) x y ->
  (forall p, In p (all_nodes d) -> x = f p -> exists q, In q (all_nodes d) /\ y = f q /\ connected d p q) /\
  (forall q, In q (all_nodes d) -> y = f q -> exists p, In p (all_nodes d) /\ x = f p /\ connected d p q).
Proof.
  intros H. induction H as [x|x y H|x y H [IH1 IH2]|x y z H1 [IH1a IH1b] H2 [IH2a IH2b]].
  - split; intros p Hp E; exists p; (split; [exact Hp|split; [exact E|apply connected_refl]]).
  - apply map_wires in H. destruct H as [a [b [Hw [-> ->]]]]. destruct (wire_ends_in_all d a b Hw) as [Ha Hb]. split.
    + intros p Hp E. apply Hinj in E; [|exact Ha|exact Hp]. subst p. exists b. split; [exact Hb|]. split; [reflexivity|apply conn_wire, Hw].
    + intros q Hq E. apply Hinj in E; [|exact Hb|exact Hq]. subst q. exists a. split; [exact Ha|]. split; [reflexivity|apply conn_wire, Hw].
  - split.
    + intros p Hp E. destruct (IH2 p Hp E) as [q [Hq [E' Hc]]]. exists q. split; [exact Hq|]. split; [exact E'|apply connected_sym, Hc].
    + intros q Hq E. destruct (IH1 q Hq E) as [p [Hp [E' Hc]]]. exists p. split; [exact Hp|]. split; [exact E'|apply connected_sym, Hc].
  - split.
    + intros p Hp E. destruct (IH1a p Hp E) as [q [Hq [E' Hc]]]. destruct (IH2a q Hq E') as [r [Hr [E'' Hc']]].
      exists r. split; [exact Hr|]. split; [exact E''|apply connected_trans with q; assumption].
    + intros r Hr E. destruct (IH2b r Hr E) as [q [Hq [E' Hc]]]. destruct (IH1b q Hq E') as [p [Hp [E'' Hc']]].
      exists p. split; [exact Hp|]. split; [exact E''|apply connected_trans with q; assumption].
Qed.

Lemma map_connected p q : In p (all_nodes d) -> In q (all_nodes d) ->
  (connected (map_drawing f d) (f p) (f q) <-> connected d p q).
Proof.
  intros Hp Hq. split; [|apply map_connected_fwd].
  intros H. destruct (map_connected_bwd _ _ H) as [H1 _]. destruct (H1 p Hp eq_refl) as [q' [Hq' [E Hc]]].
  apply Hinj in E; [|exact Hq|exact Hq']. subst q'. exact Hc.
Qed.

Lemma map_last p : In p (all_nodes d) -> last_label (map_drawing f d) (f p) = last_label d p.
Proof.
  intros Hp. unfold last_label. rewrite map_node_elements, fold_left_map. simpl.
  apply fold_test_ext. intros e He. pose proof (node_elements_in_all d e He) as Hin.
  pose proof (map_connected p (s_start e) Hp Hin) as Hiff.
  destruct (connectedb_spec (map_drawing f d) (f p) (f (s_start e))), (connectedb_spec d p (s_start e)); tauto || reflexivity.
Qed.

Lemma map_consistent : labels_consistent d -> labels_consistent (map_drawing f d).
Proof.
  intros H e1 e2 H1 H2 E. rewrite map_node_elements in H1, H2. apply in_map_iff in H1, H2.
  destruct H1 as [s1 [<- H1]]. destruct H2 as [s2 [<- H2]]. simpl in *. apply map_connected_fwd. apply H; assumption.
Qed.
End PointMap.

Theorem point_map_invariant f d oa ou oa' ou' :
  (forall a b, In a (all_nodes d) -> In b (all_nodes d) -> f a = f b -> a = b) ->
  enum oa (all_nodes d) -> enum ou (unique_nodes d oa) ->
  enum oa' (all_nodes (map_drawing f d)) -> enum ou' (unique_nodes (map_drawing f d) oa') ->
  (forall p q, In p (all_nodes d) -> In q (all_nodes d) -> (connected (map_drawing f d) (f p) (f q) <-> connected d p q)) /\
  (forall p, In p (all_nodes d) -> labelled_class d p ->
     get_node_index (map_drawing f d) oa' ou' (f p) = get_node_index d oa ou p) /\
  (labels_consistent d -> forall p q, In p (all_nodes d) -> In q (all_nodes d) ->
     (get_node_index (map_drawing f d) oa' ou' (f p) = get_node_index (map_drawing f d) oa' ou' (f q)
      <-> get_node_index d oa ou p = get_node_index d oa ou q)).
Proof.
  intros Hinj Hoa Hou Hoa' Hou'. split; [apply map_connected, Hinj|]. split.
  - intros p Hp Hl. apply (transfer_labelled d (map_drawing f d) f oa ou oa' ou'); auto.
    + apply map_all.
    + apply map_last, Hinj.
    + apply last_label_some, Hl.
  - intros Hc p q Hp Hq. apply (transfer_partition d (map_drawing f d) f oa ou oa' ou'); auto.
    + apply map_all.
    + apply map_connected, Hinj.
    + apply map_consistent, Hc.
Qed.

(* ------------------------------------------------------------------ 4. splitting a wire at a fresh point *)
Definition set_end (s : symbol) (m : point) : symbol :=
  {| s_class := s_class s; s_name := s_name s; s_reverse := s_reverse s; s_start := s_start s; s_end := m; s_node_id := s_node_id s |}.
Definition set_start (s : symbol) (m : point) : symbol :=
  {| s_class := s_class s; s_name := s_name s; s_reverse := s_reverse s; s_start := m; s_end := s_end s; s_node_id := s_node_id s |}.
Definition subdivided (d1 : drawing) (w : symbol) (d2 : drawing) (m : point) : drawing :=
  d1 ++ set_end w m :: set_start w m :: d2.

Lemma wires_app x y : wires (x ++ y) = wires x ++ wires y.
Proof. unfold wires, line_elements. rewrite filter_app, map_app. reflexivity. Qed.
Lemma wires_cons_line s r : is_line s = true -> wires (s :: r) = (s_start s, s_end s) :: wires r.
Proof. intros H. unfold wires, line_elements. simpl. rewrite H. reflexivity. Qed.
Lemma is_line_not_node s : is_line s = true -> is_node s = false.
Proof. unfold is_line, is_node. intros H. apply N.eqb_eq in H. rewrite H. reflexivity. Qed.
Lemma node_elements_app x y : node_elements (x ++ y) = node_elements x ++ node_elements y.
Proof. unfold node_elements. apply filter_app. Qed.
Lemma node_elements_cons_line s r : is_line s = true -> node_elements (s :: r) = node_elements r.
Proof. intros H. unfold node_elements. simpl. rewrite (is_line_not_node s H). reflexivity. Qed.

Section Subdivide.
Variables d1 d2 : drawing.
Variable w : symbol.
Variable m : point.
Hypothesis Hw : is_line w = true.
Hypothesis Hm : ~ In m (all_nodes (d1 ++ w :: d2)).
Notation d := (d1 ++ w :: d2).
Notation d' := (subdivided d1 w d2 m).

Lemma sub_wires x y : In (x, y) (wires d') <->
  (In (x, y) (wires d1) \/ In (x, y) (wires d2)) \/ (x, y) = (s_start w, m) \/ (x, y) = (m, s_end w).
Proof.
  unfold subdivided. rewrite wires_app, !wires_cons_line by exact Hw. simpl.
  rewrite in_app_iff. simpl. split; [intros [H|[H|[H|H]]]; auto|intros [[H|H]|[H|H]]; auto].
Qed.
Lemma old_wires x y : In (x, y) (wires d) <-> (In (x, y) (wires d1) \/ In (x, y) (wires d2)) \/ (x, y) = (s_start w, s_end w).
Proof.
  rewrite wires_app, wires_cons_line by exact Hw. rewrite in_app_iff. simpl.
  split; [intros [H|[H|H]]; auto|intros [[H|H]|H]; auto].
Qed.

Lemma sub_all p : In p (all_nodes d') <-> In p (all_nodes d) \/ p = m.
Proof.
  rewrite !all_nodes_In. unfold subdivided. split.
  - intros [s [H1 [H2 H3]]]. apply in_app_or in H1. destruct H1 as [H1|[<-|[<-|H1]]].
    + left. exists s. split; [apply in_or_app; auto|auto].
    + simpl in *. destruct H3 as [H3|H3]; [|right; auto]. left. exists w. split; [apply in_or_app; simpl; auto|auto].
    + simpl in *. destruct H3 as [H3|H3]; [right; auto|]. left. exists w. split; [apply in_or_app; simpl; auto|auto].
    + left. exists s. split; [apply in_or_app; simpl; auto|auto].
  - intros [[s [H1 [H2 H3]]]| ->].
    + apply in_app_or in H1. destruct H1 as [H1|[<-|H1]].
      * exists s. split; [apply in_or_app; auto|auto].
      * destruct H3 as [H3|H3].
        -- exists (set_end w m). split; [apply in_or_app; simpl; auto|simpl; auto].
        -- exists (set_start w m). split; [apply in_or_app; simpl; auto|simpl; auto].
      * exists s. split; [apply in_or_app; simpl; auto|auto].
    + exists (set_end w m). split; [apply in_or_app; simpl; auto|]. split; [apply is_line_scope, Hw|simpl; auto].
Qed.

Lemma sub_connected_fwd p q : connected d p q -> connected d' p q.
Proof.
  intros H. induction H as [p|a b H|a b H IH|a b c H1 IH1 H2 IH2];
    [apply conn_refl| |apply conn_sym, IH|apply conn_trans with b; assumption].
  apply old_wires in H. destruct H as [H|H].
  - apply conn_wire, sub_wires. auto.
  - inversion H; subst. apply conn_trans with m; apply conn_wire, sub_wires; auto.
Qed.

Definition unsplit (x : point) : point := if pt_eqb x m then s_start w else x.

Lemma unsplit_old x : In x (all_nodes d) -> unsplit x = x.
Proof. intros H. unfold unsplit. peq x m; [subst; contradiction|reflexivity]. Qed.

Lemma sub_connected_bwd x y : connected d' x y -> connected d (unsplit x) (unsplit y).
Proof.
  intros H. induction H as [p|a b H|a b H IH|a b c H1 IH1 H2 IH2];
    [apply conn_refl| |apply conn_sym, IH|apply conn_trans with (unsplit b); assumption].
  assert (Hww : In (s_start w, s_end w) (wires d)) by (apply old_wires; auto).
  destruct (wire_ends_in_all _ _ _ Hww) as [Hsa Hsb].
  apply sub_wires in H. destruct H as [H|[H|H]].
  - assert (Hd : In (a, b) (wires d)) by (apply old_wires; auto).
    destruct (wire_ends_in_all _ _ _ Hd) as [Ha Hb]. rewrite !unsplit_old by assumption. apply conn_wire, Hd.
  - inversion H; subst. rewrite (unsplit_old _ Hsa). unfold unsplit. rewrite pt_eqb_refl. apply conn_refl.
  - inversion H; subst. rewrite (unsplit_old _ Hsb). unfold unsplit. rewrite pt_eqb_refl. apply conn_wire, Hww.
Qed.

Lemma sub_connected p q : In p (all_nodes d) -> In q (all_nodes d) -> (connected d' p q <-> connected d p q).
Proof.
  intros Hp Hq. split; [|apply sub_connected_fwd]. intros H. apply sub_connected_bwd in H.
  rewrite !unsplit_old in H by assumption. exact H.
Qed.

Lemma sub_new_point : connected d' m (s_start w).
Proof. apply conn_sym, conn_wire, sub_wires. auto. Qed.

Lemma sub_nodes : node_elements d' = node_elements d.
Proof.
  unfold subdivided. rewrite !node_elements_app. f_equal.
  rewrite !node_elements_cons_line by exact Hw. reflexivity.
Qed.

Lemma sub_last p : In p (all_nodes d) -> last_label d' p = last_label d p.
Proof.
  intros Hp. unfold last_label. rewrite sub_nodes. apply fold_test_ext. intros e He.
  pose proof (sub_connected p (s_start e) Hp (node_elements_in_all _ e He)) as Hiff.
  destruct (connectedb_spec d' p (s_start e)), (connectedb_spec d p (s_start e)); tauto || reflexivity.
Qed.

Lemma sub_consistent : labels_consistent d -> labels_consistent d'.
Proof. intros H e1 e2 H1 H2 E. rewrite sub_nodes in H1, H2. apply sub_connected_fwd. apply H; assumption. Qed.
End Subdivide.

Theorem subdivide_invariant d1 w d2 m oa ou oa' ou' :
  is_line w = true -> ~ In m (all_nodes (d1 ++ w :: d2)) ->
  enum oa (all_nodes (d1 ++ w :: d2)) -> enum ou (unique_nodes (d1 ++ w :: d2) oa) ->
  enum oa' (all_nodes (subdivided d1 w d2 m)) -> enum ou' (unique_nodes (subdivided d1 w d2 m) oa') ->
  (forall p q, In p (all_nodes (d1 ++ w :: d2)) -> In q (all_nodes (d1 ++ w :: d2)) ->
     (connected (subdivided d1 w d2 m) p q <-> connected (d1 ++ w :: d2) p q)) /\
  connected (subdivided d1 w d2 m) m (s_start w) /\
  (forall p, In p (all_nodes (d1 ++ w :: d2)) -> labelled_class (d1 ++ w :: d2) p ->
     get_node_index (subdivided d1 w d2 m) oa' ou' p = get_node_index (d1 ++ w :: d2) oa ou p) /\
  (labels_consistent (d1 ++ w :: d2) -> forall p q, In p (all_nodes (d1 ++ w :: d2)) -> In q (all_nodes (d1 ++ w :: d2)) ->
     (get_node_index (subdivided d1 w d2 m) oa' ou' p = get_node_index (subdivided d1 w d2 m) oa' ou' q
      <-> get_node_index (d1 ++ w :: d2) oa ou p = get_node_index (d1 ++ w :: d2) oa ou q)).
Proof.
  intros Hw Hm Hoa Hou Hoa' Hou'. split; [apply sub_connected; assumption|]. split; [apply sub_new_point, Hw|]. split.
  - intros p Hp Hl. apply (transfer_labelled (d1 ++ w :: d2) (subdivided d1 w d2 m) (fun x => x) oa ou oa' ou'); auto.
    + intros x Hx. apply sub_all; auto.
    + intros x Hx. apply sub_last; assumption.
    + apply last_label_some, Hl.
  - intros Hc p q Hp Hq. apply (transfer_partition (d1 ++ w :: d2) (subdivided d1 w d2 m) (fun x => x) oa ou oa' ou'); auto.
    + intros x Hx. apply sub_all; auto.
    + intros x y Hx Hy. apply sub_connected; assumption.
    + apply sub_consistent; assumption.
Qed.

(* ------------------------------------------------------------------ the executable order check *)
Lemma pnodup_true l : pnodup l = true -> NoDup l.
Proof.
  induction l as [|x l IH]; simpl; intros H; [constructor|]. apply andb_true_iff in H. destruct H as [H1 H2].
  constructor; [apply pmem_false; destruct (pmem x l); [discriminate|reflexivity]|apply IH, H2].
Qed.
Lemma enumerates_enum o s : enumerates o s = true -> enum o s /\ NoDup o.
Proof.
  unfold enumerates, same_set. intros H. apply andb_true_iff in H. destruct H as [H0 H]. apply andb_true_iff in H.
  destruct H as [H1 H2]. rewrite forallb_forall in H1, H2. split; [|apply pnodup_true, H0].
  intros x. split; intros Hx; apply pmem_spec; auto.
Qed.
Lemma orders_ok_enum d oa ou : orders_ok d oa ou = true -> enum oa (all_nodes d) /\ enum ou (unique_nodes d oa).
Proof.
  unfold orders_ok. intros H. apply andb_true_iff in H. destruct H as [H1 H2].
  split; [apply (enumerates_enum _ _ H1)|apply (enumerates_enum _ _ H2)].
Qed.

(* ------------------------------------------------------------------ packaging for Properties/C13.v *)
(* any fuel beyond #wires + 1 gives the same set: the Python while-loop (unbounded) has stopped by then *)
Lemma iterate_more ws fuel k X : unsat ws X < fuel -> iterate ws (fuel + k) X = iterate ws fuel X.
Proof.
  intros H. induction k as [|k IH]; [rewrite Nat.add_0_r; reflexivity|].
  rewrite Nat.add_succ_r. rewrite iterate_stable by lia. exact IH.
Qed.
Theorem closure_fuel d p k : iterate (wires d) (S (length (wires d)) + k) [p] = equal_potential_nodes d p.
Proof. unfold equal_potential_nodes. apply iterate_more. pose proof (unsat_le (wires d) [p]). lia. Qed.

Definition same_label (d : drawing) (oa ou : list point) (p q : point) : Prop :=
  get_node_index d oa ou p = get_node_index d oa ou q.

Theorem mapping_eq_iff d oa p q : enum oa (all_nodes d) -> In p (all_nodes d) -> In q (all_nodes d) ->
  (unique_node_mapping d oa p = unique_node_mapping d oa q <-> connected d p q).
Proof.
  intros Hoa Hp Hq. unfold unique_node_mapping. pose proof Hp as Hp'. pose proof Hq as Hq'.
  apply pmem_spec in Hp', Hq'. rewrite Hp', Hq'. rewrite <- (rep_eq_iff d oa Hoa p q Hp Hq).
  split; [intros H; inversion H; reflexivity|intros ->; reflexivity].
Qed.

Theorem same_label_iff d oa ou p q : enum oa (all_nodes d) -> enum ou (unique_nodes d oa) -> labels_consistent d ->
  In p (all_nodes d) -> In q (all_nodes d) -> (same_label d oa ou p q <-> connected d p q).
Proof.
  intros Hoa Hou Hc Hp Hq. split; [apply index_injective; assumption|apply index_connected; assumption].
Qed.

Theorem unique_nodes_spec d oa : enum oa (all_nodes d) ->
  (forall u, In u (unique_nodes d oa) -> In u (all_nodes d)) /\
  (forall p, In p (all_nodes d) -> exists u, In u (unique_nodes d oa) /\ connected d p u) /\
  (forall u v, In u (unique_nodes d oa) -> In v (unique_nodes d oa) -> connected d u v -> u = v).
Proof.
  intros Hoa. split; [apply unique_sub, Hoa|]. split; [apply unique_exists, Hoa|apply unique_one_per_class, Hoa].
Qed.

(* two labellings that identify the same points differ by an injective renaming of the labels in use *)
Lemma renaming_exists (pts : list point) (L L' : point -> option label) :
  (forall p, In p pts -> exists l, L' p = Some l) ->
  (forall p q, In p pts -> In q pts -> (L' p = L' q <-> L p = L q)) ->
  exists f : label -> label,
    (forall p l, In p pts -> L p = Some l -> L' p = Some (f l)) /\
    (forall p q l l', In p pts -> In q pts -> L p = Some l -> L q = Some l' -> f l = f l' -> l = l').
Proof.
  intros Htot Hiff.
  set (test := fun l p => match L p with Some l0 => label_eqb l0 l | None => false end).
  set (f := fun l => match find (test l) pts with
                     | Some p => match L' p with Some l' => l' | None => l end
                     | None => l end).
  assert (Hf : forall p l, In p pts -> L p = Some l -> L' p = Some (f l)).
  { intros p l Hp Hl. unfold f. destruct (find (test l) pts) as [p0|] eqn:E.
    - apply find_some in E. destruct E as [Hp0 Ht]. unfold test in Ht.
      destruct (L p0) as [l0|] eqn:E0; [|discriminate]. destruct (label_eqb_spec l0 l) as [->|]; [|discriminate].
      assert (HL : L' p0 = L' p) by (apply Hiff; [exact Hp0|exact Hp|congruence]).
      destruct (Htot p0 Hp0) as [l' Hl']. rewrite Hl'. congruence.
    - exfalso. pose proof (find_none _ _ E p Hp) as Hn. unfold test in Hn. rewrite Hl, label_eqb_refl in Hn. discriminate. }
  exists f. split; [exact Hf|].
  intros p q l l' Hp Hq Hl Hl' E. pose proof (Hf p l Hp Hl) as H1. pose proof (Hf q l' Hq Hl') as H2.
  assert (HL : L p = L q) by (apply Hiff; [exact Hp|exact Hq|congruence]). congruence.
Qed.

Theorem order_independent_renaming d oa ou oa' ou' :
  enum oa (all_nodes d) -> enum ou (unique_nodes d oa) -> enum oa' (all_nodes d) -> enum ou' (unique_nodes d oa') ->
  labels_consistent d ->
  exists f : label -> label,
    (forall p l, In p (all_nodes d) -> get_node_index d oa ou p = Some l -> get_node_index d oa' ou' p = Some (f l)) /\
    (forall p q l l', In p (all_nodes d) -> In q (all_nodes d) -> get_node_index d oa ou p = Some l ->
       get_node_index d oa ou q = Some l' -> f l = f l' -> l = l') /\
    (forall p l, In p (all_nodes d) -> labelled_class d p -> get_node_index d oa ou p = Some l -> f l = l).
Proof.
  intros Hoa Hou Hoa' Hou' Hc. destruct (order_independent d oa ou oa' ou' Hoa Hou Hoa' Hou') as [H1 H2].
  destruct (renaming_exists (all_nodes d) (get_node_index d oa ou) (get_node_index d oa' ou')) as [f [Hf1 Hf2]].
  - intros p Hp. apply index_total; assumption.
  - intros p q Hp Hq. apply H2; assumption.
  - exists f. split; [exact Hf1|]. split; [exact Hf2|].
    intros p l Hp Hl E. pose proof (Hf1 p l Hp E) as E'. rewrite (H1 p Hp Hl), E in E'. congruence.
Qed.

(* ------------------------------------------------------------------ executable side conditions, concrete maps *)
Definition labels_consistentb (d : drawing) : bool :=
  forallb (fun e1 => forallb (fun e2 => implb (label_eqb (s_node_id e1) (s_node_id e2))
                                              (connectedb d (s_start e1) (s_start e2))) (node_elements d)) (node_elements d).
Definition labels_functionalb (d : drawing) : bool :=
  forallb (fun e1 => forallb (fun e2 => implb (connectedb d (s_start e1) (s_start e2))
                                              (label_eqb (s_node_id e1) (s_node_id e2))) (node_elements d)) (node_elements d).

Lemma labels_consistentb_ok d : labels_consistentb d = true -> labels_consistent d.
Proof.
  unfold labels_consistentb. rewrite forallb_forall. intros H e1 e2 H1 H2 E. specialize (H e1 H1).
  rewrite forallb_forall in H. specialize (H e2 H2). rewrite E, label_eqb_refl in H. simpl in H.
  destruct (connectedb_spec d (s_start e1) (s_start e2)); [assumption|discriminate].
Qed.
Lemma labels_functionalb_ok d : labels_functionalb d = true -> labels_functional d.
Proof.
  unfold labels_functionalb. rewrite forallb_forall. intros H e1 e2 H1 H2 E. specialize (H e1 H1).
  rewrite forallb_forall in H. specialize (H e2 H2).
  destruct (connectedb_spec d (s_start e1) (s_start e2)) as [_|Hn]; [|contradiction]. simpl in H.
  destruct (label_eqb_spec (s_node_id e1) (s_node_id e2)); [assumption|discriminate].
Qed.

(* quarter turn, translation, integer rescaling of the grid of hundredths *)
Definition rot90 (p : point) : point := ((- snd p)%Z, fst p).
Definition shift (dx dy : Z) (p : point) : point := ((fst p + dx)%Z, (snd p + dy)%Z).
Definition scale (k : Z) (p : point) : point := ((k * fst p)%Z, (k * snd p)%Z).

Lemma rot90_inj a b : rot90 a = rot90 b -> a = b.
Proof. destruct a as [x y], b as [x' y']. unfold rot90; simpl. intros H. inversion H. f_equal; lia. Qed.
Lemma shift_inj dx dy a b : shift dx dy a = shift dx dy b -> a = b.
Proof. destruct a as [x y], b as [x' y']. unfold shift; simpl. intros H. inversion H. f_equal; lia. Qed.
Lemma scale_inj k a b : k <> 0%Z -> scale k a = scale k b -> a = b.
Proof.
  destruct a as [x y], b as [x' y']. unfold scale; simpl. intros Hk H. inversion H.
  f_equal; eapply Z.mul_reg_l; eassumption.
Qed.

Theorem rotate_invariant d oa ou oa' ou' :
  enum oa (all_nodes d) -> enum ou (unique_nodes d oa) ->
  enum oa' (all_nodes (map_drawing rot90 d)) -> enum ou' (unique_nodes (map_drawing rot90 d) oa') ->
  (forall p q, In p (all_nodes d) -> In q (all_nodes d) -> (connected (map_drawing rot90 d) (rot90 p) (rot90 q) <-> connected d p q)) /\
  (forall p, In p (all_nodes d) -> labelled_class d p ->
     get_node_index (map_drawing rot90 d) oa' ou' (rot90 p) = get_node_index d oa ou p) /\
  (labels_consistent d -> forall p q, In p (all_nodes d) -> In q (all_nodes d) ->
     (get_node_index (map_drawing rot90 d) oa' ou' (rot90 p) = get_node_index (map_drawing rot90 d) oa' ou' (rot90 q)
      <-> get_node_index d oa ou p = get_node_index d oa ou q)).
Proof. apply point_map_invariant. intros a b _ _. apply rot90_inj. Qed.

Theorem shift_invariant dx dy d oa ou oa' ou' :
  enum oa (all_nodes d) -> enum ou (unique_nodes d oa) ->
  enum oa' (all_nodes (map_drawing (shift dx dy) d)) -> enum ou' (unique_nodes (map_drawing (shift dx dy) d) oa') ->
  (forall p q, In p (all_nodes d) -> In q (all_nodes d) ->
     (connected (map_drawing (shift dx dy) d) (shift dx dy p) (shift dx dy q) <-> connected d p q)) /\
  (forall p, In p (all_nodes d) -> labelled_class d p ->
     get_node_index (map_drawing (shift dx dy) d) oa' ou' (shift dx dy p) = get_node_index d oa ou p) /\
  (labels_consistent d -> forall p q, In p (all_nodes d) -> In q (all_nodes d) ->
     (get_node_index (map_drawing (shift dx dy) d) oa' ou' (shift dx dy p) = get_node_index (map_drawing (shift dx dy) d) oa' ou' (shift dx dy q)
      <-> get_node_index d oa ou p = get_node_index d oa ou q)).
Proof. apply point_map_invariant. intros a b _ _. apply shift_inj. Qed.

Theorem scale_invariant k d oa ou oa' ou' : k <> 0%Z ->
  enum oa (all_nodes d) -> enum ou (unique_nodes d oa) ->
  enum oa' (all_nodes (map_drawing (scale k) d)) -> enum ou' (unique_nodes (map_drawing (scale k) d) oa') ->
  (forall p q, In p (all_nodes d) -> In q (all_nodes d) ->
     (connected (map_drawing (scale k) d) (scale k p) (scale k q) <-> connected d p q)) /\
  (forall p, In p (all_nodes d) -> labelled_class d p ->
     get_node_index (map_drawing (scale k) d) oa' ou' (scale k p) = get_node_index d oa ou p) /\
  (labels_consistent d -> forall p q, In p (all_nodes d) -> In q (all_nodes d) ->
     (get_node_index (map_drawing (scale k) d) oa' ou' (scale k p) = get_node_index (map_drawing (scale k) d) oa' ou' (scale k q)
      <-> get_node_index d oa ou p = get_node_index d oa ou q)).
Proof. intros Hk. apply point_map_invariant. intros a b _ _. apply scale_inj, Hk. Qed.
