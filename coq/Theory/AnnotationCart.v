(* Theory/AnnotationCart.v — a reader for the compact Cartesian text  [-]a[+|-]jb | [-]a | [-]jb  and the proof
   that it reads back both parts of the value the complex adapter was given (Properties/C14.v, C14_agree). *)
From Coq Require Import List Bool ZArith NArith QArith Qabs Qpower Lia.
From CC Require Import Model.Network Theory.Labels Model.Format Theory.FormatThm Theory.FormatText Theory.FormatSig
  Model.Annotation Theory.AnnotationThm.
Import ListNotations.
Open Scope Z_scope.

(* ---------- the reader ---------- *)
Fixpoint split_j (s : label) : option (label * label) :=
  match s with
  | [] => None
  | c :: r => if (c =? 106)%N then Some ([], r)
              else match split_j r with Some (a, b) => Some (c :: a, b) | None => None end
  end.
Fixpoint unsnoc (l : label) : option (label * N) :=
  match l with
  | [] => None
  | c :: r => match r with
              | [] => Some ([], c)
              | _ => match unsnoc r with Some (a, x) => Some (c :: a, x) | None => None end
              end
  end.

(* real part (None: not shown), imaginary part (None: not shown; Some (negative, magnitude)) *)
Record cart := { c_re : option parsed; c_im : option (bool * parsed) }.

Definition parse_cartesian (t : table) (un s : label) : option cart :=
  match split_j s with
  | None => match parse true t un s with
            | Some r => Some {| c_re := Some r; c_im := None |}
            | None => None
            end
  | Some (l, ti) =>
      match parse true t un ti with
      | None => None
      | Some ri =>
          match unsnoc l with
          | None => Some {| c_re := None; c_im := Some (false, ri) |}                       (* 'j<im>' *)
          | Some (l', c) =>
              if (c =? 43)%N || (c =? 45)%N then
                match l' with
                | [] => Some {| c_re := None; c_im := Some ((c =? 45)%N, ri) |}               (* '-j<im>' *)
                | _ => match parse true t un l' with
                       | Some rr => Some {| c_re := Some rr; c_im := Some ((c =? 45)%N, ri) |}
                       | None => None
                       end
                end
              else None
          end
      end
  end.

Definition signedQ (neg : bool) (x : Q) : Q := if neg then (- x)%Q else x.
Definition cart_value (c : cart) : Q * Q :=
  (match c_re c with Some r => pvalue r | None => 0%Q end,
   match c_im c with Some (n, r) => signedQ n (pvalue r) | None => 0%Q end).

(* ---------- no 'j' in a rendered number ---------- *)
Definition notj (c : N) : bool := negb (c =? 106)%N.

Lemma isdigit_notj s : forallb isdigit s = true -> forallb notj s = true.
Proof.
  induction s as [|c s IH]; simpl; [reflexivity|]. intros H. apply andb_true_iff in H. destruct H as [H1 H2].
  rewrite IH by exact H2. rewrite andb_true_r. unfold notj. destruct (N.eqb_spec c 106) as [->|N]; [|reflexivity].
  vm_compute in H1. discriminate H1.
Qed.

Lemma split_j_none s : forallb notj s = true -> split_j s = None.
Proof. induction s as [|c s IH]; simpl; [reflexivity|]. intros H. apply andb_true_iff in H. destruct H as [H1 H2].
  unfold notj in H1. destruct (c =? 106)%N; [discriminate|]. rewrite IH by exact H2. reflexivity. Qed.
Lemma split_j_app A B : forallb notj A = true -> split_j (A ++ 106%N :: B) = Some (A, B).
Proof. induction A as [|c A IH]; simpl; [reflexivity|]. intros H. apply andb_true_iff in H. destruct H as [H1 H2].
  unfold notj in H1. destruct (c =? 106)%N; [discriminate|]. rewrite IH by exact H2. reflexivity. Qed.
Lemma unsnoc_app A c : unsnoc (A ++ [c]) = Some (A, c).
Proof. induction A as [|a A IH]; [reflexivity|]. cbn [app unsnoc]. rewrite IH.
  destruct (A ++ [c]) eqn:E; [|reflexivity]. apply app_eq_nil in E. destruct E as [_ E]. discriminate. Qed.

Lemma zstr_notj v : forallb notj (zstr v) = true.
Proof. rewrite zstr_signed. rewrite forallb_app. destruct (digits_spec (Z.abs v) ltac:(lia)) as [D _].
  rewrite (isdigit_notj _ D). destruct (v <? 0); reflexivity. Qed.

Lemma exp_prefix_umk_notj e3 : forallb notj (exp_prefix true tab_umk e3) = true.
Proof.
  unfold exp_prefix. cbn [negb]. change (lmax (tkeys tab_umk)) with 3. change (lmin (tkeys tab_umk)) with (-6).
  destruct (e3 >? 3); [reflexivity|]. destruct (e3 <? -6); [reflexivity|].
  unfold tget, tab_umk. cbn [tlookup].
  destruct (-6 =? e3); [reflexivity|]. destruct (-3 =? e3); [reflexivity|]. destruct (3 =? e3); reflexivity.
Qed.

Lemma float_text_notj m e p un : 1 <= p -> 10 ^ (p - 1) <= Z.abs m <= 10 ^ p -> forallb notj un = true ->
  forallb notj (float_text m e p true tab_umk un) = true.
Proof.
  intros P MR UN. unfold float_text. destruct (e >? max_exp true tab_umk).
  - destruct (m >=? 0); reflexivity.
  - destruct (number_text_shape m e p P MR) as [ip [fv [nf [EQ [IP [NF [FV _]]]]]]].
    rewrite EQ. rewrite !forallb_app.
    destruct (digits_spec ip ltac:(lia)) as [D _]. rewrite (isdigit_notj _ D).
    assert (S1 : forallb notj (if m <? 0 then [45%N] else []) = true) by (destruct (m <? 0); reflexivity).
    rewrite S1.
    assert (S2 : forallb notj (if nf =? 0 then [] else 46%N :: pad0 nf (digits fv)) = true).
    { destruct (Z.eqb_spec nf 0) as [|NZ]; [reflexivity|]. cbn [forallb].
      destruct (pad0_spec nf fv FV ltac:(lia)) as [D2 _]. rewrite (isdigit_notj _ D2). reflexivity. }
    rewrite S2.
    assert (S3 : forallb notj (exp_extension true tab_umk (exponent3 e p)) = true).
    { unfold exp_extension. destruct (rebase_exp true tab_umk (exponent3 e p) =? 0); [reflexivity|].
      cbn [forallb]. rewrite zstr_notj. reflexivity. }
    rewrite S3, exp_prefix_umk_notj, UN. reflexivity.
Qed.

Lemma unit_notj q : forallb notj (unit_of q) = true.
Proof. destruct q; reflexivity. Qed.

(* ---------- a leading minus ---------- *)
Definition set_neg (r : parsed) : parsed :=
  {| p_inf := p_inf r; p_neg := true; p_int := p_int r; p_frac := p_frac r; p_nfrac := p_nfrac r;
     p_eext := p_eext r; p_epre := p_epre r |}.

Lemma parse_minus up t un s r : parse up t un s = Some r -> p_inf r = false -> p_neg r = false ->
  parse up t un (45%N :: s) = Some (set_neg r).
Proof.
  intros PAR I NG. unfold parse in *.
  destruct (label_eqb s [INF]) eqn:E1. { inversion PAR; subst. discriminate I. }
  destruct (label_eqb s [45%N; INF]) eqn:E2. { inversion PAR; subst. discriminate I. }
  assert (G1 : label_eqb (45%N :: s) [INF] = false) by reflexivity.
  assert (G2 : label_eqb (45%N :: s) [45%N; INF] = false).
  { cbn [label_eqb]. change (45 =? 45)%N with true. cbn [andb]. exact E1. }
  rewrite G1, G2. change (45 =? 45)%N with true. cbv iota beta.
  (* s does not start with '-' since p_neg r = false *)
  assert (S1 : (match s with c :: r0 => if (c =? 45)%N then (true, r0) else (false, s) | [] => (false, s) end) = (false, s)).
  { destruct s as [|c s0]; [reflexivity|]. destruct (c =? 45)%N eqn:EC; [|reflexivity]. exfalso.
    cbv beta iota in PAR.
    destruct (pdigits 0 0 s0) as [[ip ci] s2]. destruct (ci =? 0); [discriminate|].
    destruct (parse_frac s2) as [[fv cf] s3]. destruct (parse_exp s3) as [ee s4].
    destruct (parse_suffix up t un s4); [|discriminate]. inversion PAR; subst. discriminate NG. }
  rewrite S1 in PAR.
  destruct (pdigits 0 0 s) as [[ip ci] s2]. destruct (ci =? 0); [discriminate|].
  destruct (parse_frac s2) as [[fv cf] s3]. destruct (parse_exp s3) as [ee s4].
  destruct (parse_suffix up t un s4); [|discriminate]. inversion PAR; subst. reflexivity.
Qed.

Lemma pvalue_set_neg r : p_neg r = false -> (pvalue (set_neg r) == - pvalue r)%Q.
Proof.
  intros H. unfold pvalue, set_neg, shown_mantissa_scaled, shown_exponent. cbn [p_neg p_int p_frac p_nfrac p_eext p_epre].
  rewrite H. generalize (p_int r * 10 ^ p_nfrac r + p_frac r). intros s. generalize (Qpow10 (p_eext r + p_epre r - p_nfrac r)). intros P.
  assert (E : ((-1 * s # 1) == - (1 * s # 1))%Q) by (unfold Qeq, Qopp; cbn [Qnum Qden]; lia).
  rewrite E. ring.
Qed.

(* ---------- sign string ++ text of the magnitude reads back the signed value ---------- *)
Lemma Qabs_nz x : ~ (x == 0)%Q -> ~ (Qabs x == 0)%Q.
Proof. intros X E. apply X. destruct x as [n d]. unfold Qabs, Qeq in *. simpl in *. lia. Qed.
Lemma Qabs_abs x : Qabs (Qabs x) = Qabs x.
Proof. destruct x as [n d]. unfold Qabs. simpl. rewrite Z.abs_involutive. reflexivity. Qed.
Lemma exponent_abs x p : exponent (Qabs x) p = exponent x p.
Proof. unfold exponent. destruct x as [n d]. simpl. rewrite Z.abs_involutive. reflexivity. Qed.

Lemma signed_text_reads_back (q : quantity) (x : Q) (p : Z) :
  ~ (x == 0)%Q -> 1 <= p -> ~ (2 <= p /\ carry_region_Q x p) -> exponent x p <= 3 ->
  let T := (if Qneg x then [45%N] else []) ++ sci_text (Qabs x) p true tab_umk (unit_of q) in
  forallb notj T = true /\ T <> [] /\
  exists r s, parse true tab_umk (unit_of q) T = Some r /\ p_inf r = false /\ (p_neg r = true <-> (x < 0)%Q) /\
    sig_exp x p s /\ (Qabs (pvalue r - x) <= Qpow10 s / 2)%Q.
Proof.
  intros X P ND EM T.
  assert (ND' : ~ (2 <= p /\ carry_region_Q (Qabs x) p)).
  { intros [P2 C]. apply ND. split; [exact P2|]. unfold carry_region_Q in *. rewrite Qabs_abs in C. exact C. }
  pose proof (mantissa_range (Qabs x) p (Qabs_nz x X) P ND') as MR.
  assert (NJ : forallb notj T = true).
  { unfold T. rewrite forallb_app. unfold sci_text. rewrite (float_text_notj _ _ p _ P MR (unit_notj q)).
    destruct (Qneg x); reflexivity. }
  destruct (sci_text_accurate_sig (Qabs x) p true tab_umk (unit_of q) (Qabs_nz x X) P ND')
    as [r [s [PAR [I [NG [SE [ACC _]]]]]]].
  { rewrite exponent_abs. exact EM. }
  { intros _. exact table_ok_umk. }
  { apply clean_unit. }
  assert (NN : p_neg r = false).
  { destruct (p_neg r) eqn:E; [|reflexivity]. exfalso. assert (H : (Qabs x < 0)%Q) by (apply NG; reflexivity).
    exact (Qlt_not_le _ _ H (Qabs_nonneg x)). }
  assert (SE' : sig_exp x p s). { unfold sig_exp in *. rewrite Qabs_abs in SE. exact SE. }
  split; [exact NJ|]. split.
  { unfold T. intros E. apply app_eq_nil in E. destruct E as [_ E]. rewrite E in PAR.
    destruct q; vm_compute in PAR; discriminate PAR. }
  destruct (Qneg x) eqn:EN.
  - (* negative *)
    assert (XN : (x < 0)%Q) by (apply Qneg_spec; exact EN).
    exists (set_neg r), s. split. { unfold T. cbn [app]. apply parse_minus; assumption. }
    split; [exact I|]. split. { split; [intros _; exact XN|reflexivity]. }
    split; [exact SE'|].
    rewrite (pvalue_set_neg r NN).
    assert (EV : (- x == Qabs x)%Q). { symmetry. apply Qabs_neg. apply Qlt_le_weak. exact XN. }
    setoid_replace (- pvalue r - x)%Q with (- (pvalue r - Qabs x))%Q by (rewrite <- EV; ring).
    rewrite Qabs_opp. exact ACC.
  - assert (XP : (0 <= x)%Q).
    { destruct (Qlt_le_dec x 0) as [C|C]; [|exact C]. apply Qneg_spec in C. congruence. }
    exists r, s. split; [exact PAR|]. split; [exact I|].
    split. { rewrite NN. split; [discriminate|]. intros H. exfalso. exact (Qlt_not_le _ _ H XP). }
    split; [exact SE'|].
    assert (EV : (x == Qabs x)%Q). { symmetry. apply Qabs_pos. exact XP. }
    setoid_replace (pvalue r - x)%Q with (pvalue r - Qabs x)%Q by (rewrite <- EV; ring). exact ACC.
Qed.

(* ---------- the Cartesian annotation reads back to the (sign-adjusted) value ---------- *)
Definition part_ok (x : Q) (p : Z) : Prop :=
  ~ (x == 0)%Q /\ ~ (2 <= p /\ carry_region_Q x p) /\ -6 <= exponent x p <= 3.


Lemma part_ok_iff x p : part_ok x p <-> (~ (x == 0)%Q /\ ~ (2 <= p /\ carry_region_Q x p) /\ -6 <= exponent x p <= 3).
Proof. reflexivity. Qed.

Lemma part_ok_sgn r x p : part_ok x p -> part_ok (sgnQ r x) p.
Proof. intros [A [B C]]. split; [apply sgnQ_nz; exact A|]. split.
  - intros [P2 D]. apply B. split; [exact P2|]. apply (sgnQ_carry r x p). exact D.
  - rewrite sgnQ_exponent. exact C. Qed.

Lemma not_is_zero x p : part_ok x p -> is_zero (Qabs x) p (-6) = false.
Proof. intros [A [_ C]]. unfold is_zero. rewrite exponent_abs.
  apply orb_false_iff. split.
  - apply Z.eqb_neq. destruct x as [n d]. unfold Qeq in A. simpl in *. lia.
  - apply Z.ltb_ge. lia. Qed.

Lemma sgnC_parts r z : sgnC r z = (sgnQ r (fst z), sgnQ r (snd z)).
Proof. destruct r, z; reflexivity. Qed.

Theorem cartesian_reads_back (O : polar_oracle) (q : quantity) (reverse : bool) (z : cval) (p : Z) (deg : bool) :
  1 <= p -> part_ok (fst z) p -> part_ok (snd z) p ->
  let z' := sgnC (eff_reverse q reverse) z in
  exists c sr si,
    parse_cartesian tab_umk (unit_of q) (complex_ann O q reverse z p false deg) = Some c /\
    sig_exp (fst z) p sr /\ sig_exp (snd z) p si /\
    (Qabs (fst (cart_value c) - fst z') <= Qpow10 sr / 2)%Q /\
    (Qabs (snd (cart_value c) - snd z') <= Qpow10 si / 2)%Q /\
    (exists rr ri, c_re c = Some rr /\ c_im c = Some (Qneg (snd z'), ri) /\ p_inf rr = false /\ p_inf ri = false /\
       (p_neg rr = true <-> (fst z' < 0)%Q) /\ p_neg ri = false).
Proof.
  intros P OKR OKI z'.
  pose proof (complex_parts O q reverse z p deg) as CP. cbv zeta in CP. fold z' in CP.
  assert (Z' : z' = (sgnQ (eff_reverse q reverse) (fst z), sgnQ (eff_reverse q reverse) (snd z))) by apply sgnC_parts.
  set (re := fst z') in *. set (im := snd z') in *.
  assert (OR : part_ok re p). { unfold re. rewrite Z'. apply part_ok_sgn. exact OKR. }
  assert (OI : part_ok im p). { unfold im. rewrite Z'. apply part_ok_sgn. exact OKI. }
  rewrite (not_is_zero im p OI), (not_is_zero re p OR) in CP. rewrite CP. clear CP.
  destruct OR as [XR [NR [_ ER]]]. destruct OI as [XI [NI [_ EI]]].
  destruct (signed_text_reads_back q re p XR P NR ER) as [NJR [NER [rr [sr [PR [IR [NGR [SR AR]]]]]]]].
  (* the imaginary magnitude *)
  assert (NI' : ~ (2 <= p /\ carry_region_Q (Qabs im) p)).
  { intros [P2 C]. apply NI. split; [exact P2|]. unfold carry_region_Q in *. rewrite Qabs_abs in C. exact C. }
  pose proof (mantissa_range (Qabs im) p (Qabs_nz im XI) P NI') as MRI.
  destruct (sci_text_accurate_sig (Qabs im) p true tab_umk (unit_of q) (Qabs_nz im XI) P NI')
    as [ri [si [PI [II [NGI [SI [AI _]]]]]]].
  { rewrite exponent_abs. exact EI. }
  { intros _. exact table_ok_umk. }
  { apply clean_unit. }
  assert (NNI : p_neg ri = false).
  { destruct (p_neg ri) eqn:E; [|reflexivity]. exfalso. assert (H : (Qabs im < 0)%Q) by (apply NGI; reflexivity).
    exact (Qlt_not_le _ _ H (Qabs_nonneg im)). }
  set (TR := (if Qneg re then [45%N] else []) ++ sci_text (Qabs re) p true tab_umk (unit_of q)) in *.
  set (TI := sci_text (Qabs im) p true tab_umk (unit_of q)) in *.
  set (sg := if Qneg im then 45%N else 43%N).
  assert (TXT : (if Qneg re then [45%N] else []) ++ sci_text (Qabs re) p true tab_umk (unit_of q) ++
                (if Qneg im then [45%N] else [43%N]) ++ LJ :: TI = (TR ++ [sg]) ++ 106%N :: TI).
  { unfold TR, sg, LJ. rewrite <- !app_assoc. destruct (Qneg im); reflexivity. }
  rewrite TXT. unfold parse_cartesian.
  rewrite split_j_app.
  2:{ rewrite forallb_app, NJR. unfold sg. destruct (Qneg im); reflexivity. }
  rewrite PI, unsnoc_app.
  assert (SG : ((sg =? 43)%N || (sg =? 45)%N) = true) by (unfold sg; destruct (Qneg im); reflexivity).
  assert (SN : (sg =? 45)%N = Qneg im) by (unfold sg; destruct (Qneg im); reflexivity).
  rewrite SG. destruct TR as [|c0 TR0] eqn:ETR; [contradiction NER; reflexivity|]. rewrite <- ETR in *.
  rewrite PR, SN.
  exists {| c_re := Some rr; c_im := Some (Qneg im, ri) |}, sr, si.
  assert (SGR : forall s, sig_exp re p s -> sig_exp (fst z) p s).
  { intros s H. unfold re in H. rewrite Z' in H. cbn [fst] in H. exact (proj1 (sgnQ_sig (eff_reverse q reverse) (fst z) p s) H). }
  assert (SGI : forall s, sig_exp im p s -> sig_exp (snd z) p s).
  { intros s H. unfold im in H. rewrite Z' in H. cbn [snd] in H. exact (proj1 (sgnQ_sig (eff_reverse q reverse) (snd z) p s) H). }
  split; [reflexivity|]. split; [apply SGR; exact SR|].
  split. { apply SGI. unfold sig_exp in *. rewrite Qabs_abs in SI. exact SI. }
  split; [exact AR|]. split.
  - cbn [cart_value c_im c_re snd]. unfold signedQ. destruct (Qneg im) eqn:EN.
    + assert (XN : (im < 0)%Q) by (apply Qneg_spec; exact EN).
      assert (EV : (- im == Qabs im)%Q). { symmetry. apply Qabs_neg. apply Qlt_le_weak. exact XN. }
      setoid_replace (- pvalue ri - im)%Q with (- (pvalue ri - Qabs im))%Q by (rewrite <- EV; ring).
      rewrite Qabs_opp. exact AI.
    + assert (XP : (0 <= im)%Q).
      { destruct (Qlt_le_dec im 0) as [C|C]; [|exact C]. apply Qneg_spec in C. congruence. }
      assert (EV : (im == Qabs im)%Q). { symmetry. apply Qabs_pos. exact XP. }
      setoid_replace (pvalue ri - im)%Q with (pvalue ri - Qabs im)%Q by (rewrite <- EV; ring). exact AI.
  - exists rr, ri. repeat split; try assumption; try reflexivity; apply NGR; assumption.
Qed.

(* a purely real phasor (imaginary part exactly 0): no 'j' is written and the text reads back the real part *)
Theorem cartesian_real_reads_back (O : polar_oracle) (q : quantity) (reverse : bool) (z : cval) (p : Z) (deg : bool) :
  1 <= p -> part_ok (fst z) p -> Qnum (snd z) = 0 ->
  let z' := sgnC (eff_reverse q reverse) z in
  exists rr sr,
    parse_cartesian tab_umk (unit_of q) (complex_ann O q reverse z p false deg) = Some {| c_re := Some rr; c_im := None |} /\
    p_inf rr = false /\ (p_neg rr = true <-> (fst z' < 0)%Q) /\
    sig_exp (fst z) p sr /\ (Qabs (pvalue rr - fst z') <= Qpow10 sr / 2)%Q.
Proof.
  intros P OKR IM0 z'.
  pose proof (complex_parts O q reverse z p deg) as CP. cbv zeta in CP. fold z' in CP.
  assert (Z' : z' = (sgnQ (eff_reverse q reverse) (fst z), sgnQ (eff_reverse q reverse) (snd z))) by apply sgnC_parts.
  set (re := fst z') in *. set (im := snd z') in *.
  assert (OR : part_ok re p). { unfold re. rewrite Z'. apply part_ok_sgn. exact OKR. }
  assert (IZ : is_zero (Qabs im) p (-6) = true).
  { unfold is_zero. apply orb_true_iff. left. apply Z.eqb_eq. unfold im. rewrite Z'. cbn [snd].
    destruct (eff_reverse q reverse), (snd z) as [n d]; simpl in *; subst; reflexivity. }
  rewrite IZ in CP. rewrite CP. clear CP.
  destruct OR as [XR [NR [_ ER]]].
  destruct (signed_text_reads_back q re p XR P NR ER) as [NJR [NER [rr [sr [PR [IR [NGR [SR AR]]]]]]]].
  unfold parse_cartesian. rewrite (split_j_none _ NJR), PR.
  exists rr, sr. split; [reflexivity|]. split; [exact IR|]. split; [exact NGR|]. split; [|exact AR].
  unfold re in SR. rewrite Z' in SR. cbn [fst] in SR. exact (proj1 (sgnQ_sig (eff_reverse q reverse) (fst z) p sr) SR).
Qed.
