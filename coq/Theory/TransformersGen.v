(* Theory/TransformersGen.v — the translator functions regenerated from Circuit/transformers.py (Gen/Transformers.v, in the
   vocabulary of Model/CircuitPrims.v) against the hand-written model of Model/Circuit.v:
   A. g_<f> = t_<f> for every function of the module (for resistive_load: equal whenever the component lists two
      terminals, same success and same branch always; the difference is which exception an ill-formed component raises);
   B. [translate] is the dictionary dispatch through the regenerated `transformers` table (Gen/Tables.v) to the
      regenerated functions; same for transform_circuit;
   C. the faithfulness / phasor theorems of Theory/CircuitThm.v restated for the regenerated functions;
   D. the single-frequency idiom of the periodic sources, justified against the regenerated ac_*_source translators.
   Generic in the reals [R] and in [leb], [rnd], [ofZ]; no law of [R] is used in A, B, D. *)
From Coq Require Import List Bool NArith ZArith Arith String Lia.
From CC Require Import Theory.Field Theory.Complex Theory.Labels Model.Network Theory.Spec Gen.Tables Model.Circuit
  Model.CircuitPrims Gen.Transformers Theory.CircuitThm.
Import ListNotations.

(* two results with the same outcome: the same value, or both an exception *)
Definition same_outcome {A} (r1 r2 : res A) : Prop :=
  match r1, r2 with Ok a, Ok b => a = b | Err _, Err _ => True | _, _ => False end.
Lemma same_outcome_refl {A} (r : res A) : same_outcome r r.
Proof. destruct r; simpl; auto. Qed.
Lemma same_outcome_eq {A} (r1 r2 : res A) : r1 = r2 -> same_outcome r1 r2.
Proof. intros ->. apply same_outcome_refl. Qed.
Lemma same_outcome_ok {A} (r1 r2 : res A) : same_outcome r1 r2 -> forall a, r1 = Ok a <-> r2 = Ok a.
Proof. destruct r1, r2; simpl; intros H x; try contradiction; split; intros E; try discriminate; congruence. Qed.
Lemma same_outcome_sym {A} (r1 r2 : res A) : same_outcome r1 r2 -> same_outcome r2 r1.
Proof. destruct r1, r2; simpl; auto. Qed.

(* unfold the vocabulary of Model/CircuitPrims.v down to the operations Model/Circuit.v is written in *)
Ltac gt_unfold :=
  unfold harmonic_of, fourier_series_of, harmonic, single_frequency_voltage_source, single_frequency_current_source,
     branch_at_then, branch_at, mkbranch, elm_load, value_wavetype, vget, node_at,
     py_gt, py_ge, py_lt, py_le, py_abs, off_frequency, py_complex, real_to_complex, complex_value_re, complex_value_phi,
     admittance_value, impedance_value, cim.
(* case analysis on every dictionary read / terminal subscript, then on every remaining test *)
Ltac gt_cases :=
  repeat match goal with
  | |- context [vlook ?R ?l ?k] => destruct (vlook R l k)
  | |- context [nth_error ?l ?i] => destruct (nth_error l i)
  end; cbn [bind];
  repeat (match goal with
          | |- ?x = ?x => fail 1
          | |- context [if ?b then _ else _] => destruct b eqn:?
          | |- context [match hlook ?R ?l ?n with _ => _ end] => destruct (hlook R l n) as [[? [? ?]]|]
          end; cbn [bind negb fst snd]).
Ltac gt_solve := gt_unfold; gt_cases; try reflexivity.

Section GenEq.
Variable R : fops.
Variable leb : R -> R -> bool.
Variable rnd : R -> Z.
Variable ofZ : Z -> R.
Notation C := (Cx R).
Notation comp := (comp R).

(* ====================================================================================================== *)
(* A. function by function                                                                                 *)
(* ====================================================================================================== *)
Lemma eq_resistor (c : comp) (w wres : R) : g_resistor R c = t_resistor R c.
Proof. unfold g_resistor, t_resistor. gt_solve. Qed.
Lemma eq_conductance (c : comp) (w wres : R) : g_conductance R c = t_conductance R c.
Proof. unfold g_conductance, t_conductance. gt_solve. Qed.
Lemma eq_impedance (c : comp) (w wres : R) : g_impedance R c = t_impedance R c.
Proof. unfold g_impedance, t_impedance. gt_solve. Qed.
Lemma eq_admittance (c : comp) (w wres : R) : g_admittance R c = t_admittance R c.
Proof. unfold g_admittance, t_admittance. gt_solve. Qed.
Lemma eq_capacitor (c : comp) (w wres : R) : g_capacitor R c w = t_capacitor R c w.
Proof. unfold g_capacitor, t_capacitor. gt_solve. Qed.
Lemma eq_inductance (c : comp) (w wres : R) : g_inductance R c w = t_inductance R c w.
Proof. unfold g_inductance, t_inductance. gt_solve. Qed.
Lemma eq_dc_voltage_source (c : comp) (w wres : R) : g_dc_voltage_source R leb c w wres = t_dc_voltage_source R leb c w wres.
Proof. unfold g_dc_voltage_source, t_dc_voltage_source. gt_solve. Qed.
Lemma eq_ac_voltage_source (c : comp) (w wres : R) : g_ac_voltage_source R leb c w wres = t_ac_voltage_source R leb c w wres.
Proof. unfold g_ac_voltage_source, t_ac_voltage_source. gt_solve. Qed.
Lemma eq_complex_voltage_source (c : comp) (w wres : R) : g_complex_voltage_source R c = t_complex_voltage_source R c.
Proof. unfold g_complex_voltage_source, t_complex_voltage_source. gt_solve. Qed.
Lemma eq_periodic_voltage_source (c : comp) (w wres : R) :
  g_periodic_voltage_source R leb rnd ofZ c w wres = t_periodic_voltage_source R leb rnd ofZ c w wres.
Proof. unfold g_periodic_voltage_source, t_periodic_voltage_source. gt_solve. Qed.
Lemma eq_dc_current_source (c : comp) (w wres : R) : g_dc_current_source R leb c w wres = t_dc_current_source R leb c w wres.
Proof. unfold g_dc_current_source, t_dc_current_source. gt_solve. Qed.
Lemma eq_ac_current_source (c : comp) (w wres : R) : g_ac_current_source R leb c w wres = t_ac_current_source R leb c w wres.
Proof. unfold g_ac_current_source, t_ac_current_source. gt_solve. Qed.
Lemma eq_complex_current_source (c : comp) (w wres : R) : g_complex_current_source R c w wres = t_complex_current_source R c.
Proof. unfold g_complex_current_source, t_complex_current_source. gt_solve. Qed.
Lemma eq_periodic_current_source (c : comp) (w wres : R) :
  g_periodic_current_source R leb rnd ofZ c w wres = t_periodic_current_source R leb rnd ofZ c w wres.
Proof. unfold g_periodic_current_source, t_periodic_current_source. gt_solve. Qed.
Lemma eq_short_circuit (c : comp) (w wres : R) : g_short_circuit R c = t_short_circuit R c.
Proof. unfold g_short_circuit, t_short_circuit. gt_solve. Qed.

(* resistive_load: `ntw.Branch(load.nodes[0], load.nodes[1], elm.load(load.id, float(load.value['P']), float(load.value['V_ref'])))`
   evaluates the two subscripts first; the hand model reads P and V_ref (and runs load's guards) first.  Same result
   whenever both terminals exist, and in any case the same success / failure and the same branch. *)
Definition two_terminals (c : comp) : Prop := (2 <= List.length (cnodes c))%nat.
Lemma two_terminals_nth (c : comp) : two_terminals c ->
  exists a b, nth_error (cnodes c) 0 = Some a /\ nth_error (cnodes c) 1 = Some b.
Proof. unfold two_terminals. destruct (cnodes c) as [|a [|b l]]; simpl; try lia. intros _. exists a, b. auto. Qed.
Lemma eq_resistive_load_two_terminals (c : comp) (w wres : R) : two_terminals c ->
  g_resistive_load R leb c = t_resistive_load R leb c.
Proof. intros H. destruct (two_terminals_nth c H) as (a & b & Ha & Hb).
  unfold g_resistive_load, t_resistive_load. gt_unfold. rewrite Ha, Hb. gt_cases; reflexivity. Qed.
Lemma outcome_resistive_load (c : comp) (w wres : R) : same_outcome (g_resistive_load R leb c) (t_resistive_load R leb c).
Proof. unfold g_resistive_load, t_resistive_load. gt_unfold. gt_cases; simpl; auto. Qed.

(* ====================================================================================================== *)
(* B. dispatch                                                                                             *)
(* ====================================================================================================== *)
(* transformers[component.type](component, w, w_resolution) with the regenerated table and functions *)
Definition g_translate (c : comp) (w wres : R) : res (branch C) :=
  dispatch R transformer_table (g_functions R leb rnd ofZ) c w wres.
(* `if component.type in transformers.keys()` *)
Definition g_in_table (c : comp) : bool :=
  match flookup (kind_name (ck c)) transformer_table with Some _ => true | None => false end.
Definition g_transform_circuit (cs : list comp) (w wres : R) : res (network C) :=
  bind (ground_node R cs) (fun g =>
  bind (mapM (fun c => g_translate c w wres) (filter g_in_table cs)) (fun bs =>
  validate {| branches := bs; zero := g |})).

(* which regenerated function each kind is dispatched to: computed from Gen/Tables.v and Gen/Transformers.v *)
Lemma g_translate_unfold (c : comp) (w wres : R) :
  g_translate c w wres =
  match ck c with
  | KResistor => g_resistor R c | KConductance => g_conductance R c
  | KImpedance => g_impedance R c | KAdmittance => g_admittance R c
  | KCapacitor => g_capacitor R c w | KInductance => g_inductance R c w
  | KDcV => g_dc_voltage_source R leb c w wres | KAcV => g_ac_voltage_source R leb c w wres
  | KCplxV => g_complex_voltage_source R c
  | KPerV => g_periodic_voltage_source R leb rnd ofZ c w wres
  | KDcI => g_dc_current_source R leb c w wres | KAcI => g_ac_current_source R leb c w wres
  | KCplxI => g_complex_current_source R c w wres
  | KPerI => g_periodic_current_source R leb rnd ofZ c w wres
  | KLamp | KResLoad => g_resistive_load R leb c
  | KShort => g_short_circuit R c
  | KGround => Err EKeyError
  end.
Proof. unfold g_translate, dispatch. destruct (ck c); reflexivity. Qed.

Lemma g_in_table_has_translator (c : comp) : g_in_table c = has_translator (ck c).
Proof. unfold g_in_table. destruct (ck c); reflexivity. Qed.

Definition is_load (c : comp) : Prop := ck c = KLamp \/ ck c = KResLoad.

Theorem translate_regenerated (c : comp) (w wres : R) : (is_load c -> two_terminals c) ->
  translate R leb rnd ofZ c w wres = g_translate c w wres.
Proof. intros H. rewrite g_translate_unfold. unfold translate, is_load in *.
  destruct (ck c);
    first [ reflexivity
          | symmetry; apply eq_resistive_load_two_terminals; auto
          | symmetry;
            first [ apply eq_resistor | apply eq_conductance | apply eq_impedance | apply eq_admittance | apply eq_capacitor
                  | apply eq_inductance | apply eq_dc_voltage_source | apply eq_ac_voltage_source
                  | apply eq_complex_voltage_source | apply eq_periodic_voltage_source | apply eq_dc_current_source
                  | apply eq_ac_current_source | apply eq_complex_current_source | apply eq_periodic_current_source
                  | apply eq_short_circuit ]; assumption ]. Qed.

Theorem translate_regenerated_outcome (c : comp) (w wres : R) :
  same_outcome (translate R leb rnd ofZ c w wres) (g_translate c w wres).
Proof. destruct (ck c) eqn:K;
  try (apply same_outcome_eq, translate_regenerated; unfold is_load; rewrite K; intros [?|?]; discriminate).
  - rewrite g_translate_unfold. unfold translate. rewrite K. apply same_outcome_sym, outcome_resistive_load; assumption.
  - rewrite g_translate_unfold. unfold translate. rewrite K. apply same_outcome_sym, outcome_resistive_load; assumption. Qed.

Lemma mapM_same_outcome {A B} (f g : A -> res B) (l : list A) :
  (forall a, In a l -> same_outcome (f a) (g a)) -> same_outcome (mapM f l) (mapM g l).
Proof. induction l as [|a l IH]; intros H; [simpl; reflexivity|].
  assert (Ha := H a (or_introl eq_refl)). assert (Hl := IH (fun x Hx => H x (or_intror Hx))).
  cbn [mapM]. destruct (f a) as [b|e], (g a) as [b'|e']; simpl in Ha; try contradiction; cbn [bind]; [|exact I].
  subst b'. destruct (mapM f l) as [bs|e], (mapM g l) as [bs'|e']; simpl in Hl; try contradiction; cbn [bind]; [|exact I].
  subst bs'. reflexivity. Qed.
Lemma mapM_ext_in {A B} (f g : A -> res B) (l : list A) : (forall a, In a l -> f a = g a) -> mapM f l = mapM g l.
Proof. induction l as [|a l IH]; intros H; [reflexivity|]. cbn [mapM].
  rewrite (H a (or_introl eq_refl)), (IH (fun x Hx => H x (or_intror Hx))). reflexivity. Qed.
Lemma filter_ext' {A} (p q : A -> bool) (l : list A) : (forall a, p a = q a) -> filter p l = filter q l.
Proof. intros H. induction l as [|a l IH]; simpl; [reflexivity|]. rewrite H, IH. reflexivity. Qed.

Theorem transform_regenerated (cs : list comp) (w wres : R) : (forall c, In c cs -> is_load c -> two_terminals c) ->
  transform_circuit R leb rnd ofZ cs w wres = g_transform_circuit cs w wres.
Proof. intros H. unfold transform_circuit, g_transform_circuit.
  rewrite (filter_ext' g_in_table (fun c => has_translator (ck c)) cs g_in_table_has_translator).
  destruct (ground_node R cs) as [g|e]; cbn [bind]; [|reflexivity].
  rewrite (mapM_ext_in (fun c => translate R leb rnd ofZ c w wres) (fun c => g_translate c w wres)); [reflexivity|].
  intros c Hc. apply filter_In in Hc. apply translate_regenerated. apply H. tauto. Qed.

Theorem transform_regenerated_outcome (cs : list comp) (w wres : R) :
  same_outcome (transform_circuit R leb rnd ofZ cs w wres) (g_transform_circuit cs w wres).
Proof. unfold transform_circuit, g_transform_circuit.
  rewrite (filter_ext' g_in_table (fun c => has_translator (ck c)) cs g_in_table_has_translator).
  destruct (ground_node R cs) as [g|e]; cbn [bind]; [|exact I].
  pose proof (mapM_same_outcome (fun c => translate R leb rnd ofZ c w wres) (fun c => g_translate c w wres)
                (filter (fun c => has_translator (ck c)) cs) (fun c _ => translate_regenerated_outcome c w wres)) as M.
  destruct (mapM (fun c => translate R leb rnd ofZ c w wres) _) as [bs|e1],
           (mapM (fun c => g_translate c w wres) _) as [bs'|e2]; simpl in M; try contradiction; cbn [bind]; [|exact I].
  subst bs'. apply same_outcome_refl. Qed.

(* ====================================================================================================== *)
(* D. the single-frequency idiom                                                                           *)
(* ====================================================================================================== *)
(* ccp.ac_voltage_source(id=x.id, nodes=(x.nodes[0], x.nodes[1]), w=w, phi=phase(n), V=amplitude(n), R=r): the component
   the constructor returns (value dictionary in the constructor's key order; its own phase is phase(n), whose cos / sin
   are the oracle pair) *)
Definition sfs_voltage (c : comp) (a b : label) (h : R * (R * R)) (r w phi : R) : comp :=
  {| ck := KAcV; cid := cid c; cnodes := [a; b];
     cvals := [(lbl "V", fst h); (lbl "R", r); (lbl "w", w); (lbl "phi", phi)];
     cwave := []; ccis := snd h; charm := [] |}.
Definition sfs_current (c : comp) (a b : label) (h : R * (R * R)) (g w phi : R) : comp :=
  {| ck := KAcI; cid := cid c; cnodes := [a; b];
     cvals := [(lbl "I", fst h); (lbl "G", g); (lbl "w", w); (lbl "phi", phi)];
     cwave := []; ccis := snd h; charm := [] |}.
(* ... handed to the regenerated ac_voltage_source translator at the same w: the idiom's fixed translation, provided
   |w - w| > w_resolution is false (w_resolution not negative) and the source lists two terminals; the constructor's
   guards R < 0, w < 0 are not part of the statement *)
Lemma idiom_voltage (c : comp) (a b : label) (h : R * (R * R)) (r w wres phi : R) :
  nth_error (cnodes c) 0 = Some a -> nth_error (cnodes c) 1 = Some b ->
  gtb R leb (rabs R leb (fsub R w w)) wres = false ->
  g_ac_voltage_source R leb (sfs_voltage c a b h r w phi) w wres = single_frequency_voltage_source R c h r.
Proof. intros Ha Hb Hw. unfold g_ac_voltage_source, sfs_voltage. gt_unfold. rewrite Ha, Hb.
  cbn [bind vlook cvals cnodes cid ccis nth_error]. simpl label_eqb. cbn [bind vlook]. rewrite Hw. reflexivity. Qed.
Lemma idiom_current (c : comp) (a b : label) (h : R * (R * R)) (g w wres phi : R) :
  nth_error (cnodes c) 0 = Some a -> nth_error (cnodes c) 1 = Some b ->
  gtb R leb (rabs R leb (fsub R w w)) wres = false ->
  g_ac_current_source R leb (sfs_current c a b h g w phi) w wres = single_frequency_current_source R c h g.
Proof. intros Ha Hb Hw. unfold g_ac_current_source, sfs_current. gt_unfold. rewrite Ha, Hb.
  cbn [bind vlook cvals cnodes cid ccis nth_error]. simpl label_eqb. cbn [bind vlook]. rewrite Hw. reflexivity. Qed.

End GenEq.

(* ====================================================================================================== *)
(* C. the theorems of Theory/CircuitThm.v for the regenerated functions                                    *)
(* ====================================================================================================== *)
Section GenFaithful.
Variable R : fops.
Hypothesis ROK : fops_ok R.
Hypothesis Rreal : forall x y : R, fadd R (fmul R x x) (fmul R y y) = f0 R -> x = f0 R /\ y = f0 R.
Variable leb : R -> R -> bool.
Variable rnd : R -> Z.
Variable ofZ : Z -> R.

Theorem g_translate_faithful (c : comp R) (w wres : R) (b : branch (Cx R)) (phi : label -> Cx R) (j : branch (Cx R) -> Cx R) :
  g_translate R leb rnd ofZ c w wres = Ok b ->
  (law phi j b <-> comp_law R leb rnd ofZ c w wres (bvolt phi b) (j b)).
Proof. intros H. apply (translate_faithful R ROK Rreal leb rnd ofZ).
  apply (same_outcome_ok _ _ (translate_regenerated_outcome R leb rnd ofZ c w wres)). exact H. Qed.

Theorem g_phasor_iff (cs : list (comp R)) (w wres : R) (n : network (Cx R)) (phi ji : label -> Cx R) :
  g_transform_circuit R leb rnd ofZ cs w wres = Ok n ->
  (CircuitSpec n phi (fun b => ji (bid b)) <-> PhasorSpec R leb rnd ofZ cs w wres phi ji).
Proof. intros H. apply (phasor_iff R ROK Rreal leb rnd ofZ).
  apply (same_outcome_ok _ _ (transform_regenerated_outcome R leb rnd ofZ cs w wres)). exact H. Qed.
End GenFaithful.
