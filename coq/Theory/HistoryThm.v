(* Theory/HistoryThm.v — C20: if no operation changes the pool, every result of a history equals the result of the same
   operation in isolation; the operations of the model (loaders in state-passing style, pure analyses and transformers)
   are frame-preserving; the loader before fix 6828b52 is not, and its histories differ from isolated evaluation. *)
From Coq Require Import List Bool NArith Arith Lia.
From CC Require Import Theory.Field Theory.Complex Model.Network Model.Transformers Model.Circuit Model.Loaders Theory.LoadersThm Model.Heap.
Import ListNotations.

Section Abstract.
Variables obj op result : Type.
Variable step : list obj -> op -> list obj * result.
Notation Frame := (Frame obj op result step).
Notation iso := (iso obj op result step).
Notation run_from := (run_from obj op result step).
Notation run := (run obj op result step).
Notation final := (final obj op result step).

Lemma run_from_frames (ops : list op) : (forall o, In o ops -> Frame o) ->
  forall acc, fst (run_from acc ops) = fst acc
              /\ map snd (snd (run_from acc ops)) = map snd (snd acc) ++ map (iso (fst acc)) ops.
Proof. induction ops as [|o ops IH]; intros HF acc.
  - simpl. split; [reflexivity|]. rewrite app_nil_r. reflexivity.
  - unfold Heap.run_from in *. cbn [fold_left].
    assert (Ho : Frame o) by (apply HF; left; reflexivity).
    destruct (IH (fun x Hx => HF x (or_intror Hx)) (run_acc obj op result step acc o)) as [I1 I2].
    assert (E1 : fst (run_acc obj op result step acc o) = fst acc) by (unfold run_acc; cbn [fst]; apply Ho).
    split.
    + rewrite I1. exact E1.
    + rewrite I2, E1. unfold run_acc at 1. cbn [snd]. rewrite map_app. cbn [map]. rewrite <- app_assoc. reflexivity. Qed.

(* each result of the history is the result of the same call on the initial pool *)
Theorem history_restricted (s0 : list obj) (ops : list op) : (forall o, In o ops -> Frame o) ->
  map snd (run s0 ops) = map (iso s0) ops /\ final s0 ops = s0.
Proof. intros HF. destruct (run_from_frames ops HF (s0, [])) as [H1 H2]. split; [exact H2|exact H1]. Qed.

Theorem history (HF : forall o, Frame o) (s0 : list obj) (ops : list op) : map snd (run s0 ops) = map (iso s0) ops.
Proof. exact (proj1 (history_restricted s0 ops (fun o _ => HF o))). Qed.

Theorem history_final (HF : forall o, Frame o) (s0 : list obj) (ops : list op) : final s0 ops = s0.
Proof. exact (proj2 (history_restricted s0 ops (fun o _ => HF o))). Qed.

(* consequently the order of the calls and what was called before are immaterial *)
Theorem history_prefix_irrelevant (HF : forall o, Frame o) (s0 : list obj) (before : list op) (o : op) :
  map snd (run s0 (before ++ [o])) = map (iso s0) before ++ [iso s0 o].
Proof. rewrite (history HF). rewrite map_app. reflexivity. Qed.
End Abstract.

Lemma set_nth_same {A} (l : list A) i x : nth_error l i = Some x -> set_nth i x l = l.
Proof. revert i. induction l as [|a l IH]; intros [|i] H; simpl in *; try discriminate.
  - injection H as ->. reflexivity.
  - rewrite IH by exact H. reflexivity. Qed.

Section Concrete.
Variable R : fops.
Variable leb : R -> R -> bool.
Variable pi : R.
Variable cis : R -> R * R.
Notation obj := (obj R).
Notation step := (step_model R leb pi cis).

Lemma on_doc_frame {X} (s : list obj) i (f : jval R -> X * jval R) wrap :
  (forall d, snd (f d) = d) -> fst (on_doc R s i f wrap) = s.
Proof. intros Hf. unfold on_doc, get_doc. destruct (nth_error s i) as [[d|n|k|l]|] eqn:E; try reflexivity.
  specialize (Hf d). destruct (f d) as [r d']. cbn [snd] in Hf. subst d'. cbn [fst]. apply set_nth_same. exact E. Qed.

Lemma pure1_frame {X} (s : list obj) (a : option X) f : fst (pure1 R s a f) = s.
Proof. destruct a; reflexivity. Qed.
Lemma pure2_frame {X Y} (s : list obj) (a : option X) (b : option Y) f : fst (pure2 R s a b f) = s.
Proof. destruct a, b; reflexivity. Qed.

(* no operation of the model changes an object of the pool *)
Theorem step_frame (o : op) : Frame obj op (result R) step o.
Proof. intros s. destruct o; unfold step_model, step_gen; try apply pure1_frame; try apply pure2_frame; apply on_doc_frame; intros d.
  - exact (load_network_no_mutation R pi cis d).
  - reflexivity.
  - reflexivity.
  - reflexivity.
  - destruct d; reflexivity.
  - reflexivity. Qed.

Theorem model_history (s0 : list obj) (ops : list op) :
  map snd (run obj op (result R) step s0 ops) = map (iso obj op (result R) step s0) ops
  /\ final obj op (result R) step s0 ops = s0.
Proof. exact (history_restricted obj op (result R) step s0 ops (fun o _ => step_frame o)). Qed.
End Concrete.
