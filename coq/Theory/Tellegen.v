(* Theory/Tellegen.v — Tellegen's theorem (power conservation) for the circuit equations of Theory/Spec.v,
   the power balance of a solved network in the reference directions of the API (Theory/Api.v), Ohm's law for the
   reported quantities of passive branches, and the power definitions of the solution kinds of Circuit/solution.py.
   Generic in the field. *)
From Coq Require Import List Bool NArith Arith Permutation Lia Field Ring.
From CC Require Import Theory.Field Theory.Labels Model.Network Theory.Spec Theory.Mna Theory.MnaComplete Theory.Api.
Import ListNotations.

(* ------------------------------------------------------------------------------------------------ *)
(* Tellegen on a directed multigraph: edges of any type [A] with endpoints [n1 n2 : A -> label], node
   potentials and edge flows valued in any field [F] (not necessarily the field of the element values).  *)
Section Graph.
Variable A : Type.
Variables n1 n2 : A -> label.
Variable F : fops.
Hypothesis FOK : fops_ok F.
Add Field Ff : (Kth F FOK).
Notation "0" := (f0 F). Notation "1" := (f1 F).
Infix "+" := (fadd F). Infix "*" := (fmul F). Infix "-" := (fsub F). Notation "- x" := (fopp F x).

(* net flow leaving [node] *)
Definition gkcl (es : list A) (j : A -> F) (node : label) : F :=
  sumF (fun e => (if label_eqb (n1 e) node then j e else 0) - (if label_eqb (n2 e) node then j e else 0)) es.

Definition gvolt (phi : label -> F) (e : A) : F := phi (n1 e) - phi (n2 e).

Definition gnodes (es : list A) : list label := ldedup (map n1 es ++ map n2 es).

Lemma gnodes_NoDup es : NoDup (gnodes es).
Proof. apply ldedup_NoDup. Qed.

Lemma gnodes_n1 es e : In e es -> In (n1 e) (gnodes es).
Proof. intros H. apply ldedup_In, in_or_app. left. apply in_map. exact H. Qed.

Lemma gnodes_n2 es e : In e es -> In (n2 e) (gnodes es).
Proof. intros H. apply ldedup_In, in_or_app. right. apply in_map. exact H. Qed.

(* Σ over a duplicate-free node list of the indicator of one of its members *)
Lemma pick_node (g : label -> F) (m : label) (all : list label) : NoDup all -> In m all ->
  sumF (fun l => if label_eqb l m then g l else 0) all = g m.
Proof. intros ND Hm.
  rewrite (sumF_indicator FOK label_eqb label_eqb_spec g m all ND).
  apply lmem_spec in Hm. unfold lmem in Hm. rewrite Hm. reflexivity. Qed.

(* what one edge contributes to  Σ_nodes phi(node) * gkcl(node) *)
Lemma edge_share (phi : label -> F) (j : A -> F) (e : A) (all : list label) :
  NoDup all -> In (n1 e) all -> In (n2 e) all ->
  sumF (fun l => phi l * ((if label_eqb (n1 e) l then j e else 0) - (if label_eqb (n2 e) l then j e else 0))) all
  = gvolt phi e * j e.
Proof. intros ND H1 H2.
  rewrite (sumF_ext
    (fun l => phi l * ((if label_eqb (n1 e) l then j e else 0) - (if label_eqb (n2 e) l then j e else 0)))
    (fun l => (if label_eqb l (n1 e) then phi l * j e else 0) - (if label_eqb l (n2 e) then phi l * j e else 0))).
  2:{ intros l. rewrite (label_eqb_sym (n1 e) l), (label_eqb_sym (n2 e) l).
      destruct (label_eqb l (n1 e)), (label_eqb l (n2 e)); ring. }
  rewrite (sumF_sub FOK).
  rewrite (pick_node (fun l => phi l * j e) (n1 e) all ND H1).
  rewrite (pick_node (fun l => phi l * j e) (n2 e) all ND H2).
  unfold gvolt. ring. Qed.

(* regrouping the total power by node *)
Lemma power_by_node (es : list A) (phi : label -> F) (j : A -> F) :
  sumF (fun e => gvolt phi e * j e) es = sumF (fun l => phi l * gkcl es j l) (gnodes es).
Proof.
  rewrite (sumF_ext (fun l => phi l * gkcl es j l)
    (fun l => sumF (fun e => phi l * ((if label_eqb (n1 e) l then j e else 0) - (if label_eqb (n2 e) l then j e else 0))) es)).
  2:{ intros l. unfold gkcl. rewrite (sumF_scal_l FOK). reflexivity. }
  rewrite (sumF_swap FOK). apply sumF_ext_in. intros e He. symmetry.
  apply edge_share; [apply gnodes_NoDup|apply gnodes_n1; exact He|apply gnodes_n2; exact He]. Qed.

Theorem tellegen_graph (es : list A) (phi : label -> F) (j : A -> F) :
  (forall node, gkcl es j node = 0) -> sumF (fun e => gvolt phi e * j e) es = 0.
Proof. intros Hk. rewrite power_by_node. apply (sumF_zero_in FOK). intros l _. rewrite Hk. ring. Qed.

(* KCL is linear in the flows: sums over a family of flows ... *)
Lemma gkcl_sumF {I} (es : list A) (jk : I -> A -> F) (ks : list I) (node : label) :
  gkcl es (fun e => sumF (fun k => jk k e) ks) node = sumF (fun k => gkcl es (jk k) node) ks.
Proof. unfold gkcl.
  rewrite (sumF_swap FOK (fun k e => (if label_eqb (n1 e) node then jk k e else 0)
                                     - (if label_eqb (n2 e) node then jk k e else 0)) ks es).
  apply sumF_ext. intros e.
  rewrite (sumF_sub FOK).
  destruct (label_eqb (n1 e) node), (label_eqb (n2 e) node); rewrite ?(sumF_zero FOK); reflexivity. Qed.

Lemma gvolt_sumF {I} (phik : I -> label -> F) (ks : list I) (e : A) :
  gvolt (fun l => sumF (fun k => phik k l) ks) e = sumF (fun k => gvolt (phik k) e) ks.
Proof. unfold gvolt. rewrite (sumF_sub FOK). reflexivity. Qed.

End Graph.

Arguments gkcl {A} n1 n2 {F}. Arguments gvolt {A} n1 n2 {F}. Arguments gnodes {A} n1 n2.

(* ... and images under additive maps between two value fields *)
Section GraphMap.
Variable A : Type.
Variables n1 n2 : A -> label.
Variables F G : fops.
Hypothesis FOK : fops_ok F.
Hypothesis GOK : fops_ok G.
Add Field Ff2 : (Kth F FOK).
Add Field Gf2 : (Kth G GOK).

Definition additive2 (h : F -> G) : Prop :=
  h (f0 F) = f0 G /\ (forall x y, h (fadd F x y) = fadd G (h x) (h y)) /\ (forall x, h (fopp F x) = fopp G (h x)).

Lemma additive2_sub (h : F -> G) : additive2 h -> forall x y, h (fsub F x y) = fsub G (h x) (h y).
Proof. intros [H0 [Ha Ho]] x y. replace (fsub F x y) with (fadd F x (fopp F y)) by ring.
  rewrite Ha, Ho. ring. Qed.

Lemma additive2_sumF {I} (h : F -> G) (f : I -> F) (l : list I) : additive2 h ->
  h (sumF f l) = sumF (fun k => h (f k)) l.
Proof. intros Hh. destruct Hh as [H0 [Ha Ho]].
  induction l as [|a l IH]; simpl; [exact H0|]. rewrite Ha, IH. reflexivity. Qed.

Lemma gkcl_additive2 (h : F -> G) (es : list A) (j : A -> F) (node : label) : additive2 h ->
  gkcl n1 n2 es (fun e => h (j e)) node = h (gkcl n1 n2 es j node).
Proof. intros Hh. unfold gkcl. rewrite (additive2_sumF h _ es Hh). apply sumF_ext. intros e.
  rewrite (additive2_sub h Hh). destruct Hh as [H0 _].
  destruct (label_eqb (n1 e) node), (label_eqb (n2 e) node); rewrite ?H0; reflexivity. Qed.

Lemma gvolt_additive2 (h : F -> G) (phi : label -> F) (e : A) : additive2 h ->
  gvolt n1 n2 (fun l => h (phi l)) e = h (gvolt n1 n2 phi e).
Proof. intros Hh. unfold gvolt. rewrite (additive2_sub h Hh). reflexivity. Qed.

End GraphMap.

Arguments additive2 {F G}.

(* ------------------------------------------------------------------------------------------------ *)
Section Tellegen.
Variable K : fops.
Hypothesis KOK : fops_ok K.
Add Field Kf5 : (Kth K KOK).
Notation "0" := (f0 K). Notation "1" := (f1 K).
Infix "+" := (fadd K). Infix "*" := (fmul K). Infix "-" := (fsub K). Notation "- x" := (fopp K x).
Infix "/" := (fdiv K).
Ltac feq x y := destruct (feqb_spec KOK x y).
Ltac leq a b := destruct (label_eqb_spec a b).

Definition additive (g : K -> K) : Prop :=
  g 0 = 0 /\ (forall x y, g (x + y) = g x + g y) /\ (forall x, g (- x) = - g x).

Lemma additive_is_additive2 (g : K -> K) : additive g <-> additive2 (F:=K) (G:=K) g.
Proof. unfold additive, additive2. tauto. Qed.

Lemma conj_additive : additive (fconj K).
Proof. split; [apply (conj_0 KOK)|]. split; [apply (Kconj_add K KOK)|apply (conj_opp KOK)]. Qed.

Lemma id_additive : additive (fun x => x).
Proof. split; [reflexivity|]. split; intros; reflexivity. Qed.

Lemma scal_additive (c : K) : additive (fun x => c * x).
Proof. split; [ring|]. split; intros; ring. Qed.

(* the circuit's KCL sum and branch voltage are the graph notions for node1/node2 *)
Lemma kcl_sum_gkcl (bs : list (branch K)) (j : branch K -> K) (node : label) :
  kcl_sum bs j node = gkcl (@node1 K) (@node2 K) bs j node.
Proof. reflexivity. Qed.

Lemma bvolt_gvolt (phi : label -> K) (b : branch K) : bvolt phi b = gvolt (@node1 K) (@node2 K) phi b.
Proof. reflexivity. Qed.

Lemma kcl_additive (g : K -> K) (bs : list (branch K)) (j : branch K -> K) (node : label) : additive g ->
  kcl_sum bs (fun b => g (j b)) node = g (kcl_sum bs j node).
Proof. intros Hg. apply (gkcl_additive2 (branch K) (@node1 K) (@node2 K) K K KOK KOK g bs j node).
  apply additive_is_additive2. exact Hg. Qed.

(* Tellegen: potentials of ANY assignment against flows of ANY assignment obeying KCL, also through an
   additive map (conjugation in particular) *)
Theorem tellegen (bs : list (branch K)) (phi : label -> K) (j : branch K -> K) :
  (forall node, kcl_sum bs j node = 0) ->
  forall g, additive g -> sumF (fun b => bvolt phi b * g (j b)) bs = 0.
Proof. intros Hk g Hg.
  apply (tellegen_graph (branch K) (@node1 K) (@node2 K) K KOK bs phi (fun b => g (j b))).
  intros node. rewrite <- kcl_sum_gkcl, (kcl_additive g bs j node Hg), Hk. exact (proj1 Hg). Qed.

Corollary tellegen_conj (bs : list (branch K)) (phi : label -> K) (j : branch K -> K) :
  (forall node, kcl_sum bs j node = 0) -> sumF (fun b => bvolt phi b * fconj K (j b)) bs = 0.
Proof. intros Hk. exact (tellegen bs phi j Hk (fconj K) conj_additive). Qed.

Corollary tellegen_plain (bs : list (branch K)) (phi : label -> K) (j : branch K -> K) :
  (forall node, kcl_sum bs j node = 0) -> sumF (fun b => bvolt phi b * j b) bs = 0.
Proof. intros Hk. exact (tellegen bs phi j Hk (fun x => x) id_additive). Qed.

(* ---------------- the reported power of a branch and the balance of a solved network ---------------- *)
(* what get_power returns (api_power) *)
Definition bpower (n : network K) (x : list K) (b : branch K) : K :=
  bvolt (phi_of n x) b * fconj K (reported n x b).

(* linear sources are reported in the generator direction: their term is delivered power *)
Definition psign (b : branch K) : K := if is_linear_source (el b) then - (1) else 1.

Lemma reported_psign (n : network K) (x : list K) (b : branch K) : reported n x b = psign b * flow_of n x b.
Proof. unfold reported, psign. destruct (is_linear_source (el b)); ring. Qed.

Lemma psign_conj (b : branch K) : fconj K (psign b) = psign b.
Proof. unfold psign. assert (C1 : fconj K 1 = 1).
  { assert (H := Kconj_mul K KOK 1 (fconj K 1)). rewrite (Kconj_inv K KOK) in H.
    replace (1 * fconj K 1) with (fconj K 1) in H by ring. rewrite (Kconj_inv K KOK) in H.
    transitivity (fconj K 1 * 1); [ring|symmetry; exact H]. }
  destruct (is_linear_source (el b)); [rewrite (conj_opp KOK), C1; reflexivity|exact C1]. Qed.

Lemma psign_sq (b : branch K) : psign b * psign b = 1.
Proof. unfold psign. destruct (is_linear_source (el b)); ring. Qed.

Lemma psign_bpower (n : network K) (x : list K) (b : branch K) :
  psign b * bpower n x b = bvolt (phi_of n x) b * fconj K (flow_of n x b).
Proof. unfold bpower. rewrite reported_psign, (Kconj_mul K KOK), psign_conj.
  transitivity ((psign b * psign b) * (bvolt (phi_of n x) b * fconj K (flow_of n x b))); [ring|].
  rewrite psign_sq. ring. Qed.

Theorem power_balance (n : network K) (x : list K) : wf n -> solves n x ->
  sumF (fun b => psign b * bpower n x b) (branches n) = 0.
Proof. intros WF S. destruct (mna_sound K KOK n WF x S) as [_ [Hk _]].
  rewrite (sumF_ext (fun b => psign b * bpower n x b)
                    (fun b => bvolt (phi_of n x) b * fconj K (flow_of n x b)) (branches n) (psign_bpower n x)).
  apply tellegen_conj. exact Hk. Qed.

(* the same without conjugation (what DCSolution multiplies) *)
Theorem power_balance_plain (n : network K) (x : list K) : wf n -> solves n x ->
  sumF (fun b => psign b * (bvolt (phi_of n x) b * reported n x b)) (branches n) = 0.
Proof. intros WF S. destruct (mna_sound K KOK n WF x S) as [_ [Hk _]].
  rewrite (sumF_ext (fun b => psign b * (bvolt (phi_of n x) b * reported n x b))
                    (fun b => bvolt (phi_of n x) b * flow_of n x b) (branches n)).
  2:{ intros b. rewrite reported_psign.
      transitivity ((psign b * psign b) * (bvolt (phi_of n x) b * flow_of n x b)); [ring|]. rewrite psign_sq. ring. }
  apply tellegen_plain. exact Hk. Qed.

(* ---------------- Ohm's law for what is reported of a passive branch ---------------- *)
Lemma passive_ZV_not_linear nm k (z : K) : is_linear_source (ZV nm k z 0) = false.
Proof. unfold is_linear_source, is_current_source, is_ideal_voltage_source, is_ideal_current_source. simpl.
  feq z 0; simpl.
  - feq 0 0; [reflexivity|congruence].
  - assert (E : 0 / z = 0) by (field; assumption). rewrite E.
    feq 0 0; [|congruence]. simpl. apply andb_false_r. Qed.

Lemma passive_YI_not_linear nm k (y : K) : is_linear_source (YI nm k y 0) = false.
Proof. unfold is_linear_source, is_current_source. simpl. feq 0 0; [|congruence]. simpl. apply andb_false_r. Qed.

Lemma passive_YI_not_ivs nm k (y : K) : is_ideal_voltage_source (YI nm k y 0) = false.
Proof. rewrite (ivs_noY K KOK). reflexivity. Qed.

(* impedance / resistor / inductor / short circuit  (NortenElement with V = 0):  v = Z * i.
   For Z = 0 this is the element law enforced by the solved system, hence the hypotheses. *)
Theorem ohm_Z (n : network K) (x : list K) (b : branch K) nm k z : wf n -> solves n x -> In b (branches n) ->
  el b = ZV nm k z 0 -> bvolt (phi_of n x) b = z * reported n x b.
Proof. intros WF S Hb He. unfold reported. rewrite He, passive_ZV_not_linear. unfold flow_of, finY.
  rewrite (ivs_noY K KOK), He. simpl. feq z 0; simpl.
  - subst z. destruct (mna_sound K KOK n WF x S) as [_ [_ Hl]]. specialize (Hl b Hb).
    unfold law in Hl. rewrite He in Hl. simpl in Hl. feq 0 0; [|congruence]. simpl in Hl. rewrite Hl. ring.
  - field. assumption. Qed.

(* the same for Z <> 0 holds of every vector, solved or not *)
Lemma ohm_Z_nz (n : network K) (x : list K) (b : branch K) nm k z : z <> 0 ->
  el b = ZV nm k z 0 -> bvolt (phi_of n x) b = z * reported n x b.
Proof. intros Hz He. unfold reported. rewrite He, passive_ZV_not_linear. unfold flow_of, finY.
  rewrite (ivs_noY K KOK), He. simpl. feq z 0; simpl; [contradiction|]. field. assumption. Qed.

(* admittance / conductor / capacitor / open circuit  (TheveninElement with I = 0):  i = Y * v *)
Theorem ohm_Y (n : network K) (x : list K) (b : branch K) nm k y :
  el b = YI nm k y 0 -> reported n x b = y * bvolt (phi_of n x) b.
Proof. intros He. unfold reported. rewrite He, passive_YI_not_linear. unfold flow_of, finY.
  rewrite He, passive_YI_not_ivs. simpl. ring. Qed.

(* ---------------- the power formulas of Circuit/solution.py ---------------- *)
(* ComplexSolution, peak_values = False: the phasors handed out are RMS values *)
Definition power_rms (v i : K) : K := v * fconj K i.
(* ComplexSolution, peak_values = True: 1/2 * V * conj(I) *)
Definition power_peak (half : K) (v i : K) : K := half * v * fconj K i.
(* DCSolution: V * I of the (real) values *)
Definition power_dc (v i : K) : K := v * i.
(* TimeDomainSolution / TransientSolution: pointwise product of the two signals *)
Definition power_td {T : Type} (v i : T -> K) : T -> K := fun t => v t * i t.

Lemma bpower_rms (n : network K) (x : list K) (b : branch K) :
  bpower n x b = power_rms (bvolt (phi_of n x) b) (reported n x b).
Proof. reflexivity. Qed.

Lemma conj_div_real (i s : K) : fconj K s = s -> s <> 0 -> fconj K (i / s) = fconj K i / s.
Proof. intros Hs Hn.
  assert (H : fconj K (i / s) * s = fconj K i).
  { rewrite <- Hs at 2. rewrite <- (Kconj_mul K KOK). f_equal. field. exact Hn. }
  rewrite <- H. field. exact Hn. Qed.

Lemma two_nz (s2 : K) : s2 * s2 = 1 + 1 -> s2 <> 0 -> 1 + 1 <> 0.
Proof. intros H2 Hn E. rewrite E in H2. apply Hn.
  feq s2 0; [assumption|]. exfalso. apply n.
  transitivity ((s2 * s2) / s2); [field; assumption|]. rewrite H2. field. assumption. Qed.

Lemma half_eq (half s2 : K) : half + half = 1 -> s2 * s2 = 1 + 1 -> s2 <> 0 -> half = 1 / (s2 * s2).
Proof. intros Hh H2 Hn. assert (T := two_nz s2 H2 Hn). rewrite H2.
  transitivity ((half + half) / (1 + 1)); [field; exact T|]. rewrite Hh. reflexivity. Qed.

(* peak phasors V, I  <->  RMS phasors V/sqrt 2, I/sqrt 2: the two formulas give the same power *)
Theorem peak_rms (half s2 v i : K) : half + half = 1 -> s2 * s2 = 1 + 1 -> fconj K s2 = s2 -> s2 <> 0 ->
  power_peak half v i = power_rms (v / s2) (i / s2).
Proof. intros Hh H2 Hc Hn. unfold power_peak, power_rms. rewrite (conj_div_real i s2 Hc Hn).
  rewrite (half_eq half s2 Hh H2 Hn). field. exact Hn. Qed.

(* balances of the solution kinds: all follow from [power_balance] by scaling *)
Theorem power_balance_peak (half : K) (n : network K) (x : list K) : wf n -> solves n x ->
  sumF (fun b => psign b * power_peak half (bvolt (phi_of n x) b) (reported n x b)) (branches n) = 0.
Proof. intros WF S.
  rewrite (sumF_ext (fun b => psign b * power_peak half (bvolt (phi_of n x) b) (reported n x b))
                    (fun b => half * (psign b * bpower n x b)) (branches n)).
  2:{ intros b. unfold power_peak, bpower. ring. }
  rewrite (sumF_scal_l KOK), (power_balance n x WF S). ring. Qed.

Theorem power_balance_rms (s2 : K) (n : network K) (x : list K) : fconj K s2 = s2 -> s2 <> 0 -> wf n -> solves n x ->
  sumF (fun b => psign b * power_rms (bvolt (phi_of n x) b / s2) (reported n x b / s2)) (branches n) = 0.
Proof. intros Hc Hn WF S.
  rewrite (sumF_ext (fun b => psign b * power_rms (bvolt (phi_of n x) b / s2) (reported n x b / s2))
                    (fun b => (1 / (s2 * s2)) * (psign b * bpower n x b)) (branches n)).
  2:{ intros b. unfold power_rms, bpower. rewrite (conj_div_real _ s2 Hc Hn). field. exact Hn. }
  rewrite (sumF_scal_l KOK), (power_balance n x WF S). ring. Qed.

Theorem power_balance_dc (n : network K) (x : list K) : wf n -> solves n x ->
  sumF (fun b => psign b * power_dc (bvolt (phi_of n x) b) (reported n x b)) (branches n) = 0.
Proof. exact (power_balance_plain n x). Qed.

(* time-indexed potentials and first->second flows obeying KCL at every instant: the instantaneous powers
   (passive sign convention) sum to zero at every instant *)
Theorem power_balance_td {T : Type} (bs : list (branch K)) (phi : T -> label -> K) (j : T -> branch K -> K) :
  (forall t node, kcl_sum bs (j t) node = 0) ->
  forall t, sumF (fun b => power_td (fun t => bvolt (phi t) b) (fun t => j t b) t) bs = 0.
Proof. intros Hk t. unfold power_td. apply tellegen_plain. apply Hk. Qed.

End Tellegen.

Arguments additive {K}. Arguments bpower {K}. Arguments psign {K}.
Arguments power_rms {K}. Arguments power_peak {K}. Arguments power_dc {K}. Arguments power_td {K T}.
