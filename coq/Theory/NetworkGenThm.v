(* Theory/NetworkGenThm.v — every definition of Gen/NetworkGen.v (regenerated from the Python source by
   tools/gen_network.py on every run) is equal to the hand-written model of Model/Network.v / Model/Transformers.v.
   An edit of the source that changes the generated text in a way that matters breaks one of these proofs. *)
From Coq Require Import String.
From Coq Require Import List Bool NArith Arith Lia.
From CC Require Import Theory.Field Theory.Labels Model.Network Model.Transformers Model.NetworkPrims Gen.NetworkGen
  Theory.Spec Theory.Mna Theory.Api.
Import ListNotations.

Lemma bind_ext {A B} (r : res A) (f g : A -> res B) : (forall a, f a = g a) -> bind r f = bind r g.
Proof. intros H. destruct r as [a|e]; simpl; [apply H|reflexivity]. Qed.

Lemma bind_ret {A} (r : res A) : bind r (fun a => Ok a) = r.
Proof. destruct r; reflexivity. Qed.

Lemma nth_firstn_lt {A} (l : list A) d : forall n i, i < n -> nth i (firstn n l) d = nth i l d.
Proof. induction l as [|a l IH]; intros n i H.
  - rewrite firstn_nil. reflexivity.
  - destruct n as [|n]; [lia|]. destruct i as [|i]; simpl; [reflexivity|]. apply IH. lia. Qed.

Lemma nth_skipn_add {A} (l : list A) d : forall k i, nth i (skipn k l) d = nth (k + i) l d.
Proof. induction l as [|a l IH]; intros k i.
  - rewrite skipn_nil. destruct i, k; reflexivity.
  - destruct k as [|k]; simpl; [reflexivity|]. apply IH. Qed.

(* ---------- the order on labels: total and transitive, hence sorting commutes with filtering ---------- *)
Lemma label_leb_total : forall a b, label_leb a b = false -> label_leb b a = true.
Proof. induction a as [|x a IH]; intros [|y b] H; simpl in *; try discriminate; try reflexivity.
  destruct (N.ltb x y) eqn:Lxy; [discriminate|]. destruct (N.eqb x y) eqn:Exy.
  - apply N.eqb_eq in Exy. subst y. rewrite Lxy, N.eqb_refl. apply IH, H.
  - apply N.ltb_ge in Lxy. apply N.eqb_neq in Exy.
    assert (Hlt : (y < x)%N) by lia. apply N.ltb_lt in Hlt. rewrite Hlt. reflexivity. Qed.

Lemma label_leb_trans : forall a b c, label_leb a b = true -> label_leb b c = true -> label_leb a c = true.
Proof. induction a as [|x a IH]; intros [|y b] [|z c] Hab Hbc; simpl in *; try discriminate; try reflexivity.
  destruct (N.ltb x y) eqn:Lxy.
  - apply N.ltb_lt in Lxy. destruct (N.ltb y z) eqn:Lyz.
    + apply N.ltb_lt in Lyz. assert (Hxz : (x < z)%N) by lia. apply N.ltb_lt in Hxz. rewrite Hxz. reflexivity.
    + destruct (N.eqb y z) eqn:Eyz; [|discriminate]. apply N.eqb_eq in Eyz. subst z.
      apply N.ltb_lt in Lxy. rewrite Lxy. reflexivity.
  - destruct (N.eqb x y) eqn:Exy; [|discriminate]. apply N.eqb_eq in Exy. subst y.
    destruct (N.ltb x z) eqn:Lxz; [reflexivity|]. destruct (N.eqb x z) eqn:Exz; [|discriminate].
    exact (IH b c Hab Hbc). Qed.

(* strongly sorted: every element is below all later ones *)
Fixpoint lsorted (l : list label) : Prop :=
  match l with [] => True | x :: r => (forall z, In z r -> label_leb x z = true) /\ lsorted r end.

Lemma linsert_In x z l : In z (linsert x l) -> z = x \/ In z l.
Proof. induction l as [|y r IH]; simpl.
  - intros [H|[]]; left; symmetry; exact H.
  - destruct (label_leb x y); simpl.
    + intros [H|H]; [left; symmetry; exact H|right; exact H].
    + intros [H|H]; [right; left; exact H|]. destruct (IH H) as [H1|H1]; [left; exact H1|right; right; exact H1]. Qed.

Lemma linsert_sorted x l : lsorted l -> lsorted (linsert x l).
Proof. induction l as [|y r IH]; simpl.
  - intros _. split; [intros z []|exact I].
  - intros [Hy Hr]. destruct (label_leb x y) eqn:Lxy; simpl.
    + split; [|split; assumption]. intros z [Hz|Hz]; [subst z; exact Lxy|].
      apply (label_leb_trans x y z Lxy). apply Hy, Hz.
    + split; [|apply IH, Hr]. intros z Hz. destruct (linsert_In x z r Hz) as [Hz1|Hz1].
      * subst z. apply label_leb_total, Lxy.
      * apply Hy, Hz1. Qed.

Lemma lsort_sorted l : lsorted (lsort l).
Proof. induction l as [|x r IH]; simpl; [exact I|]. apply linsert_sorted, IH. Qed.

Lemma linsert_below x l : (forall z, In z l -> label_leb x z = true) -> linsert x l = x :: l.
Proof. destruct l as [|y r]; simpl; [reflexivity|]. intros H. rewrite (H y (or_introl eq_refl)). reflexivity. Qed.

Lemma filter_linsert_out (p : label -> bool) x l : p x = false -> filter p (linsert x l) = filter p l.
Proof. intros Hx. induction l as [|y r IH]; simpl; [rewrite Hx; reflexivity|].
  destruct (label_leb x y); simpl; [rewrite Hx; reflexivity|]. rewrite IH. reflexivity. Qed.

Lemma filter_linsert_in (p : label -> bool) x l : p x = true -> lsorted l ->
  filter p (linsert x l) = linsert x (filter p l).
Proof. intros Hx. induction l as [|y r IH]; simpl; [rewrite Hx; reflexivity|].
  intros [Hy Hr]. destruct (label_leb x y) eqn:Lxy; simpl.
  - rewrite Hx. destruct (p y) eqn:Py; simpl.
    + rewrite Lxy. reflexivity.
    + symmetry. apply linsert_below. intros z Hz. apply filter_In in Hz. destruct Hz as [Hz _].
      apply (label_leb_trans x y z Lxy). apply Hy, Hz.
  - destruct (p y) eqn:Py; simpl.
    + rewrite Lxy, (IH Hr). reflexivity.
    + apply IH, Hr. Qed.

(* sorted([x for x in l if p(x)]) = [x for x in sorted(l) if p(x)] *)
Lemma lsort_filter (p : label -> bool) l : lsort (filter p l) = filter p (lsort l).
Proof. induction l as [|x r IH]; simpl; [reflexivity|]. destruct (p x) eqn:Px; simpl.
  - rewrite IH. symmetry. apply filter_linsert_in; [exact Px|apply lsort_sorted].
  - rewrite IH. symmetry. apply filter_linsert_out, Px. Qed.

Lemma combine_map_self {A B} (f : A -> B) (l : list A) : combine (map f l) l = map (fun x => (f x, x)) l.
Proof. induction l as [|a l IH]; simpl; [reflexivity|]. rewrite IH. reflexivity. Qed.

Lemma find_ext {A} (p q : A -> bool) (l : list A) : (forall a, p a = q a) -> find p l = find q l.
Proof. intros H. induction l as [|a l IH]; simpl; [reflexivity|]. rewrite H, IH. reflexivity. Qed.

Lemma while_fuel_ext {S X} (c c' : S -> option X) (b b' : S -> X -> S) :
  (forall s, c s = c' s) -> (forall s x, b s x = b' s x) ->
  forall fuel s, while_fuel fuel c b s = while_fuel fuel c' b' s.
Proof. intros Hc Hb. induction fuel as [|f IH]; intros s; simpl; [reflexivity|].
  rewrite Hc. destruct (c' s) as [x|]; [|reflexivity]. rewrite Hb. apply IH. Qed.

(* the module-private helpers (def _name) of the source are definitions of their own in Gen/NetworkGen.v, registered in the
   hint database py_private by the translator: the proofs about their callers look through them, whatever their names *)
Ltac unfold_private := try autounfold with py_private.

Section GenThm.
Variable K : fops.
Notation "0" := (f0 K). Notation "1" := (f1 K).
Ltac leq a b := destruct (label_eqb_spec a b).

(* ====================== elements.py ====================== *)
Lemma get_name_eq (e : elem K) : py_elements.get_name K e = ename e.
Proof. destruct e; reflexivity. Qed.
Lemma get_type_eq (e : elem K) : py_elements.get_type K e = ekind e.
Proof. destruct e; reflexivity. Qed.
Lemma get_Z_eq (e : elem K) : py_elements.get_Z K e = eZ e.
Proof. destruct e; reflexivity. Qed.
Lemma get_Y_eq (e : elem K) : py_elements.get_Y K e = eY e.
Proof. destruct e; reflexivity. Qed.
Lemma get_V_eq (e : elem K) : py_elements.get_V K e = eV e.
Proof. destruct e; reflexivity. Qed.
Lemma get_I_eq (e : elem K) : py_elements.get_I K e = eI e.
Proof. destruct e; reflexivity. Qed.

Lemma zero_division_values_eq : zero_division_values =
  [ (codes "TheveninElement"%string, codes "Z"%string, codes "inf"%string); (codes "NortenElement"%string, codes "Y"%string, codes "inf"%string);
    (codes "TheveninElement"%string, codes "V"%string, codes "nan"%string); (codes "NortenElement"%string, codes "I"%string, codes "nan"%string) ].
Proof. reflexivity. Qed.

Lemma impedance_eq n z : py_elements.impedance K n z = impedance n z.
Proof. reflexivity. Qed.
Lemma admittance_eq n y : py_elements.admittance K n y = admittance n y.
Proof. reflexivity. Qed.
Lemma resistor_eq n r : py_elements.resistor K n r = resistor n r.
Proof. reflexivity. Qed.
Lemma conductor_eq n g : py_elements.conductor K n g = conductor n g.
Proof. reflexivity. Qed.
Lemma voltage_source_eq n v z : py_elements.voltage_source K n v z = voltage_source n v z.
Proof. reflexivity. Qed.
Lemma current_source_eq n i y : py_elements.current_source K n i y = current_source n i y.
Proof. reflexivity. Qed.
Lemma open_circuit_eq n : py_elements.open_circuit K n = open_circuit n.
Proof. reflexivity. Qed.
Lemma short_circuit_eq n : py_elements.short_circuit K n = short_circuit n.
Proof. reflexivity. Qed.
Lemma element_defaults_eq :
  py_elements.voltage_source__default_Z K = 0 /\ py_elements.current_source__default_Y K = 0.
Proof. split; reflexivity. Qed.

Lemma is_voltage_source_eq (e : elem K) : py_elements.is_voltage_source K e = is_voltage_source e.
Proof. destruct e; reflexivity. Qed.
Lemma is_current_source_eq (e : elem K) : py_elements.is_current_source K e = is_current_source e.
Proof. destruct e; reflexivity. Qed.
Lemma is_ideal_voltage_source_eq (e : elem K) : py_elements.is_ideal_voltage_source K e = is_ideal_voltage_source e.
Proof. destruct e; reflexivity. Qed.
Lemma is_ideal_current_source_eq (e : elem K) : py_elements.is_ideal_current_source K e = is_ideal_current_source e.
Proof. destruct e; reflexivity. Qed.
Lemma is_active_eq (e : elem K) : py_elements.is_active K e = is_active e.
Proof. unfold py_elements.is_active, is_active. rewrite ?is_voltage_source_eq, ?is_current_source_eq.
  first [reflexivity | apply orb_comm]. Qed.
Lemma is_short_circuit_eq (e : elem K) : py_elements.is_short_circuit K e = is_short_circuit e.
Proof. destruct e; reflexivity. Qed.
Lemma is_open_circuit_eq (e : elem K) : py_elements.is_open_circuit K e = is_open_circuit e.
Proof. destruct e; reflexivity. Qed.

(* ====================== network.py ====================== *)
Lemma Branch_id_eq (b : branch K) : py_network.Branch_id K b = bid b.
Proof. destruct b as [n1 n2 e]; destruct e; reflexivity. Qed.

Lemma branch_ids_eq (n : network K) : py_network.Network_branch_ids K n = branch_ids n.
Proof. unfold py_network.Network_branch_ids, branch_ids. apply map_ext. exact Branch_id_eq. Qed.

Lemma node_labels_eq (n : network K) : py_network.Network_node_labels K n = node_labels n.
Proof. unfold py_network.Network_node_labels, node_labels. destruct (branches n); reflexivity. Qed.

Lemma number_of_nodes_eq (n : network K) : py_network.Network_number_of_nodes K n = length (node_labels n).
Proof. unfold py_network.Network_number_of_nodes. rewrite node_labels_eq. reflexivity. Qed.

Lemma is_zero_node_eq (n : network K) l : py_network.Network_is_zero_node K n l = label_eqb l (zero n).
Proof. reflexivity. Qed.

Lemma default_zero_label_eq : py_network.Network__default_node_zero_label K = codes "0"%string.
Proof. reflexivity. Qed.

(* Network.__post_init__, followed by the return of the constructed object, is [validate] *)
Lemma post_init_eq (n : network K) :
  bind (py_network.Network___post_init__ K n) (fun _ => Ok n) = validate n.
Proof. unfold py_network.Network___post_init__, validate.
  rewrite number_of_nodes_eq, node_labels_eq, branch_ids_eq. unfold set_len, set_of_list.
  destruct (negb (lmem (zero n) (node_labels n)) && negb (Nat.eqb (length (node_labels n)) 0)); [reflexivity|].
  destruct (negb (Nat.eqb (length (ldedup (branch_ids n))) (length (branches n)))); reflexivity. Qed.

Lemma Network_new_eq (bs : list (branch K)) z : py_network.Network__new K bs z = mk bs z.
Proof. unfold py_network.Network__new, mk. apply post_init_eq. Qed.

Lemma dict_get_eq (bs : list (branch K)) id :
  dict_get (map (fun b => (py_network.Branch_id K b, b)) bs) id = get_branch bs id.
Proof. induction bs as [|b bs IH]; simpl; [reflexivity|]. rewrite IH, Branch_id_eq. reflexivity. Qed.

Lemma getitem_eq (n : network K) id :
  py_network.Network___getitem__ K n id
  = match get_branch (branches n) id with Some b => Ok b | None => Err EKeyError end.
Proof. unfold py_network.Network___getitem__, dict_item.
  (* {b.id: b for b in branches}  or  dict(zip(branch_ids, branches)) *)
  try (unfold py_network.Network_branch_ids; rewrite combine_map_self; cbv beta).
  rewrite dict_get_eq. reflexivity. Qed.

(* ====================== label_mapping.py ====================== *)
Lemma alphabetic_node_mapper_eq (n : network K) : py_label_mapping.alphabetic_node_mapper K n = node_index n.
Proof. unfold py_label_mapping.alphabetic_node_mapper, node_index. unfold_private. unfold enum_mapping. cbv zeta.
  (* the reference node is removed after or before sorting *)
  rewrite node_labels_eq, ?lsort_filter. reflexivity. Qed.

Lemma filter_map_ids (p q : elem K -> bool) (bs : list (branch K)) : (forall e, p e = q e) ->
  map (fun b => py_network.Branch_id K b) (filter (fun b => p (el b)) bs) = map bid (filter (fun b => q (el b)) bs).
Proof. intros H. induction bs as [|b bs IH]; simpl; [reflexivity|]. rewrite H. destruct (q (el b)); simpl; [|exact IH].
  rewrite IH, Branch_id_eq. reflexivity. Qed.

Lemma alphabetic_current_source_mapper_eq (n : network K) :
  py_label_mapping.alphabetic_current_source_mapper K n = cs_index n.
Proof. unfold py_label_mapping.alphabetic_current_source_mapper, cs_index. unfold_private. unfold enum_mapping. cbv zeta.
  rewrite (filter_map_ids _ _ _ is_current_source_eq). reflexivity. Qed.

Lemma alphabetic_voltage_source_mapper_eq (n : network K) :
  py_label_mapping.alphabetic_voltage_source_mapper K n = vs_index n.
Proof. unfold py_label_mapping.alphabetic_voltage_source_mapper, vs_index. unfold_private. unfold enum_mapping. cbv zeta.
  rewrite (filter_map_ids _ _ _ is_ideal_voltage_source_eq). reflexivity. Qed.

Lemma alphabetic_source_mapper_eq (n : network K) : py_label_mapping.alphabetic_source_mapper K n = source_index n.
Proof. unfold py_label_mapping.alphabetic_source_mapper, source_index. unfold_private. unfold enum_mapping. cbv zeta.
  rewrite (filter_map_ids _ _ _ is_current_source_eq), (filter_map_ids _ _ _ is_ideal_voltage_source_eq). reflexivity. Qed.

Lemma default_mappers_eq (n : network K) :
  py_label_mapping.default_node_mapper K n = node_index n /\ py_label_mapping.default_source_mapper K n = source_index n.
Proof. split; [apply alphabetic_node_mapper_eq|apply alphabetic_source_mapper_eq]. Qed.

(* ====================== solution.py / bias_point_analysis.py ====================== *)
Lemma node_mapping_eq (s : solution K) : py_nodal.NodalAnalysisSolution__node_mapping K s = node_index (s_net s).
Proof. apply alphabetic_node_mapper_eq. Qed.
Lemma voltage_source_mapping_eq (s : solution K) :
  py_nodal.NodalAnalysisSolution__voltage_source_mapping K s = vs_index (s_net s).
Proof. apply alphabetic_voltage_source_mapper_eq. Qed.
Lemma current_source_mapping_eq (s : solution K) :
  py_nodal.NodalAnalysisSolution__current_source_mapping K s = cs_index (s_net s).
Proof. apply alphabetic_current_source_mapper_eq. Qed.

Lemma get_potential_eq (s : solution K) l :
  py_nodal.NodalAnalysisBiasPointSolution_get_potential K s l = get_potential s l.
Proof. unfold py_nodal.NodalAnalysisBiasPointSolution_get_potential, get_potential,
    py_nodal.NodalAnalysisBiasPointSolution__potentials.
  rewrite node_mapping_eq. destruct (label_eqb l (zero (s_net s))); [reflexivity|].
  unfold mapping_item, mapping_N, vec_item, slice_to. destruct (lmem l (node_index (s_net s))) eqn:E; simpl; [|reflexivity].
  rewrite nth_firstn_lt; [reflexivity|]. apply lindex_lt, lmem_spec, E. Qed.

Lemma get_voltage_eq (s : solution K) id :
  py_nodal.NodalAnalysisSolution_get_voltage K s id = get_voltage s id.
Proof. unfold py_nodal.NodalAnalysisSolution_get_voltage, get_voltage. rewrite getitem_eq.
  destruct (get_branch (branches (s_net s)) id) as [b|]; simpl; [|reflexivity].
  rewrite !get_potential_eq. reflexivity. Qed.

(* the voltage-source currents are read from the tail of the solution vector: the index arithmetic of the model
   ([length node_index + position]) is the slice [-N:] for a vector of the length the solver returns *)
Lemma get_current_eq (s : solution K) id :
  length (s_x s) = length (node_index (s_net s)) + length (vs_index (s_net s)) ->
  py_nodal.NodalAnalysisBiasPointSolution_get_current K s id = get_current s id.
Proof. intros HL. unfold py_nodal.NodalAnalysisBiasPointSolution_get_current, get_current,
    py_nodal.NodalAnalysisBiasPointSolution__voltage_source_currents.
  rewrite voltage_source_mapping_eq. unfold mapping_keys, mapping_item, mapping_N, vec_item.
  destruct (lmem id (vs_index (s_net s))) eqn:E; simpl.
  - f_equal. apply lmem_spec in E. pose proof (lindex_lt _ _ E) as Hlt. unfold slice_last.
    destruct (length (vs_index (s_net s))) as [|m] eqn:Em; [lia|].
    rewrite nth_skipn_add. f_equal. lia.
  - rewrite getitem_eq. destruct (get_branch (branches (s_net s)) id) as [b|] eqn:G; simpl; [|reflexivity].
    rewrite is_ideal_current_source_eq, is_current_source_eq, get_I_eq, get_Z_eq, get_voltage_eq.
    destruct (is_ideal_current_source (el b)); [reflexivity|].
    destruct (is_current_source (el b)); simpl.
    + destruct (get_voltage s id) as [v|e]; simpl; [|reflexivity]. reflexivity.
    + destruct (get_voltage s id) as [v|e]; simpl; reflexivity. Qed.

Lemma get_power_eq (s : solution K) id :
  length (s_x s) = length (node_index (s_net s)) + length (vs_index (s_net s)) ->
  py_nodal.NodalAnalysisSolution_get_power K s id = get_power s id.
Proof. intros HL. unfold py_nodal.NodalAnalysisSolution_get_power, get_power.
  rewrite get_voltage_eq, (get_current_eq s id HL). reflexivity. Qed.

(* ====================== transformers.py ====================== *)
Lemma switch_ground_node_eq (n : network K) g : py_transformers.switch_ground_node K n g = switch_ground_node n g.
Proof. unfold py_transformers.switch_ground_node, switch_ground_node. apply Network_new_eq. Qed.

Lemma remove_element_eq (n : network K) id : py_transformers.remove_element K n id = remove_element n id.
Proof. unfold py_transformers.remove_element, remove_element. rewrite getitem_eq.
  destruct (get_branch (branches n) id) as [b|]; simpl; [apply Network_new_eq|reflexivity]. Qed.

Lemma remove_open_circuit_elements_eq (n : network K) :
  py_transformers.remove_open_circuit_elements K n = remove_open_circuit_elements n.
Proof. unfold py_transformers.remove_open_circuit_elements, remove_open_circuit_elements. rewrite Network_new_eq.
  f_equal; apply filter_ext; intros b; rewrite ?is_open_circuit_eq; reflexivity. Qed.

Lemma short_circuitify_voltage_sources_eq (n : network K) keep :
  py_transformers.short_circuitify_voltage_sources K n keep = short_circuitify_voltage_sources n keep.
Proof. unfold py_transformers.short_circuitify_voltage_sources, short_circuitify_voltage_sources. unfold_private. cbv zeta.
  rewrite Network_new_eq.
  f_equal; apply map_ext; intros b; cbv beta; rewrite ?is_voltage_source_eq; unfold zero_in_voltage;
  rewrite ?get_name_eq, ?get_Z_eq, ?impedance_eq;
  destruct (in_keep (el b) keep), (is_voltage_source (el b)); reflexivity. Qed.

Lemma open_circuitify_current_sources_eq (n : network K) keep :
  py_transformers.open_circuitify_current_sources K n keep = open_circuitify_current_sources n keep.
Proof. unfold py_transformers.open_circuitify_current_sources, open_circuitify_current_sources. unfold_private. cbv zeta.
  rewrite Network_new_eq.
  f_equal; apply map_ext; intros b; cbv beta; rewrite ?is_current_source_eq; unfold zero_in_current;
  rewrite ?get_name_eq, ?get_Y_eq, ?admittance_eq;
  destruct (in_keep (el b) keep), (is_current_source (el b)); reflexivity. Qed.

(* the while loop of remove_short_circuit_elements: the model's loop is the same [while_fuel] iteration; condition and
   body are compared pointwise, so the proof does not depend on how the source spells them *)
Lemma rsc_loop_while z keep fuel : forall bs : list (branch K),
  rsc_loop fuel z keep bs
  = while_fuel fuel (find (is_target keep)) (fun bs' sc => contract (fst (sc_pair z sc)) (snd (sc_pair z sc)) bs') bs.
Proof. induction fuel as [|f IH]; intros bs; simpl; [reflexivity|].
  destruct (find (is_target keep) bs) as [sc|]; [|reflexivity]. apply IH. Qed.

(* one contraction step written as a single pass (relabel both end points, drop the branch when it became a loop, rebuild it
   only when an end point changed) is the model's three passes *)
Lemma merge_nodes_eq an rn (bs : list (branch K)) :
  flat_map (fun b => let n1 := if label_eqb (node1 b) an then rn else node1 b in
                     let n2 := if label_eqb (node2 b) an then rn else node2 b in
                     if label_eqb n1 n2 then []
                     else if label_eqb (node1 b) an || label_eqb (node2 b) an then [Build_branch n1 n2 (el b)] else [b]) bs
  = contract an rn bs.
Proof. unfold contract. induction bs as [|b bs IH]; [reflexivity|]. destruct b as [p q e].
  cbn [flat_map map filter node1 node2 el]. rewrite IH. clear IH.
  destruct (label_eqb p an) eqn:E1; destruct (label_eqb q an) eqn:E2; cbn [node1 node2 el orb]; rewrite ?E1, ?E2;
    cbn [node1 node2 el]; rewrite ?label_eqb_refl; cbn [negb app].
  - reflexivity.
  - destruct (label_eqb rn q); reflexivity.
  - destruct (label_eqb p rn); reflexivity.
  - destruct (label_eqb p q); reflexivity. Qed.

Lemma remove_short_circuit_elements_eq (n : network K) keep :
  py_transformers.remove_short_circuit_elements K n keep = remove_short_circuit_elements n keep.
Proof. unfold py_transformers.remove_short_circuit_elements, remove_short_circuit_elements, while_list. unfold_private. cbv zeta.
  rewrite Network_new_eq. f_equal. rewrite rsc_loop_while. apply while_fuel_ext.
  - intros bs. cbv beta. apply find_ext. intros b. unfold is_target. rewrite is_short_circuit_eq. reflexivity.
  - intros bs sc. unfold sc_pair, py_network.Network_is_zero_node.
    destruct (negb (label_eqb (node1 sc) (zero n))); cbn [fst snd]; cbv beta iota zeta;
      (* three comprehensions, as in the model, or one fused loop *)
      first [ reflexivity
            | match goal with |- _ = contract ?a ?r ?l => exact (merge_nodes_eq a r l) end ]. Qed.

Lemma remove_ideal_current_sources_eq (n : network K) keep :
  py_transformers.remove_ideal_current_sources K n keep = remove_ideal_current_sources n keep.
Proof. unfold py_transformers.remove_ideal_current_sources, remove_ideal_current_sources.
  rewrite open_circuitify_current_sources_eq. apply bind_ext. exact remove_open_circuit_elements_eq. Qed.

Lemma remove_ideal_voltage_sources_eq (n : network K) keep :
  py_transformers.remove_ideal_voltage_sources K n keep = remove_ideal_voltage_sources n keep.
Proof. unfold py_transformers.remove_ideal_voltage_sources, remove_ideal_voltage_sources.
  rewrite short_circuitify_voltage_sources_eq. apply bind_ext. intros m. apply remove_short_circuit_elements_eq. Qed.

Lemma passive_network_eq (n : network K) keep :
  py_transformers.passive_network K n keep = passive_network n keep.
Proof. unfold py_transformers.passive_network, passive_network.
  rewrite remove_ideal_current_sources_eq. apply bind_ext. intros m. apply remove_ideal_voltage_sources_eq. Qed.

Lemma keep_defaults_eq :
  py_transformers.remove_short_circuit_elements__default_keep K = [] /\
  py_transformers.short_circuitify_voltage_sources__default_keep K = [] /\
  py_transformers.open_circuitify_current_sources__default_keep K = [] /\
  py_transformers.remove_ideal_current_sources__default_keep K = [] /\
  py_transformers.remove_ideal_voltage_sources__default_keep K = [] /\
  py_transformers.passive_network__default_keep K = [].
Proof. repeat split; reflexivity. Qed.

End GenThm.

(* the length hypothesis of get_current_eq holds for every solution the model's solver returns *)
Lemma solve_network_length (K : fops) (KOK : fops_ok K) (n : network K) s : solve_network n = Ok s ->
  length (s_x s) = length (node_index (s_net s)) + length (vs_index (s_net s)).
Proof. unfold solve_network, assemble_check. destruct (validate n) as [n'|] eqn:V; simpl; [|discriminate].
  destruct (solve (mna_matrix n) (mna_rhs n)) as [x|] eqn:S; [|discriminate].
  intros H. injection H as <-. simpl. apply (solve_sound K KOK) in S. destruct S as [S1 _].
  rewrite S1. unfold mna_rhs. rewrite app_length, !map_length. reflexivity. Qed.
