(* Theory/NetBranchGenThm.v — SimpleCircuit/NetworkBranchTranslators.py as regenerated on every run (Gen/NetBranchGen.v,
   produced by tools/gen_netbranch.py in the vocabulary of Model/DrawingPrims.v and Model/NetBranch.v) against the
   hand-written model of Model/NetBranch.v:
   1. the table: lookup for EVERY class code, rows, key set;
   2. every generated function against expected_net (exact reading) and apply_net_translator (after erase_branch);
   3. DiagramTranslator.__call__ and network_translator specialised to the regenerated table;
   4. closed form of net_branches and its two failure modes;
   5. cross-checks: attribute provenance against Gen/DrawingGen.v, constructors against Gen/Tables.v.
   Gen/DrawingGen.v and Gen/NetBranchGen.v both define g_resistor_translator, g_impedance_translator,
   g_linear_*_source_translator and g_none_translator (the two Python modules use the same function names); nothing below
   mentions a function by its Python name: the statements go through the table, or through the generated aliases
   g_network_translator_of_<Class> (the function bound to elm.<Class>), so that renaming a function in the source is harmless. *)
From Coq Require Import String.
From Coq Require Import List Bool ZArith NArith Arith Lia.
From CC Require Gen.Tables Theory.Complex Theory.DrawingExamples.
From CC Require Import Theory.Field Theory.Labels Model.Network Model.Circuit Model.Drawing Model.DrawingPrims Gen.DrawingGen
  Theory.DrawingThm Theory.DrawingGenThm Model.NetBranch Gen.NetBranchGen.
Import ListNotations.
Local Open Scope nat_scope.
Local Open Scope string_scope.

(* every class code: 0, the 31 codes below 32 one by one, and the rest with the five low bits fixed *)
Ltac all_codes c := destruct c as [|c]; [|do 5 (try (destruct c as [c|c|]))].

(* ====================================================================================================== *)
(* 1. + 2. the table and the functions                                                                     *)
(* ====================================================================================================== *)
(* the hand-written reading of the module: what each kind of translator returns, value by value
   ([plain], [stored] of Theory/DrawingGenThm.v: self._x = x, self._x = x if not reverse else -x) *)
Definition expected_values_net (k : nkind) (rev : bool) : list (label * sval) :=
  match k with
  | NKResistor => [(lbl "R", plain "R")]
  | NKImpedance => [(lbl "Z", plain "Z")]
  | NKCurrentSource => [(lbl "I", stored rev "I")]
  | NKVoltageSource => [(lbl "V", SNeg (stored rev "V"))]
  end.
Definition expected_net (t : ntranslator) (s : symbol) (a b : label) : res (option gbranch) :=
  match t with
  | NBranch k => Ok (Some (mk_gbranch a b (nkind_name k) (s_name s) (expected_values_net k (s_reverse s))))
  | NMissing => Err EAttribute
  | NNone => Ok None
  end.

(* lookup, for every class code: bound exactly when the hand model has a translator, and then the bound function does what
   that translator says *)
Lemma net_table_expected (s : symbol) (a b : label) :
  match table_get g_network_translator_map (s_class s), net_translator_of (s_class s) with
  | Some f, Some t => f s [a; b] = expected_net t s a b
  | None, None => True
  | _, _ => False
  end.
Proof.
  destruct s as [c nm r st en id]. cbn [s_class].
  all_codes c; destruct r; vm_compute; first [reflexivity | exact I].
Qed.

Lemma net_table_domain (c : N) : table_get g_network_translator_map c = None <-> net_translator_of c = None.
Proof.
  pose proof (net_table_expected {| s_class := c; s_name := []; s_reverse := false; s_start := (0, 0)%Z; s_end := (0, 0)%Z;
                                     s_node_id := [] |} [] []) as H.
  cbn [s_class] in H.
  destruct (table_get g_network_translator_map c), (net_translator_of c); split; intros E;
    first [reflexivity | discriminate E | contradiction H].
Qed.

(* the keys are pairwise different (a dict literal with a repeated key is refused by the translator): lookup finds every row *)
Lemma net_table_keys_nodup : NoDup (map fst g_network_translator_map).
Proof.
  vm_compute.
  repeat (constructor; [simpl; intros H; repeat (destruct H as [H|H]; [discriminate H|]); exact H|]). constructor.
Qed.

Lemma table_get_In {A} (t : list (N * A)) c f : NoDup (map fst t) -> In (c, f) t -> table_get t c = Some f.
Proof.
  induction t as [|[c' f'] r IH]; intros Hn Hin; [destruct Hin|].
  inversion Hn as [|x l Hx Hr]; subst. simpl. destruct Hin as [E|Hin].
  - inversion E; subst. rewrite N.eqb_refl. reflexivity.
  - destruct (N.eqb_spec c' c) as [->|_]; [|apply IH; assumption].
    exfalso. apply Hx. simpl. change c with (fst (c, f)). apply in_map. exact Hin.
Qed.

(* row by row (whatever the order of the rows) *)
Lemma net_table_rows (c : N) (f : translator_fn gbranch) : In (c, f) g_network_translator_map ->
  exists t, net_translator_of c = Some t /\
            forall (s : symbol) (a b : label), s_class s = c -> f s [a; b] = expected_net t s a b.
Proof.
  intros Hin. pose proof (table_get_In _ c f net_table_keys_nodup Hin) as Hg.
  destruct (net_translator_of c) as [t|] eqn:Ht.
  - exists t. split; [reflexivity|]. intros s a b Hs. pose proof (net_table_expected s a b) as H.
    rewrite Hs, Hg, Ht in H. exact H.
  - apply net_table_domain in Ht. rewrite Ht in Hg. discriminate Hg.
Qed.

Lemma net_table_keys (c : N) : In c (map fst g_network_translator_map) <-> net_translator_of c <> None.
Proof.
  split.
  - intros Hin. apply in_map_iff in Hin. destruct Hin as [[c' f] [E Hin]]. simpl in E. subst c'.
    destruct (net_table_rows c f Hin) as [t [Ht _]]. rewrite Ht. discriminate.
  - intros Hn. destruct (table_get g_network_translator_map c) as [f|] eqn:Hg.
    + clear Hn. revert Hg. generalize g_network_translator_map as t. induction t as [|[c' f'] r IH]; simpl; [discriminate|].
      destruct (N.eqb_spec c' c) as [->|_]; [left; reflexivity|intros Hg; right; exact (IH Hg)].
    + apply net_table_domain in Hg. contradiction.
Qed.

(* the names of the functions the classes are bound to, as in the source *)
Lemma net_table_names_domain : map fst g_network_translator_names = map fst g_network_translator_map.
Proof. reflexivity. Qed.

(* no class outside the model is bound *)
Lemma net_table_unmodelled : g_network_translator_unmodelled = [].
Proof. reflexivity. Qed.

(* the reading, with the values forgotten down to the sign bookkeeping, is apply_net_translator *)
Definition res_omap {A B} (f : A -> B) (r : res (option A)) : res (option B) := res_map (option_map f) r.

Lemma expected_erased (t : ntranslator) (s : symbol) (a b : label) :
  res_omap erase_branch (expected_net t s a b) = res_omap Some (apply_net_translator t s a b).
Proof. destruct t as [k| |]; [destruct k; destruct (s_reverse s) eqn:E; cbn; rewrite ?E; reflexivity|reflexivity|reflexivity]. Qed.

(* each generated function against the hand model (the class hypothesis is the table key: type(element) decides both the
   function and what element.<attribute> means) *)
Lemma eq_gen_function (c : N) (k : nkind) (f : translator_fn gbranch) :
  In (c, f) g_network_translator_map -> net_translator_of c = Some (NBranch k) ->
  forall s a b, s_class s = c ->
  res_omap erase_branch (f s [a; b]) = res_omap Some (apply_net_translator (NBranch k) s a b).
Proof.
  intros Hin Ht s a b Hs. destruct (net_table_rows c f Hin) as [t [Ht' H]]. rewrite Ht in Ht'. inversion Ht'; subst t.
  rewrite (H s a b Hs). apply expected_erased.
Qed.

(* the function bound to each class (g_network_translator_of_<Class>: the generated alias of the function the dict literal
   binds to elm.<Class>, whatever its Python name) *)
Lemma eq_translator_Resistor s a b : s_class s = c_Resistor ->
  res_omap erase_branch (g_network_translator_of_Resistor s [a; b])
  = res_omap Some (apply_net_translator (NBranch NKResistor) s a b).
Proof. apply (eq_gen_function c_Resistor); [vm_compute; tauto|reflexivity]. Qed.
Lemma eq_translator_Impedance s a b : s_class s = c_Impedance ->
  res_omap erase_branch (g_network_translator_of_Impedance s [a; b])
  = res_omap Some (apply_net_translator (NBranch NKImpedance) s a b).
Proof. apply (eq_gen_function c_Impedance); [vm_compute; tauto|reflexivity]. Qed.
Lemma eq_translator_CurrentSource s a b : s_class s = c_CurrentSource ->
  res_omap erase_branch (g_network_translator_of_CurrentSource s [a; b])
  = res_omap Some (apply_net_translator (NBranch NKCurrentSource) s a b).
Proof. apply (eq_gen_function c_CurrentSource); [vm_compute; tauto|reflexivity]. Qed.
Lemma eq_translator_VoltageSource s a b : s_class s = c_VoltageSource ->
  res_omap erase_branch (g_network_translator_of_VoltageSource s [a; b])
  = res_omap Some (apply_net_translator (NBranch NKVoltageSource) s a b).
Proof. apply (eq_gen_function c_VoltageSource); [vm_compute; tauto|reflexivity]. Qed.
(* the remaining six do not read the element: no class hypothesis *)
Lemma eq_translator_RealCurrentSource s a b :
  res_omap erase_branch (g_network_translator_of_RealCurrentSource s [a; b]) = res_omap Some (apply_net_translator NMissing s a b).
Proof. reflexivity. Qed.
Lemma eq_translator_RealVoltageSource s a b :
  res_omap erase_branch (g_network_translator_of_RealVoltageSource s [a; b]) = res_omap Some (apply_net_translator NMissing s a b).
Proof. reflexivity. Qed.
Lemma eq_translator_none s a b :
  g_network_translator_of_Line s [a; b] = Ok None /\ g_network_translator_of_Node s [a; b] = Ok None /\
  g_network_translator_of_LabelNode s [a; b] = Ok None /\ g_network_translator_of_Ground s [a; b] = Ok None.
Proof. repeat split; reflexivity. Qed.
(* the alias of a class IS the function the table binds to it *)
Lemma aliases_ok :
  table_get g_network_translator_map c_Resistor = Some g_network_translator_of_Resistor /\
  table_get g_network_translator_map c_Impedance = Some g_network_translator_of_Impedance /\
  table_get g_network_translator_map c_CurrentSource = Some g_network_translator_of_CurrentSource /\
  table_get g_network_translator_map c_VoltageSource = Some g_network_translator_of_VoltageSource /\
  table_get g_network_translator_map c_RealCurrentSource = Some g_network_translator_of_RealCurrentSource /\
  table_get g_network_translator_map c_RealVoltageSource = Some g_network_translator_of_RealVoltageSource /\
  table_get g_network_translator_map c_Line = Some g_network_translator_of_Line /\
  table_get g_network_translator_map c_Node = Some g_network_translator_of_Node /\
  table_get g_network_translator_map c_LabelNode = Some g_network_translator_of_LabelNode /\
  table_get g_network_translator_map c_Ground = Some g_network_translator_of_Ground.
Proof. repeat split; reflexivity. Qed.

(* the constructors that are called although Network/elements.py does not define them, as listed by the translator *)
Lemma missing_ctors_ok (g : label) :
  In g (map snd g_missing_network_ctors) <-> g = lbl "linear_current_source" \/ g = lbl "linear_voltage_source".
Proof. vm_compute. intuition congruence. Qed.
(* exactly the classes the hand model marks NMissing are bound to a function of that list *)
Lemma missing_classes (c : N) :
  net_translator_of c = Some NMissing <->
  exists f, table_get g_network_translator_names c = Some f /\ In f (map fst g_missing_network_ctors).
Proof.
  split.
  - intros H. all_codes c; try (vm_compute in H; discriminate H);
      eexists; (split; [vm_compute; reflexivity|vm_compute; tauto]).
  - intros [f [Hf Hin]]. all_codes c; try (vm_compute in Hf; discriminate Hf); try reflexivity;
      vm_compute in Hf; inversion Hf; subst f; vm_compute in Hin;
      repeat (destruct Hin as [Hin|Hin]; [discriminate Hin|]); destruct Hin.
Qed.

(* the sign statement spelled out: what reaches the element constructor, in terms of the symbol constructor's argument *)
Lemma voltage_source_sign s a b : s_class s = c_VoltageSource ->
  g_network_translator_of_VoltageSource s [a; b]
  = Ok (Some (mk_gbranch a b (lbl "voltage_source") (s_name s)
               [(lbl "V", if s_reverse s then SNeg (SNeg (SArg (lbl "V"))) else SNeg (SArg (lbl "V")))]))
  /\ option_map nb_neg (erase_branch (mk_gbranch a b (lbl "voltage_source") (s_name s)
               [(lbl "V", if s_reverse s then SNeg (SNeg (SArg (lbl "V"))) else SNeg (SArg (lbl "V")))]))
     = Some (negb (s_reverse s)).
Proof.
  destruct s as [c nm r st en id]. cbn [s_class s_reverse s_name]. intros ->. destruct r; split; reflexivity.
Qed.
Lemma current_source_sign s a b : s_class s = c_CurrentSource ->
  g_network_translator_of_CurrentSource s [a; b]
  = Ok (Some (mk_gbranch a b (lbl "current_source") (s_name s)
               [(lbl "I", if s_reverse s then SNeg (SArg (lbl "I")) else SArg (lbl "I"))]))
  /\ option_map nb_neg (erase_branch (mk_gbranch a b (lbl "current_source") (s_name s)
               [(lbl "I", if s_reverse s then SNeg (SArg (lbl "I")) else SArg (lbl "I"))]))
     = Some (s_reverse s).
Proof.
  destruct s as [c nm r st en id]. cbn [s_class s_reverse s_name]. intros ->. destruct r; split; reflexivity.
Qed.

(* erase_branch undoes reify_branch: the hand branches are a retract of the generated ones *)
Lemma erase_reify (b : nbranch) : erase_branch (reify_branch b) = Some b.
Proof. destruct b as [k nm n1 n2 ng]. destruct k, ng; reflexivity. Qed.

(* ====================================================================================================== *)
(* 3. DiagramTranslator.__call__ and network_translator with the regenerated table                         *)
(* ====================================================================================================== *)
Lemma eq_net_call d oa ou s : enum oa (all_nodes d) ->
  res_omap erase_branch (g_DiagramTranslator_call g_network_translator_map d oa ou s)
  = res_omap Some (net_translate_symbol (get_node_index d oa ou) s).
Proof.
  intros Hoa. rewrite (call_unfold _ d oa ou s Hoa). unfold net_translate_symbol.
  destruct (get_node_index d oa ou (s_start s)) as [a|].
  2:{ destruct (table_get _ _), (net_translator_of _); reflexivity. }
  destruct (get_node_index d oa ou (s_end s)) as [b|].
  2:{ destruct (table_get _ _), (net_translator_of _); reflexivity. }
  pose proof (net_table_expected s a b) as HT.
  destruct (table_get g_network_translator_map (s_class s)) as [f|], (net_translator_of (s_class s)) as [t|];
    try contradiction HT; [|reflexivity].
  rewrite HT. rewrite <- expected_erased. destruct t as [k| |]; reflexivity.
Qed.

Lemma net_map_res d oa ou : enum oa (all_nodes d) -> forall l,
  res_map (fun x => map erase_branch (filter_not_none x)) (map_res (g_DiagramTranslator_call g_network_translator_map d oa ou) l)
  = res_map (map Some) (net_translate_all (get_node_index d oa ou) l).
Proof.
  intros Hoa. induction l as [|s l IH]; [reflexivity|].
  cbn [map_res net_translate_all]. pose proof (eq_net_call d oa ou s Hoa) as Hc.
  destruct (g_DiagramTranslator_call g_network_translator_map d oa ou s) as [o|e];
    destruct (net_translate_symbol (get_node_index d oa ou) s) as [o'|e']; cbn in Hc; try discriminate Hc.
  - cbn [bind]. destruct (map_res _ l) as [ys|e]; destruct (net_translate_all (get_node_index d oa ou) l) as [cs|e'];
      cbn in IH; try discriminate IH; cbn [bind res_map]; [|inversion IH; reflexivity].
    inversion IH as [IH']. inversion Hc as [Hc']. f_equal.
    destruct o as [g|], o' as [x|]; cbn in Hc'; try discriminate Hc'; cbn [filter_not_none map]; [|exact IH'].
    inversion Hc' as [Hg]. rewrite IH'. reflexivity.
  - inversion Hc; reflexivity.
Qed.

(* network_translator: the specialisation of eq_network_translator (Theory/DrawingGenThm.v, stated there for an arbitrary
   map) to the regenerated network_translator_map *)
Theorem eq_net_network_translator d oa ou : enum oa (all_nodes d) ->
  res_map erase_net (g_network_translator g_network_translator_map d oa ou) = res_map some_net (net_branches d oa ou).
Proof.
  intros Hoa. rewrite (eq_network_translator _ d oa ou Hoa). unfold net_branches.
  pose proof (net_map_res d oa ou Hoa d) as H.
  destruct (map_res _ d) as [ys|e]; destruct (net_translate_all (get_node_index d oa ou) d) as [cs|e'];
    cbn in H; try discriminate H; cbn [bind]; [|inversion H; reflexivity].
  inversion H as [H']. destruct (ground_label d oa ou) as [g|e]; [|reflexivity].
  cbn. unfold erase_net, some_net. cbn [fst snd]. rewrite H'. reflexivity.
Qed.

(* ====================================================================================================== *)
(* 4. net_branches in closed form; failures                                                                *)
(* ====================================================================================================== *)
(* the branch of one symbol under a total labelling *)
Definition nbranch_of (lab : point -> label) (s : symbol) : option nbranch :=
  match net_translator_of (s_class s) with
  | Some (NBranch k) => Some {| nb_kind := k; nb_name := s_name s; nb_node1 := lab (s_start s); nb_node2 := lab (s_end s);
                                nb_neg := net_neg k (s_reverse s) |}
  | _ => None
  end.
(* the classes network_translator can digest: those bound to a working function *)
Definition net_ok (c : N) : bool :=
  match net_translator_of c with Some (NBranch _) | Some NNone => true | _ => false end.

Lemma net_translator_scope (c : N) : net_translator_of c <> None -> in_scope c = true.
Proof. intros H. all_codes c; try reflexivity; exfalso; apply H; reflexivity. Qed.

Lemma net_translate_all_ok idx lab d :
  (forall s, In s d -> net_ok (s_class s) = true /\ idx (s_start s) = Some (lab (s_start s))
                       /\ idx (s_end s) = Some (lab (s_end s))) ->
  net_translate_all idx d = Ok (omap (nbranch_of lab) d).
Proof.
  induction d as [|s d IH]; intros H; simpl; [reflexivity|].
  destruct (H s (or_introl eq_refl)) as [Ht [Ha Hb]].
  rewrite IH by (intros s' Hs'; apply H; right; exact Hs').
  unfold net_translate_symbol, nbranch_of, net_ok in *. rewrite Ha, Hb.
  destruct (net_translator_of (s_class s)) as [[k| |]|]; try discriminate Ht; reflexivity.
Qed.

Lemma index_of_symbol d oa ou s : enum oa (all_nodes d) -> enum ou (unique_nodes d oa) ->
  In s d -> in_scope (s_class s) = true ->
  get_node_index d oa ou (s_start s) = Some (label_of d oa ou (s_start s))
  /\ get_node_index d oa ou (s_end s) = Some (label_of d oa ou (s_end s)).
Proof.
  intros Hoa Hou Hs H1. unfold label_of.
  assert (Ha : In (s_start s) (all_nodes d)) by (apply all_nodes_In; exists s; auto).
  assert (Hb : In (s_end s) (all_nodes d)) by (apply all_nodes_In; exists s; auto).
  destruct (index_total d oa ou Hoa Hou _ Ha) as [la Hla]. destruct (index_total d oa ou Hoa Hou _ Hb) as [lb Hlb].
  rewrite Hla, Hlb. auto.
Qed.

Theorem net_branches_spec d oa ou : enum oa (all_nodes d) -> enum ou (unique_nodes d oa) ->
  (forall s, In s d -> net_ok (s_class s) = true) ->
  net_branches d oa ou = bind (ground_label d oa ou) (fun g => Ok (omap (nbranch_of (label_of d oa ou)) d, g)).
Proof.
  intros Hoa Hou Hd. unfold net_branches.
  rewrite (net_translate_all_ok _ (label_of d oa ou)); [reflexivity|].
  intros s Hs. split; [exact (Hd s Hs)|]. apply index_of_symbol; try assumption.
  apply net_translator_scope. pose proof (Hd s Hs) as H. unfold net_ok in H.
  destruct (net_translator_of (s_class s)); [discriminate|discriminate H].
Qed.

(* a class without entry: UnknownTranslator, unless a missing constructor is hit first *)
Lemma net_translate_all_unknown idx d :
  (forall s, In s d -> net_translator_of (s_class s) <> Some NMissing) ->
  (exists s, In s d /\ net_translator_of (s_class s) = None) ->
  net_translate_all idx d = Err EUnknownComponent.
Proof.
  induction d as [|s d IH]; intros Hm [x [Hx Hn]]; [destruct Hx|]. simpl.
  assert (Hs : net_translator_of (s_class s) <> Some NMissing) by (apply Hm; left; reflexivity).
  unfold net_translate_symbol.
  destruct (net_translator_of (s_class s)) as [t|] eqn:Ht; [|reflexivity].
  destruct (idx (s_start s)); [|reflexivity]. destruct (idx (s_end s)); [|reflexivity].
  assert (Hr : net_translate_all idx d = Err EUnknownComponent).
  { apply IH; [intros s' Hs'; apply Hm; right; exact Hs'|].
    destruct Hx as [->|Hx]; [rewrite Hn in Ht; discriminate Ht|exists x; auto]. }
  destruct t as [k| |]; [|contradiction Hs; reflexivity|]; cbn; rewrite Hr; reflexivity.
Qed.
Theorem net_branches_unknown d oa ou :
  (forall s, In s d -> net_translator_of (s_class s) <> Some NMissing) ->
  (exists s, In s d /\ net_translator_of (s_class s) = None) ->
  net_branches d oa ou = Err EUnknownComponent.
Proof. intros Hm Hx. unfold net_branches. rewrite (net_translate_all_unknown _ d Hm Hx). reflexivity. Qed.

(* every class has an entry, one of them calls a missing constructor: AttributeError *)
Lemma net_translate_all_missing idx d :
  (forall s, In s d -> net_translator_of (s_class s) <> None /\ idx (s_start s) <> None /\ idx (s_end s) <> None) ->
  (exists s, In s d /\ net_translator_of (s_class s) = Some NMissing) ->
  net_translate_all idx d = Err EAttribute.
Proof.
  induction d as [|s d IH]; intros Hd [x [Hx Hn]]; [destruct Hx|]. simpl.
  destruct (Hd s (or_introl eq_refl)) as [Ht [Ha Hb]]. unfold net_translate_symbol.
  destruct (net_translator_of (s_class s)) as [t|] eqn:Et; [|contradiction Ht; reflexivity].
  destruct (idx (s_start s)); [|contradiction Ha; reflexivity]. destruct (idx (s_end s)); [|contradiction Hb; reflexivity].
  destruct t as [k| |]; [|reflexivity|];
    (assert (Hr : net_translate_all idx d = Err EAttribute);
     [apply IH; [intros s' Hs'; apply Hd; right; exact Hs'|];
      destruct Hx as [->|Hx]; [rewrite Hn in Et; discriminate Et|exists x; auto]
     |cbn; rewrite Hr; reflexivity]).
Qed.
Theorem net_branches_missing d oa ou : enum oa (all_nodes d) -> enum ou (unique_nodes d oa) ->
  (forall s, In s d -> net_translator_of (s_class s) <> None) ->
  (exists s, In s d /\ net_translator_of (s_class s) = Some NMissing) ->
  net_branches d oa ou = Err EAttribute.
Proof.
  intros Hoa Hou Hd Hx. unfold net_branches. rewrite (net_translate_all_missing _ d); [reflexivity| |exact Hx].
  intros s Hs. split; [exact (Hd s Hs)|].
  destruct (index_of_symbol d oa ou s Hoa Hou Hs (net_translator_scope _ (Hd s Hs))) as [Ha Hb].
  rewrite Ha, Hb. split; discriminate.
Qed.

(* ------------------------------------------------------------------ the two routes from a drawing to a network *)
(* circuit_translator + transform_circuit versus network_translator, on the hand models.  Circuit/transformers.py turns a
   dc_voltage_source / dc_current_source component into Branch(nodes[0], nodes[1], voltage_source(id, V, ..)), resp.
   current_source(id, I, ..): terminal order and value are kept.  For a source, the branch b -> a carrying x is the branch
   a -> b carrying -x; [oriented_neg] is the sign of the value with respect to the orientation a -> b ('start' -> 'end'). *)
Definition oriented_neg (a n1 : label) (neg : bool) : bool := if label_eqb n1 a then neg else negb neg.
Definition component_path_neg (s : symbol) (a b : label) : option bool :=
  match translator_of (s_class s) with
  | Some t => match apply_translator t s a b with
              | Some c => match c_nodes c with n1 :: _ => Some (oriented_neg a n1 (c_neg c)) | [] => None end
              | None => None
              end
  | None => None
  end.
Definition network_path_neg (s : symbol) (a b : label) : option bool :=
  match net_translator_of (s_class s) with
  | Some t => match apply_net_translator t s a b with
              | Ok (Some nb) => Some (oriented_neg a (nb_node1 nb) (nb_neg nb))
              | _ => None
              end
  | None => None
  end.

Lemma paths_agree s a b : a <> b ->
  s_class s = c_Resistor \/ s_class s = c_Impedance \/ s_class s = c_CurrentSource ->
  component_path_neg s a b = network_path_neg s a b /\ network_path_neg s a b <> None.
Proof.
  intros Hab Hc. destruct s as [c nm r st en id]. cbn [s_class] in Hc. unfold component_path_neg, network_path_neg, oriented_neg.
  assert (Hba : label_eqb b a = false) by (destruct (label_eqb_spec b a) as [E|_]; [contradiction Hab; auto|reflexivity]).
  destruct Hc as [Hc|[Hc|Hc]]; subst c; destruct r; cbn; rewrite ?label_eqb_refl, ?Hba; split; first [reflexivity|discriminate].
Qed.
(* a VoltageSource symbol gets OPPOSITE polarities on the two routes, reversed or not *)
Lemma paths_voltage_source_opposite s a b : a <> b -> s_class s = c_VoltageSource ->
  component_path_neg s a b = Some (s_reverse s) /\ network_path_neg s a b = Some (negb (s_reverse s)).
Proof.
  intros Hab Hc. destruct s as [c nm r st en id]. cbn [s_class] in Hc. subst c.
  unfold component_path_neg, network_path_neg, oriented_neg.
  assert (Hba : label_eqb b a = false) by (destruct (label_eqb_spec b a) as [E|_]; [contradiction Hab; auto|reflexivity]).
  destruct r; cbn; rewrite ?label_eqb_refl, ?Hba; split; reflexivity.
Qed.

(* ====================================================================================================== *)
(* 5. cross-checks against the other generated files                                                       *)
(* ====================================================================================================== *)
(* what the symbol constructors store, spelled out: the theorems above speak about the constructor ARGUMENT because of
   these four rows (an edit of Elements.py such as `self._V = V` changes them) *)
Lemma net_attr_values (s : symbol) :
  (s_class s = c_Resistor -> attr_value g_net_attr_prov s (lbl "R") = plain "R") /\
  (s_class s = c_Impedance -> attr_value g_net_attr_prov s (lbl "Z") = plain "Z") /\
  (s_class s = c_CurrentSource -> attr_value g_net_attr_prov s (lbl "I") = stored (s_reverse s) "I") /\
  (s_class s = c_VoltageSource -> attr_value g_net_attr_prov s (lbl "V") = stored (s_reverse s) "V").
Proof.
  destruct s as [c nm r st en id]. cbn [s_class s_reverse].
  repeat split; intros ->; destruct r; reflexivity.
Qed.

Definition prov_eqb (p q : prov) : bool :=
  match p, q with
  | PArg a, PArg b | PNegIfReverse a, PNegIfReverse b => label_eqb a b
  | _, _ => false
  end.
(* ... and they are the rows Gen/DrawingGen.v derives for the component translators from the same Elements.py *)
Lemma net_attr_prov_consistent :
  forallb (fun r => match r with (c, a, p) =>
             match prov_lookup g_attr_prov c a with Some q => prov_eqb p q | None => false end end) g_net_attr_prov = true.
Proof. vm_compute. reflexivity. Qed.

(* the constructors the hand model names exist in Network/elements.py with `name` and the kind's key as the only
   parameters without default (as read by tools/gen_netbranch.py), and Gen/Tables.v (tools/gen_tables.py) records the same
   parameter list and the constructor's own name as the stored type string *)
Definition params_eqb (p q : list (label * bool)) : bool :=
  Nat.eqb (length p) (length q) &&
  forallb (fun x => label_eqb (fst (fst x)) (fst (snd x)) && Bool.eqb (snd (fst x)) (snd (snd x))) (combine p q).
Definition ctor_checked (k : nkind) : bool :=
  match find (fun e => label_eqb (fst e) (nkind_name k)) g_network_ctors_used with
  | Some (_, ps) =>
      existsb (fun p => label_eqb (fst p) (lbl "name")) ps && existsb (fun p => label_eqb (fst p) (nkind_key k)) ps
      && forallb (fun p => Bool.eqb (snd p) (negb (label_eqb (fst p) (lbl "name") || label_eqb (fst p) (nkind_key k)))) ps
      && existsb (fun e => label_eqb (fst (fst e)) (nkind_name k) && params_eqb (snd (fst e)) ps
                           && forallb (fun ct => label_eqb (snd ct) (nkind_name k)) (snd e)) CC.Gen.Tables.element_ctors
  | None => false
  end.
Lemma net_ctors_ok (k : nkind) : ctor_checked k = true.
Proof. destruct k; vm_compute; reflexivity. Qed.

(* ====================================================================================================== *)
(* 6. concrete drawings for the Examples of Properties/C13d_branches.v                                      *)
(* ====================================================================================================== *)
(* ex_ring of Theory/DrawingExamples.v (V1 - R1 - wire ring - R2 - wire back, ground on the source's start; orders
   ex_ring_oa / ex_ring_ou as observed on the live objects) with its first symbol replaced: the points, hence all_nodes,
   unique_nodes and the admissible orders, stay the same *)
Definition ex_net_first (s : symbol) : drawing := s :: tl DrawingExamples.ex_ring.
Definition ex_net_plain : drawing := DrawingExamples.ex_ring.
Definition ex_net_reversed : drawing := ex_net_first (DrawingExamples.vsrc "V1" true (DrawingExamples.gp 0 0) (DrawingExamples.gp 0 1)).
Definition ex_net_isrc (rev : bool) : drawing :=
  ex_net_first (DrawingExamples.sym c_CurrentSource "I1" rev (DrawingExamples.gp 0 0) (DrawingExamples.gp 0 1) "").
Definition ex_net_real : drawing :=
  ex_net_first (DrawingExamples.sym c_RealVoltageSource "V1" false (DrawingExamples.gp 0 0) (DrawingExamples.gp 0 1) "").
(* R2 replaced by a capacitor *)
Definition ex_net_capacitor : drawing :=
  map (fun s => if label_eqb (s_name s) (lbl "R2")
                then DrawingExamples.sym c_Capacitor "C2" false (s_start s) (s_end s) "" else s) DrawingExamples.ex_ring.
(* both defects in one drawing, in either order: the first failing symbol decides *)
Definition ex_net_capacitor_then_real : drawing :=
  (ex_net_capacitor ++ [DrawingExamples.sym c_RealCurrentSource "I9" false (DrawingExamples.gp 0 0) (DrawingExamples.gp 0 1) ""])%list.
Definition ex_net_real_then_capacitor : drawing :=
  (ex_net_real ++ [DrawingExamples.sym c_Capacitor "C9" false (DrawingExamples.gp 0 0) (DrawingExamples.gp 0 1) ""])%list.
(* values of the constructor arguments, over the Gaussian rationals: V1(V=10), I1(I=2), R1(R=2), R2(R=3) *)
Definition ex_net_val (name key : label) : Complex.CQ :=
  if label_eqb name (lbl "V1") then Complex.cq 10 1 0 1
  else if label_eqb name (lbl "I1") then Complex.cq 2 1 0 1
  else if label_eqb name (lbl "R1") then Complex.cq 2 1 0 1
  else Complex.cq 3 1 0 1.
Definition ex_net_oa : list point := DrawingExamples.ex_ring_oa.
Definition ex_net_ou : list point := DrawingExamples.ex_ring_ou.
(* the hand model's branches as a network of Model/Network.v, solved: potential of node '3', current through R1, voltage
   of the branch V1 *)
Definition ex_net_observe (d : drawing) : res (Complex.CQ * Complex.CQ * Complex.CQ) :=
  bind (net_branches d ex_net_oa ex_net_ou) (fun p =>
  bind (solve_network (denote_network Complex.CQ ex_net_val p)) (fun s =>
  bind (get_potential s (lbl "3")) (fun phi =>
  bind (get_current s (lbl "R1")) (fun i =>
  bind (get_voltage s (lbl "V1")) (fun v => Ok (phi, i, v)))))).
