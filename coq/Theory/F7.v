(* Theory/F7.v — a second executable instance of the field interface: the field with 7 elements and its
   "complex numbers" F7[i] (49 elements; -1 is not a square mod 7).  It contains a square root of 2 (3*3 = 9 = 2)
   fixed by conjugation, which the Gaussian rationals do not: used to show that the hypotheses about sqrt 2
   (peak <-> RMS phasors) are satisfiable. *)
From Coq Require Import List Bool Field Ring Arith.
From CC Require Import Theory.Field Theory.Complex.

Inductive F7 := A0 | A1 | A2 | A3 | A4 | A5 | A6.

Definition f7_to_nat (x : F7) : nat :=
  match x with A0 => 0 | A1 => 1 | A2 => 2 | A3 => 3 | A4 => 4 | A5 => 5 | A6 => 6 end.
Fixpoint f7_of_nat (n : nat) : F7 :=
  match n with
  | 0 => A0 | 1 => A1 | 2 => A2 | 3 => A3 | 4 => A4 | 5 => A5 | 6 => A6
  | S (S (S (S (S (S (S m)))))) => f7_of_nat m
  end.
Definition f7add (x y : F7) : F7 := f7_of_nat (f7_to_nat x + f7_to_nat y).
Definition f7mul (x y : F7) : F7 := f7_of_nat (f7_to_nat x * f7_to_nat y).
Definition f7opp (x : F7) : F7 := f7_of_nat (7 - f7_to_nat x).
Definition f7sub (x y : F7) : F7 := f7add x (f7opp y).
Definition f7inv (x : F7) : F7 :=
  match x with A0 => A0 | A1 => A1 | A2 => A4 | A3 => A5 | A4 => A2 | A5 => A3 | A6 => A6 end.
Definition f7div (x y : F7) : F7 := f7mul x (f7inv y).
Definition f7eqb (x y : F7) : bool := Nat.eqb (f7_to_nat x) (f7_to_nat y).

Definition F7ops : fops := {| car := F7; f0 := A0; f1 := A1; fadd := f7add; fmul := f7mul; fsub := f7sub;
  fopp := f7opp; fdiv := f7div; finv := f7inv; feqb := f7eqb; fconj := fun x => x |}.

Lemma F7ops_ok : fops_ok F7ops.
Proof. constructor; simpl.
  - constructor; [constructor|..]; simpl.
    + intros x; destruct x; reflexivity.
    + intros x y; destruct x, y; reflexivity.
    + intros x y z; destruct x, y, z; reflexivity.
    + intros x; destruct x; reflexivity.
    + intros x y; destruct x, y; reflexivity.
    + intros x y z; destruct x, y, z; reflexivity.
    + intros x y z; destruct x, y, z; reflexivity.
    + intros x y; reflexivity.
    + intros x; destruct x; reflexivity.
    + discriminate.
    + intros p q; reflexivity.
    + intros p Hp; destruct p; try reflexivity. exfalso; apply Hp; reflexivity.
  - intros x y; destruct x, y; simpl; split; intros H; try reflexivity; discriminate H.
  - intros; reflexivity.
  - intros; reflexivity.
  - intros; reflexivity.
Qed.

Lemma F7_real : forall x y : F7ops,
  fadd F7ops (fmul F7ops x x) (fmul F7ops y y) = f0 F7ops -> x = f0 F7ops /\ y = f0 F7ops.
Proof. intros x y; destruct x, y; simpl; intros H; vm_compute in H; try discriminate H; split; reflexivity. Qed.

Definition CF7 : fops := Cx F7ops.
Definition CF7_ok : fops_ok CF7 := Cx_ok F7ops F7ops_ok F7_real.
