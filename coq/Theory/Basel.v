(* Theory/Basel.v — sum_{n>=1} 1/n^2 = pi^2/6 (Basel), sum_{n>=1} 1/n^4 = pi^4/90, and their restrictions to odd n
   (pi^2/8, pi^4/96), over Coq's reals with Coquelicot.  Self-contained (no CC import).
   Method (Matsuoka 1961, extended one step for the fourth powers): with
       C(k,p) = int_0^{pi/2} x^k cos(x)^p dx        ([Cint]),
   the fundamental theorem of calculus ([is_RInt_derive]) applied to explicit primitives gives
       (p+2) C(0,p+2) = (p+1) C(0,p)                                                          ([Cint0_rec])
       (k+1)(k+2) C(k,p+2) = (p+2) ((p+1) C(k+2,p) - (p+2) C(k+2,p+2))                        ([Cint_rec])
   so that the ratios r_k(m) = C(k,2m) / C(0,2m) ([wratio]) telescope:
       (k+1)(k+2) r_k(n) / (2n)^2 = r_{k+2}(n-1) - r_{k+2}(n)                                 ([wratio_step])
   and, from x cos x <= sin x on [0,pi/2] ([xcos_le_sin]), 0 <= r_{k+2}(m+1) <= (pi/2)^k/(m+1) -> 0 ([wratio_lim]).
   k = 0 (r_0 = 1):  sum_{n<=N} 1/n^2 = pi^2/6 - 2 r_2(N)                                     ([hsum2_closed])
   k = 2:            sum_{n<=N} 1/n^4 = 4/3 (pi^2/4 H2(N) - pi^4/80 + r_4(N)) - H2(N)^2       ([hsum4_closed], induction on N)
   Odd terms: sum_{n<=N, n odd} g(n) = G(N) - q G(N/2) when g(2j) = q g(j)                     ([odd_sum]). *)
From Coq Require Import Reals Lra Lia.
Set Warnings "-ambiguous-paths".
From Coquelicot Require Import Coquelicot.
Open Scope R_scope.

(* ---------------------------------------------------------------- the integrals C(k,p) *)
Lemma cont_xc (k p : nat) (x : R) : continuous (fun x => x ^ k * cos x ^ p) x.
Proof. apply (ex_derive_continuous (V:=R_NormedModule)). auto_derive. exact I. Qed.

Definition Cint (k p : nat) : R := RInt (fun x => x ^ k * cos x ^ p) 0 (PI / 2).

Lemma Cint_is (k p : nat) : is_RInt (fun x => x ^ k * cos x ^ p) 0 (PI / 2) (Cint k p).
Proof.
  apply (RInt_correct (V:=R_CompleteNormedModule)). apply (ex_RInt_continuous (V:=R_CompleteNormedModule)).
  intros z _. apply cont_xc.
Qed.

Lemma ftc0 (F f : R -> R) (a b : R) :
  (forall x, is_derive F x (f x)) -> (forall x, continuous f x) -> F b = F a -> is_RInt f a b 0.
Proof.
  intros HD HC HE.
  apply (is_RInt_ext (fun x => f x)); [intros; reflexivity|].
  replace 0 with (minus (F b) (F a)).
  - apply (is_RInt_derive (V:=R_CompleteNormedModule) F f a b); intros x _; [apply HD|apply HC].
  - rewrite HE. unfold minus, plus, opp; simpl. ring.
Qed.

Lemma cos_PI2_pow (p : nat) : cos (PI / 2) ^ S p = 0.
Proof. rewrite cos_PI2. simpl. ring. Qed.

(* (k+1)(k+2) C(k,p+2) = (p+2) ((p+1) C(k+2,p) - (p+2) C(k+2,p+2)) *)
Lemma Cint_rec (k p : nat) :
  INR (S k) * INR (S (S k)) * Cint k (S (S p))
  = INR (S (S p)) * (INR (S p) * Cint (S (S k)) p - INR (S (S p)) * Cint (S (S k)) (S (S p))).
Proof.
  pose (F := fun x : R => INR (S (S k)) * x ^ S k * cos x ^ S (S p) + INR (S (S p)) * x ^ S (S k) * sin x * cos x ^ S p).
  pose (f := fun x : R => INR (S k) * INR (S (S k)) * (x ^ k * cos x ^ S (S p))
      + INR (S (S p)) * INR (S (S p)) * (x ^ S (S k) * cos x ^ S (S p))
      - INR (S (S p)) * INR (S p) * (x ^ S (S k) * cos x ^ p)).
  assert (H0 : is_RInt f 0 (PI / 2) 0).
  { apply (ftc0 F f).
    - intros x. unfold F, f. auto_derive; [exact I|].
      change (match k with 0%nat => 1 | S _ => INR k + 1 end) with (INR (S k)).
      change (match p with 0%nat => 1 | S _ => INR p + 1 end) with (INR (S p)).
      rewrite !S_INR. simpl pow.
      pose proof (sin2_cos2 x) as Hsc. unfold Rsqr in Hsc.
      generalize dependent (sin x). generalize (cos x). generalize (x ^ k). intros xk c. generalize (c ^ p). intros cp s Hsc.
      assert (Hs : s * s = 1 - c * c) by lra. clear Hsc.
      match goal with |- ?L = ?R => replace L with (R + (- (INR p + 1 + 1) * (INR p + 1) * (x * (x * xk)) * cp) * (s * s - (1 - c * c))) by ring end.
      rewrite Hs. ring.
    - intros x. unfold f. apply (ex_derive_continuous (V:=R_NormedModule)). auto_derive. exact I.
    - unfold F. rewrite cos_PI2_pow. replace (cos (PI / 2) ^ S p) with 0 by (symmetry; apply cos_PI2_pow). simpl. ring. }
  assert (H1 : is_RInt f 0 (PI / 2) (INR (S k) * INR (S (S k)) * Cint k (S (S p))
      + INR (S (S p)) * INR (S (S p)) * Cint (S (S k)) (S (S p))
      - INR (S (S p)) * INR (S p) * Cint (S (S k)) p)).
  { unfold f. apply (is_RInt_minus (V:=R_NormedModule)); [apply (is_RInt_plus (V:=R_NormedModule))|];
     apply (is_RInt_scal (V:=R_NormedModule)); apply Cint_is. }
  pose proof (is_RInt_unique _ _ _ _ H0) as U0. pose proof (is_RInt_unique _ _ _ _ H1) as U1.
  rewrite U0 in U1. lra.
Qed.


(* (p+2) C(0,p+2) = (p+1) C(0,p) *)
Lemma Cint0_rec (p : nat) : INR (S (S p)) * Cint 0 (S (S p)) = INR (S p) * Cint 0 p.
Proof.
  pose (F := fun x : R => sin x * cos x ^ S p).
  pose (f := fun x : R => INR (S (S p)) * (x ^ 0 * cos x ^ S (S p)) - INR (S p) * (x ^ 0 * cos x ^ p)).
  assert (H0 : is_RInt f 0 (PI / 2) 0).
  { apply (ftc0 F f).
    - intros x. unfold F, f. auto_derive; [exact I|].
      change (match p with 0%nat => 1 | S _ => INR p + 1 end) with (INR (S p)).
      rewrite !S_INR. simpl pow.
      pose proof (sin2_cos2 x) as Hsc. unfold Rsqr in Hsc.
      generalize dependent (sin x). generalize (cos x). intros c. generalize (c ^ p). intros cp s Hsc.
      assert (Hs : s * s = 1 - c * c) by lra. clear Hsc.
      match goal with |- ?L = ?R => replace L with (R + (- (INR p + 1) * cp) * (s * s - (1 - c * c))) by ring end.
      rewrite Hs. ring.
    - intros x. unfold f. apply (ex_derive_continuous (V:=R_NormedModule)). auto_derive. exact I.
    - unfold F. rewrite cos_PI2_pow, sin_0. ring. }
  assert (H1 : is_RInt f 0 (PI / 2) (INR (S (S p)) * Cint 0 (S (S p)) - INR (S p) * Cint 0 p)).
  { unfold f. apply (is_RInt_minus (V:=R_NormedModule)); apply (is_RInt_scal (V:=R_NormedModule)); apply Cint_is. }
  pose proof (is_RInt_unique _ _ _ _ H0) as U0. pose proof (is_RInt_unique _ _ _ _ H1) as U1.
  rewrite U0 in U1. lra.
Qed.

(* C(k,0) = (pi/2)^(k+1) / (k+1) *)
Lemma Cint_k0 (k : nat) : Cint k 0 = (PI / 2) ^ S k / INR (S k).
Proof.
  assert (Hk : INR (S k) <> 0) by (apply not_0_INR; lia).
  apply is_RInt_unique.
  apply (is_RInt_ext (fun x => x ^ k)); [intros x _; simpl; ring|].
  replace ((PI / 2) ^ S k / INR (S k)) with (minus ((PI / 2) ^ S k / INR (S k)) (0 ^ S k / INR (S k))).
  - apply (is_RInt_derive (V:=R_CompleteNormedModule) (fun x => x ^ S k / INR (S k)) (fun x => x ^ k)).
    + intros x _. auto_derive; [exact I|].
      change (match k with 0%nat => 1 | S _ => INR k + 1 end) with (INR (S k)). field. exact Hk.
    + intros x _. apply (ex_derive_continuous (V:=R_NormedModule)). auto_derive. exact I.
  - unfold minus, plus, opp; simpl. field. exact Hk.
Qed.

Lemma Cint_nonneg (k p : nat) : 0 <= Cint k p.
Proof.
  pose proof PI_RGT_0 as HPI.
  apply (is_RInt_ge_0 _ 0 (PI / 2) _ ltac:(lra) (Cint_is k p)).
  intros x [Hx1 Hx2]. apply Rmult_le_pos; apply pow_le; [lra|].
  apply cos_ge_0; lra.
Qed.

Lemma two_S (m : nat) : (2 * S m = S (S (2 * m)))%nat.
Proof. lia. Qed.

Lemma Cint0_pos (m : nat) : 0 < Cint 0 (2 * m).
Proof.
  induction m as [|m IH].
  - change (2 * 0)%nat with 0%nat. rewrite Cint_k0. pose proof PI_RGT_0 as HPI. simpl. lra.
  - rewrite two_S. pose proof (Cint0_rec (2 * m)) as H.
    assert (Hp1 : 0 < INR (S (S (2 * m)))) by (apply lt_0_INR; lia).
    assert (Hp2 : 0 < INR (S (2 * m))) by (apply lt_0_INR; lia).
    assert (H3 : 0 < INR (S (S (2 * m))) * Cint 0 (S (S (2 * m)))) by (rewrite H; apply Rmult_lt_0_compat; assumption).
    destruct (Rle_or_lt (Cint 0 (S (S (2 * m)))) 0) as [Hle|Hlt]; [|exact Hlt].
    exfalso. assert (Hneg : INR (S (S (2 * m))) * Cint 0 (S (S (2 * m))) <= 0); [|lra].
    rewrite <- (Rmult_0_r (INR (S (S (2 * m))))). apply Rmult_le_compat_l; lra.
Qed.

(* x cos x <= sin x on [0, pi/2] *)
Lemma xcos_le_sin (x : R) : 0 <= x <= PI / 2 -> x * cos x <= sin x.
Proof.
  intros [H0 H1]. pose proof PI_RGT_0 as HPI.
  assert (H : is_RInt (fun t => t * sin t) 0 x (minus (sin x - x * cos x) (sin 0 - 0 * cos 0))).
  { apply (is_RInt_derive (V:=R_CompleteNormedModule) (fun t => sin t - t * cos t) (fun t => t * sin t)).
    - intros t _. auto_derive; [exact I|]. ring.
    - intros t _. apply (ex_derive_continuous (V:=R_NormedModule)). auto_derive. exact I. }
  apply (is_RInt_ge_0 _ 0 x _ H0) in H.
  - unfold minus, plus, opp in H; simpl in H. rewrite sin_0 in H. lra.
  - intros t [Ht0 Ht1]. apply Rmult_le_pos; [lra|]. apply sin_ge_0; lra.
Qed.

(* C(k+2,p+2) <= (pi/2)^k (C(0,p) - C(0,p+2)) *)
Lemma Cint_bound (k p : nat) : Cint (S (S k)) (S (S p)) <= (PI / 2) ^ k * (Cint 0 p - Cint 0 (S (S p))).
Proof.
  pose proof PI_RGT_0 as HPI.
  assert (H : is_RInt (fun x => (PI / 2) ^ k * (x ^ 0 * cos x ^ p - x ^ 0 * cos x ^ S (S p))) 0 (PI / 2)
               ((PI / 2) ^ k * (Cint 0 p - Cint 0 (S (S p))))).
  { apply (is_RInt_scal (V:=R_NormedModule)). apply (is_RInt_minus (V:=R_NormedModule)); apply Cint_is. }
  apply (is_RInt_le _ _ 0 (PI / 2) _ _ ltac:(lra) (Cint_is (S (S k)) (S (S p))) H).
  intros x [Hx0 Hx1].
  assert (Hc : 0 <= cos x) by (apply cos_ge_0; lra).
  assert (Hs : 0 <= sin x) by (apply sin_ge_0; lra).
  pose proof (xcos_le_sin x ltac:(lra)) as Hxc.
  assert (Hcp : 0 <= cos x ^ p) by (apply pow_le; exact Hc).
  assert (Hxk : x ^ k <= (PI / 2) ^ k) by (apply pow_incr; lra).
  assert (Hxk0 : 0 <= x ^ k) by (apply pow_le; lra).
  assert (Hsq : (x * cos x) * (x * cos x) <= sin x * sin x).
  { apply Rmult_le_compat; try lra; apply Rmult_le_pos; lra. }
  pose proof (sin2_cos2 x) as Hsc. unfold Rsqr in Hsc.
  replace (x ^ S (S k) * cos x ^ S (S p)) with (x ^ k * ((x * cos x) * (x * cos x)) * cos x ^ p) by (simpl; ring).
  replace ((PI / 2) ^ k * (x ^ 0 * cos x ^ p - x ^ 0 * cos x ^ S (S p)))
    with ((PI / 2) ^ k * (sin x * sin x) * cos x ^ p).
  2:{ replace (sin x * sin x) with (1 - cos x * cos x) by lra. simpl. ring. }
  apply Rmult_le_compat_r; [exact Hcp|].
  apply Rmult_le_compat; try lra. apply Rmult_le_pos; apply Rmult_le_pos; lra.
Qed.

(* ---------------------------------------------------------------- ratios and the telescoping step *)
Definition wratio (k m : nat) : R := Cint k (2 * m) / Cint 0 (2 * m).

Lemma wratio_0 (m : nat) : wratio 0 m = 1.
Proof. unfold wratio. pose proof (Cint0_pos m) as HW. field. lra. Qed.

Lemma wratio_nonneg (k m : nat) : 0 <= wratio k m.
Proof.
  unfold wratio. apply Rmult_le_pos; [apply Cint_nonneg|]. apply Rlt_le, Rinv_0_lt_compat, Cint0_pos.
Qed.

Lemma wratio_k0 (k : nat) : wratio k 0 = (PI / 2) ^ k / INR (S k).
Proof.
  unfold wratio. change (2 * 0)%nat with 0%nat. rewrite !Cint_k0.
  assert (Hk : INR (S k) <> 0) by (apply not_0_INR; lia). pose proof PI_RGT_0 as HPI.
  simpl pow. change (INR 1) with 1. field. repeat split; first [exact Hk | lra].
Qed.

Lemma step_alg (kk X Y Z W W' a b : R) : 0 < a -> 0 < b -> 0 < W -> 0 < W' ->
  kk * X = a * (b * Y - a * Z) -> a * W' = b * W -> kk * (X / W') / a ^ 2 = Y / W - Z / W'.
Proof.
  intros Ha Hb HW HW' E1 E2.
  assert (EW : W = a * W' / b) by (rewrite E2; field; lra).
  rewrite EW.
  replace (kk * (X / W') / a ^ 2) with ((kk * X) / (W' * a ^ 2)) by (field; lra).
  rewrite E1. field. lra.
Qed.

Lemma wratio_step (k m : nat) :
  INR (S k) * INR (S (S k)) * wratio k (S m) / (2 * INR (S m)) ^ 2 = wratio (S (S k)) m - wratio (S (S k)) (S m).
Proof.
  unfold wratio. rewrite two_S.
  pose proof (Cint_rec k (2 * m)) as E1. pose proof (Cint0_rec (2 * m)) as E2.
  pose proof (Cint0_pos m) as HW. pose proof (Cint0_pos (S m)) as HW'. rewrite two_S in HW'.
  assert (Ea : 2 * INR (S m) = INR (S (S (2 * m)))).
  { rewrite <- two_S, mult_INR. simpl. ring. }
  rewrite Ea.
  assert (Ha : 0 < INR (S (S (2 * m)))) by (apply lt_0_INR; lia).
  assert (Hb : 0 < INR (S (2 * m))) by (apply lt_0_INR; lia).
  exact (step_alg _ _ _ _ _ _ _ _ Ha Hb HW HW' E1 E2).
Qed.

Lemma bound_alg (c Z W W' m : R) : 0 <= m -> 0 <= c -> 0 < W -> 0 < W' ->
  Z <= c * (W - W') -> (2 * m + 2) * W' = (2 * m + 1) * W -> Z / W' <= c / (m + 1).
Proof.
  intros Hm Hc HW HW' B E2.
  assert (EW : W = (2 * m + 2) * W' / (2 * m + 1)) by (rewrite E2; field; lra).
  rewrite EW in B.
  apply (Rmult_le_reg_r W'); [exact HW'|].
  replace (Z / W' * W') with Z by (field; lra).
  eapply Rle_trans; [exact B|].
  replace (c * ((2 * m + 2) * W' / (2 * m + 1) - W')) with (c * W' * (/ (2 * m + 1))) by (field; lra).
  replace (c / (m + 1) * W') with (c * W' * (/ (m + 1))) by (field; lra).
  apply Rmult_le_compat_l; [apply Rmult_le_pos; lra|].
  apply Rinv_le_contravar; lra.
Qed.

(* 0 <= R(k+2, m+1) <= (pi/2)^k / (m+1) *)
Lemma wratio_bound (k m : nat) : wratio (S (S k)) (S m) <= (PI / 2) ^ k / INR (S m).
Proof.
  unfold wratio. rewrite two_S.
  pose proof (Cint_bound k (2 * m)) as B. pose proof (Cint0_rec (2 * m)) as E2.
  pose proof (Cint0_pos m) as HW. pose proof (Cint0_pos (S m)) as HW'. rewrite two_S in HW'.
  assert (Ha : INR (S (S (2 * m))) = 2 * INR m + 2) by (rewrite !S_INR, mult_INR; simpl; ring).
  assert (Hb : INR (S (2 * m)) = 2 * INR m + 1) by (rewrite !S_INR, mult_INR; simpl; ring).
  rewrite Ha, Hb in E2. rewrite S_INR.
  pose proof (pos_INR m) as Hm. pose proof PI_RGT_0 as HPI.
  assert (Hc : 0 <= (PI / 2) ^ k) by (apply pow_le; lra).
  exact (bound_alg _ _ _ _ _ Hm Hc HW HW' B E2).
Qed.

Lemma lim_inv_S (c : R) : is_lim_seq (fun m => c / INR (S m)) 0.
Proof.
  replace (Finite 0) with (Rbar_mult c (Rbar_inv p_infty)) by (simpl; f_equal; ring).
  apply (is_lim_seq_scal_l (fun m => / INR (S m)) c).
  apply is_lim_seq_inv; [|discriminate].
  apply (is_lim_seq_incr_1 INR p_infty), is_lim_seq_INR.
Qed.

Lemma wratio_lim (k : nat) : is_lim_seq (fun N => wratio (S (S k)) N) 0.
Proof.
  apply is_lim_seq_incr_1.
  apply (is_lim_seq_le_le (fun _ => 0) _ (fun m => (PI / 2) ^ k / INR (S m))).
  - intros m. split; [apply wratio_nonneg|apply wratio_bound].
  - apply is_lim_seq_const.
  - apply lim_inv_S.
Qed.

(* ---------------------------------------------------------------- partial sums *)
Definition hsum2 (N : nat) : R := sum_n_m (fun n => 1 / INR n ^ 2) 1 N.
Definition hsum4 (N : nat) : R := sum_n_m (fun n => 1 / INR n ^ 4) 1 N.

Lemma bsum_0 (a : nat -> R) : sum_n_m a 1 0 = 0.
Proof. apply (sum_n_m_zero (G:=R_AbelianGroup) a 1 0). lia. Qed.
Lemma bsum_S (a : nat -> R) (N : nat) : sum_n_m a 1 (S N) = sum_n_m a 1 N + a (S N).
Proof. apply (sum_n_Sm (G:=R_AbelianGroup) a 1 N). lia. Qed.

Lemma hsum2_closed (N : nat) : hsum2 N = PI ^ 2 / 6 - 2 * wratio 2 N.
Proof.
  induction N as [|N IH].
  - unfold hsum2. rewrite bsum_0, wratio_k0. simpl. field.
  - unfold hsum2 in *. rewrite bsum_S, IH. pose proof (wratio_step 0 N) as E. rewrite wratio_0 in E.
    assert (HN : INR (S N) <> 0) by (apply not_0_INR; lia).
    replace (1 / INR (S N) ^ 2) with (2 * (INR 1 * INR 2 * 1 / (2 * INR (S N)) ^ 2)) by (simpl; field; exact HN).
    rewrite E. ring.
Qed.

Lemma basel_remainder (N : nat) : 0 <= wratio 2 (S N) <= 1 / INR (S N).
Proof.
  split; [apply wratio_nonneg|]. pose proof (wratio_bound 0 N) as B. simpl pow in B. exact B.
Qed.

Theorem basel : is_lim_seq (fun N => sum_n_m (fun n => 1 / INR n ^ 2) 1 N) (PI ^ 2 / 6).
Proof.
  apply (is_lim_seq_ext (fun N => PI ^ 2 / 6 - 2 * wratio 2 N)); [intros N; symmetry; apply hsum2_closed|].
  replace (PI ^ 2 / 6) with (PI ^ 2 / 6 - 2 * 0) at 1 by ring.
  apply is_lim_seq_minus'; [apply is_lim_seq_const|].
  apply (is_lim_seq_scal_l _ 2 0). apply (wratio_lim 0).
Qed.

Lemma hsum4_closed (N : nat) :
  hsum4 N = 4 / 3 * (PI ^ 2 / 4 * hsum2 N - PI ^ 4 / 80 + wratio 4 N) - hsum2 N ^ 2.
Proof.
  induction N as [|N IH].
  - unfold hsum4, hsum2. rewrite !bsum_0, wratio_k0. simpl. field.
  - pose proof (hsum2_closed (S N)) as C2. pose proof (wratio_step 2 N) as E.
    unfold hsum4, hsum2 in *. rewrite !bsum_S, IH. rewrite bsum_S in C2.
    assert (HN : INR (S N) <> 0) by (apply not_0_INR; lia).
    set (h := sum_n_m (fun n => 1 / INR n ^ 2) 1 N) in *.
    assert (E' : wratio 4 (S N) = wratio 4 N - 3 * wratio 2 (S N) * (1 / INR (S N) ^ 2)).
    { replace (3 * wratio 2 (S N) * (1 / INR (S N) ^ 2)) with (INR 3 * INR 4 * wratio 2 (S N) / (2 * INR (S N)) ^ 2)
        by (simpl; field; exact HN).
      rewrite E. ring. }
    rewrite E'.
    assert (C2' : wratio 2 (S N) = PI ^ 2 / 12 - (h + 1 / INR (S N) ^ 2) / 2) by lra.
    rewrite C2'.
    replace (1 / INR (S N) ^ 4) with ((1 / INR (S N) ^ 2) ^ 2) by (field; exact HN).
    generalize (1 / INR (S N) ^ 2). intros u. field.
Qed.

Theorem zeta4 : is_lim_seq (fun N => sum_n_m (fun n => 1 / INR n ^ 4) 1 N) (PI ^ 4 / 90).
Proof.
  apply (is_lim_seq_ext (fun N => 4 / 3 * (PI ^ 2 / 4 * hsum2 N - PI ^ 4 / 80 + wratio 4 N) - hsum2 N * hsum2 N)).
  { intros N. fold (hsum4 N). rewrite hsum4_closed. ring. }
  replace (PI ^ 4 / 90) with (4 / 3 * (PI ^ 2 / 4 * (PI ^ 2 / 6) - PI ^ 4 / 80 + 0) - (PI ^ 2 / 6) * (PI ^ 2 / 6)) by field.
  pose proof basel as HB. fold hsum2 in HB. change (is_lim_seq hsum2 (PI ^ 2 / 6)) in HB.
  apply is_lim_seq_minus'; [|apply is_lim_seq_mult'; exact HB].
  apply (is_lim_seq_scal_l _ (4 / 3) (Finite _)).
  apply is_lim_seq_plus'; [|apply (wratio_lim 2)].
  apply is_lim_seq_minus'; [|apply is_lim_seq_const].
  apply (is_lim_seq_scal_l _ (PI ^ 2 / 4) (Finite _)). exact HB.
Qed.

(* ---------------------------------------------------------------- odd terms only *)
Lemma bsum_ext (a b : nat -> R) (N : nat) : (forall n, (1 <= n)%nat -> a n = b n) -> @eq R (sum_n_m a 1 N) (sum_n_m b 1 N).
Proof. intros H. induction N as [|N IH]; [rewrite !bsum_0; reflexivity|]. rewrite !bsum_S, IH, H by lia. reflexivity. Qed.
Lemma bsum_minus (a b : nat -> R) (N : nat) : @eq R (sum_n_m (fun n => a n - b n) 1 N) (sum_n_m a 1 N - sum_n_m b 1 N).
Proof. induction N as [|N IH]; [rewrite !bsum_0; ring|]. rewrite !bsum_S, IH. ring. Qed.
Lemma bsum_scal (c : R) (a : nat -> R) (N : nat) : @eq R (sum_n_m (fun n => c * a n) 1 N) (c * sum_n_m a 1 N).
Proof. induction N as [|N IH]; [rewrite !bsum_0; ring|]. rewrite !bsum_S, IH. ring. Qed.

Lemma sum_even_half (g : nat -> R) (N : nat) :
  @eq R (sum_n_m (fun n => if Nat.even n then g n else 0) 1 N) (sum_n_m (fun j => g (2 * j)%nat) 1 (Nat.div2 N)).
Proof.
  enough (H : @eq R (sum_n_m (fun n => if Nat.even n then g n else 0) 1 N) (sum_n_m (fun j => g (2 * j)%nat) 1 (Nat.div2 N)) /\
              @eq R (sum_n_m (fun n => if Nat.even n then g n else 0) 1 (S N)) (sum_n_m (fun j => g (2 * j)%nat) 1 (Nat.div2 (S N))))
    by exact (proj1 H).
  induction N as [|N [IH1 IH2]].
  - split; [simpl; rewrite !bsum_0; reflexivity|]. rewrite bsum_S, bsum_0. simpl. rewrite bsum_0. ring.
  - split; [exact IH2|].
    change (Nat.div2 (S (S N))) with (S (Nat.div2 N)).
    rewrite bsum_S, (bsum_S _ N), IH1, (bsum_S _ (Nat.div2 N)).
    change (Nat.even (S (S N))) with (Nat.even N). rewrite Nat.even_succ, <- Nat.negb_even.
    pose proof (Nat.div2_odd N) as E. rewrite <- Nat.negb_even in E.
    destruct (Nat.even N) eqn:Ev; simpl negb in *; simpl Nat.b2n in E.
    + replace (2 * S (Nat.div2 N))%nat with (S (S N)) by lia. ring.
    + replace (2 * S (Nat.div2 N))%nat with (S N) by lia. ring.
Qed.

Lemma odd_sum (g : nat -> R) (q : R) : (forall j, (1 <= j)%nat -> g (2 * j)%nat = q * g j) -> forall N,
  sum_n_m (fun n => if Nat.even n then 0 else g n) 1 N = sum_n_m g 1 N - q * sum_n_m g 1 (Nat.div2 N).
Proof.
  intros Hg N.
  rewrite (bsum_ext _ (fun n => g n - (if Nat.even n then g n else 0))).
  2:{ intros n _. destruct (Nat.even n); ring. }
  rewrite bsum_minus, sum_even_half. f_equal.
  rewrite <- bsum_scal. apply bsum_ext. exact Hg.
Qed.

Lemma div2_lim : filterlim Nat.div2 eventually eventually.
Proof.
  intros P [N HN]. exists (2 * N)%nat. intros n Hn. apply HN.
  pose proof (Nat.div2_odd n) as E. destruct (Nat.odd n); simpl Nat.b2n in E; lia.
Qed.

Lemma odd_lim (g : nat -> R) (q l : R) : (forall j, (1 <= j)%nat -> g (2 * j)%nat = q * g j) ->
  is_lim_seq (fun N => sum_n_m g 1 N) l ->
  is_lim_seq (fun N => sum_n_m (fun n => if Nat.even n then 0 else g n) 1 N) ((1 - q) * l).
Proof.
  intros Hg HL.
  apply (is_lim_seq_ext (fun N => sum_n_m g 1 N - q * sum_n_m g 1 (Nat.div2 N))).
  { intros N. symmetry. apply odd_sum. exact Hg. }
  replace ((1 - q) * l) with (l - q * l) by ring.
  apply is_lim_seq_minus'; [exact HL|].
  apply (is_lim_seq_scal_l _ q (Finite l)).
  exact (is_lim_seq_subseq (fun N => sum_n_m g 1 N) l Nat.div2 div2_lim HL).
Qed.

Theorem basel_odd : is_lim_seq (fun N => sum_n_m (fun n => if Nat.even n then 0 else 1 / INR n ^ 2) 1 N) (PI ^ 2 / 8).
Proof.
  replace (PI ^ 2 / 8) with ((1 - 1 / 4) * (PI ^ 2 / 6)) by field.
  apply (odd_lim (fun n => 1 / INR n ^ 2)); [|exact basel].
  intros j Hj. rewrite mult_INR. assert (Hj0 : INR j <> 0) by (apply not_0_INR; lia). simpl. field. exact Hj0.
Qed.

Theorem zeta4_odd : is_lim_seq (fun N => sum_n_m (fun n => if Nat.even n then 0 else 1 / INR n ^ 4) 1 N) (PI ^ 4 / 96).
Proof.
  replace (PI ^ 4 / 96) with ((1 - 1 / 16) * (PI ^ 4 / 90)) by field.
  apply (odd_lim (fun n => 1 / INR n ^ 4)); [|exact zeta4].
  intros j Hj. rewrite mult_INR. assert (Hj0 : INR j <> 0) by (apply not_0_INR; lia). simpl. field. exact Hj0.
Qed.
