(* Theory/StateSpaceEnergy.v — C11, last clause: along every EXACT solution of the model's differential equation
   x'(t) = A x(t) + B u  (u = 0, or u constant) over Coq's real numbers the stored energy
   E = 1/2 * sum_k W_k x_k^2  (W = diag(C..., L...)) is non-increasing, and the response stays bounded.

   1. [Rfops] : the record of field operations at [R] (boolean equality from [Req_EM_T]), [Rfops_ok], [R_ofield_ok].
   2. Core (Section Lyapunov): a trajectory given by its components  y k : R -> R  (k < nst), differentiable on the open
      interval (t0, t1) with  y_k' = (f (y_0 .. y_{nst-1}))_k  for ANY vector field [f] that dissipates the quadratic form
      (sum_k W_k v_k (f v)_k <= 0), continuous on [t0, t1]:  E' = sum_k W_k y_k (f y)_k  and  E is non-increasing (mean value
      theorem), hence |y_k| <= sqrt (2 E(t0) / W_k).
   3. Abstract matrix: f = mat_vec A with  x^T (W A + A^T W) x <= 0.
   4. The library's model: f x = ss_xdot m x 0 = A x + B 0 for [state_space_matrices n cvals lvals = Ok m] under the
      hypotheses of [StateSpaceLyap.lyapunov];  E' = - sum_{resistive branches} G v^2.
   5. Constant input u and an equilibrium xs (A xs + B u = 0): the same for the deviation x - xs.
   Uses the classical real numbers (Coquelicot's [is_derive], [MVT_gen]). *)
From Coq Require Import Reals List Bool Arith Lia Lra Field Ring.
From Coquelicot Require Import Coquelicot.
From CC Require Import Theory.Field Theory.Complex Theory.Labels Model.Network Model.StateSpace Theory.Spec Theory.Mna
  Theory.MnaComplete Theory.Api Theory.Gauss Theory.Matrix Theory.Tellegen Theory.Ordered Theory.StateSpaceThm
  Theory.StateSpaceLyap.
Import ListNotations.
Local Open Scope R_scope.

(* ---------------- the real numbers as an instance of the field records ---------------- *)
Definition Reqb (x y : R) : bool := if Req_EM_T x y then true else false.

Lemma Reqb_true (x y : R) : x = y -> Reqb x y = true.
Proof. intros E. unfold Reqb. destruct (Req_EM_T x y) as [_|N]; [reflexivity|contradiction]. Qed.
Lemma Reqb_false (x y : R) : x <> y -> Reqb x y = false.
Proof. intros N. unfold Reqb. destruct (Req_EM_T x y) as [E|_]; [contradiction|reflexivity]. Qed.

Definition Rfops : fops :=
  {| car := R; f0 := 0; f1 := 1; fadd := Rplus; fmul := Rmult; fsub := Rminus; fopp := Ropp; fdiv := Rdiv; finv := Rinv;
     feqb := Reqb; fconj := fun x => x |}.

Lemma Rfops_ok : fops_ok Rfops.
Proof. constructor; simpl.
  - exact Rfield.
  - intros x y. unfold Reqb. destruct (Req_EM_T x y) as [E|N]; split; intros H; try assumption; try reflexivity.
    + discriminate H.
    + contradiction.
  - reflexivity.
  - reflexivity.
  - reflexivity. Qed.

Lemma R_ofield_ok : ofield_ok Rfops Rle.
Proof. constructor; simpl.
  - intros x. lra.
  - intros x y z H1 H2. lra.
  - intros x y H1 H2. lra.
  - intros x y z H. lra.
  - intros x y Hx Hy. apply Rmult_le_pos; assumption.
  - intros x. pose proof (Rle_0_sqr x) as H. unfold Rsqr in H. exact H. Qed.

Notation sumR := (@sumF Rfops).

(* ---------------- finite sums of real functions ---------------- *)
Lemma sumR_ext_in {A} (f g : A -> R) (l : list A) : (forall a, In a l -> f a = g a) -> sumR f l = sumR g l.
Proof. exact (@sumF_ext_in Rfops A f g l). Qed.
Lemma sumR_ext {A} (f g : A -> R) (l : list A) : (forall a, f a = g a) -> sumR f l = sumR g l.
Proof. exact (@sumF_ext Rfops A f g l). Qed.
Lemma sumR_nonneg {A} (f : A -> R) (l : list A) : (forall a, In a l -> 0 <= f a) -> 0 <= sumR f l.
Proof. induction l as [|a l IH]; simpl; intros H; [lra|].
  assert (H1 : 0 <= f a) by (apply H; left; reflexivity).
  assert (H2 : 0 <= sumR f l) by (apply IH; intros b Hb; apply H; right; exact Hb). lra. Qed.

Lemma sumR_term_le {A} (f : A -> R) (l : list A) (a : A) : (forall b, In b l -> 0 <= f b) -> In a l -> f a <= sumR f l.
Proof. induction l as [|b l IH]; simpl; intros H Ha; [destruct Ha|].
  assert (H1 : 0 <= f b) by (apply H; left; reflexivity).
  assert (H2 : 0 <= sumR f l) by (apply sumR_nonneg; intros c Hc; apply H; right; exact Hc).
  destruct Ha as [<-|Ha]; [lra|].
  assert (H3 : f a <= sumR f l) by (apply IH; [intros c Hc; apply H; right; exact Hc|exact Ha]). lra. Qed.

Lemma sumR_is_derive {A} (g : A -> R -> R) (dg : A -> R) (l : list A) (t : R) :
  (forall a, In a l -> is_derive (g a) t (dg a)) ->
  is_derive (fun s => sumR (fun a => g a s) l) t (sumR dg l).
Proof. induction l as [|a l IH]; simpl; intros H.
  - apply (is_derive_const (K:=R_AbsRing) (V:=R_NormedModule) 0 t).
  - apply (is_derive_plus (K:=R_AbsRing) (V:=R_NormedModule) (g a) (fun s => sumR (fun a0 => g a0 s) l) t (dg a) (sumR dg l)).
    + apply H. left. reflexivity.
    + apply IH. intros b Hb. apply H. right. exact Hb. Qed.

Lemma sumR_continuity {A} (g : A -> R -> R) (l : list A) (t : R) :
  (forall a, In a l -> continuity_pt (g a) t) -> continuity_pt (fun s => sumR (fun a => g a s) l) t.
Proof. induction l as [|a l IH]; simpl; intros H.
  - apply continuity_pt_const. intros u v. reflexivity.
  - apply (continuity_pt_plus (g a) (fun s => sumR (fun a0 => g a0 s) l)).
    + apply H. left. reflexivity.
    + apply IH. intros b Hb. apply H. right. exact Hb. Qed.

(* ---------------- energy and dissipated power of a state vector ---------------- *)
(* E(x) = 1/2 * sum_{k < nst} W_k x_k^2 *)
Definition energy (W : list R) (nst : nat) (x : list R) : R :=
  / 2 * sumR (fun k => nth k W 0 * (nth k x 0 * nth k x 0)) (seq 0 nst).
(* x^T W xd = sum_{k < nst} W_k x_k xd_k *)
Definition wpower (W : list R) (nst : nat) (x xd : list R) : R :=
  sumR (fun k => nth k W 0 * nth k x 0 * nth k xd 0) (seq 0 nst).

Lemma energy_nonneg (W : list R) (nst : nat) (x : list R) :
  (forall k, (k < nst)%nat -> 0 <= nth k W 0) -> 0 <= energy W nst x.
Proof. intros HW. unfold energy.
  assert (H : 0 <= sumR (fun k => nth k W 0 * (nth k x 0 * nth k x 0)) (seq 0 nst)).
  { apply sumR_nonneg. intros k Hk. apply in_seq in Hk. apply Rmult_le_pos; [apply HW; lia|].
    pose proof (Rle_0_sqr (nth k x 0)) as S. unfold Rsqr in S. exact S. }
  lra. Qed.

(* one coordinate is bounded through the energy *)
Lemma coord_le_energy (W : list R) (nst : nat) (x : list R) (k : nat) :
  (forall j, (j < nst)%nat -> 0 <= nth j W 0) -> (k < nst)%nat -> 0 < nth k W 0 ->
  Rabs (nth k x 0) <= sqrt (2 * energy W nst x / nth k W 0).
Proof. intros HW Hk Wk. rewrite <- sqrt_Rsqr_abs.
  assert (T : nth k W 0 * (nth k x 0 * nth k x 0) <= sumR (fun j => nth j W 0 * (nth j x 0 * nth j x 0)) (seq 0 nst)).
  { apply (sumR_term_le (fun j => nth j W 0 * (nth j x 0 * nth j x 0)) (seq 0 nst) k).
    - intros j Hj. apply in_seq in Hj. apply Rmult_le_pos; [apply HW; lia|].
      pose proof (Rle_0_sqr (nth j x 0)) as S. unfold Rsqr in S. exact S.
    - apply in_seq. lia. }
  assert (E2 : 2 * energy W nst x = sumR (fun j => nth j W 0 * (nth j x 0 * nth j x 0)) (seq 0 nst))
    by (unfold energy; field).
  assert (Q : (nth k x 0)² <= 2 * energy W nst x / nth k W 0).
  { rewrite E2. unfold Rsqr. revert T. generalize (sumR (fun j => nth j W 0 * (nth j x 0 * nth j x 0)) (seq 0 nst)).
    intros S T. apply (Rmult_le_reg_l (nth k W 0)); [exact Wk|].
    assert (E3 : nth k W 0 * (S / nth k W 0) = S). { field. lra. } rewrite E3. exact T. }
  apply sqrt_le_1; [apply Rle_0_sqr| |exact Q]. apply (Rle_trans _ ((nth k x 0)²)); [apply Rle_0_sqr|exact Q]. Qed.

(* ---------------- 2. the core: a dissipative vector field ---------------- *)
Section Lyapunov.
Variable nst : nat.
Variable W : list R.
Variable f : list R -> list R.                     (* the right-hand side of  y' = f y *)
Hypothesis dissip : forall v, length v = nst -> wpower W nst v (f v) <= 0.
Variable y : nat -> R -> R.                        (* the components of the trajectory *)
Variables t0 t1 : R.
Definition stvec (t : R) : list R := map (fun k => y k t) (seq 0 nst).
Hypothesis Hder : forall k t, (k < nst)%nat -> t0 < t < t1 -> is_derive (y k) t (nth k (f (stvec t)) 0).
Hypothesis Hcont : forall k t, (k < nst)%nat -> t0 <= t <= t1 -> continuity_pt (y k) t.

Definition En (t : R) : R := / 2 * sumR (fun k => nth k W 0 * (y k t * y k t)) (seq 0 nst).

Lemma stvec_length t : length (stvec t) = nst.
Proof. unfold stvec. rewrite map_length, seq_length. reflexivity. Qed.

Lemma stvec_nth k t : (k < nst)%nat -> nth k (stvec t) 0 = y k t.
Proof. intros Hk. unfold stvec. apply (nth_map_seq (fun j => y j t) nst k 0 Hk). Qed.

Lemma En_energy t : En t = energy W nst (stvec t).
Proof. unfold En, energy. f_equal. apply sumR_ext_in. intros k Hk. apply in_seq in Hk.
  rewrite stvec_nth by lia. reflexivity. Qed.

Lemma En_derive t : t0 < t < t1 -> is_derive En t (wpower W nst (stvec t) (f (stvec t))).
Proof. intros Ht. unfold En.
  set (d := fun k => nth k (f (stvec t)) 0).
  assert (E : wpower W nst (stvec t) (f (stvec t)) = / 2 * sumR (fun k => nth k W 0 * (d k * y k t + y k t * d k)) (seq 0 nst)).
  { unfold wpower.
    transitivity (sumR (fun k => / 2 * (nth k W 0 * (d k * y k t + y k t * d k))) (seq 0 nst)).
    - apply sumR_ext_in. intros k Hk. apply in_seq in Hk. rewrite stvec_nth by lia. unfold d. simpl. field.
    - apply (sumF_scal_l Rfops_ok (fun k => nth k W 0 * (d k * y k t + y k t * d k)) (/ 2)). }
  rewrite E. apply is_derive_scal.
  apply (sumR_is_derive (fun k s => nth k W 0 * (y k s * y k s)) (fun k => nth k W 0 * (d k * y k t + y k t * d k))).
  intros k Hk. apply in_seq in Hk. apply is_derive_scal.
  apply (is_derive_mult (K:=R_AbsRing) (y k) (y k) t (d k) (d k)); [apply Hder; (lia || exact Ht)..|].
  intros a b. apply Rmult_comm. Qed.

Lemma En_continuity t : t0 <= t <= t1 -> continuity_pt En t.
Proof. intros Ht. unfold En.
  apply (continuity_pt_mult (fun _ => / 2) (fun s => sumR (fun k => nth k W 0 * (y k s * y k s)) (seq 0 nst))).
  - apply continuity_pt_const. intros u v. reflexivity.
  - apply (sumR_continuity (fun k s => nth k W 0 * (y k s * y k s))). intros k Hk. apply in_seq in Hk.
    apply (continuity_pt_mult (fun _ => nth k W 0) (fun s => y k s * y k s)).
    + apply continuity_pt_const. intros u v. reflexivity.
    + apply (continuity_pt_mult (y k) (y k)); apply Hcont; (lia || exact Ht). Qed.

Theorem En_nonincreasing s t : t0 <= s -> s <= t -> t <= t1 -> En t <= En s.
Proof. intros H0 Hst H1.
  destruct (Req_dec s t) as [->|Hne]; [lra|]. assert (Hlt : s < t) by lra.
  destruct (MVT_gen En s t (fun c => wpower W nst (stvec c) (f (stvec c)))) as [c [Hc Ec]].
  - rewrite Rmin_left, Rmax_right by lra. intros c Hc. apply En_derive. lra.
  - rewrite Rmin_left, Rmax_right by lra. intros c Hc. apply En_continuity. lra.
  - pose proof (dissip (stvec c) (stvec_length c)) as D.
    assert (P : wpower W nst (stvec c) (f (stvec c)) * (t - s) <= 0).
    { replace 0 with (0 * (t - s)) by ring. apply Rmult_le_compat_r; [lra|exact D]. }
    lra. Qed.

Theorem En_bounded k t : (forall j, (j < nst)%nat -> 0 <= nth j W 0) -> (k < nst)%nat -> 0 < nth k W 0 ->
  t0 <= t <= t1 -> Rabs (y k t) <= sqrt (2 * En t0 / nth k W 0).
Proof. intros HW Hk Wk Ht.
  apply (Rle_trans _ (sqrt (2 * En t / nth k W 0))).
  - rewrite En_energy, <- (stvec_nth k t Hk). apply coord_le_energy; assumption.
  - assert (Le : En t <= En t0) by (apply En_nonincreasing; lra).
    assert (P : 0 <= En t) by (rewrite En_energy; apply energy_nonneg; exact HW).
    assert (I : 0 < / nth k W 0) by (apply Rinv_0_lt_compat; exact Wk).
    apply sqrt_le_1.
    + unfold Rdiv. apply Rmult_le_pos; lra.
    + unfold Rdiv. apply Rmult_le_pos; lra.
    + unfold Rdiv. apply Rmult_le_compat_r; lra. Qed.

End Lyapunov.

Theorem flow_energy_nonincreasing (nst : nat) (W : list R) (f : list R -> list R) :
  (forall v, length v = nst -> wpower W nst v (f v) <= 0) ->
  forall (y : nat -> R -> R) (t0 t1 : R),
  (forall k t, (k < nst)%nat -> t0 < t < t1 -> is_derive (y k) t (nth k (f (stvec nst y t)) 0)) ->
  (forall k t, (k < nst)%nat -> t0 <= t <= t1 -> continuity_pt (y k) t) ->
  forall s t, t0 <= s -> s <= t -> t <= t1 -> energy W nst (stvec nst y t) <= energy W nst (stvec nst y s).
Proof. intros D y t0 t1 Hd Hc s t H0 H1 H2. rewrite <- !En_energy.
  exact (En_nonincreasing nst W f D y t0 t1 Hd Hc s t H0 H1 H2). Qed.

(* ---------------- trajectories given as lists ---------------- *)
Section ListTrajectory.
Variable nst : nat.
Variable W : list R.
Variable f : list R -> list R.
Hypothesis dissip : forall v, length v = nst -> wpower W nst v (f v) <= 0.
Variable x : R -> list R.
Variables t0 t1 : R.
Hypothesis Hlen : forall t, t0 <= t <= t1 -> length (x t) = nst.
Hypothesis Hder : forall k t, (k < nst)%nat -> t0 < t < t1 -> is_derive (fun s => nth k (x s) 0) t (nth k (f (x t)) 0).
Hypothesis Hcont : forall k t, (k < nst)%nat -> t0 <= t <= t1 -> continuity_pt (fun s => nth k (x s) 0) t.

Lemma stvec_list t : t0 <= t <= t1 -> stvec nst (fun k s => nth k (x s) 0) t = x t.
Proof. intros Ht. apply (vec_ext Rfops).
  - rewrite stvec_length. symmetry. apply Hlen. exact Ht.
  - rewrite stvec_length. intros k Hk. apply (stvec_nth nst (fun k s => nth k (x s) 0) k t Hk). Qed.

Lemma En_list t : En nst W (fun k s => nth k (x s) 0) t = energy W nst (x t).
Proof. reflexivity. Qed.

Theorem list_energy_derive t : t0 < t < t1 ->
  is_derive (fun s => energy W nst (x s)) t (wpower W nst (x t) (f (x t))).
Proof. intros Ht. rewrite <- (stvec_list t) by lra.
  apply (En_derive nst W f (fun k s => nth k (x s) 0) t0 t1); [|exact Ht].
  intros k s Hk Hs. rewrite stvec_list by lra. apply Hder; assumption. Qed.

Theorem list_energy_nonincreasing s t : t0 <= s -> s <= t -> t <= t1 -> energy W nst (x t) <= energy W nst (x s).
Proof. intros H0 Hst H1.
  apply (En_nonincreasing nst W f dissip (fun k s => nth k (x s) 0) t0 t1); try assumption.
  intros k c Hk Hc. rewrite stvec_list by lra. apply Hder; assumption. Qed.

Theorem list_bounded k t : (forall j, (j < nst)%nat -> 0 <= nth j W 0) -> (k < nst)%nat -> 0 < nth k W 0 ->
  t0 <= t <= t1 -> Rabs (nth k (x t) 0) <= sqrt (2 * energy W nst (x t0) / nth k W 0).
Proof. intros HW Hk Wk Ht.
  apply (En_bounded nst W f dissip (fun k s => nth k (x s) 0) t0 t1); try assumption.
  intros j c Hj Hc. rewrite stvec_list by lra. apply Hder; assumption. Qed.

End ListTrajectory.

(* ---------------- 3. an abstract matrix with  x^T (W A + A^T W) x <= 0 ---------------- *)
Section AbstractMatrix.
Variable nst : nat.
Variable W : list Rfops.
Variable A : list (list Rfops).
Hypothesis LW : length W = nst.
Hypothesis WA : wfm nst nst A.
Definition LyapR : list (list Rfops) :=
  mat_add (mat_mul nst (diag Rfops W) A) (mat_mul nst (transpose nst A) (diag Rfops W)).

Lemma quad_form_R (x : list Rfops) : length x = nst ->
  @dot Rfops x (mat_vec LyapR x) = wpower W nst x (mat_vec A x) + wpower W nst x (mat_vec A x).
Proof. intros Lx.
  assert (WW : wfm nst nst (diag Rfops W)) by (rewrite <- LW; apply wfm_diag).
  assert (WAt : wfm nst nst (transpose nst A)) by (apply (wfm_transpose Rfops nst nst), WA).
  unfold LyapR. rewrite (mat_vec_add Rfops Rfops_ok nst nst) by (apply (wfm_mul Rfops nst nst); assumption).
  rewrite (dot_vadd Rfops Rfops_ok) by (rewrite !mat_vec_length; unfold mat_mul; rewrite !map_length; destruct WW, WAt; lia).
  rewrite (mat_vec_mul Rfops Rfops_ok nst nst nst (diag Rfops W) A x WW WA).
  rewrite (mat_vec_mul Rfops Rfops_ok nst nst nst (transpose nst A) (diag Rfops W) x WAt WW).
  rewrite (dot_adjoint Rfops Rfops_ok nst nst A x (mat_vec (diag Rfops W) x) WA Lx)
    by (rewrite mat_vec_length; apply WW).
  unfold wpower. rewrite (dot_nth Rfops Rfops_ok x), Lx.
  rewrite (dot_nth Rfops Rfops_ok (mat_vec A x)), mat_vec_length, (wfm_len Rfops _ _ _ WA).
  change (fadd Rfops) with Rplus.
  f_equal; apply sumR_ext_in; intros k Hk; apply in_seq in Hk;
    rewrite (mat_vec_diag Rfops Rfops_ok) by (rewrite LW; lia); simpl; ring. Qed.

Hypothesis lyap : forall x, length x = nst -> @dot Rfops x (mat_vec LyapR x) <= 0.

Lemma abstract_dissip (v : list R) : length v = nst -> wpower W nst v (mat_vec A v) <= 0.
Proof. intros Lv. pose proof (lyap v Lv) as H. rewrite (quad_form_R v Lv) in H. lra. Qed.

Variable x : R -> list R.
Variables t0 t1 : R.
Hypothesis Hlen : forall t, t0 <= t <= t1 -> length (x t) = nst.
Hypothesis Hder : forall k t, (k < nst)%nat -> t0 < t < t1 ->
  is_derive (fun s => nth k (x s) 0) t (nth k (mat_vec A (x t)) 0).
Hypothesis Hcont : forall k t, (k < nst)%nat -> t0 <= t <= t1 -> continuity_pt (fun s => nth k (x s) 0) t.

Theorem abstract_energy_nonincreasing s t : t0 <= s -> s <= t -> t <= t1 -> energy W nst (x t) <= energy W nst (x s).
Proof. exact (list_energy_nonincreasing nst W (mat_vec A) abstract_dissip x t0 t1 Hlen Hder Hcont s t). Qed.

Theorem abstract_bounded k t : (forall j, (j < nst)%nat -> 0 <= nth j W 0) -> (k < nst)%nat -> 0 < nth k W 0 ->
  t0 <= t <= t1 -> Rabs (nth k (x t) 0) <= sqrt (2 * energy W nst (x t0) / nth k W 0).
Proof. exact (list_bounded nst W (mat_vec A) abstract_dissip x t0 t1 Hlen Hder Hcont k t). Qed.

End AbstractMatrix.

(* ---------------- 4. the library's state-space model ---------------- *)
Section Network.
Variable n : network Rfops.
Variables cvals lvals : list (label * Rfops).
Notation nst := (ss_nst Rfops cvals lvals).
Notation W := (Wd Rfops cvals lvals).
Notation u0 := (zero_row Rfops (ss_nS Rfops n lvals)).
Hypothesis lam_nz : forall k, (k < nst)%nat -> nth k (lam Rfops cvals lvals) 0 <> 0.
Hypothesis RD : rlc_dc Rfops n cvals lvals.
Variable m : ssm Rfops.
Hypothesis Hm : state_space_matrices Rfops n cvals lvals = Ok m.
Hypothesis Ypos : forall b, In b (branches n) -> resb Rfops cvals b = true -> 0 <= finY b.

(* the unforced right-hand side  A x + B 0 *)
Definition f0dot (v : list R) : list R := ss_xdot Rfops m v u0.

Lemma wpower_f0dot (v : list R) : wpower W nst v (f0dot v) = qW Rfops cvals lvals m v.
Proof. unfold wpower, qW, f0dot. apply sumR_ext. intros k.
  exact (f_equal (fun z => nth k W 0 * nth k v 0 * z) (xd0_A Rfops Rfops_ok n cvals lvals lam_nz m Hm v k)). Qed.

(* power balance:  x^T W (A x + B 0) = - sum_{resistive branches} G v^2 *)
Lemma net_power (v : list R) : length v = nst ->
  wpower W nst v (f0dot v) = - sumR (eR Rfops n cvals lvals m v) (branches n).
Proof. intros Lv. rewrite wpower_f0dot. unfold qW.
  exact (lyapunov_identity Rfops Rfops_ok n cvals lvals lam_nz RD m Hm v Lv). Qed.

Lemma net_dissip (v : list R) : length v = nst -> wpower W nst v (f0dot v) <= 0.
Proof. intros Lv. rewrite wpower_f0dot.
  exact (qW_nonpos Rfops Rfops_ok Rle R_ofield_ok n cvals lvals lam_nz RD m Hm Ypos v Lv). Qed.

Lemma net_dissip_A (v : list R) : length v = nst -> wpower W nst v (mat_vec (ss_A m) v) <= 0.
Proof. intros Lv. exact (qW_nonpos Rfops Rfops_ok Rle R_ofield_ok n cvals lvals lam_nz RD m Hm Ypos v Lv). Qed.

Variable x : R -> list R.
Variables t0 t1 : R.
Hypothesis Hlen : forall t, t0 <= t <= t1 -> length (x t) = nst.
Hypothesis Hder : forall k t, (k < nst)%nat -> t0 < t < t1 ->
  is_derive (fun s => nth k (x s) 0) t (nth k (ss_xdot Rfops m (x t) u0) 0).
Hypothesis Hcont : forall k t, (k < nst)%nat -> t0 <= t <= t1 -> continuity_pt (fun s => nth k (x s) 0) t.

Theorem net_energy_derive t : t0 < t < t1 ->
  is_derive (fun s => energy W nst (x s)) t (- sumR (eR Rfops n cvals lvals m (x t)) (branches n)).
Proof. intros Ht. rewrite <- (net_power (x t)) by (apply Hlen; lra).
  exact (list_energy_derive nst W f0dot x t0 t1 Hlen Hder t Ht). Qed.

Theorem net_energy_derive_nonpos t : t0 < t < t1 ->
  - sumR (eR Rfops n cvals lvals m (x t)) (branches n) <= 0.
Proof. intros Ht. rewrite <- (net_power (x t)) by (apply Hlen; lra). apply net_dissip. apply Hlen. lra. Qed.

Theorem net_energy_nonincreasing s t : t0 <= s -> s <= t -> t <= t1 -> energy W nst (x t) <= energy W nst (x s).
Proof. exact (list_energy_nonincreasing nst W f0dot net_dissip x t0 t1 Hlen Hder Hcont s t). Qed.

End Network.

(* positive capacitances and inductances: lam_k <> 0 follows *)
Lemma Wpos_lam_nz (cvals lvals : list (label * Rfops)) :
  (forall k, (k < ss_nst Rfops cvals lvals)%nat -> 0 < nth k (Wd Rfops cvals lvals) 0) ->
  forall k, (k < ss_nst Rfops cvals lvals)%nat -> nth k (lam Rfops cvals lvals) 0 <> 0.
Proof. intros HW k Hk. pose proof (HW k Hk) as P. unfold lam. unfold Wd in P.
  destruct (Nat.lt_ge_cases k (length cvals)) as [Hc|Hc].
  - rewrite app_nth1 in P |- * by (rewrite map_length; exact Hc).
    rewrite (nth_map_lt (@snd label Rfops) cvals k ([], 0) 0 Hc) in P.
    rewrite (nth_map_lt (fun p : label * Rfops => fopp Rfops (snd p)) cvals k ([], 0) 0 Hc). revert P. generalize (snd (nth k cvals ([], 0))). intros z P. simpl in z |- *. lra.
  - rewrite app_nth2 in P |- * by (rewrite map_length; exact Hc). rewrite map_length in *. lra. Qed.

Section NetworkBounded.
Variable n : network Rfops.
Variables cvals lvals : list (label * Rfops).
Notation nst := (ss_nst Rfops cvals lvals).
Notation W := (Wd Rfops cvals lvals).
Notation u0 := (zero_row Rfops (ss_nS Rfops n lvals)).
Hypothesis Wpos : forall k, (k < nst)%nat -> 0 < nth k W 0.
Hypothesis RD : rlc_dc Rfops n cvals lvals.
Variable m : ssm Rfops.
Hypothesis Hm : state_space_matrices Rfops n cvals lvals = Ok m.
Hypothesis Ypos : forall b, In b (branches n) -> resb Rfops cvals b = true -> 0 <= finY b.
Variable x : R -> list Rfops.
Variables t0 t1 : R.
Hypothesis Hlen : forall t, t0 <= t <= t1 -> length (x t) = nst.
Hypothesis Hder : forall k t, (k < nst)%nat -> t0 < t < t1 ->
  is_derive (fun s => nth k (x s) 0) t (nth k (ss_xdot Rfops m (x t) u0) 0).
Hypothesis Hcont : forall k t, (k < nst)%nat -> t0 <= t <= t1 -> continuity_pt (fun s => nth k (x s) 0) t.

Theorem net_bounded k t : (k < nst)%nat -> t0 <= t <= t1 ->
  Rabs (nth k (x t) 0) <= sqrt (2 * energy W nst (x t0) / nth k W 0).
Proof. intros Hk Ht.
  apply (list_bounded nst W (f0dot n lvals m)
           (net_dissip n cvals lvals (Wpos_lam_nz cvals lvals Wpos) RD m Hm Ypos) x t0 t1 Hlen Hder Hcont k t);
    try assumption; [|apply Wpos; exact Hk].
  intros j Hj. apply Rlt_le, Wpos, Hj. Qed.

(* ---------------- 5. constant input: energy of the deviation from an equilibrium ---------------- *)
Variable u : list Rfops.
Variable xs : list Rfops.
Hypothesis Lxs : length xs = nst.
Hypothesis Hxs : forall k, (k < nst)%nat -> nth k (ss_xdot Rfops m xs u) 0 = 0.     (* A xs + B u = 0 *)
Hypothesis HderU : forall k t, (k < nst)%nat -> t0 < t < t1 ->
  is_derive (fun s => nth k (x s) 0) t (nth k (ss_xdot Rfops m (x t) u) 0).

Let lam_nz := Wpos_lam_nz cvals lvals Wpos.
Let yd (k : nat) (s : R) : R := nth k (x s) 0 - nth k xs 0.

Lemma dev_vec t : t0 <= t <= t1 -> stvec nst yd t = row_minus Rfops (x t) xs.
Proof. intros Ht. pose proof (Hlen t Ht) as Lx. apply (vec_ext Rfops).
  - rewrite stvec_length. rewrite (row_minus_length Rfops) by lia. symmetry. exact Lx.
  - rewrite stvec_length. intros k Hk. etransitivity; [exact (stvec_nth nst yd k t Hk)|].
    symmetry. apply (nth_row_minus Rfops Rfops_ok (x t) xs k). lia. Qed.

Lemma dev_rhs k t : (k < nst)%nat -> t0 <= t <= t1 ->
  nth k (ss_xdot Rfops m (x t) u) 0 = nth k (mat_vec (ss_A m) (stvec nst yd t)) 0.
Proof. intros Hk Ht. pose proof (Hlen t Ht) as Lx. rewrite (dev_vec t Ht).
  destruct (ss_augmented_mat Rfops Rfops_ok n cvals lvals lam_nz m Hm) as [WA [WB _]].
  rewrite (mat_vec_row_minus Rfops Rfops_ok) by lia.
  rewrite (nth_row_minus Rfops Rfops_ok) by (rewrite !mat_vec_length; reflexivity).
  pose proof (Hxs k Hk) as E. unfold ss_xdot in E |- *.
  rewrite (nth_vadd Rfops Rfops_ok) in E |- *
    by (rewrite !mat_vec_length, (wfm_len Rfops _ _ _ WA), (wfm_len Rfops _ _ _ WB); reflexivity).
  simpl in *. lra. Qed.

Lemma dev_energy t : t0 <= t <= t1 -> En nst W yd t = energy W nst (row_minus Rfops (x t) xs).
Proof. intros Ht. rewrite En_energy, (dev_vec t Ht). reflexivity. Qed.

Lemma dev_der k t : (k < nst)%nat -> t0 < t < t1 -> is_derive (yd k) t (nth k (mat_vec (ss_A m) (stvec nst yd t)) 0).
Proof. intros Hk Ht. rewrite <- (dev_rhs k t Hk) by lra. unfold yd.
  replace (nth k (ss_xdot Rfops m (x t) u) 0) with (Hierarchy.minus (nth k (ss_xdot Rfops m (x t) u) 0) (@Hierarchy.zero R_AbelianGroup))
    by (unfold Hierarchy.minus, Hierarchy.plus, Hierarchy.opp, Hierarchy.zero; simpl; ring).
  apply (is_derive_minus (K:=R_AbsRing) (V:=R_NormedModule) (fun s => nth k (x s) 0) (fun _ => nth k xs 0)).
  - apply HderU; assumption.
  - apply (is_derive_const (K:=R_AbsRing) (V:=R_NormedModule)). Qed.

Lemma dev_cont k t : (k < nst)%nat -> t0 <= t <= t1 -> continuity_pt (yd k) t.
Proof. intros Hk Ht. unfold yd.
  apply (continuity_pt_minus (fun s => nth k (x s) 0) (fun _ => nth k xs 0)).
  - apply Hcont; assumption.
  - apply continuity_pt_const. intros a b. reflexivity. Qed.

Theorem dc_energy_nonincreasing s t : t0 <= s -> s <= t -> t <= t1 ->
  energy W nst (row_minus Rfops (x t) xs) <= energy W nst (row_minus Rfops (x s) xs).
Proof. intros H0 Hst H1. rewrite <- !dev_energy by lra.
  apply (En_nonincreasing nst W (mat_vec (ss_A m)) (net_dissip_A n cvals lvals lam_nz RD m Hm Ypos) yd t0 t1 dev_der dev_cont);
    assumption. Qed.

Theorem dc_bounded k t : (k < nst)%nat -> t0 <= t <= t1 ->
  Rabs (nth k (x t) 0 - nth k xs 0) <= sqrt (2 * energy W nst (row_minus Rfops (x t0) xs) / nth k W 0).
Proof. intros Hk Ht. destruct (Rle_dec t0 t1) as [L|L]; [|lra]. rewrite <- (dev_energy t0) by lra.
  apply (En_bounded nst W (mat_vec (ss_A m)) (net_dissip_A n cvals lvals lam_nz RD m Hm Ypos) yd t0 t1 dev_der dev_cont k t);
    try assumption; [|apply Wpos; exact Hk].
  intros j Hj. apply Rlt_le, Wpos, Hj. Qed.

End NetworkBounded.
