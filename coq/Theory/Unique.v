(* Theory/Unique.v — a computable certificate of well-posedness for concrete networks:
   if the model's [inverse] of the MNA matrix, multiplied from the LEFT, gives the identity (a boolean check,
   run by vm_compute), the MNA system has at most one solution; together with [solvedb] this is [WellPosed]. *)
From Coq Require Import List Bool NArith Arith Permutation Lia Field Ring.
From CC Require Import Theory.Field Theory.Labels Model.Network Theory.Spec Theory.Mna Theory.MnaComplete Theory.Api.
Import ListNotations.

Section Unique.
Variable K : fops.
Hypothesis KOK : fops_ok K.
Add Field Kf5 : (Kth K KOK).
Notation "0" := (f0 K). Notation "1" := (f1 K).
Infix "+" := (fadd K). Infix "*" := (fmul K). Infix "-" := (fsub K). Notation "- x" := (fopp K x).
Notation "x == y" := (feqb K x y) (at level 70).
Ltac leq a b := destruct (label_eqb_spec a b).

Lemma dot_nth (r x : list K) : dot r x = sumF (fun j => nth j r 0 * nth j x 0) (seq 0 (length x)).
Proof. revert r. induction x as [|b x IH]; intros r.
  - rewrite dot_nil_r. reflexivity.
  - destruct r as [|a r].
    + transitivity 0; [reflexivity|]. symmetry.
      apply (sumF_zero_in KOK). intros j _. destruct j; simpl; ring.
    + unfold dot; simpl. fold (dot r x). rewrite IH. f_equal.
      rewrite <- seq_shift, sumF_map. reflexivity. Qed.

Lemma nth_mat_vec (A : list (list K)) (y : list K) i : nth i (mat_vec A y) 0 = dot (nth i A []) y.
Proof. unfold mat_vec. pose proof (map_nth (fun r => dot r y) A [] i) as E.
  change (dot [] y) with 0 in E. exact E. Qed.

Definition li_entry (X A : list (list K)) (k j : nat) : K :=
  sumF (fun i => nth i (nth k X []) 0 * nth j (nth i A []) 0) (seq 0 (length A)).
Definition left_inv_b (X A : list (list K)) (N : nat) : bool :=
  forallb (fun k => forallb (fun j => li_entry X A k j == (if Nat.eqb k j then 1 else 0)) (seq 0 N)) (seq 0 N).

Lemma left_inv_unique (X A : list (list K)) (N : nat) (x x' : list K) :
  left_inv_b X A N = true -> length x = N -> length x' = N -> mat_vec A x = mat_vec A x' -> x = x'.
Proof. intros LI Hx Hx' H.
  assert (L : forall k j, (k < N)%nat -> (j < N)%nat -> li_entry X A k j = if Nat.eqb k j then 1 else 0).
  { intros k j Hk Hj. unfold left_inv_b in LI. rewrite forallb_forall in LI.
    specialize (LI k (proj2 (in_seq N 0 k) (conj (Nat.le_0_l k) Hk))). rewrite forallb_forall in LI.
    specialize (LI j (proj2 (in_seq N 0 j) (conj (Nat.le_0_l j) Hj))).
    destruct (feqb_spec KOK (li_entry X A k j) (if Nat.eqb k j then 1 else 0)) as [E|E]; [exact E|discriminate]. }
  assert (R : forall y, length y = N -> forall k, (k < N)%nat ->
            nth k y 0 = sumF (fun i => nth i (nth k X []) 0 * nth i (mat_vec A y) 0) (seq 0 (length A))).
  { intros y Hy k Hk.
    transitivity (sumF (fun j => if Nat.eqb j k then nth j y 0 else 0) (seq 0 N)).
    { rewrite (sumF_indicator KOK Nat.eqb Nat.eqb_spec (fun j => nth j y 0) k (seq 0 N) (seq_NoDup N 0)).
      destruct (existsb (Nat.eqb k) (seq 0 N)) eqn:E; [reflexivity|]. exfalso.
      apply not_true_iff_false in E. apply E. apply existsb_exists. exists k.
      split; [apply in_seq; lia|apply Nat.eqb_refl]. }
    transitivity (sumF (fun j => li_entry X A k j * nth j y 0) (seq 0 N)).
    { apply sumF_ext_in. intros j Hj. apply in_seq in Hj. rewrite (L k j Hk) by lia.
      rewrite (Nat.eqb_sym j k). destruct (Nat.eqb k j); ring. }
    transitivity (sumF (fun j => sumF (fun i => nth i (nth k X []) 0 * (nth j (nth i A []) 0 * nth j y 0))
                                   (seq 0 (length A))) (seq 0 N)).
    { apply sumF_ext. intros j. unfold li_entry. rewrite <- (sumF_scal_r KOK). apply sumF_ext. intros i. ring. }
    rewrite (sumF_swap KOK). apply sumF_ext. intros i. rewrite (sumF_scal_l KOK). f_equal.
    rewrite nth_mat_vec, dot_nth, Hy. reflexivity. }
  apply (nth_ext _ _ 0 0); [congruence|]. intros k Hk. rewrite Hx in Hk.
  rewrite (R x Hx k Hk), (R x' Hx' k Hk), H. reflexivity. Qed.

(* ---------------- the certificate for a network ---------------- *)
Definition uniqb (n : network K) : bool :=
  let A := mna_matrix n in
  match inverse A with Some X => left_inv_b X A (length A) | None => false end.

Lemma mna_matrix_length (n : network K) : length (mna_matrix n) = (length (node_index n) + length (vs_index n))%nat.
Proof. unfold mna_matrix. rewrite app_length, !map_length. reflexivity. Qed.

Lemma uniqb_unique (n : network K) (x x' : list K) : uniqb n = true -> solves n x -> solves n x' -> x = x'.
Proof. unfold uniqb. destruct (inverse (mna_matrix n)) as [X|]; [|discriminate]. intros LI [L1 S1] [L2 S2].
  apply (left_inv_unique X (mna_matrix n) _ x x' LI).
  - rewrite mna_matrix_length. exact L1.
  - rewrite mna_matrix_length. exact L2.
  - rewrite S1, S2. reflexivity. Qed.

Lemma node_labels_cases (n : network K) l : In l (node_labels n) -> l = zero n \/ In l (node_index n).
Proof. intros H. leq l (zero n); [left; assumption|right]. unfold node_index. apply filter_In.
  split; [apply lsort_In; exact H|]. leq l (zero n); [contradiction|reflexivity]. Qed.

Theorem wellposed_check (n : network K) : wfb n = true -> solvedb n = true -> uniqb n = true -> WellPosed n.
Proof. intros W Sb Ub. destruct (solvedb_ok KOK n W Sb) as [s [_ [WF [_ C]]]]. split.
  - eexists. eexists. exact C.
  - intros phi j phi' j' C1 C2.
    pose proof (uniqb_unique n _ _ Ub (mna_complete K KOK n WF _ _ C1) (mna_complete K KOK n WF _ _ C2)) as E.
    split.
    + intros l Hl. apply node_labels_cases in Hl.
      rewrite <- (phi_vec K n phi j l (proj1 C1) Hl), <- (phi_vec K n phi' j' l (proj1 C2) Hl), E. reflexivity.
    + intros b Hb. rewrite <- (flow_vec K KOK n WF phi j b C1 Hb), <- (flow_vec K KOK n WF phi' j' b C2 Hb), E.
      reflexivity. Qed.

End Unique.

Arguments uniqb {K}. Arguments left_inv_b {K}. Arguments li_entry {K}.
