(* Theory/FourierParseval.v — the numerical limits that close the mean-square / Parseval clause of C08:
   for each of the six built-in waveforms the energy of the first N harmonics
       amp 0 ^2 + sum_{n=1..N} amp n ^2 / 2
   converges to the mean square of the waveform (FourierBessel.v: [ms_const] .. [ms_saw]); by
   [fc_mean_square_series_iff] / [api_mean_square_series_iff] this is [mean_square_series] (HarmonicsTh.v).
     const, cos, sin : the sum is constant from N = 0 resp. N = 1 on;
     saw  : amp n ^2 / 2 = 2 A^2 / pi^2 * 1/n^2,               Basel       (Theory/Basel.v: [basel]);
     rect : amp n ^2 / 2 = 8 A^2 / pi^2 * 1/n^2 for odd n,      odd Basel   ([basel_odd]);
     tri  : amp n ^2 / 2 = 32 A^2 / pi^4 * 1/n^4 for odd n,     odd zeta(4) ([zeta4_odd]). *)
From Coq Require Import Reals ZArith NArith List Bool Lra Lia.
Set Warnings "-ambiguous-paths".
From Coquelicot Require Import Coquelicot.
From CC Require Import Model.Network Model.Rops Theory.RopsR Gen.Periodic Model.Harmonics
  Theory.Fourier Theory.FourierWaves Theory.HarmonicsTh Theory.FourierBessel Theory.Basel.
Import ListNotations.
Open Scope R_scope.

(* ---------------------------------------------------------------- integer tests at Z.of_nat n *)
Lemma of_nat_eqb0 (n : nat) : (1 <= n)%nat -> (Z.of_nat n =? 0)%Z = false.
Proof. intros Hn. apply Z.eqb_neq. lia. Qed.

Lemma of_nat_eqb1_SS (n : nat) : (Z.of_nat (S (S n)) =? 1)%Z = false.
Proof. apply Z.eqb_neq. lia. Qed.

Lemma of_nat_mod2 (n : nat) : (Z.of_nat n mod 2 =? 0)%Z = Nat.even n.
Proof.
  pose proof (Nat.div2_odd n) as E. rewrite <- Nat.negb_even in E.
  destruct (Nat.even n) eqn:Ev; simpl negb in E; simpl Nat.b2n in E.
  - apply Z.eqb_eq. replace (Z.of_nat n) with (Z.of_nat (Nat.div2 n) * 2)%Z by lia. apply Z_mod_mult.
  - apply Z.eqb_neq. replace (Z.of_nat n) with (1 + Z.of_nat (Nat.div2 n) * 2)%Z by lia.
    rewrite Z_mod_plus_full. discriminate.
Qed.

Lemma IZR_of_nat (n : nat) : IZR (Z.of_nat n) = INR n.
Proof. symmetry. apply INR_IZR_INZ. Qed.

(* ---------------------------------------------------------------- the energy sequence and its limit, wave by wave *)
Definition energy_seq (amp : Z -> R) (N : nat) : R :=
  amp 0%Z ^ 2 + sum_n_m (fun n => amp (Z.of_nat n) ^ 2 / 2) 1 N.

Lemma energy_seq_lim (amp : Z -> R) (g : nat -> R) (c l : R) :
  (forall n, (1 <= n)%nat -> amp (Z.of_nat n) ^ 2 / 2 = c * g n) ->
  is_lim_seq (fun N => sum_n_m g 1 N) l ->
  is_lim_seq (energy_seq amp) (amp 0%Z ^ 2 + c * l).
Proof.
  intros Hg HL. unfold energy_seq.
  apply is_lim_seq_plus'; [apply is_lim_seq_const|].
  apply (is_lim_seq_ext (fun N => c * sum_n_m g 1 N)).
  - intros N. rewrite <- bsum_scal. apply bsum_ext. intros n Hn. symmetry. apply Hg. exact Hn.
  - apply (is_lim_seq_scal_l _ c (Finite l)). exact HL.
Qed.

Section Waves.
Variables A phi off : R.

Lemma const_energy_lim : is_lim_seq (energy_seq (const_amplitude ROps A phi off)) (ms_const A phi off).
Proof.
  apply (is_lim_seq_ext (fun _ => A ^ 2)); [|apply is_lim_seq_const].
  intros N. unfold energy_seq. rewrite (bsum_ext _ (fun _ => 0)).
  - replace (sum_n_m (fun _ : nat => 0) 1 N) with 0; [unfold const_amplitude; simpl; ring|].
    induction N as [|N IH]; [rewrite bsum_0; reflexivity|]. rewrite bsum_S, <- IH. ring.
  - intros n Hn. unfold const_amplitude. rewrite of_nat_eqb0 by exact Hn. simpl. field.
Qed.

(* cos and sin share the amplitude table: off at 0, A at 1, 0 elsewhere *)
Lemma one_harmonic_lim (amp : Z -> R) :
  amp 0%Z = off -> amp 1%Z = A -> (forall n : nat, amp (Z.of_nat (S (S n))) = 0) ->
  is_lim_seq (energy_seq amp) (A ^ 2 / 2 + off ^ 2).
Proof.
  intros H0 H1 Hn. apply is_lim_seq_incr_1.
  apply (is_lim_seq_ext (fun _ => A ^ 2 / 2 + off ^ 2)); [|apply is_lim_seq_const].
  intros N. unfold energy_seq. rewrite H0.
  replace (sum_n_m (fun n => amp (Z.of_nat n) ^ 2 / 2) 1 (S N)) with (A ^ 2 / 2); [ring|].
  induction N as [|N IH].
  - rewrite bsum_S, bsum_0. change (Z.of_nat 1) with 1%Z. rewrite H1. ring.
  - rewrite bsum_S, <- IH, Hn. field.
Qed.

Lemma cos_energy_lim : is_lim_seq (energy_seq (cos_amplitude ROps A phi off)) (ms_cos A phi off).
Proof.
  apply one_harmonic_lim; [reflexivity|reflexivity|].
  intros n. unfold cos_amplitude. rewrite of_nat_eqb0, of_nat_eqb1_SS by lia. reflexivity.
Qed.

Lemma sin_energy_lim : is_lim_seq (energy_seq (sin_amplitude ROps A phi off)) (ms_sin A phi off).
Proof.
  apply one_harmonic_lim; [reflexivity|reflexivity|].
  intros n. unfold sin_amplitude. rewrite of_nat_eqb0, of_nat_eqb1_SS by lia. reflexivity.
Qed.

Lemma saw_energy_lim : is_lim_seq (energy_seq (saw_amplitude ROps A phi off)) (ms_saw A phi off).
Proof.
  pose proof PI_RGT_0 as HPI.
  replace (ms_saw A phi off) with (saw_amplitude ROps A phi off 0 ^ 2 + 2 * A ^ 2 / PI ^ 2 * (PI ^ 2 / 6)).
  2:{ unfold ms_saw, saw_amplitude. simpl. field. lra. }
  apply (energy_seq_lim _ (fun n => 1 / INR n ^ 2)); [|exact basel].
  intros n Hn. unfold saw_amplitude. rewrite of_nat_eqb0 by exact Hn. cbn [rmul rdiv rofZ rpi ROps].
  rewrite IZR_of_nat. assert (HN : INR n <> 0) by (apply not_0_INR; lia). field. split; [exact HN|lra].
Qed.

Lemma rect_energy_lim : is_lim_seq (energy_seq (rect_amplitude ROps A phi off)) (ms_rect A phi off).
Proof.
  pose proof PI_RGT_0 as HPI.
  replace (ms_rect A phi off) with (rect_amplitude ROps A phi off 0 ^ 2 + 8 * A ^ 2 / PI ^ 2 * (PI ^ 2 / 8)).
  2:{ unfold ms_rect, rect_amplitude. simpl. field. lra. }
  apply (energy_seq_lim _ (fun n => if Nat.even n then 0 else 1 / INR n ^ 2)); [|exact basel_odd].
  intros n Hn. unfold rect_amplitude. rewrite of_nat_eqb0 by exact Hn. rewrite of_nat_mod2.
  cbn [rmul rdiv rofZ rpi ROps]. destruct (Nat.even n).
  - field. lra.
  - rewrite IZR_of_nat. assert (HN : INR n <> 0) by (apply not_0_INR; lia). field. split; [exact HN|lra].
Qed.

Lemma tri_energy_lim : is_lim_seq (energy_seq (tri_amplitude ROps A phi off)) (ms_tri A phi off).
Proof.
  pose proof PI_RGT_0 as HPI.
  replace (ms_tri A phi off) with (tri_amplitude ROps A phi off 0 ^ 2 + 32 * A ^ 2 / PI ^ 4 * (PI ^ 4 / 96)).
  2:{ unfold ms_tri, tri_amplitude. simpl. field. lra. }
  apply (energy_seq_lim _ (fun n => if Nat.even n then 0 else 1 / INR n ^ 4)); [|exact zeta4_odd].
  intros n Hn. unfold tri_amplitude. rewrite of_nat_eqb0 by exact Hn. rewrite of_nat_mod2.
  cbn [rmul rdiv rofZ rpi ROps]. destruct (Nat.even n).
  - field. lra.
  - rewrite IZR_of_nat. assert (HN : INR n <> 0) by (apply not_0_INR; lia). field. split; [exact HN|lra].
Qed.

(* ---------------------------------------------------------------- mean-square convergence and Parseval, wave by wave *)
Variable T : R.
Hypothesis HT : 0 < T.

Lemma const_parseval :
  mean_square_series T (const_time ROps T A phi off) (const_amplitude ROps A phi off) (const_phase ROps A phi off).
Proof.
  apply (fc_mean_square_series_iff T HT _ _ _ _ (const_fourier T A phi off HT) (const_sq T A phi off HT)).
  exact const_energy_lim.
Qed.
Lemma cos_parseval :
  mean_square_series T (cos_time ROps T A phi off) (cos_amplitude ROps A phi off) (cos_phase ROps A phi off).
Proof.
  apply (fc_mean_square_series_iff T HT _ _ _ _ (cos_fourier T A phi off HT) (cos_sq T A phi off HT)).
  exact cos_energy_lim.
Qed.
Lemma sin_parseval :
  mean_square_series T (sin_time ROps T A phi off) (sin_amplitude ROps A phi off) (sin_phase ROps A phi off).
Proof.
  apply (fc_mean_square_series_iff T HT _ _ _ _ (sin_fourier T A phi off HT) (sin_sq T A phi off HT)).
  exact sin_energy_lim.
Qed.
Lemma rect_parseval :
  mean_square_series T (rect_time ROps T A phi off) (rect_amplitude ROps A phi off) (rect_phase ROps A phi off).
Proof.
  apply (fc_mean_square_series_iff T HT _ _ _ _ (rect_fourier T A phi off HT) (rect_sq T A phi off HT)).
  exact rect_energy_lim.
Qed.
Lemma tri_parseval :
  mean_square_series T (tri_time ROps T A phi off) (tri_amplitude ROps A phi off) (tri_phase ROps A phi off).
Proof.
  apply (fc_mean_square_series_iff T HT _ _ _ _ (tri_fourier T A phi off HT) (tri_sq T A phi off HT)).
  exact tri_energy_lim.
Qed.
Lemma saw_parseval :
  mean_square_series T (saw_time ROps T A phi off) (saw_amplitude ROps A phi off) (saw_phase ROps A phi off).
Proof.
  apply (fc_mean_square_series_iff T HT _ _ _ _ (saw_fourier T A phi off HT) (saw_sq T A phi off HT)).
  exact saw_energy_lim.
Qed.
End Waves.

(* ---------------------------------------------------------------- every listed wave, through the tables and the API *)
Lemma api_energy (h : harmonics ROps) (N : nat) :
  amplitude ROps h 0 ^ 2 + sum_n_m (fun n => amplitude ROps h (Z.of_nat n) ^ 2 / 2) 1 N
  = energy_seq (amp_coeff ROps h) N.
Proof.
  unfold energy_seq. rewrite amplitude_nonneg by lia. f_equal.
  apply bsum_ext. intros n _. rewrite amplitude_nonneg by lia. reflexivity.
Qed.

Theorem api_energy_lim (i : N) (T A phi off : R) (h : harmonics ROps) :
  fourier_series ROps i T A phi off = POk h ->
  is_lim_seq (fun N => amplitude ROps h 0 ^ 2 + sum_n_m (fun n => amplitude ROps h (Z.of_nat n) ^ 2 / 2) 1 N)
    (wave_ms i A phi off).
Proof.
  intros Hs.
  apply (is_lim_seq_ext (energy_seq (amp_coeff ROps h))); [intros N; symmetry; apply api_energy|].
  destruct i as [|p]; [|do 3 (try destruct p as [p|p|])]; cbn in Hs; try discriminate Hs;
    injection Hs as Hs; subst h; cbn [amp_coeff wave_ms].
  - apply const_energy_lim.
  - apply saw_energy_lim.
  - apply rect_energy_lim.
  - apply tri_energy_lim.
  - apply sin_energy_lim.
  - apply cos_energy_lim.
Qed.

Theorem parseval_all (i : N) (T A phi off : R) (f : R -> R -> R -> R -> R -> R) (h : harmonics ROps) :
  0 < T -> time_function ROps i = Some f -> fourier_series ROps i T A phi off = POk h ->
  mean_square_series T (f T A phi off) (amplitude ROps h) (phase ROps h).
Proof.
  intros HT Hf Hs. apply (api_mean_square_series_iff i T A phi off f h HT Hf Hs).
  exact (api_energy_lim i T A phi off h Hs).
Qed.

(* what the clause says, spelled out: the squared error integrates to the closed form of FourierBessel.v, tends to 0,
   and the energies of the harmonics sum to the mean square *)
Theorem parseval_explicit (i : N) (T A phi off : R) (f : R -> R -> R -> R -> R -> R) (h : harmonics ROps) :
  0 < T -> time_function ROps i = Some f -> fourier_series ROps i T A phi off = POk h ->
  is_lim_seq (fun N => RInt (fun t => (f T A phi off t - partial_sum T (amplitude ROps h) (phase ROps h) N t) ^ 2) 0 T) 0 /\
  is_lim_seq (fun N => amplitude ROps h 0 ^ 2 + sum_n_m (fun n => amplitude ROps h (Z.of_nat n) ^ 2 / 2) 1 N)
    (RInt (fun t => f T A phi off t ^ 2) 0 T / T) /\
  RInt (fun t => f T A phi off t ^ 2) 0 T / T = wave_ms i A phi off.
Proof.
  intros HT Hf Hs. destruct (parseval_all i T A phi off f h HT Hf Hs) as (_ & H1 & _ & H2).
  split; [exact H1|]. split; [exact H2|].
  rewrite (is_RInt_unique _ _ _ _ (mean_square_all i T A phi off f HT Hf)). field. lra.
Qed.

(* a concrete instance: the rectangle of period 2, amplitude 1 *)
Lemma ex_rect_error_lim :
  is_lim_seq (fun N => RInt (fun t => (rect_time ROps 2 1 0 0 t
      - partial_sum 2 (rect_amplitude ROps 1 0 0) (rect_phase ROps 1 0 0) N t) ^ 2) 0 2) 0.
Proof. exact (proj1 (proj2 (rect_parseval 1 0 0 2 ltac:(lra)))). Qed.

Lemma ex_rect_energy_lim :
  is_lim_seq (fun N => sum_n_m (fun n => rect_amplitude ROps 1 0 0 (Z.of_nat n) ^ 2 / 2) 1 N) 1.
Proof.
  pose proof (rect_energy_lim 1 0 0) as H. unfold energy_seq, ms_rect in H.
  apply (is_lim_seq_ext _ (fun N => sum_n_m (fun n => rect_amplitude ROps 1 0 0 (Z.of_nat n) ^ 2 / 2) 1 N)) in H.
  - replace (1 ^ 2 + 0 ^ 2) with 1 in H by ring. exact H.
  - intros N. unfold rect_amplitude at 1. simpl. ring.
Qed.
