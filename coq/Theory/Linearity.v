(* Theory/Linearity.v — linearity of the circuit equations in the independent sources (property C04):
   scaling, superposition with the library's own source-zeroing operations, zero solution.
   Flows are re-indexed by branch *id* (source-changing operations change the branch records, not the ids). *)
From Coq Require Import List Bool NArith Arith Permutation Lia Field Ring.
From CC Require Import Theory.Field Theory.Labels Model.Network Model.Transformers Theory.Spec Theory.Mna
  Theory.MnaComplete Theory.Api.
Import ListNotations.

(* ---------------- three lists related position by position ---------------- *)
Inductive Forall3 {A B C : Type} (R : A -> B -> C -> Prop) : list A -> list B -> list C -> Prop :=
| Forall3_nil : Forall3 R [] [] []
| Forall3_cons a b c la lb lc : R a b c -> Forall3 R la lb lc -> Forall3 R (a :: la) (b :: lb) (c :: lc).

Section F3.
Context {A B C : Type}.
Variable R : A -> B -> C -> Prop.

Lemma Forall3_In la lb lc a : Forall3 R la lb lc -> In a la -> exists b c, In b lb /\ In c lc /\ R a b c.
Proof. induction 1 as [|a0 b0 c0 la lb lc H0 F IH]; simpl; [tauto|]. intros [<-|H].
  - exists b0, c0. auto.
  - destruct (IH H) as [b [c [Hb [Hc Hr]]]]. exists b, c. auto. Qed.

Lemma Forall3_impl (R' : A -> B -> C -> Prop) la lb lc :
  (forall a b c, R a b c -> R' a b c) -> Forall3 R la lb lc -> Forall3 R' la lb lc.
Proof. intros H. induction 1; constructor; auto. Qed.

Lemma Forall3_map_eq12 {T} (f : A -> T) (g : B -> T) la lb lc :
  (forall a b c, R a b c -> f a = g b) -> Forall3 R la lb lc -> map f la = map g lb.
Proof. intros H. induction 1 as [|a b c la lb lc H0 F IH]; simpl; [reflexivity|]. rewrite IH, (H _ _ _ H0). reflexivity. Qed.

Lemma Forall3_map_eq13 {T} (f : A -> T) (g : C -> T) la lb lc :
  (forall a b c, R a b c -> f a = g c) -> Forall3 R la lb lc -> map f la = map g lc.
Proof. intros H. induction 1 as [|a b c la lb lc H0 F IH]; simpl; [reflexivity|]. rewrite IH, (H _ _ _ H0). reflexivity. Qed.

Lemma Forall3_fst (P : A -> B -> Prop) la lb lc :
  (forall a b c, R a b c -> P a b) -> Forall3 R la lb lc -> Forall2 P la lb.
Proof. intros H. induction 1; constructor; eauto. Qed.

Lemma Forall3_snd (P : A -> C -> Prop) la lb lc :
  (forall a b c, R a b c -> P a c) -> Forall3 R la lb lc -> Forall2 P la lc.
Proof. intros H. induction 1; constructor; eauto. Qed.
End F3.

Lemma Forall3_maps {X A B C} (R : A -> B -> C -> Prop) (f : X -> A) (g : X -> B) (h : X -> C) (l : list X) :
  (forall x, In x l -> R (f x) (g x) (h x)) -> Forall3 R (map f l) (map g l) (map h l).
Proof. induction l as [|x l IH]; simpl; intros H; constructor; auto. Qed.

Lemma Forall3_of_Forall2 {A B C} (P : A -> B -> Prop) (R : A -> A -> C -> Prop) (h : B -> C) la lb :
  (forall a b, P a b -> R a a (h b)) -> Forall2 P la lb -> Forall3 R la la (map h lb).
Proof. intros H. induction 1; simpl; constructor; auto. Qed.

Lemma Forall2_In_r {A B} (P : A -> B -> Prop) la lb b : Forall2 P la lb -> In b lb -> exists a, In a la /\ P a b.
Proof. induction 1 as [|a0 b0 la lb H0 F IH]; simpl; [tauto|]. intros [<-|H].
  - exists a0. auto.
  - destruct (IH H) as [a [Ha Hp]]. exists a. auto. Qed.

Lemma Forall2_In_l {A B} (P : A -> B -> Prop) la lb a : Forall2 P la lb -> In a la -> exists b, In b lb /\ P a b.
Proof. induction 1 as [|a0 b0 la lb H0 F IH]; simpl; [tauto|]. intros [<-|H].
  - exists b0. auto.
  - destruct (IH H) as [b [Hb Hp]]. exists b. auto. Qed.

Lemma Forall2_map_eq {A B T} (P : A -> B -> Prop) (f : A -> T) (g : B -> T) la lb :
  (forall a b, P a b -> f a = g b) -> Forall2 P la lb -> map f la = map g lb.
Proof. intros H. induction 1 as [|a b la lb H0 F IH]; simpl; [reflexivity|]. rewrite IH, (H _ _ H0). reflexivity. Qed.

Lemma Forall2_map_r {A B} (P : A -> B -> Prop) (g : A -> B) la :
  (forall a, In a la -> P a (g a)) -> Forall2 P la (map g la).
Proof. induction la as [|a la IH]; simpl; intros H; constructor; auto. Qed.

Section Lin.
Variable K : fops.
Hypothesis KOK : fops_ok K.
Add Field Kf4 : (Kth K KOK).
Notation "0" := (f0 K). Notation "1" := (f1 K).
Infix "+" := (fadd K). Infix "*" := (fmul K). Infix "-" := (fsub K). Notation "- x" := (fopp K x).
Infix "/" := (fdiv K).
Notation "x == y" := (feqb K x y) (at level 70).
Ltac feq x y := destruct (feqb_spec KOK x y).
Ltac leq a b := destruct (label_eqb_spec a b).

(* ---------------- flows indexed by branch id ---------------- *)
Definition idflow (ji : label -> K) (b : branch K) : K := ji (bid b).
Definition CircuitSpecId (n : network K) (phi : label -> K) (ji : label -> K) : Prop :=
  CircuitSpec n phi (idflow ji).

Lemma CircuitSpec_ext (n : network K) phi phi' j j' :
  (forall l, phi l = phi' l) -> (forall b, In b (branches n) -> j b = j' b) ->
  CircuitSpec n phi j -> CircuitSpec n phi' j'.
Proof. intros Hp Hj [H0 [HK HL]]. split; [rewrite <- Hp; exact H0|]. split.
  - intros node. rewrite <- (HK node). unfold kcl_sum. apply sumF_ext_in. intros b Hb.
    rewrite (Hj b Hb). reflexivity.
  - intros b Hb. specialize (HL b Hb). unfold law in *. destruct (eY (el b)).
    + rewrite <- (Hj b Hb). unfold bvolt in *. rewrite <- !Hp. exact HL.
    + unfold bvolt in *. rewrite <- !Hp. exact HL. Qed.

Lemma CircuitSpecId_ext (n : network K) phi phi' ji ji' :
  (forall l, phi l = phi' l) -> (forall i, ji i = ji' i) ->
  CircuitSpecId n phi ji -> CircuitSpecId n phi' ji'.
Proof. intros Hp Hj. apply CircuitSpec_ext; [exact Hp|]. intros b _. unfold idflow. apply Hj. Qed.

Lemma jv_In (n : network K) j b : wf n -> In b (branches n) -> jv n j (bid b) = j b.
Proof. intros WF Hb. unfold jv. rewrite (get_branch_In K) by (assumption || exact (ids_nodup K n WF)). reflexivity. Qed.

(* record-indexed -> id-indexed, and back *)
Lemma spec_to_id (n : network K) phi j : wf n -> CircuitSpec n phi j -> CircuitSpecId n phi (jv n j).
Proof. intros WF. apply CircuitSpec_ext; [reflexivity|]. intros b Hb. unfold idflow. symmetry. apply jv_In; assumption. Qed.

Lemma spec_of_id (n : network K) phi ji : CircuitSpecId n phi ji -> CircuitSpec n phi (idflow ji).
Proof. exact (fun H => H). Qed.

(* ---------------- the source term of an element ---------------- *)
(* Norton source current where the admittance is finite, source voltage on a zero-impedance branch *)
Definition src (e : elem K) : K := match eY e with Some _ => opt0 (eI e) | None => opt0 (eV e) end.

Lemma law_src phi (j : branch K -> K) b :
  law phi j b <-> match eY (el b) with
                  | None => bvolt phi b = src (el b)
                  | Some y => j b = src (el b) + y * bvolt phi b end.
Proof. unfold law, src. destruct (eY (el b)); tauto. Qed.

(* same position in the circuit: same terminals, same id, same admittance (as a field value) *)
Definition same_pos (b b' : branch K) : Prop :=
  node1 b = node1 b' /\ node2 b = node2 b' /\ bid b = bid b' /\ eY (el b) = eY (el b').
Definition skel (n n' : network K) : Prop := zero n' = zero n /\ Forall2 same_pos (branches n) (branches n').

Lemma same_pos_refl b : same_pos b b.
Proof. repeat split. Qed.

Definition topo (b : branch K) : label * label * label := (node1 b, node2 b, bid b).
Lemma same_pos_topo b b' : same_pos b b' -> topo b = topo b'.
Proof. intros [H1 [H2 [H3 _]]]. unfold topo. rewrite H1, H2, H3. reflexivity. Qed.

Lemma kcl_as_topo (bs : list (branch K)) ji node :
  kcl_sum bs (idflow ji) node
  = sumF (fun t => (if label_eqb (fst (fst t)) node then ji (snd t) else 0)
                   - (if label_eqb (snd (fst t)) node then ji (snd t) else 0)) (map topo bs).
Proof. rewrite sumF_map. reflexivity. Qed.

Lemma kcl_topo (bs bs' : list (branch K)) ji node : map topo bs = map topo bs' ->
  kcl_sum bs (idflow ji) node = kcl_sum bs' (idflow ji) node.
Proof. intros H. rewrite !kcl_as_topo, H. reflexivity. Qed.

Lemma kcl_lin (bs : list (branch K)) c1 c2 j1 j2 node :
  kcl_sum bs (idflow (fun i => c1 * j1 i + c2 * j2 i)) node
  = c1 * kcl_sum bs (idflow j1) node + c2 * kcl_sum bs (idflow j2) node.
Proof. unfold kcl_sum. induction bs as [|b bs IH]; simpl; [ring|]. rewrite IH. unfold idflow.
  destruct (label_eqb (node1 b) node), (label_eqb (node2 b) node); ring. Qed.

(* ---------------- linear combination of solutions ---------------- *)
Definition pos_lin (c1 c2 : K) (b b1 b2 : branch K) : Prop :=
  same_pos b b1 /\ same_pos b b2 /\ src (el b) = c1 * src (el b1) + c2 * src (el b2).

Lemma spec_lin (c1 c2 : K) (n n1 n2 : network K) phi1 j1 phi2 j2 :
  zero n1 = zero n -> zero n2 = zero n ->
  Forall3 (pos_lin c1 c2) (branches n) (branches n1) (branches n2) ->
  CircuitSpecId n1 phi1 j1 -> CircuitSpecId n2 phi2 j2 ->
  CircuitSpecId n (fun l => c1 * phi1 l + c2 * phi2 l) (fun i => c1 * j1 i + c2 * j2 i).
Proof. intros Z1 Z2 F [A0 [AK AL]] [B0 [BK BL]]. split; [|split].
  - rewrite <- Z1 at 1. rewrite <- Z2. rewrite A0, B0. ring.
  - intros node. rewrite kcl_lin.
    rewrite (kcl_topo (branches n) (branches n1)).
    2:{ apply (Forall3_map_eq12 _ _ _ _ _ _ (fun a b c (H : pos_lin c1 c2 a b c) => same_pos_topo _ _ (proj1 H)) F). }
    rewrite (kcl_topo (branches n) (branches n2) j2).
    2:{ apply (Forall3_map_eq13 _ _ _ _ _ _ (fun a b c (H : pos_lin c1 c2 a b c) => same_pos_topo _ _ (proj1 (proj2 H))) F). }
    rewrite AK, BK. ring.
  - intros b Hb. destruct (Forall3_In _ _ _ _ _ F Hb) as [b1 [b2 [Hb1 [Hb2 [P1 [P2 S]]]]]].
    pose proof (proj1 (law_src _ _ _) (AL b1 Hb1)) as L1.
    pose proof (proj1 (law_src _ _ _) (BL b2 Hb2)) as L2.
    destruct P1 as [N11 [N12 [I1 Y1]]]. destruct P2 as [N21 [N22 [I2 Y2]]].
    apply law_src. rewrite <- Y1 in L1. rewrite <- Y2 in L2.
    unfold bvolt, idflow in *. rewrite <- N11, <- N12, <- I1 in L1. rewrite <- N21, <- N22, <- I2 in L2.
    destruct (eY (el b)) as [y|].
    + rewrite S, L1, L2. ring.
    + rewrite S, <- L1, <- L2. ring. Qed.

(* ---------------- scaling every source ---------------- *)
Definition scale_elem (a : K) (e : elem K) : elem K :=
  match e with ZV nm k z v => ZV nm k z (a * v) | YI nm k y i => YI nm k y (a * i) end.
Definition scale_branch (a : K) (b : branch K) : branch K :=
  Build_branch (node1 b) (node2 b) (scale_elem a (el b)).
Definition scale_net (a : K) (n : network K) : network K :=
  {| branches := map (scale_branch a) (branches n); zero := zero n |}.

Lemma eY_scale a e : eY (scale_elem a e) = eY e.
Proof. destruct e; reflexivity. Qed.

Lemma src_scale a e : src (scale_elem a e) = a * src e.
Proof. destruct e as [nm k z v|nm k y i]; unfold src; simpl.
  - feq z 0; simpl; [reflexivity|]. field. assumption.
  - reflexivity. Qed.

Lemma same_pos_scale a b : same_pos b (scale_branch a b).
Proof. unfold same_pos, scale_branch, bid; simpl. rewrite eY_scale. destruct (el b); repeat split. Qed.

Lemma skel_scale a n : skel n (scale_net a n).
Proof. split; [reflexivity|]. simpl. apply Forall2_map_r. intros b _. apply same_pos_scale. Qed.

Theorem spec_scale (a : K) (n : network K) phi ji :
  CircuitSpecId n phi ji -> CircuitSpecId (scale_net a n) (fun l => a * phi l) (fun i => a * ji i).
Proof. intros S.
  apply (CircuitSpecId_ext _ (fun l => a * phi l + 0 * phi l) _ (fun i => a * ji i + 0 * ji i));
    [intros; ring|intros; ring|].
  apply (spec_lin a 0 (scale_net a n) n n); try reflexivity; try assumption.
  simpl. rewrite <- (map_id (branches n)) at 2 3.
  apply Forall3_maps. intros b _. unfold pos_lin, id.
  assert (P : same_pos (scale_branch a b) b).
  { destruct (same_pos_scale a b) as [H1 [H2 [H3 H4]]]. repeat split; auto. }
  split; [exact P|]. split; [exact P|]. simpl. rewrite src_scale. ring. Qed.

(* ---------------- adding the sources of two networks ---------------- *)
Definition pos_sum (b b1 b2 : branch K) : Prop :=
  same_pos b b1 /\ same_pos b b2 /\ src (el b) = src (el b1) + src (el b2).
Definition src_sum (n n1 n2 : network K) : Prop :=
  zero n1 = zero n /\ zero n2 = zero n /\ Forall3 pos_sum (branches n) (branches n1) (branches n2).

Theorem spec_add (n n1 n2 : network K) phi1 j1 phi2 j2 : src_sum n n1 n2 ->
  CircuitSpecId n1 phi1 j1 -> CircuitSpecId n2 phi2 j2 ->
  CircuitSpecId n (fun l => phi1 l + phi2 l) (fun i => j1 i + j2 i).
Proof. intros [Z1 [Z2 F]] S1 S2.
  apply (CircuitSpecId_ext _ (fun l => 1 * phi1 l + 1 * phi2 l) _ (fun i => 1 * j1 i + 1 * j2 i));
    [intros; ring|intros; ring|].
  apply (spec_lin 1 1 n n1 n2); try assumption.
  apply (Forall3_impl pos_sum); [|exact F]. intros b b1 b2 [P1 [P2 S]]. split; [exact P1|]. split; [exact P2|].
  rewrite S. ring. Qed.

(* ---------------- all sources off: the zero solution ---------------- *)
Definition sources_off (n : network K) : Prop := forall b, In b (branches n) -> src (el b) = 0.

Theorem spec_zero (n : network K) : sources_off n -> CircuitSpecId n (fun _ => 0) (fun _ => 0).
Proof. intros Off. split; [reflexivity|]. split.
  - intros node. unfold kcl_sum. apply (sumF_zero_in KOK). intros b _. unfold idflow.
    destruct (label_eqb (node1 b) node), (label_eqb (node2 b) node); ring.
  - intros b Hb. apply law_src. rewrite (Off b Hb). unfold bvolt, idflow. destruct (eY (el b)); ring. Qed.

Lemma sources_off_scale0 n : sources_off (scale_net 0 n).
Proof. intros b Hb. simpl in Hb. apply in_map_iff in Hb. destruct Hb as [b0 [<- _]]. simpl. rewrite src_scale. ring. Qed.

(* ---------------- what a common skeleton preserves ---------------- *)
Lemma same_pos_trans b b' b'' : same_pos b b' -> same_pos b' b'' -> same_pos b b''.
Proof. intros [A1 [A2 [A3 A4]]] [B1 [B2 [B3 B4]]]. repeat split; congruence. Qed.

Lemma same_pos_sym b b' : same_pos b b' -> same_pos b' b.
Proof. intros [A1 [A2 [A3 A4]]]. repeat split; congruence. Qed.

Lemma skel_wf (n n' : network K) : skel n n' -> wf n -> wf n'.
Proof. destruct n as [bs z], n' as [bs' z']. unfold skel, wf, branch_ids; simpl. intros [-> F] [ND [HZ NL]].
  assert (E1 : map node1 bs = map node1 bs') by (apply (Forall2_map_eq same_pos); [intros a b H; apply H|exact F]).
  assert (E2 : map node2 bs = map node2 bs') by (apply (Forall2_map_eq same_pos); [intros a b H; apply H|exact F]).
  assert (E3 : map bid bs = map bid bs') by (apply (Forall2_map_eq same_pos); [intros a b H; apply H|exact F]).
  split; [rewrite <- E3; exact ND|]. split.
  - intros Hne. rewrite <- E1, <- E2. apply HZ. intros E. subst bs. inversion F. subst. apply Hne. reflexivity.
  - intros b' Hb'. destruct (Forall2_In_r _ _ _ _ F Hb') as [b [Hb [N1 [N2 _]]]]. rewrite <- N1, <- N2. apply NL, Hb. Qed.

Lemma skel_node_labels (n n' : network K) : skel n n' -> node_labels n' = node_labels n.
Proof. destruct n as [bs z], n' as [bs' z']. unfold skel, node_labels; simpl. intros [-> F].
  assert (E1 : map node1 bs = map node1 bs') by (apply (Forall2_map_eq same_pos); [intros a b H; apply H|exact F]).
  assert (E2 : map node2 bs = map node2 bs') by (apply (Forall2_map_eq same_pos); [intros a b H; apply H|exact F]).
  inversion F as [|a b la lb P F' Ea Eb]; [reflexivity|]. subst. rewrite E1, E2. reflexivity. Qed.

Lemma cancel3 (x a b : K) : x = 1 * x + 1 * (1 * a + - (1) * b) -> a = b.
Proof. intros H. replace a with (b + ((1 * x + 1 * (1 * a + - (1) * b)) - x)) by ring. rewrite <- H. ring. Qed.

(* Uniqueness does not depend on the source values: a network with the skeleton of a well-posed network,
   if it has a solution at all, is well-posed. *)
Theorem wp_transfer (n n' : network K) : wf n -> skel n n' -> WellPosed n ->
  (exists phi j, CircuitSpec n' phi j) -> WellPosed n'.
Proof. intros WF SK [[p [q Sn]] U] EX. split; [exact EX|].
  intros phiA jA phiB jB SA SB.
  pose proof (skel_wf _ _ SK WF) as WF'.
  pose proof (spec_to_id _ _ _ WF' SA) as IA. pose proof (spec_to_id _ _ _ WF' SB) as IB.
  pose proof (spec_to_id _ _ _ WF Sn) as IN.
  assert (D : CircuitSpecId (scale_net 0 n') (fun l => 1 * phiA l + - (1) * phiB l)
                (fun i => 1 * jv n' jA i + - (1) * jv n' jB i)).
  { apply (spec_lin 1 (- (1)) (scale_net 0 n') n' n'); try reflexivity; try assumption.
    simpl. rewrite <- (map_id (branches n')) at 2 3. apply Forall3_maps. intros b _. unfold id.
    assert (P : same_pos (scale_branch 0 b) b) by (apply same_pos_sym, same_pos_scale).
    split; [exact P|]. split; [exact P|]. simpl. rewrite src_scale. ring. }
  assert (E : CircuitSpecId n (fun l => 1 * p l + 1 * (1 * phiA l + - (1) * phiB l))
                (fun i => 1 * jv n q i + 1 * (1 * jv n' jA i + - (1) * jv n' jB i))).
  { apply (spec_lin 1 1 n n (scale_net 0 n')); try reflexivity; try assumption.
    - simpl. exact (proj1 SK).
    - simpl. apply (Forall3_of_Forall2 same_pos); [|exact (proj2 SK)]. intros a b Pab.
      split; [apply same_pos_refl|]. split; [exact (same_pos_trans _ _ _ Pab (same_pos_scale 0 b))|].
      simpl. rewrite src_scale. ring. }
  destruct (U _ _ _ _ Sn E) as [Up Uj]. split.
  - intros l Hl. rewrite (skel_node_labels _ _ SK) in Hl. apply (cancel3 (p l)). exact (Up l Hl).
  - intros b' Hb'. destruct (Forall2_In_r _ _ _ _ (proj2 SK) Hb') as [b [Hb [_ [_ [I _]]]]].
    specialize (Uj b Hb). unfold idflow in Uj. rewrite (jv_In n q b WF Hb) in Uj. rewrite I in Uj.
    rewrite (jv_In n' jA b' WF' Hb'), (jv_In n' jB b' WF' Hb') in Uj.
    apply (cancel3 (q b)). exact Uj. Qed.

(* ---------------- the library's source-zeroing operations ---------------- *)
Definition keep_only (keep : list (elem K)) (n : network K) : res (network K) :=
  bind (short_circuitify_voltage_sources n keep) (fun m => open_circuitify_current_sources m keep).

Definition sc_branch (keep : list (elem K)) (b : branch K) : branch K :=
  if negb (in_keep (el b) keep) && is_voltage_source (el b) then zero_in_voltage b else b.
Definition oc_branch (keep : list (elem K)) (b : branch K) : branch K :=
  if negb (in_keep (el b) keep) && is_current_source (el b) then zero_in_current b else b.
Definition kp_branch (keep : list (elem K)) (b : branch K) : branch K := oc_branch keep (sc_branch keep b).
Definition kp_net (keep : list (elem K)) (n : network K) : network K :=
  {| branches := map (kp_branch keep) (branches n); zero := zero n |}.

Lemma keep_only_ok keep n m : keep_only keep n = Ok m -> m = kp_net keep n.
Proof. unfold keep_only, short_circuitify_voltage_sources, open_circuitify_current_sources, mk.
  destruct (validate _) as [m1|] eqn:V1; simpl; [|discriminate].
  apply validate_ok in V1. destruct V1 as [-> _]. simpl. intros V2.
  apply validate_ok in V2. destruct V2 as [-> _]. unfold kp_net. rewrite map_map. reflexivity. Qed.

Lemma passive_ZV_cs nm k (z : K) : is_current_source (ZV nm k z 0) = false.
Proof. unfold is_current_source; simpl. destruct (feqb_spec KOK z 0) as [Ez|Ez]; simpl; [reflexivity|].
  destruct (feqb_spec KOK (0 / z) 0) as [E|E]; [reflexivity|]. exfalso. apply E. field. exact Ez. Qed.

Lemma src_ZV0 nm k (z : K) : src (ZV nm k z 0) = 0.
Proof. unfold src; simpl. destruct (feqb_spec KOK z 0) as [Ez|Ez]; simpl; [reflexivity|]. field. exact Ez. Qed.

Lemma src_YI0 nm k (y : K) : src (YI nm k y 0) = 0.
Proof. reflexivity. Qed.

Lemma inactive_src0 (e : elem K) : is_active e = false -> src e = 0.
Proof. unfold is_active. intros H. apply orb_false_iff in H. destruct H as [H1 H2].
  unfold is_voltage_source, is_current_source, src in *. destruct e as [nm k z v|nm k y i]; simpl in *.
  - destruct (feqb_spec KOK z 0) as [Ez|Ez]; simpl in *.
    + destruct (feqb_spec KOK v 0) as [Ev|Ev]; [exact Ev|discriminate].
    + destruct (feqb_spec KOK (v / z) 0) as [E|E]; [exact E|discriminate].
  - destruct (feqb_spec KOK i 0) as [Ei|Ei]; [exact Ei|discriminate]. Qed.

Lemma eY_zero_in_voltage (e : elem K) : is_voltage_source e = true ->
  eY (impedance (ename e) (opt0 (eZ e))) = eY e.
Proof. unfold is_voltage_source. destruct e as [nm k z v|nm k y i]; simpl; [reflexivity|].
  destruct (feqb_spec KOK y 0) as [Ey|Ey]; simpl; [discriminate|]. intros _.
  destruct (feqb_spec KOK (1 / y) 0) as [E|E]; [exfalso; exact (inv_nz K KOK y Ey E)|].
  f_equal. field. split; [exact Ey|apply (f1_neq_0 KOK)]. Qed.

Lemma eY_zero_in_current (e : elem K) : is_current_source e = true ->
  eY (admittance (ename e) (opt0 (eY e))) = eY e.
Proof. unfold is_current_source. destruct e as [nm k z v|nm k y i]; simpl; [|reflexivity].
  destruct (feqb_spec KOK z 0) as [Ez|Ez]; simpl; [discriminate|reflexivity]. Qed.

Lemma kp_in keep b : in_keep (el b) keep = true -> kp_branch keep b = b.
Proof. intros H. unfold kp_branch, sc_branch. rewrite H. simpl. unfold oc_branch. rewrite H. reflexivity. Qed.

Lemma kp_out keep b : in_keep (el b) keep = false ->
  same_pos b (kp_branch keep b) /\ src (el (kp_branch keep b)) = 0.
Proof. intros H. unfold kp_branch, sc_branch. rewrite H. simpl.
  destruct (is_voltage_source (el b)) eqn:EV.
  - unfold oc_branch.
    replace (is_current_source (el (zero_in_voltage b))) with false by (symmetry; apply passive_ZV_cs).
    rewrite andb_false_r. split; [|apply src_ZV0].
    unfold same_pos, zero_in_voltage; simpl. repeat split.
    symmetry. apply eY_zero_in_voltage. exact EV.
  - unfold oc_branch. rewrite H. simpl. destruct (is_current_source (el b)) eqn:EC.
    + split; [|apply src_YI0]. unfold same_pos, zero_in_current; simpl. repeat split.
      symmetry. apply eY_zero_in_current. exact EC.
    + split; [apply same_pos_refl|]. apply inactive_src0. unfold is_active. rewrite EV, EC. reflexivity. Qed.

Lemma kp_same_pos keep b : same_pos b (kp_branch keep b).
Proof. destruct (in_keep (el b) keep) eqn:E; [rewrite kp_in by exact E; apply same_pos_refl|apply kp_out; exact E]. Qed.

Lemma kp_inactive keep b : is_active (el b) = false -> src (el (kp_branch keep b)) = 0.
Proof. intros A. destruct (in_keep (el b) keep) eqn:E.
  - rewrite kp_in by exact E. apply inactive_src0, A.
  - apply kp_out, E. Qed.

Lemma skel_kp keep n : skel n (kp_net keep n).
Proof. split; [reflexivity|]. simpl. apply Forall2_map_r. intros b _. apply kp_same_pos. Qed.

(* every active element is kept by exactly one of the two lists *)
Definition partitions (keep1 keep2 : list (elem K)) (n : network K) : Prop :=
  forall b, In b (branches n) -> is_active (el b) = true ->
            in_keep (el b) keep1 = negb (in_keep (el b) keep2).

Lemma kp_src_sum keep1 keep2 n : partitions keep1 keep2 n -> src_sum n (kp_net keep1 n) (kp_net keep2 n).
Proof. intros P. split; [reflexivity|]. split; [reflexivity|]. simpl.
  rewrite <- (map_id (branches n)) at 1. apply Forall3_maps. intros b Hb. unfold id.
  split; [apply kp_same_pos|]. split; [apply kp_same_pos|].
  destruct (is_active (el b)) eqn:A.
  - specialize (P b Hb A). destruct (in_keep (el b) keep2) eqn:K2; simpl in P.
    + rewrite (kp_in keep2 b K2). rewrite (proj2 (kp_out keep1 b P)). ring.
    + rewrite (kp_in keep1 b P), (proj2 (kp_out keep2 b K2)). ring.
  - rewrite (inactive_src0 _ A), !kp_inactive by exact A. ring. Qed.

Theorem keep_only_src_sum keep1 keep2 n n1 n2 : partitions keep1 keep2 n ->
  keep_only keep1 n = Ok n1 -> keep_only keep2 n = Ok n2 -> src_sum n n1 n2.
Proof. intros P H1 H2. rewrite (keep_only_ok _ _ _ H1), (keep_only_ok _ _ _ H2). apply kp_src_sum, P. Qed.

Lemma kp_sources_off n : sources_off (kp_net [] n).
Proof. intros b Hb. simpl in Hb. apply in_map_iff in Hb. destruct Hb as [b0 [<- _]].
  apply (kp_out [] b0). reflexivity. Qed.

Theorem keep_only_nil_off n n0 : keep_only [] n = Ok n0 -> sources_off n0.
Proof. intros H. rewrite (keep_only_ok _ _ _ H). apply kp_sources_off. Qed.

(* =================== model level: solution vectors of the MNA system =================== *)
Lemma bid_scale a (b : branch K) : bid (scale_branch a b) = bid b.
Proof. unfold bid, scale_branch; simpl. destruct (el b); reflexivity. Qed.

Lemma bid_inj (n : network K) b b' : wf n -> In b (branches n) -> In b' (branches n) -> bid b = bid b' -> b = b'.
Proof. intros WF Hb Hb' E.
  pose proof (get_branch_In K (branches n) b (ids_nodup K n WF) Hb) as G1.
  pose proof (get_branch_In K (branches n) b' (ids_nodup K n WF) Hb') as G2.
  rewrite E in G1. congruence. Qed.

Lemma labels_cases (n : network K) l : In l (node_labels n) -> l = zero n \/ In l (node_index n).
Proof. intros H. leq l (zero n); [left; assumption|right]. unfold node_index. apply filter_In.
  split; [apply lsort_In; exact H|]. leq l (zero n); [contradiction|reflexivity]. Qed.

Lemma ends_in_labels (n : network K) b : In b (branches n) ->
  In (node1 b) (node_labels n) /\ In (node2 b) (node_labels n).
Proof. intros Hb. assert (Hne : branches n <> []) by (intros E; rewrite E in Hb; exact Hb).
  split; apply (node_labels_In K n _ Hne); unfold endpoints; apply in_or_app.
  - left. apply in_map. exact Hb.
  - right. apply in_map. exact Hb. Qed.

(* --- scaling --- *)
Theorem lin_scale (a : K) (n : network K) (x x' : list K) :
  wf n -> WellPosed n -> solves n x -> solves (scale_net a n) x' ->
  (forall l, In l (node_labels n) -> phi_of (scale_net a n) x' l = a * phi_of n x l)
  /\ (forall b, In b (branches n) -> flow_of (scale_net a n) x' (scale_branch a b) = a * flow_of n x b).
Proof. intros WF WP S S'.
  pose proof (skel_scale a n) as SK. pose proof (skel_wf _ _ SK WF) as WF'.
  pose proof (spec_scale a n _ _ (spec_to_id _ _ _ WF (mna_sound K KOK n WF x S))) as P.
  pose proof (mna_sound K KOK _ WF' x' S') as C'.
  assert (WP' : WellPosed (scale_net a n)).
  { apply (wp_transfer n _ WF SK WP). eexists. eexists. exact P. }
  destruct (proj2 WP' _ _ _ _ C' P) as [Up Uj]. split.
  - intros l Hl. apply Up. rewrite (skel_node_labels _ _ SK). exact Hl.
  - intros b Hb. rewrite (Uj (scale_branch a b)) by (apply in_map; exact Hb).
    unfold idflow. rewrite bid_scale, (jv_In n _ b WF Hb). reflexivity. Qed.

Theorem wp_scale (a : K) (n : network K) : wf n -> WellPosed n -> WellPosed (scale_net a n).
Proof. intros WF WP. pose proof WP as [[p [q Sn]] _].
  apply (wp_transfer n _ WF (skel_scale a n) WP). eexists. eexists.
  exact (spec_scale a n _ _ (spec_to_id _ _ _ WF Sn)). Qed.

Lemma ils_scale (a : K) (e : elem K) : a <> 0 -> is_linear_source (scale_elem a e) = is_linear_source e.
Proof. intros Ha. unfold is_linear_source, is_ideal_voltage_source, is_ideal_current_source, is_current_source.
  destruct e as [nm k z v|nm k y i]; simpl.
  - destruct (feqb_spec KOK z 0) as [Ez|Ez]; simpl; [reflexivity|].
    replace (a * v / z == 0) with (v / z == 0); [reflexivity|].
    destruct (feqb_spec KOK (v / z) 0) as [E|E]; destruct (feqb_spec KOK (a * v / z) 0) as [E'|E']; try reflexivity.
    + exfalso. apply E'. replace (a * v / z) with (a * (v / z)) by (field; exact Ez). rewrite E. ring.
    + exfalso. apply E. replace (v / z) with ((a * v / z) / a) by (field; split; assumption). rewrite E'. field. exact Ha.
  - replace (a * i == 0) with (i == 0).
    + destruct (feqb_spec KOK y 0); reflexivity.
    + destruct (feqb_spec KOK i 0) as [E|E]; destruct (feqb_spec KOK (a * i) 0) as [E'|E']; try reflexivity.
      * exfalso. apply E'. rewrite E. ring.
      * exfalso. apply E. replace i with ((a * i) / a) by (field; exact Ha). rewrite E'. field. exact Ha. Qed.

Section ScaleApi.
Variables (a : K) (n : network K) (x x' : list K).
Hypothesis WF : wf n.
Hypothesis WP : WellPosed n.
Hypothesis S : solves n x.
Hypothesis S' : solves (scale_net a n) x'.
Let n' := scale_net a n.
Let s := {| s_net := n; s_x := x |}.
Let s' := {| s_net := n'; s_x := x' |}.

Lemma scale_bvolt b : In b (branches n) ->
  bvolt (phi_of n' x') (scale_branch a b) = a * bvolt (phi_of n x) b.
Proof. intros Hb. destruct (lin_scale a n x x' WF WP S S') as [Hp _]. destruct (ends_in_labels n b Hb) as [L1 L2].
  unfold bvolt. simpl. unfold n'. rewrite (Hp _ L1), (Hp _ L2). ring. Qed.

Lemma scale_reported b : In b (branches n) ->
  reported n' x' (scale_branch a b) = a * reported n x b.
Proof. intros Hb. destruct (lin_scale a n x x' WF WP S S') as [_ Hj]. unfold reported. unfold n'. rewrite (Hj b Hb).
  change (el (scale_branch a b)) with (scale_elem a (el b)).
  destruct (feqb_spec KOK a 0) as [Ea|Ea].
  - subst a. destruct (is_linear_source (scale_elem 0 (el b))), (is_linear_source (el b)); ring.
  - rewrite (ils_scale a _ Ea). destruct (is_linear_source (el b)); ring. Qed.

Theorem lin_scale_api :
  (forall l, In l (node_labels n) ->
     exists p, get_potential s l = Ok p /\ get_potential s' l = Ok (a * p))
  /\ (forall b, In b (branches n) ->
     exists v i, get_voltage s (bid b) = Ok v /\ get_current s (bid b) = Ok i
              /\ get_power s (bid b) = Ok (v * fconj K i)
              /\ get_voltage s' (bid b) = Ok (a * v) /\ get_current s' (bid b) = Ok (a * i)
              /\ get_power s' (bid b) = Ok ((a * fconj K a) * (v * fconj K i))).
Proof. pose proof (skel_scale a n) as SK. pose proof (skel_wf _ _ SK WF) as WF'.
  destruct (lin_scale a n x x' WF WP S S') as [Hp Hj]. split.
  - intros l Hl. exists (phi_of n x l). split.
    + apply (api_potential K n x l). apply labels_cases, Hl.
    + rewrite <- (Hp l Hl). apply (api_potential K n' x' l).
      apply (labels_cases n' l). unfold n'. rewrite (skel_node_labels _ _ SK). exact Hl.
  - intros b Hb. exists (bvolt (phi_of n x) b), (reported n x b).
    assert (Hb' : In (scale_branch a b) (branches n')) by (apply in_map; exact Hb).
    split; [apply (api_voltage K n WF x b Hb)|]. split; [apply (api_current K KOK n WF x b Hb)|].
    split; [apply (api_power K KOK n WF x b Hb)|].
    rewrite <- (bid_scale a b). rewrite <- (scale_bvolt b Hb), <- (scale_reported b Hb).
    split; [apply (api_voltage K n' WF' x' _ Hb')|]. split; [apply (api_current K KOK n' WF' x' _ Hb')|].
    unfold s'. rewrite (api_power K KOK n' WF' x' _ Hb'). f_equal.
    rewrite (scale_bvolt b Hb), (scale_reported b Hb), (Kconj_mul K KOK). ring. Qed.
End ScaleApi.

(* --- all sources deactivated --- *)
Theorem lin_zero_general (n0 : network K) (x0 : list K) :
  wf n0 -> sources_off n0 -> WellPosed n0 -> solves n0 x0 ->
  (forall l, In l (node_labels n0) -> phi_of n0 x0 l = 0)
  /\ (forall b, In b (branches n0) -> flow_of n0 x0 b = 0).
Proof. intros WF0 Off WP0 S0.
  destruct (proj2 WP0 _ _ _ _ (mna_sound K KOK n0 WF0 x0 S0) (spec_zero n0 Off)) as [Up Uj]. split.
  - intros l Hl. exact (Up l Hl).
  - intros b Hb. exact (Uj b Hb). Qed.

Theorem wp_zero (n n0 : network K) : wf n -> WellPosed n -> keep_only [] n = Ok n0 -> WellPosed n0.
Proof. intros WF WP H. pose proof (keep_only_ok _ _ _ H) as ->.
  apply (wp_transfer n _ WF (skel_kp [] n) WP). eexists. eexists. exact (spec_zero _ (kp_sources_off n)). Qed.

Theorem lin_zero (n n0 : network K) (x0 : list K) :
  wf n -> WellPosed n -> keep_only [] n = Ok n0 -> solves n0 x0 ->
  (forall l, In l (node_labels n0) -> phi_of n0 x0 l = 0)
  /\ (forall b, In b (branches n0) -> flow_of n0 x0 b = 0).
Proof. intros WF WP H S0. pose proof (wp_zero n n0 WF WP H) as WP0.
  pose proof (keep_only_nil_off _ _ H) as Off. pose proof (keep_only_ok _ _ _ H) as E.
  assert (WF0 : wf n0) by (rewrite E; exact (skel_wf _ _ (skel_kp [] n) WF)).
  exact (lin_zero_general n0 x0 WF0 Off WP0 S0). Qed.

Theorem lin_zero_exists (n n0 : network K) : wf n -> keep_only [] n = Ok n0 ->
  CircuitSpec n0 (fun _ => 0) (fun _ => 0) /\ solves n0 (vec n0 (fun _ => 0) (fun _ => 0)).
Proof. intros WF H. pose proof (keep_only_nil_off _ _ H) as Off. pose proof (keep_only_ok _ _ _ H) as E.
  assert (WF0 : wf n0) by (rewrite E; exact (skel_wf _ _ (skel_kp [] n) WF)).
  assert (C : CircuitSpec n0 (fun _ => 0) (fun _ => 0)) by exact (spec_zero n0 Off).
  split; [exact C|]. exact (mna_complete K KOK n0 WF0 _ _ C). Qed.

Theorem lin_zero_api (n n0 : network K) (x0 : list K) :
  wf n -> WellPosed n -> keep_only [] n = Ok n0 -> solves n0 x0 ->
  let s0 := {| s_net := n0; s_x := x0 |} in
  (forall l, In l (node_labels n0) -> get_potential s0 l = Ok 0)
  /\ (forall b, In b (branches n0) ->
        get_voltage s0 (bid b) = Ok 0 /\ get_current s0 (bid b) = Ok 0 /\ get_power s0 (bid b) = Ok 0).
Proof. intros WF WP H S0 s0. destruct (lin_zero n n0 x0 WF WP H S0) as [Hp Hj].
  pose proof (keep_only_ok _ _ _ H) as E.
  assert (WF0 : wf n0) by (rewrite E; exact (skel_wf _ _ (skel_kp [] n) WF)).
  split.
  - intros l Hl. rewrite <- (Hp l Hl). apply (api_potential K n0 x0 l), labels_cases, Hl.
  - intros b Hb. destruct (ends_in_labels n0 b Hb) as [L1 L2].
    assert (V : bvolt (phi_of n0 x0) b = 0) by (unfold bvolt; rewrite (Hp _ L1), (Hp _ L2); ring).
    assert (R : reported n0 x0 b = 0) by (unfold reported; rewrite (Hj b Hb); destruct (is_linear_source (el b)); ring).
    unfold s0. rewrite (api_voltage K n0 WF0 x0 b Hb), (api_current K KOK n0 WF0 x0 b Hb), (api_power K KOK n0 WF0 x0 b Hb).
    rewrite V, R. repeat split. f_equal. ring. Qed.

(* --- superposition --- *)
Theorem lin_superpose (n n1 n2 : network K) (keep1 keep2 : list (elem K)) (x x1 x2 : list K) :
  wf n -> WellPosed n -> partitions keep1 keep2 n ->
  keep_only keep1 n = Ok n1 -> keep_only keep2 n = Ok n2 ->
  solves n x -> solves n1 x1 -> solves n2 x2 ->
  (forall l, In l (node_labels n) -> phi_of n x l = phi_of n1 x1 l + phi_of n2 x2 l)
  /\ (forall b b1 b2, In b (branches n) -> In b1 (branches n1) -> In b2 (branches n2) ->
        bid b1 = bid b -> bid b2 = bid b ->
        flow_of n x b = flow_of n1 x1 b1 + flow_of n2 x2 b2).
Proof. intros WF WP P H1 H2 S S1 S2.
  pose proof (keep_only_src_sum _ _ _ _ _ P H1 H2) as SS.
  pose proof (keep_only_ok _ _ _ H1) as E1. pose proof (keep_only_ok _ _ _ H2) as E2.
  assert (WF1 : wf n1) by (rewrite E1; exact (skel_wf _ _ (skel_kp keep1 n) WF)).
  assert (WF2 : wf n2) by (rewrite E2; exact (skel_wf _ _ (skel_kp keep2 n) WF)).
  pose proof (spec_add n n1 n2 _ _ _ _ SS (spec_to_id _ _ _ WF1 (mna_sound K KOK n1 WF1 x1 S1))
                (spec_to_id _ _ _ WF2 (mna_sound K KOK n2 WF2 x2 S2))) as A.
  destruct (proj2 WP _ _ _ _ (mna_sound K KOK n WF x S) A) as [Up Uj]. split.
  - intros l Hl. exact (Up l Hl).
  - intros b b1 b2 Hb Hb1 Hb2 I1 I2. rewrite (Uj b Hb). unfold idflow.
    rewrite <- I1 at 1. rewrite <- I2. rewrite (jv_In n1 _ b1 WF1 Hb1), (jv_In n2 _ b2 WF2 Hb2). reflexivity. Qed.

Theorem lin_superpose_api (n n1 n2 : network K) (keep1 keep2 : list (elem K)) (x x1 x2 : list K) :
  wf n -> WellPosed n -> partitions keep1 keep2 n ->
  keep_only keep1 n = Ok n1 -> keep_only keep2 n = Ok n2 ->
  solves n x -> solves n1 x1 -> solves n2 x2 ->
  let s := {| s_net := n; s_x := x |} in
  let s1 := {| s_net := n1; s_x := x1 |} in
  let s2 := {| s_net := n2; s_x := x2 |} in
  (forall l, In l (node_labels n) ->
     exists p1 p2, get_potential s1 l = Ok p1 /\ get_potential s2 l = Ok p2 /\ get_potential s l = Ok (p1 + p2))
  /\ (forall id, In id (branch_ids n) ->
     exists v1 v2, get_voltage s1 id = Ok v1 /\ get_voltage s2 id = Ok v2 /\ get_voltage s id = Ok (v1 + v2)).
Proof. intros WF WP P H1 H2 S S1 S2 s s1 s2.
  destruct (lin_superpose n n1 n2 keep1 keep2 x x1 x2 WF WP P H1 H2 S S1 S2) as [Hp _].
  pose proof (keep_only_ok _ _ _ H1) as E1. pose proof (keep_only_ok _ _ _ H2) as E2.
  pose proof (skel_kp keep1 n) as SK1. pose proof (skel_kp keep2 n) as SK2. rewrite <- E1 in SK1. rewrite <- E2 in SK2.
  pose proof (skel_wf _ _ SK1 WF) as WF1. pose proof (skel_wf _ _ SK2 WF) as WF2.
  split.
  - intros l Hl. exists (phi_of n1 x1 l), (phi_of n2 x2 l).
    split; [apply (api_potential K n1 x1 l), labels_cases; rewrite (skel_node_labels _ _ SK1); exact Hl|].
    split; [apply (api_potential K n2 x2 l), labels_cases; rewrite (skel_node_labels _ _ SK2); exact Hl|].
    rewrite <- (Hp l Hl). apply (api_potential K n x l), labels_cases, Hl.
  - intros id Hid. unfold branch_ids in Hid. apply in_map_iff in Hid. destruct Hid as [b [<- Hb]].
    destruct (Forall2_In_l _ _ _ _ (proj2 SK1) Hb) as [b1 [Hb1 [N11 [N12 [I1 _]]]]].
    destruct (Forall2_In_l _ _ _ _ (proj2 SK2) Hb) as [b2 [Hb2 [N21 [N22 [I2 _]]]]].
    destruct (ends_in_labels n b Hb) as [L1 L2].
    exists (bvolt (phi_of n1 x1) b1), (bvolt (phi_of n2 x2) b2).
    split; [rewrite I1; apply (api_voltage K n1 WF1 x1 b1 Hb1)|].
    split; [rewrite I2; apply (api_voltage K n2 WF2 x2 b2 Hb2)|].
    unfold s. rewrite (api_voltage K n WF x b Hb). f_equal. unfold bvolt.
    rewrite <- N11, <- N12, <- N21, <- N22, (Hp _ L1), (Hp _ L2). ring. Qed.

(* --- superposition over any number of blocks of sources --- *)
Lemma in_keep_app (e : elem K) k1 k2 : in_keep e (k1 ++ k2) = in_keep e k1 || in_keep e k2.
Proof. unfold in_keep. apply existsb_app. Qed.

Lemma in_keep_concat_false {T} (kf : T -> list (elem K)) (e : elem K) (bl : list T) :
  length (filter (fun t => in_keep e (kf t)) bl) = 0%nat -> in_keep e (concat (map kf bl)) = false.
Proof. induction bl as [|t bl IH]; simpl; [reflexivity|]. rewrite in_keep_app.
  destruct (in_keep e (kf t)); simpl; [discriminate|]. exact IH. Qed.

Lemma in_keep_concat_true {T} (kf : T -> list (elem K)) (e : elem K) (bl : list T) :
  length (filter (fun t => in_keep e (kf t)) bl) <> 0%nat -> in_keep e (concat (map kf bl)) = true.
Proof. induction bl as [|t bl IH]; simpl; [congruence|]. rewrite in_keep_app.
  destruct (in_keep e (kf t)); simpl; [reflexivity|]. exact IH. Qed.

Lemma kp_src_sum3 k k1 k2 n :
  (forall b, In b (branches n) -> is_active (el b) = true ->
     in_keep (el b) k = in_keep (el b) k1 || in_keep (el b) k2 /\ in_keep (el b) k1 && in_keep (el b) k2 = false) ->
  src_sum (kp_net k n) (kp_net k1 n) (kp_net k2 n).
Proof. intros P. split; [reflexivity|]. split; [reflexivity|]. simpl.
  apply Forall3_maps. intros b Hb.
  split; [exact (same_pos_trans _ _ _ (same_pos_sym _ _ (kp_same_pos k b)) (kp_same_pos k1 b))|].
  split; [exact (same_pos_trans _ _ _ (same_pos_sym _ _ (kp_same_pos k b)) (kp_same_pos k2 b))|].
  destruct (is_active (el b)) eqn:A.
  - destruct (P b Hb A) as [E D].
    destruct (in_keep (el b) k1) eqn:K1; destruct (in_keep (el b) k2) eqn:K2; simpl in E, D; try discriminate.
    + rewrite (kp_in k b E), (kp_in k1 b K1), (proj2 (kp_out k2 b K2)). ring.
    + rewrite (kp_in k b E), (kp_in k2 b K2), (proj2 (kp_out k1 b K1)). ring.
    + rewrite (proj2 (kp_out k b E)), (proj2 (kp_out k1 b K1)), (proj2 (kp_out k2 b K2)). ring.
  - rewrite !kp_inactive by exact A. ring. Qed.

Lemma spec_blocks {T} (kf : T -> list (elem K)) (pf jf : T -> label -> K) (n : network K) (bl : list T) :
  (forall t, In t bl -> CircuitSpecId (kp_net (kf t) n) (pf t) (jf t)) ->
  (forall b, In b (branches n) -> is_active (el b) = true ->
     (length (filter (fun t => in_keep (el b) (kf t)) bl) <= 1)%nat) ->
  CircuitSpecId (kp_net (concat (map kf bl)) n)
    (fun l => sumF (fun t => pf t l) bl) (fun i => sumF (fun t => jf t i) bl).
Proof. induction bl as [|t bl IH]; intros HS HC.
  - simpl. exact (spec_zero _ (kp_sources_off n)).
  - simpl. apply (spec_add _ (kp_net (kf t) n) (kp_net (concat (map kf bl)) n)).
    + apply kp_src_sum3. intros b Hb A. split; [apply in_keep_app|].
      specialize (HC b Hb A). simpl in HC. destruct (in_keep (el b) (kf t)) eqn:E; simpl; [|reflexivity].
      apply in_keep_concat_false. simpl in HC. lia.
    + apply HS. left. reflexivity.
    + apply IH.
      * intros t' Ht'. apply HS. right. exact Ht'.
      * intros b Hb A. specialize (HC b Hb A). simpl in HC. destruct (in_keep (el b) (kf t)); simpl in HC; lia. Qed.

Lemma spec_kp_all (keep : list (elem K)) (n : network K) phi ji :
  (forall b, In b (branches n) -> is_active (el b) = true -> in_keep (el b) keep = true) ->
  CircuitSpecId (kp_net keep n) phi ji -> CircuitSpecId n phi ji.
Proof. intros HA S.
  apply (CircuitSpecId_ext _ (fun l => phi l + 0) _ (fun i => ji i + 0)); [intros; ring|intros; ring|].
  apply (spec_add n (kp_net keep n) (kp_net [] n)); [|exact S|exact (spec_zero _ (kp_sources_off n))].
  apply kp_src_sum. intros b Hb A. rewrite (HA b Hb A). reflexivity. Qed.

Record block := { bk_keep : list (elem K); bk_net : network K; bk_sol : list K }.

Theorem lin_superpose_blocks (n : network K) (x : list K) (bl : list block) :
  wf n -> WellPosed n -> solves n x ->
  (forall t, In t bl -> keep_only (bk_keep t) n = Ok (bk_net t) /\ solves (bk_net t) (bk_sol t)) ->
  (forall b, In b (branches n) -> is_active (el b) = true ->
     length (filter (fun t => in_keep (el b) (bk_keep t)) bl) = 1%nat) ->
  (forall l, In l (node_labels n) -> phi_of n x l = sumF (fun t => phi_of (bk_net t) (bk_sol t) l) bl)
  /\ (forall b, In b (branches n) ->
        flow_of n x b = sumF (fun t => jv (bk_net t) (flow_of (bk_net t) (bk_sol t)) (bid b)) bl).
Proof. intros WF WP S HB HC.
  assert (A : CircuitSpecId n (fun l => sumF (fun t => phi_of (bk_net t) (bk_sol t) l) bl)
                (fun i => sumF (fun t => jv (bk_net t) (flow_of (bk_net t) (bk_sol t)) i) bl)).
  { apply (spec_kp_all (concat (map bk_keep bl))).
    - intros b Hb Ab. apply in_keep_concat_true. rewrite (HC b Hb Ab). discriminate.
    - apply (spec_blocks bk_keep (fun t => phi_of (bk_net t) (bk_sol t))
               (fun t => jv (bk_net t) (flow_of (bk_net t) (bk_sol t)))).
      + intros t Ht. destruct (HB t Ht) as [Hk Hs]. pose proof (keep_only_ok _ _ _ Hk) as E.
        assert (WFt : wf (bk_net t)) by (rewrite E; exact (skel_wf _ _ (skel_kp (bk_keep t) n) WF)).
        rewrite <- E. exact (spec_to_id _ _ _ WFt (mna_sound K KOK _ WFt _ Hs)).
      + intros b Hb Ab. rewrite (HC b Hb Ab). lia. }
  destruct (proj2 WP _ _ _ _ (mna_sound K KOK n WF x S) A) as [Up Uj]. split.
  - intros l Hl. exact (Up l Hl).
  - intros b Hb. exact (Uj b Hb). Qed.

(* boolean forms of the side conditions, for concrete examples *)
Definition partitionsb (keep1 keep2 : list (elem K)) (n : network K) : bool :=
  forallb (fun b => implb (is_active (el b)) (Bool.eqb (in_keep (el b) keep1) (negb (in_keep (el b) keep2)))) (branches n).
Lemma partitionsb_ok keep1 keep2 n : partitionsb keep1 keep2 n = true -> partitions keep1 keep2 n.
Proof. unfold partitionsb. rewrite forallb_forall. intros H b Hb A. specialize (H b Hb). rewrite A in H. simpl in H.
  apply eqb_prop. exact H. Qed.

Definition blocksb (n : network K) (bl : list block) : bool :=
  forallb (fun b => implb (is_active (el b))
                      (Nat.eqb (length (filter (fun t => in_keep (el b) (bk_keep t)) bl)) 1)) (branches n).
Lemma blocksb_ok n bl : blocksb n bl = true ->
  forall b, In b (branches n) -> is_active (el b) = true ->
    length (filter (fun t => in_keep (el b) (bk_keep t)) bl) = 1%nat.
Proof. unfold blocksb. rewrite forallb_forall. intros H b Hb A. specialize (H b Hb). rewrite A in H. simpl in H.
  apply Nat.eqb_eq. exact H. Qed.

Definition is_ok {A} (r : res A) : bool := match r with Ok _ => true | Err _ => false end.
Lemma keep_only_is_ok keep n : is_ok (keep_only keep n) = true -> keep_only keep n = Ok (kp_net keep n).
Proof. destruct (keep_only keep n) as [m|e] eqn:E; [|discriminate]. intros _. rewrite (keep_only_ok _ _ _ E). reflexivity. Qed.

End Lin.

Arguments idflow {K}. Arguments CircuitSpecId {K}. Arguments src {K}. Arguments same_pos {K}. Arguments skel {K}.
Arguments pos_sum {K}. Arguments src_sum {K}. Arguments sources_off {K}.
Arguments scale_elem {K}. Arguments scale_branch {K}. Arguments scale_net {K}.
Arguments keep_only {K}. Arguments sc_branch {K}. Arguments oc_branch {K}. Arguments kp_branch {K}. Arguments kp_net {K}.
Arguments partitions {K}. Arguments partitionsb {K}. Arguments blocksb {K}.
Arguments Build_block {K}. Arguments bk_keep {K}. Arguments bk_net {K}. Arguments bk_sol {K}.
