(* Theory/SaveLoadGenThm.v — SimpleCircuit/dump_load.py as REGENERATED on every run (Gen/SaveLoadGen.v, produced by
   tools/gen_saveload.py in the vocabulary of Model/SaveLoadPrims.v) against the hand-written model Model/SaveLoad.v:
   A. the serialiser table presupposed by [ser]; g_serialize_schemdraw_element = ser;
   B. g_dictify_element = save_symbol, g_dictify_all = save;
   C. g_combine_to_complex = combine (distinct keys), the loader table row by row against [element_types] / [pre_ctor];
   D. g_undictify_element = load_symbol true on every entry that has the keys dictify_element writes
      (the code defaults a missing 'reverse' to False and treats a missing 'type' as the generic Element; the model
      answers KeyError there), g_undictify_schematic = load on every saved document;
   E. the round trip of C15 for the regenerated functions;
   F. the closed tables (drawing state saved = restored, entry points, `type` properties of Elements.py).
   Generic in the reals [R]; no law of [R] is used except in E (through Theory/SaveLoadThm.v). *)
From Coq Require Import List Bool NArith ZArith Arith String Lia.
From CC Require Import Theory.Field Theory.Complex Theory.Labels Model.Network Model.Circuit Model.Loaders Theory.LoadersThm
  Model.SaveLoad Theory.SaveLoadThm Model.SaveLoadPrims Gen.SaveLoadGen.
Import ListNotations.

Section GenEq.
Variable R : fops.
Variable pi : R.
Notation C := (Cx R).
Notation jv := (jval R).
Notation kwargs := (dict (jval R)).
Notation symbol := (symbol R).

Lemma bind_ok {A} (r : res A) : bind r (fun x => Ok x) = r.
Proof. destruct r; reflexivity. Qed.

(* ====================================================================================================== *)
(* A. serialisation                                                                                        *)
(* ====================================================================================================== *)
Lemma kind_eqb_eq a b : kind_eqb a b = true -> a = b.
Proof. destruct a as [[]|], b as [[]|]; simpl; intros H; try discriminate H; reflexivity. Qed.

Lemma ser_by_ok (tbl : list (label * serkind)) : ser_table_ok tbl = true -> forall v : jv, ser_by R tbl v = ser R v.
Proof.
  unfold ser_table_ok. intros H.
  repeat (apply andb_prop in H; destruct H as [H ?]).
  repeat match goal with E : kind_eqb _ _ = true |- _ => apply kind_eqb_eq in E end.
  induction v as [| b | q | s | z | l HF | l HF] using jval_ind'; cbn [ser_by ser]; unfold leaf;
    repeat match goal with E : tlook tbl _ = _ |- _ => rewrite E; clear E end; try reflexivity.
  - f_equal. induction HF as [|x l Hx HF IH]; [reflexivity|]. cbn [map]. f_equal; assumption.
  - f_equal. induction HF as [|[k x] l Hx HF IH]; [reflexivity|]. cbn [map snd] in *. f_equal; [f_equal; assumption|assumption].
Qed.

Lemma gen_ser_table_ok : ser_table_ok g_schemdraw_serializers = true.
Proof. reflexivity. Qed.
Lemma gen_serialize_eq (v : jv) : g_serialize_schemdraw_element R v = ser R v.
Proof. unfold g_serialize_schemdraw_element. apply ser_by_ok. exact gen_ser_table_ok. Qed.

(* ====================================================================================================== *)
(* B. saving                                                                                               *)
(* ====================================================================================================== *)
Lemma gen_dictify_element_eq (s : symbol) : g_dictify_element R s = save_symbol R s.
Proof.
  unfold g_dictify_element, save_symbol. rewrite !gen_serialize_eq.
  unfold sym_type, sym_name, sym_is_reverse, sym_userparams, sym_absanchors, jpoint, ser_dict. reflexivity.
Qed.
Lemma gen_schematic_to_dict_eq (d : list symbol) : g_schematic_to_dict R d = map (save_symbol R) d.
Proof. unfold g_schematic_to_dict. apply map_ext. exact gen_dictify_element_eq. Qed.
Lemma gen_dictify_all_eq (d : list symbol) : g_dictify_all R pi d = save R pi d.
Proof.
  unfold g_dictify_all, save, dictify_circuit_of. rewrite gen_schematic_to_dict_eq.
  destruct (components R pi d); reflexivity.
Qed.

(* ====================================================================================================== *)
(* C. the loader table                                                                                     *)
(* ====================================================================================================== *)
Lemma gen_combine_eq (re im z : label) (kw : kwargs) : label_eqb re im = false ->
  g_combine_to_complex R (re, im) z kw = combine R re im z kw.
Proof.
  intros NE. unfold g_combine_to_complex, combine, dpop_default, py_complex_of. cbn [fst snd].
  rewrite dget_ddel, NE. unfold jint, jzero. cbn [ofZ].
  destruct (as_num R match dget kw re with Some v => v | None => JNum (f0 R) end);
    destruct (as_num R match dget kw im with Some v => v | None => JNum (f0 R) end); reflexivity.
Qed.

(* what a row of simple_circuit_element_types does with the keyword dictionary, in the words of the model *)
Definition model_ctor (c : scls) (kw : kwargs) : res symbol :=
  bind (pre_ctor R c kw) (fun kw' => new_element R pi c kw').
Definition row_ok (g : label * (kwargs -> res symbol)) (h : label * scls) : Prop :=
  fst g = fst h /\ forall kw, snd g kw = model_ctor (snd h) kw.
Lemma gen_element_types_eq : Forall2 row_ok (g_simple_circuit_element_types R pi) element_types.
Proof.
  unfold g_simple_circuit_element_types, element_types.
  repeat (apply Forall2_cons; [split; [reflexivity|]; intros kw; cbn [snd]; unfold model_ctor, pre_ctor;
                               rewrite ?gen_combine_eq by reflexivity; reflexivity|]).
  apply Forall2_nil.
Qed.
Lemma rows_lookup (g : list (label * (kwargs -> res symbol))) (h : list (label * scls)) : Forall2 row_ok g h ->
  forall t, match tlook g t, tlook h t with
            | Some f, Some c => forall kw, f kw = model_ctor c kw
            | None, None => True
            | _, _ => False
            end.
Proof.
  induction 1 as [|[k f] [k' c] g h [Hk Hf] HF IH]; intros t; [exact I|].
  cbn [fst snd] in Hk, Hf. subst k'. cbn [tlook]. destruct (label_eqb k t); [exact Hf|apply IH].
Qed.
Lemma gen_element_types_keys : map fst (g_simple_circuit_element_types R pi) = map fst element_types.
Proof. reflexivity. Qed.

(* the constructors never raise KeyError: `except KeyError` catches the table lookup only *)
Definition no_ke {A} (r : res A) : Prop := r <> Err EKeyError.
Lemma no_ke_bind {A B} (r : res A) (f : A -> res B) : no_ke r -> (forall a, no_ke (f a)) -> no_ke (bind r f).
Proof. destruct r as [a|e]; cbn; intros H1 H2; [apply H2|]. intros E. apply H1. injection E as ->. reflexivity. Qed.
Lemma no_ke_ok {A} (a : A) : no_ke (Ok a). Proof. discriminate. Qed.
Ltac noke := repeat first [apply no_ke_bind; [|intros ?] | apply no_ke_ok | discriminate
                          | match goal with |- no_ke (match ?x with _ => _ end) => destruct x end
                          | match goal with |- no_ke (if ?x then _ else _) => destruct x end ].
Lemma no_ke_flag kw k : no_ke (flag R kw k).
Proof. unfold flag. noke. Qed.
Lemma no_ke_arg kw k : no_ke (arg R kw k).
Proof. unfold arg. noke. Qed.
Lemma no_ke_neg_if b v : no_ke (neg_if R b v).
Proof. unfold neg_if, jneg. noke. Qed.
Lemma no_ke_attrs c kw rev : no_ke (attrs_of R pi c kw rev).
Proof.
  destruct c; unfold attrs_of, one_attr, amp_attr, src_attrs, jshift;
    repeat first [apply no_ke_bind; [first [apply no_ke_arg | apply no_ke_flag | apply no_ke_neg_if | idtac]|intros ?]
                 | apply no_ke_ok | discriminate
                 | match goal with |- no_ke (match ?x with _ => _ end) => destruct x end
                 | match goal with |- no_ke (if ?x then _ else _) => destruct x end ].
Qed.
Lemma no_ke_construct c kw a b : no_ke (construct R pi c kw a b).
Proof.
  unfold construct. apply no_ke_bind; [apply no_ke_flag|intros rev].
  apply no_ke_bind; [destruct c; unfold ctor_name, str_or, str_req; noke|intros nm].
  apply no_ke_bind; [apply no_ke_attrs|intros at_]. apply no_ke_ok.
Qed.
Lemma no_ke_pre_ctor c kw : no_ke (pre_ctor R c kw).
Proof. destruct c; unfold pre_ctor, combine; noke. Qed.
Lemma no_ke_model_ctor c kw : no_ke (model_ctor c kw).
Proof. unfold model_ctor. apply no_ke_bind; [apply no_ke_pre_ctor|intros kw']. apply no_ke_construct. Qed.
Lemma catch_no_ke {A} (r h : res A) : no_ke r -> catch_keyerror r h = r.
Proof. unfold catch_keyerror, no_ke. destruct r as [a|[]]; intros H; try reflexivity. contradiction H. reflexivity. Qed.

(* ====================================================================================================== *)
(* D. loading                                                                                              *)
(* ====================================================================================================== *)
(* kwargs.update({flag: False for flag in ('deg', 'sin') if flag in kwargs}) is [clear_flags] *)
Lemma gen_clear_flags_eq (k : kwargs) : update k (flag_comp R [q_deg; q_sin] k (JBool false)) = clear_flags R k.
Proof.
  unfold flag_comp, clear_flags, clear_flag. cbn [filter].
  destruct (dhas k q_deg) eqn:E1.
  - assert (E : dhas (dset k q_deg (JBool false)) q_sin = dhas k q_sin).
    { unfold dhas. rewrite dget_dset. change (label_eqb q_deg q_sin) with false. reflexivity. }
    rewrite E. destruct (dhas k q_sin); reflexivity.
  - destruct (dhas k q_sin); reflexivity.
Qed.

(* an entry with the keys dictify_element writes *)
Definition entry_wf (e : jv) : Prop :=
  exists (d vd ad : kwargs) (rv ty : jv) (ps pe : point R),
    e = JDict d /\ dget d q_reverse = Some rv /\ dget d q_type = Some ty /\
    dget d q_values = Some (JDict vd) /\ dget vd q_absanchors = Some (JDict ad) /\
    dget ad q_start = Some (jpoint R ps) /\ dget ad q_end = Some (jpoint R pe).

Lemma construct_anchors c kw (a b ps pe : point R) (ad : kwargs) :
  dget ad q_start = Some (jpoint R ps) -> dget ad q_end = Some (jpoint R pe) ->
  bind (construct R pi c kw a b) (fun s => set_absanchors R s (JDict ad)) = construct R pi c kw ps pe.
Proof.
  intros Hs He. unfold construct. destruct (flag R kw q_reverse) as [rev|]; [|reflexivity]. cbn [bind].
  destruct (ctor_name R c kw) as [nm|]; [|reflexivity]. cbn [bind].
  destruct (attrs_of R pi c kw rev) as [at_|]; [|reflexivity]. cbn [bind].
  unfold set_absanchors, jfield. rewrite Hs, He. destruct ps, pe. reflexivity.
Qed.

Lemma gen_undictify_element_eq (cd : dict kwargs) (e : jv) : entry_wf e ->
  g_undictify_element R pi e cd = load_symbol R pi true cd e.
Proof.
  intros (d & vd & ad & rv & ty & ps & pe & -> & Hrv & Hty & Hv & Ha & Hs & He).
  unfold g_undictify_element, load_symbol, jfield, jget_default, deserialize_userparams, as_key.
  change gk_values with q_values. change gk__userparams with q_userparams. change gk_name with q_name.
  change gk_reverse with q_reverse. change gk_type with q_type. change gk_absanchors with q_absanchors.
  rewrite Hv, Hrv, Hty. cbn [bind].
  destruct (dget vd q_userparams) as [up|]; [|reflexivity]. cbn [bind].
  destruct (as_dict R up) as [u|]; [|reflexivity]. cbn [bind].
  destruct (dget d q_name) as [nmv|] eqn:Hn; [|reflexivity]. cbn [bind].
  destruct (as_str R nmv) as [nm|]; [|reflexivity]. cbn [bind].
  change gk_phi with q_phi. change gk_deg with q_deg. change gk_sin with q_sin.
  set (kw2 := dset (dset u q_name nmv) q_reverse rv).
  (* the merge of the stored component values *)
  assert (Hm : (if dhas cd nm
                then bind (dict_item cd nm) (fun x8 : kwargs =>
                       bind (if dhas x8 q_phi
                             then Ok (update (update kw2 x8) (flag_comp R [q_deg; q_sin] (update kw2 x8) (JBool false)))
                             else Ok (update kw2 x8)) (fun k : kwargs => Ok k))
                else Ok kw2)
               = Ok match dget cd nm with
                    | Some cv => if true && dhas cv q_phi then clear_flags R (update kw2 cv) else update kw2 cv
                    | None => kw2
                    end).
  { unfold dhas at 1, dict_item. destruct (dget cd nm) as [cv|]; [|reflexivity]. cbn [bind andb].
    destruct (dhas cv q_phi); cbn [bind]; [rewrite gen_clear_flags_eq|]; reflexivity. }
  rewrite Hm. clear Hm. cbn [bind].
  set (kw3 := match dget cd nm with Some cv => _ | None => kw2 end).
  rewrite Ha. cbn [bind]. rewrite Hs, He. cbn [bind]. unfold jpoint at 1 2. cbn [as_point bind].
  rewrite <- !surjective_pairing.
  (* the dispatch *)
  assert (Hd : catch_keyerror
                 (bind (table_item R (g_simple_circuit_element_types R pi) ty) (fun f : kwargs -> res symbol => f kw3))
                 (new_element R pi CElement kw3)
               = model_ctor match ty with
                            | JStr t => match tlook element_types t with Some c => c | None => CElement end
                            | _ => CElement
                            end kw3).
  { unfold table_item. destruct ty as [| b | q | t | z | l | l]; try reflexivity.
    pose proof (rows_lookup _ _ gen_element_types_eq t) as Hl.
    destruct (tlook (g_simple_circuit_element_types R pi) t) as [f|], (tlook element_types t) as [c|]; try contradiction.
    - cbn [bind]. rewrite Hl. apply catch_no_ke. apply no_ke_model_ctor.
    - reflexivity. }
  rewrite Hd. clear Hd. unfold model_ctor.
  destruct (pre_ctor R _ kw3) as [kw4|]; [|reflexivity]. cbn [bind].
  rewrite <- (construct_anchors _ kw4 (origin R) (origin R) ps pe ad Hs He). unfold new_element.
  destruct (construct R pi _ kw4 (origin R) (origin R)) as [s0|]; [|reflexivity]. cbn [bind].
  apply bind_ok.
Qed.

(* every entry written by dictify_element is such an entry *)
Lemma save_symbol_wf (s : symbol) : entry_wf (save_symbol R s).
Proof.
  unfold entry_wf, save_symbol.
  eexists _, _, _, _, _, (s_start s), (s_end s). repeat split; reflexivity.
Qed.

Lemma mapR_ext_in {A B} (f g : A -> res B) (l : list A) : (forall a, In a l -> f a = g a) -> mapR f l = mapR g l.
Proof.
  induction l as [|a l IH]; intros H; [reflexivity|]. cbn [mapR].
  rewrite (H a (or_introl eq_refl)), IH; [reflexivity|]. intros x Hx. apply H. right. exact Hx.
Qed.

(* a document whose symbol entries have the keys dictify_element writes *)
Definition doc_wf (doc : jv) : Prop :=
  forall sc l, jfield R doc q_simple_circuit = Ok sc -> as_list R sc = Ok l -> Forall entry_wf l.

Lemma gen_undictify_schematic_eq (doc : jv) : doc_wf doc -> g_undictify_schematic R pi doc = load R pi doc.
Proof.
  intros W. unfold g_undictify_schematic, load, load_gen, circuit_dict, read_comp, dict_of_pairs, as_key.
  change gk_circuit with q_circuit. change gk_components with q_components. change gk_id with q_id.
  change gk_value with q_value. change gk_simple_circuit with q_simple_circuit.
  destruct (jfield R doc q_circuit) as [ci|]; [|reflexivity]. cbn [bind].
  destruct (jfield R ci q_components) as [cs|]; [|reflexivity]. cbn [bind].
  destruct (as_list R cs) as [l|]; [|reflexivity]. cbn [bind].
  destruct (mapR _ l) as [pairs|]; [|reflexivity]. cbn [bind].
  destruct (jfield R doc q_simple_circuit) as [sc|] eqn:Esc; [|reflexivity]. cbn [bind].
  destruct (as_list R sc) as [es|] eqn:Ees; [|reflexivity]. cbn [bind].
  rewrite (mapR_ext_in (fun e => g_undictify_element R pi e (update [] pairs)) (load_symbol R pi true (update [] pairs)) es).
  - cbn [app]. apply bind_ok.
  - intros e He. apply gen_undictify_element_eq. specialize (W sc es Esc Ees). rewrite Forall_forall in W. apply W. exact He.
Qed.

Lemma save_doc_wf (d : list symbol) (doc : jv) : save R pi d = Ok doc -> doc_wf doc.
Proof.
  unfold save. destruct (components R pi d) as [cs|]; [|discriminate]. cbn [bind]. intros E. injection E as <-.
  intros sc l Hsc Hl. cbn in Hsc. injection Hsc as <-. cbn in Hl. injection Hl as <-.
  rewrite Forall_forall. intros e He. rewrite in_map_iff in He. destruct He as (s & <- & _). apply save_symbol_wf.
Qed.

(* ====================================================================================================== *)
(* E. the round trip of the regenerated functions                                                          *)
(* ====================================================================================================== *)
Definition g_cycle (d : list symbol) : res (list symbol) := bind (g_dictify_all R pi d) (g_undictify_schematic R pi).
Fixpoint g_cycles (n : nat) (d : list symbol) : res (list symbol) :=
  match n with O => Ok d | S k => bind (g_cycle d) (g_cycles k) end.

Lemma gen_cycle_eq (d : list symbol) : g_cycle d = cycle R pi d.
Proof.
  unfold g_cycle, cycle. rewrite gen_dictify_all_eq. destruct (save R pi d) as [doc|] eqn:E; [|reflexivity]. cbn [bind].
  apply gen_undictify_schematic_eq. exact (save_doc_wf d doc E).
Qed.
Lemma gen_cycles_eq (n : nat) : forall d : list symbol, g_cycles n d = cycles R pi n d.
Proof.
  induction n as [|n IH]; intros d; [reflexivity|]. cbn [g_cycles cycles]. rewrite gen_cycle_eq.
  destruct (cycle R pi d) as [d'|]; [|reflexivity]. cbn [bind]. apply IH.
Qed.

(* ====================================================================================================== *)
(* F. the closed tables                                                                                    *)
(* ====================================================================================================== *)
(* the drawing state written by dictify_element is what undictify_element assigns back, key = attribute *)
Lemma gen_saved_drawing_state : g_saved_drawing_state = map (fun a => (a, a)) drawing_state.
Proof. reflexivity. Qed.
Lemma gen_restored_drawing_state : g_restored_drawing_state = g_saved_drawing_state.
Proof. reflexivity. Qed.
Lemma gen_entry_points : g_entry_points = expected_entry_points.
Proof. reflexivity. Qed.
(* Elements.py: the `type` property of every modelled class is [cls_type] *)
Lemma gen_class_types (c : scls) : In c modelled_classes ->
  exists n, cls_pyname c = Some n /\ tlook g_class_types n = Some (cls_type c).
Proof.
  unfold modelled_classes. intros H.
  repeat (destruct H as [<-|H]; [eexists; split; reflexivity|]). contradiction.
Qed.
(* every row of the loader table constructs the class whose `type` property is the key of the row, and these are the
   classes of [element_types] *)
Lemma gen_loader_classes_types :
  Forall (fun tc => tlook g_class_types (snd tc) = Some (Some (fst tc))) g_loader_classes.
Proof. unfold g_loader_classes. repeat (apply Forall_cons; [reflexivity|]). apply Forall_nil. Qed.
Lemma gen_loader_classes_model :
  map (fun tc => (fst tc, Some (snd tc))) g_loader_classes = map (fun tc => (fst tc, cls_pyname (snd tc))) element_types.
Proof. reflexivity. Qed.

(* ---------- SimpleSimulation/schematic.py, element part ---------- *)
Lemma gen_element_handlers_eq (ty : label) (vals : kwargs) : tlook (g_element_handlers R vals) ty = element_handlers R ty vals.
Proof. reflexivity. Qed.
Lemma gen_element_factory_eq (kw : kwargs) :
  fold_left (fun k kv => if dhas k (fst kv) then k else dset k (fst kv) (snd kv)) (g_element_factory_defaults R) kw
  = with_defaults R kw.
Proof. reflexivity. Qed.
Lemma gen_direction_table (d : direction) : exists s, jdir R d = JStr s /\ tlook g_direction_table s = Some d.
Proof. destruct d; eexists; split; reflexivity. Qed.
Lemma gen_direction_table_keys : map snd g_direction_table = [DRight; DLeft; DUp; DDown].
Proof. reflexivity. Qed.
Lemma gen_layout_keys : g_layout_keys = layout_keys.
Proof. reflexivity. Qed.
(* defaults of the layout keys: no direction, length 1, no place_after; the length is multiplied by the unit *)
Lemma gen_fill_reads : g_fill_reads R = [(q_direction, JStr []); (q_length, JNum (f1 R)); (q_place_after, JNull)].
Proof. reflexivity. Qed.
Lemma gen_place_after_anchor : g_place_after_anchor = q_end.
Proof. reflexivity. Qed.
End GenEq.

Section GenRoundTrip.
Variable R : fops.
Hypothesis ROK : fops_ok R.
Variable pi : R.
Theorem gen_cycle_preserves (d : list (symbol R)) : good R (map (view_of R pi) d) ->
  exists d', g_cycle R pi d = Ok d' /\ map (view_of R pi) d' = map (view_of R pi) d.
Proof. rewrite gen_cycle_eq. exact (cycle_preserves R ROK pi d). Qed.
Theorem gen_cycles_preserve (n : nat) (d : list (symbol R)) : good R (map (view_of R pi) d) ->
  exists d', g_cycles R pi n d = Ok d' /\ map (view_of R pi) d' = map (view_of R pi) d.
Proof. rewrite gen_cycles_eq. exact (cycles_preserve R ROK pi n d). Qed.
End GenRoundTrip.
