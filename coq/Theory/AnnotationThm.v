(* Theory/AnnotationThm.v — facts about Model/Annotation.v (the statements collected in Properties/C14.v). *)
From Coq Require Import List Bool ZArith NArith QArith Qabs Qpower Lia String Field Ring.
From CC Require Import Theory.Field Theory.Complex Model.Network Theory.Labels Model.Format Model.Circuit
  Theory.FormatThm Theory.FormatText Theory.FormatSig Theory.CircuitThm Model.Annotation.
Import ListNotations.
Open Scope Z_scope.

(* ---------- negation of a rational, exactly ---------- *)
Lemma Qabs_opp_eq (x : Q) : Qabs (- x) = Qabs x.
Proof. destruct x as [n d]. unfold Qabs, Qopp. simpl. rewrite Z.abs_opp. reflexivity. Qed.
Lemma exponent_opp x p : exponent (- x) p = exponent x p.
Proof. unfold exponent. destruct x as [n d]. simpl. rewrite Z.abs_opp. reflexivity. Qed.
Lemma carry_region_opp x p : carry_region_Q (- x) p <-> carry_region_Q x p.
Proof. unfold carry_region_Q. rewrite Qabs_opp_eq. tauto. Qed.
Lemma Qopp_nz x : ~ (x == 0)%Q -> ~ (- x == 0)%Q.
Proof. intros H E. apply H. rewrite <- (Qopp_involutive x), E. reflexivity. Qed.
Lemma sig_exp_opp x p s : sig_exp (- x) p s <-> sig_exp x p s.
Proof. unfold sig_exp. rewrite Qabs_opp_eq. tauto. Qed.
Lemma sgnQ_abs r x : Qabs (sgnQ r x) = Qabs x.
Proof. destruct r; simpl; [apply Qabs_opp_eq|reflexivity]. Qed.
Lemma sgnQ_exponent r x p : exponent (sgnQ r x) p = exponent x p.
Proof. destruct r; simpl; [apply exponent_opp|reflexivity]. Qed.
Lemma sgnQ_nz r x : ~ (x == 0)%Q -> ~ (sgnQ r x == 0)%Q.
Proof. destruct r; simpl; [apply Qopp_nz|tauto]. Qed.
Lemma sgnQ_carry r x p : carry_region_Q (sgnQ r x) p <-> carry_region_Q x p.
Proof. destruct r; simpl; [apply carry_region_opp|tauto]. Qed.
Lemma sgnQ_sig r x p s : sig_exp (sgnQ r x) p s <-> sig_exp x p s.
Proof. destruct r; simpl; [apply sig_exp_opp|tauto]. Qed.

(* ---------- reverse = the text of the negated value ---------- *)
Lemma real_reverse_exact q x p : takes_reverse q = true -> real_ann q true x p = real_ann q false (- x)%Q p.
Proof. destruct q; intros H; try discriminate H; reflexivity. Qed.
Lemma complex_reverse_exact O q z p polar deg : takes_reverse q = true ->
  complex_ann O q true z p polar deg = complex_ann O q false (coppQ z) p polar deg.
Proof. destruct q; intros H; try discriminate H; reflexivity. Qed.
Lemma sin_reverse_exact O q z p w sn deg hz : takes_reverse q = true ->
  sin_ann O q true z p w sn deg hz = sin_ann O q false (coppQ z) p w sn deg hz.
Proof. destruct q; intros H; try discriminate H; reflexivity. Qed.
Lemma potential_ignores_reverse PO SO ad rev v :
  annotation PO SO ad QPotential rev v = annotation PO SO ad QPotential false v.
Proof. destruct ad; reflexivity. Qed.

Definition neg_reading (v : reading) : reading := {| rd_real := (- rd_real v)%Q; rd_cplx := coppQ (rd_cplx v) |}.
Lemma annotation_reverse_exact PO SO ad q v : takes_reverse q = true ->
  annotation PO SO ad q true v = annotation PO SO ad q false (neg_reading v).
Proof.
  intros H. destruct ad; simpl.
  - reflexivity.
  - apply real_reverse_exact; exact H.
  - apply complex_reverse_exact; exact H.
  - apply sin_reverse_exact; exact H.
Qed.

Lemma annotation_reverse_exact_q PO SO ad q v : (q = QVoltage \/ q = QCurrent \/ q = QPower) ->
  annotation PO SO ad q true v
  = annotation PO SO ad q false {| rd_real := (- rd_real v)%Q; rd_cplx := ((- fst (rd_cplx v))%Q, (- snd (rd_cplx v))%Q) |}.
Proof. intros H. apply annotation_reverse_exact. destruct H as [->|[->| ->]]; reflexivity. Qed.
(* not reversed = the text of the value itself *)
Lemma annotation_forward PO SO ad q v :
  annotation PO SO ad q false v =
  match ad with
  | AdEmpty => []
  | AdReal p => match q with QPower => print_active_power (rd_real v) p | _ => print_real (rd_real v) (unit_of q) p end
  | AdComplex _ p polar deg => print_complex PO (rd_cplx v) (unit_of q) p polar deg
  | AdSin w p sn deg hz => print_sinusoidal SO (rd_cplx v) (unit_of q) p w sn deg hz
  end.
Proof. destruct ad, q; reflexivity. Qed.

(* ---------- side conditions of C18 for the tables and units of the annotations ---------- *)
Ltac table_ok_tac :=
  split; [discriminate|]; split; [simpl; repeat (apply NoDup_cons; [simpl; intuition discriminate|]); apply NoDup_nil|];
  split; [intros k l H; simpl in H; repeat (destruct H as [H|H]; [inversion H; subst; discriminate|]); contradiction|];
  intros j H1 H2 H3;
  match type of H1 with lmin ?a <= _ <= lmax _ =>
    let lo := eval vm_compute in (lmin a) in let hi := eval vm_compute in (lmax a) in
    change (lmin a) with lo in H1; change (lmax a) with hi in H1 end;
  assert (Hq : j = 3 * (j / 3)) by (pose proof (Z.div_mod j 3 ltac:(lia)); lia);
  simpl; revert H1 H3; rewrite Hq; generalize (j / 3); intros q H1 H3; lia.
Lemma table_ok_umk : table_ok tab_umk. Proof. table_ok_tac. Qed.
Lemma table_ok_default : table_ok tab_default. Proof. table_ok_tac. Qed.
Lemma table_ok_hz : table_ok tab_hz. Proof. table_ok_tac. Qed.
Ltac clean_tac := split; [reflexivity|]; intros _ k l H; simpl in H;
  repeat (destruct H as [H|H]; [inversion H; subst; reflexivity|]); contradiction.
Lemma clean_unit q : suffix_clean true tab_umk (unit_of q).
Proof. destruct q; clean_tac. Qed.
Lemma clean_W_default : suffix_clean true tab_default [87%N]. Proof. clean_tac. Qed.
Lemma clean_hz : suffix_clean true tab_hz u_hz. Proof. clean_tac. Qed.
Lemma clean_per_s : suffix_clean false tab_default u_per_s. Proof. split; [reflexivity|discriminate]. Qed.
Lemma clean_degree : suffix_clean false tab_default u_degree. Proof. split; [reflexivity|discriminate]. Qed.
Lemma clean_nounit : suffix_clean false tab_default []. Proof. split; [reflexivity|discriminate]. Qed.
Lemma max_exp_umk : max_exp true tab_umk = 3. Proof. reflexivity. Qed.
Lemma max_exp_default : max_exp true tab_default = 12. Proof. reflexivity. Qed.

(* ---------- the real adapter: voltage, current, potential ---------- *)
Theorem real_accurate (q : quantity) (reverse : bool) (x : Q) (p : Z) :
  q <> QPower ->
  ~ (x == 0)%Q -> 1 <= p -> ~ (2 <= p /\ carry_region_Q x p) -> exponent x p <= 3 ->
  let v := sgnQ (eff_reverse q reverse) x in
  exists r s, parse true tab_umk (unit_of q) (real_ann q reverse x p) = Some r /\
    p_inf r = false /\ (p_neg r = true <-> (v < 0)%Q) /\
    sig_exp x p s /\ (Qabs (pvalue r - v) <= Qpow10 s / 2)%Q.
Proof.
  intros NP X P ND EM v.
  assert (E : real_ann q reverse x p = sci_text v p true tab_umk (unit_of q)).
  { destruct q; try reflexivity. contradiction NP; reflexivity. }
  rewrite E.
  destruct (sci_text_accurate_sig v p true tab_umk (unit_of q)) as [r [s [PAR [I [NG [SE [ACC _]]]]]]].
  - apply sgnQ_nz; exact X.
  - exact P.
  - intros [P2 C]. apply ND. split; [exact P2|]. apply (sgnQ_carry (eff_reverse q reverse) x p). exact C.
  - unfold v. rewrite sgnQ_exponent, max_exp_umk. exact EM.
  - intros _. exact table_ok_umk.
  - apply clean_unit.
  - exists r, s. split; [exact PAR|]. split; [exact I|]. split; [exact NG|]. split; [|exact ACC].
    apply (sgnQ_sig (eff_reverse q reverse) x p s). exact SE.
Qed.

(* ---------- the real adapter: power = magnitude ++ arrow ---------- *)
Definition arrow_sign (a : N) : Q := if (a =? ARROW_DOWN)%N then 1 else (-1)%Q.

Lemma Qpos_spec x : Qpos x = true <-> (0 < x)%Q.
Proof. unfold Qpos, Qlt. destruct x as [n d]. simpl. rewrite Z.ltb_lt. lia. Qed.

Theorem power_accurate (reverse : bool) (x : Q) (p : Z) :
  ~ (x == 0)%Q -> 1 <= p -> ~ (2 <= p /\ carry_region_Q x p) -> exponent x p <= 12 ->
  let v := sgnQ reverse x in
  exists body arrow r s, real_ann QPower reverse x p = body ++ [arrow] /\
    (arrow = ARROW_DOWN \/ arrow = ARROW_UP) /\ (arrow = ARROW_DOWN <-> (0 < v)%Q) /\
    parse true tab_default [87%N] body = Some r /\ p_inf r = false /\ p_neg r = false /\
    sig_exp x p s /\ (Qabs (arrow_sign arrow * pvalue r - v) <= Qpow10 s / 2)%Q.
Proof.
  intros X P ND EM v.
  assert (XA : ~ (Qabs x == 0)%Q).
  { intros E. apply X. destruct x as [n d]. unfold Qabs, Qeq in *. simpl in *. lia. }
  assert (AA : Qabs (Qabs x) = Qabs x).
  { destruct x as [n d]. unfold Qabs. simpl. rewrite Z.abs_involutive. reflexivity. }
  destruct (sci_text_accurate_sig (Qabs x) p true tab_default [87%N]) as [r [s [PAR [I [NG [SE [ACC _]]]]]]].
  - exact XA.
  - exact P.
  - intros [P2 C]. apply ND. split; [exact P2|]. unfold carry_region_Q in *. rewrite AA in C. exact C.
  - assert (EE : exponent (Qabs x) p = exponent x p).
    { unfold exponent. destruct x as [n d]. simpl. rewrite Z.abs_involutive. reflexivity. }
    rewrite EE. change (max_exp true tab_default) with 12. exact EM.
  - intros _. exact table_ok_default.
  - exact clean_W_default.
  - exists (sci_text (Qabs x) p true tab_default [87%N]), (if Qpos v then ARROW_DOWN else ARROW_UP), r, s.
    assert (NN : p_neg r = false).
    { destruct (p_neg r) eqn:E; [|reflexivity]. exfalso. assert (H : (Qabs x < 0)%Q) by (apply NG; reflexivity).
      exact (Qlt_not_le _ _ H (Qabs_nonneg x)). }
    split. { unfold real_ann, print_active_power. cbn [eff_reverse takes_reverse andb]. fold v.
             unfold v at 1. rewrite sgnQ_abs. reflexivity. }
    split. { destruct (Qpos v); [left|right]; reflexivity. }
    split. { destruct (Qpos v) eqn:E.
             - split; [intros _; apply Qpos_spec; exact E|reflexivity].
             - split; [discriminate|]. intros H. apply Qpos_spec in H. congruence. }
    split; [exact PAR|]. split; [exact I|]. split; [exact NN|].
    split. { unfold sig_exp in *. rewrite AA in SE. exact SE. }
    (* |±pv - v| = |pv - |v|| *)
    assert (VA : Qabs v = Qabs x) by apply sgnQ_abs.
    destruct (Qpos v) eqn:E.
    + apply Qpos_spec in E. change (arrow_sign ARROW_DOWN) with 1%Q.
      assert (EV : (v == Qabs x)%Q). { rewrite <- VA. symmetry. apply Qabs_pos. apply Qlt_le_weak. exact E. }
      setoid_replace (1 * pvalue r - v)%Q with (pvalue r - Qabs x)%Q by (rewrite EV; ring). exact ACC.
    + assert (LE : (v <= 0)%Q). { destruct (Qlt_le_dec 0 v) as [C|C]; [|exact C]. apply Qpos_spec in C. congruence. }
      change (arrow_sign ARROW_UP) with (-1)%Q.
      assert (EV : (- v == Qabs x)%Q). { rewrite <- VA. symmetry. apply Qabs_neg. exact LE. }
      setoid_replace ((-1) * pvalue r - v)%Q with (- (pvalue r - Qabs x))%Q by (rewrite <- EV; ring).
      rewrite Qabs_opp. exact ACC.
Qed.

(* ---------- the complex adapter, Cartesian: parts and sign strings ---------- *)
Theorem complex_parts (O : polar_oracle) (q : quantity) (reverse : bool) (z : cval) (p : Z) (deg : bool) :
  let z' := sgnC (eff_reverse q reverse) z in
  let un := unit_of q in
  let TR := sci_text (Qabs (fst z')) p true tab_umk un in
  let TI := sci_text (Qabs (snd z')) p true tab_umk un in
  let rsg := if Qneg (fst z') then [45%N] else [] in
  let isg := if Qneg (snd z') then [45%N] else [43%N] in
  complex_ann O q reverse z p false deg =
    if is_zero (Qabs (snd z')) p (-6) then rsg ++ TR
    else if is_zero (Qabs (fst z')) p (-6) then (if Qneg (snd z') then isg ++ LJ :: TI else LJ :: TI)
    else rsg ++ TR ++ isg ++ LJ :: TI.
Proof.
  cbv zeta. unfold complex_ann, print_complex.
  rewrite (complex_text_signs _ _ p true tab_umk (unit_of q) true). reflexivity.
Qed.

(* the magnitudes of the sign-adjusted value are those of the value: reversing changes the sign strings only *)
Lemma sgnC_abs r z : Qabs (fst (sgnC r z)) = Qabs (fst z) /\ Qabs (snd (sgnC r z)) = Qabs (snd z).
Proof. destruct r; simpl; [split; apply Qabs_opp_eq|split; reflexivity]. Qed.
Lemma Qneg_opp x : ~ (x == 0)%Q -> Qneg (- x) = negb (Qneg x).
Proof. unfold Qneg, Qeq. destruct x as [n d]. simpl. intros H.
  destruct (Z.ltb_spec (- n) 0), (Z.ltb_spec n 0); try reflexivity; lia. Qed.

(* ---------- polar: the magnitude text; the sinusoid: amplitude text, phase reference ---------- *)
Theorem polar_shape (O : polar_oracle) (q : quantity) (reverse : bool) (z : cval) (p : Z) (deg : bool) :
  let z' := sgnC (eff_reverse q reverse) z in
  complex_ann O q reverse z p true deg =
    sci_text (po_abs O z') p true tab_umk (unit_of q)
    ++ (if po_small O deg z' then [] else 8736%N :: po_text O deg z' ++ (if deg then [176%N] else [])).
Proof. cbv zeta. unfold complex_ann, print_complex, polar_text.
  destruct (po_small O deg _); [rewrite app_nil_r|]; reflexivity. Qed.

Theorem sin_shape (O : sin_oracle) (q : quantity) (reverse : bool) (z : cval) (p : Z) (w : Q) (sn deg hz : bool) :
  let z' := sgnC (eff_reverse q reverse) z in
  exists rest, sin_ann O q reverse z p w sn deg hz = sci_text (so_abs O z') p true tab_umk (unit_of q) ++ rest
    /\ ((w == 0)%Q -> rest = [])
    /\ (~ (w == 0)%Q -> exists tail, rest = DOT :: (if sn then t_sin else t_cos) ++ 40%N :: tail).
Proof.
  cbv zeta. unfold sin_ann, print_sinusoidal, amplitude_text.
  destruct (Qnum w =? 0) eqn:E.
  - exists []. rewrite app_nil_r. split; [reflexivity|]. split; [reflexivity|].
    intros H. exfalso. apply H. apply Z.eqb_eq in E. unfold Qeq. simpl. lia.
  - eexists. split; [reflexivity|]. split.
    + intros H. exfalso. apply Z.eqb_neq in E. apply E. unfold Qeq in H. simpl in H. lia.
    + intros _. eexists. reflexivity.
Qed.

(* the phase that is shown: arg z for the cosine reference, (arg z) + pi/2 for the sine reference *)
Theorem sin_phase_reference (O : sin_oracle) (z : cval) :
  sin_phase O z false = so_arg O z /\ sin_phase O z true = so_add_halfpi O (so_arg O z).
Proof. split; reflexivity. Qed.

(* ---------- magnitudes over any formally real field: Cartesian = polar, peak = sqrt2 * rms ---------- *)
Section Phasor.
Variable R : fops.
Hypothesis ROK : fops_ok R.
Add Field RfieldA : (Kth R ROK).
Notation "0" := (f0 R). Notation "1" := (f1 R).
Infix "+" := (fadd R). Infix "*" := (fmul R). Infix "-" := (fsub R). Notation "- x" := (fopp R x).
Infix "/" := (fdiv R).
Notation C := (Cx R).

(* polar decomposition (r, (c, s)) of (re, im): r is the magnitude *)
Lemma polar_magnitude (re im r c s : R) : re = r * c -> im = r * s -> c * c + s * s = 1 ->
  r * r = cxnorm2 R (re, im).
Proof. intros -> -> H. unfold cxnorm2. simpl.
  replace (r * c * (r * c) + r * s * (r * s)) with (r * r * (c * c + s * s)) by ring. rewrite H. ring. Qed.

(* x(t) = Re(Z e^{jwt}) with (cw, sw) = (cos wt, sin wt):  re*cw - im*sw
   = A cos(wt + phi)          with (c, s)   = (cos phi, sin phi)
   = A sin(wt + phi + pi/2)   with (c', s') = (cos(phi + pi/2), sin(phi + pi/2)) = (-s, c) *)
Lemma sinusoid_forms (re im A c s cw sw : R) : re = A * c -> im = A * s ->
  let c' := - s in let s' := c in
  re * cw - im * sw = A * (cw * c - sw * s) /\
  A * (cw * c - sw * s) = A * (sw * c' + cw * s').
Proof. intros -> ->. cbv zeta. split; ring. Qed.

Variable sqrt2 : R.
Hypothesis Rreal : forall x y : R, x * x + y * y = 0 -> x = 0 /\ y = 0.

Lemma sqrt2_nz : sqrt2 * sqrt2 = 1 + 1 -> sqrt2 <> 0.
Proof. intros H E. rewrite E in H. assert (T : 1 * 1 + 1 * 1 = 0). { replace (1 * 1 + 1 * 1) with (1 + 1) by ring. rewrite <- H. ring. }
  apply Rreal in T. exact (f1_neq_0 ROK (proj1 T)). Qed.

Lemma div_sqrt2 (x : C) : sqrt2 <> 0 -> fdiv C x (sqrt2, 0) = (fst x / sqrt2, snd x / sqrt2).
Proof. intros NZ. destruct x as [a b]. cbn. unfold cxdiv, cxmul, cxinv, cxnorm2. cbn.
  replace (sqrt2 * sqrt2 + 0 * 0) with (sqrt2 * sqrt2) by ring.
  apply cx_eq; cbn [fst snd]; field; exact NZ. Qed.

(* the value reported by the peak solution is sqrt2 times the value reported by the RMS solution (any nonzero sqrt2) *)
Lemma peak_is_sqrt2_rms_gen (sp sr : csol R) (x : C) :
  cs_peak sp = true -> cs_peak sr = false -> sqrt2 <> 0 ->
  let zp := unpeak R sqrt2 sp x in let zr := unpeak R sqrt2 sr x in
  zp = fmul C (sqrt2, 0) zr /\ cxnorm2 R zp = (sqrt2 * sqrt2) * cxnorm2 R zr /\
  (forall a, a * a = cxnorm2 R zr -> (sqrt2 * a) * (sqrt2 * a) = cxnorm2 R zp).
Proof.
  intros Hp Hr NZ. cbv zeta.
  unfold unpeak. rewrite Hp, Hr. unfold cre. rewrite (div_sqrt2 x NZ). destruct x as [a b]. cbn [fst snd].
  assert (E1 : (a, b) = cxmul R (sqrt2, 0) (a / sqrt2, b / sqrt2)).
  { unfold cxmul. apply cx_eq; cbn [fst snd]; field; exact NZ. }
  assert (E2 : cxnorm2 R (a, b) = (sqrt2 * sqrt2) * cxnorm2 R (a / sqrt2, b / sqrt2)).
  { unfold cxnorm2. cbn [fst snd]. field. exact NZ. }
  split; [exact E1|]. split; [exact E2|].
  intros a0 Ha. rewrite E2, <- Ha. ring.
Qed.

Lemma peak_is_sqrt2_rms (sp sr : csol R) (x : C) :
  cs_peak sp = true -> cs_peak sr = false -> sqrt2 * sqrt2 = 1 + 1 ->
  let zp := unpeak R sqrt2 sp x in let zr := unpeak R sqrt2 sr x in
  zp = fmul C (sqrt2, 0) zr /\ cxnorm2 R zp = (1 + 1) * cxnorm2 R zr /\
  (forall a, a * a = cxnorm2 R zr -> (sqrt2 * a) * (sqrt2 * a) = cxnorm2 R zp).
Proof.
  intros Hp Hr H2. cbv zeta. destruct (peak_is_sqrt2_rms_gen sp sr x Hp Hr (sqrt2_nz H2)) as [A [B D]].
  split; [exact A|]. split; [rewrite <- H2; exact B|exact D].
Qed.
End Phasor.

(* ---------- the declarative route ---------- *)
Lemma dlook_app_notin (d : ddict) k k' v : label_eqb k' k = false -> dlook (d ++ [(k', v)]) k = match dlook d k with Some x => Some x | None => None end.
Proof. intros H. induction d as [|[a b] d IH]; simpl.
  - rewrite H. reflexivity.
  - destruct (label_eqb a k); [reflexivity|exact IH]. Qed.

(* a key outside the signature of the selected factory (and different from 'type') does not matter *)
Theorem description_extra_key_ignored (data : ddict) (k : label) (v : dvalue) :
  label_eqb k k_type = false -> lmem k (sol_signature (select_solution data)) = false ->
  adapter_of_description (data ++ [(k, v)]) = adapter_of_description data.
Proof.
  intros HT HS. unfold adapter_of_description.
  assert (E : select_solution (data ++ [(k, v)]) = select_solution data).
  { unfold select_solution. rewrite (dlook_app_notin data k_type k v HT). destruct (dlook data k_type); reflexivity. }
  rewrite E. unfold filter_params. rewrite filter_app. simpl. rewrite HS. rewrite app_nil_r. reflexivity.
Qed.

Lemma select_dc data : dlook data k_type = Some (DStr (lbl "dc")) -> select_solution data = SF_real.
Proof. unfold select_solution. intros ->. reflexivity. Qed.
Lemma select_real data : dlook data k_type = Some (DStr (lbl "real")) -> select_solution data = SF_real.
Proof. unfold select_solution. intros ->. reflexivity. Qed.
Lemma select_complex data : dlook data k_type = Some (DStr (lbl "complex")) -> select_solution data = SF_complex.
Proof. unfold select_solution. intros ->. reflexivity. Qed.
Lemma select_sftd data : dlook data k_type = Some (DStr (lbl "single_frequency_time_domain")) ->
  select_solution data = SF_single_frequency_complex.
Proof. unfold select_solution. intros ->. reflexivity. Qed.


Lemma select_types data :
  (dlook data k_type = Some (DStr (lbl "dc")) -> select_solution data = SF_real) /\
  (dlook data k_type = Some (DStr (lbl "real")) -> select_solution data = SF_real) /\
  (dlook data k_type = Some (DStr (lbl "complex")) -> select_solution data = SF_complex) /\
  (dlook data k_type = Some (DStr (lbl "single_frequency_time_domain")) -> select_solution data = SF_single_frequency_complex).
Proof. repeat split; [apply select_dc|apply select_real|apply select_complex|apply select_sftd]. Qed.

Lemma dlook_filter (f : sol_fn) (data : ddict) k : lmem k (sol_signature f) = true ->
  dlook (filter_params f data) k = dlook data k.
Proof.
  intros H. unfold filter_params. induction data as [|[a b] d IH]; simpl; [reflexivity|].
  destruct (lmem a (sol_signature f)) eqn:E; simpl.
  - destruct (label_eqb a k); [reflexivity|exact IH].
  - destruct (label_eqb_spec a k) as [->|N]; [congruence|exact IH].
Qed.

(* the sinusoidal (time-function) adapter is not reachable from a description *)
Theorem description_never_sinusoidal (data : ddict) (ad : adapter) :
  adapter_of_description data = DOk ad -> match ad with AdSin _ _ _ _ _ => False | _ => True end.
Proof.
  unfold adapter_of_description, call_factory. destruct (dlook (filter_params _ data) k_schematic); [discriminate|].
  destruct (select_solution data); unfold dbind;
    repeat match goal with |- context [match ?g with DOk _ => _ | DErr _ => _ end] => destruct g end;
    intros H; inversion H; exact I.
Qed.

(* the adapter a description selects, in terms of the description's own entries *)
Theorem description_adapter (data : ddict) :
  dlook data k_schematic = None ->
  adapter_of_description data =
  match select_solution data with
  | SF_empty => DOk AdEmpty
  | SF_real => dbind (get_int data k_precision 3) (fun p => DOk (AdReal p))
  | SF_complex =>
      dbind (get_int data k_precision 3) (fun p => dbind (get_bool data k_polar false) (fun po =>
      dbind (get_bool data k_deg false) (fun dg => DOk (AdComplex None p po dg))))
  | SF_single_frequency_complex =>
      dbind (get_num data k_w 0) (fun w => dbind (get_int data k_precision 3) (fun p =>
      dbind (get_bool data k_polar false) (fun po => dbind (get_bool data k_deg false) (fun dg =>
      DOk (AdComplex (Some w) p po dg)))))
  end.
Proof.
  intros NS. unfold adapter_of_description, call_factory.
  assert (S : forall f, dlook (filter_params f data) k_schematic = None).
  { intros f. rewrite dlook_filter; [exact NS|]. destruct f; reflexivity. }
  rewrite S. unfold get_int, get_bool, get_num.
  destruct (select_solution data); try reflexivity;
    rewrite ?dlook_filter by reflexivity; reflexivity.
Qed.

(* the text written through a description is the text of the direct adapter call *)
Theorem declarative_is_direct PO SO (data entry : ddict) (q : quantity) (v : reading) (ad : adapter) (rev : bool) :
  adapter_of_description data = DOk ad -> entry_reverse entry = DOk rev ->
  declarative_annotation PO SO data q entry v = DOk (annotation PO SO ad q rev v).
Proof. intros H1 H2. unfold declarative_annotation. rewrite H1, H2. reflexivity. Qed.
