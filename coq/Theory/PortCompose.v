(* Theory/PortCompose.v — composition laws of the port impedance: a single element, series, parallel; the
   impedances jwL and 1/(jwC) of the branches the circuit translator emits for inductances and capacitors. *)
From Coq Require Import List Bool NArith ZArith Arith String Permutation Lia Field Ring.
From CC Require Import Theory.Field Theory.Complex Theory.Labels Model.Network Model.Transformers Model.Port Theory.Spec
  Theory.Mna Theory.MnaComplete Theory.Api Theory.Gauss Theory.Linearity Theory.Invariance Theory.PortThm Model.Circuit.
Import ListNotations.

Lemma NoDup_app_disjoint {A} (l1 l2 : list A) (x : A) : NoDup (l1 ++ l2) -> In x l1 -> In x l2 -> False.
Proof. induction l1 as [|y l1 IH]; simpl; intros ND H1 H2; [contradiction|].
  inversion ND as [|? ? Hy ND']; subst. destruct H1 as [->|H1].
  - apply Hy. apply in_or_app. right. exact H2.
  - apply (IH ND' H1 H2). Qed.

Section Compose.
Variable K : fops.
Hypothesis KOK : fops_ok K.
Add Field Kfc : (Kth K KOK).
Notation "0" := (f0 K). Notation "1" := (f1 K).
Infix "+" := (fadd K). Infix "*" := (fmul K). Infix "-" := (fsub K). Notation "- x" := (fopp K x).
Infix "/" := (fdiv K).
Notation "x == y" := (feqb K x y) (at level 70).
Ltac feq x y := destruct (feqb_spec KOK x y).
Implicit Types (n : network K) (br : branch K) (phi : label -> K) (j : branch K -> K) (a b m l node : label).

(* ---------------- one element ---------------- *)
Definition single a b (e : elem K) : network K := {| branches := [Build_branch a b e]; zero := b |}.

Lemma wf_single a b e : a <> b -> wf (single a b e).
Proof. intros Hab. unfold wf, single, branch_ids. simpl. split; [|split].
  - constructor; [intros []|constructor].
  - intros _. right. left. reflexivity.
  - intros br [<-|[]]. exact Hab. Qed.

Theorem PortZ_single a b (e : elem K) (y : K) : a <> b -> eY e = Some y -> y <> 0 ->
  PortZ (single a b e) a b (1 / y) /\ (forall z, PortZ (single a b e) a b z -> z = 1 / y).
Proof. intros Hab EY NY. pose proof (wf_single a b e Hab) as WF. split.
  - apply (PortZ_iff K KOK _ a b _ WF). exists (fun l => if label_eqb l a then 1 / y else 0), (fun _ => 1). split.
    + split.
      * intros node. unfold single. simpl branches. rewrite (kcl_one K KOK). simpl. ring.
      * intros br [<-|[]]. unfold hom_law, bvolt. simpl. rewrite EY, label_eqb_refl.
        rewrite (label_eqb_neq b a) by congruence. field. exact NY.
    + rewrite label_eqb_refl. rewrite (label_eqb_neq b a) by congruence. ring.
  - intros z P. apply (PortZ_iff K KOK _ a b _ WF) in P. destruct P as [phi [jn [[KC LW] ->]]].
    specialize (KC a). unfold single in KC. simpl branches in KC. rewrite (kcl_one K KOK) in KC. simpl in KC.
    unfold ind in KC. rewrite label_eqb_refl in KC. rewrite (label_eqb_neq b a) in KC by congruence.
    specialize (LW _ (or_introl eq_refl)). unfold hom_law, bvolt in LW. simpl in LW. rewrite EY in LW.
    assert (J : jn (Build_branch a b e) = 1).
    { replace (jn (Build_branch a b e)) with ((1 - 0) * jn (Build_branch a b e)) by ring. rewrite KC. ring. }
    rewrite J in LW. replace (phi a - phi b) with (1 / y * (y * (phi a - phi b))) by (field; exact NY).
    rewrite <- LW. ring. Qed.

(* ---------------- two networks put together ---------------- *)
Definition join n1 n2 : network K := {| branches := branches n1 ++ branches n2; zero := zero n1 |}.
Definition pick (n1 : network K) (j1 j2 : branch K -> K) (br : branch K) : K :=
  if lmem (bid br) (branch_ids n1) then j1 br else j2 br.

Lemma drivenH_join n1 n2 a1 b1 (c1 : K) a2 b2 (c2 : K) phi1 j1 phi2 j2 phi :
  NoDup (branch_ids (join n1 n2)) ->
  (forall br, In br (branches n1) -> bvolt phi br = bvolt phi1 br) ->
  (forall br, In br (branches n2) -> bvolt phi br = bvolt phi2 br) ->
  DrivenH n1 a1 b1 c1 phi1 j1 -> DrivenH n2 a2 b2 c2 phi2 j2 ->
  (forall node, kcl_sum (branches (join n1 n2)) (pick n1 j1 j2) node
                = c1 * (ind a1 node - ind b1 node) + c2 * (ind a2 node - ind b2 node))
  /\ (forall br, In br (branches (join n1 n2)) -> hom_law phi (pick n1 j1 j2) br).
Proof. intros ND V1 V2 [KC1 LW1] [KC2 LW2].
  assert (P1 : forall br, In br (branches n1) -> pick n1 j1 j2 br = j1 br).
  { intros br Hbr. unfold pick. replace (lmem (bid br) (branch_ids n1)) with true; [reflexivity|].
    symmetry. apply lmem_spec. apply in_map. exact Hbr. }
  assert (P2 : forall br, In br (branches n2) -> pick n1 j1 j2 br = j2 br).
  { intros br Hbr. unfold pick. replace (lmem (bid br) (branch_ids n1)) with false; [reflexivity|].
    symmetry. apply lmem_false. intros H. unfold branch_ids, join in ND. simpl in ND. rewrite map_app in ND.
    apply (NoDup_app_disjoint _ _ (bid br) ND H). apply in_map. exact Hbr. }
  split.
  - intros node. unfold join. simpl branches. rewrite (kcl_app K KOK).
    rewrite (kcl_ext_in K (branches n1) _ j1 node P1), (kcl_ext_in K (branches n2) _ j2 node P2), KC1, KC2. reflexivity.
  - intros br Hbr. simpl in Hbr. apply in_app_or in Hbr. destruct Hbr as [Hbr|Hbr].
    + specialize (LW1 br Hbr). unfold hom_law in *. rewrite (P1 br Hbr), (V1 br Hbr). exact LW1.
    + specialize (LW2 br Hbr). unfold hom_law in *. rewrite (P2 br Hbr), (V2 br Hbr). exact LW2. Qed.

Lemma in_endpoints1 n br : In br (branches n) -> In (node1 br) (endpoints n).
Proof. intros H. unfold endpoints. apply in_or_app. left. apply in_map. exact H. Qed.
Lemma in_endpoints2 n br : In br (branches n) -> In (node2 br) (endpoints n).
Proof. intros H. unfold endpoints. apply in_or_app. right. apply in_map. exact H. Qed.

(* series: n1 between a and m, n2 between m and b, m their only common node *)
Theorem PortZ_series n1 n2 a m b (z1 z2 : K) : wf n1 -> wf n2 -> wf (join n1 n2) ->
  (forall l, In l (endpoints n1) -> In l (endpoints n2) -> l = m) ->
  In a (endpoints n1) -> ~ In b (endpoints n1) ->
  PortZ n1 a m z1 -> PortZ n2 m b z2 -> PortZ (join n1 n2) a b (z1 + z2).
Proof. intros WF1 WF2 WF SH Ha Hb P1 P2.
  apply (PortZ_iff K KOK n1 a m z1 WF1) in P1. destruct P1 as [phi1 [j1 [D1 ->]]].
  apply (PortZ_iff K KOK n2 m b z2 WF2) in P2. destruct P2 as [phi2 [j2 [D2 ->]]].
  apply (PortZ_iff K KOK _ a b _ WF).
  set (phi := fun l => if lmem l (endpoints n1) then phi1 l + (phi2 m - phi1 m) else phi2 l).
  assert (E1 : forall l, In l (endpoints n1) -> phi l = phi1 l + (phi2 m - phi1 m)).
  { intros l Hl. unfold phi. apply lmem_spec in Hl. rewrite Hl. reflexivity. }
  assert (E2 : forall l, In l (endpoints n2) -> phi l = phi2 l).
  { intros l Hl. unfold phi. destruct (lmem l (endpoints n1)) eqn:M; [|reflexivity].
    apply lmem_spec in M. rewrite (SH l M Hl). ring. }
  exists phi, (pick n1 j1 j2). split.
  - destruct (drivenH_join n1 n2 a m 1 m b 1 phi1 j1 phi2 j2 phi (proj1 WF)) as [KC LW]; try assumption.
    + intros br Hbr. unfold bvolt. rewrite (E1 _ (in_endpoints1 n1 br Hbr)), (E1 _ (in_endpoints2 n1 br Hbr)). ring.
    + intros br Hbr. unfold bvolt. rewrite (E2 _ (in_endpoints1 n2 br Hbr)), (E2 _ (in_endpoints2 n2 br Hbr)). reflexivity.
    + split; [|exact LW]. intros node. rewrite KC. ring.
  - rewrite (E1 a Ha). unfold phi. apply lmem_false in Hb. rewrite Hb. ring. Qed.

(* parallel: n1 and n2 both between a and b, no other common node *)
Theorem PortZ_parallel n1 n2 a b (z1 z2 : K) : wf n1 -> wf n2 -> wf (join n1 n2) ->
  (forall l, In l (endpoints n1) -> In l (endpoints n2) -> l = a \/ l = b) ->
  In a (endpoints n1) -> In b (endpoints n1) -> z1 + z2 <> 0 ->
  PortZ n1 a b z1 -> PortZ n2 a b z2 -> PortZ (join n1 n2) a b (z1 * z2 / (z1 + z2)).
Proof. intros WF1 WF2 WF SH Ha Hb NZ P1 P2.
  apply (PortZ_iff K KOK n1 a b z1 WF1) in P1. destruct P1 as [phi1 [j1 [D1 EZ1]]].
  apply (PortZ_iff K KOK n2 a b z2 WF2) in P2. destruct P2 as [phi2 [j2 [D2 EZ2]]].
  apply (PortZ_iff K KOK _ a b _ WF).
  set (c1 := z2 / (z1 + z2)). set (c2 := z1 / (z1 + z2)).
  set (phi := fun l => if lmem l (endpoints n1) then c1 * (phi1 l - phi1 b) else c2 * (phi2 l - phi2 b)).
  assert (E1 : forall l, In l (endpoints n1) -> phi l = c1 * (phi1 l - phi1 b)).
  { intros l Hl. unfold phi. apply lmem_spec in Hl. rewrite Hl. reflexivity. }
  assert (E2 : forall l, In l (endpoints n2) -> phi l = c2 * (phi2 l - phi2 b)).
  { intros l Hl. unfold phi. destruct (lmem l (endpoints n1)) eqn:M; [|reflexivity].
    apply lmem_spec in M. destruct (SH l M Hl) as [->| ->].
    - replace (phi1 a - phi1 b) with z1 by exact EZ1. replace (phi2 a - phi2 b) with z2 by exact EZ2.
      unfold c1, c2. field. exact NZ.
    - ring. }
  exists phi, (pick n1 (fun br => c1 * j1 br) (fun br => c2 * j2 br)). split.
  - pose proof (drivenH_scal K KOK n1 a b 1 c1 phi1 j1 D1) as S1.
    pose proof (drivenH_scal K KOK n2 a b 1 c2 phi2 j2 D2) as S2.
    destruct (drivenH_join n1 n2 a b (c1 * 1) a b (c2 * 1) (fun l => c1 * phi1 l) (fun br => c1 * j1 br)
                (fun l => c2 * phi2 l) (fun br => c2 * j2 br) phi (proj1 WF)) as [KC LW]; [| |exact S1|exact S2|].
    + intros br Hbr. unfold bvolt. rewrite (E1 _ (in_endpoints1 n1 br Hbr)), (E1 _ (in_endpoints2 n1 br Hbr)). ring.
    + intros br Hbr. unfold bvolt. rewrite (E2 _ (in_endpoints1 n2 br Hbr)), (E2 _ (in_endpoints2 n2 br Hbr)). ring.
    + split; [|exact LW]. intros node. rewrite KC. unfold c1, c2. field. exact NZ.
  - rewrite (E1 a Ha), (E1 b Hb). replace (phi1 a - phi1 b) with z1 by exact EZ1. unfold c1. field. exact NZ. Qed.

End Compose.

Arguments single {K}. Arguments join {K}. Arguments pick {K}.

(* ---------------- over frequency: the branches the circuit translator emits for L and C ---------------- *)
Section Frequency.
Variable R : fops.
Hypothesis ROK : fops_ok R.
Hypothesis Rreal : forall x y : R, fadd R (fmul R x x) (fmul R y y) = f0 R -> x = f0 R /\ y = f0 R.
Let CK := Cx R.
Let CKOK : fops_ok CK := Cx_ok R ROK Rreal.
Add Field CKf : (Kth CK CKOK).

Lemma cim_nz (x : R) : x <> f0 R -> cim R x <> f0 CK.
Proof. intros H E. apply H. unfold cim in E. simpl in E. unfold cx0 in E. congruence. Qed.

(* an inductance L at angular frequency w is seen as  j w L *)
Theorem inductor_impedance (c : comp R) (w L : R) (br : branch CK) :
  vget R c "L" = Ok L -> t_inductance R c w = Ok br -> node1 br <> node2 br -> fmul R w L <> f0 R ->
  PortZ (single (node1 br) (node2 br) (el br)) (node1 br) (node2 br) (cim R (fmul R w L))
  /\ (forall z, PortZ (single (node1 br) (node2 br) (el br)) (node1 br) (node2 br) z -> z = cim R (fmul R w L)).
Proof. intros HL HT Hab NZ. unfold t_inductance in HT. rewrite HL in HT. simpl in HT. unfold mkbranch in HT.
  destruct (node_at R c 0) as [a|]; simpl in HT; [|discriminate]. destruct (node_at R c 1) as [b|]; simpl in HT; [|discriminate].
  injection HT as <-. simpl in *.
  assert (NZ' : cim R (fmul R w L) <> f0 CK) by (apply cim_nz, NZ).
  assert (EY : eY (impedance (cid c) (cim R (fmul R w L))) = Some (fdiv CK (f1 CK) (cim R (fmul R w L)))).
  { unfold impedance, eY. destruct (feqb (Cx R) (cim R (fmul R w L)) (f0 (Cx R))) eqn:E; [|reflexivity].
    exfalso. apply NZ'. apply (Keqb CK CKOK). exact E. }
  assert (NY : fdiv CK (f1 CK) (cim R (fmul R w L)) <> f0 CK) by (apply (inv_nz CK CKOK), NZ').
  destruct (PortZ_single CK CKOK a b _ _ Hab EY NY) as [P U].
  assert (EQ : fdiv CK (f1 CK) (fdiv CK (f1 CK) (cim R (fmul R w L))) = cim R (fmul R w L)) by (field; split; [exact NZ'|exact (f1_neq_0 CKOK)]).
  rewrite EQ in P, U. split; assumption. Qed.

(* a capacitor C at angular frequency w is seen as  1 / (j w C) *)
Theorem capacitor_impedance (c : comp R) (w Cv : R) (br : branch CK) :
  vget R c "C" = Ok Cv -> t_capacitor R c w = Ok br -> node1 br <> node2 br -> fmul R w Cv <> f0 R ->
  PortZ (single (node1 br) (node2 br) (el br)) (node1 br) (node2 br) (fdiv CK (f1 CK) (cim R (fmul R w Cv)))
  /\ (forall z, PortZ (single (node1 br) (node2 br) (el br)) (node1 br) (node2 br) z ->
                z = fdiv CK (f1 CK) (cim R (fmul R w Cv))).
Proof. intros HC HT Hab NZ. unfold t_capacitor in HT. rewrite HC in HT. simpl in HT. unfold mkbranch in HT.
  destruct (node_at R c 0) as [a|]; simpl in HT; [|discriminate]. destruct (node_at R c 1) as [b|]; simpl in HT; [|discriminate].
  injection HT as <-. simpl in *.
  apply (PortZ_single CK CKOK a b (admittance (cid c) (cim R (fmul R w Cv))) (cim R (fmul R w Cv)) Hab eq_refl).
  apply cim_nz, NZ. Qed.

End Frequency.
