(* Theory/ElementsDrawingThm.v — two independent readings of SimpleCircuit/Elements.py agree.
   tools/gen_drawing.py records, for the attributes the component translators read, how the constructor stored them
   (Gen/DrawingGen.v: g_attr_prov, PArg / PNegIfReverse; used by C13c);  tools/gen_elements.py regenerates the constructors
   themselves (Gen/ElementsGen.v; proved equal to Model/SaveLoad.v's [construct] in Theory/ElementsGenThm.v, C15d).
   Every row of g_attr_prov about a persistable class is what the regenerated constructor does: the property is a plain
   read of a private attribute that is stored once, by that expression, and touched by no other statement. *)
From Coq Require Import List Bool NArith ZArith String.
From CC Require Import Theory.Field Model.Network Model.Circuit Model.Loaders Model.SaveLoad Model.SaveLoadPrims
  Model.ElementsPrims Gen.ElementsGen Theory.ElementsGenThm.
From CC Require Model.Drawing Model.DrawingPrims Gen.DrawingGen.
Import ListNotations.

(* class codes of Model/Drawing.v *)
Definition drawing_code (c : scls) : option N :=
  match c with
  | CResistor => Some Drawing.c_Resistor | CConductance => Some Drawing.c_Conductance | CImpedance => Some Drawing.c_Impedance
  | CAdmittance => Some Drawing.c_Admittance | CCapacitor => Some Drawing.c_Capacitor | CInductance => Some Drawing.c_Inductance
  | CVoltageSource => Some Drawing.c_VoltageSource | CCurrentSource => Some Drawing.c_CurrentSource
  | CComplexVoltageSource => Some Drawing.c_ComplexVoltageSource | CComplexCurrentSource => Some Drawing.c_ComplexCurrentSource
  | CACVoltageSource => Some Drawing.c_ACVoltageSource | CACCurrentSource => Some Drawing.c_ACCurrentSource
  | CRectVoltageSource => Some Drawing.c_RectVoltageSource | CRectCurrentSource => Some Drawing.c_RectCurrentSource
  | CGround => Some Drawing.c_Ground | CLine => Some Drawing.c_Line
  | CElement | COther _ => None
  end.
Definition class_of_code (n : N) : option scls :=
  find (fun c => match drawing_code c with Some m => N.eqb m n | None => false end) modelled_classes.

(* the provenance a store expression amounts to *)
Definition expr_prov (e : cexpr) : option DrawingPrims.prov :=
  match e with
  | EParam a => Some (DrawingPrims.PArg a)
  | EIf (ENot (EParam r)) (EParam a) (ENeg (EParam b)) =>
      if label_eqb r q_reverse && label_eqb a b then Some (DrawingPrims.PNegIfReverse a) else None
  (* the same selection spelled `-a if reverse else a` (see [neg_if_reverse_spellings] below: the two expressions evaluate alike) *)
  | EIf (EParam r) (ENeg (EParam b)) (EParam a) =>
      if label_eqb r q_reverse && label_eqb a b then Some (DrawingPrims.PNegIfReverse a) else None
  | _ => None
  end.
(* `x if not c else y` and `y if c else x` are the same expression for the interpreter of Model/ElementsPrims.v, whatever c, x, y
   are (also when c is not a bool: both answer the same error) *)
Lemma neg_if_reverse_spellings (R : fops) (pi : R) (env store : dict (jval R)) (c x y : cexpr) :
  eval R pi env store (EIf (ENot c) x y) = eval R pi env store (EIf c y x).
Proof.
  cbn [eval]. destruct (eval R pi env store c) as [v|err]; [|reflexivity]. cbn [bind].
  destruct (truth R v) as [b|err]; [|reflexivity]. cbn [bind]. destruct b; reflexivity.
Qed.
(* private attributes written by anything but a top-level plain store *)
Fixpoint stmt_touches (s : cstmt) : list label :=
  match s with SStore f _ => [f] | SAug f _ _ => [f] | SIf _ s' => stmt_touches s' | _ => [] end.
Fixpoint touched (b : list cstmt) : list label :=
  match b with
  | [] => []
  | SStore _ _ :: r => touched r
  | s :: r => stmt_touches s ++ touched r
  end.
Definition store_prov (f : class_facts) (attr : label) : option DrawingPrims.prov :=
  match property_reads f attr with
  | None => None
  | Some fld =>
      let body := ctor_body_of (cf_ctor f) in
      if lmem fld (touched body) then None
      else match filter (fun fe => label_eqb (fst fe) fld) (stores_of body) with
           | [(_, e)] => expr_prov e
           | _ => None
           end
  end.
Definition prov_eqb (a b : option DrawingPrims.prov) : bool :=
  match a, b with
  | Some (DrawingPrims.PArg x), Some (DrawingPrims.PArg y) => label_eqb x y
  | Some (DrawingPrims.PNegIfReverse x), Some (DrawingPrims.PNegIfReverse y) => label_eqb x y
  | None, None => true
  | _, _ => false
  end.
Definition row_agrees (row : N * label * DrawingPrims.prov) : bool :=
  match row with
  | (n, attr, p) =>
      match class_of_code n with
      | None => true                                        (* a class outside the persistable ones *)
      | Some c => match facts_of c with Some f => prov_eqb (store_prov f attr) (Some p) | None => false end
      end
  end.
Lemma prov_rows_agree : forallb row_agrees DrawingGen.g_attr_prov = true.
Proof. vm_compute. reflexivity. Qed.
(* how many rows the statement is about *)
Lemma prov_rows_counted :
  List.length (filter (fun row => match class_of_code (fst (fst row)) with Some _ => true | None => false end) DrawingGen.g_attr_prov) = 23%nat.
Proof. vm_compute. reflexivity. Qed.

Lemma prov_eqb_eq a b : prov_eqb a b = true -> a = b.
Proof.
  destruct a as [[x|x]|], b as [[y|y]|]; cbn; intros H; try discriminate H; try reflexivity;
    destruct (Labels.label_eqb_spec x y) as [->|]; try discriminate H; reflexivity.
Qed.
(* the statement in words *)
Theorem prov_agrees (n : N) (attr : label) (p : DrawingPrims.prov) (c : scls) :
  In (n, attr, p) DrawingGen.g_attr_prov -> class_of_code n = Some c ->
  exists f, facts_of c = Some f /\ store_prov f attr = Some p.
Proof.
  intros Hin Hc. pose proof prov_rows_agree as H. rewrite forallb_forall in H. specialize (H _ Hin).
  unfold row_agrees in H. rewrite Hc in H. destruct (facts_of c) as [f|]; [|discriminate H].
  exists f. split; [reflexivity|]. apply prov_eqb_eq. exact H.
Qed.
