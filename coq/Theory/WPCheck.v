(* Theory/WPCheck.v — a boolean certificate of well-posedness for concrete networks:
   if the model's solver succeeds and the computed inverse X of the MNA matrix A also satisfies X*A = I
   (checked by computation), then the MNA system has at most one solution, hence the circuit equations
   have exactly one solution on the observable quantities ([WellPosed]).  Used for non-vacuity examples. *)
From Coq Require Import List Bool NArith Arith Permutation Lia Field Ring.
From CC Require Import Theory.Field Theory.Labels Model.Network Theory.Spec Theory.Mna Theory.MnaComplete Theory.Api.
Import ListNotations.

Section LeftInverse.
Variable K : fops.
Hypothesis KOK : fops_ok K.
Add Field Kf5 : (Kth K KOK).
Notation "0" := (f0 K). Notation "1" := (f1 K).
Infix "+" := (fadd K). Infix "*" := (fmul K). Infix "-" := (fsub K). Notation "- x" := (fopp K x).

Lemma mat_eqb_eq (A B : list (list K)) : mat_eqb A B = true -> A = B.
Proof. revert B. induction A as [|a A IH]; intros [|b B]; simpl; try discriminate; [reflexivity|].
  intros H. apply andb_true_iff in H. destruct H as [H1 H2].
  apply (vec_eqb_eq K KOK) in H1. subst. f_equal. auto. Qed.

(* dot of a tabulated row with a vector, as a sum over indices *)
Lemma dot_map_seq (g : nat -> K) (m : nat) : forall (s : nat) (x : list K), length x = m ->
  dot (map g (seq s m)) x = sumF (fun i => g (s + i)%nat * nth i x 0) (seq 0 m).
Proof.
  induction m as [|m IH]; intros s x HL.
  - reflexivity.
  - destruct x as [|b xs]; [discriminate|]. injection HL as HL.
    change (seq s (S m)) with (s :: seq (S s) m).
    change (seq 0 (S m)) with (0%nat :: seq 1 m).
    rewrite <- (seq_shift m 0).
    unfold dot. simpl map. simpl combine. simpl sumF.
    fold (dot (map g (seq (S s) m)) xs). rewrite (IH (S s) xs HL).
    rewrite sumF_map. rewrite Nat.add_0_r. f_equal.
    apply sumF_ext. intros i. simpl nth. rewrite Nat.add_succ_r. reflexivity.
Qed.

Lemma combine_map_r {A B C} (f : B -> C) (u : list A) (v : list B) :
  combine u (map f v) = map (fun p => (fst p, f (snd p))) (combine u v).
Proof. revert v. induction u as [|a u IH]; intros [|b v]; simpl; try reflexivity. rewrite IH. reflexivity. Qed.

(* dot of an arbitrary row with a vector of length m, as a sum over the m indices *)
Lemma dot_as_seq (m : nat) : forall (r x : list K), length x = m ->
  dot r x = sumF (fun i => nth i r 0 * nth i x 0) (seq 0 m).
Proof.
  induction m as [|m IH]; intros r x HL.
  - destruct x; [|discriminate]. rewrite (dot_nil_r K). reflexivity.
  - destruct x as [|b xs]; [discriminate|]. injection HL as HL.
    change (seq 0 (S m)) with (0%nat :: seq 1 m). rewrite <- (seq_shift m 0).
    simpl sumF. rewrite sumF_map.
    destruct r as [|a r].
    + unfold dot. simpl. rewrite (sumF_zero_in KOK).
      * ring.
      * intros i _. destruct i; simpl; ring.
    + unfold dot. simpl combine. simpl sumF. fold (dot r xs). rewrite (IH r xs HL). reflexivity.
Qed.

(* (X*A)*x = X*(A*x) *)
Lemma mat_vec_assoc (m : nat) (X A : list (list K)) (x : list K) : length x = m ->
  mat_vec (mat_mul m X A) x = mat_vec X (mat_vec A x).
Proof.
  intros HL. unfold mat_vec, mat_mul. rewrite map_map. apply map_ext. intros r.
  rewrite (dot_map_seq (fun j => dot r (col A j)) m 0%nat x HL).
  (* inner dot products as sums over the pairs of [combine r A] *)
  rewrite (sumF_ext _ (fun i => sumF (fun p => fst p * (nth i (snd p) 0 * nth i x 0)) (combine r A))).
  2:{ intros i. simpl. unfold dot, col. rewrite combine_map_r, sumF_map. simpl.
      rewrite <- (sumF_scal_r KOK). apply sumF_ext. intros p. unfold entry. ring. }
  rewrite (sumF_swap KOK).
  unfold dot at 1. rewrite combine_map_r, sumF_map. simpl.
  apply sumF_ext. intros p. rewrite (sumF_scal_l KOK). f_equal.
  symmetry. apply dot_as_seq. exact HL.
Qed.

Lemma map_nth_seq (x : list K) : map (fun k => nth k x 0) (seq 0 (length x)) = x.
Proof. induction x as [|a x IH]; [reflexivity|]. simpl length.
  change (seq 0 (S (length x))) with (0%nat :: seq 1 (length x)). rewrite <- (seq_shift (length x) 0).
  simpl map. rewrite map_map. simpl. f_equal. exact IH. Qed.

Lemma mat_vec_ident (m : nat) (x : list K) : length x = m -> mat_vec (ident m) x = x.
Proof.
  intros HL. unfold mat_vec, ident. rewrite map_map.
  etransitivity; [|apply (map_nth_seq x)]. rewrite HL. apply map_ext_in. intros k Hk. apply in_seq in Hk.
  unfold unit_vec. rewrite (dot_map_seq (fun j => if Nat.eqb j k then 1 else 0) m 0%nat x HL). simpl.
  rewrite (sumF_ext _ (fun i => if Nat.eqb i k then nth i x 0 else 0)).
  2:{ intros i. destruct (Nat.eqb i k); ring. }
  rewrite (sumF_indicator KOK Nat.eqb Nat.eqb_spec (fun i => nth i x 0) k (seq 0 m) (seq_NoDup m 0)).
  assert (E : existsb (Nat.eqb k) (seq 0 m) = true).
  { apply existsb_exists. exists k. split; [apply in_seq; lia|apply Nat.eqb_refl]. }
  rewrite E. reflexivity.
Qed.

Theorem left_inverse_unique (m : nat) (X A : list (list K)) (x x' : list K) :
  mat_mul m X A = ident m -> length x = m -> length x' = m -> mat_vec A x = mat_vec A x' -> x = x'.
Proof.
  intros HI HL HL' E.
  rewrite <- (mat_vec_ident m x HL), <- (mat_vec_ident m x' HL'), <- HI.
  rewrite !mat_vec_assoc by assumption. rewrite E. reflexivity.
Qed.

End LeftInverse.

(* the boolean certificate *)
Definition wpb {K : fops} (n : network K) : bool :=
  let A := mna_matrix n in let m := length (mna_rhs n) in
  solvedb n && match inverse A with Some X => mat_eqb (mat_mul m X A) (ident m) | None => false end.

Theorem wpb_ok {K : fops} (KOK : fops_ok K) (n : network K) : wfb n = true -> wpb n = true -> WellPosed n.
Proof.
  intros W H. unfold wpb in H. apply andb_true_iff in H. destruct H as [HS HX].
  destruct (solvedb_ok KOK n W HS) as [s [_ [WF [_ C]]]].
  split; [exists (phi_of n (s_x s)), (flow_of n (s_x s)); exact C|].
  destruct (inverse (mna_matrix n)) as [X|]; [|discriminate].
  apply (mat_eqb_eq K KOK) in HX.
  intros phi j phi' j' C1 C2.
  pose proof (mna_complete K KOK n WF phi j C1) as [L1 S1].
  pose proof (mna_complete K KOK n WF phi' j' C2) as [L2 S2].
  assert (Hm : length (mna_rhs n) = (length (node_index n) + length (vs_index n))%nat).
  { unfold mna_rhs. rewrite app_length, !map_length. reflexivity. }
  assert (E : vec n phi j = vec n phi' j').
  { apply (left_inverse_unique K KOK (length (mna_rhs n)) X (mna_matrix n)); [exact HX|congruence|congruence|congruence]. }
  split.
  - intros l Hl.
    assert (Hc : l = zero n \/ In l (node_index n)).
    { destruct (label_eqb_spec l (zero n)) as [e|e]; [left; exact e|right].
      unfold node_index. apply filter_In. split; [apply lsort_In; exact Hl|].
      destruct (label_eqb_spec l (zero n)); [contradiction|reflexivity]. }
    rewrite <- (phi_vec K n phi j l (proj1 C1) Hc), <- (phi_vec K n phi' j' l (proj1 C2) Hc), E. reflexivity.
  - intros b Hb.
    rewrite <- (flow_vec K KOK n WF phi j b C1 Hb), <- (flow_vec K KOK n WF phi' j' b C2 Hb), E. reflexivity.
Qed.
