(* Theory/CircuitThm.v — theorems about Model/Circuit.v:
   A. the hand-written kind tables of the model agree with the tables regenerated from the Python source (Gen/Tables.v);
   B. transform_circuit: one branch per non-ground component, same id / terminals / order, reference node, and each
      branch's element law is the component's law at w (comp_law);
   C. the single-frequency analysis solves the phasor equations (PhasorSpec), RMS scaling, DC analysis. *)
From Coq Require Import List Bool NArith ZArith Arith String Lia Field Ring.
From CC Require Import Theory.Field Theory.Complex Theory.Labels Model.Network Theory.Spec Theory.Mna Theory.MnaComplete
  Theory.Api Theory.Gauss Gen.Tables Model.Circuit.
Import ListNotations.

(* ====================================================================================================== *)
(* A. finite tables                                                                                        *)
(* ====================================================================================================== *)

Definition subsetb (l1 l2 : list label) : bool := forallb (fun x => lmem x l2) l1.
Definition seteqb (l1 l2 : list label) : bool := subsetb l1 l2 && subsetb l2 l1.
Definition nodupb (l : list label) : bool := Nat.eqb (List.length (ldedup l)) (List.length l).
Fixpoint lleqb (l1 l2 : list label) : bool :=
  match l1, l2 with
  | [], [] => true
  | a :: r1, b :: r2 => label_eqb a b && lleqb r1 r2
  | _, _ => false
  end.
Definition olabel_eqb (a b : option label) : bool :=
  match a, b with Some x, Some y => label_eqb x y | None, None => true | _, _ => false end.

Lemma subsetb_spec l1 l2 : subsetb l1 l2 = true <-> (forall x, In x l1 -> In x l2).
Proof. unfold subsetb. rewrite forallb_forall. split; intros H x Hx; [apply lmem_spec|apply lmem_spec]; auto. Qed.
Lemma seteqb_spec l1 l2 : seteqb l1 l2 = true <-> (forall x, In x l1 <-> In x l2).
Proof. unfold seteqb. rewrite andb_true_iff, !subsetb_spec. split.
  - intros [A B] x; split; auto.
  - intros H; split; intros x; apply H. Qed.
Lemma nodupb_spec l : nodupb l = true <-> NoDup l.
Proof. unfold nodupb. rewrite Nat.eqb_eq. apply ldedup_length_NoDup. Qed.
Lemma lleqb_spec l1 l2 : lleqb l1 l2 = true <-> l1 = l2.
Proof. revert l2. induction l1 as [|a l1 IH]; intros [|b l2]; simpl; try (split; congruence).
  rewrite andb_true_iff, IH. destruct (label_eqb_spec a b); split; try intros [? ?]; try congruence; try split; congruence. Qed.
Lemma olabel_eqb_spec a b : olabel_eqb a b = true <-> a = b.
Proof. destruct a as [x|], b as [y|]; simpl; try (split; congruence).
  destruct (label_eqb_spec x y); split; congruence. Qed.

(* dictionary lookup by string key (first match; the keys are shown duplicate-free below) *)
Fixpoint tlookup {X} (k : label) (t : list (label * X)) : option X :=
  match t with [] => None | (k', x) :: r => if label_eqb k' k then Some x else tlookup k r end.
Definition find_ctor (t : label) : option ctor := find (fun c => label_eqb (c_type c) t) component_ctors.
Definition ground_name : label := lbl "ground".

Lemma tlookup_In {X} k (t : list (label * X)) x : tlookup k t = Some x -> In (k, x) t.
Proof. induction t as [|[k' x'] t IH]; simpl; [discriminate|].
  destruct (label_eqb_spec k' k); [intros H; injection H as <-; subst; auto|auto]. Qed.
Lemma In_tlookup {X} k (t : list (label * X)) x : NoDup (map fst t) -> In (k, x) t -> tlookup k t = Some x.
Proof. induction t as [|[k' x'] t IH]; simpl; [tauto|]. intros ND H. inversion ND as [|? ? Hn ND']; subst.
  destruct (label_eqb_spec k' k) as [E|E].
  - destruct H as [H|H]; [congruence|]. exfalso. apply Hn. subst. apply (in_map fst) in H. exact H.
  - destruct H as [H|H]; [congruence|auto]. Qed.
Lemma find_ctor_In t c : find_ctor t = Some c -> In c component_ctors /\ c_type c = t.
Proof. unfold find_ctor. intros H. apply find_some in H. destruct H as [H1 H2].
  destruct (label_eqb_spec (c_type c) t); [auto|discriminate]. Qed.

Lemma all_kinds_complete k : In k all_kinds.
Proof. destruct k; simpl; tauto. Qed.
Lemma forall_kinds (p : ckind -> bool) : forallb p all_kinds = true -> forall k, p k = true.
Proof. intros H k. rewrite forallb_forall in H. apply H, all_kinds_complete. Qed.

(* ---- kinds ---- *)
Definition ctor_types : list label := map c_type component_ctors.
Definition kinds_check : bool :=
  seteqb ctor_types (map kind_name all_kinds) && nodupb ctor_types && nodupb (map kind_name all_kinds).
Lemma kinds_thm :
  (forall t, In t ctor_types <-> In t (map kind_name all_kinds)) /\ NoDup ctor_types /\ NoDup (map kind_name all_kinds).
Proof. assert (H : kinds_check = true) by (vm_compute; reflexivity).
  unfold kinds_check in H. rewrite !andb_true_iff in H. destruct H as [[H1 H2] H3].
  split; [apply seteqb_spec; exact H1|]. split; apply nodupb_spec; assumption. Qed.

(* ---- no constructible kind is skipped, no table key is unconstructible ---- *)
Definition table_keys : list label := map fst transformer_table.
Definition no_drop_check : bool :=
  forallb (fun t => label_eqb t ground_name || lmem t table_keys) ctor_types
  && forallb (fun t => lmem t ctor_types && negb (label_eqb t ground_name)) table_keys
  && nodupb table_keys.
Lemma no_drop_thm :
  (forall c, In c component_ctors -> c_type c <> ground_name -> In (c_type c) table_keys)
  /\ (forall t, In t table_keys -> In t ctor_types /\ t <> ground_name)
  /\ NoDup table_keys.
Proof. assert (H : no_drop_check = true) by (vm_compute; reflexivity).
  unfold no_drop_check in H. rewrite !andb_true_iff in H. destruct H as [[H1 H2] H3].
  rewrite forallb_forall in H1, H2. split; [|split; [|apply nodupb_spec; exact H3]].
  - intros c Hc Hg. specialize (H1 (c_type c) (in_map c_type _ _ Hc)). apply orb_true_iff in H1.
    destruct H1 as [H1|H1]; [destruct (label_eqb_spec (c_type c) ground_name); congruence|apply lmem_spec; exact H1].
  - intros t Ht. specialize (H2 t Ht). apply andb_true_iff in H2. destruct H2 as [A B]. split; [apply lmem_spec; exact A|].
    destruct (label_eqb_spec t ground_name); [discriminate|assumption]. Qed.

(* ---- dispatch ---- *)
Definition dispatch_check : bool :=
  forallb (fun k => olabel_eqb (tlookup (kind_name k) transformer_table) (translator_name k)) all_kinds.
Lemma dispatch_thm : forall k, tlookup (kind_name k) transformer_table = translator_name k.
Proof. assert (H : dispatch_check = true) by (vm_compute; reflexivity).
  intros k. apply olabel_eqb_spec. exact (forall_kinds _ H k). Qed.

(* ---- value keys ---- *)
Definition ctor_keys (c : ctor) : list label := map fst (c_values c).
Definition keys_written_check : bool :=
  forallb (fun k => match find_ctor (kind_name k) with Some c => lleqb (ctor_keys c) (keys_written k) | None => false end) all_kinds.
Lemma keys_written_thm : forall k, exists c, find_ctor (kind_name k) = Some c /\ ctor_keys c = keys_written k.
Proof. assert (H : keys_written_check = true) by (vm_compute; reflexivity).
  intros k. pose proof (forall_kinds _ H k) as Hk. cbv beta in Hk.
  destruct (find_ctor (kind_name k)) as [c|]; [|discriminate]. exists c. split; [reflexivity|apply lleqb_spec; exact Hk]. Qed.

Definition keys_read_check : bool :=
  forallb (fun k => match translator_name k with
                    | None => true
                    | Some f => match tlookup f translator_reads with Some ks => seteqb ks (keys_read k) | None => false end
                    end) all_kinds
  && nodupb (map fst translator_reads).
Lemma keys_read_thm : forall k f, translator_name k = Some f ->
  exists ks, tlookup f translator_reads = Some ks /\ (forall x, In x ks <-> In x (keys_read k)).
Proof. assert (H : keys_read_check = true) by (vm_compute; reflexivity).
  unfold keys_read_check in H. apply andb_true_iff in H. destruct H as [H _].
  intros k f Hf. pose proof (forall_kinds _ H k) as Hk. cbv beta in Hk. rewrite Hf in Hk.
  destruct (tlookup f translator_reads) as [ks|]; [|discriminate]. exists ks. split; [reflexivity|apply seteqb_spec; exact Hk]. Qed.
Lemma reads_keys_nodup : NoDup (map fst translator_reads).
Proof. apply nodupb_spec. vm_compute. reflexivity. Qed.

(* table-only statement: whatever function a type is dispatched to reads only keys the type's constructor writes,
   and that function's reads are known *)
Definition reads_subset_check : bool :=
  forallb (fun tf : label * label =>
    existsb (fun e : label * list label => label_eqb (fst e) (snd tf)) translator_reads
    && forallb (fun c => negb (label_eqb (c_type c) (fst tf))
                 || forallb (fun e : label * list label => negb (label_eqb (fst e) (snd tf)) || subsetb (snd e) (ctor_keys c))
                      translator_reads) component_ctors) transformer_table.
Lemma reads_subset_thm : forall t f, In (t, f) transformer_table ->
  (exists ks, In (f, ks) translator_reads)
  /\ (forall c ks, In c component_ctors -> c_type c = t -> In (f, ks) translator_reads -> forall x, In x ks -> In x (ctor_keys c)).
Proof. assert (H : reads_subset_check = true) by (vm_compute; reflexivity).
  unfold reads_subset_check in H. rewrite forallb_forall in H. intros t f Htf. specialize (H (t, f) Htf).
  apply andb_true_iff in H. destruct H as [H1 H2]. cbn [fst snd] in * . split.
  - apply existsb_exists in H1. destruct H1 as [[f' ks] [Hin E]]. cbn [fst] in E.
    destruct (label_eqb_spec f' f); [subst; exists ks; exact Hin|discriminate].
  - intros c ks Hc Et Hks. rewrite forallb_forall in H2. specialize (H2 c Hc). rewrite Et, label_eqb_refl in H2.
    cbn [negb orb] in H2. rewrite forallb_forall in H2. specialize (H2 (f, ks) Hks). cbn [fst snd] in H2.
    rewrite label_eqb_refl in H2. cbn [negb orb] in H2. apply subsetb_spec. exact H2. Qed.

(* ---- sign guards ---- *)
Definition guards_ok (k : ckind) : bool :=
  match find_ctor (kind_name k) with Some c => seteqb (c_guards c) (guarded k) | None => false end.
Definition guards_stmt (k : ckind) : Prop :=
  exists c, find_ctor (kind_name k) = Some c /\ (forall x, In x (c_guards c) <-> In x (guarded k)).
Lemma guards_ok_spec k : guards_ok k = true <-> guards_stmt k.
Proof. unfold guards_ok, guards_stmt. destruct (find_ctor (kind_name k)) as [c|]; split.
  - intros H. exists c. split; [reflexivity|apply seteqb_spec; exact H].
  - intros [c' [E H]]. injection E as <-. apply seteqb_spec. exact H.
  - discriminate.
  - intros [c' [E _]]. discriminate. Qed.
(* once the model's [guarded] is corrected, [C07_guards_full] is  guards_full_of_check (by vm_compute) *)
Lemma guards_full_of_check : forallb guards_ok all_kinds = true -> forall k, guards_stmt k.
Proof. intros H k. apply guards_ok_spec. exact (forall_kinds _ H k). Qed.
Lemma ckind_eqb_spec a b : ckind_eqb a b = true <-> a = b.
Proof. destruct a, b; simpl; split; congruence. Qed.
(* every constructor guards exactly the parameters the model says (periodic_current_source included since fix 3d..: before
   it the Python constructor had no guard at all and this statement was refuted) *)
Lemma guards_full_thm : forall k, guards_stmt k.
Proof. apply guards_full_of_check. vm_compute. reflexivity. Qed.
(* the two periodic constructors look their waveform up (UnknownWavetype at construction), no other constructor does *)
Definition wave_ok (k : ckind) : bool :=
  match find_ctor (kind_name k) with
  | Some c => Bool.eqb (c_checks_wavetype c) (ckind_eqb k KPerV || ckind_eqb k KPerI)
  | None => false end.
Lemma wave_checked_thm : forall k, exists c, find_ctor (kind_name k) = Some c /\
  (c_checks_wavetype c = true <-> (k = KPerV \/ k = KPerI)).
Proof. assert (H : forallb wave_ok all_kinds = true) by (vm_compute; reflexivity).
  intros k. pose proof (forall_kinds _ H k) as Hk. unfold wave_ok in Hk.
  destruct (find_ctor (kind_name k)) as [c|]; [|discriminate]. exists c. split; [reflexivity|].
  apply Bool.eqb_prop in Hk. rewrite Hk, orb_true_iff, !ckind_eqb_spec. reflexivity. Qed.

(* ====================================================================================================== *)
(* B0. the element law of a branch, read in the vocabulary of its constructor (generic field)              *)
(* ====================================================================================================== *)
Section ElemLaws.
Variable K : fops.
Hypothesis KOK : fops_ok K.
Add Field Kf7 : (Kth K KOK).
Notation "0" := (f0 K). Notation "1" := (f1 K).
Infix "+" := (fadd K). Infix "*" := (fmul K). Infix "-" := (fsub K). Notation "- x" := (fopp K x).
Infix "/" := (fdiv K).
Ltac feq x y := destruct (feqb_spec KOK x y).

Variable phi : label -> K.
Variable j : branch K -> K.
Variable b : branch K.

(* Thevenin-type element (fields Z, V): ideal source v = V when Z = 0, else  Z*j = V + v *)
Lemma law_ZV nm k z u : el b = ZV nm k z u ->
  (law phi j b <-> (z = 0 -> bvolt phi b = u) /\ (z <> 0 -> z * j b = u + bvolt phi b)).
Proof. intros E. unfold law. rewrite E. simpl. feq z 0; simpl.
  - split; [intros H; split; [auto|contradiction]|intros [H _]; auto].
  - split.
    + intros H. split; [contradiction|]. intros _. rewrite H. field. assumption.
    + intros [_ H]. specialize (H n). replace (j b) with ((z * j b) / z) by (field; assumption). rewrite H. field. assumption. Qed.

(* Norton-type element (fields Y, I):  j = I + Y*v *)
Lemma law_YI nm k y i0 : el b = YI nm k y i0 -> (law phi j b <-> j b = i0 + y * bvolt phi b).
Proof. intros E. unfold law. rewrite E. simpl. reflexivity. Qed.

Lemma law_passive_Z nm k z : el b = ZV nm k z 0 -> (law phi j b <-> bvolt phi b = z * j b).
Proof. intros E. rewrite (law_ZV _ _ _ _ E). split.
  - intros [H1 H2]. feq z 0; [rewrite (H1 e), e; ring|rewrite (H2 n); ring].
  - intros H. split; [intros e; rewrite H, e; ring|intros _; rewrite H; ring]. Qed.

Lemma law_passive_Y nm k y : el b = YI nm k y 0 -> (law phi j b <-> j b = y * bvolt phi b).
Proof. intros E. rewrite (law_YI _ _ _ _ E). split; intros H; rewrite H; ring. Qed.

Lemma law_short nm : el b = short_circuit nm -> (law phi j b <-> bvolt phi b = 0).
Proof. intros E. unfold short_circuit in E. rewrite (law_ZV _ _ _ _ E). split; [intros [H _]; auto|].
  intros H. split; [auto|]. intros N. exfalso. apply N. reflexivity. Qed.

Lemma law_open nm : el b = open_circuit nm -> (law phi j b <-> j b = 0).
Proof. intros E. unfold open_circuit in E. rewrite (law_YI _ _ _ _ E). split; intros H; rewrite H; ring. Qed.

End ElemLaws.

(* ====================================================================================================== *)
(* B. the component -> branch translation                                                                  *)
(* ====================================================================================================== *)
Lemma has_translator_false k : has_translator k = false <-> k = KGround.
Proof. unfold has_translator, translator_name. destruct k; split; congruence. Qed.

Lemma bind_ok {A B} (r : res A) (f : A -> res B) b : bind r f = Ok b -> exists a, r = Ok a /\ f a = Ok b.
Proof. destruct r as [a|e]; simpl; [eauto|discriminate]. Qed.

Lemma mapM_ok {A B} (f : A -> res B) l bs : mapM f l = Ok bs -> Forall2 (fun a b => f a = Ok b) l bs.
Proof. revert bs. induction l as [|a l IH]; simpl; intros bs H.
  - injection H as <-. constructor.
  - apply bind_ok in H. destruct H as [b [Hb H]]. apply bind_ok in H. destruct H as [bs' [Hbs H]].
    injection H as <-. constructor; auto. Qed.

Lemma mapM_total {A B} (f : A -> res B) l : (forall a, In a l -> exists b, f a = Ok b) ->
  exists bs, mapM f l = Ok bs /\ List.length bs = List.length l.
Proof. induction l as [|a l IH]; simpl; intros H; [exists []; auto|].
  destruct (H a (or_introl eq_refl)) as [b Hb]. destruct IH as [bs [Hbs HL]]; [intros; apply H; auto|].
  exists (b :: bs). rewrite Hb, Hbs. simpl. auto. Qed.

Lemma Forall2_length' {A B} (P : A -> B -> Prop) l l' : Forall2 P l l' -> List.length l = List.length l'.
Proof. induction 1; simpl; congruence. Qed.

(* boolean observation of a result, for concrete examples (keeps [vm_compute] away from the carrier types) *)
Definition okb {A} (r : res A) (p : A -> bool) : bool := match r with Ok a => p a | Err _ => false end.
Lemma okb_ex {A} (r : res A) p : okb r p = true -> exists a, r = Ok a /\ p a = true.
Proof. destruct r as [a|e]; simpl; [eauto|discriminate]. Qed.

Section CircThm.
Variable R : fops.
Hypothesis ROK : fops_ok R.
Hypothesis Rreal : forall x y : R, fadd R (fmul R x x) (fmul R y y) = f0 R -> x = f0 R /\ y = f0 R.
Variable leb : R -> R -> bool.
Variable rnd : R -> Z.
Variable ofZ : Z -> R.
Add Field Rf7 : (Kth R ROK).
Notation C := (Cx R).
Notation COK := (Cx_ok R ROK Rreal).
Notation comp := (comp R).
Notation cre := (cre R).
Notation cim := (cim R).
Notation rabs := (rabs R leb).
Notation translate := (translate R leb rnd ofZ).
Notation transform_circuit := (transform_circuit R leb rnd ofZ).
Notation ground_node := (ground_node R).
Notation is_ground := (is_ground R).
Notation "0" := (f0 C). Notation "1" := (f1 C).
Infix "+" := (fadd C). Infix "*" := (fmul C). Infix "-" := (fsub C). Notation "- x" := (fopp C x).
Notation "x -. y" := (fsub R x y) (at level 50, left associativity).
Notation "x *. y" := (fmul R x y) (at level 40, left associativity).
Notation "x /. y" := (fdiv R x y) (at level 40, left associativity).
Notation r0 := (f0 R).
Ltac leq a b := destruct (label_eqb_spec a b).

(* ---------- the property's vocabulary ---------- *)
(* the value stored under key [k] of the component's own dictionary *)
Definition hasv (c : comp) (k : string) (x : R) : Prop := vlook R (cvals c) (lbl k) = Some x.
Definition cj : C := (r0, f1 R).                         (* the imaginary unit *)
Definition cis (c : comp) : C := ccis c.                 (* exp(j*phi) of the component's own phase *)
Definition far (a b tol : R) : Prop := leb (rabs (a -. b)) tol = false.     (* |a - b| > tol *)
(* source laws; v = voltage first->second terminal, i = flow first->second terminal *)
Definition vsrc_law (V Z v i : C) : Prop := (Z = 0 -> v = V) /\ (Z <> 0 -> Z * i = V + v).
Definition vsrc_law_r (V : C) (r : R) (v i : C) : Prop := (r = r0 -> v = V) /\ (r <> r0 -> cre r * i = V + v).
Definition isrc_law (I Y v i : C) : Prop := i = I + Y * v.

Definition comp_law (c : comp) (w wres : R) (v i : C) : Prop :=
  match ck c with
  | KResistor => exists r, hasv c "R" r /\ v = cre r * i
  | KConductance => exists g, hasv c "G" g /\ i = cre g * v
  | KImpedance => exists r x, hasv c "R" r /\ hasv c "X" x /\ v = ((r, x) : C) * i
  | KAdmittance => exists g bb, hasv c "G" g /\ hasv c "B" bb /\ i = ((g, bb) : C) * v
  | KCapacitor => exists cv, hasv c "C" cv /\ i = cj * cre w * cre cv * v
  | KInductance => exists l, hasv c "L" l /\ v = cj * cre w * cre l * i
  | KLamp | KResLoad => exists p vr, hasv c "P" p /\ hasv c "V_ref" vr /\ i = cre (p /. (vr *. vr)) * v
  | KShort => v = 0
  | KDcV => exists V r ws, hasv c "V" V /\ hasv c "R" r /\ hasv c "w" ws /\
      (far w ws wres -> v = 0) /\ (~ far w ws wres -> vsrc_law_r (cre V) r v i)
  | KAcV => exists V r ws, hasv c "V" V /\ hasv c "R" r /\ hasv c "w" ws /\
      (far w ws wres -> v = 0) /\ (~ far w ws wres -> vsrc_law_r (cre V * cis c) r v i)
  | KCplxV => exists vr vi r x, hasv c "V_real" vr /\ hasv c "V_imag" vi /\ hasv c "R" r /\ hasv c "X" x /\
      vsrc_law (vr, vi) (r, x) v i
  | KPerV => exists w0, hasv c "w" w0 /\
      let n := rnd (w /. w0) in
      (far (w /. w0) (ofZ n) (wres /. w0) -> v = 0) /\
      (~ far (w /. w0) (ofZ n) (wres /. w0) ->
         exists a cs sn r, hlook R (charm c) n = Some (a, (cs, sn)) /\ hasv c "R" r /\
                           vsrc_law_r (cre a * ((cs, sn) : C)) r v i)
  | KDcI => exists I g ws, hasv c "I" I /\ hasv c "G" g /\ hasv c "w" ws /\
      (far w ws wres -> i = 0) /\ (~ far w ws wres -> isrc_law (cre I) (cre g) v i)
  | KAcI => exists I g ws, hasv c "I" I /\ hasv c "G" g /\ hasv c "w" ws /\
      (far w ws wres -> i = 0) /\ (~ far w ws wres -> isrc_law (cre I * cis c) (cre g) v i)
  | KCplxI => exists ir ii g bb, hasv c "I_real" ir /\ hasv c "I_imag" ii /\ hasv c "G" g /\ hasv c "B" bb /\
      isrc_law (ir, ii) (g, bb) v i
  | KPerI => exists w0, hasv c "w" w0 /\
      let n := rnd (w /. w0) in
      (far (w /. w0) (ofZ n) (wres /. w0) -> i = 0) /\
      (~ far (w /. w0) (ofZ n) (wres /. w0) ->
         exists a cs sn g, hlook R (charm c) n = Some (a, (cs, sn)) /\ hasv c "G" g /\
                           isrc_law (cre a * ((cs, sn) : C)) (cre g) v i)
  | KGround => False
  end.

(* ---------- inversion of the translators ---------- *)
Lemma vget_ok c k x : vget R c k = Ok x <-> hasv c k x.
Proof. unfold vget, hasv. destruct (vlook R (cvals c) (lbl k)); split; congruence. Qed.
Lemma hasv_fun c k x y : hasv c k x -> hasv c k y -> x = y.
Proof. unfold hasv. congruence. Qed.

Lemma mkbranch_ok c e b : mkbranch R c e = Ok b ->
  nth_error (cnodes c) 0 = Some (node1 b) /\ nth_error (cnodes c) 1 = Some (node2 b) /\ el b = e.
Proof. unfold mkbranch, node_at. destruct (nth_error (cnodes c) 0) as [a|]; [|discriminate]. cbn [bind].
  destruct (nth_error (cnodes c) 1) as [a'|]; [|discriminate]. cbn [bind]. intros H. injection H as <-. auto. Qed.

Ltac bstep H :=
  match type of H with
  | bind (vget _ ?c ?k) _ = Ok _ =>
      let x := fresh "x" in let E := fresh "E" in
      destruct (vget R c k) as [x|] eqn:E; [cbn [bind] in H; apply vget_ok in E|discriminate H]
  end.
Ltac unify_vals :=
  repeat match goal with
  | H : exists _, _ |- _ => let y := fresh "y" in destruct H as [y H]
  | H : _ /\ _ |- _ => let H' := fresh "H" in destruct H as [H' H]
  | H1 : hasv ?c ?k ?x, H2 : hasv ?c ?k ?y |- _ =>
      let E := fresh "E" in pose proof (hasv_fun c k x y H1 H2) as E; clear H2; subst y
  end.

Lemma cre_eq0 r : cre r = 0 <-> r = r0.
Proof. unfold Circuit.cre. split; [intros H; injection H; auto|intros ->; reflexivity]. Qed.
Lemma polar_eq x (cs : R * R) : polar R x cs = cre x * (cs : C).
Proof. destruct cs as [a b]. apply cx_eq; simpl; ring. Qed.
Lemma cim_eq w l : cim (w *. l) = cj * cre w * cre l.
Proof. apply cx_eq; simpl; ring. Qed.
Lemma load_eq p vr : vr <> r0 -> fdiv C (cre p) (cre vr * cre vr) = cre (p /. (vr *. vr)).
Proof. intros H. apply cx_eq; simpl; unfold cxnorm2; simpl; field; assumption. Qed.
Lemma vsrc_r_iff V r v i : ((cre r = 0 -> v = V) /\ (cre r <> 0 -> cre r * i = V + v)) <-> vsrc_law_r V r v i.
Proof. unfold vsrc_law_r. rewrite cre_eq0. reflexivity. Qed.
Lemma far_iff a b tol : off_frequency R leb a b tol = true <-> far a b tol.
Proof. unfold off_frequency, gtb, far. destruct (leb _ _); simpl; split; congruence. Qed.

Section Faithful.
Variable c : comp.
Variables w wres : R.
Variable b : branch C.
Variable phi : label -> C.
Variable j : branch C -> C.
Notation v := (bvolt phi b).
Notation i := (j b).

Lemma f_resistor : t_resistor R c = Ok b -> (law phi j b <-> exists r, hasv c "R" r /\ v = cre r * i).
Proof. unfold t_resistor. intros H. bstep H. apply mkbranch_ok in H. destruct H as (_ & _ & He). unfold resistor in He.
  rewrite (law_passive_Z C COK phi j b _ _ _ He). split; [intros L; exists x; auto|intros L; unify_vals; exact L]. Qed.

Lemma f_conductance : t_conductance R c = Ok b -> (law phi j b <-> exists g, hasv c "G" g /\ i = cre g * v).
Proof. unfold t_conductance. intros H. bstep H. apply mkbranch_ok in H. destruct H as (_ & _ & He). unfold conductor in He.
  rewrite (law_passive_Y C COK phi j b _ _ _ He). split; [intros L; exists x; auto|intros L; unify_vals; exact L]. Qed.

Lemma f_impedance : t_impedance R c = Ok b ->
  (law phi j b <-> exists r x, hasv c "R" r /\ hasv c "X" x /\ v = ((r, x) : C) * i).
Proof. unfold t_impedance. intros H. bstep H. bstep H. apply mkbranch_ok in H. destruct H as (_ & _ & He). unfold impedance in He.
  rewrite (law_passive_Z C COK phi j b _ _ _ He). split; [intros L; exists x, x0; auto|intros L; unify_vals; exact L]. Qed.

Lemma f_admittance : t_admittance R c = Ok b ->
  (law phi j b <-> exists g bb, hasv c "G" g /\ hasv c "B" bb /\ i = ((g, bb) : C) * v).
Proof. unfold t_admittance. intros H. bstep H. bstep H. apply mkbranch_ok in H. destruct H as (_ & _ & He). unfold admittance in He.
  rewrite (law_passive_Y C COK phi j b _ _ _ He). split; [intros L; exists x, x0; auto|intros L; unify_vals; exact L]. Qed.

Lemma f_capacitor : t_capacitor R c w = Ok b -> (law phi j b <-> exists cv, hasv c "C" cv /\ i = cj * cre w * cre cv * v).
Proof. unfold t_capacitor. intros H. bstep H. apply mkbranch_ok in H. destruct H as (_ & _ & He). unfold admittance in He.
  rewrite (law_passive_Y C COK phi j b _ _ _ He), cim_eq.
  split; [intros L; exists x; auto|intros L; unify_vals; exact L]. Qed.

Lemma f_inductance : t_inductance R c w = Ok b -> (law phi j b <-> exists l, hasv c "L" l /\ v = cj * cre w * cre l * i).
Proof. unfold t_inductance. intros H. bstep H. apply mkbranch_ok in H. destruct H as (_ & _ & He). unfold impedance in He.
  rewrite (law_passive_Z C COK phi j b _ _ _ He), cim_eq.
  split; [intros L; exists x; auto|intros L; unify_vals; exact L]. Qed.

Lemma f_load : t_resistive_load R leb c = Ok b ->
  (law phi j b <-> exists p vr, hasv c "P" p /\ hasv c "V_ref" vr /\ i = cre (p /. (vr *. vr)) * v).
Proof. unfold t_resistive_load. intros H. bstep H. bstep H.
  destruct (gtb R leb r0 x0) eqn:G1; [discriminate H|].
  destruct (feqb_spec ROK x0 r0) as [Z|NZ]; [discriminate H|].
  apply mkbranch_ok in H. destruct H as (_ & _ & He). unfold load_v in He.
  rewrite (law_passive_Y C COK phi j b _ _ _ He), (load_eq _ _ NZ).
  split; [intros L; exists x, x0; auto|intros L; unify_vals; exact L]. Qed.

Lemma f_short : t_short_circuit R c = Ok b -> (law phi j b <-> v = 0).
Proof. unfold t_short_circuit. intros H. apply mkbranch_ok in H. destruct H as (_ & _ & He).
  exact (law_short C COK phi j b _ He). Qed.

Lemma f_dcv : t_dc_voltage_source R leb c w wres = Ok b ->
  (law phi j b <-> exists V r ws, hasv c "V" V /\ hasv c "R" r /\ hasv c "w" ws /\
      (far w ws wres -> v = 0) /\ (~ far w ws wres -> vsrc_law_r (cre V) r v i)).
Proof. unfold t_dc_voltage_source. intros H. bstep H. bstep H. bstep H. apply mkbranch_ok in H. destruct H as (_ & _ & He).
  destruct (off_frequency R leb w x1 wres) eqn:G.
  - pose proof (proj1 (far_iff _ _ _) G) as F. rewrite (law_short C COK phi j b _ He).
    split; [intros L; exists x, x0, x1; repeat (split; [assumption|]); split; intros ?; [exact L|contradiction]|intros L; unify_vals; tauto].
  - assert (F : ~ far w x1 wres) by (rewrite <- far_iff, G; discriminate).
    unfold voltage_source in He. rewrite (law_ZV C COK phi j b _ _ _ _ He), vsrc_r_iff.
    split; [intros L; exists x, x0, x1; repeat (split; [assumption|]); split; intros ?; [contradiction|exact L]|intros L; unify_vals; tauto]. Qed.

Lemma f_acv : t_ac_voltage_source R leb c w wres = Ok b ->
  (law phi j b <-> exists V r ws, hasv c "V" V /\ hasv c "R" r /\ hasv c "w" ws /\
      (far w ws wres -> v = 0) /\ (~ far w ws wres -> vsrc_law_r (cre V * cis c) r v i)).
Proof. unfold t_ac_voltage_source. intros H. bstep H. bstep H. bstep H. bstep H. apply mkbranch_ok in H. destruct H as (_ & _ & He).
  destruct (off_frequency R leb w x2 wres) eqn:G.
  - pose proof (proj1 (far_iff _ _ _) G) as F. rewrite (law_short C COK phi j b _ He).
    split; [intros L; exists x, x1, x2; repeat (split; [assumption|]); split; intros ?; [exact L|contradiction]|intros L; unify_vals; tauto].
  - assert (F : ~ far w x2 wres) by (rewrite <- far_iff, G; discriminate).
    unfold voltage_source in He. rewrite polar_eq in He. fold (cis c) in He.
    rewrite (law_ZV C COK phi j b _ _ _ _ He), vsrc_r_iff.
    split; [intros L; exists x, x1, x2; repeat (split; [assumption|]); split; intros ?; [contradiction|exact L]|intros L; unify_vals; tauto]. Qed.

Lemma f_cplxv : t_complex_voltage_source R c = Ok b ->
  (law phi j b <-> exists vr vi r x, hasv c "V_real" vr /\ hasv c "V_imag" vi /\ hasv c "R" r /\ hasv c "X" x /\
      vsrc_law (vr, vi) (r, x) v i).
Proof. unfold t_complex_voltage_source. intros H. bstep H. bstep H. bstep H. bstep H.
  apply mkbranch_ok in H. destruct H as (_ & _ & He). unfold voltage_source in He.
  rewrite (law_ZV C COK phi j b _ _ _ _ He). fold (vsrc_law (x, x0) (x1, x2) v i).
  split; [intros L; exists x, x0, x1, x2; auto|intros L; unify_vals; exact L]. Qed.

Lemma f_dci : t_dc_current_source R leb c w wres = Ok b ->
  (law phi j b <-> exists I g ws, hasv c "I" I /\ hasv c "G" g /\ hasv c "w" ws /\
      (far w ws wres -> i = 0) /\ (~ far w ws wres -> isrc_law (cre I) (cre g) v i)).
Proof. unfold t_dc_current_source. intros H. bstep H. bstep H. bstep H. apply mkbranch_ok in H. destruct H as (_ & _ & He).
  destruct (off_frequency R leb w x1 wres) eqn:G.
  - pose proof (proj1 (far_iff _ _ _) G) as F. rewrite (law_open C COK phi j b _ He).
    split; [intros L; exists x, x0, x1; repeat (split; [assumption|]); split; intros ?; [exact L|contradiction]|intros L; unify_vals; tauto].
  - assert (F : ~ far w x1 wres) by (rewrite <- far_iff, G; discriminate).
    unfold current_source in He. rewrite (law_YI C phi j b _ _ _ _ He). fold (isrc_law (cre x) (cre x0) v i).
    split; [intros L; exists x, x0, x1; repeat (split; [assumption|]); split; intros ?; [contradiction|exact L]|intros L; unify_vals; tauto]. Qed.

Lemma f_aci : t_ac_current_source R leb c w wres = Ok b ->
  (law phi j b <-> exists I g ws, hasv c "I" I /\ hasv c "G" g /\ hasv c "w" ws /\
      (far w ws wres -> i = 0) /\ (~ far w ws wres -> isrc_law (cre I * cis c) (cre g) v i)).
Proof. unfold t_ac_current_source. intros H. bstep H. bstep H. bstep H. bstep H. apply mkbranch_ok in H. destruct H as (_ & _ & He).
  destruct (off_frequency R leb w x1 wres) eqn:G.
  - pose proof (proj1 (far_iff _ _ _) G) as F. rewrite (law_open C COK phi j b _ He).
    split; [intros L; exists x, x0, x1; repeat (split; [assumption|]); split; intros ?; [exact L|contradiction]|intros L; unify_vals; tauto].
  - assert (F : ~ far w x1 wres) by (rewrite <- far_iff, G; discriminate).
    unfold current_source in He. rewrite polar_eq in He. fold (cis c) in He.
    rewrite (law_YI C phi j b _ _ _ _ He). fold (isrc_law (cre x * cis c) (cre x0) v i).
    split; [intros L; exists x, x0, x1; repeat (split; [assumption|]); split; intros ?; [contradiction|exact L]|intros L; unify_vals; tauto]. Qed.

Lemma f_cplxi : t_complex_current_source R c = Ok b ->
  (law phi j b <-> exists ir ii g bb, hasv c "I_real" ir /\ hasv c "I_imag" ii /\ hasv c "G" g /\ hasv c "B" bb /\
      isrc_law (ir, ii) (g, bb) v i).
Proof. unfold t_complex_current_source. intros H. bstep H. bstep H. bstep H. bstep H.
  apply mkbranch_ok in H. destruct H as (_ & _ & He). unfold current_source in He.
  rewrite (law_YI C phi j b _ _ _ _ He). fold (isrc_law (x, x0) (x1, x2) v i).
  split; [intros L; exists x, x0, x1, x2; auto|intros L; unify_vals; exact L]. Qed.

(* periodic sources *)
Lemma harmonic_of_ok h : harmonic_of R leb rnd ofZ c w wres = Ok h ->
  exists w0, hasv c "w" w0 /\ w0 <> r0 /\ lmem (cwave c) wavetypes = true /\
    let n := rnd (w /. w0) in
    (far (w /. w0) (ofZ n) (wres /. w0) /\ h = None
     \/ ~ far (w /. w0) (ofZ n) (wres /. w0) /\ exists d, hlook R (charm c) n = Some d /\ h = Some d).
Proof. unfold harmonic_of. intros H. bstep H. exists x. split; [exact E|].
  destruct (lmem (cwave c) wavetypes) eqn:W; cbn [negb] in H; [|discriminate H].
  destruct (feqb_spec ROK x r0) as [Z|NZ]; [discriminate H|]. split; [exact NZ|]. split; [reflexivity|].
  cbv zeta in * . unfold gtb, far in * . destruct (leb (rabs (w /. x -. ofZ (rnd (w /. x)))) (wres /. x)) eqn:G; cbn [negb] in H.
  - right. split; [congruence|]. destruct (hlook R (charm c) (rnd (w /. x))) as [d|]; [|discriminate H].
    injection H as <-. exists d. auto.
  - left. split; [reflexivity|]. injection H as <-. reflexivity. Qed.

Lemma f_perv : t_periodic_voltage_source R leb rnd ofZ c w wres = Ok b ->
  (law phi j b <-> exists w0, hasv c "w" w0 /\
      let n := rnd (w /. w0) in
      (far (w /. w0) (ofZ n) (wres /. w0) -> v = 0) /\
      (~ far (w /. w0) (ofZ n) (wres /. w0) ->
         exists a cs sn r, hlook R (charm c) n = Some (a, (cs, sn)) /\ hasv c "R" r /\
                           vsrc_law_r (cre a * ((cs, sn) : C)) r v i)).
Proof. unfold t_periodic_voltage_source. intros H. bstep H. bstep H. bstep H.
  destruct (harmonic_of R leb rnd ofZ c w wres) as [h|] eqn:HH; [cbn [bind] in H|discriminate H].
  apply harmonic_of_ok in HH. destruct HH as (w0 & Hw0 & NZ & _ & HH). cbv zeta in HH. cbv zeta.
  destruct HH as [[F ->]|[F (d & Hd & ->)]].
  - apply mkbranch_ok in H. destruct H as (_ & _ & He). rewrite (law_short C COK phi j b _ He).
    split; [intros L; exists w0; split; [assumption|]; split; intros ?; [exact L|contradiction]|intros L; unify_vals; tauto].
  - destruct d as [a [cs sn]]. bstep H. apply mkbranch_ok in H. destruct H as (_ & _ & He).
    unfold voltage_source in He. rewrite polar_eq in He. rewrite (law_ZV C COK phi j b _ _ _ _ He), vsrc_r_iff.
    split.
    + intros L. exists w0. split; [exact Hw0|]. split; [contradiction|]. intros _. exists a, cs, sn, x2. auto.
    + intros (w0' & Hw0' & _ & L). pose proof (hasv_fun _ _ _ _ Hw0 Hw0'). subst w0'.
      destruct (L F) as (a' & cs' & sn' & r' & Hd' & Hr' & L'). rewrite Hd in Hd'. injection Hd' as <- <- <-.
      pose proof (hasv_fun _ _ _ _ E2 Hr'). subst r'. exact L'. Qed.

Lemma f_peri : t_periodic_current_source R leb rnd ofZ c w wres = Ok b ->
  (law phi j b <-> exists w0, hasv c "w" w0 /\
      let n := rnd (w /. w0) in
      (far (w /. w0) (ofZ n) (wres /. w0) -> i = 0) /\
      (~ far (w /. w0) (ofZ n) (wres /. w0) ->
         exists a cs sn g, hlook R (charm c) n = Some (a, (cs, sn)) /\ hasv c "G" g /\
                           isrc_law (cre a * ((cs, sn) : C)) (cre g) v i)).
Proof. unfold t_periodic_current_source. intros H. bstep H. bstep H. bstep H.
  destruct (harmonic_of R leb rnd ofZ c w wres) as [h|] eqn:HH; [cbn [bind] in H|discriminate H].
  apply harmonic_of_ok in HH. destruct HH as (w0 & Hw0 & NZ & _ & HH). cbv zeta in HH. cbv zeta.
  destruct HH as [[F ->]|[F (d & Hd & ->)]].
  - apply mkbranch_ok in H. destruct H as (_ & _ & He). rewrite (law_open C COK phi j b _ He).
    split; [intros L; exists w0; split; [assumption|]; split; intros ?; [exact L|contradiction]|intros L; unify_vals; tauto].
  - destruct d as [a [cs sn]]. bstep H. apply mkbranch_ok in H. destruct H as (_ & _ & He).
    unfold current_source in He. rewrite polar_eq in He. rewrite (law_YI C phi j b _ _ _ _ He).
    split.
    + intros L. exists w0. split; [exact Hw0|]. split; [contradiction|]. intros _. exists a, cs, sn, x2. auto.
    + intros (w0' & Hw0' & _ & L). pose proof (hasv_fun _ _ _ _ Hw0 Hw0'). subst w0'.
      destruct (L F) as (a' & cs' & sn' & g' & Hd' & Hg' & L'). rewrite Hd in Hd'. injection Hd' as <- <- <-.
      pose proof (hasv_fun _ _ _ _ E2 Hg'). subst g'. exact L'. Qed.

Theorem translate_faithful : translate c w wres = Ok b -> (law phi j b <-> comp_law c w wres v i).
Proof. unfold Circuit.translate, comp_law. destruct (ck c).
  - apply f_resistor. - apply f_conductance. - apply f_capacitor. - apply f_inductance.
  - apply f_impedance. - apply f_admittance.
  - apply f_dcv. - apply f_acv. - apply f_cplxv. - apply f_perv.
  - apply f_dci. - apply f_aci. - apply f_cplxi. - apply f_peri.
  - apply f_load. - apply f_load. - apply f_short. - discriminate. Qed.

End Faithful.

(* ---------- shape of the produced branch: identifier and terminals ---------- *)
Definition shape (c : comp) (b : branch C) : Prop :=
  bid b = cid c /\ nth_error (cnodes c) 0 = Some (node1 b) /\ nth_error (cnodes c) 1 = Some (node2 b).

Lemma translate_shape c w wres b : translate c w wres = Ok b -> shape c b.
Proof. unfold Circuit.translate. intros H.
  destruct (ck c); try discriminate H;
  unfold t_resistor, t_conductance, t_impedance, t_admittance, t_capacitor, t_inductance, t_dc_voltage_source,
    t_ac_voltage_source, t_complex_voltage_source, t_periodic_voltage_source, t_dc_current_source, t_ac_current_source,
    t_complex_current_source, t_periodic_current_source, t_resistive_load, t_short_circuit in H;
  repeat match type of H with
   | bind (vget _ _ _) _ = Ok _ => bstep H
   | bind ?r _ = Ok _ => let h := fresh "h" in destruct r as [h|]; [cbn [bind] in H|discriminate H]
   | (if ?t then Err _ else _) = Ok _ => destruct t; [discriminate H|]
   | match ?h with Some _ => _ | None => _ end = Ok _ => destruct h as [[? [? ?]]|]
   end;
  apply mkbranch_ok in H; destruct H as (H1 & H2 & He); unfold shape, bid; rewrite He; (split; [|split; assumption]);
  try match goal with |- context [if ?t then _ else _] => destruct t end; reflexivity. Qed.

Definition nonground (cs : list comp) : list comp := filter (fun c => has_translator (ck c)) cs.

Lemma nonground_In cs c : In c (nonground cs) <-> In c cs /\ ck c <> KGround.
Proof. unfold nonground. rewrite filter_In. rewrite <- has_translator_false.
  destruct (has_translator (ck c)); intuition congruence. Qed.

Lemma transform_ok cs w wres n : transform_circuit cs w wres = Ok n ->
  ground_node cs = Ok (zero n)
  /\ Forall2 (fun c b => translate c w wres = Ok b) (nonground cs) (branches n)
  /\ NoDup (map bid (branches n))
  /\ (branches n <> [] -> In (zero n) (map node1 (branches n) ++ map node2 (branches n))).
Proof. unfold Circuit.transform_circuit. intros H. apply bind_ok in H. destruct H as [g [Hg H]].
  apply bind_ok in H. destruct H as [bs [Hbs H]]. apply validate_ok in H. destruct H as [-> [ND Hz]].
  cbn [zero branches] in * . split; [exact Hg|]. split; [apply mapM_ok; exact Hbs|]. split; assumption. Qed.

Lemma Forall2_map_eq {A B X} (P : A -> B -> Prop) (f : A -> X) (g : B -> X) l l' :
  Forall2 P l l' -> (forall a b, P a b -> f a = g b) -> map f l = map g l'.
Proof. intros F H. induction F; simpl; [reflexivity|]. f_equal; auto. Qed.
Lemma Forall2_impl' {A B} (P Q : A -> B -> Prop) l l' : (forall a b, P a b -> Q a b) -> Forall2 P l l' -> Forall2 Q l l'.
Proof. intros H F. induction F; constructor; auto. Qed.
Lemma Forall2_In_l {A B} (P : A -> B -> Prop) l l' a : Forall2 P l l' -> In a l -> exists b, In b l' /\ P a b.
Proof. intros F. induction F as [|x y l l' Hxy F IH]; simpl; [tauto|]. intros [->|H]; [exists y; auto|].
  destruct (IH H) as [b' [H1 H2]]. exists b'. auto. Qed.
Lemma Forall2_In_r {A B} (P : A -> B -> Prop) l l' b : Forall2 P l l' -> In b l' -> exists a, In a l /\ P a b.
Proof. intros F. induction F as [|x y l l' Hxy F IH]; simpl; [tauto|]. intros [->|H]; [exists x; auto|].
  destruct (IH H) as [a' [H1 H2]]. exists a'. auto. Qed.

(* ---------- C07: one branch per non-ground component, same id, same order ---------- *)
Theorem one_each cs w wres n : transform_circuit cs w wres = Ok n ->
  map bid (branches n) = map cid (nonground cs)
  /\ List.length (branches n) = List.length (nonground cs)
  /\ NoDup (map cid (nonground cs))
  /\ (forall c, In c cs -> ck c <> KGround -> exists b, In b (branches n) /\ bid b = cid c)
  /\ (forall b, In b (branches n) -> exists c, In c cs /\ ck c <> KGround /\ cid c = bid b).
Proof. intros H. destruct (transform_ok _ _ _ _ H) as (_ & F & ND & _).
  assert (E : map bid (branches n) = map cid (nonground cs)).
  { symmetry. apply (Forall2_map_eq _ _ _ _ _ F). intros c b Hb. symmetry. exact (proj1 (translate_shape _ _ _ _ Hb)). }
  split; [exact E|]. split; [symmetry; exact (Forall2_length' _ _ _ F)|]. split; [rewrite <- E; exact ND|]. split.
  - intros c Hc Hk. destruct (Forall2_In_l _ _ _ c F) as [b [Hb Hcb]]; [apply nonground_In; auto|].
    exists b. split; [exact Hb|exact (proj1 (translate_shape _ _ _ _ Hcb))].
  - intros b Hb. destruct (Forall2_In_r _ _ _ b F Hb) as [c [Hc Hcb]]. apply nonground_In in Hc. destruct Hc as [Hc Hk].
    exists c. split; [exact Hc|]. split; [exact Hk|]. symmetry. exact (proj1 (translate_shape _ _ _ _ Hcb)). Qed.

Theorem terminals cs w wres n : transform_circuit cs w wres = Ok n ->
  Forall2 (fun c b => nth_error (cnodes c) 0 = Some (node1 b) /\ nth_error (cnodes c) 1 = Some (node2 b))
          (nonground cs) (branches n).
Proof. intros H. destruct (transform_ok _ _ _ _ H) as (_ & F & _). revert F. apply Forall2_impl'.
  intros c b Hb. exact (proj2 (translate_shape _ _ _ _ Hb)). Qed.

(* every branch is the translation of the component at the same position — never of another one *)
Theorem each_translated cs w wres n : transform_circuit cs w wres = Ok n ->
  Forall2 (fun c b => translate c w wres = Ok b) (nonground cs) (branches n).
Proof. intros H. exact (proj1 (proj2 (transform_ok _ _ _ _ H))). Qed.

(* ---------- C07: the reference node ---------- *)
Lemma is_ground_iff (c : comp) : is_ground c = true <-> ck c = KGround.
Proof. unfold Circuit.is_ground. apply ckind_eqb_spec. Qed.

Lemma first_node_ok (c : comp) g : first_node R c = Ok g <-> nth_error (cnodes c) 0 = Some g.
Proof. unfold first_node, node_at. destruct (nth_error (cnodes c) 0); split; congruence. Qed.

Lemma first_node_total (c : comp) : cnodes c <> [] -> exists g, first_node R c = Ok g.
Proof. unfold first_node, node_at. destruct (cnodes c) as [|a r]; [congruence|]. intros _. exists a. reflexivity. Qed.

Lemma ids_nodup_iff (cs : list comp) :
  Nat.eqb (List.length (ldedup (map cid cs))) (List.length cs) = true <-> NoDup (map cid cs).
Proof. rewrite Nat.eqb_eq. rewrite <- (map_length cid cs). apply ldedup_length_NoDup. Qed.

Lemma ground_node_ok cs g : ground_node cs = Ok g ->
  match cs with
  | [] => g = []
  | c0 :: _ =>
      NoDup (map cid cs)
      /\ match filter is_ground cs with
         | [] => nth_error (cnodes c0) 0 = Some g
         | [gc] => nth_error (cnodes gc) 0 = Some g
         | _ => False
         end
  end.
Proof. unfold Circuit.ground_node. destruct cs as [|c0 rest]; [intros H; injection H as <-; reflexivity|].
  set (cs := c0 :: rest). intros H. apply bind_ok in H. destruct H as [gnodes [Hg H]].
  pose proof (mapM_ok _ _ _ Hg) as F. pose proof (Forall2_length' _ _ _ F) as HL.
  destruct (Nat.ltb 1 (List.length gnodes)) eqn:L1; [discriminate H|]. apply Nat.ltb_ge in L1.
  apply bind_ok in H. destruct H as [g' [Hg' H]].
  destruct (Nat.eqb (List.length (ldedup (map cid cs))) (List.length cs)) eqn:D; cbn [negb] in H; [|discriminate H].
  injection H as <-. split; [apply ids_nodup_iff; exact D|].
  destruct F as [|gc g1 gs gn Hgc F'].
  - apply first_node_ok. exact Hg'.
  - destruct F' as [|gc2 g2 gs' gn' _ _]; [|simpl in L1; lia]. injection Hg' as <-. apply first_node_ok. exact Hgc. Qed.

Theorem ground_thm cs w wres n : transform_circuit cs w wres = Ok n ->
  ground_node cs = Ok (zero n)
  /\ NoDup (map cid cs)
  /\ List.length (filter is_ground cs) <= 1
  /\ (forall gc, In gc cs -> ck gc = KGround -> nth_error (cnodes gc) 0 = Some (zero n))
  /\ ((forall c, In c cs -> ck c <> KGround) ->
      match cs with [] => zero n = [] | c0 :: _ => nth_error (cnodes c0) 0 = Some (zero n) end).
Proof. intros H. destruct (transform_ok _ _ _ _ H) as (Hg & _). split; [exact Hg|].
  apply ground_node_ok in Hg. destruct cs as [|c0 rest].
  - split; [constructor|]. split; [simpl; lia|]. split; [intros gc []|]. intros _. exact Hg.
  - destruct Hg as [ND Hg]. split; [exact ND|]. set (cs := c0 :: rest) in * .
    assert (Hf : forall gc, In gc cs -> ck gc = KGround -> In gc (filter is_ground cs)).
    { intros gc Hin Hk. apply filter_In. split; [exact Hin|apply is_ground_iff; exact Hk]. }
    destruct (filter is_ground cs) as [|g1 [|g2 gs]] eqn:Ef; [| |contradiction].
    + split; [simpl; lia|]. split; [intros gc Hin Hk; destruct (Hf gc Hin Hk)|]. intros _. exact Hg.
    + split; [simpl; lia|]. split.
      * intros gc Hin Hk. destruct (Hf gc Hin Hk) as [<-|[]]. exact Hg.
      * intros Hno. exfalso. assert (Hin : In g1 (filter is_ground cs)) by (rewrite Ef; left; reflexivity).
        apply filter_In in Hin. destruct Hin as [Hin Hk]. apply is_ground_iff in Hk. exact (Hno g1 Hin Hk). Qed.

Theorem multiple_ground cs w wres : 1 < List.length (filter is_ground cs) ->
  (forall n, transform_circuit cs w wres <> Ok n)
  /\ ((forall c, In c cs -> ck c = KGround -> cnodes c <> []) -> transform_circuit cs w wres = Err EMultipleGround).
Proof. intros HL. split.
  - intros n H. destruct (ground_thm _ _ _ _ H) as (_ & _ & H1 & _). lia.
  - intros Hn. unfold Circuit.transform_circuit, Circuit.ground_node. destruct cs as [|c0 rest]; [simpl in HL; lia|].
    set (cs := c0 :: rest) in * .
    destruct (mapM_total (first_node R) (filter is_ground cs)) as [gn [Hgn HLn]].
    { intros a Ha. apply filter_In in Ha. destruct Ha as [Ha Hk]. apply first_node_total, Hn; [exact Ha|apply is_ground_iff; exact Hk]. }
    rewrite Hgn. cbn [bind]. rewrite HLn. apply Nat.ltb_lt in HL. rewrite HL. reflexivity. Qed.

Theorem duplicate_ids cs w wres : ~ NoDup (map cid cs) ->
  (forall n, transform_circuit cs w wres <> Ok n)
  /\ (List.length (filter is_ground cs) <= 1 -> (forall c, In c cs -> cnodes c <> []) ->
      transform_circuit cs w wres = Err EAmbiguousComponent).
Proof. intros HD. split.
  - intros n H. destruct (ground_thm _ _ _ _ H) as (_ & ND & _). contradiction.
  - intros HL Hn. unfold Circuit.transform_circuit, Circuit.ground_node. destruct cs as [|c0 rest]; [exfalso; apply HD; constructor|].
    set (cs := c0 :: rest) in * .
    destruct (mapM_total (first_node R) (filter is_ground cs)) as [gn [Hgn HLn]].
    { intros a Ha. apply filter_In in Ha. destruct Ha as [Ha Hk]. apply first_node_total, Hn. exact Ha. }
    rewrite Hgn. cbn [bind]. rewrite HLn. apply Nat.ltb_ge in HL. rewrite HL.
    assert (Hg : exists g, match gn with [] => first_node R c0 | g :: _ => Ok g end = Ok g).
    { destruct gn as [|g ?]; [apply first_node_total, Hn; left; reflexivity|exists g; reflexivity]. }
    destruct Hg as [g Hg]. rewrite Hg. cbn [bind].
    destruct (Nat.eqb (List.length (ldedup (map cid cs))) (List.length cs)) eqn:D; [|reflexivity].
    apply ids_nodup_iff in D. contradiction. Qed.


(* ====================================================================================================== *)
(* C. the single-frequency (phasor) analysis                                                               *)
(* ====================================================================================================== *)
Definition nd (c : comp) (k : nat) : label := nth k (cnodes c) [].
Definition cvolt (phi : label -> C) (c : comp) : C := phi (nd c 0) - phi (nd c 1).
(* net flow leaving [node] through the non-ground components; flows are indexed by component id *)
Definition ckcl (cs : list comp) (ji : label -> C) (node : label) : C :=
  sumF (fun c => (if label_eqb (nd c 0) node then ji (cid c) else 0) - (if label_eqb (nd c 1) node then ji (cid c) else 0))
       (nonground cs).

Definition PhasorSpec (cs : list comp) (w wres : R) (phi : label -> C) (ji : label -> C) : Prop :=
  (exists g, ground_node cs = Ok g /\ phi g = 0)
  /\ (forall node, ckcl cs ji node = 0)
  /\ (forall c, In c cs -> ck c <> KGround -> comp_law c w wres (cvolt phi c) (ji (cid c))).

Lemma shape_nd c b : shape c b -> bid b = cid c /\ node1 b = nd c 0 /\ node2 b = nd c 1.
Proof. intros (H0 & H1 & H2). unfold nd. rewrite (nth_error_nth _ _ _ H1), (nth_error_nth _ _ _ H2). auto. Qed.

Lemma Forall2_forall_iff {A B} (P : A -> B -> Prop) (Q : A -> Prop) (Q' : B -> Prop) l l' :
  Forall2 P l l' -> (forall a b, P a b -> (Q a <-> Q' b)) -> ((forall a, In a l -> Q a) <-> (forall b, In b l' -> Q' b)).
Proof. intros F H. split.
  - intros HQ b Hb. destruct (Forall2_In_r _ _ _ b F Hb) as [a [Ha Pab]]. apply (H a b Pab), HQ, Ha.
  - intros HQ a Ha. destruct (Forall2_In_l _ _ _ a F Ha) as [b [Hb Pab]]. apply (H a b Pab), HQ, Hb. Qed.

Lemma kcl_match (l : list comp) (l' : list (branch C)) (ji : label -> C) node :
  Forall2 (fun c b => bid b = cid c /\ node1 b = nd c 0 /\ node2 b = nd c 1) l l' ->
  kcl_sum l' (fun b => ji (bid b)) node
  = sumF (fun c => (if label_eqb (nd c 0) node then ji (cid c) else 0) - (if label_eqb (nd c 1) node then ji (cid c) else 0)) l.
Proof. unfold kcl_sum. induction 1 as [|c b l l' (E0 & E1 & E2) _ IH]; cbn [sumF]; [reflexivity|].
  rewrite IH, E0, E1, E2. reflexivity. Qed.

Theorem phasor_iff cs w wres n phi ji : transform_circuit cs w wres = Ok n ->
  (CircuitSpec n phi (fun b => ji (bid b)) <-> PhasorSpec cs w wres phi ji).
Proof. intros H. destruct (transform_ok _ _ _ _ H) as (Hg & F & _ & _).
  assert (FS : Forall2 (fun c b => translate c w wres = Ok b /\ bid b = cid c /\ node1 b = nd c 0 /\ node2 b = nd c 1)
                       (nonground cs) (branches n)).
  { revert F. apply Forall2_impl'. intros c b Hb. split; [exact Hb|]. apply shape_nd. exact (translate_shape _ _ _ _ Hb). }
  assert (Hk : forall node, kcl_sum (branches n) (fun b => ji (bid b)) node = ckcl cs ji node).
  { intros node. unfold ckcl. apply kcl_match. revert FS. apply Forall2_impl'. tauto. }
  assert (Hl : (forall b, In b (branches n) -> law phi (fun b => ji (bid b)) b)
               <-> (forall c, In c (nonground cs) -> comp_law c w wres (cvolt phi c) (ji (cid c)))).
  { symmetry. apply (Forall2_forall_iff _ _ _ _ _ FS). intros c b (Hb & E0 & E1 & E2).
    rewrite (translate_faithful c w wres b phi (fun b => ji (bid b)) Hb). unfold bvolt, cvolt. rewrite E0, E1, E2. reflexivity. }
  unfold CircuitSpec, PhasorSpec. split.
  - intros (Z & KC & L). split; [exists (zero n); auto|]. split; [intros node; rewrite <- Hk; apply KC|].
    intros c Hc Hkd. apply (proj1 Hl L). apply nonground_In. auto.
  - intros ((g & Hg' & Z) & KC & L). rewrite Hg in Hg'. injection Hg' as <-. split; [exact Z|].
    split; [intros node; rewrite Hk; apply KC|]. apply (proj2 Hl). intros c Hc. apply nonground_In in Hc. apply L; tauto. Qed.

(* ---------- what ComplexSolution reports ---------- *)
Notation complex_solution := (complex_solution R leb rnd ofZ).

Definition flow_by_id (n : network C) (x : list C) (id : label) : C :=
  match get_branch (branches n) id with Some b => flow_of n x b | None => 0 end.

Lemma CircuitSpec_ext (n : network C) phi j j' : (forall b, In b (branches n) -> j b = j' b) ->
  CircuitSpec n phi j -> CircuitSpec n phi j'.
Proof. intros E (Z & KC & L). split; [exact Z|]. split.
  - intros node. rewrite <- (KC node). unfold kcl_sum. apply sumF_ext_in. intros b Hb. rewrite (E b Hb). reflexivity.
  - intros b Hb. specialize (L b Hb). unfold law in * . rewrite <- (E b Hb). exact L. Qed.

Definition distinct_terminals (cs : list comp) : Prop := forall c, In c cs -> ck c <> KGround -> nd c 0 <> nd c 1.

Definition distinct_terminalsb (cs : list comp) : bool :=
  forallb (fun c => negb (has_translator (ck c)) || negb (label_eqb (nd c 0) (nd c 1))) cs.
Lemma distinct_terminalsb_ok cs : distinct_terminalsb cs = true -> distinct_terminals cs.
Proof. unfold distinct_terminalsb, distinct_terminals. rewrite forallb_forall. intros H c Hc Hk. specialize (H c Hc).
  apply orb_true_iff in H. destruct H as [H|H].
  - apply negb_true_iff, has_translator_false in H. contradiction.
  - apply negb_true_iff in H. leq (nd c 0) (nd c 1); [discriminate|assumption]. Qed.

Lemma complex_solution_ok cs w wres peak s : complex_solution cs w wres peak = Ok s ->
  exists n, transform_circuit cs w wres = Ok n /\ solve_network n = Ok (cs_sol s) /\ cs_peak s = peak.
Proof. unfold Circuit.complex_solution. intros H. apply bind_ok in H. destruct H as [n [Hn H]].
  apply bind_ok in H. destruct H as [s0 [Hs H]]. injection H as <-. exists n. auto. Qed.

Lemma noloop_of cs w wres n : transform_circuit cs w wres = Ok n -> distinct_terminals cs ->
  forall b, In b (branches n) -> node1 b <> node2 b.
Proof. intros H D b Hb. destruct (transform_ok _ _ _ _ H) as (_ & F & _).
  destruct (Forall2_In_r _ _ _ b F Hb) as [c [Hc Hcb]]. apply nonground_In in Hc.
  destruct (shape_nd _ _ (translate_shape _ _ _ _ Hcb)) as (_ & -> & ->). apply D; tauto. Qed.

Theorem phasor_solution cs w wres peak s : complex_solution cs w wres peak = Ok s -> distinct_terminals cs ->
  let n := s_net (cs_sol s) in let x := s_x (cs_sol s) in
  transform_circuit cs w wres = Ok n
  /\ wf n /\ WellPosed n
  /\ PhasorSpec cs w wres (phi_of n x) (flow_by_id n x)
  /\ (forall phi' ji', PhasorSpec cs w wres phi' ji' ->
        (forall l, In l (node_labels n) -> phi' l = phi_of n x l)
        /\ (forall c, In c cs -> ck c <> KGround -> ji' (cid c) = flow_by_id n x (cid c))).
Proof. intros H D. destruct (complex_solution_ok _ _ _ _ _ H) as (n0 & Hn & Hs & _).
  pose proof (noloop_of _ _ _ _ Hn D) as NL.
  destruct (solve_network_sound C COK n0 NL _ Hs) as (En & WF & S). cbv zeta. rewrite En.
  pose proof (solved_wellposed C COK n0 WF _ Hs) as WP.
  pose proof (mna_sound C COK n0 WF _ S) as CS.
  assert (Ej : forall b, In b (branches n0) -> flow_of n0 (s_x (cs_sol s)) b = flow_by_id n0 (s_x (cs_sol s)) (bid b)).
  { intros b Hb. unfold flow_by_id. rewrite (get_branch_In C _ _ (proj1 WF) Hb). reflexivity. }
  split; [exact Hn|]. split; [exact WF|]. split; [exact WP|]. split.
  - apply (phasor_iff _ _ _ _ _ _ Hn). exact (CircuitSpec_ext _ _ _ _ Ej CS).
  - intros phi' ji' PS. apply (phasor_iff _ _ _ _ _ _ Hn) in PS.
    destruct (proj2 WP _ _ _ _ PS CS) as [Ap Aj]. split; [exact Ap|].
    intros c Hc Hk. destruct (transform_ok _ _ _ _ Hn) as (_ & F & _).
    destruct (Forall2_In_l _ _ _ c F) as [b [Hb Hcb]]; [apply nonground_In; auto|].
    pose proof (proj1 (translate_shape _ _ _ _ Hcb)) as Eid. rewrite <- Eid. rewrite (Aj b Hb). apply Ej, Hb. Qed.

(* uniqueness under the hypothesis [WellPosed] alone (as the property is worded; [phasor_solution] shows that a
   successful solve already implies it) *)
Theorem phasor_unique cs w wres n phi ji phi' ji' : transform_circuit cs w wres = Ok n -> WellPosed n ->
  PhasorSpec cs w wres phi ji -> PhasorSpec cs w wres phi' ji' ->
  (forall l, In l (node_labels n) -> phi l = phi' l) /\ (forall c, In c cs -> ck c <> KGround -> ji (cid c) = ji' (cid c)).
Proof. intros Hn WP P1 P2. apply (phasor_iff _ _ _ _ _ _ Hn) in P1. apply (phasor_iff _ _ _ _ _ _ Hn) in P2.
  destruct (proj2 WP _ _ _ _ P1 P2) as [Ap Aj]. split; [exact Ap|].
  intros c Hc Hk. destruct (transform_ok _ _ _ _ Hn) as (_ & F & _).
  destruct (Forall2_In_l _ _ _ c F) as [b [Hb Hcb]]; [apply nonground_In; auto|].
  pose proof (proj1 (translate_shape _ _ _ _ Hcb)) as Eid. rewrite <- Eid. exact (Aj b Hb). Qed.

Variable sqrt2 : R.
Notation unpeak := (unpeak R sqrt2).
Notation c_potential := (c_potential R sqrt2).
Notation c_voltage := (c_voltage R sqrt2).
Notation c_current := (c_current R sqrt2).
Notation c_power := (c_power R sqrt2).

Theorem phasor_reported cs w wres peak s : complex_solution cs w wres peak = Ok s -> distinct_terminals cs ->
  let n := s_net (cs_sol s) in let x := s_x (cs_sol s) in
  let phi := phi_of n x in let ji := flow_by_id n x in
  (forall l, In l (node_labels n) -> c_potential s l = Ok (unpeak s (phi l)))
  /\ (forall c, In c cs -> ck c <> KGround ->
        exists b, In b (branches n) /\ translate c w wres = Ok b
          /\ c_voltage s (cid c) = Ok (unpeak s (cvolt phi c))
          /\ c_current s (cid c) = Ok (unpeak s (if is_linear_source (el b) then - ji (cid c) else ji (cid c)))).
Proof. intros H D. destruct (complex_solution_ok _ _ _ _ _ H) as (n0 & Hn & Hs & _).
  pose proof (noloop_of _ _ _ _ Hn D) as NL.
  destruct (solve_network_sound C COK n0 NL _ Hs) as (En & WF & S). cbv zeta.
  unfold Circuit.c_potential, Circuit.c_voltage, Circuit.c_current.
  destruct s as [[n x] pk]. cbn [cs_sol s_net s_x] in * . subst n. split.
  - intros l Hl. rewrite (api_potential C n0 x l); [reflexivity|].
    leq l (zero n0); [left; assumption|right]. unfold node_index. apply filter_In. split; [apply lsort_In; exact Hl|].
    leq l (zero n0); [contradiction|reflexivity].
  - intros c Hc Hk. destruct (transform_ok _ _ _ _ Hn) as (_ & F & _).
    destruct (Forall2_In_l _ _ _ c F) as [b [Hb Hcb]]; [apply nonground_In; auto|].
    destruct (shape_nd _ _ (translate_shape _ _ _ _ Hcb)) as (Eid & E1 & E2).
    exists b. split; [exact Hb|]. split; [exact Hcb|]. rewrite <- Eid.
    rewrite (api_voltage C n0 WF x b Hb), (api_current C COK n0 WF x b Hb). cbn [bind].
    unfold bvolt, cvolt. rewrite E1, E2. split; [reflexivity|]. unfold reported, flow_by_id.
    rewrite (get_branch_In C _ _ (proj1 WF) Hb). reflexivity. Qed.

(* ---------- RMS ---------- *)
Lemma unpeak_peak s x : cs_peak s = true -> unpeak s x = x.
Proof. unfold Circuit.unpeak. intros ->. reflexivity. Qed.
Lemma unpeak_rms s x : cs_peak s = false -> unpeak s x = fdiv C x (cre sqrt2).
Proof. unfold Circuit.unpeak. intros ->. reflexivity. Qed.

Definition map_res {A B} (f : A -> B) (r : res A) : res B := match r with Ok a => Ok (f a) | Err e => Err e end.

Lemma complex_solution_rms cs w wres :
  complex_solution cs w wres false
  = map_res (fun s => {| cs_sol := cs_sol s; cs_peak := false |}) (complex_solution cs w wres true).
Proof. unfold Circuit.complex_solution. destruct (transform_circuit cs w wres) as [n|e]; [|reflexivity]. cbn [bind].
  destruct (solve_network n) as [s|e]; reflexivity. Qed.

Section Rms.
Variables sp sr : csol R.
Hypothesis same : cs_sol sr = cs_sol sp.
Hypothesis Hp : cs_peak sp = true.
Hypothesis Hr : cs_peak sr = false.
Notation scale := (fun x : C => fdiv C x (cre sqrt2)).

Lemma rms_potential l : c_potential sr l = map_res scale (c_potential sp l).
Proof. unfold Circuit.c_potential. rewrite same. destruct (get_potential (cs_sol sp) l); [|reflexivity]. cbn [bind map_res].
  rewrite (unpeak_peak sp _ Hp), (unpeak_rms sr _ Hr). reflexivity. Qed.
Lemma rms_voltage id : c_voltage sr id = map_res scale (c_voltage sp id).
Proof. unfold Circuit.c_voltage. rewrite same. destruct (get_voltage (cs_sol sp) id); [|reflexivity]. cbn [bind map_res].
  rewrite (unpeak_peak sp _ Hp), (unpeak_rms sr _ Hr). reflexivity. Qed.
Lemma rms_current id : c_current sr id = map_res scale (c_current sp id).
Proof. unfold Circuit.c_current. rewrite same. destruct (get_current (cs_sol sp) id); [|reflexivity]. cbn [bind map_res].
  rewrite (unpeak_peak sp _ Hp), (unpeak_rms sr _ Hr). reflexivity. Qed.

Lemma two_nz : fadd R (f1 R) (f1 R) <> r0.
Proof. intros E. replace (fadd R (f1 R) (f1 R)) with (fadd R (f1 R *. f1 R) (f1 R *. f1 R)) in E by ring.
  apply Rreal in E. exact (f1_neq_0 ROK (proj1 E)). Qed.

Lemma rms_power id : sqrt2 *. sqrt2 = fadd R (f1 R) (f1 R) -> c_power sr id = c_power sp id.
Proof. intros S2. unfold Circuit.c_power. rewrite (rms_voltage id), (rms_current id).
  destruct (c_voltage sp id) as [v|e]; [|reflexivity]. cbn [map_res bind].
  destruct (c_current sp id) as [i|e]; [|reflexivity]. cbn [map_res bind]. rewrite Hp, Hr. f_equal.
  assert (NZ : sqrt2 <> r0). { intros Z. rewrite Z in S2. apply two_nz. rewrite <- S2. ring. }
  pose proof two_nz as T.
  set (t := f1 R /. sqrt2).
  assert (Ht : t *. t = half R). { unfold t, half. rewrite <- S2. field. exact NZ. }
  assert (Ed : forall z : C, fdiv C z (cre sqrt2) = cre t * z).
  { intros [a b]. unfold t. apply cx_eq; simpl; unfold cxnorm2; simpl; field; exact NZ. }
  rewrite !Ed. rewrite <- Ht. destruct v as [v1 v2], i as [i1 i2]. apply cx_eq; simpl; ring. Qed.
(* without assuming that [sqrt2] squares to 2 (it cannot in the rationals): RMS power = peak power * 2/sqrt2^2 *)
Lemma rms_power_gen id : sqrt2 <> r0 ->
  c_power sr id = map_res (fun p : C => cre (fadd R (f1 R) (f1 R) /. (sqrt2 *. sqrt2)) * p) (c_power sp id).
Proof. intros NZ. unfold Circuit.c_power. rewrite (rms_voltage id), (rms_current id).
  destruct (c_voltage sp id) as [v|e]; [|reflexivity]. cbn [map_res bind].
  destruct (c_current sp id) as [i|e]; [|reflexivity]. cbn [map_res bind]. rewrite Hp, Hr. cbn [map_res]. f_equal.
  pose proof two_nz as T.
  set (t := f1 R /. sqrt2). set (k := fadd R (f1 R) (f1 R) /. (sqrt2 *. sqrt2)).
  assert (Ht : t *. t = k *. half R). { unfold t, k, half. field. split; assumption. }
  assert (Ed : forall z : C, fdiv C z (cre sqrt2) = cre t * z).
  { intros [a b]. unfold t. apply cx_eq; simpl; unfold cxnorm2; simpl; field; exact NZ. }
  rewrite !Ed.
  assert (E1 : cre t * v * fconj C (cre t * i) = cre (t *. t) * (v * fconj C i)).
  { destruct v as [v1 v2], i as [i1 i2]. apply cx_eq; simpl; ring. }
  assert (E2 : cre k * (cre (half R) * v * fconj C i) = cre (k *. half R) * (v * fconj C i)).
  { destruct v as [v1 v2], i as [i1 i2]. apply cx_eq; simpl; ring. }
  rewrite E1, E2, Ht. reflexivity. Qed.
End Rms.

(* ---------- DC ---------- *)
Notation dc_solution := (dc_solution R leb rnd ofZ).
Lemma dc_is_w0 cs wres : dc_solution cs wres = map_res (@cs_sol R) (complex_solution cs r0 wres true).
Proof. unfold Circuit.dc_solution, Circuit.complex_solution. destruct (transform_circuit cs r0 wres) as [n|e]; [|reflexivity].
  cbn [bind]. destruct (solve_network n) as [s|e]; reflexivity. Qed.

Lemma dc_potential_re s l : dc_potential R s l = map_res fst (c_potential {| cs_sol := s; cs_peak := true |} l).
Proof. unfold dc_potential, Circuit.c_potential. cbn [cs_sol]. destruct (get_potential s l); reflexivity. Qed.
Lemma dc_voltage_re s id : dc_voltage R s id = map_res fst (c_voltage {| cs_sol := s; cs_peak := true |} id).
Proof. unfold dc_voltage, Circuit.c_voltage. cbn [cs_sol]. destruct (get_voltage s id); reflexivity. Qed.
Lemma dc_current_re s id : dc_current R s id = map_res fst (c_current {| cs_sol := s; cs_peak := true |} id).
Proof. unfold dc_current, Circuit.c_current. cbn [cs_sol]. destruct (get_current s id); reflexivity. Qed.

Lemma dc_capacitor_open c wres v i : ck c = KCapacitor ->
  (comp_law c r0 wres v i <-> (exists cv, hasv c "C" cv) /\ i = 0).
Proof. intros Hk. unfold comp_law. rewrite Hk.
  assert (E : forall cv, cj * cre r0 * cre cv * v = 0). { intros cv. destruct v as [a b]. apply cx_eq; simpl; ring. }
  split; [intros (cv & Hc & L); rewrite E in L; eauto|intros ((cv & Hc) & L); exists cv; rewrite E; auto]. Qed.
Lemma dc_inductor_short c wres v i : ck c = KInductance ->
  (comp_law c r0 wres v i <-> (exists l, hasv c "L" l) /\ v = 0).
Proof. intros Hk. unfold comp_law. rewrite Hk.
  assert (E : forall l, cj * cre r0 * cre l * i = 0). { intros l. destruct i as [a b]. apply cx_eq; simpl; ring. }
  split; [intros (l & Hc & L); rewrite E in L; eauto|intros ((l & Hc) & L); exists l; rewrite E; auto]. Qed.

End CircThm.
