(* Theory/LoadersThm.v — theorems about Model/Loaders.v (C17: what loads is what was written, no mutation; C19: malformed
   descriptions are rejected with the documented exception wherever the fault sits). *)
From Coq Require Import List Bool NArith ZArith Arith String Lia.
From CC Require Import Theory.Field Theory.Complex Theory.Labels Model.Network Theory.Spec Theory.Mna Theory.MnaComplete
  Theory.Api Gen.Tables Model.Circuit Theory.CircuitThm Model.Loaders.
Import ListNotations.

(* ====================================================================================================== *)
(* association-list dictionaries                                                                           *)
(* ====================================================================================================== *)
Section DictFacts.
Context {A : Type}.
Implicit Types d : dict A.
Ltac leq a b := destruct (label_eqb_spec a b).

Lemma dget_ddel d k k' : dget (ddel d k) k' = if label_eqb k k' then None else dget d k'.
Proof. induction d as [|[q v] d IH]; simpl.
  - destruct (label_eqb k k'); reflexivity.
  - leq q k; simpl.
    + subst q. rewrite IH. leq k k'; reflexivity.
    + rewrite IH. leq q k'; [|reflexivity]. subst q. leq k k'; [congruence|reflexivity]. Qed.

Lemma dget_dset d k v k' : dget (dset d k v) k' = if label_eqb k k' then Some v else dget d k'.
Proof. induction d as [|[q w] d IH]; simpl.
  - reflexivity.
  - leq q k; simpl.
    + subst q. leq k k'; reflexivity.
    + rewrite IH. leq q k'; [|reflexivity]. subst q. leq k k'; [congruence|reflexivity]. Qed.

Lemma dget_app d1 d2 k : dget (d1 ++ d2) k = match dget d1 k with Some v => Some v | None => dget d2 k end.
Proof. induction d1 as [|[q v] d1 IH]; simpl; [reflexivity|]. destruct (label_eqb q k); [reflexivity|exact IH]. Qed.

Lemma dget_In d k : dget d k <> None <-> In k (dkeys d).
Proof. induction d as [|[q v] d IH]; simpl; [tauto|]. leq q k.
  - split; [auto|discriminate].
  - rewrite IH. split; [auto|]. intros [E|H]; [congruence|exact H]. Qed.

Lemma dget_None d k : dget d k = None <-> ~ In k (dkeys d).
Proof. rewrite <- dget_In. destruct (dget d k); split; try congruence. intros H. exfalso. apply H. discriminate. Qed.

Lemma dget_Some_In d k v : dget d k = Some v -> In (k, v) d.
Proof. induction d as [|[q w] d IH]; simpl; [discriminate|]. leq q k; [intros H; injection H as <-; subst; auto|auto]. Qed.

Lemma dkeys_ddel d k x : In x (dkeys (ddel d k)) <-> x <> k /\ In x (dkeys d).
Proof. rewrite <- !dget_In, dget_ddel. leq k x; [subst; split; [congruence|tauto]|]. split; [intros H; split; [congruence|exact H]|tauto]. Qed.

Lemma dkeys_dset d k v x : In x (dkeys (dset d k v)) <-> x = k \/ In x (dkeys d).
Proof. rewrite <- !dget_In, dget_dset. leq k x; [subst; split; [auto|discriminate]|].
  split; [auto|]. intros [E|H]; [congruence|exact H]. Qed.

Lemma NoDup_ddel d k : NoDup (dkeys d) -> NoDup (dkeys (ddel d k)).
Proof. unfold dkeys, ddel. apply NoDup_map_filter. Qed.

Lemma NoDup_dset d k v : NoDup (dkeys d) -> NoDup (dkeys (dset d k v)).
Proof. induction d as [|[q w] d IH]; simpl; intros ND.
  - constructor; [intros []|constructor].
  - inversion ND as [|? ? Hq ND']; subst. leq q k; simpl.
    + constructor; assumption.
    + constructor; [|auto]. fold (dkeys (dset d k v)). rewrite dkeys_dset. intros [E|H]; [congruence|contradiction]. Qed.
End DictFacts.

Lemma has_dup_false l : has_dup l = false <-> NoDup l.
Proof. induction l as [|x l IH]; simpl; [split; [constructor|reflexivity]|].
  rewrite orb_false_iff, IH, lmem_false. split; [intros [A B]; constructor; assumption|intros H; inversion H; auto]. Qed.

Lemma mapR_ok {A B} (f : A -> res B) l bs : mapR f l = Ok bs -> Forall2 (fun a b => f a = Ok b) l bs.
Proof. revert bs. induction l as [|a l IH]; simpl; intros bs H; [injection H as <-; constructor|].
  destruct (f a) as [b|] eqn:E; [|discriminate]. destruct (mapR f l) as [r|]; [|discriminate]. injection H as <-.
  constructor; auto. Qed.

Lemma mapR_all_ok {A B} (f : A -> res B) (g : A -> B) l : (forall a, In a l -> f a = Ok (g a)) -> mapR f l = Ok (map g l).
Proof. induction l as [|a l IH]; simpl; intros H; [reflexivity|]. rewrite H by auto. rewrite IH by auto. reflexivity. Qed.

Lemma mapR_app_err {A B} (f : A -> res B) l1 a l2 bs e : mapR f l1 = Ok bs -> f a = Err e -> mapR f (l1 ++ a :: l2) = Err e.
Proof. revert bs. induction l1 as [|x l1 IH]; simpl; intros bs H E; [rewrite E; reflexivity|].
  destruct (f x); [|discriminate]. destruct (mapR f l1) as [r|]; [|discriminate]. rewrite (IH r eq_refl E). reflexivity. Qed.

(* ====================================================================================================== *)
Section Thm.
Variable R : fops.
Variable leb : R -> R -> bool.
Variable pi : R.
Variable cis : R -> R * R.
Notation C := (Cx R).
Notation jval := (jval R).
Notation jdict := (dict jval).
Notation "0" := (f0 R). Notation "1" := (f1 R).
Infix "*" := (fmul R).
Infix "/" := (fdiv R).
Ltac leq a b := destruct (label_eqb_spec a b).

(* ---------------------------------------------------------------------------------------------------- *)
(* C17: notations                                                                                        *)
(* ---------------------------------------------------------------------------------------------------- *)
(* whatever else the dictionary holds and in whatever order *)
Theorem to_complex_cartesian (deg : bool) (d : jdict) (a b : R) :
  dget d s_real = Some (JNum a) -> dget d s_imag = Some (JNum b) -> to_complex R pi cis deg (JDict d) = Ok ((a, b) : C).
Proof. intros Ha Hb. unfold to_complex, cartesian_of. rewrite Ha, Hb. reflexivity. Qed.

Theorem to_complex_polar (d : jdict) (r ph c s : R) :
  (dget d s_real = None \/ dget d s_imag = None) ->
  dget d s_abs = Some (JNum r) -> dget d s_phase = Some (JNum ph) -> cis ph = (c, s) ->
  to_complex R pi cis false (JDict d) = Ok ((r * c, r * s) : C).
Proof. intros Hn Ha Hp Hc. unfold to_complex, cartesian_of, polar_of.
  assert (E : match dget d s_real, dget d s_imag with
              | Some a, Some b => match as_num R a, as_num R b with Some x, Some y => Some (py_complex R x y) | _, _ => None end
              | _, _ => None end = None).
  { destruct Hn as [-> | ->]; [reflexivity|]. destruct (dget d s_real); reflexivity. }
  rewrite E, Hp. cbn [as_real]. rewrite Ha. cbn [as_num scale]. rewrite Hc. reflexivity. Qed.

Theorem to_complex_polar_degree (d : jdict) (r ph c s : R) :
  (dget d s_real = None \/ dget d s_imag = None) ->
  dget d s_abs = Some (JNum r) -> dget d s_phase = Some (JNum ph) -> cis (ph * pi / ofZ R 180) = (c, s) ->
  to_complex R pi cis true (JDict d) = Ok ((r * c, r * s) : C).
Proof. intros Hn Ha Hp Hc. unfold to_complex, cartesian_of, polar_of.
  assert (E : match dget d s_real, dget d s_imag with
              | Some a, Some b => match as_num R a, as_num R b with Some x, Some y => Some (py_complex R x y) | _, _ => None end
              | _, _ => None end = None).
  { destruct Hn as [-> | ->]; [reflexivity|]. destruct (dget d s_real); reflexivity. }
  rewrite E, Hp. cbn [as_real]. rewrite Ha. cbn [as_num scale]. unfold deg2rad. rewrite Hc. reflexivity. Qed.

(* the two notations of one number z = r * (cos ph + j sin ph) denote the same number *)
Theorem notations_agree (r ph : R) :
  let z : C := (r * fst (cis ph), r * snd (cis ph)) in
  to_complex R pi cis false (JDict [(s_abs, JNum r); (s_phase, JNum ph)]) = Ok z
  /\ to_complex R pi cis false (JDict [(s_real, JNum (fst z)); (s_imag, JNum (snd z))]) = Ok z.
Proof. intros z. split.
  - apply (to_complex_polar _ r ph (fst (cis ph)) (snd (cis ph))); try reflexivity; [left; reflexivity|apply surjective_pairing].
  - apply to_complex_cartesian; reflexivity. Qed.

Theorem notations_agree_degree (r ph : R) :
  let th := ph * pi / ofZ R 180 in
  let z : C := (r * fst (cis th), r * snd (cis th)) in
  to_complex R pi cis true (JDict [(s_abs, JNum r); (s_phase, JNum ph)]) = Ok z
  /\ to_complex R pi cis true (JDict [(s_real, JNum (fst z)); (s_imag, JNum (snd z))]) = Ok z.
Proof. intros th z. split.
  - apply (to_complex_polar_degree _ r ph (fst (cis th)) (snd (cis th))); try reflexivity; [left; reflexivity|apply surjective_pairing].
  - apply to_complex_cartesian; reflexivity. Qed.

(* ---------------------------------------------------------------------------------------------------- *)
(* C17: nested documents                                                                                 *)
(* ---------------------------------------------------------------------------------------------------- *)
Definition is_notation (d : jdict) : bool :=
  keys_are d s_real s_imag || keys_are d s_abs s_phase || keys_are d s_abs s_phase_deg.
(* no dictionary, at any depth, whose key set is one of the three notations *)
Fixpoint nocollb (t : jval) : bool :=
  match t with
  | JList l => forallb nocollb l
  | JDict l => negb (is_notation l) && forallb (fun kv => nocollb (snd kv)) l
  | _ => true
  end.
Fixpoint has_cplx (t : jval) : bool :=
  match t with
  | JCplx _ => true
  | JList l => existsb has_cplx l
  | JDict l => existsb (fun kv => has_cplx (snd kv)) l
  | _ => false
  end.

Lemma keys_are_map {X Y} (f : X -> Y) (l : dict X) k1 k2 :
  keys_are (map (fun kv => let '(k, v) := kv in (k, f v)) l) k1 k2 = keys_are l k1 k2.
Proof. destruct l as [|[a x] [|[b y] [|c l]]]; reflexivity. Qed.

Theorem dictify_no_complex (t : jval) : has_cplx (dictify_all R t) = false.
Proof. induction t as [| | | | |l IH|l IH] using (jval_ind' R); try reflexivity.
  - simpl. induction IH as [|x l Hx _ IHl]; simpl; [reflexivity|]. rewrite Hx. exact IHl.
  - simpl. induction IH as [|[k x] l Hx _ IHl]; simpl; [reflexivity|]. simpl in Hx. rewrite Hx. exact IHl. Qed.

Notation conv := (undict_conv R leb pi cis).
Theorem undict_dictify (t : jval) : nocollb t = true -> conv (dictify_all R t) = Ok t.
Proof. induction t as [| | | |z|l IH|l IH] using (jval_ind' R); intros NC; try reflexivity.
  - destruct z as [a b]. reflexivity.
  - cbn [dictify_all undict_conv]. simpl in NC.
    assert (E : mapR conv (map (dictify_all R) l) = Ok l).
    { induction IH as [|x l Hx _ IHl]; simpl; [reflexivity|]. simpl in NC. apply andb_true_iff in NC. destruct NC as [N1 N2].
      rewrite (Hx N1), (IHl N2). reflexivity. }
    rewrite E. reflexivity.
  - cbn [dictify_all undict_conv]. simpl in NC. apply andb_true_iff in NC. destruct NC as [NN NC].
    assert (E : mapR (fun kv : label * jval => let '(k, v) := kv in bind (conv v) (fun v' => Ok (k, v')))
                  (map (fun kv : label * jval => let '(k, v) := kv in (k, dictify_all R v)) l) = Ok l).
    { clear NN. induction IH as [|[k x] l Hx _ IHl]; simpl; [reflexivity|]. simpl in NC. apply andb_true_iff in NC. destruct NC as [N1 N2].
      simpl in Hx. rewrite (Hx N1). simpl. rewrite (IHl N2). reflexivity. }
    rewrite E. cbn [bind]. unfold undict1. apply negb_true_iff in NN. unfold is_notation in NN.
    apply orb_false_iff in NN. destruct NN as [NN N3]. apply orb_false_iff in NN. destruct NN as [N1 N2].
    rewrite N1, N2, N3. reflexivity. Qed.

Lemma undict1_id (v : jval) : nocollb v = true -> undict1 R leb pi cis v = Ok v.
Proof. destruct v as [| | | | |l|l]; try reflexivity. simpl. intros H. apply andb_true_iff in H. destruct H as [NN _].
  apply negb_true_iff in NN. unfold is_notation in NN.
  apply orb_false_iff in NN. destruct NN as [NN N3]. apply orb_false_iff in NN. destruct NN as [N1 N2].
  rewrite N1, N2, N3. reflexivity. Qed.

Lemma undictify_values_id (l : jdict) : forallb (fun kv => nocollb (snd kv)) l = true -> undictify_values R leb pi cis l = Ok l.
Proof. unfold undictify_values. induction l as [|[k v] l IH]; simpl; [reflexivity|]. intros H. apply andb_true_iff in H.
  destruct H as [H1 H2]. rewrite (undict1_id v H1). specialize (IH H2).
  destruct (undictify_values_st R leb pi cis l) as [rr r']. simpl in IH. subst rr. reflexivity. Qed.

(* the documented entry point: a dictionary whose values are collision-free comes back unchanged *)
Theorem undictify_all_dictify_all (l : jdict) : forallb (fun kv => nocollb (snd kv)) l = true ->
  undictify_all R leb pi cis (dictify_all R (JDict l)) = Ok (JDict l).
Proof. intros NC. cbn [dictify_all undictify_all].
  assert (E : mapR (fun kv : label * jval => let '(k, v) := kv in bind (conv v) (fun v' => Ok (k, v')))
                (map (fun kv : label * jval => let '(k, v) := kv in (k, dictify_all R v)) l) = Ok l).
  { induction l as [|[k x] l IHl]; simpl; [reflexivity|]. simpl in NC. apply andb_true_iff in NC. destruct NC as [N1 N2].
    rewrite (undict_dictify x N1). simpl. rewrite (IHl N2). reflexivity. }
  rewrite E. cbn [bind]. rewrite (undictify_values_id l NC). reflexivity. Qed.

(* ---------------------------------------------------------------------------------------------------- *)
(* C17: no mutation                                                                                      *)
(* ---------------------------------------------------------------------------------------------------- *)
Lemma entry_copy_unchanged (e : jval) : snd (entry_to_branch_st R pi cis true e) = e.
Proof. destruct e as [| | | | |l|d]; try reflexivity. simpl. destruct (entry_to_branch_local R pi cis d). reflexivity. Qed.

Lemma entries_copy_unchanged (l : list jval) : snd (entries_st R pi cis true l) = l.
Proof. induction l as [|e l IH]; simpl; [reflexivity|].
  pose proof (entry_copy_unchanged e) as He. destruct (entry_to_branch_st R pi cis true e) as [[b|x] e']; simpl in He; subst e'.
  - destruct (entries_st R pi cis true l) as [rr r']. simpl in IH. subst r'. reflexivity.
  - reflexivity. Qed.

Theorem load_network_no_mutation (d : jval) : snd (load_network_st R pi cis d) = d.
Proof. unfold load_network_st, load_network_gen. destruct d as [| | | | |l|l]; try reflexivity.
  pose proof (entries_copy_unchanged l) as H. destruct (entries_st R pi cis true l) as [r l']. simpl in H. subst l'. reflexivity. Qed.

Theorem load_network_twice (d : jval) :
  fst (load_network_st R pi cis (snd (load_network_st R pi cis d))) = fst (load_network_st R pi cis d).
Proof. rewrite load_network_no_mutation. reflexivity. Qed.


(* ---------------------------------------------------------------------------------------------------- *)
(* C17: every documented kind loads to the element written                                               *)
(* ---------------------------------------------------------------------------------------------------- *)
(* a complex value as written in a description *)
Inductive cnote := Cart (re im : R) | Polar (r ph : R).
Definition note_doc (c : cnote) : jval :=
  match c with
  | Cart a b => JDict [(s_real, JNum a); (s_imag, JNum b)]
  | Polar r ph => JDict [(s_abs, JNum r); (s_phase, JNum ph)]
  end.
Definition note_val (c : cnote) : C :=
  match c with Cart a b => (a, b) | Polar r ph => (r * fst (cis ph), r * snd (cis ph)) end.
Definition cre' (x : R) : C := (x, 0).
(* documented kind: type string, keys written in complex notation, keys written as plain numbers, the element meant
   (arguments: the values of the complex keys, then of the plain keys) *)
Record kdoc := { k_type : label; k_cplx : list label; k_real : list label; k_elem : label -> list C -> elem C }.
Definition arg (v : list C) (i : nat) : C := nth i v (c0 R).
Definition documented_kinds : list kdoc := [
  {| k_type := lbl "resistor"; k_cplx := []; k_real := [s_R]; k_elem := fun n v => resistor n (arg v 0) |};
  {| k_type := lbl "conductor"; k_cplx := []; k_real := [s_G]; k_elem := fun n v => conductor n (arg v 0) |};
  {| k_type := lbl "impedance"; k_cplx := [s_Z]; k_real := []; k_elem := fun n v => impedance n (arg v 0) |};
  {| k_type := lbl "admittance"; k_cplx := [s_Y]; k_real := []; k_elem := fun n v => admittance n (arg v 0) |};
  {| k_type := lbl "linear_current_source"; k_cplx := [s_I; s_Y]; k_real := [];
     k_elem := fun n v => current_source n (arg v 0) (arg v 1) |};
  {| k_type := lbl "current_source"; k_cplx := [s_I]; k_real := []; k_elem := fun n v => current_source n (arg v 0) (c0 R) |};
  {| k_type := lbl "current_source"; k_cplx := [s_I]; k_real := [s_Y]; k_elem := fun n v => current_source n (arg v 0) (arg v 1) |};
  {| k_type := lbl "real_current_source"; k_cplx := []; k_real := [s_I]; k_elem := fun n v => current_source n (arg v 0) (c0 R) |};
  {| k_type := lbl "real_current_source"; k_cplx := []; k_real := [s_I; s_Y];
     k_elem := fun n v => current_source n (arg v 0) (arg v 1) |};
  {| k_type := lbl "linear_voltage_source"; k_cplx := [s_V; s_Z]; k_real := [];
     k_elem := fun n v => voltage_source n (arg v 0) (arg v 1) |};
  {| k_type := lbl "voltage_source"; k_cplx := [s_V]; k_real := []; k_elem := fun n v => voltage_source n (arg v 0) (c0 R) |};
  {| k_type := lbl "voltage_source"; k_cplx := [s_V]; k_real := [s_Z]; k_elem := fun n v => voltage_source n (arg v 0) (arg v 1) |};
  {| k_type := lbl "real_voltage_source"; k_cplx := []; k_real := [s_V]; k_elem := fun n v => voltage_source n (arg v 0) (c0 R) |};
  {| k_type := lbl "real_voltage_source"; k_cplx := []; k_real := [s_V; s_Z];
     k_elem := fun n v => voltage_source n (arg v 0) (arg v 1) |};
  {| k_type := lbl "short_circuit"; k_cplx := []; k_real := []; k_elem := fun n v => short_circuit n |};
  {| k_type := lbl "open_circuit"; k_cplx := []; k_real := []; k_elem := fun n v => open_circuit n |}
]%string.

(* one written entry and the branch it means *)
Record espec := { e_kind : kdoc; e_id : label; e_n1 : label; e_n2 : label; e_cs : list cnote; e_rs : list R }.
Definition espec_ok (e : espec) : Prop :=
  In (e_kind e) documented_kinds /\ List.length (e_cs e) = List.length (k_cplx (e_kind e)) /\ List.length (e_rs e) = List.length (k_real (e_kind e)).
Definition entry_doc (e : espec) : jval :=
  JDict ((s_type, JStr (k_type (e_kind e))) :: (s_id, JStr (e_id e)) :: (s_N1, JStr (e_n1 e)) :: (s_N2, JStr (e_n2 e))
         :: combine (k_cplx (e_kind e)) (map note_doc (e_cs e)) ++ combine (k_real (e_kind e)) (map (fun x => JNum x) (e_rs e))).
Definition entry_branch (e : espec) : branch C :=
  Build_branch (e_n1 e) (e_n2 e) (k_elem (e_kind e) (e_id e) (map note_val (e_cs e) ++ map cre' (e_rs e))).

Ltac lens := repeat match goal with
  | H : List.length ?l = O |- _ => destruct l; [clear H | discriminate H]
  | H : List.length ?l = S _ |- _ => destruct l; [discriminate H | simpl in H; injection H as H]
  end.

Lemma each_kind_entry (e : espec) : espec_ok e ->
  fst (entry_to_branch_st R pi cis true (entry_doc e)) = Ok (entry_branch e).
Proof. destruct e as [k id n1 n2 cs rs]. unfold espec_ok. cbn [e_kind e_cs e_rs]. intros [Hk [Hc Hr]].
  unfold documented_kinds in Hk.
  repeat (destruct Hk as [<-|Hk]; [cbn [k_cplx k_real List.length] in Hc, Hr; lens;
            repeat match goal with c : cnote |- _ => destruct c end; vm_compute; reflexivity|]).
  destruct Hk. Qed.

Lemma validate_not_keyerror (n : network C) : keyerror_to_fileexists (validate n) = validate n.
Proof. unfold validate. destruct (_ && _); [reflexivity|]. destruct (negb _); reflexivity. Qed.

Theorem each_kind_description (es : list espec) : (forall e, In e es -> espec_ok e) ->
  load_network R pi cis (JList (map entry_doc es)) = validate {| branches := map entry_branch es; zero := s_zero |}.
Proof. intros H. unfold load_network, load_network_st, load_network_gen.
  assert (E : fst (entries_st R pi cis true (map entry_doc es)) = Ok (map entry_branch es)).
  { induction es as [|e es IH]; [reflexivity|]. cbn [map entries_st].
    pose proof (each_kind_entry e (H e (or_introl eq_refl))) as He.
    destruct (entry_to_branch_st R pi cis true (entry_doc e)) as [r e']. cbn [fst] in He. subst r.
    specialize (IH (fun x Hx => H x (or_intror Hx))).
    destruct (entries_st R pi cis true (map entry_doc es)) as [rr r']. cbn [fst] in IH. subst rr. reflexivity. }
  destruct (entries_st R pi cis true (map entry_doc es)) as [r l']. cbn [fst] in E. subst r. cbn [fst bind].
  apply validate_not_keyerror. Qed.

(* the documented table and the loader table name the same kinds *)
Definition kinds_covered_check : bool :=
  forallb (fun e => existsb (fun k => label_eqb (k_type k) (l_type e)) documented_kinds) network_loader_table
  && forallb (fun k => existsb (fun e => label_eqb (k_type k) (l_type e)) network_loader_table) documented_kinds.
Lemma kinds_covered :
  (forall e, In e network_loader_table -> exists k, In k documented_kinds /\ k_type k = l_type e)
  /\ (forall k, In k documented_kinds -> exists e, In e network_loader_table /\ l_type e = k_type k).
Proof. assert (H : kinds_covered_check = true) by (vm_compute; reflexivity).
  unfold kinds_covered_check in H. apply andb_true_iff in H. destruct H as [H1 H2]. rewrite forallb_forall in H1, H2. split.
  - intros e He. specialize (H1 e He). apply existsb_exists in H1. destruct H1 as [k [Hk E]]. exists k. split; [exact Hk|].
    destruct (label_eqb_spec (k_type k) (l_type e)); [assumption|discriminate].
  - intros k Hk. specialize (H2 k Hk). apply existsb_exists in H2. destruct H2 as [e [He E]]. exists e. split; [exact He|].
    destruct (label_eqb_spec (k_type k) (l_type e)); [congruence|discriminate]. Qed.

End Thm.

(* ====================================================================================================== *)
(* C19: network validation, queries (generic field)                                                        *)
(* ====================================================================================================== *)
Lemma dup_not_NoDup {A} (l1 l2 l3 : list A) (a : A) : ~ NoDup (l1 ++ a :: l2 ++ a :: l3).
Proof. intros H. apply NoDup_remove_2 in H. apply H. apply in_or_app. right. apply in_or_app. right. left. reflexivity. Qed.

Section NetFaults.
Variable K : fops.
Implicit Types n : network K.

Definition terminals n : list label := map node1 (branches n) ++ map node2 (branches n).

Lemma lmem_node_labels n z : branches n <> [] -> lmem z (node_labels n) = lmem z (terminals n).
Proof. intros Hne. unfold node_labels, terminals. destruct (branches n) as [|b bs] eqn:E; [congruence|].
  destruct (lmem z (map node1 (b :: bs) ++ map node2 (b :: bs))) eqn:M.
  - apply lmem_spec. rewrite lsort_In, ldedup_In. apply lmem_spec. exact M.
  - apply lmem_false. intros H. rewrite lsort_In, ldedup_In in H. apply lmem_false in M. exact (M H). Qed.

Lemma node_labels_nonempty n : Nat.eqb (List.length (node_labels n)) 0 = false.
Proof. unfold node_labels. destruct (branches n) as [|b bs] eqn:E; [reflexivity|].
  assert (Hin : In (node1 b) (lsort (ldedup (map node1 (b :: bs) ++ map node2 (b :: bs))))).
  { apply lsort_In, ldedup_In. simpl. left. reflexivity. }
  destruct (lsort _); [destruct Hin|reflexivity]. Qed.

(* the reference label touches no element *)
Theorem validate_floating n : branches n <> [] -> ~ In (zero n) (terminals n) -> validate n = Err EFloatingGround.
Proof. intros Hne Hz. unfold validate. rewrite (lmem_node_labels n _ Hne), node_labels_nonempty.
  apply lmem_false in Hz. rewrite Hz. reflexivity. Qed.

(* two branches with one identifier, anywhere in the list, with anything (further copies included) around them *)
Theorem validate_duplicate (l1 l2 l3 : list (branch K)) (c c' : branch K) (z : label) : bid c = bid c' ->
  let n := {| branches := l1 ++ c :: l2 ++ c' :: l3; zero := z |} in
  (In z (terminals n) -> validate n = Err EAmbiguousIDs) /\ (~ In z (terminals n) -> validate n = Err EFloatingGround).
Proof. intros E n. assert (Hne : branches n <> []) by (simpl; destruct l1; discriminate). split.
  - intros Hz. unfold validate. rewrite (lmem_node_labels n _ Hne). apply lmem_spec in Hz. simpl zero. rewrite Hz. cbn [negb andb].
    destruct (Nat.eqb (List.length (ldedup (branch_ids n))) (List.length (branches n))) eqn:D; [|reflexivity].
    exfalso. apply Nat.eqb_eq in D. unfold branch_ids in D. rewrite <- (map_length bid (branches n)) in D.
    apply ldedup_length_NoDup in D. simpl in D. rewrite map_app in D. simpl in D. rewrite map_app in D. simpl in D.
    rewrite E in D. exact (dup_not_NoDup _ _ _ _ D).
  - intros Hz. apply validate_floating; assumption. Qed.

(* an accepted network is stored as given *)
Theorem validate_stored n n' : validate n = Ok n' -> n' = n.
Proof. unfold validate. destruct (_ && _); [discriminate|]. destruct (negb _); [discriminate|]. intros H. injection H as <-. reflexivity. Qed.

(* queries for identifiers the network does not have *)
Theorem get_potential_unknown (s : solution K) (l : label) :
  ~ In l (node_labels (s_net s)) -> l <> zero (s_net s) -> get_potential s l = Err EKeyError.
Proof. intros H Hz. destruct s as [n x]. apply api_potential_unknown; [exact Hz|]. simpl in H. intros Hin. apply H.
  unfold node_index in Hin. apply filter_In in Hin. destruct Hin as [Hin _]. rewrite lsort_In in Hin. exact Hin. Qed.

Theorem get_voltage_unknown (s : solution K) (id : label) : ~ In id (branch_ids (s_net s)) -> get_voltage s id = Err EKeyError.
Proof. destruct s as [n x]. apply api_voltage_unknown. Qed.

Theorem get_current_unknown (s : solution K) (id : label) : ~ In id (branch_ids (s_net s)) -> get_current s id = Err EKeyError.
Proof. intros H. unfold get_current.
  assert (M : lmem id (vs_index (s_net s)) = false).
  { apply lmem_false. intros Hin. destruct (vss_in_ivs K _ _ Hin) as [b [Hb [Eb _]]]. apply H. unfold branch_ids. rewrite <- Eb.
    apply in_map. exact Hb. }
  rewrite M. rewrite (get_branch_None K) by exact H. reflexivity. Qed.

Theorem get_power_unknown (s : solution K) (id : label) : ~ In id (branch_ids (s_net s)) -> get_power s id = Err EKeyError.
Proof. intros H. unfold get_power. rewrite (get_voltage_unknown s id H). reflexivity. Qed.
End NetFaults.

(* ====================================================================================================== *)
(* C19: Circuit.__post_init__ (ground_node)                                                                *)
(* ====================================================================================================== *)
Section CircuitFaults.
Variable R : fops.
Notation comp := (comp R).
Implicit Types cs : list comp.

Definition grounds_have_node cs : Prop := forall c, In c cs -> is_ground R c = true -> cnodes c <> [].
Definition first_has_node cs : Prop := match cs with [] => True | c :: _ => cnodes c <> [] end.

Lemma grounds_nodes cs : grounds_have_node cs ->
  exists gn, mapM (first_node R) (filter (is_ground R) cs) = Ok gn /\ List.length gn = List.length (filter (is_ground R) cs).
Proof. intros H. apply mapM_total. intros a Ha. apply filter_In in Ha. destruct Ha as [Ha Hk]. apply first_node_total. apply H; assumption. Qed.

(* two (or more) ground components anywhere *)
Theorem ground_multiple (l1 l2 l3 : list comp) (g1 g2 : comp) : is_ground R g1 = true -> is_ground R g2 = true ->
  let cs := l1 ++ g1 :: l2 ++ g2 :: l3 in
  (forall g, ground_node R cs <> Ok g) /\ (grounds_have_node cs -> ground_node R cs = Err EMultipleGround).
Proof. intros G1 G2 cs.
  assert (HL : 1 < List.length (filter (is_ground R) cs)).
  { unfold cs. rewrite filter_app. simpl. rewrite G1. rewrite filter_app. simpl. rewrite G2. rewrite app_length. simpl.
    rewrite app_length. simpl. lia. }
  split.
  - intros g H. apply ground_node_ok in H. destruct cs as [|c0 rest] eqn:Ecs; [simpl in HL; lia|].
    destruct H as [_ H]. destruct (filter (is_ground R) (c0 :: rest)) as [|a [|b r]]; simpl in HL; first [lia|exact H].
  - intros Hn. destruct (grounds_nodes cs Hn) as [gn [Hgn HLn]]. unfold ground_node.
    destruct cs as [|c0 rest] eqn:Ecs; [simpl in HL; lia|]. rewrite Hgn. cbn [bind]. rewrite HLn.
    apply Nat.ltb_lt in HL. rewrite HL. reflexivity. Qed.

(* two (or more) components with one identifier anywhere *)
Theorem ground_duplicate (l1 l2 l3 : list comp) (c c' : comp) : cid c = cid c' ->
  let cs := l1 ++ c :: l2 ++ c' :: l3 in
  (forall g, ground_node R cs <> Ok g)
  /\ (List.length (filter (is_ground R) cs) <= 1 -> grounds_have_node cs -> first_has_node cs ->
      ground_node R cs = Err EAmbiguousComponent).
Proof. intros E cs.
  assert (HD : ~ NoDup (map cid cs)).
  { unfold cs. rewrite map_app. simpl. rewrite map_app. simpl. rewrite E. apply dup_not_NoDup. }
  split.
  - intros g H. apply ground_node_ok in H. destruct cs as [|c0 rest]; [apply HD; constructor|]. destruct H as [ND _]. contradiction.
  - intros HL Hn Hf. destruct (grounds_nodes cs Hn) as [gn [Hgn HLn]]. unfold ground_node.
    destruct cs as [|c0 rest] eqn:Ecs; [exfalso; apply HD; constructor|]. rewrite Hgn. cbn [bind]. rewrite HLn.
    apply Nat.ltb_ge in HL. rewrite HL.
    assert (Hg : exists g, match gn with [] => first_node R c0 | g :: _ => Ok g end = Ok g).
    { destruct gn as [|g ?]; [apply first_node_total; exact Hf|exists g; reflexivity]. }
    destruct Hg as [g Hg]. rewrite Hg. cbn [bind].
    destruct (Nat.eqb (List.length (ldedup (map cid (c0 :: rest)))) (List.length (c0 :: rest))) eqn:D; [|reflexivity].
    apply ids_nodup_iff in D. contradiction. Qed.
End CircuitFaults.

(* ====================================================================================================== *)
(* C19: the loaders reject malformed descriptions                                                          *)
(* ====================================================================================================== *)
(* decide label_eqb between string constants *)
Ltac lblsimp := repeat match goal with
  | |- context [label_eqb ?a ?b] =>
      let v := eval vm_compute in (label_eqb a b) in
      match v with true => change (label_eqb a b) with true | false => change (label_eqb a b) with false end
  end.

Ltac lens' := repeat match goal with
  | H : List.length ?l = O |- _ => destruct l; [clear H | discriminate H]
  | H : List.length ?l = S _ |- _ => destruct l; [discriminate H | simpl in H; injection H as H]
  end.

Section LoaderFaults.
Variable R : fops.
Variable leb : R -> R -> bool.
Variable pi : R.
Variable cis : R -> R * R.
Notation C := (Cx R).
Notation jval := (jval R).
Notation jdict := (dict jval).
Notation "0" := (f0 R).
Notation entry_st := (entry_to_branch_st R pi cis true).
Notation entries := (entries_st R pi cis true).

(* the position of the offending entry does not matter: everything before it loads, it does not *)
Lemma entries_first_error (pre post : list jval) (e : jval) bs x :
  fst (entries pre) = Ok bs -> fst (entry_st e) = Err x -> fst (entries (pre ++ e :: post)) = Err x.
Proof. revert bs. induction pre as [|a pre IH]; intros bs Hpre He.
  - cbn [app entries_st]. destruct (entry_st e) as [[b|y] e']; cbn [fst] in He; [discriminate|]. injection He as ->. reflexivity.
  - cbn [app entries_st] in *. destruct (entry_st a) as [[b|y] a']; [|cbn [fst] in Hpre; discriminate].
    destruct (entries pre) as [[bs'|y] r'] eqn:Ep; [|cbn [fst] in Hpre; discriminate].
    specialize (IH bs' eq_refl He). destruct (entries (pre ++ e :: post)) as [rr r'']. cbn [fst] in IH. subst rr. reflexivity. Qed.

Theorem load_network_first_error (pre post : list jval) (e : jval) bs x :
  fst (entries pre) = Ok bs -> fst (entry_st e) = Err x ->
  load_network R pi cis (JList (pre ++ e :: post)) = keyerror_to_fileexists (Err x).
Proof. intros Hpre He. unfold load_network, load_network_st, load_network_gen.
  pose proof (entries_first_error pre post e bs x Hpre He) as H.
  destruct (entries (pre ++ e :: post)) as [r l']. cbn [fst] in H. subst r. reflexivity. Qed.

(* a missing N1 / N2 / id / type *)
Theorem entry_missing_header (d : jdict) :
  dget d s_N1 = None \/ dget d s_N2 = None \/ dget d s_id = None \/ dget d s_type = None ->
  fst (entry_st (JDict d)) = Err EKeyError.
Proof. intros H. cbn [entry_to_branch_st]. destruct (entry_to_branch_local R pi cis d) as [r d'] eqn:E. cbn [fst].
  revert E. unfold entry_to_branch_local, sbind, spop, sset, sget, slift.
  destruct (dget d s_N1) as [n1|] eqn:E1; [|intros X; injection X as <- _; reflexivity].
  rewrite dget_ddel. lblsimp.
  destruct (dget d s_N2) as [n2|] eqn:E2; [|intros X; injection X as <- _; reflexivity].
  rewrite !dget_ddel. lblsimp.
  destruct (dget d s_id) as [idv|] eqn:E3; [|intros X; injection X as <- _; reflexivity].
  rewrite dget_dset, !dget_ddel. lblsimp.
  destruct (dget d s_type) as [ty|] eqn:E4; [|intros X; injection X as <- _; reflexivity].
  exfalso. destruct H as [H|[H|[H|H]]]; discriminate. Qed.

(* an element type the loader table does not have *)
Theorem entry_unknown_type (d : jdict) (t : label) :
  dget d s_N1 <> None -> dget d s_N2 <> None -> dget d s_id <> None -> dget d s_type = Some (JStr t) ->
  find_lentry t = None -> fst (entry_st (JDict d)) = Err EKeyError.
Proof. intros H1 H2 H3 H4 Hf. cbn [entry_to_branch_st]. destruct (entry_to_branch_local R pi cis d) as [r d'] eqn:E. cbn [fst].
  revert E. unfold entry_to_branch_local, sbind, spop, sset, sget, slift.
  destruct (dget d s_N1) as [n1|] eqn:E1; [|congruence].
  rewrite dget_ddel. lblsimp.
  destruct (dget d s_N2) as [n2|] eqn:E2; [|congruence].
  rewrite !dget_ddel. lblsimp.
  destruct (dget d s_id) as [idv|] eqn:E3; [|congruence].
  rewrite dget_dset, !dget_ddel. lblsimp. rewrite H4.
  cbn [lookup_translator]. rewrite Hf. cbn [bind]. intros X; injection X as <- _; reflexivity. Qed.

Theorem load_network_unknown_type (pre post : list jval) (d : jdict) (t : label) bs :
  fst (entries pre) = Ok bs ->
  dget d s_N1 <> None -> dget d s_N2 <> None -> dget d s_id <> None -> dget d s_type = Some (JStr t) -> find_lentry t = None ->
  load_network R pi cis (JList (pre ++ JDict d :: post)) = Err EFileExists.
Proof. intros Hpre H1 H2 H3 H4 Hf.
  rewrite (load_network_first_error pre post (JDict d) bs EKeyError Hpre (entry_unknown_type d t H1 H2 H3 H4 Hf)). reflexivity. Qed.

Theorem load_network_missing_header (pre post : list jval) (d : jdict) bs :
  fst (entries pre) = Ok bs ->
  dget d s_N1 = None \/ dget d s_N2 = None \/ dget d s_id = None \/ dget d s_type = None ->
  load_network R pi cis (JList (pre ++ JDict d :: post)) = Err EFileExists.
Proof. intros Hpre H. rewrite (load_network_first_error pre post (JDict d) bs EKeyError Hpre (entry_missing_header d H)). reflexivity. Qed.

(* a documented entry with one required value key left out: KeyError (-> FileExistsError) for a key written in complex
   notation (popped by the translator), TypeError for a plain constructor parameter *)
Definition optional_key (k : label) : bool := label_eqb k s_Y || label_eqb k s_Z.
Definition required_keys (k : kdoc R) : list label := k_cplx R k ++ filter (fun x => negb (optional_key x)) (k_real R k).
Definition entry_without (e : espec R) (key : label) : jval :=
  match entry_doc R e with JDict d => JDict (ddel d key) | x => x end.
Theorem entry_missing_value (e : espec R) (key : label) : espec_ok R e -> In key (required_keys (e_kind R e)) ->
  fst (entry_st (entry_without e key)) = Err (if lmem key (k_cplx R (e_kind R e)) then EKeyError else ETypeError).
Proof. destruct e as [k id n1 n2 cs rs]. unfold espec_ok. cbn [e_kind e_cs e_rs]. intros [Hk [Hc Hr]] Hkey.
  unfold documented_kinds in Hk.
  repeat (destruct Hk as [<-|Hk]; [cbn [k_cplx k_real List.length] in Hc, Hr; lens';
            repeat match goal with c : cnote R |- _ => destruct c end;
            unfold required_keys in Hkey; cbn in Hkey;
            repeat (destruct Hkey as [<-|Hkey]; [vm_compute; reflexivity|]); destruct Hkey|]).
  destruct Hk. Qed.

(* ---------- generate_component: typed errors, in the coded order ---------- *)
Notation gen := (generate_component R leb).
Theorem generate_missing_id (d : jdict) : dget d s_id = None -> gen (JDict d) = Err EUnidentified.
Proof. intros H. unfold generate_component, generate_component_st, generate_component_local, sbind, sread. cbn [fst]. rewrite H. reflexivity. Qed.

Theorem generate_missing_value (d : jdict) : dget d s_id <> None -> dget d s_value = None -> gen (JDict d) = Err EIncorrectInfo.
Proof. intros H1 H2. unfold generate_component, generate_component_st, generate_component_local, sbind, sread, spop. cbn [fst].
  destruct (dget d s_id); [|congruence]. rewrite H2. reflexivity. Qed.

Theorem generate_missing_type (d : jdict) : dget d s_id <> None -> dget d s_value <> None -> dget d s_type = None ->
  gen (JDict d) = Err EIncorrectInfo.
Proof. intros H1 H2 H3. unfold generate_component, generate_component_st, generate_component_local, sbind, sread, spop. cbn [fst].
  destruct (dget d s_id); [|congruence]. destruct (dget d s_value); [|congruence]. rewrite dget_ddel. lblsimp. rewrite H3. reflexivity. Qed.

Theorem generate_missing_nodes (d : jdict) : dget d s_id <> None -> dget d s_value <> None -> dget d s_type <> None ->
  dget d s_nodes = None -> gen (JDict d) = Err EIncorrectInfo.
Proof. intros H1 H2 H3 H4. unfold generate_component, generate_component_st, generate_component_local, sbind, sread, spop. cbn [fst].
  destruct (dget d s_id); [|congruence]. destruct (dget d s_value); [|congruence]. rewrite dget_ddel. lblsimp.
  destruct (dget d s_type); [|congruence]. rewrite !dget_ddel. lblsimp. rewrite H4. reflexivity. Qed.

Theorem generate_unknown_type (d : jdict) (t : label) : dget d s_id <> None -> dget d s_value <> None -> dget d s_nodes <> None ->
  dget d s_type = Some (JStr t) -> tfind t circuit_loader_table = None -> gen (JDict d) = Err EUnknownComponent.
Proof. intros H1 H2 H4 H3 Hf. unfold generate_component, generate_component_st, generate_component_local, sbind, sread, spop, slift. cbn [fst].
  destruct (dget d s_id); [|congruence]. destruct (dget d s_value); [|congruence]. rewrite dget_ddel. lblsimp.
  rewrite H3. rewrite !dget_ddel. lblsimp. destruct (dget d s_nodes); [|congruence].
  cbn [lookup_component_factory]. rewrite Hf. reflexivity. Qed.

(* undictify_circuit: the first offending component decides, wherever it is *)
Theorem undictify_circuit_first_error (d : jdict) (pre post : list jval) (e : jval) cs x :
  dget d s_components = Some (JList (pre ++ e :: post)) -> mapR gen pre = Ok cs -> gen e = Err x ->
  undictify_circuit R leb (JDict d) = Err x.
Proof. intros Hd Hpre He. unfold undictify_circuit. rewrite Hd. rewrite (mapR_app_err gen pre e post cs x Hpre He). reflexivity. Qed.

(* ---------- stored unaltered ---------- *)
Lemma entries_fst_mapR (l : list jval) : fst (entries l) = mapR (fun e => fst (entry_st e)) l.
Proof. induction l as [|e l IH]; [reflexivity|]. cbn [entries_st mapR]. destruct (entry_st e) as [[b|x] e']; cbn [fst]; [|reflexivity].
  destruct (entries l) as [rr r']. cbn [fst] in *. rewrite <- IH. destruct rr; reflexivity. Qed.

(* an accepted description becomes exactly the branches its entries denote, in order, with reference "0" *)
Theorem load_network_stored (l : list jval) (n : network C) : load_network R pi cis (JList l) = Ok n ->
  mapR (fun e => fst (entry_st e)) l = Ok (branches n) /\ zero n = s_zero.
Proof. unfold load_network, load_network_st, load_network_gen. rewrite <- entries_fst_mapR.
  destruct (entries l) as [[bs|x] l']; cbn [fst bind].
  - rewrite validate_not_keyerror. intros H. apply validate_stored in H. subst n. split; reflexivity.
  - destruct x; discriminate. Qed.

Theorem undictify_circuit_stored (d : jdict) (cs : list (lcomp R)) (g : label) : undictify_circuit R leb (JDict d) = Ok (cs, g) ->
  exists es, dget d s_components = Some (JList es) /\ mapR gen es = Ok cs.
Proof. unfold undictify_circuit. destruct (dget d s_components) as [[| | | | |es|]|]; try discriminate.
  destruct (mapR gen es) as [cs'|] eqn:E; [|discriminate]. cbn [bind]. destruct (mapR (to_comp R) cs') as [ccs|]; [|discriminate]. cbn [bind].
  destruct (ground_node R ccs); [|discriminate]. cbn [bind]. intros H. injection H as <- <-. exists es. split; [reflexivity|exact E]. Qed.

End LoaderFaults.

(* ====================================================================================================== *)
(* C19: the component constructors (interpreter of Gen.Tables.component_ctors)                              *)
(* ====================================================================================================== *)
(* what the generated table must satisfy for the sign theorems (checked by computation below): every guarded parameter
   is a parameter, is none of id / nodes / wavetype, and is stored under some key of the value dictionary *)
Definition mentions (e : vexpr) (p : label) : bool :=
  match e with VParam q | VReal q | VImag q => label_eqb q p | VConstZ _ => false end.
Definition ctor_saneb (c : ctor) : bool :=
  forallb (fun g => lmem g (map fst (c_params c))
                    && negb (label_eqb g s_id) && negb (label_eqb g s_nodes) && negb (label_eqb g s_wavetype)
                    && existsb (fun kv : str * vexpr => match snd kv with VParam q => label_eqb q g | _ => false end) (c_values c))
          (c_guards c).
Lemma ctors_sane : forall c, In c component_ctors -> ctor_saneb c = true.
Proof. apply forallb_forall. vm_compute. reflexivity. Qed.

Section CtorFaults.
Variable R : fops.
Variable leb : R -> R -> bool.
Notation jval := (jval R).
Notation jdict := (dict jval).
Notation "0" := (f0 R).
Ltac leq a b := destruct (label_eqb_spec a b).

Lemma check_keywords_ok (params : list label) (kw : jdict) :
  check_keywords R params kw = Ok tt <-> NoDup (dkeys kw) /\ (forall k, In k (dkeys kw) -> In k params).
Proof. unfold check_keywords. destruct (has_dup (dkeys kw)) eqn:D.
  - split; [discriminate|]. intros [ND _]. apply has_dup_false in ND. congruence.
  - apply has_dup_false in D. destruct (forallb (fun k => lmem k params) (dkeys kw)) eqn:F.
    + rewrite forallb_forall in F. split; [|reflexivity]. intros _. split; [exact D|]. intros k Hk. apply lmem_spec. auto.
    + split; [discriminate|]. intros [_ H]. assert (F' : forallb (fun k => lmem k params) (dkeys kw) = true).
      { apply forallb_forall. intros k Hk. apply lmem_spec. auto. } congruence. Qed.

Lemma check_keywords_dset (params : list label) (kw : jdict) p v :
  check_keywords R params kw = Ok tt -> In p params -> check_keywords R params (dset kw p v) = Ok tt.
Proof. rewrite !check_keywords_ok. intros [ND H] Hp. split; [apply NoDup_dset; exact ND|].
  intros k Hk. apply dkeys_dset in Hk. destruct Hk as [->|Hk]; auto. Qed.

(* the environment of a call in which one keyword was replaced *)
Lemma bind_defaults_upd (ps : list (str * pdefault)) (kw kw' env : jdict) p v :
  (forall q, dget kw' q = if label_eqb p q then Some v else dget kw q) ->
  bind_defaults R ps kw = Ok env ->
  exists env', bind_defaults R ps kw' = Ok env'
    /\ (forall q, q <> p -> dget env' q = dget env q) /\ (In p (map fst ps) -> dget env' p = Some v).
Proof. intros Hkw. revert env. induction ps as [|[q0 d0] ps IH]; intros env H.
  - simpl in *. exists []. split; [reflexivity|]. injection H as <-. split; [reflexivity|intros []].
  - cbn [bind_defaults] in H |- *. rewrite Hkw.
    destruct (match dget kw q0 with Some v0 => Ok v0 | None => match default_value R d0 with Some v0 => Ok v0 | None => Err ETypeError end end)
      as [v0|] eqn:E0; [|discriminate]. cbn [bind] in H.
    destruct (bind_defaults R ps kw) as [envr|] eqn:Er; [|discriminate]. cbn [bind] in H. injection H as <-.
    destruct (IH envr eq_refl) as [envr' [Hr' [Ho Hp]]]. rewrite Hr'.
    leq p q0.
    + subst q0. cbn [bind]. eexists. split; [reflexivity|]. split.
      * intros q Hq. cbn [dget]. leq p q; [congruence|]. apply Ho. exact Hq.
      * intros _. cbn [dget]. rewrite label_eqb_refl. reflexivity.
    + rewrite E0. cbn [bind]. eexists. split; [reflexivity|]. split.
      * intros q Hq. cbn [dget]. leq q0 q; [reflexivity|]. apply Ho. exact Hq.
      * intros Hin. cbn [dget]. leq q0 p; [congruence|]. apply Hp. simpl in Hin. destruct Hin as [Hin|Hin]; [congruence|exact Hin]. Qed.

Lemma bind_params_upd (ps : list (str * pdefault)) (kw env : jdict) p v :
  In p (map fst ps) -> bind_params R ps kw = Ok env ->
  exists env', bind_params R ps (dset kw p v) = Ok env' /\ (forall q, q <> p -> dget env' q = dget env q) /\ dget env' p = Some v.
Proof. intros Hp H. unfold bind_params in *. destruct (check_keywords R (map fst ps) kw) as [[]|] eqn:CK; [|discriminate]. cbn [bind] in H.
  rewrite (check_keywords_dset _ _ p v CK Hp). cbn [bind].
  destruct (bind_defaults_upd ps kw (dset kw p v) env p v (fun q => dget_dset kw p v q) H) as [env' [H1 [H2 H3]]].
  exists env'. split; [exact H1|]. split; [exact H2|exact (H3 Hp)]. Qed.

(* a keyword that was passed is what the body sees *)
Lemma bind_defaults_get (ps : list (str * pdefault)) (kw env : jdict) q v :
  bind_defaults R ps kw = Ok env -> In q (map fst ps) -> dget kw q = Some v -> dget env q = Some v.
Proof. revert env. induction ps as [|[q0 d0] ps IH]; intros env H Hin Hq; [destruct Hin|].
  cbn [bind_defaults] in H.
  destruct (match dget kw q0 with Some v0 => Ok v0 | None => match default_value R d0 with Some v0 => Ok v0 | None => Err ETypeError end end)
    as [v0|] eqn:E0; [|discriminate]. cbn [bind] in H.
  destruct (bind_defaults R ps kw) as [envr|] eqn:Er; [|discriminate]. cbn [bind] in H. injection H as <-.
  cbn [dget]. leq q0 q.
  - subst q0. rewrite Hq in E0. congruence.
  - apply IH; [reflexivity| |exact Hq]. simpl in Hin. destruct Hin as [Hin|Hin]; [congruence|exact Hin]. Qed.

Lemma bind_params_get (ps : list (str * pdefault)) (kw env : jdict) q v :
  bind_params R ps kw = Ok env -> dget kw q = Some v -> dget env q = Some v.
Proof. unfold bind_params. destruct (check_keywords R (map fst ps) kw) as [[]|] eqn:CK; [|discriminate]. cbn [bind]. intros H Hq.
  apply (bind_defaults_get ps kw env q v H); [|exact Hq]. apply check_keywords_ok in CK. destruct CK as [_ CK]. apply CK.
  apply dget_In. congruence. Qed.

Lemma check_guards_neg (gs : list str) (env env' : jdict) p x :
  (forall q, q <> p -> dget env' q = dget env q) -> dget env' p = Some (JNum x) -> ltb0 R leb x = true ->
  In p gs -> check_guards R leb gs env = Ok tt -> check_guards R leb gs env' = Err EValue.
Proof. intros Ho Hp Hx. induction gs as [|g gs IH]; intros Hin H; [destruct Hin|]. cbn [check_guards] in *. leq g p.
  - subst g. rewrite Hp. cbn [as_real]. rewrite Hx. reflexivity.
  - rewrite (Ho g n). destruct (dget env g) as [v|]; [|discriminate]. destruct (as_real R v) as [y|]; [|discriminate].
    destruct (ltb0 R leb y); [discriminate|]. apply IH; [|exact H]. destruct Hin as [Hin|Hin]; [congruence|exact Hin]. Qed.

Lemma check_guards_zero (gs : list str) (env env' : jdict) p x :
  (forall q, q <> p -> dget env' q = dget env q) -> dget env' p = Some (JNum x) -> ltb0 R leb x = false ->
  check_guards R leb gs env = Ok tt -> check_guards R leb gs env' = Ok tt.
Proof. intros Ho Hp Hx. induction gs as [|g gs IH]; intros H; [reflexivity|]. cbn [check_guards] in *. leq g p.
  - subst g. rewrite Hp. cbn [as_real]. rewrite Hx. destruct (dget env p) as [v|]; [|discriminate]. destruct (as_real R v) as [y|]; [|discriminate].
    destruct (ltb0 R leb y); [discriminate|]. exact (IH H).
  - rewrite (Ho g n). destruct (dget env g) as [v|]; [|discriminate]. destruct (as_real R v) as [y|]; [|discriminate].
    destruct (ltb0 R leb y); [discriminate|]. exact (IH H). Qed.

Notation evalkv env := (fun kv : str * vexpr => bind (eval_vexpr R env (snd kv)) (fun v => Ok (fst kv, v))).
Lemma values_upd (vs : list (str * vexpr)) (env env' : jdict) p x vals :
  (forall q, q <> p -> dget env' q = dget env q) -> dget env' p = Some (JNum x) ->
  mapR (evalkv env) vs = Ok vals ->
  exists vals', mapR (evalkv env') vs = Ok vals' /\ (forall key, In (key, VParam p) vs -> In (key, JNum x) vals').
Proof. intros Ho Hp. revert vals. induction vs as [|[key e] vs IH]; intros vals H.
  - exists []. split; [reflexivity|intros key []].
  - cbn [mapR fst snd] in H |- *. destruct (eval_vexpr R env e) as [v|] eqn:Ee; [|discriminate]. cbn [bind] in H.
    destruct (mapR (evalkv env) vs) as [valsr|] eqn:Er; [|discriminate]. injection H as <-.
    destruct (IH valsr eq_refl) as [valsr' [Hr' Hin']]. rewrite Hr'.
    assert (Ev : exists v', eval_vexpr R env' e = Ok v' /\ (e = VParam p -> v' = JNum x)).
    { destruct e as [q|q|q|z]; cbn [eval_vexpr] in Ee |- *.
      - leq q p.
        + subst q. rewrite Hp. eexists. split; [reflexivity|reflexivity].
        + rewrite (Ho q n). rewrite Ee. eexists. split; [reflexivity|]. intros X. congruence.
      - leq q p.
        + subst q. rewrite Hp. eexists. split; [reflexivity|discriminate].
        + rewrite (Ho q n). rewrite Ee. eexists. split; [reflexivity|discriminate].
      - leq q p.
        + subst q. rewrite Hp. eexists. split; [reflexivity|discriminate].
        + rewrite (Ho q n). rewrite Ee. eexists. split; [reflexivity|discriminate].
      - eexists. split; [reflexivity|discriminate]. }
    destruct Ev as [v' [Ev1 Ev2]]. rewrite Ev1. cbn [bind]. eexists. split; [reflexivity|].
    intros k [Hk|Hk].
    + injection Hk as -> ->. left. rewrite (Ev2 eq_refl). reflexivity.
    + right. apply Hin'. exact Hk. Qed.

Section OneCtor.
Variable c : ctor.
Hypothesis SANE : ctor_saneb c = true.
Variable p : label.
Hypothesis GUARD : In p (c_guards c).

Lemma guard_facts : In p (map fst (c_params c)) /\ p <> s_id /\ p <> s_nodes /\ p <> s_wavetype
  /\ exists key, In (key, VParam p) (c_values c).
Proof. unfold ctor_saneb in SANE. rewrite forallb_forall in SANE. specialize (SANE p GUARD).
  rewrite !andb_true_iff in SANE. destruct SANE as [[[[A B] C'] D] E].
  split; [apply lmem_spec; exact A|]. split; [leq p s_id; [discriminate|assumption]|].
  split; [leq p s_nodes; [discriminate|assumption]|]. split; [leq p s_wavetype; [discriminate|assumption]|].
  apply existsb_exists in E. destruct E as [[key e] [Hin He]]. cbn [snd] in He. destruct e as [q| | |]; try discriminate.
  leq q p; [|discriminate]. subst q. exists key. exact Hin. Qed.

(* from any accepted call: making the guarded parameter negative is a ValueError *)
Theorem ctor_negative (kw : jdict) (cmp : lcomp R) (x : R) :
  run_ctor R leb c kw = Ok cmp -> ltb0 R leb x = true -> run_ctor R leb c (dset kw p (JNum x)) = Err EValue.
Proof. intros H Hx. destruct guard_facts as [Hp [Nid [Nnodes [Nwave _]]]]. unfold run_ctor in *.
  destruct (bind_params R (c_params c) kw) as [env|] eqn:B; [|discriminate]. cbn [bind] in H.
  destruct (bind_params_upd _ kw env p (JNum x) Hp B) as [env' [B' [Ho Hpv]]]. rewrite B'. cbn [bind].
  assert (W : (if c_checks_wavetype c then check_wavetype R env' else Ok tt) = (if c_checks_wavetype c then check_wavetype R env else Ok tt)).
  { destruct (c_checks_wavetype c); [|reflexivity]. unfold check_wavetype. rewrite (Ho s_wavetype); [reflexivity|congruence]. }
  rewrite W. destruct (if c_checks_wavetype c then check_wavetype R env else Ok tt) as [[]|]; [|discriminate]. cbn [bind] in *.
  destruct (check_guards R leb (c_guards c) env) as [[]|] eqn:G; [|discriminate].
  rewrite (check_guards_neg _ env env' p x Ho Hpv Hx GUARD G). reflexivity. Qed.

(* ... and making it zero is accepted, zero being stored under the key(s) the constructor writes it to; type, id and
   terminals are those of the original call *)
Theorem ctor_zero (kw : jdict) (cmp : lcomp R) :
  run_ctor R leb c kw = Ok cmp -> leb 0 0 = true ->
  exists cmp', run_ctor R leb c (dset kw p (JNum 0)) = Ok cmp'
    /\ lc_type cmp' = lc_type cmp /\ lc_id cmp' = lc_id cmp /\ lc_nodes cmp' = lc_nodes cmp
    /\ (exists key, In (key, VParam p) (c_values c))
    /\ (forall key, In (key, VParam p) (c_values c) -> In (key, JNum 0) (lc_value cmp')).
Proof. intros H H0. destruct guard_facts as [Hp [Nid [Nnodes [Nwave Hkey]]]]. unfold run_ctor in *.
  destruct (bind_params R (c_params c) kw) as [env|] eqn:B; [|discriminate]. cbn [bind] in H.
  destruct (bind_params_upd _ kw env p (JNum 0) Hp B) as [env' [B' [Ho Hpv]]]. rewrite B'. cbn [bind].
  assert (W : (if c_checks_wavetype c then check_wavetype R env' else Ok tt) = (if c_checks_wavetype c then check_wavetype R env else Ok tt)).
  { destruct (c_checks_wavetype c); [|reflexivity]. unfold check_wavetype. rewrite (Ho s_wavetype); [reflexivity|congruence]. }
  rewrite W. destruct (if c_checks_wavetype c then check_wavetype R env else Ok tt) as [[]|]; [|discriminate]. cbn [bind] in *.
  destruct (check_guards R leb (c_guards c) env) as [[]|] eqn:G; [|discriminate]. cbn [bind] in H.
  assert (Hz : ltb0 R leb 0 = false) by (unfold ltb0; rewrite H0; reflexivity).
  rewrite (check_guards_zero _ env env' p 0 Ho Hpv Hz G). cbn [bind].
  destruct (mapR (evalkv env) (c_values c)) as [vals|] eqn:V; [|discriminate]. cbn [bind] in H.
  destruct (values_upd _ env env' p 0 vals Ho Hpv V) as [vals' [V' Hin]]. rewrite V'. cbn [bind].
  rewrite (Ho s_id) by congruence. rewrite (Ho s_nodes) by congruence.
  destruct (match dget env s_id with Some v => as_label R v | None => Err EOther end) as [idv|]; [|discriminate]. cbn [bind] in *.
  destruct (match dget env s_nodes with Some v => as_labels R v | None => Err EOther end) as [nodes|]; [|discriminate]. cbn [bind] in *.
  injection H as <-. eexists. split; [reflexivity|]. cbn. repeat split; try exact Hkey. exact Hin. Qed.
End OneCtor.

(* an unknown waveform name is rejected by the two periodic constructors, before any sign check *)
Theorem ctor_unknown_wavetype (c : ctor) (kw env : jdict) (v : jval) :
  c_checks_wavetype c = true -> bind_params R (c_params c) kw = Ok env -> dget kw s_wavetype = Some v ->
  (forall w, v = JStr w -> lmem w wavetypes = false) -> run_ctor R leb c kw = Err EUnknownWavetype.
Proof. intros Hc B Hv Hw. unfold run_ctor. rewrite B. cbn [bind]. rewrite Hc. unfold check_wavetype.
  rewrite (bind_params_get _ kw env s_wavetype v B Hv). destruct v as [| | |w| | |]; try reflexivity. rewrite (Hw w eq_refl). reflexivity. Qed.

(* what an accepted constructor call stores: the type string of the table, the identifier and terminals passed *)
Theorem ctor_stored (c : ctor) (kw : jdict) (cmp : lcomp R) (i : label) (ns : list label) :
  run_ctor R leb c kw = Ok cmp -> dget kw s_id = Some (JStr i) -> dget kw s_nodes = Some (JList (map (fun n => JStr n) ns)) ->
  lc_type cmp = c_type c /\ lc_id cmp = i /\ lc_nodes cmp = ns.
Proof. intros H Hi Hn. unfold run_ctor in H. destruct (bind_params R (c_params c) kw) as [env|] eqn:B; [|discriminate]. cbn [bind] in H.
  destruct (if c_checks_wavetype c then check_wavetype R env else Ok tt) as [[]|]; [|discriminate]. cbn [bind] in H.
  destruct (check_guards R leb (c_guards c) env) as [[]|]; [|discriminate]. cbn [bind] in H.
  destruct (mapR _ (c_values c)) as [vals|]; [|discriminate]. cbn [bind] in H.
  rewrite (bind_params_get _ kw env _ _ B Hi), (bind_params_get _ kw env _ _ B Hn) in H. cbn [as_label as_labels bind] in H.
  assert (E : mapR (as_label R) (map (fun n => JStr n) ns) = Ok ns).
  { clear. induction ns as [|n ns IH]; simpl; [reflexivity|]. rewrite IH. reflexivity. }
  rewrite E in H. cbn [bind] in H. injection H as <-. repeat split. Qed.

(* generate_component passes ValueError / UnknownWavetype through *)
Lemma typeerror_to_incorrect_other {X} (r : res X) e : r = Err e -> e <> ETypeError -> typeerror_to_incorrect r = Err e.
Proof. intros -> H. destruct e; try reflexivity. congruence. Qed.

End CtorFaults.

(* ====================================================================================================== *)
(* C17: the circuit loader                                                                                 *)
(* ====================================================================================================== *)
Section CircuitLoader.
Variable R : fops.
Variable leb : R -> R -> bool.
Notation jval := (jval R).
Notation jdict := (dict jval).
Ltac leq a b := destruct (label_eqb_spec a b).

(* a complete component description is the constructor call components.<f>(id=.., nodes=.., **value), a TypeError of
   which is reported as IncorrectComponentInformation *)
Theorem generate_component_call (d vd : jdict) (idv nv : jval) (t f : label) :
  dget d s_id = Some idv -> dget d s_value = Some (JDict vd) -> dget d s_type = Some (JStr t) -> dget d s_nodes = Some nv ->
  tfind t circuit_loader_table = Some f ->
  generate_component R leb (JDict d) = typeerror_to_incorrect (construct R leb f ((s_id, idv) :: (s_nodes, nv) :: vd)).
Proof. intros H1 H2 H3 H4 Hf.
  unfold generate_component, generate_component_st, generate_component_local, sbind, sread, spop, slift. cbn [fst].
  rewrite H1, H2. rewrite dget_ddel. lblsimp. rewrite H3. rewrite !dget_ddel. lblsimp. rewrite H4.
  cbn [lookup_component_factory]. rewrite Hf. reflexivity. Qed.

(* every row of circuit_component_translators names a constructor that stores the row's own type string *)
Definition circuit_table_check : bool :=
  forallb (fun tf : str * str => match find_ctor_fun (snd tf) with Some c => label_eqb (c_type c) (fst tf) | None => false end)
          circuit_loader_table.
Lemma circuit_table_ok : forall t f, In (t, f) circuit_loader_table -> exists c, find_ctor_fun f = Some c /\ c_type c = t.
Proof. assert (H : circuit_table_check = true) by (vm_compute; reflexivity). unfold circuit_table_check in H. rewrite forallb_forall in H.
  intros t f Hin. specialize (H (t, f) Hin). cbn [fst snd] in H. destruct (find_ctor_fun f) as [c|]; [|discriminate]. exists c.
  split; [reflexivity|]. leq (c_type c) t; [assumption|discriminate]. Qed.

(* what an accepted constructor call stores in the value dictionary *)
Notation evalkv env := (fun kv : str * vexpr => bind (eval_vexpr R env (snd kv)) (fun v => Ok (fst kv, v))).
Lemma values_In (vs : list (str * vexpr)) (env : jdict) vals key e :
  mapR (evalkv env) vs = Ok vals -> In (key, e) vs -> exists v, eval_vexpr R env e = Ok v /\ In (key, v) vals.
Proof. revert vals. induction vs as [|[k0 e0] vs IH]; intros vals H Hin; [destruct Hin|].
  cbn [mapR fst snd] in H. destruct (eval_vexpr R env e0) as [v0|] eqn:E0; [|discriminate]. cbn [bind] in H.
  destruct (mapR (evalkv env) vs) as [valsr|] eqn:Er; [|discriminate]. injection H as <-.
  destruct Hin as [Hin|Hin].
  - injection Hin as -> ->. exists v0. split; [exact E0|left; reflexivity].
  - destruct (IH valsr eq_refl Hin) as [v [Hv1 Hv2]]. exists v. split; [exact Hv1|right; exact Hv2]. Qed.

Theorem ctor_values_stored (c : ctor) (kw : jdict) (cmp : lcomp R) (key q : label) (v : jval) :
  run_ctor R leb c kw = Ok cmp -> dget kw q = Some v ->
  (In (key, VParam q) (c_values c) -> In (key, v) (lc_value cmp))
  /\ (forall z, v = JCplx z -> In (key, VReal q) (c_values c) -> In (key, JNum (fst z)) (lc_value cmp))
  /\ (forall z, v = JCplx z -> In (key, VImag q) (c_values c) -> In (key, JNum (snd z)) (lc_value cmp))
  /\ (forall x, v = JNum x -> In (key, VReal q) (c_values c) -> In (key, JNum x) (lc_value cmp))
  /\ (forall x, v = JNum x -> In (key, VImag q) (c_values c) -> In (key, JNum (f0 R)) (lc_value cmp)).
Proof. intros H Hq. unfold run_ctor in H. destruct (bind_params R (c_params c) kw) as [env|] eqn:B; [|discriminate]. cbn [bind] in H.
  destruct (if c_checks_wavetype c then check_wavetype R env else Ok tt) as [[]|]; [|discriminate]. cbn [bind] in H.
  destruct (check_guards R leb (c_guards c) env) as [[]|]; [|discriminate]. cbn [bind] in H.
  destruct (mapR (evalkv env) (c_values c)) as [vals|] eqn:V; [|discriminate]. cbn [bind] in H.
  destruct (match dget env s_id with Some v => as_label R v | None => Err EOther end) as [idv|]; [|discriminate]. cbn [bind] in H.
  destruct (match dget env s_nodes with Some v => as_labels R v | None => Err EOther end) as [nodes|]; [|discriminate]. cbn [bind] in H.
  injection H as <-. cbn [lc_value]. pose proof (bind_params_get R _ kw env q v B Hq) as Hv.
  repeat split.
  - intros Hin. destruct (values_In _ env vals key _ V Hin) as [v' [E1 E2]]. cbn [eval_vexpr] in E1. rewrite Hv in E1. injection E1 as <-. exact E2.
  - intros z -> Hin. destruct (values_In _ env vals key _ V Hin) as [v' [E1 E2]]. cbn [eval_vexpr] in E1. rewrite Hv in E1. injection E1 as <-. exact E2.
  - intros z -> Hin. destruct (values_In _ env vals key _ V Hin) as [v' [E1 E2]]. cbn [eval_vexpr] in E1. rewrite Hv in E1. injection E1 as <-. exact E2.
  - intros x -> Hin. destruct (values_In _ env vals key _ V Hin) as [v' [E1 E2]]. cbn [eval_vexpr] in E1. rewrite Hv in E1. injection E1 as <-. exact E2.
  - intros x -> Hin. destruct (values_In _ env vals key _ V Hin) as [v' [E1 E2]]. cbn [eval_vexpr] in E1. rewrite Hv in E1. injection E1 as <-. exact E2. Qed.

(* component types that have a constructor but no row in the circuit loader table *)
Definition unloadable_types : list label :=
  filter (fun t => match tfind t circuit_loader_table with Some _ => false | None => true end) (map c_type component_ctors).
End CircuitLoader.

(* ====================================================================================================== *)
(* boolean comparisons for the concrete examples (equalities between Qc terms are decided, not normalised)  *)
(* ====================================================================================================== *)
From CC Require Import Model.Transformers Model.Codec.
Fixpoint list_eqb {A} (eqb : A -> A -> bool) (l1 l2 : list A) : bool :=
  match l1, l2 with [], [] => true | a :: r, b :: s => eqb a b && list_eqb eqb r s | _, _ => false end.
Definition network_eqb {K : fops} (a b : network K) : bool :=
  list_eqb branch_eqb (branches a) (branches b) && label_eqb (zero a) (zero b).
Definition is_ok {A} (r : res A) (p : A -> bool) : bool := match r with Ok a => p a | Err _ => false end.
Definition is_err {A} (r : res A) (e : err) : bool := match r with Ok _ => false | Err x => Z.eqb (err_code x) (err_code e) end.
Definition lcomp_eqb (R : fops) (a b : lcomp R) : bool :=
  label_eqb (lc_type a) (lc_type b) && label_eqb (lc_id a) (lc_id b) && list_eqb label_eqb (lc_nodes a) (lc_nodes b)
  && jval_eqb R (JDict (lc_value a)) (JDict (lc_value b)).

(* ====================================================================================================== *)
(* C19: the sign rule over the generated table, at construction and through the loader                     *)
(* ====================================================================================================== *)
Section Sign.
Variable R : fops.
Variable leb : R -> R -> bool.
Notation jval := (jval R).
Notation jdict := (dict jval).

Theorem sign_negative (c : ctor) (p : label) (kw : jdict) (cmp : lcomp R) (x : R) :
  In c component_ctors -> In p (c_guards c) -> run_ctor R leb c kw = Ok cmp -> ltb0 R leb x = true ->
  run_ctor R leb c (dset kw p (JNum x)) = Err EValue.
Proof. intros Hc Hp. exact (ctor_negative R leb c (ctors_sane c Hc) p Hp kw cmp x). Qed.

Theorem sign_zero (c : ctor) (p : label) (kw : jdict) (cmp : lcomp R) :
  In c component_ctors -> In p (c_guards c) -> run_ctor R leb c kw = Ok cmp -> leb (f0 R) (f0 R) = true ->
  exists cmp', run_ctor R leb c (dset kw p (JNum (f0 R))) = Ok cmp'
    /\ lc_type cmp' = lc_type cmp /\ lc_id cmp' = lc_id cmp /\ lc_nodes cmp' = lc_nodes cmp
    /\ (exists key, In (key, VParam p) (c_values c))
    /\ (forall key, In (key, VParam p) (c_values c) -> In (key, JNum (f0 R)) (lc_value cmp')).
Proof. intros Hc Hp. exact (ctor_zero R leb c (ctors_sane c Hc) p Hp kw cmp). Qed.

Lemma find_ctor_fun_In f c : find_ctor_fun f = Some c -> In c component_ctors.
Proof. unfold find_ctor_fun. intros H. apply find_some in H. tauto. Qed.

(* the same through generate_component: a description that loads, with a guarded value made negative *)
Theorem loaded_negative (d vd : jdict) (idv nv : jval) (t f : label) (c : ctor) (p : label) (cmp : lcomp R) (x : R) :
  dget d s_id = Some idv -> dget d s_value = Some (JDict vd) -> dget d s_type = Some (JStr t) -> dget d s_nodes = Some nv ->
  tfind t circuit_loader_table = Some f -> find_ctor_fun f = Some c -> In p (c_guards c) ->
  generate_component R leb (JDict d) = Ok cmp -> ltb0 R leb x = true ->
  generate_component R leb (JDict (dset d s_value (JDict (dset vd p (JNum x))))) = Err EValue.
Proof. intros H1 H2 H3 H4 Hf Hc Hp Hok Hx.
  pose proof (find_ctor_fun_In f c Hc) as Hin.
  destruct (guard_facts c (ctors_sane c Hin) p Hp) as [_ [Nid [Nnodes _]]].
  rewrite (generate_component_call R leb d vd idv nv t f H1 H2 H3 H4 Hf) in Hok. unfold construct in Hok. rewrite Hc in Hok.
  destruct (run_ctor R leb c ((s_id, idv) :: (s_nodes, nv) :: vd)) as [cmp0|e] eqn:E; [|destruct e; discriminate].
  rewrite (generate_component_call R leb (dset d s_value (JDict (dset vd p (JNum x)))) (dset vd p (JNum x)) idv nv t f).
  - unfold construct. rewrite Hc.
    assert (Es : (s_id, idv) :: (s_nodes, nv) :: dset vd p (JNum x) = dset ((s_id, idv) :: (s_nodes, nv) :: vd) p (JNum x)).
    { cbn [dset]. rewrite (label_eqb_neq s_id p) by congruence. rewrite (label_eqb_neq s_nodes p) by congruence. reflexivity. }
    rewrite Es. rewrite (sign_negative c p _ cmp0 x Hin Hp E Hx). reflexivity.
  - rewrite dget_dset. lblsimp. exact H1.
  - rewrite dget_dset. lblsimp. reflexivity.
  - rewrite dget_dset. lblsimp. exact H3.
  - rewrite dget_dset. lblsimp. exact H4.
  - exact Hf. Qed.
End Sign.

(* ====================================================================================================== *)
(* C17: the order of the keys of an entry is immaterial                                                    *)
(* ====================================================================================================== *)
From Coq Require Import Permutation.

Lemma perm_filter {A} (f : A -> bool) (l l' : list A) : Permutation l l' -> Permutation (filter f l) (filter f l').
Proof. induction 1 as [|x l l' _ IH|x y l|l l' l'' _ IH1 _ IH2]; simpl.
  - constructor.
  - destruct (f x); [constructor|]; exact IH.
  - destruct (f x), (f y); try reflexivity. apply perm_swap.
  - etransitivity; eassumption. Qed.

Lemma has_dup_perm (l l' : list label) : Permutation l l' -> has_dup l = has_dup l'.
Proof. intros P. destruct (has_dup l) eqn:E, (has_dup l') eqn:E'; try reflexivity.
  - apply has_dup_false in E'. apply (Permutation_NoDup (Permutation_sym P)) in E'. apply has_dup_false in E'. congruence.
  - apply has_dup_false in E. apply (Permutation_NoDup P) in E. apply has_dup_false in E. congruence. Qed.

Lemma forallb_perm {A} (f : A -> bool) (l l' : list A) : Permutation l l' -> forallb f l = forallb f l'.
Proof. induction 1 as [|x l l' _ IH|x y l|l l' l'' _ IH1 _ IH2]; simpl; try congruence.
  destruct (f x), (f y); reflexivity. Qed.

Section KeyOrder.
Variable R : fops.
Variable pi : R.
Variable cis : R -> R * R.
Notation C := (Cx R).
Notation jval := (jval R).
Notation jdict := (dict jval).
Ltac leq a b := destruct (label_eqb_spec a b).

(* the same dictionary up to the order of its items *)
Definition deq (d d' : jdict) : Prop := Permutation (dkeys d) (dkeys d') /\ forall k, dget d k = dget d' k.

Lemma dkeys_ddel_filter (d : jdict) k : dkeys (ddel d k) = filter (fun x => negb (label_eqb x k)) (dkeys d).
Proof. induction d as [|[q v] d IH]; simpl; [reflexivity|]. destruct (label_eqb q k); simpl; rewrite <- IH; reflexivity. Qed.

Lemma dkeys_dset_cases (d : jdict) k v : dkeys (dset d k v) = if lmem k (dkeys d) then dkeys d else dkeys d ++ [k].
Proof. induction d as [|[q w] d IH]; simpl; [reflexivity|]. rewrite (label_eqb_sym k q). leq q k; simpl.
  - reflexivity.
  - fold (dkeys (dset d k v)). rewrite IH. fold (lmem k (dkeys d)). destruct (lmem k (dkeys d)); reflexivity. Qed.

Lemma deq_ddel d d' k : deq d d' -> deq (ddel d k) (ddel d' k).
Proof. intros [P G]. split.
  - rewrite !dkeys_ddel_filter. apply perm_filter. exact P.
  - intros q. rewrite !dget_ddel, G. reflexivity. Qed.

Lemma lmem_perm x (l l' : list label) : Permutation l l' -> lmem x l = lmem x l'.
Proof. intros P. destruct (lmem x l) eqn:E, (lmem x l') eqn:E'; try reflexivity.
  - apply lmem_spec in E. apply lmem_false in E'. exfalso. apply E'. exact (Permutation_in x P E).
  - apply lmem_spec in E'. apply lmem_false in E. exfalso. apply E. exact (Permutation_in x (Permutation_sym P) E'). Qed.

Lemma deq_dset d d' k v : deq d d' -> deq (dset d k v) (dset d' k v).
Proof. intros [P G]. split.
  - rewrite !dkeys_dset_cases. rewrite (lmem_perm k _ _ P). destruct (lmem k (dkeys d')); [exact P|].
    apply Permutation_app; [exact P|reflexivity].
  - intros q. rewrite !dget_dset, G. reflexivity. Qed.

Lemma deq_app_l (a d d' : jdict) : deq d d' -> deq (a ++ d) (a ++ d').
Proof. intros [P G]. split.
  - unfold dkeys. rewrite !map_app. apply Permutation_app; [reflexivity|exact P].
  - intros q. rewrite !dget_app, G. reflexivity. Qed.

Lemma apply_conv_deq convs (kw kw' acc : jdict) : deq kw kw' ->
  match apply_conv R pi cis convs kw acc, apply_conv R pi cis convs kw' acc with
  | Ok (a, k), Ok (a', k') => a = a' /\ deq k k'
  | Err e, Err e' => e = e'
  | _, _ => False
  end.
Proof. revert kw kw' acc. induction convs as [|[[[p k] popped] tc] convs IH]; intros kw kw' acc D.
  - simpl. split; [reflexivity|exact D].
  - cbn [apply_conv]. rewrite (proj2 D k). destruct (dget kw' k) as [v|]; [|reflexivity].
    destruct (if tc then bind (to_complex R pi cis false v) (fun c => Ok (JCplx c)) else Ok v) as [v'|e]; [|reflexivity]. cbn [bind].
    apply IH. destruct popped; [apply deq_ddel; exact D|exact D]. Qed.

Lemma element_ctor_deq ctor (d d' : jdict) : deq d d' -> call_element_ctor R ctor d = call_element_ctor R ctor d'.
Proof. intros [P G]. unfold call_element_ctor. destruct (find_ector ctor) as [params|]; [|reflexivity].
  assert (E1 : bind_element_args R params d = bind_element_args R params d').
  { unfold bind_element_args.
    assert (CK : check_keywords R (map fst params) d = check_keywords R (map fst params) d').
    { unfold check_keywords. rewrite (has_dup_perm _ _ P), (forallb_perm _ _ _ P). reflexivity. }
    rewrite CK. destruct (check_keywords R (map fst params) d') as [[]|]; [|reflexivity]. cbn [bind].
    assert (E : forallb (fun p : label * bool => snd p || dhas d (fst p)) params = forallb (fun p : label * bool => snd p || dhas d' (fst p)) params).
    { clear -G. induction params as [|p params IHp]; simpl; [reflexivity|]. unfold dhas at 1 3. rewrite G, IHp. reflexivity. }
    rewrite E. reflexivity. }
  rewrite E1. destruct (bind_element_args R params d') as [[]|]; [|reflexivity]. cbn [bind].
  unfold element_body, arg_name, arg_c. rewrite !G. reflexivity. Qed.

Lemma call_translator_deq e (kw kw' : jdict) : deq kw kw' -> call_translator R pi cis e kw = call_translator R pi cis e kw'.
Proof. intros D. unfold call_translator. pose proof (apply_conv_deq (l_conv e) kw kw' [] D) as H.
  destruct (apply_conv R pi cis (l_conv e) kw []) as [[a k]|x], (apply_conv R pi cis (l_conv e) kw' []) as [[a' k']|x']; try contradiction.
  - destruct H as [<- Dk]. cbn [bind fst snd]. destruct (l_rest e); [|reflexivity]. apply element_ctor_deq. apply deq_app_l. exact Dk.
  - subst x'. reflexivity. Qed.

Lemma entry_local_deq (d d' : jdict) : deq d d' ->
  fst (entry_to_branch_local R pi cis d) = fst (entry_to_branch_local R pi cis d').
Proof. intros D. unfold entry_to_branch_local, sbind, spop, sset, sget, slift.
  rewrite (proj2 D s_N1). destruct (dget d' s_N1) as [n1|]; [|reflexivity].
  pose proof (deq_ddel _ _ s_N1 D) as D1. rewrite (proj2 D1 s_N2). destruct (dget (ddel d' s_N1) s_N2) as [n2|]; [|reflexivity].
  pose proof (deq_ddel _ _ s_N2 D1) as D2. rewrite (proj2 D2 s_id). destruct (dget (ddel (ddel d' s_N1) s_N2) s_id) as [idv|]; [|reflexivity].
  pose proof (deq_dset _ _ s_name idv (deq_ddel _ _ s_id D2)) as D3. rewrite (proj2 D3 s_type).
  destruct (dget (dset (ddel (ddel (ddel d' s_N1) s_N2) s_id) s_name idv) s_type) as [ty|]; [|reflexivity].
  pose proof (deq_ddel _ _ s_type D3) as D4. cbn [fst].
  destruct (lookup_translator R ty) as [e|]; [|reflexivity]. cbn [bind]. rewrite (call_translator_deq e _ _ D4). reflexivity. Qed.

(* a dictionary with distinct keys, its items permuted *)
Lemma perm_deq (d d0 : jdict) : NoDup (dkeys d0) -> Permutation d d0 -> deq d d0.
Proof. intros ND P. assert (PK : Permutation (dkeys d) (dkeys d0)) by (unfold dkeys; apply Permutation_map; exact P).
  split; [exact PK|]. intros k. assert (ND' : NoDup (dkeys d)) by (apply (Permutation_NoDup (Permutation_sym PK)); exact ND).
  assert (In_dget : forall (x : jdict), NoDup (dkeys x) -> forall q v, In (q, v) x -> dget x q = Some v).
  { intros x. induction x as [|[q0 v0] x IH]; intros NDx q v Hin; [destruct Hin|]. inversion NDx as [|? ? Hq NDx']; subst. cbn [dget].
    destruct Hin as [Hin|Hin].
    - injection Hin as -> ->. rewrite label_eqb_refl. reflexivity.
    - leq q0 q; [|apply IH; assumption]. subst q0. exfalso. apply Hq. apply (in_map fst) in Hin. exact Hin. }
  destruct (dget d0 k) as [v|] eqn:E0.
  - apply dget_Some_In in E0. apply (Permutation_in _ (Permutation_sym P)) in E0. apply In_dget; assumption.
  - apply dget_None. apply dget_None in E0. intros Hin. apply E0. exact (Permutation_in k PK Hin). Qed.

Definition entry_dict (e : espec R) : jdict :=
  (s_type, JStr (k_type R (e_kind R e))) :: (s_id, JStr (e_id R e)) :: (s_N1, JStr (e_n1 R e)) :: (s_N2, JStr (e_n2 R e))
  :: combine (k_cplx R (e_kind R e)) (map (note_doc R) (e_cs R e)) ++ combine (k_real R (e_kind R e)) (map (fun x => JNum x) (e_rs R e)).

Lemma entry_dict_nodup (e : espec R) : espec_ok R e -> has_dup (dkeys (entry_dict e)) = false.
Proof. destruct e as [k id n1 n2 cs rs]. unfold espec_ok. cbn [e_kind e_cs e_rs]. intros [Hk [Hc Hr]].
  unfold documented_kinds in Hk.
  repeat (destruct Hk as [<-|Hk]; [cbn [k_cplx k_real List.length] in Hc, Hr; lens'; vm_compute; reflexivity|]).
  destruct Hk. Qed.

(* an entry with exactly the documented keys, written in any order, loads to the documented branch *)
Theorem each_kind_any_order (e : espec R) (d : jdict) : espec_ok R e -> Permutation d (entry_dict e) ->
  fst (entry_to_branch_st R pi cis true (JDict d)) = Ok (entry_branch R cis e).
Proof. intros He P. pose proof (each_kind_entry R pi cis e He) as H0. change (entry_doc R e) with (JDict (entry_dict e)) in H0.
  cbn [entry_to_branch_st] in H0 |- *.
  pose proof (entry_local_deq d (entry_dict e) (perm_deq d _ (proj1 (has_dup_false _) (entry_dict_nodup e He)) P)) as E.
  destruct (entry_to_branch_local R pi cis d) as [r d1]. destruct (entry_to_branch_local R pi cis (entry_dict e)) as [r0 d0].
  cbn [fst] in *. congruence. Qed.
End KeyOrder.

Section KeyOrderDescription.
Variable R : fops.
Variable pi : R.
Variable cis : R -> R * R.
Notation jdict := (dict (jval R)).

Theorem each_kind_description_any_order (es : list (espec R * jdict)) :
  (forall p, In p es -> espec_ok R (fst p) /\ Permutation (snd p) (entry_dict R (fst p))) ->
  load_network R pi cis (JList (map (fun p => JDict (snd p)) es))
  = validate {| branches := map (fun p => entry_branch R cis (fst p)) es; zero := s_zero |}.
Proof. intros H. unfold load_network, load_network_st, load_network_gen.
  match goal with |- context [entries_st R pi cis true ?l] =>
    assert (E : fst (entries_st R pi cis true l) = Ok (map (fun p : espec R * jdict => entry_branch R cis (fst p)) es)) end.
  { induction es as [|[e d] es IH]; [reflexivity|]. cbn [map entries_st fst snd].
    destruct (H (e, d) (or_introl eq_refl)) as [He Hp]. cbn [fst snd] in He, Hp.
    pose proof (each_kind_any_order R pi cis e d He Hp) as Hb.
    destruct (entry_to_branch_st R pi cis true (JDict d)) as [r e']. cbn [fst] in Hb. subst r.
    specialize (IH (fun x Hx => H x (or_intror Hx))).
    match goal with |- context [entries_st R pi cis true ?l] => destruct (entries_st R pi cis true l) as [rr r'] end.
    cbn [fst] in IH. subst rr. reflexivity. }
  match goal with |- context [entries_st R pi cis true ?l] => destruct (entries_st R pi cis true l) as [r l'] end.
  cbn [fst] in E. subst r. cbn [fst bind]. apply validate_not_keyerror. Qed.
End KeyOrderDescription.

(* statements in the form used by Properties/C17.v *)
Section Restated.
Variable R : fops.
Variable leb : R -> R -> bool.
Variable pi : R.
Variable cis : R -> R * R.

Theorem each_kind_entry_unfolded (k : kdoc R) (id n1 n2 : label) (cs : list (cnote R)) (rs : list R) :
  In k (documented_kinds R) -> List.length cs = List.length (k_cplx R k) -> List.length rs = List.length (k_real R k) ->
  let entry := JDict ((s_type, JStr (k_type R k)) :: (s_id, JStr id) :: (s_N1, JStr n1) :: (s_N2, JStr n2)
                      :: combine (k_cplx R k) (map (note_doc R) cs) ++ combine (k_real R k) (map (fun x => JNum x) rs)) in
  fst (entry_to_branch_st R pi cis true entry)
  = Ok (Build_branch n1 n2 (k_elem R k id (map (note_val R cis) cs ++ map (fun x => ((x, f0 R) : Cx R)) rs))).
Proof. intros Hk Hc Hr.
  exact (each_kind_entry R pi cis {| e_kind := k; e_id := id; e_n1 := n1; e_n2 := n2; e_cs := cs; e_rs := rs |} (conj Hk (conj Hc Hr))). Qed.

Theorem no_mutation_others (deg : bool) (d : jval R) :
  snd (to_complex_st R pi cis deg d) = d /\ snd (dictify_all_st R d) = d /\ snd (undictify_all_st R leb pi cis d) = d
  /\ snd (generate_component_st R leb d) = d /\ snd (undictify_circuit_st R leb d) = d.
Proof. repeat split. destruct d; reflexivity. Qed.
End Restated.

Lemma map_neq {A B} (f : A -> B) (l l' : list A) : map f l <> map f l' -> l <> l'.
Proof. intros H E. apply H. rewrite E. reflexivity. Qed.
