(* Theory/ElementsGenThm.v — the constructors of SimpleCircuit/Elements.py as REGENERATED on every run (Gen/ElementsGen.v,
   produced by tools/gen_elements.py as data in the vocabulary of Model/ElementsPrims.v) against the hand-written model
   Model/SaveLoad.v:
   A. dictionaries; the `_userparams` bookkeeping: what schemdraw records step by step ([record_user] of the explicit
      keywords, then of `kwargs`) is the one-pass formula of [mk_user] (keyword arguments have pairwise distinct names);
   B. running the regenerated constructor of each class is [construct] — for keyword arguments inside the modelled domain
      ([kw_typed]: reverse / sin / deg are bools, name is a str, when given); outside it both sides answer an error, but
      not always the same one (the interpreter follows Python's order: binding, body, decorator);
   C. Ground: schemdraw's `self.params[..] = ..` writes `theta` and `drop` into _userparams (Node.__init__), which
      [mk_user] does not list: every other field agrees;
   D. the facts read off without running anything: named parameters = [ctor_params], `reverse=` handed to schemdraw =
      [sd_reverse], defaults of `name`, the sine shift of the AC sources only, the `name` property of Line.
   Generic in the reals [R]; the laws of [R] are used for one identity only: 2 = 1 + 1. *)
From Coq Require Import List Bool NArith ZArith Arith String Lia Field Ring.
From CC Require Import Theory.Field Theory.Complex Theory.Labels Model.Network Model.Circuit Model.Loaders Theory.LoadersThm
  Model.SaveLoad Theory.SaveLoadThm Model.SaveLoadPrims Model.ElementsPrims Gen.ElementsGen.
Import ListNotations.

(* the facts of a class of the model *)
Definition facts_of (c : scls) : option class_facts :=
  match cls_pyname c with Some n => tlook g_class_facts n | None => None end.

Section DictMore.
Context {A : Type}.
Implicit Types d : dict A.
Lemma dset_same d k v : dget d k = Some v -> dset d k v = d.
Proof.
  induction d as [|[k' v'] r IH]; cbn [dget dset]; [discriminate|].
  destruct (label_eqb k' k) eqn:E; intros H.
  - injection H as ->. destruct (label_eqb_spec k' k) as [->|]; [reflexivity|discriminate].
  - f_equal. apply IH. exact H.
Qed.
Lemma NoDup_filter_keys (p : label * A -> bool) d : NoDup (map fst d) -> NoDup (map fst (filter p d)).
Proof.
  induction d as [|kv r IH]; intros ND; [constructor|]. cbn [map] in ND. inversion ND as [|? ? NI ND']; subst.
  cbn [filter]. destruct (p kv); [|apply IH; exact ND']. cbn [map]. constructor; [|apply IH; exact ND'].
  intros H. apply NI. apply in_map_iff in H. destruct H as [x [Hx Hin]]. apply filter_In in Hin.
  apply in_map_iff. exists x. split; [exact Hx|apply Hin].
Qed.
Lemma dget_filter_nodup (p : label * A -> bool) d k v : NoDup (map fst d) -> In (k, v) d -> p (k, v) = true ->
  dget (filter p d) k = Some v.
Proof.
  intros ND H Hp. apply dget_nodup; [apply NoDup_filter_keys; exact ND|]. apply filter_In. split; assumption.
Qed.
Lemma update_app d (a b : dict A) : update d (a ++ b) = update (update d a) b.
Proof. unfold update. apply fold_left_app. Qed.
End DictMore.

Lemma scls_ground_dec (c : scls) : {c = CGround} + {c <> CGround}.
Proof. destruct c; try (right; discriminate). left. reflexivity. Qed.

Section GenEq.
Variable R : fops.
Hypothesis ROK : fops_ok R.
Variable pi : R.
Add Field RfieldEG : (Kth R ROK).
Notation C := (Cx R).
Notation jv := (jval R).
Notation kwargs := (dict (jval R)).
Notation symbol := (symbol R).

(* ====================================================================================================== *)
(* A. _userparams                                                                                          *)
(* ====================================================================================================== *)
(* one step of [mk_user]'s pass over the keyword arguments *)
Definition hand_step (ps : list label) (d : kwargs) (kv : label * jv) : kwargs :=
  if not_null R (snd kv) || lmem (fst kv) ps then d else dset d (fst kv) JNull.

Lemma not_null_false (v : jv) : not_null R v = false -> v = JNull.
Proof. destruct v; cbn; intros H; try discriminate H; reflexivity. Qed.

Lemma user_fold (ps : list label) : forall (kw u : kwargs),
  NoDup (map fst kw) ->
  (forall k v, In (k, v) kw -> not_null R v = true -> lmem k ps = false -> dget u k = Some v) ->
  fold_left (fun d kv => dset d (fst kv) (snd kv)) (filter (fun kv => negb (lmem (fst kv) ps)) kw) u
  = fold_left (hand_step ps) kw u.
Proof.
  induction kw as [|[k v] r IH]; intros u ND H; [reflexivity|].
  cbn [map fst] in ND. inversion ND as [|? ? NI ND']; subst.
  cbn [filter fold_left fst snd]. unfold hand_step at 2. cbn [fst snd].
  destruct (lmem k ps) eqn:Ek; cbn [negb].
  - rewrite orb_true_r. apply IH; [exact ND'|]. intros k' v' Hin. apply H. right. exact Hin.
  - rewrite orb_false_r. cbn [fold_left fst snd]. destruct (not_null R v) eqn:Ev.
    + rewrite dset_same; [|apply H; [left; reflexivity|exact Ev|exact Ek]].
      apply IH; [exact ND'|]. intros k' v' Hin. apply H. right. exact Hin.
    + apply not_null_false in Ev. subst v. apply IH; [exact ND'|].
      intros k' v' Hin Hn Hk. rewrite dget_dset.
      destruct (label_eqb_spec k k') as [->|N]; [|apply H; [right; exact Hin|exact Hn|exact Hk]].
      exfalso. apply NI. change k' with (fst (k', v')). apply in_map. exact Hin.
Qed.

(* schemdraw: __new__ keeps the keyword arguments that are not None; Element.__init__ then records the explicit keywords of
   the super() call followed by `kwargs` *)
Lemma user_eq (ps : list (label * option pconst)) (explicit kw : kwargs) :
  NoDup (map fst kw) -> (forall k, In k (map fst explicit) -> lmem k (map fst ps) = true) ->
  record_user R (filter (fun kv => not_null R (snd kv)) kw) (explicit ++ rest_of R ps kw)
  = fold_left (hand_step (map fst ps)) kw (update (filter (fun kv => not_null R (snd kv)) kw) explicit).
Proof.
  intros ND HE. unfold record_user, rest_of. rewrite update_app. unfold update at 1. apply user_fold; [exact ND|].
  intros k v Hin Hn Hk. rewrite dget_update.
  destruct (dget (rev explicit) k) as [x|] eqn:Ex.
  - exfalso. apply dget_Some_In in Ex. apply in_rev in Ex.
    assert (Hm : lmem k (map fst ps) = true) by (apply HE; change k with (fst (k, x)); apply in_map; exact Ex).
    congruence.
  - apply dget_filter_nodup; [exact ND|exact Hin|exact Hn].
Qed.

Lemma ofZ_two : ofZ R 2 = two R.
Proof. unfold two. cbn [ofZ posR]. ring. Qed.

(* ====================================================================================================== *)
(* B. running the regenerated constructors                                                                 *)
(* ====================================================================================================== *)
(* the modelled domain of the keyword arguments *)
Definition opt_bool (o : option jv) : Prop := match o with None => True | Some (JBool _) => True | Some _ => False end.
Definition opt_str (o : option jv) : Prop := match o with None => True | Some (JStr _) => True | Some _ => False end.
Definition kw_typed (kw : kwargs) : Prop :=
  opt_bool (dget kw q_reverse) /\ opt_str (dget kw q_name) /\ opt_bool (dget kw q_sin) /\ opt_bool (dget kw q_deg).

Ltac norm_ek :=
  change ek_R with q_R in *; change ek_G with q_G in *; change ek_Z with q_Z in *; change ek_Y with q_Y in *;
  change ek_C with q_C in *; change ek_L with q_L in *; change ek_V with q_V in *; change ek_I with q_I in *;
  change ek_w with q_w in *; change ek_phi with q_phi in *; change ek_deg with q_deg in *; change ek_sin with q_sin in *;
  change ek_name with q_name in *; change ek_reverse with q_reverse in *; change ek_show_name with q_show_name in *;
  change ek_show_value with q_show_value in *; change ek_precision with q_precision in *;
  change ek_label_offset with q_label_offset in *.
Ltac split_needed :=
  repeat match goal with
  | H : opt_bool (dget ?d ?k) |- context[dget ?d ?k] =>
      let E := fresh "E" in destruct (dget d k) as [[| | | | | |]|] eqn:E; cbn [opt_bool] in H; try contradiction; clear H
  | H : opt_str (dget ?d ?k) |- context[dget ?d ?k] =>
      let E := fresh "E" in destruct (dget d k) as [[| | | | | |]|] eqn:E; cbn [opt_str] in H; try contradiction; clear H
  end.
Ltac split_cond :=
  repeat match goal with
  | |- context[match dget ?d ?k with Some _ => true | None => false end] =>
      is_var d; let E := fresh "E" in destruct (dget d k) eqn:E
  end.
Ltac split_rest :=
  repeat match goal with |- context[dget ?d ?k] => is_var d; let E := fresh "E" in destruct (dget d k) eqn:E end.
Ltac user_step ND :=
  match goal with
  | |- context[record_user ?R ?u (?x :: rest_of ?R ?ps ?kw)] =>
      change (x :: rest_of R ps kw) with ([x] ++ rest_of R ps kw);
      rewrite (user_eq ps [x] kw ND) by (cbn [map fst In]; intros ? [<-|[]]; reflexivity)
  | |- context[record_user ?R ?u (rest_of ?R ?ps ?kw)] =>
      change (rest_of R ps kw) with ([] ++ rest_of R ps kw);
      rewrite (user_eq ps [] kw ND) by (cbn [map fst In]; intros ? [])
  end.
Ltac csimp := cbn -[record_user rest_of mk_user ofZ].
Ltac ctor_tac ND :=
  unfold run_ctor, construct;
  cbn [cf_ctor run_init g_decorator d_name_key d_name_default d_rev_key d_rev_default];
  unfold attrs_of, one_attr, amp_attr, src_attrs; unfold bind_params, kw_get, flag, ctor_name, str_req, str_or, arg, dhas;
  cbn [forallb fst snd map];
  norm_ek; split_needed; split_cond; csimp; split_rest; csimp;
  repeat match goal with
         | |- context[if negb ?b then _ else _] => is_var b; destruct b; csimp
         | |- context[if ?b then _ else _] => is_var b; destruct b; csimp
         | |- context[jneg ?R ?j] => is_var j; destruct j; csimp
         | |- context[jsub ?R ?j _] => is_var j; destruct j; csimp
         | |- context[jshift ?R _ ?j] => is_var j; destruct j; csimp
         end;
  rewrite ?ofZ_two;
  try reflexivity;
  try (user_step ND; reflexivity).

Section PerClass.
Variables (kw : kwargs) (ps pe : point R).
Hypothesis KT : kw_typed kw.
Hypothesis ND : NoDup (map fst kw).
Notation run f c := (run_ctor R pi g_decorator f c kw ps pe).
Notation hand c := (construct R pi c kw ps pe).

Lemma run_Resistor : run g_facts_Resistor CResistor = hand CResistor.
Proof. destruct KT as [Hr [Hn [Hs Hd]]]. unfold g_facts_Resistor, g_ctor_Resistor. ctor_tac ND. Qed.
Lemma run_Conductance : run g_facts_Conductance CConductance = hand CConductance.
Proof. destruct KT as [Hr [Hn [Hs Hd]]]. unfold g_facts_Conductance, g_ctor_Conductance. ctor_tac ND. Qed.
Lemma run_Impedance : run g_facts_Impedance CImpedance = hand CImpedance.
Proof. destruct KT as [Hr [Hn [Hs Hd]]]. unfold g_facts_Impedance, g_ctor_Impedance. ctor_tac ND. Qed.
Lemma run_Admittance : run g_facts_Admittance CAdmittance = hand CAdmittance.
Proof. destruct KT as [Hr [Hn [Hs Hd]]]. unfold g_facts_Admittance, g_ctor_Admittance. ctor_tac ND. Qed.
Lemma run_Capacitor : run g_facts_Capacitor CCapacitor = hand CCapacitor.
Proof. destruct KT as [Hr [Hn [Hs Hd]]]. unfold g_facts_Capacitor, g_ctor_Capacitor. ctor_tac ND. Qed.
Lemma run_Inductance : run g_facts_Inductance CInductance = hand CInductance.
Proof. destruct KT as [Hr [Hn [Hs Hd]]]. unfold g_facts_Inductance, g_ctor_Inductance. ctor_tac ND. Qed.
Lemma run_VoltageSource : run g_facts_VoltageSource CVoltageSource = hand CVoltageSource.
Proof. destruct KT as [Hr [Hn [Hs Hd]]]. unfold g_facts_VoltageSource, g_ctor_VoltageSource. ctor_tac ND. Qed.
Lemma run_CurrentSource : run g_facts_CurrentSource CCurrentSource = hand CCurrentSource.
Proof. destruct KT as [Hr [Hn [Hs Hd]]]. unfold g_facts_CurrentSource, g_ctor_CurrentSource. ctor_tac ND. Qed.
Lemma run_ComplexVoltageSource : run g_facts_ComplexVoltageSource CComplexVoltageSource = hand CComplexVoltageSource.
Proof. destruct KT as [Hr [Hn [Hs Hd]]]. unfold g_facts_ComplexVoltageSource, g_ctor_ComplexVoltageSource. ctor_tac ND. Qed.
Lemma run_ComplexCurrentSource : run g_facts_ComplexCurrentSource CComplexCurrentSource = hand CComplexCurrentSource.
Proof. destruct KT as [Hr [Hn [Hs Hd]]]. unfold g_facts_ComplexCurrentSource, g_ctor_ComplexCurrentSource. ctor_tac ND. Qed.
Lemma run_ACVoltageSource : run g_facts_ACVoltageSource CACVoltageSource = hand CACVoltageSource.
Proof. destruct KT as [Hr [Hn [Hs Hd]]]. unfold g_facts_ACVoltageSource, g_ctor_ACVoltageSource. ctor_tac ND. Qed.
Lemma run_ACCurrentSource : run g_facts_ACCurrentSource CACCurrentSource = hand CACCurrentSource.
Proof. destruct KT as [Hr [Hn [Hs Hd]]]. unfold g_facts_ACCurrentSource, g_ctor_ACCurrentSource. ctor_tac ND. Qed.
Lemma run_RectVoltageSource : run g_facts_RectVoltageSource CRectVoltageSource = hand CRectVoltageSource.
Proof. destruct KT as [Hr [Hn [Hs Hd]]]. unfold g_facts_RectVoltageSource, g_ctor_RectVoltageSource. ctor_tac ND. Qed.
Lemma run_RectCurrentSource : run g_facts_RectCurrentSource CRectCurrentSource = hand CRectCurrentSource.
Proof. destruct KT as [Hr [Hn [Hs Hd]]]. unfold g_facts_RectCurrentSource, g_ctor_RectCurrentSource. ctor_tac ND. Qed.
Lemma run_Line : run g_facts_Line CLine = hand CLine.
Proof. destruct KT as [Hr [Hn [Hs Hd]]]. unfold g_facts_Line, g_ctor_Line. ctor_tac ND. Qed.
Lemma run_Element : run g_facts_Element CElement = hand CElement.
Proof. destruct KT as [Hr [Hn [Hs Hd]]]. unfold g_facts_Element, g_ctor_Element. ctor_tac ND. Qed.


(* ---------- C. Ground ---------- *)
Lemma dget_rest (qs : list (label * option pconst)) (d : kwargs) k : lmem k (map fst qs) = false -> dget (rest_of R qs d) k = dget d k.
Proof.
  intros H. unfold rest_of. induction d as [|[a b] r IH]; [reflexivity|]. cbn [filter fst dget].
  destruct (lmem a (map fst qs)) eqn:Ea; cbn [negb dget]; rewrite IH; [|reflexivity].
  destruct (label_eqb_spec a k) as [->|]; [congruence|reflexivity].
Qed.
Lemma rest_rest (qs qs' : list (label * option pconst)) (d : kwargs) : map fst qs = map fst qs' ->
  rest_of R qs (rest_of R qs' d) = rest_of R qs' d.
Proof.
  intros E. unfold rest_of. rewrite E. induction d as [|x r IH]; [reflexivity|]. cbn [filter].
  destruct (negb (lmem (fst x) (map fst qs'))) eqn:Ex; [|exact IH]. cbn [filter]. rewrite Ex, IH. reflexivity.
Qed.
(* what the constructor chain Ground -> Node -> schemdraw leaves in _userparams: the name (given or '0') first, the other
   keyword arguments, then Node's  self.params['theta'] = 0  and  self.params['drop'] = (0, 0) *)
Definition ground_user (nm : label) : kwargs :=
  dset (dset (record_user R (filter (fun kv => not_null R (snd kv)) kw)
                ((q_name, JStr nm) :: filter (fun kv => negb (lmem (fst kv) [q_name])) kw))
             ek_theta (JNum (f0 R))) ek_drop (JList [JNum (f0 R); JNum (f0 R)]).
Definition set_user (s : symbol) (u : kwargs) : symbol :=
  {| s_cls := s_cls s; s_name := s_name s; s_reverse := s_reverse s; s_attr := s_attr s; s_user := u;
     s_start := s_start s; s_end := s_end s |}.
Lemma run_Ground : run g_facts_Ground CGround = bind (hand CGround) (fun s => Ok (set_user s (ground_user (s_name s)))).
Proof.
  destruct KT as [Hr [Hn [Hs Hd]]]. unfold g_facts_Ground, g_ctor_Ground, g_ctor_Node.
  unfold run_ctor, construct;
  cbn [cf_ctor run_init g_decorator d_name_key d_name_default d_rev_key d_rev_default];
  unfold attrs_of; unfold bind_params, kw_get, flag, ctor_name, str_req, str_or, arg, dhas;
  cbn [forallb fst snd map]. norm_ek. csimp. rewrite !dget_rest by reflexivity.
  split_needed; csimp; unfold ground_user, set_user; cbn [s_name s_cls s_reverse s_attr s_start s_end];
    match goal with |- context[rest_of R ?a (?x :: rest_of R ?b ?d)] =>
      change (rest_of R a (x :: rest_of R b d)) with (rest_of R a (rest_of R b d)); rewrite (rest_rest a b d) by reflexivity end;
    reflexivity.
Qed.

(* every class of the model except Ground *)
Theorem construct_regenerated (c : scls) : In c modelled_classes -> c <> CGround ->
  exists f, facts_of c = Some f /\ run f c = hand c.
Proof.
  intros Hin HG. cbn [modelled_classes In] in Hin.
  repeat (destruct Hin as [<-|Hin]; [first [contradiction HG; reflexivity | eexists; split; [reflexivity|]]|]); [..|contradiction].
  - apply run_Resistor. - apply run_Conductance. - apply run_Impedance. - apply run_Admittance. - apply run_Capacitor.
  - apply run_Inductance. - apply run_VoltageSource. - apply run_CurrentSource. - apply run_ComplexVoltageSource.
  - apply run_ComplexCurrentSource. - apply run_ACVoltageSource. - apply run_ACCurrentSource. - apply run_RectVoltageSource.
  - apply run_RectCurrentSource. - apply run_Line. - apply run_Element.
Qed.
End PerClass.

(* ---------- Ground: [mk_user] lists everything the chain records except Node's theta and drop ---------- *)
Lemma fold_hand_nonnull (ps : list label) (l : kwargs) (u : kwargs) :
  forallb (fun kv => not_null R (snd kv)) l = true -> fold_left (hand_step ps) l u = u.
Proof.
  revert u. induction l as [|[k v] r IH]; intros u H; [reflexivity|]. cbn [forallb snd] in H. apply andb_prop in H. destruct H as [Hv Hr].
  cbn [fold_left]. unfold hand_step at 2. cbn [fst snd]. rewrite Hv. cbn [orb]. apply IH. exact Hr.
Qed.
Lemma fold_hand_ext (ps ps' : list label) (l : kwargs) (u : kwargs) :
  (forall k v, In (k, v) l -> not_null R v = false -> lmem k ps = lmem k ps') ->
  fold_left (hand_step ps) l u = fold_left (hand_step ps') l u.
Proof.
  revert u. induction l as [|[k v] r IH]; intros u H; [reflexivity|]. cbn [fold_left].
  assert (E : hand_step ps u (k, v) = hand_step ps' u (k, v)).
  { unfold hand_step. cbn [fst snd]. destruct (not_null R v) eqn:Ev; [reflexivity|]. rewrite (H k v (or_introl eq_refl) Ev). reflexivity. }
  rewrite E. apply IH. intros k' v' Hin. apply H. right. exact Hin.
Qed.
Lemma fold_hand_dget (ps : list label) (l : kwargs) (u : kwargs) (k : label) :
  (forall v, In (k, v) l -> not_null R v = true) -> dget (fold_left (hand_step ps) l u) k = dget u k.
Proof.
  revert u. induction l as [|[a b] r IH]; intros u H; [reflexivity|]. cbn [fold_left]. rewrite IH by (intros v Hin; apply H; right; exact Hin).
  unfold hand_step. cbn [fst snd]. destruct (not_null R b || lmem a ps) eqn:E; [reflexivity|]. rewrite dget_dset.
  destruct (label_eqb_spec a k) as [->|]; [|reflexivity]. apply orb_false_elim in E. destruct E as [E _].
  rewrite (H b (or_introl eq_refl)) in E. discriminate E.
Qed.

Theorem ground_user_vs_mk_user (kw : kwargs) (nm : label) (rev : bool) : NoDup (map fst kw) ->
  dget kw q_name = Some (JStr nm) \/ forallb (fun kv => not_null R (snd kv)) kw = true ->
  ground_user kw nm
  = dset (dset (mk_user R CGround kw rev nm) ek_theta (JNum (f0 R))) ek_drop (JList [JNum (f0 R); JNum (f0 R)]).
Proof.
  intros ND H. unfold ground_user. f_equal. f_equal.
  change (filter (fun kv : label * jv => negb (lmem (fst kv) [q_name])) kw) with (rest_of R [(q_name, None)] kw).
  change ((q_name, JStr nm) :: rest_of R [(q_name, None)] kw) with ([(q_name, @JStr R nm)] ++ rest_of R [(q_name, None)] kw).
  rewrite (user_eq [(q_name, None)] [(q_name, JStr nm)] kw ND) by (cbn [map fst In]; intros ? [<-|[]]; reflexivity).
  unfold mk_user. cbn [sd_reverse ctor_params update fold_left fst snd map].
  change (fun (d : dict jv) (kv : label * jv) => if not_null R (snd kv) || lmem (fst kv) [] then d else dset d (fst kv) JNull)
    with (hand_step []).
  set (u0 := filter (fun kv : label * jv => not_null R (snd kv)) kw).
  destruct H as [Hn|Hall].
  - assert (Hu : dget u0 q_name = Some (JStr nm)).
    { apply dget_filter_nodup; [exact ND|apply dget_Some_In; exact Hn|reflexivity]. }
    rewrite (dset_same u0 q_name (JStr nm) Hu).
    assert (Hnn : forall v, In (q_name, v) kw -> not_null R v = true).
    { intros v Hin. rewrite (dget_nodup kw q_name v ND Hin) in Hn. injection Hn as ->. reflexivity. }
    rewrite (fold_hand_ext [q_name] [] kw u0).
    + symmetry. apply dset_same. rewrite fold_hand_dget by exact Hnn. exact Hu.
    + intros k v Hin Hv. cbn [lmem existsb]. destruct (label_eqb_spec k q_name) as [->|Hk]. 
      * rewrite (Hnn v Hin) in Hv. discriminate Hv.
      * unfold lmem. cbn [existsb]. destruct (label_eqb_spec k q_name); [contradiction|reflexivity].
  - rewrite !fold_hand_nonnull by exact Hall. reflexivity.
Qed.

(* ====================================================================================================== *)
(* D. facts read off the regenerated constructors without running them                                      *)
(* ====================================================================================================== *)
(* the `reverse` handed on to schemdraw's own constructor, for is_reverse = rev *)
Definition super_reverse (f : class_facts) (rev : bool) : res (option bool) :=
  match tlook (super_keywords (ctor_body_of (cf_ctor f))) q_reverse with
  | None => Ok None
  | Some e => bind (eval R pi [(q_reverse, JBool rev)] [] e)
                   (fun v => match v with JBool b => Ok (Some b) | _ => Err EOther end)
  end.
Ltac each_class Hin :=
  cbn [modelled_classes In] in Hin;
  repeat (destruct Hin as [<-|Hin]; [eexists; split; [reflexivity|]|]); [..|contradiction].
Lemma sd_reverse_regenerated (c : scls) (rev : bool) : In c modelled_classes ->
  exists f, facts_of c = Some f /\ super_reverse f rev = Ok (sd_reverse c rev).
Proof. intros Hin. each_class Hin; destruct rev; reflexivity. Qed.

(* the named parameters (consumed by the class: a None among them is not recorded in _userparams) *)
Lemma ctor_params_regenerated (c : scls) : In c modelled_classes -> c <> CGround ->
  exists f, facts_of c = Some f /\ param_names (cf_ctor f) = ctor_params c.
Proof.
  intros Hin HG. cbn [modelled_classes In] in Hin.
  repeat (destruct Hin as [<-|Hin]; [first [contradiction HG; reflexivity | eexists; split; reflexivity]|]). contradiction.
Qed.
(* Ground names its `name` and passes it on; [ctor_params] lists nothing for it ([mk_user] adds the name by a rule of its own) *)
Lemma ctor_params_ground : param_names g_ctor_Ground = [q_name] /\ ctor_params CGround = [] /\
  super_keywords (ctor_body_of g_ctor_Ground) = [(q_name, EParam q_name)] /\ ctor_base_of g_ctor_Ground = Some g_ctor_Node /\
  super_keywords (ctor_body_of g_ctor_Node) = [(q_name, EParam q_name)] /\ ctor_base_of g_ctor_Node = None.
Proof. repeat split. Qed.

(* the name: a required keyword, or a keyword with the default of the signature, or — no parameter of that name — the
   default of the decorator's kwargs.get *)
Definition name_rule (f : class_facts) (kw : kwargs) : res label :=
  match tlook (ctor_params_of (cf_ctor f)) (d_name_key g_decorator) with
  | Some None => str_req R kw (d_name_key g_decorator)
  | Some (Some (KStr d)) => str_or R kw (d_name_key g_decorator) d
  | None => match d_name_default g_decorator with KStr d => str_or R kw (d_name_key g_decorator) d | _ => Err EOther end
  | Some _ => Err EOther
  end.
Lemma ctor_name_regenerated (c : scls) (kw : kwargs) : In c modelled_classes ->
  exists f, facts_of c = Some f /\ name_rule f kw = ctor_name R c kw.
Proof. intros Hin. each_class Hin; reflexivity. Qed.
(* the reverse flag the decorator stores: kwargs.get('reverse', False) *)
Lemma decorator_regenerated : d_name_key g_decorator = q_name /\ d_name_default g_decorator = KStr [] /\
  d_rev_key g_decorator = q_reverse /\ d_rev_default g_decorator = KBool false.
Proof. repeat split. Qed.

(* `if self._sin: self._phi -= np.pi/2`: the two sinusoidal sources, and no other class *)
Definition is_ac (c : scls) : bool := match c with CACVoltageSource | CACCurrentSource => true | _ => false end.
Lemma sine_shift_regenerated (c : scls) : In c modelled_classes ->
  exists f, facts_of c = Some f /\
    conditionals_of (ctor_body_of (cf_ctor f))
    = if is_ac c then [(EField (95%N :: q_sin), SAug (95%N :: q_phi) AugSub (EPiDiv 2))] else [].
Proof. intros Hin. each_class Hin; reflexivity. Qed.

(* the `name` property: '' for Line, the stored name otherwise *)
Lemma name_property_regenerated (c : scls) (s : symbol) : In c modelled_classes -> s_cls s = c ->
  exists f, facts_of c = Some f /\ name_property R f s = pname R s.
Proof. intros Hin Hc. unfold pname. rewrite Hc. each_class Hin; reflexivity. Qed.

(* ====================================================================================================== *)
(* E. what the component translators read (C13)                                                            *)
(* ====================================================================================================== *)
(* the attributes [translate] reads through element.<A> *)
Definition read_keys (c : scls) : list label :=
  match c with
  | CResistor => [q_R] | CConductance => [q_G] | CCapacitor => [q_C] | CInductance => [q_L] | CImpedance => [q_Z]
  | CVoltageSource | CComplexVoltageSource => [q_V] | CCurrentSource | CComplexCurrentSource => [q_I]
  | CACVoltageSource | CRectVoltageSource => [q_V; q_w; q_phi; q_deg]
  | CACCurrentSource | CRectCurrentSource => [q_I; q_w; q_phi; q_deg]
  | _ => []
  end.
Lemma translate_reads (s s' : symbol) : s_cls s = s_cls s' -> s_name s = s_name s' -> s_reverse s = s_reverse s' ->
  s_start s = s_start s' -> s_end s = s_end s' ->
  (forall k, In k (read_keys (s_cls s)) -> dget (s_attr s) k = dget (s_attr s') k) ->
  translate R pi s = translate R pi s'.
Proof.
  intros Hc Hn Hr Hs He Hk. unfold translate, passive, phase_of, mk, src_nodes, plain_nodes, sgn, sgnc, getattr.
  rewrite <- Hc, <- Hn, <- Hr, <- Hs, <- He. destruct (s_cls s); cbn [read_keys] in Hk; try reflexivity;
    repeat match goal with
           | |- context[dget (s_attr s) ?k] => rewrite (Hk k) by (cbn [In]; tauto)
           end; reflexivity.
Qed.
(* each of them is a plain property of the class returning the private attribute of the same name *)
Lemma read_keys_are_properties (c : scls) : In c modelled_classes ->
  exists f, facts_of c = Some f /\ forallb (fun k => match property_reads f k with
                                                     | Some fld => label_eqb fld (95%N :: k) && label_eqb (attr_key fld) k
                                                     | None => false end) (read_keys c) = true.
Proof. intros Hin. each_class Hin; reflexivity. Qed.

(* what the hand constructor leaves in the attributes the translators read *)
Definition amp_key (c : scls) : option label :=
  match c with
  | CVoltageSource | CComplexVoltageSource | CACVoltageSource | CRectVoltageSource => Some q_V
  | CCurrentSource | CComplexCurrentSource | CACCurrentSource | CRectCurrentSource => Some q_I
  | _ => None
  end.
Lemma construct_fields (c : scls) (kw : kwargs) (ps pe : point R) (s : symbol) : construct R pi c kw ps pe = Ok s ->
  s_cls s = c /\ flag R kw q_reverse = Ok (s_reverse s) /\ ctor_name R c kw = Ok (s_name s) /\
  attrs_of R pi c kw (s_reverse s) = Ok (s_attr s) /\ s_start s = ps /\ s_end s = pe.
Proof.
  unfold construct. destruct (flag R kw q_reverse) as [rev|]; [|discriminate]. cbn [bind].
  destruct (ctor_name R c kw) as [nm|]; [|discriminate]. cbn [bind].
  destruct (attrs_of R pi c kw rev) as [at_|] eqn:Ea; [|discriminate]. cbn [bind].
  intros H. injection H as <-. cbn. repeat split. exact Ea.
Qed.
Lemma construct_amplitude (c : scls) (kw : kwargs) (ps pe : point R) (s : symbol) (a : label) :
  construct R pi c kw ps pe = Ok s -> amp_key c = Some a ->
  exists v v', dget kw a = Some v /\ neg_if R (s_reverse s) v = Ok v' /\ dget (s_attr s) a = Some v'.
Proof.
  intros H Ha. apply construct_fields in H. destruct H as [_ [_ [_ [Hat _]]]]. revert Hat.
  destruct c; cbn [amp_key] in Ha; try discriminate Ha; injection Ha as <-;
    unfold attrs_of, amp_attr, src_attrs, arg;
    repeat match goal with
           | |- context[dget kw ?k] => destruct (dget kw k) eqn:?; cbn [bind]; try discriminate
           | |- context[flag R kw ?k] => destruct (flag R kw k); cbn [bind]; try discriminate
           | |- context[neg_if R ?b ?v] => destruct (neg_if R b v) eqn:?; cbn [bind]; try discriminate
           | |- context[if ?b then _ else _] => destruct b; cbn [bind]; try discriminate
           | |- context[jshift R pi ?v] => destruct (jshift R pi v); cbn [bind]; try discriminate
           end;
    intros H; injection H as <-; eexists; eexists; (split; [reflexivity|split; [eassumption|reflexivity]]).
Qed.

(* ---------- the regenerated constructor and the hand constructor agree on everything but (for Ground) _userparams ---------- *)
Lemma facts_of_inj (c : scls) (f : class_facts) : In c modelled_classes -> facts_of c = Some f ->
  c = CGround /\ f = g_facts_Ground \/ c <> CGround.
Proof.
  intros Hin Hf. destruct c; try (right; discriminate). left. split; [reflexivity|]. injection Hf as <-. reflexivity.
Qed.
Lemma run_ok (c : scls) (f : class_facts) (kw : kwargs) (ps pe : point R) (s : symbol) :
  kw_typed kw -> NoDup (map fst kw) -> In c modelled_classes -> facts_of c = Some f ->
  run_ctor R pi g_decorator f c kw ps pe = Ok s ->
  exists s', construct R pi c kw ps pe = Ok s' /\ set_user s [] = set_user s' [].
Proof.
  intros KT ND Hin Hf Hrun. destruct (facts_of_inj c f Hin Hf) as [[-> ->]|HG].
  - rewrite (run_Ground kw ps pe KT) in Hrun. destruct (construct R pi CGround kw ps pe) as [s'|]; [|discriminate].
    cbn [bind] in Hrun. injection Hrun as <-. exists s'. split; reflexivity.
  - destruct (construct_regenerated kw ps pe KT ND c Hin HG) as [f' [Hf' E]]. rewrite Hf in Hf'. injection Hf' as <-.
    exists s. rewrite <- E. split; [exact Hrun|reflexivity].
Qed.
Lemma set_user_fields (s s' : symbol) : set_user s [] = set_user s' [] ->
  s_cls s = s_cls s' /\ s_name s = s_name s' /\ s_reverse s = s_reverse s' /\ s_attr s = s_attr s' /\
  s_start s = s_start s' /\ s_end s = s_end s'.
Proof. unfold set_user. intros H. injection H as -> -> -> -> -> ->. repeat split. Qed.
Lemma view_set_user (s : symbol) (u : kwargs) : view_of R pi (set_user s u) = view_of R pi s.
Proof. reflexivity. Qed.

(* the views (class, name property, is_reverse, terminals, translated component) agree: every class of the model *)
Theorem view_regenerated (c : scls) (kw : kwargs) (ps pe : point R) : kw_typed kw -> NoDup (map fst kw) -> In c modelled_classes ->
  exists f, facts_of c = Some f /\
    bind (run_ctor R pi g_decorator f c kw ps pe) (fun s => Ok (view_of R pi s))
    = bind (construct R pi c kw ps pe) (fun s => Ok (view_of R pi s)).
Proof.
  intros KT ND Hin. destruct (scls_ground_dec c) as [->|HG].
  - exists g_facts_Ground. split; [reflexivity|]. rewrite (run_Ground kw ps pe KT).
    destruct (construct R pi CGround kw ps pe); reflexivity.
  - destruct (construct_regenerated kw ps pe KT ND c Hin HG) as [f [Hf E]]. exists f. split; [exact Hf|]. rewrite E. reflexivity.
Qed.

Lemma flag_value (kw : kwargs) (k : label) (b : bool) : flag R kw k = Ok b ->
  b = match dget kw k with Some (JBool x) => x | _ => false end.
Proof. unfold flag. destruct (dget kw k) as [[]|]; intros H; try discriminate H; injection H as <-; reflexivity. Qed.

(* is_reverse is the `reverse` keyword of the call (not the negated flag the voltage sources hand to schemdraw) *)
Theorem is_reverse_regenerated (c : scls) (f : class_facts) (kw : kwargs) (ps pe : point R) (s : symbol) :
  kw_typed kw -> NoDup (map fst kw) -> In c modelled_classes -> facts_of c = Some f ->
  run_ctor R pi g_decorator f c kw ps pe = Ok s ->
  s_reverse s = match dget kw q_reverse with Some (JBool x) => x | _ => false end.
Proof.
  intros KT ND Hin Hf Hrun. destruct (run_ok c f kw ps pe s KT ND Hin Hf Hrun) as [s' [Hc E]].
  apply set_user_fields in E. destruct E as [_ [_ [-> _]]].
  apply construct_fields in Hc. destruct Hc as [_ [Hfl _]]. apply flag_value. exact Hfl.
Qed.
(* the name property: '' for a Line, else the `name` keyword, else the default of the signature ('0' for Ground) *)
Theorem name_regenerated (c : scls) (f : class_facts) (kw : kwargs) (ps pe : point R) (s : symbol) :
  kw_typed kw -> NoDup (map fst kw) -> In c modelled_classes -> facts_of c = Some f ->
  run_ctor R pi g_decorator f c kw ps pe = Ok s ->
  name_property R f s = pname R s /\ ctor_name R c kw = Ok (s_name s) /\ s_cls s = c.
Proof.
  intros KT ND Hin Hf Hrun. destruct (run_ok c f kw ps pe s KT ND Hin Hf Hrun) as [s' [Hc E]].
  apply set_user_fields in E. destruct E as [Ec [En _]]. apply construct_fields in Hc. destruct Hc as [Hcls [_ [Hnm _]]].
  rewrite En, Ec. repeat split; [|exact Hnm|exact Hcls].
  destruct (name_property_regenerated c s Hin (eq_trans Ec Hcls)) as [f' [Hf' Hp]]. rewrite Hf in Hf'. injection Hf' as <-. exact Hp.
Qed.
(* the amplitude of a source: the constructor argument, negated when the symbol is reversed *)
Theorem amplitude_regenerated (c : scls) (f : class_facts) (kw : kwargs) (ps pe : point R) (s : symbol) (a : label) :
  kw_typed kw -> NoDup (map fst kw) -> In c modelled_classes -> facts_of c = Some f ->
  run_ctor R pi g_decorator f c kw ps pe = Ok s -> amp_key c = Some a ->
  exists v v', dget kw a = Some v /\ neg_if R (s_reverse s) v = Ok v' /\ dget (s_attr s) a = Some v'.
Proof.
  intros KT ND Hin Hf Hrun Ha. destruct (run_ok c f kw ps pe s KT ND Hin Hf Hrun) as [s' [Hc E]].
  apply set_user_fields in E. destruct E as [_ [_ [-> [-> _]]]]. exact (construct_amplitude c kw ps pe s' a Hc Ha).
Qed.

End GenEq.
