(* Theory/WrappersGenThm.v — the circuit-level wrappers regenerated from Circuit/impedance.py and Circuit/state_space_model.py
   (Gen/WrappersGen.v, rewritten by tools/gen_wrappers.py on every run) against the hand-written model Model/CircuitWrappers.v:
   A. impedance.py: the sweep functions are one model [transform_circuit] + one port function of Model/Port.v per angular
      frequency; the dc resistances are the real part of the w = 0 entry.  Equal for circuits whose loads have two terminals
      (the hypothesis of Theory/CircuitGenThm.v, gtc_eq), the same outcome always; the unrestricted equality is refuted.
   B. state_space_model.py: the w = 0 network, the capacitor / inductance dictionaries read off the component list, the
      regenerated nodal_state_space_model and its rows (Theory/StateSpaceGenThm.v), the six stacking loops and the
      regenerated constructor StateSpaceModel(A, B, C, D), whose shape checks never fire on a computed model.
   Generic in the reals [R] and in [leb], [rnd], [ofZ] and the default frequency resolution; the only law used is
   [fops_ok (Cx R)] (needed by the equalities of Theory/MatrixGenThm.v / Theory/StateSpaceGenThm.v). *)
From Coq Require Import List Bool NArith ZArith Arith String Lia.
From CC Require Import Theory.Field Theory.Complex Theory.Labels Model.Network Model.NetworkPrims Model.StateSpace Model.Port
  Model.Circuit Model.CircuitPrims Model.CircuitGenPrims Model.MatrixPrims Model.WrappersPrims Gen.NetworkGen Gen.CircuitGen
  Gen.MatrixGen Theory.Api Theory.CircuitThm Theory.TransformersGen Theory.CircuitMore Theory.CircuitGenThm Theory.NetworkGenThm
  Theory.MatrixGenThm Theory.StateSpaceGenThm Model.CircuitWrappers Gen.WrappersGen.
Import ListNotations.
Local Open Scope string_scope.
Local Open Scope list_scope.

(* ====================================================================================================== *)
(* generic facts about the primitives                                                                      *)
(* ====================================================================================================== *)
(* the comprehension of Model/MatrixPrims.v and the one of Model/Circuit.v are the same function *)
Lemma map_res_mapM {A B} (f : A -> res B) (l : list A) : Model.MatrixPrims.map_res f l = mapM f l.
Proof. induction l as [|a l IH]; [reflexivity|]. cbn [Model.MatrixPrims.map_res mapM]. rewrite IH. reflexivity. Qed.

Lemma bind_same_outcome {A B} (r1 r2 : res A) (f g : A -> res B) :
  same_outcome r1 r2 -> (forall a, same_outcome (f a) (g a)) -> same_outcome (bind r1 f) (bind r2 g).
Proof. intros H1 H2. destruct r1 as [a|e1], r2 as [b|e2]; cbn [same_outcome bind] in *; try contradiction; [|exact I].
  subst b. apply H2. Qed.

Lemma same_outcome_eq_ok {A} (r1 r2 : res A) : same_outcome r1 r2 -> (forall e, r1 <> Err e) -> r1 = r2.
Proof. destruct r1 as [a|e1], r2 as [b|e2]; cbn [same_outcome]; intros H N; try contradiction.
  - subst b. reflexivity.
  - exfalso. exact (N e1 eq_refl). Qed.

(* a loop appending to a fresh list is the comprehension *)
Lemma for_res_append {A B} (f : A -> res B) (l : list A) (acc : list B) :
  Model.MatrixPrims.for_res l (fun acc' x => bind (f x) (fun t => Ok (py_append acc' t))) acc
  = bind (Model.MatrixPrims.map_res f l) (fun r => Ok (acc ++ r)).
Proof. revert acc. induction l as [|a l IH]; intros acc; cbn [Model.MatrixPrims.for_res Model.MatrixPrims.map_res bind].
  - rewrite app_nil_r. reflexivity.
  - destruct (f a) as [b|e]; cbn [bind]; [|reflexivity]. rewrite IH. unfold py_append.
    destruct (Model.MatrixPrims.map_res f l) as [r|e]; cbn [bind]; [|reflexivity]. rewrite <- app_assoc. reflexivity. Qed.

Lemma for_res_append2 {A B D} (f : A -> res B) (g : B -> res D) (l : list A) (acc : list D) :
  Model.MatrixPrims.for_res l (fun acc' x => bind (f x) (fun t1 => bind (g t1) (fun t2 => Ok (py_append acc' t2)))) acc
  = bind (Model.MatrixPrims.map_res (fun x => bind (f x) g) l) (fun r => Ok (acc ++ r)).
Proof. rewrite <- (for_res_append (fun x => bind (f x) g) l acc). revert acc.
  induction l as [|a l IH]; intros acc; cbn [Model.MatrixPrims.for_res]; [reflexivity|].
  destruct (f a) as [b|e]; cbn [bind]; [|reflexivity]. destruct (g b) as [d|e]; cbn [bind]; [|reflexivity]. apply IH. Qed.

Lemma mapR_length {A B} (f : A -> res B) (l : list A) (r : list B) : mapR f l = Ok r -> List.length r = List.length l.
Proof. revert r. induction l as [|a l IH]; intros r H; cbn [mapR] in H.
  - injection H as <-. reflexivity.
  - destruct (f a) as [b|e]; cbn [bind] in H; [|discriminate H]. destruct (mapR f l) as [r'|e]; cbn [bind] in H; [|discriminate H].
    injection H as <-. cbn [List.length]. rewrite (IH r' eq_refl). reflexivity. Qed.

(* ---- np.vstack in a loop: the rows, one after the other ---- *)
Section Stack.
Variable K : fops.

Lemma for_res_vstack {T : Type} {H : AtLeast2d K T} (row : label -> res T) (row' : label -> res (list K))
    (mk : label -> list K -> T) (ids : list label) (C0 : arr2 K) :
  (forall id, row id = bind (row' id) (fun r => Ok (mk id r))) ->
  (forall id r, a_rows (np_atleast_2d (mk id r)) = [r]) ->
  Model.MatrixPrims.for_res ids (fun C id => bind (row id) (fun t => Ok (np_vstack C t))) C0
  = bind (mapR row' ids) (fun rows => Ok {| a_cols := a_cols C0; a_rows := a_rows C0 ++ rows |}).
Proof. intros Hrow Hmk. revert C0. induction ids as [|id ids IH]; intros C0; cbn [Model.MatrixPrims.for_res mapR bind].
  - rewrite app_nil_r. destruct C0; reflexivity.
  - rewrite Hrow. destruct (row' id) as [r|e]; cbn [bind]; [|reflexivity]. rewrite IH.
    unfold np_vstack, np_vstack2. cbn [a_cols a_rows]. rewrite Hmk.
    change (np_atleast_2d C0) with C0.
    destruct (mapR row' ids) as [rows|e]; cbn [bind]; [|reflexivity]. rewrite <- app_assoc. reflexivity. Qed.
End Stack.

(* ---- the component type strings ---- *)
Lemma kind_name_inj (k1 k2 : ckind) : label_eqb (kind_name k1) (kind_name k2) = ckind_eqb k1 k2.
Proof. destruct k1, k2; vm_compute; reflexivity. Qed.

Lemma NoDup_map_filter {A B} (f : A -> B) (p : A -> bool) (l : list A) : NoDup (map f l) -> NoDup (map f (filter p l)).
Proof. induction l as [|a l IH]; cbn [map filter]; intros ND; [constructor|]. inversion ND as [|? ? Hn ND']; subst.
  destruct (p a); cbn [map]; [|apply IH; exact ND']. constructor; [|apply IH; exact ND'].
  intros Hin. apply Hn. apply in_map_iff in Hin. destruct Hin as [x [E Hx]]. apply filter_In in Hx.
  apply in_map_iff. exists x. split; [exact E|apply Hx]. Qed.

Section WrappersEq.
Variable R : fops.
Variable leb : R -> R -> bool.
Variable rnd : R -> Z.
Variable ofZ : Z -> R.
Variable wres : R.            (* the default 1e-3 of transform_circuit's parameter w_resolution *)
Hypothesis COK : fops_ok (Cx R).
Notation C := (Cx R).
Notation comp := (comp R).
Notation gpost := (g_Circuit_post_init R).
Notation gtc := (Gen.CircuitGen.g_transform_circuit R leb rnd ofZ).
Notation htc := (transform_circuit R leb rnd ofZ).
Notation loads_ok := (loads_ok R).

(* ====================================================================================================== *)
(* A. Circuit/impedance.py                                                                                 *)
(* ====================================================================================================== *)
(* one regenerated network per frequency, handed to a regenerated port function = the model's sweep *)
Lemma sweep_eq (cs : list comp) (circ : Circuit R) (F G : network C -> res (option C)) (ws : list R) :
  gpost cs = Ok circ -> loads_ok cs -> (forall n, F n = G n) ->
  Model.MatrixPrims.map_res (fun w => bind (gtc circ w wres) F) ws = mapM (fun w => bind (htc cs w wres) G) ws.
Proof. intros H L FG. rewrite map_res_mapM. apply mapM_ext_in. intros w _. rewrite (gtc_eq R leb rnd ofZ cs circ w wres H L).
  apply bind_ext. exact FG. Qed.

Lemma sweep_outcome (cs : list comp) (circ : Circuit R) (F G : network C -> res (option C)) (ws : list R) :
  gpost cs = Ok circ -> (forall n, F n = G n) ->
  same_outcome (Model.MatrixPrims.map_res (fun w => bind (gtc circ w wres) F) ws) (mapM (fun w => bind (htc cs w wres) G) ws).
Proof. intros H FG. rewrite map_res_mapM. apply mapM_same_outcome. intros w _. apply bind_same_outcome.
  - apply gtc_outcome. exact H.
  - intros n. rewrite FG. apply same_outcome_refl. Qed.

Lemma oci_default (n : network C) (n1 n2 : label) :
  py_node_analysis.open_circuit_impedance C n n1 n2 (py_node_analysis.open_circuit_impedance__default_node_index_mapper C)
  = open_circuit_impedance n n1 n2.
Proof. exact (open_circuit_impedance_eq C COK n n1 n2). Qed.
Lemma ei_default (n : network C) (id : label) :
  py_node_analysis.element_impedance C n id (py_node_analysis.element_impedance__default_node_index_mapper C)
  = element_impedance n id.
Proof. exact (element_impedance_eq C COK n id). Qed.

(* the result of a sweep, whichever way the source collects it: the comprehension, or a loop appending to a fresh list, in
   the function itself or in a helper (helpers are registered in the hint database gen_wrappers_helpers by the translator) *)
Ltac sweep_shape :=
  autounfold with gen_wrappers_helpers; cbv beta zeta; unfold np_array1;
  rewrite ?for_res_append2, ?bind_assoc; cbn [bind app].

Theorem g_open_circuit_impedance_eq cs circ n1 n2 ws : gpost cs = Ok circ -> loads_ok cs ->
  g_open_circuit_impedance R leb rnd ofZ wres circ n1 n2 ws = circuit_open_circuit_impedance R leb rnd ofZ wres cs n1 n2 ws.
Proof. intros H L. unfold g_open_circuit_impedance, circuit_open_circuit_impedance. sweep_shape.
  rewrite (sweep_eq cs circ _ (fun n => open_circuit_impedance n n1 n2) ws H L) by (intros n; apply oci_default).
  destruct (mapM _ ws); reflexivity. Qed.

Theorem g_open_circuit_impedance_outcome cs circ n1 n2 ws : gpost cs = Ok circ ->
  same_outcome (g_open_circuit_impedance R leb rnd ofZ wres circ n1 n2 ws)
               (circuit_open_circuit_impedance R leb rnd ofZ wres cs n1 n2 ws).
Proof. intros H. unfold g_open_circuit_impedance, circuit_open_circuit_impedance. sweep_shape.
  pose proof (sweep_outcome cs circ _ (fun n => open_circuit_impedance n n1 n2) ws H (fun n => oci_default n n1 n2)) as O.
  destruct (Model.MatrixPrims.map_res _ ws), (mapM _ ws); exact O. Qed.

Theorem g_element_impedance_eq cs circ id ws : gpost cs = Ok circ -> loads_ok cs ->
  g_element_impedance R leb rnd ofZ wres circ id ws = circuit_element_impedance R leb rnd ofZ wres cs id ws.
Proof. intros H L. unfold g_element_impedance, circuit_element_impedance. sweep_shape.
  rewrite (sweep_eq cs circ _ (fun n => element_impedance n id) ws H L) by (intros n; apply ei_default).
  destruct (mapM _ ws); reflexivity. Qed.

Theorem g_element_impedance_outcome cs circ id ws : gpost cs = Ok circ ->
  same_outcome (g_element_impedance R leb rnd ofZ wres circ id ws) (circuit_element_impedance R leb rnd ofZ wres cs id ws).
Proof. intros H. unfold g_element_impedance, circuit_element_impedance. sweep_shape.
  pose proof (sweep_outcome cs circ _ (fun n => element_impedance n id) ws H (fun n => ei_default n id)) as O.
  destruct (Model.MatrixPrims.map_res _ ws), (mapM _ ws); exact O. Qed.

(* the defaults of the parameter w, as written in the source: np.array([0]) *)
Theorem impedance_defaults : g_open_circuit_impedance__default_w R = [f0 R] /\ g_element_impedance__default_w R = [f0 R].
Proof. split; reflexivity. Qed.

(* the sweep over the single frequency 0, its entry 0, real part *)
Lemma py_real_real_part (z : option C) : py_real R z = real_part R z.
Proof. destruct z; reflexivity. Qed.

Lemma dc_of_sweep {X} (r : R -> res X) (F : X -> res (option C)) :
  bind (mapM (fun w : R => bind (r w) F) [f0 R]) (fun t1 => bind (list_at t1 0%nat) (fun t2 => Ok (py_real R t2)))
  = bind (r (f0 R)) (fun n => bind (F n) (fun z => Ok (real_part R z))).
Proof. cbn [mapM]. destruct (r (f0 R)) as [n|e]; cbn [bind]; [|reflexivity]. destruct (F n) as [z|e]; cbn [bind]; [|reflexivity].
  unfold list_at. cbn [nth_error bind]. rewrite py_real_real_part. reflexivity. Qed.

Theorem g_open_circuit_dc_resistance_eq cs circ n1 n2 : gpost cs = Ok circ -> loads_ok cs ->
  g_open_circuit_dc_resistance R leb rnd ofZ wres circ n1 n2 = circuit_open_circuit_dc_resistance R leb rnd ofZ wres cs n1 n2.
Proof. intros H L. unfold g_open_circuit_dc_resistance. rewrite (g_open_circuit_impedance_eq cs circ n1 n2 _ H L).
  unfold circuit_open_circuit_impedance, circuit_open_circuit_dc_resistance, np_array1.
  exact (dc_of_sweep (fun w => htc cs w wres) (fun n => open_circuit_impedance n n1 n2)). Qed.

Theorem g_element_dc_resistance_eq cs circ id : gpost cs = Ok circ -> loads_ok cs ->
  g_element_dc_resistance R leb rnd ofZ wres circ id = circuit_element_dc_resistance R leb rnd ofZ wres cs id.
Proof. intros H L. unfold g_element_dc_resistance. rewrite (g_element_impedance_eq cs circ id _ H L).
  unfold circuit_element_impedance, circuit_element_dc_resistance, np_array1.
  exact (dc_of_sweep (fun w => htc cs w wres) (fun n => element_impedance n id)). Qed.

Lemma dc_outcome (r1 r2 : res (list (option C))) :
  same_outcome r1 r2 ->
  same_outcome (bind r1 (fun t1 => bind (list_at t1 0%nat) (fun t2 => Ok (py_real R t2))))
               (bind r2 (fun t1 => bind (list_at t1 0%nat) (fun t2 => Ok (py_real R t2)))).
Proof. intros O. apply bind_same_outcome; [exact O|]. intros a. apply same_outcome_refl. Qed.

Theorem g_open_circuit_dc_resistance_outcome cs circ n1 n2 : gpost cs = Ok circ ->
  same_outcome (g_open_circuit_dc_resistance R leb rnd ofZ wres circ n1 n2)
               (circuit_open_circuit_dc_resistance R leb rnd ofZ wres cs n1 n2).
Proof. intros H. unfold g_open_circuit_dc_resistance.
  pose proof (dc_outcome _ _ (g_open_circuit_impedance_outcome cs circ n1 n2 (np_array1 [f0 R]) H)) as O.
  unfold circuit_open_circuit_impedance, np_array1 in O.
  rewrite (dc_of_sweep (fun w => htc cs w wres) (fun n => open_circuit_impedance n n1 n2)) in O. exact O. Qed.

Theorem g_element_dc_resistance_outcome cs circ id : gpost cs = Ok circ ->
  same_outcome (g_element_dc_resistance R leb rnd ofZ wres circ id)
               (circuit_element_dc_resistance R leb rnd ofZ wres cs id).
Proof. intros H. unfold g_element_dc_resistance.
  pose proof (dc_outcome _ _ (g_element_impedance_outcome cs circ id (np_array1 [f0 R]) H)) as O.
  unfold circuit_element_impedance, np_array1 in O.
  rewrite (dc_of_sweep (fun w => htc cs w wres) (fun n => element_impedance n id)) in O. exact O. Qed.

(* ====================================================================================================== *)
(* B. Circuit/state_space_model.py                                                                         *)
(* ====================================================================================================== *)
(* {c.id: float(c.value[key]) for c in [c for c in circuit.components if c.type == '<type string>']} *)
Lemma component_values_gen (k : ckind) (key : string) (cs : list comp) :
  Model.MatrixPrims.map_res (fun c => bind (vget R c key) (fun v => Ok (cid c, v)))
    (filter (fun c => label_eqb (ctype R c) (kind_name k)) cs)
  = component_values R k key cs.
Proof. unfold component_values. rewrite map_res_mapM. f_equal. apply filter_ext. intros c. unfold ctype. apply kind_name_inj. Qed.

Lemma component_values_keys (k : ckind) (key : string) (cs : list comp) (d : list (label * R)) :
  component_values R k key cs = Ok d -> map fst d = map cid (filter (fun c => ckind_eqb (ck c) k) cs).
Proof. unfold component_values. generalize (filter (fun c : comp => ckind_eqb (ck c) k) cs) as l. intros l. revert d.
  induction l as [|c l IH]; intros d H; cbn [mapM] in H.
  - injection H as <-. reflexivity.
  - destruct (vget R c key) as [v|e]; cbn [bind] in H; [|discriminate H].
    destruct (mapM _ l) as [d'|e]; cbn [bind] in H; [|discriminate H]. injection H as <-.
    cbn [map fst]. rewrite (IH d' eq_refl). reflexivity. Qed.

Lemma component_values_nodup (k : ckind) (key : string) (cs : list comp) (d : list (label * R)) :
  NoDup (map cid cs) -> component_values R k key cs = Ok d -> NoDup (map fst (embed_values R d)).
Proof. intros ND H. unfold embed_values. rewrite map_map. cbn [fst].
  change (map (fun x : label * R => fst x) d) with (map fst d).
  rewrite (component_values_keys k key cs d H). apply NoDup_map_filter. exact ND. Qed.

Lemma dict_real_to_complex_embed (d : list (label * R)) : dict_real_to_complex R d = embed_values R d.
Proof. reflexivity. Qed.

Lemma transform_circuit_nodup (cs : list comp) (w : R) (n : network C) :
  htc cs w wres = Ok n -> NoDup (branch_ids n) /\ NoDup (map cid cs).
Proof. intros H. split; [|exact (proj1 (proj2 (ground_thm R leb rnd ofZ cs w wres n H)))].
  unfold transform_circuit in H. apply bind_ok in H. destruct H as [g [_ H]]. apply bind_ok in H. destruct H as [bs [_ H]].
  destruct (validate_ok C _ _ H) as [-> [ND _]]. exact ND. Qed.

(* the computed A is square and B has as many rows *)
Lemma ssm_square (K : fops) (n : network K) (cvals lvals : list (label * K)) (m : ssm K) :
  state_space_matrices K n cvals lvals = Ok m ->
  List.length (ss_A m) = ss_nst K cvals lvals /\ List.length (ss_B m) = ss_nst K cvals lvals.
Proof. unfold state_space_matrices. destruct (element_incidence_matrix _ _ _); [|discriminate]. cbn [bind].
  destruct (QL K n lvals); [|discriminate]. cbn [bind]. destruct (inverse (mna_matrix n)) as [iA|]; [|discriminate].
  destruct (inverse (mat_mul _ _ _)) as [sA|]; [|discriminate]. intros H. injection H as <-. cbn [ss_A ss_B].
  assert (LI : List.length (invLambda K cvals lvals) = ss_nst K cvals lvals).
  { unfold invLambda, diag. rewrite !map_length, seq_length. unfold lam. rewrite app_length, !map_length. reflexivity. }
  split.
  - unfold mat_mul at 1. rewrite map_length. exact LI.
  - unfold mat_mul at 1. rewrite map_length. unfold mat_mul at 1. rewrite map_length. unfold mat_opp. rewrite map_length. exact LI. Qed.

Lemma current_row_rows (K : fops) (n : network K) (cvals : list (label * K)) (id : label) (c : nat) (r : list K) :
  a_rows (np_atleast_2d (current_row K n cvals id c r)) = [r].
Proof. unfold current_row. destruct (_ || _ || _)%bool; reflexivity. Qed.

(* the regenerated constructor on arrays whose shapes fit *)
Lemma StateSpaceModel_new_ok (K : fops) (A B Cm D : arr2 K) :
  np_shape0 A = np_shape1 A -> np_shape0 B = np_shape0 A -> np_shape1 Cm = np_shape0 A -> np_shape0 D = np_shape0 Cm ->
  np_shape1 D = np_shape1 B ->
  g_StateSpaceModel_new K A B Cm D
  = Ok {| StateSpaceModel_A := A; StateSpaceModel_B := B; StateSpaceModel_C := Cm; StateSpaceModel_D := D |}.
Proof. intros H1 H2 H3 H4 H5. unfold g_StateSpaceModel_new, g_StateSpaceModel_post_init.
  cbn [StateSpaceModel_A StateSpaceModel_B StateSpaceModel_C StateSpaceModel_D].
  rewrite (proj2 (Nat.eqb_eq _ _) H1), (proj2 (Nat.eqb_eq _ _) H2), (proj2 (Nat.eqb_eq _ _) H3), (proj2 (Nat.eqb_eq _ _) H4),
    (proj2 (Nat.eqb_eq _ _) H5). reflexivity. Qed.

Lemma StateSpaceModel_new_spec (K : fops) (A B Cm D : arr2 K) :
  g_StateSpaceModel_new K A B Cm D
  = if (Nat.eqb (np_shape0 A) (np_shape1 A) && Nat.eqb (np_shape0 B) (np_shape0 A) && Nat.eqb (np_shape1 Cm) (np_shape0 A)
        && Nat.eqb (np_shape0 D) (np_shape0 Cm) && Nat.eqb (np_shape1 D) (np_shape1 B))%bool
    then Ok {| StateSpaceModel_A := A; StateSpaceModel_B := B; StateSpaceModel_C := Cm; StateSpaceModel_D := D |}
    else Err EValue.
Proof. unfold g_StateSpaceModel_new, g_StateSpaceModel_post_init. cbv zeta.
  cbn [StateSpaceModel_A StateSpaceModel_B StateSpaceModel_C StateSpaceModel_D].
  repeat (match goal with |- context [Nat.eqb ?a ?b] => destruct (Nat.eqb a b) end; cbn [negb andb bind]; [|reflexivity]).
  reflexivity. Qed.

(* the Python object that corresponds to a model: rows and column counts *)
Definition sp_arrays (K : fops) (n : network K) (cvals lvals : list (label * K)) (m : ssm K) : StateSpaceModel K :=
  {| StateSpaceModel_A := {| a_cols := ss_nst K cvals lvals; a_rows := ss_A m |};
     StateSpaceModel_B := {| a_cols := ss_nS K n lvals; a_rows := ss_B m |};
     StateSpaceModel_C := {| a_cols := ss_nst K cvals lvals; a_rows := ss_C m |};
     StateSpaceModel_D := {| a_cols := ss_nS K n lvals; a_rows := ss_D m |} |}.
(* ... and the model a Python object carries: its rows *)
Definition ssm_of_sp (K : fops) (s : StateSpaceModel K) : ssm K :=
  {| ss_A := a_rows (StateSpaceModel_A s); ss_B := a_rows (StateSpaceModel_B s);
     ss_C := a_rows (StateSpaceModel_C s); ss_D := a_rows (StateSpaceModel_D s) |}.

Lemma g_state_space_model_arrays_gen cs circ pots vids cids :
  Circuit_components R circ = cs -> gtc circ (f0 R) wres = htc cs (f0 R) wres ->
  g_state_space_model R leb rnd ofZ wres circ pots vids cids
  = bind (htc cs (f0 R) wres) (fun n =>
    bind (component_values R KCapacitor "C" cs) (fun cv =>
    bind (component_values R KInductance "L" cs) (fun lv =>
    bind (state_space_model C n (embed_values R cv) (embed_values R lv) pots vids cids) (fun m =>
    Ok (sp_arrays C n (embed_values R cv) (embed_values R lv) m))))).
Proof. intros Hcs Htc. unfold g_state_space_model.
  rewrite Htc, Hcs.
  destruct (htc cs (f0 R) wres) as [n|e] eqn:TC; cbn [bind]; [|reflexivity].
  destruct (transform_circuit_nodup cs (f0 R) n TC) as [ND NDcs].
  change (lbl "capacitor") with (kind_name KCapacitor). change (lbl "inductance") with (kind_name KInductance).
  rewrite !component_values_gen.
  destruct (component_values R KCapacitor "C" cs) as [cv|e] eqn:CV; cbn [bind]; [|reflexivity].
  destruct (component_values R KInductance "L" cs) as [lv|e] eqn:LV; cbn [bind]; [|reflexivity].
  pose proof (component_values_nodup _ _ cs cv NDcs CV) as NDc.
  pose proof (component_values_nodup _ _ cs lv NDcs LV) as NDl.
  change (dict_real_to_complex R) with (embed_values R).
  assert (Ec : dict_of_items cv = cv).
  { apply dict_of_items_distinct. unfold embed_values in NDc. rewrite map_map in NDc. exact NDc. }
  assert (El : dict_of_items lv = lv).
  { apply dict_of_items_distinct. unfold embed_values in NDl. rewrite map_map in NDl. exact NDl. }
  rewrite Ec, El.
  set (cvals := embed_values R cv) in *. set (lvals := embed_values R lv) in *.
  change (py_state_space.nodal_state_space_model__default_node_index_mapper C) with (py_label_mapping.default_node_mapper C).
  change (py_state_space.nodal_state_space_model__default_voltage_source_index_mapper C)
    with (py_label_mapping.alphabetic_voltage_source_mapper C).
  change (py_state_space.nodal_state_space_model__default_current_source_index_mapper C)
    with (py_label_mapping.alphabetic_current_source_mapper C).
  rewrite (nodal_state_space_model_eq C COK n cvals lvals ND). unfold state_space_model.
  destruct (nodal_state_space_model C n cvals lvals) as [m|e] eqn:NS; cbn [bind]; [|reflexivity].
  unfold nodal_state_space_model in NS.
  destruct (ssm_rows C COK n cvals lvals m NS) as [HC HD]. destruct (ssm_square C n cvals lvals m NS) as [HA HB].
  cbv zeta. unfold stacked_C, stacked_D.
  (* the three loops building C *)
  rewrite (for_res_vstack C (H:=atleast_2d_arr2) _ (c_row_for_potential C n cvals lvals m)
             (fun _ r => {| a_cols := ss_nst C cvals lvals; a_rows := [r] |}) pots _
             (c_row_for_potential_eq C n cvals lvals m HC HD) (fun _ _ => eq_refl)).
  destruct (mapR (c_row_for_potential C n cvals lvals m) pots) as [c1|e] eqn:M1; cbn [bind]; [|reflexivity].
  rewrite (for_res_vstack C (H:=atleast_2d_arr2) _ (c_row_voltage C n cvals lvals m)
             (fun _ r => {| a_cols := ss_nst C cvals lvals; a_rows := [r] |}) vids _
             (c_row_voltage_eq C n cvals lvals m HC HD) (fun _ _ => eq_refl)).
  destruct (mapR (c_row_voltage C n cvals lvals m) vids) as [c2|e] eqn:M2; cbn [bind]; [|reflexivity].
  rewrite (for_res_vstack C (H:=atleast_2d_ndarr) _ (c_row_current C n cvals lvals m)
             (fun id r => current_row C n cvals id (ss_nst C cvals lvals) r) cids _
             (c_row_current_eq C n cvals lvals ND m HC HD NDc) (fun id r => current_row_rows C n cvals id _ r)).
  destruct (mapR (c_row_current C n cvals lvals m) cids) as [c3|e] eqn:M3; cbn [bind]; [|reflexivity].
  (* the three loops building D *)
  rewrite (for_res_vstack C (H:=atleast_2d_arr2) _ (d_row_for_potential C n lvals m)
             (fun _ r => {| a_cols := ss_nS C n lvals; a_rows := [r] |}) pots _
             (d_row_for_potential_eq C n cvals lvals m HC HD) (fun _ _ => eq_refl)).
  destruct (mapR (d_row_for_potential C n lvals m) pots) as [d1|e] eqn:N1; cbn [bind]; [|reflexivity].
  rewrite (for_res_vstack C (H:=atleast_2d_arr2) _ (d_row_voltage C n lvals m)
             (fun _ r => {| a_cols := ss_nS C n lvals; a_rows := [r] |}) vids _
             (d_row_voltage_eq C n cvals lvals m HC HD) (fun _ _ => eq_refl)).
  destruct (mapR (d_row_voltage C n lvals m) vids) as [d2|e] eqn:N2; cbn [bind]; [|reflexivity].
  rewrite (for_res_vstack C (H:=atleast_2d_ndarr) _ (d_row_current C n cvals lvals m)
             (fun id r => current_row C n cvals id (ss_nS C n lvals) r) cids _
             (d_row_current_eq C n cvals lvals m HC HD NDc) (fun id r => current_row_rows C n cvals id _ r)).
  destruct (mapR (d_row_current C n cvals lvals m) cids) as [d3|e] eqn:N3; cbn [bind]; [|reflexivity].
  (* the constructor: the shapes fit *)
  cbn [a_cols a_rows np_ndarray_0 app].
  rewrite StateSpaceModel_new_ok.
  - unfold sp_arrays. cbn [ss_A ss_B ss_C ss_D nssm_of m_A m_B np_shape0 np_shape1 a_cols a_rows].
    unfold np_shape0. cbn [a_rows]. rewrite HA, <- !app_assoc. reflexivity.
  - unfold np_shape0, np_shape1. cbn [nssm_of m_A a_cols a_rows]. exact HA.
  - unfold np_shape0. cbn [nssm_of m_A m_B a_rows]. rewrite HA, HB. reflexivity.
  - reflexivity.
  - unfold np_shape0. cbn [a_rows]. rewrite !app_length.
    rewrite (mapR_length _ _ _ M1), (mapR_length _ _ _ M2), (mapR_length _ _ _ M3),
            (mapR_length _ _ _ N1), (mapR_length _ _ _ N2), (mapR_length _ _ _ N3). reflexivity.
  - reflexivity. Qed.

Theorem g_state_space_model_arrays cs circ pots vids cids : gpost cs = Ok circ -> loads_ok cs ->
  g_state_space_model R leb rnd ofZ wres circ pots vids cids
  = bind (htc cs (f0 R) wres) (fun n =>
    bind (component_values R KCapacitor "C" cs) (fun cv =>
    bind (component_values R KInductance "L" cs) (fun lv =>
    bind (state_space_model C n (embed_values R cv) (embed_values R lv) pots vids cids) (fun m =>
    Ok (sp_arrays C n (embed_values R cv) (embed_values R lv) m))))).
Proof. intros H L. apply g_state_space_model_arrays_gen; [exact (proj2 (post_init_ok R cs circ H))|].
  exact (gtc_eq R leb rnd ofZ cs circ (f0 R) wres H L). Qed.

(* the model of the returned object is the hand-written composition *)
Lemma model_of_arrays cs circ pots vids cids :
  g_state_space_model R leb rnd ofZ wres circ pots vids cids
  = bind (htc cs (f0 R) wres) (fun n =>
    bind (component_values R KCapacitor "C" cs) (fun cv =>
    bind (component_values R KInductance "L" cs) (fun lv =>
    bind (state_space_model C n (embed_values R cv) (embed_values R lv) pots vids cids) (fun m =>
    Ok (sp_arrays C n (embed_values R cv) (embed_values R lv) m))))) ->
  match g_state_space_model R leb rnd ofZ wres circ pots vids cids with Ok s => Ok (ssm_of_sp C s) | Err e => Err e end
  = circuit_state_space_model R leb rnd ofZ wres cs pots vids cids.
Proof. intros E. rewrite E. unfold circuit_state_space_model.
  destruct (htc cs (f0 R) wres) as [n|e]; cbn [bind]; [|reflexivity].
  destruct (component_values R KCapacitor "C" cs) as [cv|e]; cbn [bind]; [|reflexivity].
  destruct (component_values R KInductance "L" cs) as [lv|e]; cbn [bind]; [|reflexivity].
  destruct (state_space_model C n _ _ pots vids cids) as [m|e]; cbn [bind]; [|reflexivity].
  destruct m; reflexivity. Qed.

Theorem g_state_space_model_eq cs circ pots vids cids : gpost cs = Ok circ -> loads_ok cs ->
  match g_state_space_model R leb rnd ofZ wres circ pots vids cids with Ok s => Ok (ssm_of_sp C s) | Err e => Err e end
  = circuit_state_space_model R leb rnd ofZ wres cs pots vids cids.
Proof. intros H L. apply model_of_arrays. exact (g_state_space_model_arrays cs circ pots vids cids H L). Qed.

(* without the hypothesis on the loads: the same result, or an exception on both sides *)
Theorem g_state_space_model_outcome cs circ pots vids cids : gpost cs = Ok circ ->
  same_outcome
    (match g_state_space_model R leb rnd ofZ wres circ pots vids cids with Ok s => Ok (ssm_of_sp C s) | Err e => Err e end)
    (circuit_state_space_model R leb rnd ofZ wres cs pots vids cids).
Proof. intros H. pose proof (gtc_outcome R leb rnd ofZ cs circ (f0 R) wres H) as O.
  destruct (gtc circ (f0 R) wres) as [n|e1] eqn:E1, (htc cs (f0 R) wres) as [n'|e2] eqn:E2; cbn [same_outcome] in O;
    try contradiction.
  - subst n'. apply same_outcome_eq. apply model_of_arrays.
    apply g_state_space_model_arrays_gen; [exact (proj2 (post_init_ok R cs circ H))|]. rewrite E1, E2. reflexivity.
  - unfold g_state_space_model, circuit_state_space_model. rewrite E1, E2. exact I. Qed.

(* the shapes of the returned object: __post_init__ has accepted them *)
Lemma StateSpaceModel_new_shapes (K : fops) (A B Cm D : arr2 K) (s : StateSpaceModel K) :
  g_StateSpaceModel_new K A B Cm D = Ok s ->
  s = {| StateSpaceModel_A := A; StateSpaceModel_B := B; StateSpaceModel_C := Cm; StateSpaceModel_D := D |}
  /\ np_shape0 A = np_shape1 A /\ np_shape0 B = np_shape0 A /\ np_shape1 Cm = np_shape0 A /\ np_shape0 D = np_shape0 Cm
  /\ np_shape1 D = np_shape1 B.
Proof. unfold g_StateSpaceModel_new, g_StateSpaceModel_post_init. cbv zeta.
  cbn [StateSpaceModel_A StateSpaceModel_B StateSpaceModel_C StateSpaceModel_D]. intros H.
  repeat match type of H with
  | bind (if negb (Nat.eqb ?a ?b) then _ else _) _ = _ =>
      destruct (Nat.eqb_spec a b) as [?E|?E]; cbn [negb bind] in H; [|discriminate H]
  end.
  cbn [bind] in H. injection H as <-. repeat split; assumption. Qed.

Theorem g_state_space_model_shapes circ pots vids cids s :
  g_state_space_model R leb rnd ofZ wres circ pots vids cids = Ok s ->
  np_shape0 (StateSpaceModel_A s) = np_shape1 (StateSpaceModel_A s)
  /\ np_shape0 (StateSpaceModel_B s) = np_shape0 (StateSpaceModel_A s)
  /\ np_shape1 (StateSpaceModel_C s) = np_shape0 (StateSpaceModel_A s)
  /\ np_shape0 (StateSpaceModel_D s) = np_shape0 (StateSpaceModel_C s)
  /\ np_shape1 (StateSpaceModel_D s) = np_shape1 (StateSpaceModel_B s).
Proof. unfold g_state_space_model. intros H.
  repeat match type of H with
  | bind _ _ = Ok _ => apply bind_ok in H; destruct H as [? [_ H]]; cbv zeta in H
  end.
  apply StateSpaceModel_new_shapes in H. destruct H as [-> H]. exact H. Qed.

(* the defaults of the three id lists, as written in the source: [] *)
Theorem state_space_model_defaults :
  g_state_space_model__default_potential_nodes = [] /\ g_state_space_model__default_voltage_ids = []
  /\ g_state_space_model__default_current_ids = [].
Proof. repeat split; reflexivity. Qed.

End WrappersEq.

(* ====================================================================================================== *)
(* C. the unrestricted equalities are false                                                                *)
(* ====================================================================================================== *)
(* Without the hypothesis on the loads the regenerated wrappers and the model differ in the exception, for the reason recorded
   in Properties/C02c.v (C02c_transform_circuit_full_refuted): a lamp with a single terminal raises IndexError in the code
   where the model reports KeyError.  Witness over the rationals: a resistor and a one-terminal lamp, the sweep [0]. *)
From Coq Require Import QArith Qcanon.
From CC Require Import Model.RunCircuit.

Lemma refute_by_errors {A B} (p : res A) (G : A -> res B) (Hd : res B) :
  match p with Ok _ => true | Err _ => false end = true ->
  match bind p G with Err EIndex => true | _ => false end = true ->
  match Hd with Err EKeyError => true | _ => false end = true ->
  ~ (forall a, p = Ok a -> G a = Hd).
Proof. intros E0 E1 E2 F. destruct p as [a|e]; [|discriminate E0]. specialize (F a eq_refl). cbn [bind] in E1.
  rewrite F in E1. destruct Hd as [b|[]]; discriminate. Qed.

Definition bad_cs : list (comp Qcops) :=
  [ @Build_comp Qcops KResistor (lbl "r") [lbl "1"; lbl "0"] [(lbl "R", qc 1 1)] [] (qc 1 1, qc 0 1) [];
    @Build_comp Qcops KLamp (lbl "p") [lbl "1"] [(lbl "P", qc 1 1)] [] (qc 1 1, qc 0 1) [] ].
Definition bad_wres : Qc := qc 1 1000.

Lemma open_circuit_impedance_full_refuted :
  ~ (forall circ, g_Circuit_post_init Qcops bad_cs = Ok circ ->
       g_open_circuit_impedance Qcops Qc_leb Qc_round Qc_ofZ bad_wres circ (lbl "1") (lbl "0") [qc 0 1]
       = circuit_open_circuit_impedance Qcops Qc_leb Qc_round Qc_ofZ bad_wres bad_cs (lbl "1") (lbl "0") [qc 0 1]).
Proof. apply (refute_by_errors (g_Circuit_post_init Qcops bad_cs)
          (fun circ => g_open_circuit_impedance Qcops Qc_leb Qc_round Qc_ofZ bad_wres circ (lbl "1") (lbl "0") [qc 0 1]));
  vm_compute; reflexivity. Qed.

Lemma element_impedance_full_refuted :
  ~ (forall circ, g_Circuit_post_init Qcops bad_cs = Ok circ ->
       g_element_impedance Qcops Qc_leb Qc_round Qc_ofZ bad_wres circ (lbl "r") [qc 0 1]
       = circuit_element_impedance Qcops Qc_leb Qc_round Qc_ofZ bad_wres bad_cs (lbl "r") [qc 0 1]).
Proof. apply (refute_by_errors (g_Circuit_post_init Qcops bad_cs)
          (fun circ => g_element_impedance Qcops Qc_leb Qc_round Qc_ofZ bad_wres circ (lbl "r") [qc 0 1]));
  vm_compute; reflexivity. Qed.

Lemma open_circuit_dc_resistance_full_refuted :
  ~ (forall circ, g_Circuit_post_init Qcops bad_cs = Ok circ ->
       g_open_circuit_dc_resistance Qcops Qc_leb Qc_round Qc_ofZ bad_wres circ (lbl "1") (lbl "0")
       = circuit_open_circuit_dc_resistance Qcops Qc_leb Qc_round Qc_ofZ bad_wres bad_cs (lbl "1") (lbl "0")).
Proof. apply (refute_by_errors (g_Circuit_post_init Qcops bad_cs)
          (fun circ => g_open_circuit_dc_resistance Qcops Qc_leb Qc_round Qc_ofZ bad_wres circ (lbl "1") (lbl "0")));
  vm_compute; reflexivity. Qed.

Lemma element_dc_resistance_full_refuted :
  ~ (forall circ, g_Circuit_post_init Qcops bad_cs = Ok circ ->
       g_element_dc_resistance Qcops Qc_leb Qc_round Qc_ofZ bad_wres circ (lbl "r")
       = circuit_element_dc_resistance Qcops Qc_leb Qc_round Qc_ofZ bad_wres bad_cs (lbl "r")).
Proof. apply (refute_by_errors (g_Circuit_post_init Qcops bad_cs)
          (fun circ => g_element_dc_resistance Qcops Qc_leb Qc_round Qc_ofZ bad_wres circ (lbl "r")));
  vm_compute; reflexivity. Qed.

Lemma state_space_model_full_refuted :
  ~ (forall circ, g_Circuit_post_init Qcops bad_cs = Ok circ ->
       match g_state_space_model Qcops Qc_leb Qc_round Qc_ofZ bad_wres circ [] [] [] with
       | Ok s => Ok (ssm_of_sp CQ s) | Err e => Err e end
       = circuit_state_space_model Qcops Qc_leb Qc_round Qc_ofZ bad_wres bad_cs [] [] []).
Proof. apply (refute_by_errors (g_Circuit_post_init Qcops bad_cs)
          (fun circ => match g_state_space_model Qcops Qc_leb Qc_round Qc_ofZ bad_wres circ [] [] [] with
                       | Ok s => Ok (ssm_of_sp CQ s) | Err e => Err e end));
  vm_compute; reflexivity. Qed.
